// x05: conformance driver of the growth check X05 -- the algebra of key and parameters objects (KeyLaws.tla).
//
//	-cases <ndjson> -out <trace>     executes every case of Plan_KeyLaws.tla: builds the real key objects of the abstract
//	                                 keys with the REAL constructors (keyfactory, and the public constructors called again
//	                                 with a key's own accessor values: rebuild.go) and records every relation between them
//	-replay <file> -out <trace>      re-executes the case of a recorded violation
//
// The driver only executes the real code and records what it returned (Equal both directions, parameters Equal,
// IDRequirement, OutputPrefix, KID, every accessor twice, PublicKey twice, ...); every verdict is TLC's
// (spec/trace/Trace_KeyLaws.tla judging with spec/sys/KeyLaws.tla).
package main

import (
	"bufio"
	"crypto/sha256"
	"encoding/binary"
	"encoding/hex"
	"encoding/json"
	"flag"
	"fmt"
	"os"
	"strconv"
	"strings"

	"github.com/tink-crypto/tink-go/v2/key"

	"verifharness/keyfactory"
	"verifharness/vt"
)

type absKey struct {
	Kt    string            `json:"kt"`
	Kind  string            `json:"kind"`
	P     keyfactory.Params `json:"p"`
	Mat   int               `json:"mat"`
	ID    string            `json:"id"`
	Route string            `json:"route"`
}

type planCase struct {
	Why  string            `json:"why"`
	Keys []json.RawMessage `json:"keys"`
}

// built is a real key object together with the inputs the driver gave to its constructor.
type built struct {
	k      key.Key
	params key.Parameters // the parameters object given to the constructor
	ckid   string         // the custom kid given to the constructor ("" when none)
	route  string         // how it was really built: factory | rebuilt | derived
	err    error
	panic  bool
}

func parseID(s string) uint32 {
	v, err := strconv.ParseUint(s, 16, 32)
	if err != nil || len(s) != 8 {
		vt.Fatal("bad id %q in plan", s)
	}
	return uint32(v)
}

func matStream(mat int) int64 { return int64(1000 + mat) }

// ---------------------------------------------------------------------------------------------------- RSA material
var rsaGen = map[string]*keyfactory.RSAKey{}

// otherRSA returns RSA key material other than keyfactory's table entry (generated once per run and size).
func otherRSA(bits, e, mat int) (*keyfactory.RSAKey, error) {
	name := fmt.Sprintf("%d/%d/%d", bits, e, mat)
	if k, ok := rsaGen[name]; ok {
		return k, nil
	}
	k, err := keyfactory.GenerateRSA(bits, e)
	if err != nil {
		return nil, err
	}
	rsaGen[name] = k
	return k, nil
}

// ---------------------------------------------------------------------------------------------------- building
func isCustom(d absKey) bool {
	s, ok := d.P["kidStrategy"].(string)
	return ok && s == "CUSTOM"
}

// customKid is the custom kid the driver gives keys of material `mat` whose parameters have the CUSTOM kid strategy (an
// input of the constructor chosen here, so that KID() can be judged against it).
func customKid(d absKey) string {
	if !isCustom(d) {
		return ""
	}
	return fmt.Sprintf("kid of material %d \u00e9\u4e16", d.Mat)
}

func factory(d absKey, params key.Parameters) (key.Key, error) {
	id := parseID(d.ID)
	m := keyfactory.Material{Class: "random", Rng: vt.Rng(matStream(d.Mat)), FixedID: &id}
	k, err := keyfactory.NewKey(d.Kt, d.Kind, d.P, params, m)
	if err != nil || k == nil {
		if err == nil {
			err = fmt.Errorf("x05: constructor returned nil without error")
		}
		return nil, err
	}
	var o override
	if isRSA(d.Kt) && d.Mat != 1 {
		if o.rsa, err = otherRSA(d.P.Int("modulusBits"), d.P.Int("exponent"), d.Mat); err != nil {
			return nil, err
		}
	}
	if isCustom(d) {
		// keyfactory picks a custom kid of its own: replace it by the driver's
		ck := customKid(d)
		o.kid = &ck
	}
	if o.rsa != nil || o.kid != nil {
		return rebuild(k, o)
	}
	return k, nil
}

// build makes the real object of abstract key d (the j-th of its case; prev are the objects built before it).
func build(d absKey, prev []built, descs []absKey) (b built) {
	b.route = d.Route
	if p, _ := vt.Try(func() {
		b.params, b.err = keyfactory.NewParameters(d.Kt, d.P)
		if b.err != nil {
			return
		}
		switch d.Route {
		case "rebuilt":
			// the public constructor, called with the accessor values of the preceding key of the case
			j := len(prev) - 1
			if j < 0 || prev[j].k == nil {
				b.err = fmt.Errorf("x05: nothing to rebuild from")
				return
			}
			b.ckid = prev[j].ckid
			b.k, b.err = rebuild(prev[j].k, override{})
			return
		case "derived":
			// the public constructor, called with the accessor values of the FIRST key of the case, except the
			// parameters and the id (0 when the new parameters have no id requirement, as every caller must)
			if len(prev) > 0 && prev[0].k != nil && descs[0].Kt == d.Kt && descs[0].Kind == d.Kind && descs[0].Mat == d.Mat {
				id := parseID(d.ID)
				if !b.params.HasIDRequirement() {
					id = 0
				}
				o := override{params: b.params}
				if takesID(prev[0].k) {
					o.id = &id
				}
				ck := ""
				if isCustom(d) {
					ck = prev[0].ckid
					if ck == "" {
						ck = defaultKID
					}
					o.kid = &ck
				}
				if k, err := rebuild(prev[0].k, o); err == nil && k != nil {
					b.k, b.ckid = k, ck
					return
				}
			}
			// the first key's material does not fit the new parameters (other size / curve / nested key): independent key
			b.route = "factory"
			fallthrough
		default:
			b.ckid = customKid(d)
			b.k, b.err = factory(d, b.params)
		}
	}); p {
		b.panic, b.k = true, nil
	}
	if b.k == nil && b.err == nil && !b.panic {
		b.err = fmt.Errorf("x05: no key")
	}
	return b
}

// ---------------------------------------------------------------------------------------------------- observing
func sha(s string) string {
	h := sha256.Sum256([]byte(s))
	return hex.EncodeToString(h[:12])
}

func secretFP(k key.Key) string {
	ss := keyfactory.SecretBytes(k)
	if len(ss) == 0 {
		return ""
	}
	h := sha256.New()
	for _, s := range ss {
		var n [4]byte
		binary.BigEndian.PutUint32(n[:], uint32(len(s)))
		h.Write(n[:])
		h.Write(s)
	}
	return hex.EncodeToString(h.Sum(nil)[:12])
}

func noPub() map[string]any {
	return map[string]any{"has": false, "err": false, "stable": true, "peq": true, "peqR": true, "id": "00000000", "req": false,
		"hasprefix": false, "prefix": "", "cross": false}
}

func emptyObs(b built) map[string]any {
	return map[string]any{"built": false, "panic": b.panic, "route": b.route, "gotype": "", "ptype": "", "id": "00000000", "req": false,
		"phas": false, "hasprefix": false, "prefix": "", "haskid": false, "kid": "", "kidset": false, "ckid": hex.EncodeToString([]byte(b.ckid)),
		"unstable": []string{}, "aliased": []string{}, "nacc": 0, "pbuilt": false, "pbuiltR": false, "pfresh": false, "pfreshR": false, "pself": false,
		"self": false, "value": "", "secret": "", "pub": noPub()}
}

type prefixer interface{ OutputPrefix() []byte }
type kider interface{ KID() (string, bool) }
type pubber interface{ PublicKey() (key.Key, error) }

// publicOf returns PublicKey() of a private key (nil when k has no such accessor or it failed).
func publicOf(k key.Key) key.Key {
	pk, ok := k.(pubber)
	if !ok {
		return nil
	}
	p, err := pk.PublicKey()
	if err != nil {
		return nil
	}
	return p
}

func observe(d absKey, b built) map[string]any {
	o := emptyObs(b)
	if b.k == nil {
		return o
	}
	k := b.k
	if p, _ := vt.Try(func() {
		o["built"] = true
		o["gotype"] = typeName(k)
		kp := k.Parameters()
		o["ptype"] = typeName(kp)
		id, req := k.IDRequirement()
		o["id"], o["req"] = vt.ID4(id), req
		o["phas"] = kp.HasIDRequirement()
		if x, ok := k.(prefixer); ok {
			o["hasprefix"], o["prefix"] = true, vt.Hex(x.OutputPrefix())
		}
		if x, ok := k.(kider); ok {
			kid, set := x.KID()
			o["haskid"], o["kid"], o["kidset"] = true, hex.EncodeToString([]byte(kid)), set
		}
		// every accessor, twice
		a1 := accessors(k, 0)
		a2 := accessors(k, 0)
		u := unstable(a1, a2)
		if u == nil {
			u = []string{}
		}
		o["unstable"], o["nacc"] = u, len(a1)
		o["value"] = sha(flat(a1))
		o["secret"] = secretFP(k)
		// parameters <-> key
		o["pbuilt"], o["pbuiltR"] = kp.Equal(b.params), b.params.Equal(kp)
		p2, err := keyfactory.NewParameters(d.Kt, d.P)
		if err == nil {
			o["pfresh"], o["pfreshR"] = b.params.Equal(p2), p2.Equal(b.params)
		}
		o["pself"], o["self"] = kp.Equal(kp), k.Equal(k)
		// the public key of a private key
		if x, ok := k.(pubber); ok {
			pb := noPub()
			pb["has"] = true
			pk1, err1 := x.PublicKey()
			pk2, err2 := x.PublicKey()
			if err1 != nil || err2 != nil || pk1 == nil || pk2 == nil {
				pb["err"] = true
			} else {
				pb["stable"] = pk1.Equal(pk2) && pk2.Equal(pk1) && flat(accessors(pk1, 0)) == flat(accessors(pk2, 0))
				pb["peq"], pb["peqR"] = pk1.Parameters().Equal(kp), kp.Equal(pk1.Parameters())
				pid, preq := pk1.IDRequirement()
				pb["id"], pb["req"] = vt.ID4(pid), preq
				if y, ok := pk1.(prefixer); ok {
					pb["hasprefix"], pb["prefix"] = true, vt.Hex(y.OutputPrefix())
				}
				pb["cross"] = k.Equal(pk1) || pk1.Equal(k)
			}
			o["pub"] = pb
		}
	}); p {
		o["panic"] = true
	}
	return o
}

func matrix(n int, f func(i, j int) bool) [][]bool {
	m := make([][]bool, n)
	for i := range m {
		m[i] = make([]bool, n)
		for j := range m[i] {
			m[i][j] = f(i, j)
		}
	}
	return m
}

// ---------------------------------------------------------------------------------------------------- cases
func doCase(n int, c planCase) vt.Ev {
	descs := make([]absKey, len(c.Keys))
	for i, raw := range c.Keys {
		if err := json.Unmarshal(raw, &descs[i]); err != nil {
			vt.Fatal("case %d key %d: %v", n, i, err)
		}
	}
	if c.Why == "idref" {
		return doIDRef(n, c, descs[0])
	}
	bs := make([]built, 0, len(descs))
	for i := range descs {
		bs = append(bs, build(descs[i], bs, descs))
	}
	obs := make([]map[string]any, len(descs))
	for i := range descs {
		obs[i] = observe(descs[i], bs[i])
	}
	ev := vt.Ev{"ev": "rel", "n": n, "why": c.Why, "keys": c.Keys, "obs": obs, "panic": false}
	ok := func(i, j int) bool { return bs[i].k != nil && bs[j].k != nil }
	if p, _ := vt.Try(func() {
		ev["eq"] = matrix(len(descs), func(i, j int) bool { return ok(i, j) && bs[i].k.Equal(bs[j].k) })
		ev["peq"] = matrix(len(descs), func(i, j int) bool { return ok(i, j) && bs[i].k.Parameters().Equal(bs[j].k.Parameters()) })
		pubs := make([]key.Key, len(descs))
		for i := range bs {
			if bs[i].k != nil {
				pubs[i] = publicOf(bs[i].k)
			}
		}
		ev["pubeq"] = matrix(len(descs), func(i, j int) bool { return pubs[i] != nil && pubs[j] != nil && pubs[i].Equal(pubs[j]) })
		ev["pubkeq"] = matrix(len(descs), func(i, j int) bool {
			return pubs[i] != nil && pubs[j] == nil && bs[j].k != nil && pubs[i].Equal(bs[j].k)
		})
	}); p {
		ev["panic"] = true
		f := matrix(len(descs), func(i, j int) bool { return false })
		for _, m := range []string{"eq", "peq", "pubeq", "pubkeq"} {
			if _, has := ev[m]; !has {
				ev[m] = f
			}
		}
	}
	// last (it may damage a key object whose accessor hands out its own memory): overwrite every byte slice the
	// accessors returned and look at the accessors again
	for i := range bs {
		if bs[i].k != nil {
			k := bs[i].k
			if p, _ := vt.Try(func() { obs[i]["aliased"] = aliased(k) }); p {
				obs[i]["panic"] = true
			}
		}
	}
	return ev
}

const nonZeroID = 0x01020304

func doIDRef(n int, c planCase, d absKey) vt.Ev {
	x := map[string]any{"panic": false, "built": false, "takesid": false, "nonzero": vt.ID4(nonZeroID), "refused": false, "zeroOk": false,
		"accid": "00000000", "accreq": false, "acceq": false}
	ev := vt.Ev{"ev": "idref", "n": n, "why": c.Why, "keys": c.Keys, "x": x}
	b := build(d, nil, []absKey{d})
	if b.k == nil {
		x["panic"] = b.panic
		return ev
	}
	x["built"] = true
	if p, _ := vt.Try(func() {
		x["takesid"] = takesID(b.k)
		if !takesID(b.k) {
			return
		}
		nz, z := uint32(nonZeroID), uint32(0)
		ck := b.ckid
		o := override{id: &nz}
		if ck != "" {
			o.kid = &ck
		}
		k1, err := rebuild(b.k, o)
		x["refused"] = err != nil || k1 == nil
		o.id = &z
		k0, err0 := rebuild(b.k, o)
		x["zeroOk"] = err0 == nil && k0 != nil && k0.Equal(b.k) && b.k.Equal(k0)
		if err == nil && k1 != nil {
			// the constructor took the non-zero id: what does the key report, and is it the key with id 0?
			id, req := k1.IDRequirement()
			x["accid"], x["accreq"] = vt.ID4(id), req
			x["acceq"] = k0 != nil && k1.Equal(k0) && k0.Equal(k1)
		}
	}); p {
		x["panic"] = true
	}
	return ev
}

func readCases(path string) []planCase {
	f, err := os.Open(path)
	if err != nil {
		vt.Fatal("open %s: %v", path, err)
	}
	defer f.Close()
	var out []planCase
	sc := bufio.NewScanner(f)
	sc.Buffer(make([]byte, 1<<20), 1<<26)
	for sc.Scan() {
		line := strings.TrimSpace(sc.Text())
		if line == "" {
			continue
		}
		var c planCase
		if err := json.Unmarshal([]byte(line), &c); err != nil {
			vt.Fatal("case: %v", err)
		}
		out = append(out, c)
	}
	if err := sc.Err(); err != nil {
		vt.Fatal("read %s: %v", path, err)
	}
	return out
}

func main() {
	cases := flag.String("cases", "", "ndjson cases written by Plan_KeyLaws.tla")
	out := flag.String("out", "", "trace file")
	replay := flag.String("replay", "", "replay file: re-execute its case only")
	flag.Parse()
	if *out == "" {
		vt.Fatal("-out required")
	}
	var cs []planCase
	if *replay != "" {
		b, err := os.ReadFile(*replay)
		if err != nil {
			vt.Fatal("replay file: %v", err)
		}
		var r struct {
			Event planCase `json:"event"`
		}
		if err := json.Unmarshal(b, &r); err != nil || len(r.Event.Keys) == 0 {
			vt.Fatal("replay file has no case: %v", err)
		}
		cs = []planCase{r.Event}
	} else {
		cs = readCases(*cases)
	}
	w := vt.NewWriter(*out)
	defer w.Close()
	for i, c := range cs {
		w.Emit(doCase(i, c))
	}
}
