package main

import (
	"encoding/hex"
	"fmt"

	aeadctrhmac "github.com/tink-crypto/tink-go/v2/aead/aesctrhmac"
	"github.com/tink-crypto/tink-go/v2/aead/aesgcm"
	"github.com/tink-crypto/tink-go/v2/aead/aesgcmsiv"
	"github.com/tink-crypto/tink-go/v2/aead/chacha20poly1305"
	"github.com/tink-crypto/tink-go/v2/aead/xaesgcm"
	"github.com/tink-crypto/tink-go/v2/aead/xchacha20poly1305"
	"github.com/tink-crypto/tink-go/v2/daead/aessiv"
	"github.com/tink-crypto/tink-go/v2/hybrid/ecies"
	"github.com/tink-crypto/tink-go/v2/hybrid/hpke"
	"github.com/tink-crypto/tink-go/v2/insecuresecretdataaccess"
	"github.com/tink-crypto/tink-go/v2/jwt/jwtecdsa"
	"github.com/tink-crypto/tink-go/v2/jwt/jwthmac"
	"github.com/tink-crypto/tink-go/v2/jwt/jwtmldsa"
	"github.com/tink-crypto/tink-go/v2/jwt/jwtrsassapkcs1"
	"github.com/tink-crypto/tink-go/v2/jwt/jwtrsassapss"
	"github.com/tink-crypto/tink-go/v2/key"
	"github.com/tink-crypto/tink-go/v2/keyderivation/prfbasedkeyderivation"
	"github.com/tink-crypto/tink-go/v2/mac/aescmac"
	"github.com/tink-crypto/tink-go/v2/mac/hmac"
	"github.com/tink-crypto/tink-go/v2/prf/aescmacprf"
	"github.com/tink-crypto/tink-go/v2/prf/hkdfprf"
	"github.com/tink-crypto/tink-go/v2/prf/hmacprf"
	"github.com/tink-crypto/tink-go/v2/secretdata"
	"github.com/tink-crypto/tink-go/v2/signature/compositemldsa"
	"github.com/tink-crypto/tink-go/v2/signature/ecdsa"
	"github.com/tink-crypto/tink-go/v2/signature/ed25519"
	"github.com/tink-crypto/tink-go/v2/signature/mldsa"
	"github.com/tink-crypto/tink-go/v2/signature/rsassapkcs1"
	"github.com/tink-crypto/tink-go/v2/signature/rsassapss"
	"github.com/tink-crypto/tink-go/v2/signature/slhdsa"
	streamctrhmac "github.com/tink-crypto/tink-go/v2/streamingaead/aesctrhmac"
	"github.com/tink-crypto/tink-go/v2/streamingaead/aesgcmhkdf"

	"verifharness/keyfactory"
)

// override names the inputs of a key constructor that differ from the values the original key reports through its
// accessors.  nil / not set = take the value from the original key.
type override struct {
	params key.Parameters       // other parameters object (must be of the key type's parameters type)
	id     *uint32              // other id requirement
	kid    *string              // JWT: the custom kid to use when the (new) parameters have the CUSTOM strategy
	rsa    *keyfactory.RSAKey   // RSA families: other key material
}

const defaultKID = "kid-of-x05"

var errNoID = fmt.Errorf("x05: the constructor of this key type takes no id requirement")

func sec(b []byte) secretdata.Bytes {
	return secretdata.NewBytesFromData(b, insecuresecretdataaccess.Token{})
}

func unhexOrDie(s string) []byte {
	b, err := hex.DecodeString(s)
	if err != nil {
		panic("x05: bad hex in RSA material")
	}
	return b
}

// takesID reports whether the public constructor of k's type has an id-requirement input.
func takesID(k key.Key) bool {
	switch k.(type) {
	case *aescmacprf.Key, *hkdfprf.Key, *hmacprf.Key, *aesgcmhkdf.Key, *streamctrhmac.Key:
		return false
	}
	return true
}

// paramsOr returns o.params as P when set, else the original parameters.
func paramsOr[P any](o override, orig key.Parameters) (P, error) {
	src := orig
	if o.params != nil {
		src = o.params
	}
	p, ok := src.(P)
	if !ok {
		var zero P
		return zero, fmt.Errorf("x05: parameters of type %T cannot be given to a constructor wanting %T", src, zero)
	}
	return p, nil
}

func idOr(o override, k key.Key) uint32 {
	if o.id != nil {
		return *o.id
	}
	id, _ := k.IDRequirement()
	return id
}

// kidOr decides the custom-kid inputs of a JWT constructor: a custom kid is passed iff the (new) parameters use the
// CUSTOM strategy -- the original key's kid when it had a custom one, else the override / default.
func kidOr(o override, custom bool, origKID string, origCustom bool) (string, bool) {
	if !custom {
		return "", false
	}
	if o.kid != nil {
		return *o.kid, true
	}
	if origCustom {
		return origKID, true
	}
	return defaultKID, true
}

// rebuild calls the REAL public constructor of k's key type with the values k reports through its accessors, except
// for the overridden inputs.  With an empty override the result is "a key built from equal inputs".
func rebuild(k key.Key, o override) (key.Key, error) {
	id := idOr(o, k)
	switch k := k.(type) {
	// ------------------------------------------------------------------ symmetric
	case *aesgcm.Key:
		p, err := paramsOr[*aesgcm.Parameters](o, k.Parameters())
		if err != nil {
			return nil, err
		}
		return aesgcm.NewKey(k.KeyBytes(), id, p)
	case *aeadctrhmac.Key:
		p, err := paramsOr[*aeadctrhmac.Parameters](o, k.Parameters())
		if err != nil {
			return nil, err
		}
		return aeadctrhmac.NewKey(aeadctrhmac.KeyOpts{AESKeyBytes: k.AESKeyBytes(), HMACKeyBytes: k.HMACKeyBytes(), IDRequirement: id, Parameters: p})
	case *aesgcmsiv.Key:
		p, err := paramsOr[*aesgcmsiv.Parameters](o, k.Parameters())
		if err != nil {
			return nil, err
		}
		return aesgcmsiv.NewKey(k.KeyBytes(), id, p)
	case *chacha20poly1305.Key:
		p, err := paramsOr[*chacha20poly1305.Parameters](o, k.Parameters())
		if err != nil {
			return nil, err
		}
		return chacha20poly1305.NewKey(k.KeyBytes(), id, p)
	case *xchacha20poly1305.Key:
		p, err := paramsOr[*xchacha20poly1305.Parameters](o, k.Parameters())
		if err != nil {
			return nil, err
		}
		return xchacha20poly1305.NewKey(k.KeyBytes(), id, p)
	case *xaesgcm.Key:
		p, err := paramsOr[*xaesgcm.Parameters](o, k.Parameters())
		if err != nil {
			return nil, err
		}
		return xaesgcm.NewKey(k.KeyBytes(), id, p)
	case *aessiv.Key:
		p, err := paramsOr[*aessiv.Parameters](o, k.Parameters())
		if err != nil {
			return nil, err
		}
		return aessiv.NewKey(k.KeyBytes(), id, p)
	case *hmac.Key:
		p, err := paramsOr[*hmac.Parameters](o, k.Parameters())
		if err != nil {
			return nil, err
		}
		return hmac.NewKey(k.KeyBytes(), p, id)
	case *aescmac.Key:
		p, err := paramsOr[*aescmac.Parameters](o, k.Parameters())
		if err != nil {
			return nil, err
		}
		return aescmac.NewKey(k.KeyBytes(), p, id)
	case *hmacprf.Key:
		if o.id != nil {
			return nil, errNoID
		}
		p, err := paramsOr[*hmacprf.Parameters](o, k.Parameters())
		if err != nil {
			return nil, err
		}
		return hmacprf.NewKey(k.KeyBytes(), p)
	case *hkdfprf.Key:
		if o.id != nil {
			return nil, errNoID
		}
		p, err := paramsOr[*hkdfprf.Parameters](o, k.Parameters())
		if err != nil {
			return nil, err
		}
		return hkdfprf.NewKey(k.KeyBytes(), p)
	case *aescmacprf.Key:
		if o.id != nil {
			return nil, errNoID
		}
		if o.params != nil {
			if _, err := paramsOr[*aescmacprf.Parameters](o, k.Parameters()); err != nil {
				return nil, err
			}
			if !o.params.Equal(k.Parameters()) {
				return nil, fmt.Errorf("x05: aescmacprf.NewKey derives its parameters from the key length")
			}
		}
		return aescmacprf.NewKey(k.KeyBytes())
	case *aesgcmhkdf.Key:
		if o.id != nil {
			return nil, errNoID
		}
		p, err := paramsOr[*aesgcmhkdf.Parameters](o, k.Parameters())
		if err != nil {
			return nil, err
		}
		return aesgcmhkdf.NewKey(p, k.KeyBytes())
	case *streamctrhmac.Key:
		if o.id != nil {
			return nil, errNoID
		}
		p, err := paramsOr[*streamctrhmac.Parameters](o, k.Parameters())
		if err != nil {
			return nil, err
		}
		return streamctrhmac.NewKey(p, k.KeyBytes())
	case *prfbasedkeyderivation.Key:
		p, err := paramsOr[*prfbasedkeyderivation.Parameters](o, k.Parameters())
		if err != nil {
			return nil, err
		}
		return prfbasedkeyderivation.NewKey(p, k.PRFKey(), id)
	case *jwthmac.Key:
		p, err := paramsOr[*jwthmac.Parameters](o, k.Parameters())
		if err != nil {
			return nil, err
		}
		ok, oc := k.KID()
		oc = oc && k.Parameters().(*jwthmac.Parameters).KIDStrategy() == jwthmac.CustomKID
		kid, has := kidOr(o, p.KIDStrategy() == jwthmac.CustomKID, ok, oc)
		return jwthmac.NewKey(jwthmac.KeyOpts{KeyBytes: k.KeyBytes(), IDRequirement: id, CustomKID: kid, HasCustomKID: has, Parameters: p})

	// ------------------------------------------------------------------ signatures
	case *ecdsa.PublicKey:
		p, err := paramsOr[*ecdsa.Parameters](o, k.Parameters())
		if err != nil {
			return nil, err
		}
		return ecdsa.NewPublicKey(k.PublicPoint(), id, p)
	case *ecdsa.PrivateKey:
		p, err := paramsOr[*ecdsa.Parameters](o, k.Parameters())
		if err != nil {
			return nil, err
		}
		return ecdsa.NewPrivateKey(k.PrivateKeyValue(), id, p)
	case *ed25519.PublicKey:
		p, err := paramsOr[*ed25519.Parameters](o, k.Parameters())
		if err != nil {
			return nil, err
		}
		return ed25519.NewPublicKey(k.KeyBytes(), id, *p)
	case *ed25519.PrivateKey:
		p, err := paramsOr[*ed25519.Parameters](o, k.Parameters())
		if err != nil {
			return nil, err
		}
		return ed25519.NewPrivateKey(k.PrivateKeyBytes(), id, *p)
	case *mldsa.PublicKey:
		p, err := paramsOr[*mldsa.Parameters](o, k.Parameters())
		if err != nil {
			return nil, err
		}
		return mldsa.NewPublicKey(k.KeyBytes(), id, p)
	case *mldsa.PrivateKey:
		p, err := paramsOr[*mldsa.Parameters](o, k.Parameters())
		if err != nil {
			return nil, err
		}
		return mldsa.NewPrivateKey(k.PrivateKeyBytes(), id, p)
	case *slhdsa.PublicKey:
		p, err := paramsOr[*slhdsa.Parameters](o, k.Parameters())
		if err != nil {
			return nil, err
		}
		return slhdsa.NewPublicKey(k.KeyBytes(), id, p)
	case *slhdsa.PrivateKey:
		p, err := paramsOr[*slhdsa.Parameters](o, k.Parameters())
		if err != nil {
			return nil, err
		}
		return slhdsa.NewPrivateKey(k.PrivateKeyBytes(), id, p)
	case *rsassapkcs1.PublicKey:
		p, err := paramsOr[*rsassapkcs1.Parameters](o, k.Parameters())
		if err != nil {
			return nil, err
		}
		n := k.Modulus()
		if o.rsa != nil {
			n = unhexOrDie(o.rsa.N)
		}
		return rsassapkcs1.NewPublicKey(n, id, p)
	case *rsassapkcs1.PrivateKey:
		pk, err := k.PublicKey()
		if err != nil {
			return nil, err
		}
		pub, err := rebuild(pk, o)
		if err != nil {
			return nil, err
		}
		v := rsassapkcs1.PrivateKeyValues{P: k.P(), Q: k.Q(), D: k.D()}
		if o.rsa != nil {
			v = rsassapkcs1.PrivateKeyValues{P: sec(unhexOrDie(o.rsa.P)), Q: sec(unhexOrDie(o.rsa.Q)), D: sec(unhexOrDie(o.rsa.D))}
		}
		return rsassapkcs1.NewPrivateKey(pub.(*rsassapkcs1.PublicKey), v)
	case *rsassapss.PublicKey:
		p, err := paramsOr[*rsassapss.Parameters](o, k.Parameters())
		if err != nil {
			return nil, err
		}
		n := k.Modulus()
		if o.rsa != nil {
			n = unhexOrDie(o.rsa.N)
		}
		return rsassapss.NewPublicKey(n, id, p)
	case *rsassapss.PrivateKey:
		pk, err := k.PublicKey()
		if err != nil {
			return nil, err
		}
		pub, err := rebuild(pk, o)
		if err != nil {
			return nil, err
		}
		v := rsassapss.PrivateKeyValues{P: k.P(), Q: k.Q(), D: k.D()}
		if o.rsa != nil {
			v = rsassapss.PrivateKeyValues{P: sec(unhexOrDie(o.rsa.P)), Q: sec(unhexOrDie(o.rsa.Q)), D: sec(unhexOrDie(o.rsa.D))}
		}
		return rsassapss.NewPrivateKey(pub.(*rsassapss.PublicKey), v)
	case *compositemldsa.PublicKey:
		p, err := paramsOr[*compositemldsa.Parameters](o, k.Parameters())
		if err != nil {
			return nil, err
		}
		return compositemldsa.NewPublicKey(k.MLDSAPublicKey(), k.ClassicalPublicKey(), id, p)
	case *compositemldsa.PrivateKey:
		p, err := paramsOr[*compositemldsa.Parameters](o, k.Parameters())
		if err != nil {
			return nil, err
		}
		return compositemldsa.NewPrivateKey(k.MLDSAPrivateKey(), k.ClassicalPrivateKey(), id, p)

	// ------------------------------------------------------------------ hybrid
	case *hpke.PublicKey:
		p, err := paramsOr[*hpke.Parameters](o, k.Parameters())
		if err != nil {
			return nil, err
		}
		return hpke.NewPublicKey(k.PublicKeyBytes(), id, p)
	case *hpke.PrivateKey:
		p, err := paramsOr[*hpke.Parameters](o, k.Parameters())
		if err != nil {
			return nil, err
		}
		return hpke.NewPrivateKey(k.PrivateKeyBytes(), id, p)
	case *ecies.PublicKey:
		p, err := paramsOr[*ecies.Parameters](o, k.Parameters())
		if err != nil {
			return nil, err
		}
		return ecies.NewPublicKey(k.PublicKeyBytes(), id, p)
	case *ecies.PrivateKey:
		p, err := paramsOr[*ecies.Parameters](o, k.Parameters())
		if err != nil {
			return nil, err
		}
		return ecies.NewPrivateKey(k.PrivateKeyBytes(), id, p)

	// ------------------------------------------------------------------ JWT signatures
	case *jwtecdsa.PublicKey:
		p, err := paramsOr[*jwtecdsa.Parameters](o, k.Parameters())
		if err != nil {
			return nil, err
		}
		ok, oc := k.KID()
		oc = oc && k.Parameters().(*jwtecdsa.Parameters).KIDStrategy() == jwtecdsa.CustomKID
		kid, has := kidOr(o, p.KIDStrategy() == jwtecdsa.CustomKID, ok, oc)
		return jwtecdsa.NewPublicKey(jwtecdsa.PublicKeyOpts{PublicPoint: k.PublicPoint(), IDRequirement: id, CustomKID: kid, HasCustomKID: has, Parameters: p})
	case *jwtecdsa.PrivateKey:
		pk, err := k.PublicKey()
		if err != nil {
			return nil, err
		}
		pub, err := rebuild(pk, o)
		if err != nil {
			return nil, err
		}
		return jwtecdsa.NewPrivateKeyFromPublicKey(k.PrivateKeyValue(), pub.(*jwtecdsa.PublicKey))
	case *jwtmldsa.PublicKey:
		p, err := paramsOr[*jwtmldsa.Parameters](o, k.Parameters())
		if err != nil {
			return nil, err
		}
		ok, oc := k.KID()
		oc = oc && k.Parameters().(*jwtmldsa.Parameters).KIDStrategy() == jwtmldsa.CustomKID
		kid, has := kidOr(o, p.KIDStrategy() == jwtmldsa.CustomKID, ok, oc)
		return jwtmldsa.NewPublicKey(jwtmldsa.PublicKeyOpts{KeyBytes: k.KeyBytes(), IDRequirement: id, CustomKID: kid, HasCustomKID: has, Parameters: p})
	case *jwtmldsa.PrivateKey:
		pk, err := k.PublicKey()
		if err != nil {
			return nil, err
		}
		pub, err := rebuild(pk, o)
		if err != nil {
			return nil, err
		}
		return jwtmldsa.NewPrivateKeyFromPublicKey(k.PrivateKeyValue(), pub.(*jwtmldsa.PublicKey))
	case *jwtrsassapkcs1.PublicKey:
		p, err := paramsOr[*jwtrsassapkcs1.Parameters](o, k.Parameters())
		if err != nil {
			return nil, err
		}
		ok, oc := k.KID()
		oc = oc && k.Parameters().(*jwtrsassapkcs1.Parameters).KIDStrategy() == jwtrsassapkcs1.CustomKID
		kid, has := kidOr(o, p.KIDStrategy() == jwtrsassapkcs1.CustomKID, ok, oc)
		n := k.Modulus()
		if o.rsa != nil {
			n = unhexOrDie(o.rsa.N)
		}
		return jwtrsassapkcs1.NewPublicKey(jwtrsassapkcs1.PublicKeyOpts{Modulus: n, IDRequirement: id, CustomKID: kid, HasCustomKID: has, Parameters: p})
	case *jwtrsassapkcs1.PrivateKey:
		pk, err := k.PublicKey()
		if err != nil {
			return nil, err
		}
		pub, err := rebuild(pk, o)
		if err != nil {
			return nil, err
		}
		opts := jwtrsassapkcs1.PrivateKeyOpts{PublicKey: pub.(*jwtrsassapkcs1.PublicKey), D: k.D(), P: k.P(), Q: k.Q()}
		if o.rsa != nil {
			opts.D, opts.P, opts.Q = sec(unhexOrDie(o.rsa.D)), sec(unhexOrDie(o.rsa.P)), sec(unhexOrDie(o.rsa.Q))
		}
		return jwtrsassapkcs1.NewPrivateKey(opts)
	case *jwtrsassapss.PublicKey:
		p, err := paramsOr[*jwtrsassapss.Parameters](o, k.Parameters())
		if err != nil {
			return nil, err
		}
		ok, oc := k.KID()
		oc = oc && k.Parameters().(*jwtrsassapss.Parameters).KIDStrategy() == jwtrsassapss.CustomKID
		kid, has := kidOr(o, p.KIDStrategy() == jwtrsassapss.CustomKID, ok, oc)
		n := k.Modulus()
		if o.rsa != nil {
			n = unhexOrDie(o.rsa.N)
		}
		return jwtrsassapss.NewPublicKey(jwtrsassapss.PublicKeyOpts{Modulus: n, IDRequirement: id, CustomKID: kid, HasCustomKID: has, Parameters: p})
	case *jwtrsassapss.PrivateKey:
		pk, err := k.PublicKey()
		if err != nil {
			return nil, err
		}
		pub, err := rebuild(pk, o)
		if err != nil {
			return nil, err
		}
		opts := jwtrsassapss.PrivateKeyOpts{PublicKey: pub.(*jwtrsassapss.PublicKey), D: k.D(), P: k.P(), Q: k.Q()}
		if o.rsa != nil {
			opts.D, opts.P, opts.Q = sec(unhexOrDie(o.rsa.D)), sec(unhexOrDie(o.rsa.P)), sec(unhexOrDie(o.rsa.Q))
		}
		return jwtrsassapss.NewPrivateKey(opts)
	}
	return nil, fmt.Errorf("x05: no constructor known for key type %T", k)
}

// isRSA reports whether the key type's material is an RSA key (taken from keyfactory's fixed table).
func isRSA(kt string) bool {
	switch kt {
	case "RsaSsaPkcs1", "RsaSsaPss", "JwtRsaSsaPkcs1", "JwtRsaSsaPss":
		return true
	}
	return false
}
