package main

import (
	"fmt"
	"math/big"
	"reflect"
	"sort"
	"strings"

	"github.com/tink-crypto/tink-go/v2/insecuresecretdataaccess"
	"github.com/tink-crypto/tink-go/v2/key"
	"github.com/tink-crypto/tink-go/v2/secretdata"

	"verifharness/vt"
)

var (
	secretBytesType = reflect.TypeOf(secretdata.Bytes{})
	bytesType       = reflect.TypeOf([]byte(nil))
	keyIface        = reflect.TypeOf((*key.Key)(nil)).Elem()
	paramsIface     = reflect.TypeOf((*key.Parameters)(nil)).Elem()
	errIface        = reflect.TypeOf((*error)(nil)).Elem()
	bigIntType      = reflect.TypeOf((*big.Int)(nil))
)

// typeName is the Go type of an object as "package.Type" (pointer stripped).
func typeName(x any) string {
	t := reflect.TypeOf(x)
	if t == nil {
		return "nil"
	}
	for t.Kind() == reflect.Pointer {
		t = t.Elem()
	}
	p := t.PkgPath()
	p = strings.TrimPrefix(p, "github.com/tink-crypto/tink-go/v2/")
	return p + "." + t.Name()
}

func isNilValue(v reflect.Value) bool {
	switch v.Kind() {
	case reflect.Pointer, reflect.Interface, reflect.Map, reflect.Slice, reflect.Func, reflect.Chan:
		return v.IsNil()
	}
	return false
}

// accessors calls every exported niladic method of obj (a key or a parameters object) once and renders every result
// as a string: the object's observable value.  Nested keys and parameters (public key of a private key, PRF key of a
// deriver key, DEM parameters, the halves of a composite key) are rendered recursively.  The rendering is taken
// immediately (hex copies), so it does not alias anything the object returned.
func accessors(obj any, depth int) map[string]string {
	out := map[string]string{}
	v := reflect.ValueOf(obj)
	if !v.IsValid() || isNilValue(v) {
		return out
	}
	t := v.Type()
	for i := 0; i < t.NumMethod(); i++ {
		m := t.Method(i)
		mt := m.Type
		if mt.NumIn() != 1 || mt.NumOut() == 0 || mt.NumOut() > 2 {
			continue
		}
		var res []reflect.Value
		if p, pv := vt.Try(func() { res = v.Method(i).Call(nil) }); p {
			out[m.Name] = fmt.Sprintf("PANIC %v", pv)
			continue
		}
		parts := make([]string, len(res))
		for j, r := range res {
			parts[j] = render(r, depth)
		}
		out[m.Name] = strings.Join(parts, " , ")
	}
	return out
}

func render(r reflect.Value, depth int) string {
	t := r.Type()
	switch {
	case t == secretBytesType:
		sb := r.Interface().(secretdata.Bytes)
		return "secret:" + vt.Hex(sb.Data(insecuresecretdataaccess.Token{}))
	case t == bytesType:
		b := r.Bytes()
		if b == nil {
			return "bytes:"
		}
		return "bytes:" + vt.Hex(b)
	case t == bigIntType:
		if r.IsNil() {
			return "bigint:nil"
		}
		return "bigint:" + r.Interface().(*big.Int).Text(16)
	case t.Implements(errIface) && t.Kind() == reflect.Interface:
		if r.IsNil() {
			return "err:nil"
		}
		return "err:set"
	case t.Implements(keyIface) || t.Implements(paramsIface):
		if isNilValue(r) {
			return "nil"
		}
		if depth >= 3 {
			return "<depth>"
		}
		return "{" + typeName(r.Interface()) + " " + flat(accessors(r.Interface(), depth+1)) + "}"
	}
	switch r.Kind() {
	case reflect.Bool:
		return fmt.Sprintf("%v", r.Bool())
	case reflect.Int, reflect.Int8, reflect.Int16, reflect.Int32, reflect.Int64:
		return fmt.Sprintf("%s(%d)", t.Name(), r.Int())
	case reflect.Uint, reflect.Uint8, reflect.Uint16, reflect.Uint32, reflect.Uint64:
		return fmt.Sprintf("%s(%d)", t.Name(), r.Uint())
	case reflect.String:
		return fmt.Sprintf("%q", r.String())
	}
	return fmt.Sprintf("%s:%v", t.String(), r.Interface())
}

// flat renders an accessor map deterministically.
func flat(m map[string]string) string {
	ks := make([]string, 0, len(m))
	for k := range m {
		ks = append(ks, k)
	}
	sort.Strings(ks)
	var sb strings.Builder
	for i, k := range ks {
		if i > 0 {
			sb.WriteString("; ")
		}
		sb.WriteString(k)
		sb.WriteString("=")
		sb.WriteString(m[k])
	}
	return sb.String()
}

// unstable lists the accessors whose two renderings differ.
func unstable(a, b map[string]string) []string {
	var out []string
	for k, v := range a {
		if b[k] != v {
			out = append(out, k)
		}
	}
	for k := range b {
		if _, ok := a[k]; !ok {
			out = append(out, k)
		}
	}
	sort.Strings(out)
	return out
}

// scribble calls every niladic accessor of obj that returns a []byte and overwrites the returned slice (and does the
// same, one level down, on the keys and parameters obj hands out).  An accessor that returned memory of the object
// itself thereby changes the object; secretdata.Bytes values are not touched.
func scribble(obj any, depth int) {
	v := reflect.ValueOf(obj)
	if !v.IsValid() || isNilValue(v) {
		return
	}
	t := v.Type()
	for i := 0; i < t.NumMethod(); i++ {
		mt := t.Method(i).Type
		if mt.NumIn() != 1 || mt.NumOut() == 0 || mt.NumOut() > 2 {
			continue
		}
		ot := mt.Out(0)
		if ot != bytesType && !(depth < 2 && (ot.Implements(keyIface) || ot.Implements(paramsIface))) {
			continue
		}
		var res []reflect.Value
		if p, _ := vt.Try(func() { res = v.Method(i).Call(nil) }); p || len(res) == 0 {
			continue
		}
		if ot == bytesType {
			b := res[0].Bytes()
			for j := range b {
				b[j] ^= 0xff
			}
			continue
		}
		if !isNilValue(res[0]) {
			scribble(res[0].Interface(), depth+1)
		}
	}
}

// aliased lists the accessors whose value changes after the byte slices returned earlier were overwritten.
func aliased(k any) []string {
	before := accessors(k, 0)
	scribble(k, 0)
	out := unstable(before, accessors(k, 0))
	if out == nil {
		out = []string{}
	}
	return out
}
