// c06: conformance driver for property C06 (hybrid encryption: HPKE per RFC 9180 base mode incl. the
// ML-KEM / X-Wing KEMs, and ECIES-AEAD-HKDF).  It executes the real Tink code and records one ndjson
// event per public Encrypt / Decrypt call; spec/trace/Trace_Hybrid.tla judges every event against
// HPKE.tla / XWing.tla / ECIES.tla.  The driver never decides anything: it records.
//
//	c06 -plan plan.ndjson                      writes the inputs of the reference sender (Plan_Hybrid.tla)
//	c06 -out trace.ndjson [-refcases f]         Tink -> spec events, plus Decrypt of the reference-made cases
//	c06 -out trace.ndjson -replay file          re-executes one recorded event against the current tree
//
// ML-KEM decapsulation is the assumed primitive of DESIGN.md section 3: for the ML-KEM based KEMs the
// event carries the answer of Go's crypto/mlkem (not Tink) for the encapsulated key found in the
// ciphertext; the specification checks that this is the query it makes itself.
package main

import (
	"bufio"
	"bytes"
	"crypto/elliptic"
	"crypto/mlkem"
	"crypto/sha3"
	"encoding/json"
	"flag"
	"fmt"
	"math/big"
	"math/rand"
	"os"
	"strings"

	"verifharness/vt"

	"github.com/tink-crypto/tink-go/v2/aead/aesctrhmac"
	"github.com/tink-crypto/tink-go/v2/aead/aesgcm"
	aeadsubtle "github.com/tink-crypto/tink-go/v2/aead/subtle"
	"github.com/tink-crypto/tink-go/v2/aead/xchacha20poly1305"
	"github.com/tink-crypto/tink-go/v2/daead/aessiv"
	daeadsubtle "github.com/tink-crypto/tink-go/v2/daead/subtle"
	"github.com/tink-crypto/tink-go/v2/hybrid"
	"github.com/tink-crypto/tink-go/v2/hybrid/ecies"
	"github.com/tink-crypto/tink-go/v2/hybrid/hpke"
	hsubtle "github.com/tink-crypto/tink-go/v2/hybrid/subtle"
	"github.com/tink-crypto/tink-go/v2/insecuresecretdataaccess"
	"github.com/tink-crypto/tink-go/v2/key"
	"github.com/tink-crypto/tink-go/v2/keyset"
	macsubtle "github.com/tink-crypto/tink-go/v2/mac/subtle"
	tinkpb "github.com/tink-crypto/tink-go/v2/proto/tink_go_proto"
	"github.com/tink-crypto/tink-go/v2/secretdata"
	"github.com/tink-crypto/tink-go/v2/tink"
)

type cfg struct {
	Scheme  string // HPKE | ECIES
	Route   string // factory | subtle | template
	Kem     string // P256 P384 P521 X25519 MLKEM768 MLKEM1024 XWING
	Kdf     string // SHA256 SHA384 SHA512
	Aead    string // AES128GCM AES256GCM CHACHA20POLY1305
	Curve   string // P256 P384 P521 (X25519: refused by the library)
	Hash    string // SHA1 .. SHA512
	Fmt     string // UNCOMPRESSED COMPRESSED DO_NOT_USE_CRUNCHY_UNCOMPRESSED
	Dem     string // AES128GCM AES256GCM AES128CTRHMAC AES256CTRHMAC AES256SIV (XCHACHA20POLY1305: refused)
	Salt    []byte
	Variant string // TINK CRUNCHY NO_PREFIX
	ID      uint32
	Deep    bool // thorough tier: one ciphertext of this configuration gets EVERY cut point and byte position mutated
}

var (
	kems     = []string{"P256", "P384", "P521", "X25519", "MLKEM768", "MLKEM1024", "XWING"}
	kdfs     = []string{"SHA256", "SHA384", "SHA512"}
	aeads    = []string{"AES128GCM", "AES256GCM", "CHACHA20POLY1305"}
	curves   = []string{"P256", "P384", "P521"}
	hashes   = []string{"SHA1", "SHA224", "SHA256", "SHA384", "SHA512"}
	fmts     = []string{"UNCOMPRESSED", "COMPRESSED", "DO_NOT_USE_CRUNCHY_UNCOMPRESSED"}
	dems     = []string{"AES128GCM", "AES256GCM", "AES128CTRHMAC", "AES256CTRHMAC", "AES256SIV"}
	variants = []string{"TINK", "CRUNCHY", "NO_PREFIX"}
	ids      = []uint32{0, 1, 0x01020304, 0x7fffffff, 0x80000000, 0xffffffff}
)

var tok = insecuresecretdataaccess.Token{}

// ---------------------------------------------------------------- lengths used to PLACE mutations (never to judge)
var nEncHPKE = map[string]int{"P256": 65, "P384": 97, "P521": 133, "X25519": 32, "MLKEM768": 1088, "MLKEM1024": 1568, "XWING": 1120}
var nSkHPKE = map[string]int{"P256": 32, "P384": 48, "P521": 66, "X25519": 32, "MLKEM768": 64, "MLKEM1024": 64, "XWING": 32}
var fieldLen = map[string]int{"P256": 32, "P384": 48, "P521": 66}

func (c cfg) prefixLen() int {
	if c.Variant == "NO_PREFIX" {
		return 0
	}
	return 5
}
func (c cfg) encLen() int {
	if c.Scheme == "HPKE" {
		return nEncHPKE[c.Kem]
	}
	n := fieldLen[c.Curve]
	switch c.Fmt {
	case "UNCOMPRESSED":
		return 2*n + 1
	case "COMPRESSED":
		return n + 1
	}
	return 2 * n
}
func (c cfg) skLen() int {
	if c.Scheme == "HPKE" {
		return nSkHPKE[c.Kem]
	}
	return fieldLen[c.Curve]
}
func (c cfg) group() string { // the group whose scalars are private keys
	if c.Scheme == "HPKE" {
		return c.Kem
	}
	return c.Curve
}

// scalar returns a private key for the group: NIST curves need 0 < d < n (top bits of P-521 cleared; a
// rejected draw is redrawn by the caller through the constructor's error), the others take any bytes.
func scalar(r *rand.Rand, group string) []byte {
	n := map[string]int{"P256": 32, "P384": 48, "P521": 66, "X25519": 32, "MLKEM768": 64, "MLKEM1024": 64, "XWING": 32}[group]
	b := vt.Bytes(r, n)
	switch group {
	case "P521":
		b[0] &= 1
	case "P256", "P384":
		b[0] &= 0x7f
	}
	return b
}

// ---------------------------------------------------------------- construction of the real primitives
type party struct {
	c   cfg
	sk  []byte
	sk2 []byte // route factory2raw: the private key of ANOTHER raw key that precedes the matching one in the keyset
	// preArg: first argument (plaintext / ciphertext) of the preceding call of a session, logged with the next event
	preArg []byte
	enc tink.HybridEncrypt
	dec tink.HybridDecrypt
}

func hpkeParams(c cfg) (*hpke.Parameters, error) {
	kem := map[string]hpke.KEMID{"P256": hpke.DHKEM_P256_HKDF_SHA256, "P384": hpke.DHKEM_P384_HKDF_SHA384, "P521": hpke.DHKEM_P521_HKDF_SHA512,
		"X25519": hpke.DHKEM_X25519_HKDF_SHA256, "MLKEM768": hpke.ML_KEM768, "MLKEM1024": hpke.ML_KEM1024, "XWING": hpke.X_WING}[c.Kem]
	kdf := map[string]hpke.KDFID{"SHA256": hpke.HKDFSHA256, "SHA384": hpke.HKDFSHA384, "SHA512": hpke.HKDFSHA512}[c.Kdf]
	aead := map[string]hpke.AEADID{"AES128GCM": hpke.AES128GCM, "AES256GCM": hpke.AES256GCM, "CHACHA20POLY1305": hpke.ChaCha20Poly1305}[c.Aead]
	v := map[string]hpke.Variant{"TINK": hpke.VariantTink, "CRUNCHY": hpke.VariantCrunchy, "NO_PREFIX": hpke.VariantNoPrefix}[c.Variant]
	return hpke.NewParameters(hpke.ParametersOpts{KEMID: kem, KDFID: kdf, AEADID: aead, Variant: v})
}

func demParams(dem string) (key.Parameters, error) {
	switch dem {
	case "AES128GCM", "AES256GCM":
		n := 16
		if dem == "AES256GCM" {
			n = 32
		}
		return aesgcm.NewParameters(aesgcm.ParametersOpts{KeySizeInBytes: n, IVSizeInBytes: 12, TagSizeInBytes: 16, Variant: aesgcm.VariantNoPrefix})
	case "AES128CTRHMAC":
		return aesctrhmac.NewParameters(aesctrhmac.ParametersOpts{AESKeySizeInBytes: 16, HMACKeySizeInBytes: 32, IVSizeInBytes: 16, HashType: aesctrhmac.SHA256, TagSizeInBytes: 16, Variant: aesctrhmac.VariantNoPrefix})
	case "AES256CTRHMAC":
		return aesctrhmac.NewParameters(aesctrhmac.ParametersOpts{AESKeySizeInBytes: 32, HMACKeySizeInBytes: 32, IVSizeInBytes: 16, HashType: aesctrhmac.SHA256, TagSizeInBytes: 32, Variant: aesctrhmac.VariantNoPrefix})
	case "AES256SIV":
		return aessiv.NewParameters(64, aessiv.VariantNoPrefix)
	case "XCHACHA20POLY1305":
		return xchacha20poly1305.NewParameters(xchacha20poly1305.VariantNoPrefix)
	}
	return nil, fmt.Errorf("unknown dem %q", dem)
}

func demName(p key.Parameters) string {
	for _, d := range append(append([]string{}, dems...), "XCHACHA20POLY1305") {
		q, err := demParams(d)
		if err == nil && q.Equal(p) {
			return d
		}
	}
	return "?"
}

func eciesParams(c cfg) (*ecies.Parameters, error) {
	curve := map[string]ecies.CurveType{"P256": ecies.NISTP256, "P384": ecies.NISTP384, "P521": ecies.NISTP521, "X25519": ecies.X25519}[c.Curve]
	hash := map[string]ecies.HashType{"SHA1": ecies.SHA1, "SHA224": ecies.SHA224, "SHA256": ecies.SHA256, "SHA384": ecies.SHA384, "SHA512": ecies.SHA512}[c.Hash]
	pf := map[string]ecies.PointFormat{"UNCOMPRESSED": ecies.UncompressedPointFormat, "COMPRESSED": ecies.CompressedPointFormat,
		"DO_NOT_USE_CRUNCHY_UNCOMPRESSED": ecies.LegacyUncompressedPointFormat, "": ecies.UnspecifiedPointFormat}[c.Fmt]
	v := map[string]ecies.Variant{"TINK": ecies.VariantTink, "CRUNCHY": ecies.VariantCrunchy, "NO_PREFIX": ecies.VariantNoPrefix}[c.Variant]
	dp, err := demParams(c.Dem)
	if err != nil {
		return nil, err
	}
	return ecies.NewParameters(ecies.ParametersOpts{CurveType: curve, HashType: hash, NISTCurvePointFormat: pf, DEMParameters: dp, Salt: c.Salt, Variant: v})
}

// dem is the DEM helper a user of the hybrid/subtle API supplies (hybrid/internal/ecies is not importable).
type dem struct{ name string }

func (d dem) GetSymmetricKeySize() uint32 {
	return map[string]uint32{"AES128GCM": 16, "AES256GCM": 32, "AES128CTRHMAC": 48, "AES256CTRHMAC": 64, "AES256SIV": 64}[d.name]
}
func (d dem) GetAEADOrDAEAD(k []byte) (any, error) {
	switch d.name {
	case "AES128GCM", "AES256GCM":
		return aeadsubtle.NewAESGCM(k)
	case "AES128CTRHMAC", "AES256CTRHMAC":
		n, t := 16, 16
		if d.name == "AES256CTRHMAC" {
			n, t = 32, 32
		}
		ctr, err := aeadsubtle.NewAESCTR(k[:n], 16)
		if err != nil {
			return nil, err
		}
		m, err := macsubtle.NewHMAC("SHA256", k[n:], uint32(t))
		if err != nil {
			return nil, err
		}
		return aeadsubtle.NewEncryptThenAuthenticate(ctr, m, t)
	case "AES256SIV":
		return daeadsubtle.NewAESSIV(k)
	}
	return nil, fmt.Errorf("unknown dem")
}

func fromHandle(h *keyset.Handle) (tink.HybridEncrypt, tink.HybridDecrypt, error) {
	pub, err := h.Public()
	if err != nil {
		return nil, nil, err
	}
	e, err := hybrid.NewHybridEncrypt(pub)
	if err != nil {
		return nil, nil, err
	}
	d, err := hybrid.NewHybridDecrypt(h)
	if err != nil {
		return nil, nil, err
	}
	return e, d, nil
}

// build constructs the real primitives for c with the recipient private key sk. An error means the
// library refuses the configuration (recorded as coverage, not judged: DESIGN section 4).
func build(c cfg, sk []byte, sk2 ...[]byte) (*party, error) {
	p := &party{c: c, sk: append([]byte{}, sk...)}
	if c.Route == "factory2raw" {
		if len(sk2) != 1 || c.Variant != "NO_PREFIX" {
			return nil, fmt.Errorf("factory2raw needs a second key and NO_PREFIX")
		}
		p.sk2 = append([]byte{}, sk2[0]...)
	}
	if c.Route == "subtle" {
		curve, err := hsubtle.GetCurve(map[string]string{"P256": "NIST_P256", "P384": "NIST_P384", "P521": "NIST_P521"}[c.Curve])
		if err != nil {
			return nil, err
		}
		pvt := hsubtle.GetECPrivateKey(curve, sk)
		pubK := pvt.PublicKey
		p.enc, err = hsubtle.NewECIESAEADHKDFHybridEncrypt(&pubK, append([]byte{}, c.Salt...), c.Hash, c.Fmt, dem{c.Dem})
		if err != nil {
			return nil, err
		}
		p.dec, err = hsubtle.NewECIESAEADHKDFHybridDecrypt(pvt, append([]byte{}, c.Salt...), c.Hash, c.Fmt, dem{c.Dem})
		if err != nil {
			return nil, err
		}
		return p, nil
	}
	idReq := c.ID
	if c.Variant == "NO_PREFIX" {
		idReq = 0
	}
	mkKey := func(sk []byte) (key.Key, error) {
		if c.Scheme == "HPKE" {
			params, err := hpkeParams(c)
			if err != nil {
				return nil, err
			}
			return hpke.NewPrivateKey(secretdata.NewBytesFromData(append([]byte{}, sk...), tok), idReq, params)
		}
		params, err := eciesParams(c)
		if err != nil {
			return nil, err
		}
		return ecies.NewPrivateKey(secretdata.NewBytesFromData(append([]byte{}, sk...), tok), idReq, params)
	}
	k, err := mkKey(sk)
	if err != nil {
		return nil, err
	}
	km := keyset.NewManager()
	if p.sk2 != nil { // two raw keys; the matching (primary) one comes second, so Decrypt tries the other key first
		k2, err := mkKey(p.sk2)
		if err != nil {
			return nil, err
		}
		if _, err := km.AddKey(k2); err != nil {
			return nil, err
		}
	}
	id, err := km.AddKey(k)
	if err != nil {
		return nil, err
	}
	if err := km.SetPrimary(id); err != nil {
		return nil, err
	}
	h, err := km.Handle()
	if err != nil {
		return nil, err
	}
	if p.enc, p.dec, err = fromHandle(h); err != nil {
		return nil, err
	}
	return p, nil
}

// fromTemplate generates a fresh key from a key template (the key-manager path) and reads the
// configuration and the private key bytes back from the key object.
func fromTemplate(t *tinkpb.KeyTemplate) (*party, error) {
	h, err := keyset.NewHandle(t)
	if err != nil {
		return nil, err
	}
	ent, err := h.Primary()
	if err != nil {
		return nil, err
	}
	p := &party{}
	switch k := ent.Key().(type) {
	case *hpke.PrivateKey:
		q := k.Parameters().(*hpke.Parameters)
		p.c = cfg{Scheme: "HPKE", Route: "template", Variant: q.Variant().String(), ID: ent.KeyID(),
			Kem: map[hpke.KEMID]string{hpke.DHKEM_P256_HKDF_SHA256: "P256", hpke.DHKEM_P384_HKDF_SHA384: "P384", hpke.DHKEM_P521_HKDF_SHA512: "P521",
				hpke.DHKEM_X25519_HKDF_SHA256: "X25519", hpke.ML_KEM768: "MLKEM768", hpke.ML_KEM1024: "MLKEM1024", hpke.X_WING: "XWING"}[q.KEMID()],
			Kdf:  map[hpke.KDFID]string{hpke.HKDFSHA256: "SHA256", hpke.HKDFSHA384: "SHA384", hpke.HKDFSHA512: "SHA512"}[q.KDFID()],
			Aead: map[hpke.AEADID]string{hpke.AES128GCM: "AES128GCM", hpke.AES256GCM: "AES256GCM", hpke.ChaCha20Poly1305: "CHACHA20POLY1305"}[q.AEADID()]}
		p.sk = k.PrivateKeyBytes().Data(tok)
	case *ecies.PrivateKey:
		q := k.Parameters().(*ecies.Parameters)
		p.c = cfg{Scheme: "ECIES", Route: "template", Variant: q.Variant().String(), ID: ent.KeyID(), Salt: q.Salt(), Dem: demName(q.DEMParameters()),
			Curve: map[ecies.CurveType]string{ecies.NISTP256: "P256", ecies.NISTP384: "P384", ecies.NISTP521: "P521", ecies.X25519: "X25519"}[q.CurveType()],
			Hash:  q.HashType().String(),
			Fmt: map[ecies.PointFormat]string{ecies.UncompressedPointFormat: "UNCOMPRESSED", ecies.CompressedPointFormat: "COMPRESSED",
				ecies.LegacyUncompressedPointFormat: "DO_NOT_USE_CRUNCHY_UNCOMPRESSED"}[q.NISTCurvePointFormat()]}
		p.sk = k.PrivateKeyBytes().Data(tok)
	default:
		return nil, fmt.Errorf("unexpected key type %T", ent.Key())
	}
	if p.c.Variant == "NO_PREFIX" {
		p.c.ID = 0
	}
	if p.enc, p.dec, err = fromHandle(h); err != nil {
		return nil, err
	}
	return p, nil
}

// ---------------------------------------------------------------- the assumed primitive: ML-KEM via Go's crypto/mlkem
type mlAnswer struct {
	Param, Seed, Ct string
	Ok              bool
	Ss              string
}

func mlSeed(c cfg, sk []byte) (param string, seed []byte) {
	switch c.Kem {
	case "MLKEM768":
		return "768", sk
	case "MLKEM1024":
		return "1024", sk
	case "XWING":
		s := sha3.NewSHAKE256()
		s.Write(sk)
		seed = make([]byte, 64)
		s.Read(seed)
		return "768", seed
	}
	return "", nil
}

// mlDecaps answers, with Go's standard library, the decapsulation of the bytes of ct that follow the
// output prefix. Whether these are the bytes the specification asks about is checked by the specification.
func mlDecaps(c cfg, sk, ct []byte) mlAnswer {
	param, seed := mlSeed(c, sk)
	if c.Scheme != "HPKE" || param == "" || len(seed) != 64 {
		return mlAnswer{}
	}
	n := map[string]int{"768": 1088, "1024": 1568}[param]
	off := c.prefixLen()
	if len(ct) < off+n {
		return mlAnswer{}
	}
	q := ct[off : off+n]
	a := mlAnswer{Param: param, Seed: vt.Hex(seed), Ct: vt.Hex(q)}
	var ss []byte
	var err error
	if param == "768" {
		var dk *mlkem.DecapsulationKey768
		if dk, err = mlkem.NewDecapsulationKey768(seed); err == nil {
			ss, err = dk.Decapsulate(q)
		}
	} else {
		var dk *mlkem.DecapsulationKey1024
		if dk, err = mlkem.NewDecapsulationKey1024(seed); err == nil {
			ss, err = dk.Decapsulate(q)
		}
	}
	a.Ok, a.Ss = err == nil, vt.Hex(ss)
	return a
}

// mlEncaps makes an ML-KEM encapsulation to the recipient's ML-KEM key (for the reference sender).
func mlEncaps(c cfg, sk []byte) (param string, ct, ss []byte) {
	param, seed := mlSeed(c, sk)
	switch param {
	case "768":
		dk, err := mlkem.NewDecapsulationKey768(seed)
		if err != nil {
			vt.Fatal("mlkem: %v", err)
		}
		ss, ct = dk.EncapsulationKey().Encapsulate()
	case "1024":
		dk, err := mlkem.NewDecapsulationKey1024(seed)
		if err != nil {
			vt.Fatal("mlkem: %v", err)
		}
		ss, ct = dk.EncapsulationKey().Encapsulate()
	}
	return
}

// ---------------------------------------------------------------- events
func (c cfg) ev(name string) vt.Ev {
	return vt.Ev{"ev": name, "scheme": c.Scheme, "route": c.Route, "kem": c.Kem, "kdf": c.Kdf, "aead": c.Aead,
		"curve": c.Curve, "hash": c.Hash, "fmt": c.Fmt, "dem": c.Dem, "salt": vt.Hex(c.Salt), "variant": c.Variant, "id": vt.ID4(c.ID)}
}

func (p *party) fill(e vt.Ev, ct []byte) {
	a := mlDecaps(p.c, p.sk, ct)
	e["skR"], e["sk2"], e["pre_arg"] = vt.Hex(p.sk), vt.Hex(p.sk2), vt.Hex(p.preArg)
	p.preArg = nil
	e["ml_param"], e["ml_seed"], e["ml_ct"], e["ml_ok"], e["ml_ss"] = a.Param, a.Seed, a.Ct, a.Ok, a.Ss
}

func clone(b []byte) []byte { return append(make([]byte, 0, len(b)+32), b...) } // spare capacity: room for in-place tricks

// Oracle independence: every logged INPUT comes from a value Tink never had access to. The slices handed to a
// Tink call are separate buffers (buf...) that the caller of the API would own; whatever Tink does to them
// cannot change what the event says was passed. Sequences that deliberately REUSE a buffer across calls (as a
// caller who still believes it holds his ciphertext would) log the pristine value again and name the preceding
// call in "pre"/"pre_info", so that a replay can re-execute the sequence.

// encryptOn calls Encrypt on the caller-owned buffers pbuf/ibuf; pt/info are the pristine values they hold(held).
func (p *party) encryptOn(w *vt.Writer, kind, pre string, preInfo, pbuf, ibuf, pt, info []byte) []byte {
	var out []byte
	var err error
	pn, pv := vt.Try(func() { out, err = p.enc.Encrypt(pbuf, ibuf) })
	ct := append([]byte{}, out...)
	e := p.c.ev("encrypt")
	p.fill(e, ct)
	e["class"], e["kind"], e["want"], e["pre"], e["pre_info"] = "enc", kind, "", pre, vt.Hex(preInfo)
	e["pt"], e["info"], e["ct"] = vt.Hex(pt), vt.Hex(info), vt.Hex(ct)
	e["err"], e["panic"] = err != nil, pn
	e["in_intact"] = bytes.Equal(pbuf, pt) && bytes.Equal(ibuf, info)
	if pn {
		e["panicVal"] = fmt.Sprint(pv)
	}
	w.Emit(e)
	if err != nil || pn {
		return nil
	}
	return ct
}

// encryptEv encrypts (pt, info), then once more from the SAME plaintext / context buffers; returns the first ciphertext.
func (p *party) encryptEv(w *vt.Writer, kind string, pt, info []byte) []byte {
	pt, info = append([]byte{}, pt...), append([]byte{}, info...)
	pbuf, ibuf := clone(pt), clone(info)
	ct := p.encryptOn(w, kind, "", nil, pbuf, ibuf, pt, info)
	p.encryptOn(w, kind+"-again-same-buffers", "same", info, pbuf, ibuf, pt, info)
	return ct
}

// decryptOn calls Decrypt on the caller-owned buffers buf/ibuf; ct/info are the pristine values the caller put there.
func (p *party) decryptOn(w *vt.Writer, class, kind, pre string, preInfo, buf, ibuf, ct, info, want []byte) {
	var pt []byte
	var err error
	pn, pv := vt.Try(func() { pt, err = p.dec.Decrypt(buf, ibuf) })
	if err != nil || pn {
		pt = nil
	}
	pt = append([]byte{}, pt...)
	e := p.c.ev("decrypt")
	p.fill(e, ct)
	e["class"], e["kind"], e["want"], e["pre"], e["pre_info"] = class, kind, vt.Hex(want), pre, vt.Hex(preInfo)
	e["pt"], e["info"], e["ct"] = vt.Hex(pt), vt.Hex(info), vt.Hex(ct)
	e["err"], e["panic"] = err != nil || pn, pn
	e["in_intact"] = bytes.Equal(buf, ct) && bytes.Equal(ibuf, info)
	if pn {
		e["panicVal"] = fmt.Sprint(pv)
	}
	w.Emit(e)
}

// decryptEv: one Decrypt call on fresh private copies of (ct, info).
func (p *party) decryptEv(w *vt.Writer, class, kind string, ct, info, want []byte) {
	ct, info = append([]byte{}, ct...), append([]byte{}, info...)
	p.decryptOn(w, class, kind, "", nil, clone(ct), clone(info), ct, info, want)
}

// reuse decrypts a valid ciphertext the way a caller may: twice from the same buffer, and (on a second buffer)
// after a failing attempt with another context info. Each call is its own event; the round-trip clause makes every
// call with the right context return the plaintext.
func (p *party) reuse(w *vt.Writer, class, kind string, ct, info, want []byte) {
	ct, info = append([]byte{}, ct...), append([]byte{}, info...)
	buf, ibuf := clone(ct), clone(info)
	p.decryptOn(w, class, kind, "", nil, buf, ibuf, ct, info, want)
	p.decryptOn(w, class, "again-same-buffer", "same", info, buf, ibuf, ct, info, want)
	wrong := append(append([]byte{}, info...), 0x5a)
	buf2 := clone(ct)
	p.decryptOn(w, "mut", "info-wrong-same-buffer", "", nil, buf2, clone(wrong), ct, wrong, nil)
	p.decryptOn(w, class, "after-wrong-context-same-buffer", "wrongctx", wrong, buf2, clone(info), ct, info, want)
}

// A session is what an application that recycles its buffers does: successive calls on ONE primitive instance take
// the context info from ONE reused buffer and the plaintext / ciphertext from another, both overwritten in place
// between calls (same length with new contents, shorter, longer, empty, back). Every call is its own event, judged by
// the reference with the values the caller actually passed (logged from pre-call copies). pre = "prev" names the
// preceding call on the same instance and buffers (pre_info, pre_arg), which is what a replay re-executes first.
type session struct {
	p                 *party
	ib, ab            []byte // the reused backing arrays
	prevInfo, prevArg []byte
	started           bool
}

func newSession(p *party) *session {
	return &session{p: p, ib: make([]byte, 0, 1024), ab: make([]byte, 0, 16384)}
}

// load overwrites the reused buffers in place with (arg, info) and returns the slices to pass.
func (s *session) load(arg, info []byte) (a, i []byte) {
	if len(arg) > cap(s.ab) {
		s.ab = make([]byte, 0, 2*len(arg))
	}
	if len(info) > cap(s.ib) {
		s.ib = make([]byte, 0, 2*len(info))
	}
	a, i = s.ab[:len(arg)], s.ib[:len(info)]
	copy(a, arg)
	copy(i, info)
	return
}

func (s *session) pre() string {
	if s.started {
		s.p.preArg = s.prevArg
		return "prev"
	}
	return ""
}

func (s *session) encrypt(w *vt.Writer, kind string, pt, info []byte) []byte {
	pt, info = append([]byte{}, pt...), append([]byte{}, info...)
	a, i := s.load(pt, info)
	ct := s.p.encryptOn(w, kind, s.pre(), s.prevInfo, a, i, pt, info)
	s.prevInfo, s.prevArg, s.started = info, pt, true
	return ct
}

func (s *session) decrypt(w *vt.Writer, class, kind string, ct, info []byte) {
	ct, info = append([]byte{}, ct...), append([]byte{}, info...)
	a, i := s.load(ct, info)
	s.p.decryptOn(w, class, kind, s.pre(), s.prevInfo, a, i, ct, info, nil)
	s.prevInfo, s.prevArg, s.started = info, ct, true
}

// otherContents returns a string of the same length and different contents.
func otherContents(r *rand.Rand, b []byte) []byte {
	o := vt.Bytes(r, len(b))
	if len(b) > 0 && bytes.Equal(o, b) {
		o[0] ^= 0x80
	}
	return o
}

// recycle runs an Encrypt session and then a Decrypt session over its ciphertexts on the one primitive pair of p.
// The walk of context / plaintext lengths goes same -> same (new contents) -> shorter -> longer -> empty -> back.
func recycle(w *vt.Writer, p *party, r *rand.Rand, long bool) {
	il := []int{20, 20, 5, 40, 0, 20}
	pl := []int{16, 16, 3, 50, 0, 16}
	if long {
		il = []int{32, 32, 32, 1, 1, 0, 0, 64, 63, 64, 200, 32, 0, 1}
		pl = []int{33, 33, 33, 0, 1, 1, 100, 100, 16, 15, 17, 0, 0, 33}
	}
	type msg struct{ pt, info, ct []byte }
	var ms []msg
	es := newSession(p)
	for k := range il {
		m := msg{pt: content(r, pl[k], k), info: vt.Bytes(r, il[k])}
		if m.ct = es.encrypt(w, "seq", m.pt, m.info); m.ct != nil {
			ms = append(ms, m)
		}
	}
	ds := newSession(p)
	for _, m := range ms {
		ds.decrypt(w, "seq", "seq-right", m.ct, m.info)
		if len(m.info) > 0 { // the caller overwrites his context buffer: same length, new contents, same ciphertext
			ds.decrypt(w, "seq", "seq-context-overwritten", m.ct, otherContents(r, m.info))
			ds.decrypt(w, "seq", "seq-right-again", m.ct, m.info)
		}
	}
}

// Retained outputs: an application keeps the slices Encrypt / Decrypt RETURNED (the slices themselves, not copies)
// while it goes on calling the same primitive. After k later calls the content of every retained slice is read - before
// any further Tink call - and logged next to the copy taken at its return (out_at_return / out_retained). The
// reference judges the output as returned, the trace spec requires retained = at-return, and Tink itself then decrypts
// what the retained ciphertext slices hold now (class "retained": must give each one's own plaintext).
// seq / seq_i carry the inputs of the whole sequence so that a replay re-executes it.
type seqIn struct {
	Arg  string `json:"arg"` // plaintext (Encrypt sequence) or ciphertext (Decrypt sequence)
	Info string `json:"info"`
}

func retainLens(long bool) (pl, il []int) {
	if long {
		return []int{40, 40, 12, 40, 100, 0, 40, 1, 40, 300, 40}, []int{10, 10, 10, 0, 33, 10, 10, 10, 0, 64, 10}
	}
	return []int{40, 40, 12, 40, 100, 0}, []int{10, 10, 10, 0, 33, 10}
}

// retainEnc: k Encrypt calls on one primitive keeping the returned slices; returns the ciphertexts as returned.
func retainEnc(w *vt.Writer, p *party, in []seqIn) (cts [][]byte) {
	n := len(in)
	outs, at, now := make([][]byte, n), make([][]byte, n), make([][]byte, n)
	errs, pns, pvs := make([]bool, n), make([]bool, n), make([]any, n)
	for k, m := range in { // phase 1: nothing but Tink calls and copies
		pbuf, ibuf := clone(vt.Unhex(m.Arg)), clone(vt.Unhex(m.Info))
		var out []byte
		var err error
		pns[k], pvs[k] = vt.Try(func() { out, err = p.enc.Encrypt(pbuf, ibuf) })
		outs[k], errs[k] = out, err != nil
		at[k] = append([]byte{}, out...)
	}
	for k := range in { // phase 2: what do the retained slices hold now?
		now[k] = append([]byte{}, outs[k]...)
	}
	for k, m := range in {
		e := p.c.ev("encrypt")
		p.fill(e, at[k])
		e["class"], e["kind"], e["want"], e["pre"], e["pre_info"] = "enc", "retained-output", "", "", ""
		e["pt"], e["info"], e["ct"] = m.Arg, m.Info, vt.Hex(at[k])
		e["out_at_return"], e["out_retained"], e["seq"], e["seq_i"] = vt.Hex(at[k]), vt.Hex(now[k]), in, k
		e["err"], e["panic"], e["in_intact"] = errs[k], pns[k], true
		if pns[k] {
			e["panicVal"] = fmt.Sprint(pvs[k])
		}
		w.Emit(e)
	}
	for k, m := range in { // phase 3: Tink decrypts what the retained slices hold now
		if !errs[k] && !pns[k] {
			info := vt.Unhex(m.Info)
			p.decryptOn(w, "retained", "retained-ciphertext", "", nil, clone(now[k]), clone(info), now[k], info, vt.Unhex(m.Arg))
			cts = append(cts, at[k])
		} else {
			cts = append(cts, nil)
		}
	}
	return cts
}

// retainDec: k Decrypt calls on one primitive keeping the returned plaintext slices.
func retainDec(w *vt.Writer, p *party, in []seqIn) {
	n := len(in)
	outs, at, now := make([][]byte, n), make([][]byte, n), make([][]byte, n)
	errs, pns, pvs := make([]bool, n), make([]bool, n), make([]any, n)
	for k, m := range in {
		buf, ibuf := clone(vt.Unhex(m.Arg)), clone(vt.Unhex(m.Info))
		var out []byte
		var err error
		pns[k], pvs[k] = vt.Try(func() { out, err = p.dec.Decrypt(buf, ibuf) })
		if err != nil || pns[k] {
			out = nil
		}
		outs[k], errs[k] = out, err != nil || pns[k]
		at[k] = append([]byte{}, out...)
	}
	for k := range in {
		now[k] = append([]byte{}, outs[k]...)
	}
	for k, m := range in {
		e := p.c.ev("decrypt")
		p.fill(e, vt.Unhex(m.Arg))
		e["class"], e["kind"], e["want"], e["pre"], e["pre_info"] = "own", "retained-plaintext", "", "", ""
		e["pt"], e["info"], e["ct"] = vt.Hex(at[k]), m.Info, m.Arg
		e["out_at_return"], e["out_retained"], e["seq"], e["seq_i"] = vt.Hex(at[k]), vt.Hex(now[k]), in, k
		e["err"], e["panic"], e["in_intact"] = errs[k], pns[k], true
		if pns[k] {
			e["panicVal"] = fmt.Sprint(pvs[k])
		}
		w.Emit(e)
	}
}

// retain runs both sequences: Encrypt outputs retained, then the Decrypt outputs of those ciphertexts retained.
func retain(w *vt.Writer, p *party, r *rand.Rand, long bool) {
	pl, il := retainLens(long)
	var in []seqIn
	for k := range pl {
		in = append(in, seqIn{vt.Hex(content(r, pl[k], k)), vt.Hex(vt.Bytes(r, il[k]))})
	}
	cts := retainEnc(w, p, in)
	var din []seqIn
	for k, ct := range cts {
		if ct != nil {
			din = append(din, seqIn{vt.Hex(ct), in[k].Info})
		}
	}
	if len(din) > 0 {
		retainDec(w, p, din)
	}
}

func flip(b []byte, byteIdx int, bit uint) []byte {
	o := append([]byte{}, b...)
	o[byteIdx] ^= 1 << (bit % 8)
	return o
}

// mutate records Decrypt of systematically mutated forms of (ct, info): every region (prefix, encapsulated
// key, payload), the context, the other private key and cut points. level -1 = four mutations, 0 = a sample,
// 1 = quick, 2 = every byte position and cut point, 3 = every BIT of every byte and every cut point.
func mutate(w *vt.Writer, p, other *party, ct, info []byte, r *rand.Rand, level int) {
	c := p.c
	pl, el := c.prefixLen(), c.encLen()
	n := len(ct)
	mut := func(kind string, x, inf []byte) { p.decryptEv(w, "mut", kind, x, inf, nil) }
	if level == -1 {
		mut("payload-flip", flip(ct, n-1, uint(r.Intn(8))), info)
		mut("enc-flip", flip(ct, pl+r.Intn(el), uint(r.Intn(8))), info)
		mut("cut", ct[:n-1], info)
		mut("info-ext", ct, append(append([]byte{}, info...), byte(r.Intn(256))))
		return
	}
	if level == 3 {
		for i := 0; i < n; i++ {
			if i >= pl && i < pl+el && el > 200 && (i-pl)%53 != 0 && i != pl+el-1 && i != pl+1087 && i != pl+1088 {
				continue
			}
			kind := "payload-flip"
			if i < pl {
				kind = "prefix-bit"
			} else if i < pl+el {
				kind = "enc-flip"
			}
			for b := uint(0); b < 8; b++ {
				mut(kind, flip(ct, i, b), info)
			}
		}
		for i := 0; i < len(info); i++ {
			for b := uint(0); b < 8; b++ {
				mut("info-flip", ct, flip(info, i, b))
			}
		}
		level = 2
	}
	// --- encapsulated key
	encPos := []int{pl, pl + el - 1, pl + r.Intn(el), pl + el/2}
	if c.Scheme == "HPKE" && c.Kem == "XWING" {
		encPos = append(encPos, pl+1088, pl+1087) // both sides of the ML-KEM / X25519 boundary
	}
	if level == 2 {
		encPos = nil
		step := 1
		if el > 200 {
			step = 37
		}
		for i := 0; i < el; i += step {
			encPos = append(encPos, pl+i)
		}
		encPos = append(encPos, pl+el-1)
	}
	if level == 0 {
		encPos = encPos[:2]
	}
	for _, i := range encPos {
		if i < n {
			mut("enc-flip", flip(ct, i, uint(r.Intn(8))), info)
		}
	}
	if level >= 1 && n >= pl+el {
		x := append([]byte{}, ct...)
		for i := pl; i < pl+el; i++ { // all-zero encapsulated key: X25519 small order / not a point
			x[i] = 0
		}
		mut("enc-zero", x, info)
		y := append([]byte{}, ct...)
		if el == 32 { // X25519 u = 1 (small order)
			copy(y[pl:], make([]byte, 32))
			y[pl] = 1
		} else { // 04 -> 02, 02 -> 04, 03 -> 05: a leading byte of another format; legacy format: X changes (>= p for P-521)
			y[pl] ^= 0x06
		}
		mut("enc-loworder-or-badlead", y, info)
		if c.Scheme == "ECIES" || (c.Kem == "P256" || c.Kem == "P384" || c.Kem == "P521") {
			z := append([]byte{}, ct...)
			z[pl+el-1] ^= 1 // last byte of Y (or of X when compressed): leaves the curve / changes the point
			mut("enc-offcurve", z, info)
			if c.Fmt == "COMPRESSED" {
				s := append([]byte{}, ct...)
				s[pl] ^= 1 // 02 <-> 03: the negated point, same x-coordinate of the product
				mut("enc-negated", s, info)
			}
		}
	}
	// --- payload (DEM / AEAD ciphertext and tag)
	if n > pl+el {
		pay := []int{pl + el, n - 1, pl + el + r.Intn(n-pl-el)}
		if n-16 > pl+el {
			pay = append(pay, n-16, n-17)
		}
		if level == 2 {
			pay = nil
			for i := pl + el; i < n; i++ {
				pay = append(pay, i)
			}
		}
		if level == 0 {
			pay = pay[:2]
		}
		for _, i := range pay {
			mut("payload-flip", flip(ct, i, uint(r.Intn(8))), info)
		}
	}
	// --- prefix
	if pl == 5 {
		mut("prefix-start", flip(ct, 0, 0), info) // TINK <-> CRUNCHY start byte
		mut("prefix-id", flip(ct, 1+r.Intn(4), uint(r.Intn(8))), info)
		if level >= 1 {
			mut("prefix-removed", ct[5:], info)
			for i := 1; i < 5 && level == 2; i++ {
				mut("prefix-id", flip(ct, i, uint(r.Intn(8))), info)
			}
		}
	} else {
		mut("prefix-added", append([]byte{1, 0, 0, 0, 0}, ct...), info)
	}
	// --- context info
	if len(info) > 0 {
		mut("info-flip", ct, flip(info, r.Intn(len(info)), uint(r.Intn(8))))
		if level >= 1 {
			mut("info-trunc", ct, info[:len(info)-1])
			mut("info-empty", ct, nil)
		}
	} else {
		mut("info-nonempty", ct, []byte{0})
	}
	if level >= 1 {
		mut("info-ext", ct, append(append([]byte{}, info...), 0))
	}
	// --- another private key
	if other != nil {
		other.decryptEv(w, "mut", "other-key", ct, info, nil)
	}
	// --- cut points and extension
	cuts := map[int]bool{0: true, n - 1: true}
	for _, k := range []int{pl - 1, pl, pl + 1, pl + el - 1, pl + el, pl + el + 1, n - 16, n - 17, n - 15, pl + el + 11, pl + el + 12, pl + el + 15, pl + el + 16} {
		if level >= 1 {
			cuts[k] = true
		}
	}
	if level == 2 {
		step := 1
		if n > 400 {
			step = 29
		}
		for k := 0; k < n; k += step {
			cuts[k] = true
		}
	} else {
		cuts[r.Intn(n)] = true
	}
	for k := 0; k < n; k++ {
		if cuts[k] {
			mut("cut", ct[:k], info)
		}
	}
	mut("extend0", append(append([]byte{}, ct...), 0), info)
	if level >= 1 {
		mut("extendR", append(append([]byte{}, ct...), vt.Bytes(r, 1+r.Intn(20))...), info)
	}
}

func content(r *rand.Rand, n, class int) []byte {
	b := make([]byte, n)
	switch class % 4 {
	case 0, 3:
		r.Read(b)
	case 2:
		for i := range b {
			b[i] = 0xff
		}
	}
	return b
}

// ---------------------------------------------------------------- configuration plans
func hpkeCfgs(r *rand.Rand) []cfg {
	var out []cfg
	i := int(vt.Seed())
	for _, k := range kems {
		for _, d := range kdfs {
			for _, a := range aeads {
				i++
				out = append(out, cfg{Scheme: "HPKE", Route: "factory", Kem: k, Kdf: d, Aead: a, Variant: variants[i%3], ID: ids[(i/3)%len(ids)], Deep: true})
				if vt.Thorough() {
					out = append(out, cfg{Scheme: "HPKE", Route: "factory", Kem: k, Kdf: d, Aead: a, Variant: variants[(i+1)%3], ID: ids[(i/3+1)%len(ids)]})
					out = append(out, cfg{Scheme: "HPKE", Route: "factory", Kem: k, Kdf: d, Aead: a, Variant: variants[(i+2)%3], ID: ids[(i/3+2)%len(ids)]})
				}
			}
		}
	}
	return out
}

func salts(r *rand.Rand, i int) []byte {
	switch i % 5 {
	case 0:
		return nil
	case 1:
		return vt.Bytes(r, 1)
	case 2:
		return vt.Bytes(r, 32)
	case 3:
		return make([]byte, 20) // all-zero, not hash-length for most hashes
	}
	return vt.Bytes(r, 65+r.Intn(80)) // longer than the HMAC block of SHA-1/224/256
}

func eciesCfgs(r *rand.Rand) []cfg {
	var out []cfg
	i := int(vt.Seed())
	for _, cu := range curves {
		for _, h := range hashes {
			for _, f := range fmts {
				for _, d := range dems {
					i++
					out = append(out, cfg{Scheme: "ECIES", Route: "factory", Curve: cu, Hash: h, Fmt: f, Dem: d, Salt: salts(r, i), Variant: variants[i%3], ID: ids[(i/3)%len(ids)], Deep: true})
					if vt.Thorough() || i%4 == 0 {
						out = append(out, cfg{Scheme: "ECIES", Route: "subtle", Curve: cu, Hash: h, Fmt: f, Dem: d, Salt: salts(r, i+2), Variant: "NO_PREFIX", Deep: i%4 == 0})
					}
					if vt.Thorough() {
						out = append(out, cfg{Scheme: "ECIES", Route: "factory", Curve: cu, Hash: h, Fmt: f, Dem: d, Salt: salts(r, i+1), Variant: variants[(i+1)%3], ID: ids[(i/3+1)%len(ids)]})
						out = append(out, cfg{Scheme: "ECIES", Route: "factory", Curve: cu, Hash: h, Fmt: f, Dem: d, Salt: salts(r, i+3), Variant: variants[(i+2)%3], ID: ids[(i/3+2)%len(ids)]})
					}
				}
			}
		}
	}
	return out
}

// VERIF_C06_FILTER (debugging / mutation trials only) keeps the configurations whose description contains it,
// e.g. "HPKE/XWING" or "ECIES/subtle". Unset in every registered run.
func keep(c cfg) bool {
	f := os.Getenv("VERIF_C06_FILTER")
	return f == "" || strings.Contains(fmt.Sprintf("%s/%s/%s%s/%s%s/%s%s/%s", c.Scheme, c.Route, c.Kem, c.Curve, c.Kdf, c.Hash, c.Aead, c.Dem, c.Fmt), f)
}

func allCfgs(r *rand.Rand) []cfg {
	var out []cfg
	for _, c := range append(hpkeCfgs(r), eciesCfgs(r)...) {
		if keep(c) {
			out = append(out, c)
		}
	}
	r.Shuffle(len(out), func(i, j int) { out[i], out[j] = out[j], out[i] }) // balance the trace shards
	return out
}

// configurations the library is expected to refuse at construction (coverage, never judged)
func refused(w *vt.Writer, r *rand.Rand) {
	for _, c := range []cfg{
		{Scheme: "ECIES", Route: "factory", Curve: "X25519", Hash: "SHA256", Fmt: "", Dem: "AES128GCM", Variant: "TINK", ID: 7},
		{Scheme: "ECIES", Route: "factory", Curve: "P256", Hash: "SHA256", Fmt: "UNCOMPRESSED", Dem: "XCHACHA20POLY1305", Variant: "TINK", ID: 7},
		{Scheme: "ECIES", Route: "factory", Curve: "P256", Hash: "SHA256", Fmt: "", Dem: "AES128GCM", Variant: "TINK", ID: 7},
		{Scheme: "HPKE", Route: "factory", Kem: "P256", Kdf: "SHA256", Aead: "AES128GCM", Variant: "NO_PREFIX", ID: 0},
	} {
		sk := scalar(r, c.group())
		if c.Curve == "X25519" {
			sk = vt.Bytes(r, 32)
		}
		if c.Scheme == "HPKE" {
			sk = sk[:31] // wrong private key length
		}
		_, err := build(c, sk)
		e := c.ev("construct")
		e["err"] = err != nil
		w.Emit(e)
	}
}

func mkParty(c cfg, r *rand.Rand) (*party, error) {
	var err error
	for try := 0; try < 4; try++ {
		var p *party
		if p, err = build(c, scalar(r, c.group())); err == nil {
			return p, nil
		}
	}
	return nil, err
}

func ptLens(r *rand.Rand, ci int) []int {
	base := []int{0, 1, 15, 16, 17, 31, 32, 33, 63, 64, 65, 127, 128, 255, 256, 1000}
	if vt.Thorough() {
		ls := []int{0, 1, 16, base[ci%len(base)], base[(ci*7+3)%len(base)], 2 + r.Intn(300), 4096 + r.Intn(3)}
		return ls
	}
	return []int{base[ci%len(base)], []int{0, 1, 16, 17 + r.Intn(200)}[(ci/len(base))%4]}
}

func infos(r *rand.Rand, i int) []byte {
	switch i % 6 {
	case 0:
		return nil
	case 1:
		return vt.Bytes(r, 1)
	case 2:
		return vt.Bytes(r, 20)
	case 3:
		return make([]byte, 32)
	case 4:
		return vt.Bytes(r, 64+r.Intn(3))
	}
	return vt.Bytes(r, 129+r.Intn(200))
}

// ---------------------------------------------------------------- Tink -> specification
func runTink(w *vt.Writer) {
	r := vt.Rng(6)
	refused(w, r)
	cfgs := allCfgs(r)
	for ci, c := range cfgs {
		p, err := mkParty(c, r)
		if err != nil {
			e := c.ev("construct")
			e["err"] = true
			w.Emit(e)
			continue
		}
		other, _ := mkParty(c, r)
		for li, n := range ptLens(r, ci) {
			pt := content(r, n, ci+li)
			info := infos(r, ci+li)
			ct := p.encryptEv(w, "tink", pt, info)
			if ct == nil {
				continue
			}
			p.reuse(w, "own", "own", ct, info, nil)
			level := 0
			if li == 0 {
				level = 1
			}
			if vt.Thorough() && li == 1 && c.Deep {
				level = 2
				if ci%9 == int(vt.Seed())%9 {
					level = 3
				}
			}
			mutate(w, p, other, ct, info, r, level)
		}
		if c.Deep || vt.Thorough() {
			recycle(w, p, r, vt.Thorough() && c.Deep)
			retain(w, p, r, vt.Thorough() && c.Deep)
		}
		if vt.Thorough() && c.Deep {
			// every plaintext length 0..48: DEM block boundaries, the short (< 16) and long S2V branch of AES-SIV,
			// the GCM / CTR partial blocks
			for n := 0; n <= 48; n++ {
				pt, info := content(r, n, ci+n), infos(r, ci+n)
				if ct := p.encryptEv(w, "tink-lensweep", pt, info); ct != nil {
					p.decryptEv(w, "own", "own", ct, info, nil)
					mutate(w, p, nil, ct, info, r, -1)
				}
			}
		}
	}
	edgeKeys(w, r)
	twoRawKeys(w, r)
	// the key-manager path: fresh keys from the published key templates
	tmpls := []*tinkpb.KeyTemplate{
		hybrid.DHKEM_P256_HKDF_SHA256_HKDF_SHA256_AES_128_GCM_Key_Template(), hybrid.DHKEM_P256_HKDF_SHA256_HKDF_SHA256_AES_128_GCM_Raw_Key_Template(),
		hybrid.DHKEM_P256_HKDF_SHA256_HKDF_SHA256_AES_256_GCM_Key_Template(), hybrid.DHKEM_P256_HKDF_SHA256_HKDF_SHA256_AES_256_GCM_Raw_Key_Template(),
		hybrid.DHKEM_X25519_HKDF_SHA256_HKDF_SHA256_AES_128_GCM_Key_Template(), hybrid.DHKEM_X25519_HKDF_SHA256_HKDF_SHA256_AES_128_GCM_Raw_Key_Template(),
		hybrid.DHKEM_X25519_HKDF_SHA256_HKDF_SHA256_AES_256_GCM_Key_Template(), hybrid.DHKEM_X25519_HKDF_SHA256_HKDF_SHA256_AES_256_GCM_Raw_Key_Template(),
		hybrid.DHKEM_X25519_HKDF_SHA256_HKDF_SHA256_CHACHA20_POLY1305_Key_Template(), hybrid.DHKEM_X25519_HKDF_SHA256_HKDF_SHA256_CHACHA20_POLY1305_Raw_Key_Template(),
		hybrid.ECIESHKDFAES128GCMKeyTemplate(), hybrid.ECIESHKDFAES128CTRHMACSHA256KeyTemplate(),
	}
	for ti, t := range tmpls {
		p, err := fromTemplate(t)
		if err != nil {
			vt.Fatal("template %d: %v", ti, err)
		}
		other, err := fromTemplate(t)
		if err != nil {
			vt.Fatal("template %d: %v", ti, err)
		}
		// the second key has another id; only its private key matters for "other-key" when the prefix matches
		other.c = p.c
		if !keep(p.c) {
			continue
		}
		for li := 0; li < 2; li++ {
			pt, info := content(r, []int{0, 40}[li]+ti, ti+li), infos(r, ti+li)
			ct := p.encryptEv(w, "tink", pt, info)
			if ct == nil {
				continue
			}
			p.reuse(w, "own", "own", ct, info, nil)
			var o *party
			if p.c.Variant == "NO_PREFIX" {
				o = other
			}
			mutate(w, p, o, ct, info, r, li)
		}
		recycle(w, p, r, false)
		retain(w, p, r, false)
	}
}

// twoRawKeys: keysets with two NO_PREFIX keys of the same parameters where the matching (primary) key is the SECOND
// one, so that the factory's Decrypt first fails with the other key on the caller's buffer and then must succeed.
func twoRawKeys(w *vt.Writer, r *rand.Rand) {
	cs := []cfg{
		{Scheme: "HPKE", Kem: "X25519", Kdf: "SHA256", Aead: "AES128GCM"}, {Scheme: "HPKE", Kem: "P256", Kdf: "SHA512", Aead: "AES256GCM"},
		{Scheme: "HPKE", Kem: "XWING", Kdf: "SHA384", Aead: "CHACHA20POLY1305"}, {Scheme: "HPKE", Kem: "MLKEM768", Kdf: "SHA256", Aead: "AES256GCM"},
		{Scheme: "HPKE", Kem: "P521", Kdf: "SHA256", Aead: "CHACHA20POLY1305"},
		{Scheme: "ECIES", Curve: "P256", Hash: "SHA256", Fmt: "UNCOMPRESSED", Dem: "AES128GCM"},
		{Scheme: "ECIES", Curve: "P384", Hash: "SHA512", Fmt: "COMPRESSED", Dem: "AES256SIV", Salt: []byte{1, 2, 3}},
		{Scheme: "ECIES", Curve: "P256", Hash: "SHA1", Fmt: "DO_NOT_USE_CRUNCHY_UNCOMPRESSED", Dem: "AES128CTRHMAC"},
		{Scheme: "ECIES", Curve: "P521", Hash: "SHA384", Fmt: "UNCOMPRESSED", Dem: "AES256CTRHMAC"},
	}
	for i, c := range cs {
		c.Route, c.Variant = "factory2raw", "NO_PREFIX"
		if !keep(c) {
			continue
		}
		p, err := build(c, scalar(r, c.group()), scalar(r, c.group()))
		if err != nil {
			e := c.ev("construct")
			e["err"] = true
			w.Emit(e)
			continue
		}
		for k := 0; k < 2; k++ {
			pt, info := content(r, []int{0, 33}[k]+i, i+k), infos(r, i+k)
			if ct := p.encryptEv(w, "tink-2rawkeys", pt, info); ct != nil {
				p.reuse(w, "own", "own", ct, info, nil)
			}
		}
		recycle(w, p, r, false)
		retain(w, p, r, false)
	}
}

// edgeKeys exercises boundary private keys: scalar 1 and n-1 on the NIST curves, a scalar with leading zero bytes,
// all-zero / all-ones X25519 keys (clamped by RFC 7748).
func edgeKeys(w *vt.Writer, r *rand.Rand) {
	order := map[string]*big.Int{"P256": elliptic.P256().Params().N, "P384": elliptic.P384().Params().N, "P521": elliptic.P521().Params().N}
	type ek struct {
		c  cfg
		sk []byte
	}
	var ks []ek
	vi := 0
	for _, g := range curves {
		n := fieldLen[g]
		one := make([]byte, n)
		one[n-1] = 1
		nm1 := new(big.Int).Sub(order[g], big.NewInt(1)).FillBytes(make([]byte, n))
		lead0 := scalar(r, g)
		lead0[0], lead0[1] = 0, 0
		for _, sk := range [][]byte{one, nm1, lead0} {
			vi++
			ks = append(ks, ek{cfg{Scheme: "HPKE", Route: "factory", Kem: g, Kdf: kdfs[vi%3], Aead: aeads[vi%3], Variant: variants[vi%3], ID: ids[vi%len(ids)]}, sk})
			ks = append(ks, ek{cfg{Scheme: "ECIES", Route: "factory", Curve: g, Hash: hashes[vi%5], Fmt: fmts[vi%3], Dem: dems[vi%5], Salt: salts(r, vi), Variant: variants[(vi+1)%3], ID: ids[(vi+1)%len(ids)]}, sk})
			ks = append(ks, ek{cfg{Scheme: "ECIES", Route: "subtle", Curve: g, Hash: hashes[(vi+1)%5], Fmt: fmts[(vi+1)%3], Dem: dems[(vi+2)%5], Salt: salts(r, vi+1), Variant: "NO_PREFIX"}, sk})
		}
	}
	ff := make([]byte, 32)
	for i := range ff {
		ff[i] = 0xff
	}
	for _, sk := range [][]byte{make([]byte, 32), ff} {
		vi++
		ks = append(ks, ek{cfg{Scheme: "HPKE", Route: "factory", Kem: "X25519", Kdf: kdfs[vi%3], Aead: aeads[vi%3], Variant: variants[vi%3], ID: ids[vi%len(ids)]}, sk})
	}
	for i, k := range ks {
		if !keep(k.c) {
			continue
		}
		p, err := build(k.c, k.sk)
		if err != nil {
			e := k.c.ev("construct")
			e["err"] = true
			w.Emit(e)
			continue
		}
		pt, info := content(r, 1+i, i), infos(r, i)
		if ct := p.encryptEv(w, "tink-edgekey", pt, info); ct != nil {
			p.reuse(w, "own", "own", ct, info, nil)
			mutate(w, p, nil, ct, info, r, 0)
		}
	}
}

// ---------------------------------------------------------------- specification -> Tink: the plan for the reference sender
func writePlan(path string) {
	w := vt.NewWriter(path)
	defer w.Close()
	r := vt.Rng(66)
	cfgs := allCfgs(r)
	for ci, c := range cfgs {
		p, err := mkParty(c, r) // only to draw a private key the library accepts
		if err != nil {
			continue
		}
		reps := 1
		if vt.Thorough() {
			reps = 4
		}
		for k := 0; k < reps; k++ {
			e := c.ev("refcase")
			e["skR"] = vt.Hex(p.sk)
			skE := scalar(r, c.group())
			if c.Scheme == "HPKE" && (c.Kem == "MLKEM768" || c.Kem == "MLKEM1024") {
				skE = nil
			}
			if c.Kem == "XWING" {
				skE = vt.Bytes(r, 32)
			}
			if (ci+k)%11 == 3 && len(skE) > 0 && c.group() != "X25519" && c.Kem != "XWING" {
				skE = make([]byte, len(skE)) // ephemeral scalar 1: the encapsulated key is the generator
				skE[len(skE)-1] = 1
			}
			e["skE"] = vt.Hex(skE)
			iv := []byte{}
			switch c.Dem {
			case "AES128GCM", "AES256GCM":
				iv = vt.Bytes(r, 12)
			case "AES128CTRHMAC", "AES256CTRHMAC":
				iv = vt.Bytes(r, 16)
				if (ci+k)%3 == 0 {
					for i := 4; i < 16; i++ { // counter block that carries across many bytes on increment
						iv[i] = 0xff
					}
				}
			}
			e["iv"] = vt.Hex(iv)
			param, mct, mss := mlEncaps(c, p.sk)
			e["ml_param"], e["ml_ct"], e["ml_ss"] = param, vt.Hex(mct), vt.Hex(mss)
			n := []int{0, 1, 16, 17, 33, 100, 15, 64}[(ci+k)%8]
			if vt.Thorough() && k == 2 {
				n = 200 + r.Intn(2000)
			}
			e["pt"], e["info"] = vt.Hex(content(r, n, ci+k)), vt.Hex(infos(r, ci+k+1))
			e["ct"], e["ok"] = "", false
			w.Emit(e)
		}
	}
	fmt.Printf("plan=%d\n", w.Count())
}

func sk2FromEvent(e map[string]any) [][]byte {
	if s, _ := e["sk2"].(string); s != "" {
		return [][]byte{vt.Unhex(s)}
	}
	return nil
}

func cfgFromEvent(e map[string]any) (cfg, []byte) {
	str := func(k string) string { s, _ := e[k].(string); return s }
	var id uint32
	fmt.Sscanf(str("id"), "%08x", &id)
	return cfg{Scheme: str("scheme"), Route: str("route"), Kem: str("kem"), Kdf: str("kdf"), Aead: str("aead"), Curve: str("curve"), Hash: str("hash"),
		Fmt: str("fmt"), Dem: str("dem"), Salt: vt.Unhex(str("salt")), Variant: str("variant"), ID: id}, vt.Unhex(str("skR"))
}

func runRefCases(w *vt.Writer, path string) {
	f, err := os.Open(path)
	if err != nil {
		vt.Fatal("refcases: %v", err)
	}
	defer f.Close()
	r := vt.Rng(67)
	sc := bufio.NewScanner(f)
	sc.Buffer(make([]byte, 1<<20), 1<<26)
	n := 0
	for sc.Scan() {
		var e map[string]any
		if err := json.Unmarshal(sc.Bytes(), &e); err != nil {
			vt.Fatal("refcases: %v", err)
		}
		if ok, _ := e["ok"].(bool); !ok {
			vt.Fatal("refcases: the reference did not build / round-trip case %d", n)
		}
		c, sk := cfgFromEvent(e)
		if c.Route == "template" {
			c.Route = "factory"
		}
		p, err := build(c, sk)
		if err != nil {
			vt.Fatal("refcases: cannot rebuild the recipient of case %d: %v", n, err)
		}
		ct, info, pt := vt.Unhex(e["ct"].(string)), vt.Unhex(e["info"].(string)), vt.Unhex(e["pt"].(string))
		p.reuse(w, "ref", "reference-made", ct, info, pt)
		if n%4 == 0 || vt.Thorough() {
			mutate(w, p, nil, ct, info, r, 0)
		}
		n++
	}
	if n == 0 {
		vt.Fatal("refcases: empty")
	}
}

// replay re-executes the single call described by a replay file against the current tree.
func replay(path string, w *vt.Writer) {
	raw, err := os.ReadFile(path)
	if err != nil {
		vt.Fatal("read replay: %v", err)
	}
	var obj struct {
		Event map[string]any `json:"event"`
	}
	if err := json.Unmarshal(raw, &obj); err != nil || obj.Event == nil {
		vt.Fatal("bad replay file: %v", err)
	}
	e := obj.Event
	str := func(k string) string { s, _ := e[k].(string); return s }
	c, sk := cfgFromEvent(e)
	if c.Route == "template" {
		c.Route = "factory"
	}
	p, err := build(c, sk, sk2FromEvent(e)...)
	if err != nil {
		vt.Fatal("replay: cannot construct the primitives: %v", err)
	}
	ct, info, want := vt.Unhex(str("ct")), vt.Unhex(str("info")), vt.Unhex(str("want"))
	if k := str("kind"); k == "retained-output" || k == "retained-plaintext" { // the whole sequence again
		raw, _ := json.Marshal(e["seq"])
		var in []seqIn
		if err := json.Unmarshal(raw, &in); err != nil || len(in) == 0 {
			vt.Fatal("replay: bad seq: %v", err)
		}
		if k == "retained-output" {
			retainEnc(w, p, in)
		} else {
			retainDec(w, p, in)
		}
		return
	}
	if str("pre") == "prev" { // the preceding call of the session on the same instance and buffers, then this call
		s := newSession(p)
		if str("ev") == "encrypt" {
			s.encrypt(w, "replay-prev-call", vt.Unhex(str("pre_arg")), vt.Unhex(str("pre_info")))
			s.encrypt(w, str("kind"), vt.Unhex(str("pt")), info)
		} else {
			s.decrypt(w, "seq", "replay-prev-call", vt.Unhex(str("pre_arg")), vt.Unhex(str("pre_info")))
			s.decrypt(w, str("class"), str("kind"), ct, info)
		}
		return
	}
	switch str("ev") {
	case "encrypt": // both calls of the sequence (the second reuses the buffers of the first)
		p.encryptEv(w, strings.TrimSuffix(str("kind"), "-again-same-buffers"), vt.Unhex(str("pt")), info)
	case "decrypt":
		buf := clone(ct)
		switch str("pre") {
		case "same": // the same call once before, on the same buffers
			ibuf := clone(info)
			p.decryptOn(w, str("class"), "replay-first-call", "", nil, buf, ibuf, ct, info, want)
			p.decryptOn(w, str("class"), str("kind"), "same", info, buf, ibuf, ct, info, want)
		case "wrongctx": // a failing attempt with another context on the same ciphertext buffer before
			wrong := vt.Unhex(str("pre_info"))
			p.decryptOn(w, "mut", "info-wrong-same-buffer", "", nil, buf, clone(wrong), ct, wrong, nil)
			p.decryptOn(w, str("class"), str("kind"), "wrongctx", wrong, buf, clone(info), ct, info, want)
		default:
			p.decryptOn(w, str("class"), str("kind"), "", nil, buf, clone(info), ct, info, want)
		}
	default:
		vt.Fatal("replay: unsupported event %q", str("ev"))
	}
}

func main() {
	out := flag.String("out", "", "trace file")
	plan := flag.String("plan", "", "write the reference sender's plan to this file and exit")
	refcases := flag.String("refcases", "", "reference-made cases (output of Plan_Hybrid)")
	rp := flag.String("replay", "", "replay file")
	flag.Parse()
	if *plan != "" {
		writePlan(*plan)
		return
	}
	if *out == "" {
		vt.Fatal("usage: c06 -out trace.ndjson [-refcases f] [-replay file] | -plan plan.ndjson")
	}
	w := vt.NewWriter(*out)
	defer w.Close()
	if *rp != "" {
		replay(*rp, w)
		return
	}
	runTink(w)
	nt := w.Count()
	if *refcases != "" {
		runRefCases(w, *refcases)
	}
	fmt.Printf("events=%d tink=%d ref=%d\n", w.Count(), nt, w.Count()-nt)
}
