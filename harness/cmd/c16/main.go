// c16: conformance driver for property C16 (SLH-DSA, FIPS 205). It executes the real Tink code --
// internal/signature/slhdsa through the verif hooks and signature/slhdsa through the public keyset
// API -- on seeded inputs and records one ndjson event per call. It computes no expected values:
// every event is judged by TLC against spec/pq/*.tla (spec/trace/Trace_SLHDSA.tla).
package main

import (
	"encoding/binary"
	"encoding/json"
	"flag"
	"fmt"
	"math/rand"
	"os"
	"strings"
	"sync"

	"verifharness/vt"

	"github.com/tink-crypto/tink-go/v2/insecuresecretdataaccess"
	"github.com/tink-crypto/tink-go/v2/keyset"
	"github.com/tink-crypto/tink-go/v2/secretdata"
	"github.com/tink-crypto/tink-go/v2/signature"
	"github.com/tink-crypto/tink-go/v2/signature/slhdsa"
	"github.com/tink-crypto/tink-go/v2/testing/verifhooks"
	"github.com/tink-crypto/tink-go/v2/tink"
)

type pset struct {
	Name                      string
	Hash                      slhdsa.HashType
	KeySize                   int
	Sig                       slhdsa.SignatureType
	N, H, D, HP, A, K, M, Len int
	Fast                      bool
}

func mk(name string, h slhdsa.HashType, ks int, st slhdsa.SignatureType, n, hh, d, hp, a, k, m int) pset {
	return pset{Name: name, Hash: h, KeySize: ks, Sig: st, N: n, H: hh, D: d, HP: hp, A: a, K: k, M: m, Len: 2*n + 3, Fast: st == slhdsa.FastSigning}
}

// The sizes below only steer where mutations are placed and how inputs are sized (coverage); they are not
// oracles. The "derived" event lets TLC compare Tink's own constants with FIPS 205 Table 2.
var psets = []pset{
	mk("SLH-DSA-SHA2-128s", slhdsa.SHA2, 64, slhdsa.SmallSignature, 16, 63, 7, 9, 12, 14, 30),
	mk("SLH-DSA-SHAKE-128s", slhdsa.SHAKE, 64, slhdsa.SmallSignature, 16, 63, 7, 9, 12, 14, 30),
	mk("SLH-DSA-SHA2-128f", slhdsa.SHA2, 64, slhdsa.FastSigning, 16, 66, 22, 3, 6, 33, 34),
	mk("SLH-DSA-SHAKE-128f", slhdsa.SHAKE, 64, slhdsa.FastSigning, 16, 66, 22, 3, 6, 33, 34),
	mk("SLH-DSA-SHA2-192s", slhdsa.SHA2, 96, slhdsa.SmallSignature, 24, 63, 7, 9, 14, 17, 39),
	mk("SLH-DSA-SHAKE-192s", slhdsa.SHAKE, 96, slhdsa.SmallSignature, 24, 63, 7, 9, 14, 17, 39),
	mk("SLH-DSA-SHA2-192f", slhdsa.SHA2, 96, slhdsa.FastSigning, 24, 66, 22, 3, 8, 33, 42),
	mk("SLH-DSA-SHAKE-192f", slhdsa.SHAKE, 96, slhdsa.FastSigning, 24, 66, 22, 3, 8, 33, 42),
	mk("SLH-DSA-SHA2-256s", slhdsa.SHA2, 128, slhdsa.SmallSignature, 32, 64, 8, 8, 14, 22, 47),
	mk("SLH-DSA-SHAKE-256s", slhdsa.SHAKE, 128, slhdsa.SmallSignature, 32, 64, 8, 8, 14, 22, 47),
	mk("SLH-DSA-SHA2-256f", slhdsa.SHA2, 128, slhdsa.FastSigning, 32, 68, 17, 4, 9, 35, 49),
	mk("SLH-DSA-SHAKE-256f", slhdsa.SHAKE, 128, slhdsa.FastSigning, 32, 68, 17, 4, 9, 35, 49),
}

func (p pset) sigLen() int  { return (1 + p.K*(1+p.A) + p.H + p.D*p.Len) * p.N }
func (p pset) forsLen() int { return p.K * (1 + p.A) * p.N }
func (p pset) xmssLen() int { return (p.HP + p.Len) * p.N }

// sink collects the events of one generator (parameter sets are generated concurrently, then written in order).
type sink struct{ evs []vt.Ev }

func (s *sink) Emit(e vt.Ev) { s.evs = append(s.evs, e) }

var file *vt.Writer

func (s *sink) flush() {
	for _, e := range s.evs {
		file.Emit(e)
	}
	s.evs = nil
}

func clone(b []byte) []byte { return append([]byte(nil), b...) }

// ---------------------------------------------------------------------------------------- calls

type verdict struct {
	ok    bool
	panic bool
}

func verifyInternalAPI(p pset, pk, msg, sig, ctx []byte) verdict {
	var v verdict
	pan, _ := vt.Try(func() {
		verr, derr := verifhooks.SLHVerify(p.Name, pk, msg, sig, ctx)
		v.ok = verr == nil && derr == nil
	})
	v.panic = pan
	return v
}

func verifyRaw(p pset, pk, m, sig []byte) verdict {
	var v verdict
	pan, _ := vt.Try(func() {
		verr, derr := verifhooks.SLHVerifyInternal(p.Name, pk, m, sig)
		v.ok = verr == nil && derr == nil
	})
	v.panic = pan
	return v
}

func emitVerify(out *sink, p pset, route string, pk, msg, ctx, sig []byte, v verdict, mut string, variant, id string) {
	out.Emit(vt.Ev{"ev": "verify", "ps": p.Name, "route": route, "pk": vt.Hex(pk), "msg": vt.Hex(msg), "ctx": vt.Hex(ctx),
		"sig": vt.Hex(sig), "ok": v.ok, "panic": v.panic, "mut": mut, "variant": variant, "id": id})
}

func emitSign(out *sink, p pset, route string, sk, pk, msg, ctx, sig []byte, det bool, same bool, err bool, pan bool, mode string, piece int, variant, id string) {
	out.Emit(vt.Ev{"ev": "sign", "ps": p.Name, "route": route, "sk": vt.Hex(sk), "pk": vt.Hex(pk), "msg": vt.Hex(msg), "ctx": vt.Hex(ctx),
		"sig": vt.Hex(sig), "det": det, "same": same, "err": err, "panic": pan, "mode": mode, "piece": piece, "variant": variant, "id": id})
}

// ---------------------------------------------------------------------------------------- keys

type keypair struct{ sk, pk []byte }

// keygenInternal: slh_keygen_internal on chosen seeds (hook). full: TLC recomputes PK.root.
func keygenInternal(out *sink, p pset, r *rand.Rand, full bool, edge string) keypair {
	seeds := vt.Bytes(r, 3*p.N)
	switch edge {
	case "zero":
		seeds = make([]byte, 3*p.N)
	case "ff":
		for i := range seeds {
			seeds[i] = 0xff
		}
	}
	var sk, pk []byte
	var err error
	in := clone(seeds)
	pan, _ := vt.Try(func() {
		sk, pk, err = verifhooks.SLHKeygenInternal(p.Name, in[:p.N], in[p.N:2*p.N], in[2*p.N:])
	})
	if err != nil {
		vt.Fatal("keygen hook: %v", err)
	}
	out.Emit(vt.Ev{"ev": "keygen", "ps": p.Name, "route": "internal", "seeds": vt.Hex(seeds), "sk": vt.Hex(sk), "pk": vt.Hex(pk),
		"panic": pan, "full": full})
	if pan {
		vt.Fatal("keygen panicked for %s (recorded)", p.Name)
	}
	return keypair{sk, pk}
}

func variantOf(v string) slhdsa.Variant {
	if v == "TINK" {
		return slhdsa.VariantTink
	}
	return slhdsa.VariantNoPrefix
}

// apiKey builds signer and verifier through the public API from given private key bytes.
func apiPrims(p pset, sk []byte, variant string, id uint32) (tink.Signer, tink.Verifier, []byte, error) {
	params, err := slhdsa.NewParameters(p.Hash, p.KeySize, p.Sig, variantOf(variant))
	if err != nil {
		return nil, nil, nil, err
	}
	idReq := id
	if variant == "NO_PREFIX" {
		idReq = 0
	}
	priv, err := slhdsa.NewPrivateKey(secretdata.NewBytesFromData(clone(sk), insecuresecretdataaccess.Token{}), idReq, params)
	if err != nil {
		return nil, nil, nil, err
	}
	km := keyset.NewManager()
	kid, err := km.AddKey(priv)
	if err != nil {
		return nil, nil, nil, err
	}
	if err := km.SetPrimary(kid); err != nil {
		return nil, nil, nil, err
	}
	h, err := km.Handle()
	if err != nil {
		return nil, nil, nil, err
	}
	s, err := signature.NewSigner(h)
	if err != nil {
		return nil, nil, nil, err
	}
	ph, err := h.Public()
	if err != nil {
		return nil, nil, nil, err
	}
	v, err := signature.NewVerifier(ph)
	if err != nil {
		return nil, nil, nil, err
	}
	pubAny, err := priv.PublicKey()
	if err != nil {
		return nil, nil, nil, err
	}
	pub := pubAny.(*slhdsa.PublicKey)
	return s, v, pub.KeyBytes(), nil
}

// keygenAPI: a key generated by Tink itself (keyset manager, random seeds); TLC re-derives PK.root from the seeds.
func keygenAPI(out *sink, p pset, full bool) keypair {
	params, err := slhdsa.NewParameters(p.Hash, p.KeySize, p.Sig, slhdsa.VariantNoPrefix)
	if err != nil {
		vt.Fatal("NewParameters %s: %v", p.Name, err)
	}
	km := keyset.NewManager()
	kid, err := km.AddNewKeyFromParameters(params)
	if err != nil {
		vt.Fatal("AddNewKeyFromParameters %s: %v", p.Name, err)
	}
	if err := km.SetPrimary(kid); err != nil {
		vt.Fatal("SetPrimary: %v", err)
	}
	h, err := km.Handle()
	if err != nil {
		vt.Fatal("Handle: %v", err)
	}
	e, err := h.Entry(0)
	if err != nil {
		vt.Fatal("Entry: %v", err)
	}
	priv, okc := e.Key().(*slhdsa.PrivateKey)
	if !okc {
		vt.Fatal("generated key has type %T", e.Key())
	}
	sk := clone(priv.PrivateKeyBytes().Data(insecuresecretdataaccess.Token{}))
	pubAny, _ := priv.PublicKey()
	pk := pubAny.(*slhdsa.PublicKey).KeyBytes()
	out.Emit(vt.Ev{"ev": "keygen", "ps": p.Name, "route": "api", "seeds": "", "sk": vt.Hex(sk), "pk": vt.Hex(pk), "panic": false, "full": full})
	return keypair{sk, pk}
}

// ---------------------------------------------------------------------------------------- mutations

type mutation struct {
	label string
	sig   []byte
	msg   []byte
	ctx   []byte
	pk    []byte
}

func flip(b []byte, pos int, r *rand.Rand) []byte {
	c := clone(b)
	c[pos] ^= byte(1 << uint(r.Intn(8)))
	return c
}

// sigMutations: every single-component corruption class of the property, positions drawn by r.
// layers: how many hypertree layers get a WOTS / auth corruption (all when >= d).
func sigMutations(p pset, kp keypair, msg, ctx, sig []byte, r *rand.Rand, layers int, wide bool) []mutation {
	n := p.N
	var ms []mutation
	add := func(label string, s []byte) { ms = append(ms, mutation{label, s, msg, ctx, kp.pk}) }
	add("R", flip(sig, r.Intn(n), r))
	// FORS: tree i, secret value / auth node j
	i := r.Intn(p.K)
	add("fors-sk", flip(sig, n+i*(1+p.A)*n+r.Intn(n), r))
	i, j := r.Intn(p.K), r.Intn(p.A)
	add("fors-auth", flip(sig, n+(i*(1+p.A)+1+j)*n+r.Intn(n), r))
	// hypertree
	htOff := n + p.forsLen()
	ls := r.Perm(p.D)
	if layers < p.D {
		ls = ls[:layers]
		// always include the bottom and the top layer among the chosen ones in turn
		if r.Intn(2) == 0 {
			ls[0] = 0
		} else {
			ls[0] = p.D - 1
		}
	}
	for _, l := range ls {
		c := r.Intn(p.Len)
		add(fmt.Sprintf("wots-chain/layer%d", l), flip(sig, htOff+l*p.xmssLen()+c*n+r.Intn(n), r))
		a := r.Intn(p.HP)
		add(fmt.Sprintf("xmss-auth/layer%d", l), flip(sig, htOff+l*p.xmssLen()+(p.Len+a)*n+r.Intn(n), r))
	}
	add("len-1", clone(sig[:len(sig)-1]))
	add("len+1", append(clone(sig), 0))
	// message / key
	if len(msg) > 0 {
		ms = append(ms, mutation{"msg-bit", sig, flip(msg, r.Intn(len(msg)), r), ctx, kp.pk})
	}
	ms = append(ms, mutation{"msg-append", sig, append(clone(msg), 0), ctx, kp.pk})
	ms = append(ms, mutation{"pk-seed", sig, msg, ctx, flip(kp.pk, r.Intn(n), r)})
	ms = append(ms, mutation{"pk-root", sig, msg, ctx, flip(kp.pk, n+r.Intn(n), r)})
	if wide {
		add("first-byte", flip(sig, 0, r))
		add("last-byte", flip(sig, len(sig)-1, r))
		add("len-n", clone(sig[:len(sig)-n]))
		add("len+n", append(clone(sig), make([]byte, n)...))
		add("empty", []byte{})
		add("all-zero", make([]byte, len(sig)))
		// swap two WOTS chain values of the bottom layer, swap two FORS auth nodes
		sw := clone(sig)
		a, b := htOff, htOff+n
		for q := 0; q < n; q++ {
			sw[a+q], sw[b+q] = sw[b+q], sw[a+q]
		}
		add("swap-wots-chains", sw)
		// two XMSS layers exchanged
		if p.D > 1 {
			sw2 := clone(sig)
			copy(sw2[htOff:htOff+p.xmssLen()], sig[htOff+p.xmssLen():htOff+2*p.xmssLen()])
			copy(sw2[htOff+p.xmssLen():htOff+2*p.xmssLen()], sig[htOff:htOff+p.xmssLen()])
			add("swap-xmss-layers", sw2)
		}
		// context handling (domain separation of M' = 0 || |ctx| || ctx || M)
		ms = append(ms, mutation{"ctx-bit-or-added", sig, msg, ctxMut(ctx, r), kp.pk})
		ms = append(ms, mutation{"ctx-moved-into-msg", sig, append(clone(ctx), msg...), []byte{}, kp.pk})
		if len(msg) > 0 {
			ms = append(ms, mutation{"msg-byte-moved-into-ctx", sig, clone(msg[1:]), append(clone(ctx), msg[0]), kp.pk})
		}
		ms = append(ms, mutation{"ctx-256", sig, msg, make([]byte, 256), kp.pk})
		ms = append(ms, mutation{"pk-len-1", sig, msg, ctx, clone(kp.pk[:len(kp.pk)-1])})
		ms = append(ms, mutation{"pk-len+1", sig, msg, ctx, append(clone(kp.pk), 0)})
		ms = append(ms, mutation{"pk-halves-swapped", sig, msg, ctx, append(clone(kp.pk[n:]), kp.pk[:n]...)})
		ms = append(ms, mutation{"pk-seed-first-byte", sig, msg, ctx, flip(kp.pk, 0, r)})
		ms = append(ms, mutation{"pk-root-last-byte", sig, msg, ctx, flip(kp.pk, 2*n-1, r)})
		ms = append(ms, mutation{"R-last-byte", sig, msg, ctx, flip(sig, n-1, r)})
	}
	return ms
}

func ctxMut(ctx []byte, r *rand.Rand) []byte {
	if len(ctx) == 0 {
		return []byte{0}
	}
	return flip(ctx, r.Intn(len(ctx)), r)
}

// ---------------------------------------------------------------------------------------- plans

type sizes struct {
	msgsPerKey  int // messages with a valid signature + mutation set (internal route)
	layers      int // hypertree layers corrupted per signature
	extraValid  int // further random messages: valid signature only (index / digit diversity)
	extraValidS int // the same for the s sets (a signature costs Tink 1.5-3 s)
	fullSignF   int // deterministic signatures compared byte-for-byte (f sets)
	pieceSignS  bool
	keygenFullS bool
	apiMsgs     int
	splitRandom int
	adrsRandom  int
	b2bRandom   int
	sumRandom   int
}

func plan() sizes {
	if vt.Thorough() {
		return sizes{msgsPerKey: 4, layers: 99, extraValid: 96, extraValidS: 46, fullSignF: 3, pieceSignS: true, keygenFullS: true, apiMsgs: 6,
			splitRandom: 400, adrsRandom: 3000, b2bRandom: 4000, sumRandom: 400}
	}
	return sizes{msgsPerKey: 1, layers: 2, extraValid: 3, extraValidS: 1, fullSignF: 1, pieceSignS: false, keygenFullS: false, apiMsgs: 1,
		splitRandom: 40, adrsRandom: 300, b2bRandom: 300, sumRandom: 40}
}

func randMsg(r *rand.Rand) []byte {
	switch r.Intn(6) {
	case 0:
		return []byte{}
	case 1:
		return vt.Bytes(r, 1)
	case 2:
		return vt.Bytes(r, 1+r.Intn(300))
	default:
		return vt.Bytes(r, 1+r.Intn(64))
	}
}

func randCtx(r *rand.Rand) []byte {
	switch r.Intn(5) {
	case 0:
		return []byte{}
	case 1:
		return vt.Bytes(r, 255)
	default:
		return vt.Bytes(r, 1+r.Intn(32))
	}
}

// signDet: SignDeterministic; twice: also whether a second call returned the same bytes.
func signDet(p pset, kp keypair, msg, ctx []byte, twice bool) ([]byte, bool, bool, bool) {
	var sig []byte
	same := true
	var err error
	pan, _ := vt.Try(func() {
		sig, err = verifhooks.SLHSignDeterministic(p.Name, clone(kp.sk), clone(msg), clone(ctx))
		if err == nil && twice {
			sig2, _ := verifhooks.SLHSignDeterministic(p.Name, clone(kp.sk), clone(msg), clone(ctx))
			same = string(sig) == string(sig2)
		}
	})
	return sig, same, err != nil, pan
}

func runSet(out *sink, p pset, sz sizes, r *rand.Rand) {
	// ---- Tink's own constants
	if d, err := verifhooks.SLHDerived(p.Name); err == nil {
		ints := make([]int, len(d))
		for i, x := range d {
			ints[i] = int(x)
		}
		out.Emit(vt.Ev{"ev": "derived", "ps": p.Name, "vals": ints})
	} else {
		vt.Fatal("derived: %v", err)
	}
	// ---- keys
	full := p.Fast || sz.keygenFullS
	kp := keygenInternal(out, p, r, full, "")
	if vt.Thorough() && p.Fast {
		keygenInternal(out, p, r, true, "zero")
		keygenInternal(out, p, r, true, "ff")
		keygenInternal(out, p, r, true, "")
	}
	kpAPI := keygenAPI(out, p, full)

	// ---- deterministic signatures: byte-identical to the reference
	mode := "rv" // R equals PRF_msg and the reference verifies
	nfull := 0
	if p.Fast {
		mode, nfull = "full", sz.fullSignF
	} else if sz.pieceSignS {
		mode, nfull = "piece", 1
	}
	extra := sz.extraValid
	if !p.Fast {
		extra = sz.extraValidS
	}
	for q := 0; q < sz.msgsPerKey+extra; q++ {
		msg, ctx := randMsg(r), randCtx(r)
		if q == 1 {
			ctx = vt.Bytes(r, 255) // the longest admissible context, in every run
		}
		sig, same, serr, pan := signDet(p, kp, msg, ctx, q == 0 || p.Fast)
		md := "rv"
		if q < nfull {
			md = mode
		}
		if md == "rv" && q == 0 && !p.Fast && !serr && !pan { // quick, s sets: one XMSS layer (and SIG_FORS for n = 16) recomputed exactly
			if p.N == 16 {
				emitSign(out, p, "internal", kp.sk, kp.pk, msg, ctx, sig, true, same, serr, pan, "piece", 0, "NO_PREFIX", "00000000")
			}
			emitSign(out, p, "internal", kp.sk, kp.pk, msg, ctx, sig, true, same, serr, pan, "piece", 1+r.Intn(p.D), "NO_PREFIX", "00000000")
		}
		if md == "piece" && !serr && !pan {
			for piece := 0; piece <= p.D; piece++ {
				emitSign(out, p, "internal", kp.sk, kp.pk, msg, ctx, sig, true, same, serr, pan, "piece", piece, "NO_PREFIX", "00000000")
			}
		} else {
			emitSign(out, p, "internal", kp.sk, kp.pk, msg, ctx, sig, true, same, serr, pan, md, 0, "NO_PREFIX", "00000000")
		}
		if serr || pan {
			continue
		}
		// Tink's verdict on its own signature
		emitVerify(out, p, "internal", kp.pk, msg, ctx, sig, verifyInternalAPI(p, kp.pk, msg, sig, ctx), "none", "NO_PREFIX", "00000000")
		if q < sz.msgsPerKey {
			for _, m := range sigMutations(p, kp, msg, ctx, sig, r, sz.layers, q == 0) {
				emitVerify(out, p, "internal", m.pk, m.msg, m.ctx, m.sig, verifyInternalAPI(p, m.pk, m.msg, m.sig, m.ctx), m.label, "NO_PREFIX", "00000000")
			}
		}
	}
	// context too long: sign must refuse
	{
		msg := randMsg(r)
		var err error
		pan, _ := vt.Try(func() { _, err = verifhooks.SLHSignDeterministic(p.Name, clone(kp.sk), msg, make([]byte, 256)) })
		emitSign(out, p, "internal", kp.sk, kp.pk, msg, make([]byte, 256), nil, true, true, err != nil, pan, "rv", 0, "NO_PREFIX", "00000000")
	}
	// ---- hedged signature (internal Sign) and slh_sign_internal / slh_verify_internal with chosen addrnd
	{
		msg, ctx := randMsg(r), randCtx(r)
		var sig []byte
		var err error
		pan, _ := vt.Try(func() { sig, err = verifhooks.SLHSign(p.Name, clone(kp.sk), msg, ctx) })
		emitSign(out, p, "internal", kp.sk, kp.pk, msg, ctx, sig, false, true, err != nil, pan, "rv", 0, "NO_PREFIX", "00000000")
		if err == nil && !pan {
			emitVerify(out, p, "internal", kp.pk, msg, ctx, sig, verifyInternalAPI(p, kp.pk, msg, sig, ctx), "none-hedged", "NO_PREFIX", "00000000")
		}
		// raw internal interface: M is signed as is (no M' framing)
		addrnd := vt.Bytes(r, p.N)
		var rs []byte
		pan, _ = vt.Try(func() { rs, err = verifhooks.SLHSignInternal(p.Name, clone(kp.sk), msg, addrnd) })
		out.Emit(vt.Ev{"ev": "sign_internal", "ps": p.Name, "sk": vt.Hex(kp.sk), "msg": vt.Hex(msg), "addrnd": vt.Hex(addrnd), "sig": vt.Hex(rs),
			"err": err != nil, "panic": pan, "full": p.Fast && vt.Thorough()})
		if err == nil && !pan {
			emitVerify(out, p, "internal-raw", kp.pk, msg, nil, rs, verifyRaw(p, kp.pk, msg, rs), "none-raw", "NO_PREFIX", "00000000")
			// a raw signature over M is not a pure signature over M with empty context
			emitVerify(out, p, "internal", kp.pk, msg, nil, rs, verifyInternalAPI(p, kp.pk, msg, rs, nil), "raw-as-pure", "NO_PREFIX", "00000000")
		}
	}
	// ---- chosen digests: every leaf index at every layer, boundary FORS indices
	digestEvents(out, p, kp, r)
	// ---- public API: keyset -> signature.NewSigner / NewVerifier, both variants, the API-generated key and the seeded key
	ids := []uint32{0x01020304, 0xffffffff, 0x7fffffff, 0x80000000, 1}
	for q := 0; q < sz.apiMsgs; q++ {
		variant := []string{"TINK", "NO_PREFIX"}[q%2]
		id := ids[r.Intn(len(ids))]
		k := kpAPI
		if q%3 == 2 {
			k = kp
		}
		s, v, pkb, err := apiPrims(p, k.sk, variant, id)
		if err != nil {
			vt.Fatal("public API refused a valid %s key: %v", p.Name, err)
		}
		idh := vt.ID4(id)
		if variant == "NO_PREFIX" {
			idh = "00000000"
		}
		msg := randMsg(r)
		var sig []byte
		pan, _ := vt.Try(func() { sig, err = s.Sign(clone(msg)) })
		emitSign(out, p, "api", k.sk, pkb, msg, nil, sig, false, true, err != nil, pan, "rv", 0, variant, idh)
		if err != nil || pan {
			continue
		}
		av := func(sg, m []byte, label string) {
			var vv verdict
			vv.panic, _ = vt.Try(func() { vv.ok = v.Verify(clone(sg), clone(m)) == nil })
			emitVerify(out, p, "api", pkb, m, nil, sg, vv, label, variant, idh)
		}
		av(sig, msg, "none")
		pl := len(sig) - p.sigLen()
		av(flip(sig, pl+r.Intn(len(sig)-pl), r), msg, "api-sig-bit")
		av(sig, append(clone(msg), 1), "api-msg-append")
		av(clone(sig[:len(sig)-1]), msg, "api-len-1")
		if pl > 0 {
			av(flip(sig, r.Intn(pl), r), msg, "api-prefix-bit")
			av(clone(sig[pl:]), msg, "api-prefix-stripped")
		} else {
			av(append([]byte{1, 1, 2, 3, 4}, sig...), msg, "api-prefix-added")
		}
	}
}

// ---------------------------------------------------------------------------------------- chosen digests

// composeDigest builds an m-byte digest whose md part carries the given FORS indices (k values of a bits), whose
// tree part carries tree (h-h' bits) and whose leaf part carries leaf (h' bits); unused bits are filled with fill.
func composeDigest(p pset, fors []int, tree uint64, leaf int, fill bool) []byte {
	mdLen, treeLen, leafLen := (p.K*p.A+7)/8, (p.H-p.HP+7)/8, (p.HP+7)/8
	dg := make([]byte, mdLen+treeLen+leafLen)
	if fill {
		for i := range dg {
			dg[i] = 0xff
		}
	}
	setBit := func(pos int, v int) { // bit pos counted from the most significant bit of dg[0]
		if v != 0 {
			dg[pos/8] |= 0x80 >> uint(pos%8)
		} else {
			dg[pos/8] &^= 0x80 >> uint(pos%8)
		}
	}
	for i, ix := range fors {
		for b := 0; b < p.A; b++ {
			setBit(i*p.A+b, (ix>>uint(p.A-1-b))&1)
		}
	}
	tb := p.H - p.HP
	for b := 0; b < tb; b++ { // low tb bits of the tree bytes
		setBit(8*(mdLen+treeLen)-1-b, int((tree>>uint(b))&1))
	}
	for b := 0; b < p.HP; b++ {
		setBit(8*(mdLen+treeLen+leafLen)-1-b, (leaf>>uint(b))&1)
	}
	return dg
}

// digestEvents steers the real signing and verification code (real F, H, T_l, PRF; H_msg forced) to chosen indices:
// every leaf value v at EVERY hypertree layer at once (idx_leaf = v and every h'-bit slice of idx_tree = v), and all
// FORS indices equal to a boundary value.
func digestEvents(out *sink, p pset, kp keypair, r *rand.Rand) {
	leafMax := 1<<uint(p.HP) - 1
	var leaves []int
	if p.Fast {
		for v := 0; v <= leafMax; v++ {
			leaves = append(leaves, v)
		}
	} else if vt.Thorough() {
		leaves = []int{0, 1, 2, leafMax / 2, leafMax/2 + 1, leafMax - 1, leafMax}
		for q := 0; q < 17; q++ {
			leaves = append(leaves, r.Intn(leafMax+1))
		}
	} else {
		leaves = []int{0, leafMax}
	}
	aMax := 1<<uint(p.A) - 1
	forsVals := []int{0, aMax}
	if vt.Thorough() {
		forsVals = []int{0, 1, aMax - 1, aMax, aMax / 2, aMax/2 + 1, r.Intn(aMax + 1), r.Intn(aMax + 1)}
	}
	type dcase struct {
		dg   []byte
		what string
	}
	var cases []dcase
	randFors := func() []int {
		f := make([]int, p.K)
		for i := range f {
			f[i] = r.Intn(aMax + 1)
		}
		return f
	}
	for n, v := range leaves {
		var tree uint64
		for j := 0; j < p.D-1; j++ {
			tree |= uint64(v) << uint(j*p.HP)
		}
		cases = append(cases, dcase{composeDigest(p, randFors(), tree, v, n%2 == 1), fmt.Sprintf("leaf=%d at every layer", v)})
	}
	for n, u := range forsVals {
		f := make([]int, p.K)
		for i := range f {
			f[i] = u
		}
		cases = append(cases, dcase{composeDigest(p, f, r.Uint64(), r.Intn(leafMax+1), n%2 == 0), fmt.Sprintf("fors=%d in every tree", u)})
	}
	fullA := r.Intn(len(leaves)) // quick, f sets: one leaf case is recomputed in full (thorough: all)
	for n, c := range cases {
		rr := vt.Bytes(r, p.N)
		var sig []byte
		var err error
		pan, _ := vt.Try(func() { sig, err = verifhooks.SLHSignDigest(p.Name, clone(kp.sk), clone(c.dg), clone(rr)) })
		// how exactly the reference compares: "full" (whole signature recomputed), "fors" (R || SIG_FORS recomputed, rest cheap parts), "cheap"
		mode := "cheap"
		if p.Fast {
			if vt.Thorough() || n == fullA {
				mode = "full"
			} else if strings.HasPrefix(c.what, "fors=") {
				mode = "fors"
			}
		} else if strings.HasPrefix(c.what, "fors=") && (vt.Thorough() || p.N == 16) && (n == len(cases)-1 || n == len(cases)-len(forsVals)) {
			mode = "fors" // all FORS indices 0 / maximal
		}
		out.Emit(vt.Ev{"ev": "sign_digest", "ps": p.Name, "sk": vt.Hex(kp.sk), "digest": vt.Hex(c.dg), "r": vt.Hex(rr), "sig": vt.Hex(sig),
			"err": err != nil, "panic": pan, "mode": mode, "what": c.what})
		if err != nil || pan {
			continue
		}
		vd := func(sg []byte, mut string) {
			var v verdict
			v.panic, _ = vt.Try(func() {
				verr, derr := verifhooks.SLHVerifyDigest(p.Name, clone(kp.pk), clone(c.dg), clone(sg))
				v.ok = verr == nil && derr == nil
			})
			out.Emit(vt.Ev{"ev": "verify_digest", "ps": p.Name, "pk": vt.Hex(kp.pk), "digest": vt.Hex(c.dg), "sig": vt.Hex(sg), "ok": v.ok,
				"panic": v.panic, "mut": mut, "what": c.what})
		}
		vd(sig, "none")
		if n%4 == 0 { // one corruption in the top XMSS layer's authentication path
			off := p.N + p.forsLen() + (p.D-1)*p.xmssLen() + (p.Len+r.Intn(p.HP))*p.N + r.Intn(p.N)
			vd(flip(sig, off, r), "xmss-auth/top")
		}
	}
}

// ---------------------------------------------------------------------------------------- hook domains

func u16hex(ds []uint32) string {
	b := make([]byte, 2*len(ds))
	for i, d := range ds {
		if d > 0xffff {
			vt.Fatal("digit %d does not fit 16 bits", d)
		}
		binary.BigEndian.PutUint16(b[2*i:], uint16(d))
	}
	return vt.Hex(b)
}

func hookEvents(out *sink, sz sizes, r *rand.Rand) {
	// base_2b on ALL two-byte inputs for every digit width b in use (lg_w = 4; a = 6, 8, 9, 12, 14) and all other b <= 16
	for b := 1; b <= 16; b++ {
		outLen := 16 / b
		const chunk = 4096
		for start := 0; start < 65536; start += chunk {
			var all []uint32
			for x := start; x < start+chunk; x++ {
				all = append(all, verifhooks.SLHBase2b([]byte{byte(x >> 8), byte(x)}, uint32(b), uint32(outLen))...)
			}
			out.Emit(vt.Ev{"ev": "base2b_range", "b": b, "outLen": outLen, "start": start, "count": chunk, "out": u16hex(all)})
		}
	}
	// base_2b on longer inputs: the md of every parameter set (k digits of a bits), WOTS messages (2n digits of 4 bits), patterns + random
	for _, p := range psets {
		if strings.Contains(p.Name, "SHAKE") {
			continue // sizes repeat
		}
		for _, c := range []struct{ b, outLen, xlen int }{{p.A, p.K, (p.K*p.A + 7) / 8}, {4, 2 * p.N, p.N}, {4, 3, 2}} {
			pats := [][]byte{make([]byte, c.xlen)}
			ff := make([]byte, c.xlen)
			for i := range ff {
				ff[i] = 0xff
			}
			pats = append(pats, ff)
			for bit := 0; bit < 8*c.xlen; bit++ {
				x := make([]byte, c.xlen)
				x[bit/8] = 0x80 >> uint(bit%8)
				pats = append(pats, x)
			}
			for q := 0; q < sz.b2bRandom/8; q++ {
				pats = append(pats, vt.Bytes(r, c.xlen))
			}
			for _, x := range pats {
				ds := verifhooks.SLHBase2b(clone(x), uint32(c.b), uint32(c.outLen))
				out.Emit(vt.Ev{"ev": "base2b", "b": c.b, "outLen": c.outLen, "x": vt.Hex(x), "out": u16hex(ds)})
			}
		}
	}
	// toInt / toByte
	for n := 0; n <= 8; n++ {
		xs := [][]byte{make([]byte, 8), {0xff, 0xff, 0xff, 0xff, 0xff, 0xff, 0xff, 0xff}, {1, 2, 3, 4, 5, 6, 7, 8}, {0x80, 0, 0, 0, 0, 0, 0, 1}}
		for q := 0; q < 12; q++ {
			xs = append(xs, vt.Bytes(r, 8))
		}
		for _, x := range xs {
			v := verifhooks.SLHToInt(clone(x), uint32(n))
			var vb [8]byte
			binary.BigEndian.PutUint64(vb[:], v)
			out.Emit(vt.Ev{"ev": "toint", "x": vt.Hex(x), "n": n, "out": vt.Hex(vb[:])})
		}
		for _, x := range []uint32{0, 1, 255, 256, 0x1234, 0xffff, 0x10000, 0x01020304, 0x7fffffff, 0x80000000, 0xffffffff, r.Uint32(), r.Uint32()} {
			var xb [4]byte
			binary.BigEndian.PutUint32(xb[:], x)
			out.Emit(vt.Ev{"ev": "tobyte", "x": vt.Hex(xb[:]), "n": n, "out": vt.Hex(verifhooks.SLHToByte(x, uint32(n)))})
		}
	}
	// WOTS+ digits incl. checksum: every possible digit sum, single-digit sweeps, random
	for _, p := range psets {
		if strings.Contains(p.Name, "SHAKE") {
			continue
		}
		var msgs [][]byte
		nd := 2 * p.N
		for sum := 0; sum <= 15*nd; sum++ { // first q digits 15, next digit rem, rest 0
			m := make([]byte, p.N)
			for d := 0; d < nd; d++ {
				v := 0
				if d < sum/15 {
					v = 15
				} else if d == sum/15 {
					v = sum % 15
				}
				if d%2 == 0 {
					m[d/2] |= byte(v << 4)
				} else {
					m[d/2] |= byte(v)
				}
			}
			msgs = append(msgs, m)
		}
		for d := 0; d < nd; d++ {
			for _, v := range []int{1, 8, 15} {
				m := make([]byte, p.N)
				if d%2 == 0 {
					m[d/2] = byte(v << 4)
				} else {
					m[d/2] = byte(v)
				}
				msgs = append(msgs, m)
			}
		}
		for q := 0; q < sz.sumRandom; q++ {
			msgs = append(msgs, vt.Bytes(r, p.N))
		}
		for _, m := range msgs {
			ds, err := verifhooks.SLHWotsChecksum(p.Name, clone(m))
			if err != nil {
				vt.Fatal("checksum hook: %v", err)
			}
			out.Emit(vt.Ev{"ev": "checksum", "ps": p.Name, "msg": vt.Hex(m), "out": u16hex(ds)})
		}
	}
	// ADRS: setter sequences; every field at 0 / max (2^31-1 for the 32-bit words: TLC integers; 2^64-1 for the tree) / byte probes
	words := []uint64{0, 1, 0xff, 0x100, 0x01020304, 0x7fffffff, 0x7f000000, 0x00ff0000, 0x0000ff00, 21, 511}
	trees := []uint64{0, 1, 0xff, 0x0102030405060708, 0xffffffffffffffff, 0x8000000000000000, 0x7fffffffffffffff, 0x00000000ffffffff, 0xffffffff00000000}
	fields := []string{"layer", "keypair", "chain", "height", "hash", "index"}
	emitAdrs := func(ops []verifhooks.SLHAddrOp) {
		full, comp, kp, ti, err := verifhooks.SLHAddress(ops)
		if err != nil {
			vt.Fatal("address hook: %v", err)
		}
		jo := [][]string{}
		for _, o := range ops {
			var vb [8]byte
			binary.BigEndian.PutUint64(vb[:], o.Val)
			jo = append(jo, []string{o.Op, vt.Hex(vb[:])})
		}
		var kb, tb [4]byte
		binary.BigEndian.PutUint32(kb[:], kp)
		binary.BigEndian.PutUint32(tb[:], ti)
		out.Emit(vt.Ev{"ev": "adrs", "ops": jo, "full": vt.Hex(full), "comp": vt.Hex(comp), "kp": vt.Hex(kb[:]), "ti": vt.Hex(tb[:])})
	}
	emitAdrs(nil)
	for _, f := range fields {
		for _, w := range words {
			emitAdrs([]verifhooks.SLHAddrOp{{Op: f, Val: w}})
			// set everything to a pattern first, then this field: neighbours must survive
			emitAdrs([]verifhooks.SLHAddrOp{{Op: "layer", Val: 0x7fffffff}, {Op: "tree", Val: 0xffffffffffffffff}, {Op: "type", Val: 6}, {Op: "keypair", Val: 0x7fffffff},
				{Op: "chain", Val: 0x7fffffff}, {Op: "hash", Val: 0x7fffffff}, {Op: f, Val: w}})
		}
	}
	for _, t := range trees {
		emitAdrs([]verifhooks.SLHAddrOp{{Op: "tree", Val: t}})
		emitAdrs([]verifhooks.SLHAddrOp{{Op: "layer", Val: 0x7fffffff}, {Op: "type", Val: 2}, {Op: "height", Val: 0x7fffffff}, {Op: "tree", Val: t}})
	}
	for ty := uint64(0); ty <= 6; ty++ { // type change clears the three type-specific words and nothing else
		emitAdrs([]verifhooks.SLHAddrOp{{Op: "layer", Val: 5}, {Op: "tree", Val: 0x1122334455667788}, {Op: "keypair", Val: 0x7fffffff}, {Op: "chain", Val: 0x7fffffff},
			{Op: "hash", Val: 0x7fffffff}, {Op: "type", Val: ty}})
		emitAdrs([]verifhooks.SLHAddrOp{{Op: "type", Val: ty}, {Op: "keypair", Val: 300}, {Op: "height", Val: 7}, {Op: "index", Val: 99}, {Op: "copy"}, {Op: "type", Val: (ty + 1) % 7}})
	}
	for q := 0; q < sz.adrsRandom; q++ {
		var ops []verifhooks.SLHAddrOp
		all := append([]string{"tree", "type", "copy"}, fields...)
		for k := 1 + r.Intn(8); k > 0; k-- {
			op := all[r.Intn(len(all))]
			var v uint64
			switch op {
			case "tree":
				v = r.Uint64()
				if r.Intn(3) == 0 {
					v = trees[r.Intn(len(trees))]
				}
			case "type":
				v = uint64(r.Intn(7))
			case "copy":
			default:
				v = uint64(r.Int31())
				if r.Intn(3) == 0 {
					v = words[r.Intn(len(words))]
				}
			}
			ops = append(ops, verifhooks.SLHAddrOp{Op: op, Val: v})
		}
		emitAdrs(ops)
	}
	// digest -> (md digits, idx_tree, idx_leaf, per-layer tree/leaf) as the real verification path derives them
	for _, p := range psets {
		var ds [][]byte
		ds = append(ds, make([]byte, p.M))
		ff := make([]byte, p.M)
		for i := range ff {
			ff[i] = 0xff
		}
		ds = append(ds, ff)
		for bit := 0; bit < 8*p.M; bit++ { // walking one / walking zero: every bit position of the digest
			x, y := make([]byte, p.M), clone(ff)
			x[bit/8] = 0x80 >> uint(bit%8)
			y[bit/8] ^= 0x80 >> uint(bit%8)
			ds = append(ds, x)
			if vt.Thorough() {
				ds = append(ds, y)
			}
		}
		for q := 0; q < sz.splitRandom; q++ {
			ds = append(ds, vt.Bytes(r, p.M))
		}
		for _, dg := range ds {
			calls, err := verifhooks.SLHVerifyAddresses(p.Name, clone(dg))
			if err != nil {
				vt.Fatal("split hook: %v", err)
			}
			var fors, layers []string
			seen := map[uint32]bool{}
			for _, c := range calls {
				ty := binary.BigEndian.Uint32(c.Adrs[16:20])
				if c.Kind == "F" && ty == 3 { // FORS leaf hashes, in order of trees
					fors = append(fors, vt.Hex(c.Adrs[:]))
				}
				if c.Kind == "F" && ty == 0 { // first WOTS+ chain hash of each layer
					l := binary.BigEndian.Uint32(c.Adrs[0:4])
					if !seen[l] {
						seen[l] = true
						layers = append(layers, vt.Hex(c.Adrs[:]))
					}
				}
			}
			out.Emit(vt.Ev{"ev": "split", "ps": p.Name, "digest": vt.Hex(dg), "fors": fors, "layers": layers, "calls": len(calls)})
		}
	}
	// the final root comparison on chosen PK.root values (stubbed hashes: every node is the zero string)
	for _, p := range psets {
		dg := vt.Bytes(r, p.M)
		var roots [][]byte
		roots = append(roots, make([]byte, p.N))
		pos := []int{0, 1, p.N / 2, p.N - 2, p.N - 1}
		if vt.Thorough() {
			pos = nil
			for i := 0; i < p.N; i++ {
				pos = append(pos, i)
			}
		}
		for _, i := range pos {
			x := make([]byte, p.N)
			x[i] = 1 << uint(r.Intn(8))
			roots = append(roots, x)
		}
		ff := make([]byte, p.N)
		for i := range ff {
			ff[i] = 0xff
		}
		roots = append(roots, ff)
		for _, root := range roots {
			ok, err := verifhooks.SLHVerifyStubbed(p.Name, clone(dg), clone(root))
			if err != nil {
				vt.Fatal("root hook: %v", err)
			}
			out.Emit(vt.Ev{"ev": "rootcmp", "ps": p.Name, "digest": vt.Hex(dg), "pkroot": vt.Hex(root), "ok": ok})
		}
	}
}

// ---------------------------------------------------------------------------------------- replay / plan

// replay re-executes recorded events against the current tree: same inputs, fresh outputs.
func replay(out *sink, path string) {
	raw, err := os.ReadFile(path)
	if err != nil {
		vt.Fatal("replay: %v", err)
	}
	var obj struct {
		Event  map[string]any   `json:"event"`
		Events []map[string]any `json:"events"`
	}
	if err := json.Unmarshal(raw, &obj); err != nil {
		vt.Fatal("replay: %v", err)
	}
	evs := obj.Events
	if obj.Event != nil {
		evs = append(evs, obj.Event)
	}
	for _, e := range evs {
		reexec(out, e)
	}
}

func str(e map[string]any, k string) string { s, _ := e[k].(string); return s }
func num(e map[string]any, k string) int    { f, _ := e[k].(float64); return int(f) }
func boolean(e map[string]any, k string) bool {
	b, _ := e[k].(bool)
	return b
}

func findSet(name string) pset {
	for _, p := range psets {
		if p.Name == name {
			return p
		}
	}
	vt.Fatal("unknown parameter set %q", name)
	return pset{}
}

func idOf(e map[string]any) uint32 {
	b := vt.Unhex(str(e, "id"))
	if len(b) != 4 {
		return 0
	}
	return binary.BigEndian.Uint32(b)
}

func reexec(out *sink, e map[string]any) {
	switch str(e, "ev") {
	case "verify":
		p := findSet(str(e, "ps"))
		pk, msg, ctx, sig := vt.Unhex(str(e, "pk")), vt.Unhex(str(e, "msg")), vt.Unhex(str(e, "ctx")), vt.Unhex(str(e, "sig"))
		switch str(e, "route") {
		case "internal", "kat", "plan":
			emitVerify(out, p, str(e, "route"), pk, msg, ctx, sig, verifyInternalAPI(p, pk, msg, sig, ctx), str(e, "mut"), "NO_PREFIX", "00000000")
		case "internal-raw":
			emitVerify(out, p, "internal-raw", pk, msg, nil, sig, verifyRaw(p, pk, msg, sig), str(e, "mut"), "NO_PREFIX", "00000000")
		case "api":
			variant := str(e, "variant")
			params, err := slhdsa.NewParameters(p.Hash, p.KeySize, p.Sig, variantOf(variant))
			if err != nil {
				vt.Fatal("replay NewParameters: %v", err)
			}
			id := idOf(e)
			pub, err := slhdsa.NewPublicKey(pk, id, params)
			if err != nil {
				vt.Fatal("replay NewPublicKey: %v", err)
			}
			km := keyset.NewManager()
			kid, err := km.AddKey(pub)
			if err != nil {
				vt.Fatal("replay AddKey: %v", err)
			}
			km.SetPrimary(kid)
			h, err := km.Handle()
			if err != nil {
				vt.Fatal("replay Handle: %v", err)
			}
			v, err := signature.NewVerifier(h)
			if err != nil {
				vt.Fatal("replay NewVerifier: %v", err)
			}
			var vv verdict
			vv.panic, _ = vt.Try(func() { vv.ok = v.Verify(sig, msg) == nil })
			emitVerify(out, p, "api", pk, msg, nil, sig, vv, str(e, "mut"), variant, str(e, "id"))
		}
	case "sign":
		p := findSet(str(e, "ps"))
		sk, pk, msg, ctx := vt.Unhex(str(e, "sk")), vt.Unhex(str(e, "pk")), vt.Unhex(str(e, "msg")), vt.Unhex(str(e, "ctx"))
		kp := keypair{sk, pk}
		if str(e, "route") == "api" {
			s, _, pkb, err := apiPrims(p, sk, str(e, "variant"), idOf(e))
			if err != nil {
				vt.Fatal("replay apiPrims: %v", err)
			}
			var sig []byte
			pan, _ := vt.Try(func() { sig, err = s.Sign(msg) })
			emitSign(out, p, "api", sk, pkb, msg, nil, sig, false, true, err != nil, pan, "rv", 0, str(e, "variant"), str(e, "id"))
			return
		}
		if boolean(e, "det") {
			sig, same, serr, pan := signDet(p, kp, msg, ctx, true)
			emitSign(out, p, "internal", sk, pk, msg, ctx, sig, true, same, serr, pan, str(e, "mode"), num(e, "piece"), "NO_PREFIX", "00000000")
		} else {
			var sig []byte
			var err error
			pan, _ := vt.Try(func() { sig, err = verifhooks.SLHSign(p.Name, sk, msg, ctx) })
			emitSign(out, p, "internal", sk, pk, msg, ctx, sig, false, true, err != nil, pan, "rv", 0, "NO_PREFIX", "00000000")
		}
	case "sign_internal":
		p := findSet(str(e, "ps"))
		sk, msg, addrnd := vt.Unhex(str(e, "sk")), vt.Unhex(str(e, "msg")), vt.Unhex(str(e, "addrnd"))
		var rs []byte
		var err error
		pan, _ := vt.Try(func() { rs, err = verifhooks.SLHSignInternal(p.Name, sk, msg, addrnd) })
		out.Emit(vt.Ev{"ev": "sign_internal", "ps": p.Name, "sk": vt.Hex(sk), "msg": vt.Hex(msg), "addrnd": vt.Hex(addrnd), "sig": vt.Hex(rs),
			"err": err != nil, "panic": pan, "full": boolean(e, "full")})
	case "keygen":
		p := findSet(str(e, "ps"))
		seeds := vt.Unhex(str(e, "seeds"))
		if len(seeds) != 3*p.N { // API-generated key: regenerate from its own seeds
			seeds = vt.Unhex(str(e, "sk"))[:3*p.N]
		}
		var sk, pk []byte
		pan, _ := vt.Try(func() { sk, pk, _ = verifhooks.SLHKeygenInternal(p.Name, seeds[:p.N], seeds[p.N:2*p.N], seeds[2*p.N:]) })
		out.Emit(vt.Ev{"ev": "keygen", "ps": p.Name, "route": "internal", "seeds": vt.Hex(seeds), "sk": vt.Hex(sk), "pk": vt.Hex(pk), "panic": pan, "full": true})
	case "base2b":
		x := vt.Unhex(str(e, "x"))
		ds := verifhooks.SLHBase2b(x, uint32(num(e, "b")), uint32(num(e, "outLen")))
		out.Emit(vt.Ev{"ev": "base2b", "b": num(e, "b"), "outLen": num(e, "outLen"), "x": vt.Hex(x), "out": u16hex(ds)})
	case "base2b_range":
		b, outLen, start, count := num(e, "b"), num(e, "outLen"), num(e, "start"), num(e, "count")
		var all []uint32
		for x := start; x < start+count; x++ {
			all = append(all, verifhooks.SLHBase2b([]byte{byte(x >> 8), byte(x)}, uint32(b), uint32(outLen))...)
		}
		out.Emit(vt.Ev{"ev": "base2b_range", "b": b, "outLen": outLen, "start": start, "count": count, "out": u16hex(all)})
	case "sign_digest":
		p := findSet(str(e, "ps"))
		var sig []byte
		var err error
		pan, _ := vt.Try(func() {
			sig, err = verifhooks.SLHSignDigest(p.Name, vt.Unhex(str(e, "sk")), vt.Unhex(str(e, "digest")), vt.Unhex(str(e, "r")))
		})
		out.Emit(vt.Ev{"ev": "sign_digest", "ps": p.Name, "sk": str(e, "sk"), "digest": str(e, "digest"), "r": str(e, "r"), "sig": vt.Hex(sig),
			"err": err != nil, "panic": pan, "mode": str(e, "mode"), "what": str(e, "what")})
	case "verify_digest":
		p := findSet(str(e, "ps"))
		var v verdict
		v.panic, _ = vt.Try(func() {
			verr, derr := verifhooks.SLHVerifyDigest(p.Name, vt.Unhex(str(e, "pk")), vt.Unhex(str(e, "digest")), vt.Unhex(str(e, "sig")))
			v.ok = verr == nil && derr == nil
		})
		out.Emit(vt.Ev{"ev": "verify_digest", "ps": p.Name, "pk": str(e, "pk"), "digest": str(e, "digest"), "sig": str(e, "sig"), "ok": v.ok,
			"panic": v.panic, "mut": str(e, "mut"), "what": str(e, "what")})
	case "rootcmp":
		ok, err := verifhooks.SLHVerifyStubbed(str(e, "ps"), vt.Unhex(str(e, "digest")), vt.Unhex(str(e, "pkroot")))
		if err != nil {
			vt.Fatal("replay rootcmp: %v", err)
		}
		out.Emit(vt.Ev{"ev": "rootcmp", "ps": str(e, "ps"), "digest": str(e, "digest"), "pkroot": str(e, "pkroot"), "ok": ok})
	case "checksum":
		m := vt.Unhex(str(e, "msg"))
		ds, err := verifhooks.SLHWotsChecksum(str(e, "ps"), m)
		if err != nil {
			vt.Fatal("replay checksum: %v", err)
		}
		out.Emit(vt.Ev{"ev": "checksum", "ps": str(e, "ps"), "msg": vt.Hex(m), "out": u16hex(ds)})
	default:
		// toint / tobyte / adrs / split / derived are deterministic functions of the seed: re-run the hook domain
		hookEvents(out, plan(), vt.Rng(99))
	}
}

// planVerify: signatures made by the SPECIFICATION (TLC wrote them) are fed to Tink's verifier.
func planVerify(out *sink, path string) {
	raw, err := os.ReadFile(path)
	if err != nil {
		vt.Fatal("plan: %v", err)
	}
	r := vt.Rng(77)
	for _, line := range strings.Split(strings.TrimSpace(string(raw)), "\n") {
		if strings.TrimSpace(line) == "" {
			continue
		}
		var e map[string]any
		if err := json.Unmarshal([]byte(line), &e); err != nil {
			vt.Fatal("plan line: %v", err)
		}
		p := findSet(str(e, "ps"))
		pk, msg, ctx, sig := vt.Unhex(str(e, "pk")), vt.Unhex(str(e, "msg")), vt.Unhex(str(e, "ctx")), vt.Unhex(str(e, "sig"))
		emitVerify(out, p, "plan", pk, msg, ctx, sig, verifyInternalAPI(p, pk, msg, sig, ctx), "spec-made", "NO_PREFIX", "00000000")
		if len(sig) == p.sigLen() {
			bad := flip(sig, r.Intn(len(sig)), r)
			emitVerify(out, p, "plan", pk, msg, ctx, bad, verifyInternalAPI(p, pk, msg, bad, ctx), "spec-made-bit", "NO_PREFIX", "00000000")
		}
	}
}

func main() {
	outPath := flag.String("out", "c16.ndjson", "trace file")
	rep := flag.String("replay", "", "replay file")
	pl := flag.String("plan", "", "ndjson of specification-made signatures to verify with Tink")
	only := flag.String("only", "", "comma-separated parameter set names (default all)")
	noHooks := flag.Bool("nohooks", false, "skip the hook-domain events")
	flag.Parse()
	file = vt.NewWriter(*outPath)
	defer file.Close()
	if *rep != "" {
		s := &sink{}
		replay(s, *rep)
		s.flush()
		return
	}
	if *pl != "" {
		s := &sink{}
		planVerify(s, *pl)
		s.flush()
		return
	}
	sz := plan()
	sinks := make([]*sink, len(psets)+1)
	var wg sync.WaitGroup
	for i, p := range psets {
		sinks[i] = &sink{}
		if *only != "" && !strings.Contains(","+*only+",", ","+p.Name+",") {
			continue
		}
		wg.Add(1)
		go func(i int, p pset) {
			defer wg.Done()
			runSet(sinks[i], p, sz, vt.Rng(int64(100+i)))
		}(i, p)
	}
	sinks[len(psets)] = &sink{}
	if !*noHooks {
		wg.Add(1)
		go func() {
			defer wg.Done()
			hookEvents(sinks[len(psets)], sz, vt.Rng(99))
		}()
	}
	wg.Wait()
	for _, s := range sinks {
		s.flush()
	}
	fmt.Printf("c16: %d events\n", file.Count())
}
