package main

// JSON values as the specification models them (spec/sys/JWKJson.tla), the driver's OWN renderer
// (text the real converter is fed with) and its OWN parser (projection of the text the converter
// produced).  Octets travel as hex.

import (
	"bytes"
	"encoding/hex"
	"encoding/json"
	"fmt"
	"io"
	"strings"
)

// Val is one JSON value: K = str | num | bool | null | list | obj | absent | mat (placeholder of a plan).
type Val struct {
	K string `json:"k"`
	H string `json:"h,omitempty"` // str: UTF-8 octets; num/bool/null: the literal text
	L []Val  `json:"l,omitempty"`
	M []Mem  `json:"m,omitempty"`
	F string `json:"f,omitempty"` // mat: field
	C string `json:"c,omitempty"` // mat: class
}

type Mem struct {
	N string `json:"n"`
	V Val    `json:"v"`
}

// MarshalJSON keeps the field sets fixed per kind (TLC reads records: "l" / "m" must be there even when empty).
func (v Val) MarshalJSON() ([]byte, error) {
	switch v.K {
	case "str", "num", "bool", "null":
		return json.Marshal(map[string]any{"k": v.K, "h": v.H})
	case "list":
		l := v.L
		if l == nil {
			l = []Val{}
		}
		return json.Marshal(map[string]any{"k": v.K, "l": l})
	case "obj":
		m := v.M
		if m == nil {
			m = []Mem{}
		}
		return json.Marshal(map[string]any{"k": v.K, "m": m})
	case "mat":
		return json.Marshal(map[string]any{"k": v.K, "f": v.F, "c": v.C})
	}
	return json.Marshal(map[string]any{"k": v.K})
}

func vStr(b []byte) Val       { return Val{K: "str", H: hex.EncodeToString(b)} }
func vLit(k, text string) Val { return Val{K: k, H: hex.EncodeToString([]byte(text))} }
func vAbsent() Val            { return Val{K: "absent"} }

func (v Val) bytes() []byte {
	b, err := hex.DecodeString(v.H)
	if err != nil {
		panic(fmt.Sprintf("bad hex in value: %q", v.H))
	}
	return b
}

// ------------------------------------------------------------------ renderer (RFC 8259)

func quote(w *bytes.Buffer, b []byte) {
	const hexd = "0123456789abcdef"
	w.WriteByte('"')
	for _, c := range b {
		switch {
		case c == '"':
			w.WriteString(`\"`)
		case c == '\\':
			w.WriteString(`\\`)
		case c < 0x20:
			w.WriteString(`\u00`)
			w.WriteByte(hexd[c>>4])
			w.WriteByte(hexd[c&15])
		default:
			w.WriteByte(c)
		}
	}
	w.WriteByte('"')
}

func render(w *bytes.Buffer, v Val, ws bool) {
	open := func(c byte) {
		if ws {
			w.Write([]byte{' ', c, '\n', ' '})
		} else {
			w.WriteByte(c)
		}
	}
	cls := func(c byte) {
		if ws {
			w.Write([]byte{'\r', '\n', c, ' '})
		} else {
			w.WriteByte(c)
		}
	}
	sep := func() {
		if ws {
			w.WriteString(" ,\r\n\t")
		} else {
			w.WriteByte(',')
		}
	}
	switch v.K {
	case "str":
		quote(w, v.bytes())
	case "num", "bool", "null":
		w.Write(v.bytes())
	case "list":
		open('[')
		for i, x := range v.L {
			if i > 0 {
				sep()
			}
			render(w, x, ws)
		}
		cls(']')
	case "obj":
		open('{')
		for i, m := range v.M {
			if i > 0 {
				sep()
			}
			quote(w, []byte(m.N))
			if ws {
				w.WriteString(" : ")
			} else {
				w.WriteByte(':')
			}
			render(w, m.V, ws)
		}
		cls('}')
	default:
		panic("cannot render value of kind " + v.K)
	}
}

// shapeText: the octets handed to the converter (JWKJson!JShapeText).
func shapeText(shape string, v Val) []byte {
	var w bytes.Buffer
	switch shape {
	case "object":
		render(&w, v, false)
	case "ws":
		render(&w, v, true)
	case "malformed":
		render(&w, v, false)
		return w.Bytes()[:w.Len()-1]
	case "trailing":
		render(&w, v, false)
		w.WriteByte('x')
	case "empty":
	case "bom":
		w.Write([]byte{0xef, 0xbb, 0xbf})
		render(&w, v, false)
	default:
		panic("unknown shape " + shape)
	}
	return w.Bytes()
}

// ------------------------------------------------------------------ parser (token stream of encoding/json:
// member order and duplicate names are kept, numbers keep their text)

func parseJSON(text []byte) (Val, error) {
	d := json.NewDecoder(bytes.NewReader(text))
	d.UseNumber()
	v, err := parseValue(d)
	if err != nil {
		return Val{}, err
	}
	if _, err := d.Token(); err != io.EOF {
		return Val{}, fmt.Errorf("trailing data after the JSON value")
	}
	return v, nil
}

func parseValue(d *json.Decoder) (Val, error) {
	t, err := d.Token()
	if err != nil {
		return Val{}, err
	}
	switch x := t.(type) {
	case json.Delim:
		switch x {
		case '{':
			o := Val{K: "obj", M: []Mem{}}
			for d.More() {
				kt, err := d.Token()
				if err != nil {
					return Val{}, err
				}
				name, ok := kt.(string)
				if !ok {
					return Val{}, fmt.Errorf("member name is not a string")
				}
				mv, err := parseValue(d)
				if err != nil {
					return Val{}, err
				}
				o.M = append(o.M, Mem{N: name, V: mv})
			}
			if _, err := d.Token(); err != nil {
				return Val{}, err
			}
			return o, nil
		case '[':
			l := Val{K: "list", L: []Val{}}
			for d.More() {
				ev, err := parseValue(d)
				if err != nil {
					return Val{}, err
				}
				l.L = append(l.L, ev)
			}
			if _, err := d.Token(); err != nil {
				return Val{}, err
			}
			return l, nil
		}
		return Val{}, fmt.Errorf("unexpected delimiter %v", x)
	case string:
		return vStr([]byte(x)), nil
	case json.Number:
		return vLit("num", x.String()), nil
	case bool:
		if x {
			return vLit("bool", "true"), nil
		}
		return vLit("bool", "false"), nil
	case nil:
		return vLit("null", "null"), nil
	}
	return Val{}, fmt.Errorf("unexpected token %T", t)
}

// namesASCII: member names travel as TLA+ strings; keep them printable ASCII (the cases only use such names).
func namesASCII(v Val) bool {
	switch v.K {
	case "list":
		for _, x := range v.L {
			if !namesASCII(x) {
				return false
			}
		}
	case "obj":
		for _, m := range v.M {
			if strings.IndexFunc(m.N, func(r rune) bool { return r < 0x20 || r > 0x7e || r == '"' || r == '\\' }) >= 0 || !namesASCII(m.V) {
				return false
			}
		}
	}
	return true
}
