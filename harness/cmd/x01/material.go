package main

// Key material of the run.  Made with Go's standard library only (never with Tink), so that what the
// driver feeds into the converter and logs as "the key" is independent of the code under test.

import (
	"crypto/ecdsa"
	"crypto/elliptic"
	"crypto/rand"
	"crypto/rsa"
	"math/big"

	"verifharness/vt"
)

type ecMat struct {
	X, Y, D []byte // full-size coordinates, private scalar
}

type rsaMat struct {
	N, E, D, P, Q []byte
}

type Materials struct {
	EC    map[string]map[string]ecMat // curve ("P-256") -> name ("m1", "m2", "z": X starts with a zero octet)
	RSA   map[string]rsaMat           // "m1", "m2"
	N1024 []byte                      // odd numbers of exactly that many bits (not RSA moduli: import does no arithmetic)
	N2047 []byte
	N3072 []byte
}

var curveOf = map[string]elliptic.Curve{"P-256": elliptic.P256(), "P-384": elliptic.P384(), "P-521": elliptic.P521()}
var coordLen = map[string]int{"P-256": 32, "P-384": 48, "P-521": 66}

func genEC(crv string, wantZero bool) ecMat {
	for {
		k, err := ecdsa.GenerateKey(curveOf[crv], rand.Reader)
		if err != nil {
			vt.Fatal("ecdsa keygen: %v", err)
		}
		n := coordLen[crv]
		m := ecMat{X: k.X.FillBytes(make([]byte, n)), Y: k.Y.FillBytes(make([]byte, n)), D: k.D.FillBytes(make([]byte, n))}
		// ordinary material has no leading zero octet in either coordinate, "z" has one in X only
		if (m.X[0] == 0) == wantZero && m.Y[0] != 0 {
			return m
		}
	}
}

func oddOfBits(bits int) []byte {
	n, err := rand.Int(rand.Reader, new(big.Int).Lsh(big.NewInt(1), uint(bits-1)))
	if err != nil {
		vt.Fatal("rand: %v", err)
	}
	n.SetBit(n, bits-1, 1)
	n.SetBit(n, 0, 1)
	return n.Bytes()
}

func genRSA(bits int) rsaMat {
	k, err := rsa.GenerateKey(rand.Reader, bits)
	if err != nil {
		vt.Fatal("rsa keygen: %v", err)
	}
	return rsaMat{N: k.N.Bytes(), E: big.NewInt(int64(k.E)).Bytes(), D: k.D.Bytes(), P: k.Primes[0].Bytes(), Q: k.Primes[1].Bytes()}
}

func newMaterials() *Materials {
	m := &Materials{EC: map[string]map[string]ecMat{}, RSA: map[string]rsaMat{}}
	for crv := range curveOf {
		m.EC[crv] = map[string]ecMat{"m1": genEC(crv, false), "m2": genEC(crv, false), "z": genEC(crv, true)}
	}
	m.RSA["m1"] = genRSA(2048)
	if vt.Thorough() {
		m.RSA["m2"] = genRSA(3072)
	} else {
		m.RSA["m2"] = genRSA(2048)
	}
	m.N1024, m.N2047, m.N3072 = oddOfBits(1024), oddOfBits(2047), oddOfBits(3072)
	return m
}

// matRecord: the material an import case is instantiated with (ms: "P-256", "P-256z", "RSA", ...), as logged.
// Fields no placeholder of the case refers to are left empty (the trace spec never looks at them).
func (m *Materials) matRecord(ms string, top Val) (vt.Ev, ecMat) {
	crv, name := ms, "m1"
	if len(ms) > 5 && ms[len(ms)-1] == 'z' {
		crv, name = ms[:len(ms)-1], "z"
	}
	if _, ok := curveOf[crv]; !ok {
		crv = "P-256"
	}
	e := m.EC[crv][name]
	used := map[string]bool{}
	var walk func(v Val)
	walk = func(v Val) {
		switch v.K {
		case "mat":
			used[v.F] = true
			used[v.F+":"+v.C] = true
		case "list":
			for _, x := range v.L {
				walk(x)
			}
		case "obj":
			for _, x := range v.M {
				walk(x.V)
			}
		}
	}
	walk(top)
	r := vt.Ev{"crv": crv, "x": "", "y": "", "n": "", "n1024": "", "n2047": "", "n3072": ""}
	if used["x"] || used["y"] {
		r["x"], r["y"] = vt.Hex(e.X), vt.Hex(e.Y)
	}
	if used["n"] {
		r["n"] = vt.Hex(m.RSA["m1"].N)
	}
	if used["n:small"] {
		r["n1024"] = vt.Hex(m.N1024)
	}
	if used["n:b2047"] {
		r["n2047"] = vt.Hex(m.N2047)
	}
	if used["n:big"] {
		r["n3072"] = vt.Hex(m.N3072)
	}
	return r, e
}
