package main

// Import cases: a JWK Set as a JSON value with placeholders (Plan_JWKSet) -> instantiate with the material
// of the run (the same table as JWKSetCases!JwkSubst; Trace_JWKSet compares both) -> render (own renderer)
// -> jwt.JWKSetToPublicKeysetHandle -> record accept / reject and the projection of the handle.

import (
	"bufio"
	"encoding/base64"
	"encoding/json"
	"os"

	"verifharness/vt"

	"github.com/tink-crypto/tink-go/v2/jwt"
	"github.com/tink-crypto/tink-go/v2/jwt/jwtecdsa"
	"github.com/tink-crypto/tink-go/v2/jwt/jwtrsassapkcs1"
	"github.com/tink-crypto/tink-go/v2/jwt/jwtrsassapss"
	"github.com/tink-crypto/tink-go/v2/keyset"
)

var b64 = base64.RawURLEncoding

const alphabet = "ABCDEFGHIJKLMNOPQRSTUVWXYZabcdefghijklmnopqrstuvwxyz0123456789-_"

type ImportCase struct {
	Blk   string `json:"blk"`
	Ctx   string `json:"ctx"`
	Lab   string `json:"lab"`
	Ms    string `json:"ms"`
	Shape string `json:"shape"`
	Top   Val    `json:"top"`
}

func b64s(b []byte) Val { return vStr([]byte(b64.EncodeToString(b))) }

func nonCanon(s string) string {
	m := len(s)
	if m == 0 || m%4 == 0 {
		return s
	}
	v := 0
	for i := range alphabet {
		if alphabet[i] == s[m-1] {
			v = i
		}
	}
	mask := 3
	if m%4 == 2 {
		mask = 15
	}
	if v&mask == 0 {
		v++
	}
	return s[:m-1] + string(alphabet[v])
}

func padded(s string) string {
	p := (4 - len(s)%4) % 4
	if p == 0 {
		p = 1
	}
	for i := 0; i < p; i++ {
		s += "="
	}
	return s
}

func flipLast(b []byte) []byte {
	c := append([]byte{}, b...)
	if len(c) > 0 {
		c[len(c)-1] ^= 1
	}
	return c
}

func clearLast(b []byte) []byte {
	c := append([]byte{}, b...)
	if len(c) > 0 {
		c[len(c)-1] &^= 1
	}
	return c
}

func stripZeros(b []byte) []byte {
	for len(b) > 0 && b[0] == 0 {
		b = b[1:]
	}
	return b
}

func encClass(c string, own []byte) (Val, bool) {
	e := b64.EncodeToString(own)
	switch c {
	case "good":
		return vStr([]byte(e)), true
	case "noncanon":
		return vStr([]byte(nonCanon(e))), true
	case "padded":
		return vStr([]byte(padded(e))), true
	case "plus":
		return vStr([]byte("+" + e[1:])), true
	case "space":
		return vStr([]byte(" " + e)), true
	case "empty":
		return vStr(nil), true
	case "num":
		return vLit("num", "1"), true
	case "null":
		return vLit("null", "null"), true
	case "list":
		return Val{K: "list", L: []Val{vStr([]byte(e))}}, true
	case "absent":
		return vAbsent(), true
	}
	return Val{}, false
}

func coordValue(c string, own, oth []byte) Val {
	if v, ok := encClass(c, own); ok {
		return v
	}
	switch c {
	case "short":
		return b64s(own[:len(own)-1])
	case "long0":
		return b64s(append([]byte{0}, own...))
	case "strip0":
		return b64s(stripZeros(own))
	case "carry":
		return b64s(append([]byte{oth[len(oth)-1]}, own...))
	case "off":
		return b64s(flipLast(own))
	case "other":
		return b64s(oth)
	}
	vt.Fatal("unknown coordinate class %q", c)
	return Val{}
}

func (m *Materials) modulusValue(c string) Val {
	n := m.RSA["m1"].N
	if v, ok := encClass(c, n); ok {
		return v
	}
	switch c {
	case "lead0":
		return b64s(append([]byte{0}, n...))
	case "even":
		return b64s(clearLast(n))
	case "zero":
		return b64s([]byte{0})
	case "small":
		return b64s(m.N1024)
	case "b2047":
		return b64s(m.N2047)
	case "big":
		return b64s(m.N3072)
	}
	vt.Fatal("unknown modulus class %q", c)
	return Val{}
}

// subst replaces the placeholders; members that become absent are left out.
func (m *Materials) subst(v Val, e ecMat) Val {
	switch v.K {
	case "mat":
		switch v.F {
		case "x":
			return coordValue(v.C, e.X, e.Y)
		case "y":
			return coordValue(v.C, e.Y, e.X)
		case "n":
			return m.modulusValue(v.C)
		}
		vt.Fatal("unknown placeholder field %q", v.F)
	case "list":
		o := Val{K: "list", L: []Val{}}
		for _, x := range v.L {
			o.L = append(o.L, m.subst(x, e))
		}
		return o
	case "obj":
		o := Val{K: "obj", M: []Mem{}}
		for _, x := range v.M {
			if y := m.subst(x.V, e); y.K != "absent" {
				o.M = append(o.M, Mem{N: x.N, V: y})
			}
		}
		return o
	}
	return v
}

// projectHandle: what the converter made, per key, read through the public accessors.
func projectHandle(h *keyset.Handle) []vt.Ev {
	out := []vt.Ev{}
	for i := 0; i < h.Len(); i++ {
		e, err := h.Entry(i)
		if err != nil {
			out = append(out, vt.Ev{"type": "error", "alg": err.Error(), "strat": "", "kid": "", "hasKid": false, "idReq": false,
				"id": "", "status": "", "primary": false, "x": "", "y": "", "n": "", "e": ""})
			continue
		}
		p := vt.Ev{"type": "other", "alg": "", "strat": "", "kid": "", "hasKid": false, "idReq": false, "id": vt.ID4(e.KeyID()),
			"status": e.KeyStatus().String(), "primary": e.IsPrimary(), "x": "", "y": "", "n": "", "e": ""}
		setKid := func(kid string, has bool, idReq bool) {
			p["kid"], p["hasKid"], p["idReq"] = vt.Hex([]byte(kid)), has, idReq
		}
		switch k := e.Key().(type) {
		case *jwtecdsa.PublicKey:
			par := k.Parameters().(*jwtecdsa.Parameters)
			p["type"], p["alg"] = "EC", par.Algorithm().String()
			p["strat"] = map[jwtecdsa.KIDStrategy]string{jwtecdsa.Base64EncodedKeyIDAsKID: "TINK", jwtecdsa.CustomKID: "CUSTOM", jwtecdsa.IgnoredKID: "IGNORED"}[par.KIDStrategy()]
			kid, has := k.KID()
			_, req := k.IDRequirement()
			setKid(kid, has, req)
			pt := k.PublicPoint()
			n := (len(pt) - 1) / 2
			if len(pt) > 0 && pt[0] == 4 && len(pt) == 1+2*n {
				p["x"], p["y"] = vt.Hex(pt[1:1+n]), vt.Hex(pt[1+n:])
			} else {
				p["type"] = "EC-badpoint"
				p["x"] = vt.Hex(pt)
			}
		case *jwtrsassapkcs1.PublicKey:
			par := k.Parameters().(*jwtrsassapkcs1.Parameters)
			p["type"], p["alg"] = "RSA", par.Algorithm().String()
			p["strat"] = map[jwtrsassapkcs1.KIDStrategy]string{jwtrsassapkcs1.Base64EncodedKeyIDAsKID: "TINK", jwtrsassapkcs1.CustomKID: "CUSTOM", jwtrsassapkcs1.IgnoredKID: "IGNORED"}[par.KIDStrategy()]
			kid, has := k.KID()
			_, req := k.IDRequirement()
			setKid(kid, has, req)
			p["n"], p["e"] = vt.Hex(k.Modulus()), vt.Hex(bigBytes(par.PublicExponent()))
		case *jwtrsassapss.PublicKey:
			par := k.Parameters().(*jwtrsassapss.Parameters)
			p["type"], p["alg"] = "RSA", par.Algorithm().String()
			p["strat"] = map[jwtrsassapss.KIDStrategy]string{jwtrsassapss.Base64EncodedKeyIDAsKID: "TINK", jwtrsassapss.CustomKID: "CUSTOM", jwtrsassapss.IgnoredKID: "IGNORED"}[par.KIDStrategy()]
			kid, has := k.KID()
			_, req := k.IDRequirement()
			setKid(kid, has, req)
			p["n"], p["e"] = vt.Hex(k.Modulus()), vt.Hex(bigBytes(par.PublicExponent()))
		}
		out = append(out, p)
	}
	return out
}

func bigBytes(v int) []byte {
	var b []byte
	for u := uint64(v); u > 0; u >>= 8 {
		b = append([]byte{byte(u)}, b...)
	}
	return b
}

// importEvent calls the real converter on text and records.  tree is the value the text was rendered from
// (or, for text the converter itself produced, the driver's parse of it).
func importEvent(src string, c ImportCase, tree Val, mat vt.Ev, text []byte) vt.Ev {
	ev, _ := importEventH(src, c, tree, mat, text)
	return ev
}

func importEventH(src string, c ImportCase, tree Val, mat vt.Ev, text []byte) (vt.Ev, *keyset.Handle) {
	in := append([]byte{}, text...) // the converter gets its own copy; the log is made from ours
	var h *keyset.Handle
	var err error
	panicked, pv := vt.Try(func() { h, err = jwt.JWKSetToPublicKeysetHandle(in) })
	ev := vt.Ev{"ev": "import", "src": src, "blk": c.Blk, "ctx": c.Ctx, "lab": c.Lab, "ms": c.Ms, "shape": c.Shape, "plan": c.Top,
		"tree": tree, "mat": mat, "text": vt.Hex(text), "panic": panicked, "err": err != nil || panicked, "keys": []vt.Ev{}, "errText": ""}
	if panicked {
		ev["errText"] = "panic: " + toStr(pv)
	} else if err != nil {
		ev["errText"] = err.Error()
	} else {
		ev["keys"] = projectHandle(h)
	}
	if panicked || err != nil {
		h = nil
	}
	return ev, h
}

func toStr(v any) string {
	b, _ := json.Marshal(v)
	if s, ok := v.(string); ok {
		return s
	}
	if e, ok := v.(error); ok {
		return e.Error()
	}
	return string(b)
}

func readLines(path string, f func(line []byte)) {
	fh, err := os.Open(path)
	if err != nil {
		vt.Fatal("open %s: %v", path, err)
	}
	defer fh.Close()
	sc := bufio.NewScanner(fh)
	sc.Buffer(make([]byte, 1<<20), 1<<26)
	for sc.Scan() {
		if len(sc.Bytes()) > 0 {
			f(sc.Bytes())
		}
	}
	if err := sc.Err(); err != nil {
		vt.Fatal("read %s: %v", path, err)
	}
}

func doImportPlan(m *Materials, path string, w *vt.Writer) {
	readLines(path, func(line []byte) {
		var c ImportCase
		if err := json.Unmarshal(line, &c); err != nil {
			vt.Fatal("bad import case: %v", err)
		}
		mat, e := m.matRecord(c.Ms, c.Top)
		tree := m.subst(c.Top, e)
		w.Emit(importEvent("plan", c, tree, mat, shapeText(c.Shape, tree)))
	})
}

// doWycheproof feeds the JWK Sets of Wycheproof's json_web_key_test.json (the "public" and the "private" set of
// every group) to the converter; the expected results of the file are about token verification and are not used.
func doWycheproof(m *Materials, path string, w *vt.Writer) {
	raw, err := os.ReadFile(path)
	if err != nil {
		vt.Fatal("read %s: %v", path, err)
	}
	var f struct {
		TestGroups []map[string]json.RawMessage `json:"testGroups"`
	}
	if err := json.Unmarshal(raw, &f); err != nil {
		vt.Fatal("parse %s: %v", path, err)
	}
	mat, _ := m.matRecord("P-256", Val{})
	for gi, g := range f.TestGroups {
		var comment string
		json.Unmarshal(g["comment"], &comment)
		for _, which := range []string{"public", "private"} {
			rm, ok := g[which]
			if !ok {
				continue
			}
			tree, err := parseJSON(rm)
			if err != nil || !namesASCII(tree) {
				vt.Fatal("wycheproof group %d %s: %v", gi, which, err)
			}
			c := ImportCase{Blk: "wycheproof", Ctx: "pass", Lab: comment + "/" + which, Ms: "P-256", Shape: "object", Top: tree}
			w.Emit(importEvent("wycheproof", c, tree, mat, shapeText("object", tree)))
		}
	}
}
