// Command x01 is the conformance driver of check X01 (JWK Set export / import as a decision procedure).
// It records; spec/trace/Trace_JWKSet.tla judges.
package main

import (
	"encoding/json"
	"flag"
	"fmt"
	"os"

	"verifharness/vt"
)

func main() {
	out := flag.String("out", "", "trace file (ndjson)")
	imp := flag.String("import", "", "import plan (ndjson of Plan_JWKSet)")
	exp := flag.String("export", "", "export plan (ndjson of Plan_JWKSet, VERIF_BLK=export)")
	wy := flag.String("wycheproof", "", "Wycheproof json_web_key_test.json")
	replay := flag.String("replay", "", "replay file of a recorded violation")
	flag.Parse()
	if *out == "" {
		vt.Fatal("usage: x01 -out trace [-import plan] [-export plan] [-wycheproof file] [-replay file]")
	}
	w := vt.NewWriter(*out)
	defer w.Close()
	m := newMaterials()
	if *replay != "" {
		doReplay(m, *replay, w)
	}
	if *imp != "" {
		doImportPlan(m, *imp, w)
	}
	if *wy != "" {
		doWycheproof(m, *wy, w)
	}
	if *exp != "" {
		doExportPlan(m, *exp, w)
	}
	fmt.Printf("x01: %d events\n", w.Count())
}

// doReplay re-executes the case of a recorded event against the current tree.  Import events are replayed
// from their exact text (plus the plan case with fresh material when there is one), export / verify events
// from their plan case with fresh material.
func doReplay(m *Materials, path string, w *vt.Writer) {
	b, err := os.ReadFile(path)
	if err != nil {
		vt.Fatal("read replay: %v", err)
	}
	var r struct {
		Event map[string]json.RawMessage `json:"event"`
	}
	if err := json.Unmarshal(b, &r); err != nil || r.Event == nil {
		vt.Fatal("bad replay file: %v", err)
	}
	var kind, src string
	json.Unmarshal(r.Event["ev"], &kind)
	json.Unmarshal(r.Event["src"], &src)
	switch kind {
	case "import":
		var c ImportCase
		c.Top = Val{}
		json.Unmarshal(r.Event["blk"], &c.Blk)
		json.Unmarshal(r.Event["ctx"], &c.Ctx)
		json.Unmarshal(r.Event["lab"], &c.Lab)
		json.Unmarshal(r.Event["ms"], &c.Ms)
		json.Unmarshal(r.Event["shape"], &c.Shape)
		json.Unmarshal(r.Event["plan"], &c.Top)
		if src == "plan" { // the case, with the material of this run
			mat, e := m.matRecord(c.Ms, c.Top)
			tree := m.subst(c.Top, e)
			w.Emit(importEvent("plan", c, tree, mat, shapeText(c.Shape, tree)))
		}
		// the exact octets of the recorded event
		var tree Val
		var text string
		var mat vt.Ev
		json.Unmarshal(r.Event["tree"], &tree)
		json.Unmarshal(r.Event["text"], &text)
		json.Unmarshal(r.Event["mat"], &mat)
		c.Top = tree
		w.Emit(importEvent("replay", c, tree, mat, vt.Unhex(text)))
	case "export", "verify":
		var c ExportCase
		if err := json.Unmarshal(r.Event["plan"], &c); err != nil {
			vt.Fatal("bad replay case: %v", err)
		}
		exportCase(m, c, w)
	default:
		vt.Fatal("cannot replay event kind %q", kind)
	}
}
