package main

// Export cases: abstract keysets (Plan_JWKSet) -> real public keysets of real key objects ->
// jwt.JWKSetFromPublicKeysetHandle -> the produced JSON, parsed by the driver's own parser; then the produced
// text goes back through the importer (an import event), and every key that has private material signs a
// token which the imported keyset must verify iff the key is ENABLED in the exported keyset (verify events).

import (
	"encoding/json"
	"fmt"
	"math/big"
	"strconv"
	"strings"

	"verifharness/vt"

	"github.com/tink-crypto/tink-go/v2/insecuresecretdataaccess"
	"github.com/tink-crypto/tink-go/v2/jwt"
	"github.com/tink-crypto/tink-go/v2/jwt/jwtecdsa"
	"github.com/tink-crypto/tink-go/v2/jwt/jwtmldsa"
	"github.com/tink-crypto/tink-go/v2/jwt/jwtrsassapkcs1"
	"github.com/tink-crypto/tink-go/v2/jwt/jwtrsassapss"
	"github.com/tink-crypto/tink-go/v2/key"
	"github.com/tink-crypto/tink-go/v2/keyset"
	"github.com/tink-crypto/tink-go/v2/secretdata"
	"github.com/tink-crypto/tink-go/v2/signature"
	"github.com/tink-crypto/tink-go/v2/testing/verifhooks"
)

type AKey struct {
	Kind   string `json:"kind"`
	Alg    string `json:"alg"`
	Strat  string `json:"strat"`
	Idc    string `json:"idc"`
	Kidc   string `json:"kidc"`
	Status string `json:"status"`
	Priv   bool   `json:"priv"`
	Mat    string `json:"mat"`
}

type ExportCase struct {
	Blk     string `json:"blk"`
	Lab     string `json:"lab"`
	Keys    []AKey `json:"keys"`
	Primary int    `json:"primary"`
}

var idOfClass = map[string]uint32{"a": 0x01020304, "b": 0xfffffffe, "c": 0x00000001, "d": 0x80000000}
var kidOfClass = map[string][]byte{"plain": []byte("kid-1"), "empty": {}, "tinklike": []byte("AQIDBA"),
	"escapes": {34, 92, 10, 47, 1}, "utf8": {208, 186, 208, 187, 209, 142, 209, 135}, "": {}}
var crvOfAlg = map[string]string{"ES256": "P-256", "ES384": "P-384", "ES512": "P-521"}
var statusOf = map[string]keyset.KeyStatus{"ENABLED": keyset.Enabled, "DISABLED": keyset.Disabled, "DESTROYED": keyset.Destroyed}

func secret(b []byte) secretdata.Bytes {
	return secretdata.NewBytesFromData(b, insecuresecretdataaccess.Token{})
}

// concrete: the key as the driver builds it (the log of the INPUT of the export call).
type concrete struct {
	ev      vt.Ev
	hasPriv bool // private material exists (so the key can sign a token)
	ec      ecMat
	rsa     rsaMat
}

func (m *Materials) concreteOf(a AKey) concrete {
	c := concrete{ev: vt.Ev{"kind": a.Kind, "alg": a.Alg, "strat": a.Strat, "id": vt.ID4(idOfClass[a.Idc]), "kid": vt.Hex(kidOfClass[a.Kidc]),
		"status": a.Status, "priv": a.Priv, "x": "", "y": "", "n": "", "e": ""}}
	if a.Kind != "jwt" {
		return c
	}
	if crv, ok := crvOfAlg[a.Alg]; ok {
		c.ec = m.EC[crv][a.Mat]
		c.hasPriv = true
		c.ev["x"], c.ev["y"] = vt.Hex(c.ec.X), vt.Hex(c.ec.Y)
		return c
	}
	switch a.Mat {
	case "lz":
		r := m.RSA["m1"]
		c.rsa = rsaMat{N: append([]byte{0}, r.N...), E: r.E}
	case "e3":
		c.rsa = rsaMat{N: m.RSA["m1"].N, E: []byte{1, 0, 3}}
	default:
		c.rsa = m.RSA[a.Mat]
		c.hasPriv = true
	}
	c.ev["n"], c.ev["e"] = vt.Hex(c.rsa.N), vt.Hex(c.rsa.E)
	return c
}

func jwtKey(a AKey, c concrete, private bool) (key.Key, error) {
	id := uint32(0)
	if a.Strat == "TINK" {
		id = idOfClass[a.Idc]
	}
	custom, has := "", false
	if a.Strat == "CUSTOM" {
		custom, has = string(kidOfClass[a.Kidc]), true
	}
	if _, ok := crvOfAlg[a.Alg]; ok {
		strat := map[string]jwtecdsa.KIDStrategy{"TINK": jwtecdsa.Base64EncodedKeyIDAsKID, "CUSTOM": jwtecdsa.CustomKID, "IGNORED": jwtecdsa.IgnoredKID}[a.Strat]
		alg := map[string]jwtecdsa.Algorithm{"ES256": jwtecdsa.ES256, "ES384": jwtecdsa.ES384, "ES512": jwtecdsa.ES512}[a.Alg]
		p, err := jwtecdsa.NewParameters(strat, alg)
		if err != nil {
			return nil, err
		}
		pt := append(append([]byte{4}, c.ec.X...), c.ec.Y...)
		pub, err := jwtecdsa.NewPublicKey(jwtecdsa.PublicKeyOpts{PublicPoint: pt, IDRequirement: id, CustomKID: custom, HasCustomKID: has, Parameters: p})
		if err != nil || !private {
			return pub, err
		}
		return jwtecdsa.NewPrivateKeyFromPublicKey(secret(c.ec.D), pub)
	}
	bits := new(big.Int).SetBytes(c.rsa.N).BitLen()
	exp := int(new(big.Int).SetBytes(c.rsa.E).Int64())
	if strings.HasPrefix(a.Alg, "RS") {
		strat := map[string]jwtrsassapkcs1.KIDStrategy{"TINK": jwtrsassapkcs1.Base64EncodedKeyIDAsKID, "CUSTOM": jwtrsassapkcs1.CustomKID, "IGNORED": jwtrsassapkcs1.IgnoredKID}[a.Strat]
		alg := map[string]jwtrsassapkcs1.Algorithm{"RS256": jwtrsassapkcs1.RS256, "RS384": jwtrsassapkcs1.RS384, "RS512": jwtrsassapkcs1.RS512}[a.Alg]
		p, err := jwtrsassapkcs1.NewParameters(jwtrsassapkcs1.ParametersOpts{ModulusSizeInBits: bits, PublicExponent: exp, Algorithm: alg, KidStrategy: strat})
		if err != nil {
			return nil, err
		}
		pub, err := jwtrsassapkcs1.NewPublicKey(jwtrsassapkcs1.PublicKeyOpts{Modulus: append([]byte{}, c.rsa.N...), IDRequirement: id, CustomKID: custom, HasCustomKID: has, Parameters: p})
		if err != nil || !private {
			return pub, err
		}
		return jwtrsassapkcs1.NewPrivateKey(jwtrsassapkcs1.PrivateKeyOpts{PublicKey: pub, D: secret(c.rsa.D), P: secret(c.rsa.P), Q: secret(c.rsa.Q)})
	}
	strat := map[string]jwtrsassapss.KIDStrategy{"TINK": jwtrsassapss.Base64EncodedKeyIDAsKID, "CUSTOM": jwtrsassapss.CustomKID, "IGNORED": jwtrsassapss.IgnoredKID}[a.Strat]
	alg := map[string]jwtrsassapss.Algorithm{"PS256": jwtrsassapss.PS256, "PS384": jwtrsassapss.PS384, "PS512": jwtrsassapss.PS512}[a.Alg]
	p, err := jwtrsassapss.NewParameters(jwtrsassapss.ParametersOpts{ModulusSizeInBits: bits, PublicExponent: exp, Algorithm: alg, KidStrategy: strat})
	if err != nil {
		return nil, err
	}
	pub, err := jwtrsassapss.NewPublicKey(jwtrsassapss.PublicKeyOpts{Modulus: append([]byte{}, c.rsa.N...), IDRequirement: id, CustomKID: custom, HasCustomKID: has, Parameters: p})
	if err != nil || !private {
		return pub, err
	}
	return jwtrsassapss.NewPrivateKey(jwtrsassapss.PrivateKeyOpts{PublicKey: pub, D: secret(c.rsa.D), P: secret(c.rsa.P), Q: secret(c.rsa.Q)})
}

// foreign key objects (key types the converter does not support); generated by Tink - they are inputs only.
var foreignCache = map[string]key.Key{}

func foreignKey(kind string) key.Key {
	if k, ok := foreignCache[kind]; ok {
		return k
	}
	var h *keyset.Handle
	var err error
	switch kind {
	case "hmac":
		h, err = keyset.NewHandle(jwt.RawHS256Template())
	case "ed25519":
		h, err = keyset.NewHandle(signature.ED25519KeyWithoutPrefixTemplate())
	case "ecdsa":
		h, err = keyset.NewHandle(signature.ECDSAP256KeyWithoutPrefixTemplate())
	case "mldsa":
		var p *jwtmldsa.Parameters
		if p, err = jwtmldsa.NewParameters(jwtmldsa.IgnoredKID, jwtmldsa.MLDSA44); err == nil {
			mg := keyset.NewManager()
			var id uint32
			if id, err = mg.AddNewKeyFromParameters(p); err == nil {
				if err = mg.SetPrimary(id); err == nil {
					h, err = mg.Handle()
				}
			}
		}
	default:
		vt.Fatal("unknown foreign key kind %q", kind)
	}
	if err == nil && kind != "hmac" {
		h, err = h.Public()
	}
	if err != nil {
		vt.Fatal("foreign key %s: %v", kind, err)
	}
	e, err := h.Entry(0)
	if err != nil {
		vt.Fatal("foreign key %s: %v", kind, err)
	}
	foreignCache[kind] = e.Key()
	return e.Key()
}

func buildHandle(keys []AKey, cs []concrete, primary int) (*keyset.Handle, error) {
	mg := keyset.NewManager()
	for i, a := range keys {
		var k key.Key
		var err error
		if a.Kind == "jwt" {
			k, err = jwtKey(a, cs[i], a.Priv)
		} else {
			k = foreignKey(a.Kind)
		}
		if err != nil {
			return nil, fmt.Errorf("key %d: %w", i+1, err)
		}
		opts := []keyset.KeyOpts{keyset.WithStatus(statusOf[a.Status]), keyset.WithFixedID(idOfClass[a.Idc])}
		if i+1 == primary {
			opts = append(opts, keyset.AsPrimary())
		}
		if _, err := verifhooks.ManagerAddKeyWithOpts(mg, k, opts...); err != nil {
			return nil, fmt.Errorf("AddKey %d: %w", i+1, err)
		}
	}
	return mg.Handle()
}

// token signed by the private key of (a, c), made through a one-key private keyset; cached per key.
type tokenInfo struct {
	tok     string
	alg     string
	kid     Val
	signErr string
}

var tokenCache = map[string]tokenInfo{}

func tokenOf(a AKey, c concrete) tokenInfo {
	ck := strings.Join([]string{a.Alg, a.Strat, a.Idc, a.Kidc, a.Mat}, "|")
	if t, ok := tokenCache[ck]; ok {
		return t
	}
	t := tokenInfo{kid: vAbsent()}
	fail := func(err error) tokenInfo {
		t.signErr = err.Error()
		tokenCache[ck] = t
		return t
	}
	b := a
	b.Status, b.Priv = "ENABLED", true
	h, err := buildHandle([]AKey{b}, []concrete{c}, 1)
	if err != nil {
		return fail(err)
	}
	s, err := jwt.NewSigner(h)
	if err != nil {
		return fail(err)
	}
	sub := "x01"
	raw, err := jwt.NewRawJWT(&jwt.RawJWTOptions{Subject: &sub, WithoutExpiration: true})
	if err != nil {
		return fail(err)
	}
	if t.tok, err = s.SignAndEncode(raw); err != nil {
		return fail(err)
	}
	// the driver's projection of the header (alg, kid)
	hb, err := b64.DecodeString(strings.SplitN(t.tok, ".", 2)[0])
	if err != nil {
		return fail(err)
	}
	hv, err := parseJSON(hb)
	if err != nil || hv.K != "obj" {
		return fail(fmt.Errorf("header is not a JSON object"))
	}
	for _, mm := range hv.M {
		if mm.N == "alg" && mm.V.K == "str" {
			t.alg = string(mm.V.bytes())
		}
		if mm.N == "kid" {
			t.kid = mm.V
		}
	}
	tokenCache[ck] = t
	return t
}

func doExportPlan(m *Materials, path string, w *vt.Writer) {
	readLines(path, func(line []byte) {
		var c ExportCase
		if err := json.Unmarshal(line, &c); err != nil {
			vt.Fatal("bad export case: %v", err)
		}
		exportCase(m, c, w)
	})
}

func exportCase(m *Materials, c ExportCase, w *vt.Writer) {
	cs := make([]concrete, len(c.Keys))
	ks := make([]vt.Ev, len(c.Keys))
	for i, a := range c.Keys {
		cs[i] = m.concreteOf(a)
		ks[i] = cs[i].ev
	}
	h, err := buildHandle(c.Keys, cs, c.Primary)
	if err != nil {
		vt.Fatal("export case %s %s: cannot build the keyset: %v", c.Blk, c.Lab, err)
	}
	var out []byte
	panicked, pv := vt.Try(func() { out, err = jwt.JWKSetFromPublicKeysetHandle(h) })
	ev := vt.Ev{"ev": "export", "blk": c.Blk, "lab": c.Lab, "plan": c, "ks": ks, "primary": c.Primary, "panic": panicked,
		"err": err != nil || panicked, "errText": "", "text": vt.Hex(out), "parseOK": false, "tree": vLit("null", "null")}
	if panicked {
		ev["errText"] = "panic: " + toStr(pv)
	} else if err != nil {
		ev["errText"] = err.Error()
	}
	var tree Val
	parsed := false
	if !panicked && err == nil {
		if t, perr := parseJSON(out); perr == nil && namesASCII(t) {
			tree, parsed = t, true
			ev["parseOK"], ev["tree"] = true, t
		}
	}
	w.Emit(ev)
	if !parsed {
		return
	}
	// the produced text goes back through the importer
	mat, _ := m.matRecord("P-256", Val{})
	ic := ImportCase{Blk: "export:" + c.Blk, Ctx: "pass", Lab: c.Lab, Ms: "P-256", Shape: "object", Top: tree}
	iev, ih := importEventH("export", ic, tree, mat, out)
	w.Emit(iev)
	// tokens of every key that can sign
	var ver jwt.Verifier
	verErr := ""
	if ih != nil {
		if v, err := jwt.NewVerifier(ih); err != nil {
			verErr = err.Error()
		} else {
			ver = v
		}
	}
	val, err := jwt.NewValidator(&jwt.ValidatorOpts{AllowMissingExpiration: true})
	if err != nil {
		vt.Fatal("NewValidator: %v", err)
	}
	for i, a := range c.Keys {
		if a.Kind != "jwt" || !cs[i].hasPriv {
			continue
		}
		t := tokenOf(a, cs[i])
		ok := false
		vpanic := false
		if ver != nil && t.signErr == "" {
			vpanic, _ = vt.Try(func() {
				_, verr := ver.VerifyAndDecode(t.tok, val)
				ok = verr == nil
			})
		}
		w.Emit(vt.Ev{"ev": "verify", "blk": c.Blk, "lab": c.Lab + " signer " + strconv.Itoa(i+1), "plan": c, "ks": ks, "primary": c.Primary,
			"signer": i + 1, "tokAlg": t.alg, "tokKid": t.kid, "signErr": t.signErr != "", "importErr": ih == nil,
			"verifierErr": verErr != "", "errText": t.signErr + verErr, "ok": ok, "panic": vpanic})
	}
}
