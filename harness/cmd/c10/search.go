package main

// Search of sampler inputs by their XOF consumption. The rejection samplers of FIPS 204 (RejNTTPoly,
// RejBoundedPoly, SampleInBall) squeeze an XOF until enough candidates were accepted; code that squeezes
// whole blocks can be wrong only for inputs that need more (or fewer) blocks than usual, which random
// inputs practically never do. The driver therefore SEARCHES inputs with the minimum, typical and maximum
// consumption in a bounded, seeded candidate space, counting acceptances itself with x/crypto/sha3. This
// only selects inputs; what the samplers and KeyGen must return for them is decided by the TLA+ reference.

import (
	"encoding/binary"
	"math/rand"
	"sort"

	"golang.org/x/crypto/sha3"
)

// boundedBytes: number of SHAKE256 bytes RejBoundedPoly (Algorithm 31) consumes for rho (66 bytes).
func boundedBytes(rho []byte, eta int) int {
	x := sha3.NewShake256()
	x.Write(rho)
	var blk [136]byte
	acc, n := 0, 0
	for {
		x.Read(blk[:])
		for _, z := range blk {
			n++
			for _, b := range [2]byte{z & 15, z >> 4} {
				if (eta == 2 && b < 15) || (eta == 4 && b < 9) {
					acc++
				}
			}
			if acc >= 256 {
				return n
			}
		}
	}
}

// nttRejections: number of rejected 3-byte candidates of RejNTTPoly (Algorithm 30) for rho (34 bytes).
func nttRejections(rho []byte) int {
	x := sha3.NewShake128()
	x.Write(rho)
	var blk [168]byte
	acc, rej := 0, 0
	for {
		x.Read(blk[:])
		for j := 0; j < 168; j += 3 {
			c := uint32(blk[j]) | uint32(blk[j+1])<<8 | uint32(blk[j+2]&0x7f)<<16
			if c < q {
				acc++
				if acc == 256 {
					return rej
				}
			} else {
				rej++
			}
		}
	}
}

// ballRejections: number of rejected index bytes of SampleInBall (Algorithm 29) for rho.
func ballRejections(rho []byte, tau int) int {
	x := sha3.NewShake256()
	x.Write(rho)
	var b [8]byte
	x.Read(b[:])
	rej := 0
	for i := 256 - tau; i < 256; i++ {
		var j [1]byte
		x.Read(j[:])
		for int(j[0]) > i {
			rej++
			x.Read(j[:])
		}
	}
	return rej
}

func blocksOf(bytes, rate int) int { return (bytes + rate - 1) / rate }

// candidate i of a seeded candidate space: deterministic for a VERIF_SEED, cheap to enumerate
func candidate(base *[32]byte, i int, n int) []byte {
	out := make([]byte, n)
	copy(out, base[:])
	binary.LittleEndian.PutUint32(out[0:4], binary.LittleEndian.Uint32(out[0:4])+uint32(i))
	return out
}

type seedHit struct {
	seed  [32]byte
	rhop  [64]byte
	idx   int // index of the ExpandS polynomial (0..l-1: s1, l..l+k-1: s2)
	bytes int
	why   string
}

// expandSInputs derives (rho, rho') of KeyGen_internal for a seed (FIPS 204 Algorithm 6, line 1).
func expandSInputs(seed []byte, k, l int) (rho [32]byte, rhop [64]byte) {
	o := shake256(128, seed, []byte{byte(k), byte(l)})
	copy(rho[:], o[:32])
	copy(rhop[:], o[32:96])
	return
}

// searchSeedsBounded looks for KeyGen seeds whose ExpandS needs an unusual number of XOF bytes for one of its
// polynomials: up to `want` seeds above `over` bytes (if any exist in the budget), plus the seeds with the overall
// maximum and minimum consumption.
func searchSeedsBounded(p pset, r *rand.Rand, budget, want, over int) []seedHit {
	var base [32]byte
	r.Read(base[:])
	var hits []seedHit
	best, least := seedHit{bytes: -1}, seedHit{bytes: 1 << 30}
	for i := 0; i < budget && len(hits) < want; i++ {
		var sd [32]byte
		copy(sd[:], candidate(&base, i, 32))
		_, rhop := expandSInputs(sd[:], p.k, p.l)
		for idx := 0; idx < p.l+p.k; idx++ {
			n := boundedBytes(append(append([]byte{}, rhop[:]...), byte(idx), 0), p.eta)
			hh := seedHit{seed: sd, rhop: rhop, idx: idx, bytes: n}
			if n > best.bytes {
				best = hh
			}
			if n < least.bytes {
				least = hh
			}
			if n > over {
				hh.why = "above-common-blocks"
				hits = append(hits, hh)
			}
		}
	}
	best.why, least.why = "max", "min"
	return append(hits, best, least)
}

type rhoHit struct {
	rho []byte
	n   int
	why string
}

// searchRho evaluates measure on `budget` candidates of length n and returns the candidates with the minimum,
// a typical (median of a sample) and the `top` largest values.
func searchRho(r *rand.Rand, n, budget, top int, measure func([]byte) int) []rhoHit {
	var base [32]byte
	r.Read(base[:])
	ext := make([]byte, n)
	r.Read(ext)
	mk := func(i int) []byte {
		c := append([]byte{}, ext...)
		copy(c, candidate(&base, i, min(n, 32)))
		return c
	}
	var all []rhoHit
	lo := rhoHit{n: 1 << 30}
	var sample []rhoHit
	for i := 0; i < budget; i++ {
		c := mk(i)
		m := measure(c)
		hh := rhoHit{rho: c, n: m}
		if m < lo.n {
			lo = hh
		}
		if i < 101 {
			sample = append(sample, hh)
		}
		if len(all) < top || m > all[len(all)-1].n {
			all = append(all, hh)
			sort.SliceStable(all, func(a, b int) bool { return all[a].n > all[b].n })
			if len(all) > top {
				all = all[:top]
			}
		}
	}
	sort.SliceStable(sample, func(a, b int) bool { return sample[a].n < sample[b].n })
	lo.why = "min"
	res := []rhoHit{lo}
	if len(sample) > 0 {
		t := sample[len(sample)/2]
		t.why = "typical"
		res = append(res, t)
	}
	for _, hh := range all {
		hh.why = "max"
		res = append(res, hh)
	}
	return res
}

// searchSeedsNTT looks for the KeyGen seed whose ExpandA has the matrix entry with the most rejections.
func searchSeedsNTT(p pset, r *rand.Rand, budget int) (best [32]byte, rej int) {
	var base [32]byte
	r.Read(base[:])
	rej = -1
	for i := 0; i < budget; i++ {
		var sd [32]byte
		copy(sd[:], candidate(&base, i, 32))
		rho, _ := expandSInputs(sd[:], p.k, p.l)
		for rr := 0; rr < p.k; rr++ {
			for s := 0; s < p.l; s++ {
				if n := nttRejections(append(append([]byte{}, rho[:]...), byte(s), byte(rr))); n > rej {
					best, rej = sd, n
				}
			}
		}
	}
	return
}
