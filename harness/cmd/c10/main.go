// c10: conformance driver for property C10 (ML-DSA, FIPS 204). It executes the real Tink code --
// internal/signature/mldsa through the verif hooks (scalar, polynomial, packing, sampling and
// internal algorithm layers) and signature/mldsa, signprehash/mldsa, signature/compositemldsa through
// the public keyset API -- on enumerated and seeded inputs and records one ndjson event per call (or
// per run of a function table). It computes no expected values: every event is judged by TLC against
// spec/pq/MLDSA*.tla (spec/trace/Trace_MLDSAArith.tla, spec/trace/Trace_MLDSA.tla).
package main

import (
	"flag"
	"fmt"

	"verifharness/vt"
)

var w *vt.Writer

func main() {
	out := flag.String("out", "", "trace file")
	stage := flag.String("stage", "", "scalar | binary | poly | algo")
	rp := flag.String("replay", "", "replay file")
	part := flag.Int("part", 0, "scalar stage: index of this part")
	parts := flag.Int("parts", 1, "scalar stage: number of parts")
	flag.Parse()
	if *out == "" {
		vt.Fatal("usage: c10 -out trace.ndjson -stage scalar|binary|poly|algo [-replay file]")
	}
	w = vt.NewWriter(*out)
	defer w.Close()
	if *rp != "" {
		replay(*rp)
		return
	}
	switch *stage {
	case "scalar":
		scalarStage(*part, *parts)
	case "binary":
		binaryStage()
	case "poly":
		polyStage()
	case "algo":
		algoStage()
	default:
		vt.Fatal("unknown stage %q", *stage)
	}
	fmt.Printf("stage=%s events=%d\n", *stage, w.Count())
}
