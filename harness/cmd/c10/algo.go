package main

import (
	"encoding/binary"
	"fmt"
	"math/rand"
	"sync"
	"time"

	"golang.org/x/crypto/sha3"

	"verifharness/vt"

	"github.com/tink-crypto/tink-go/v2/insecuresecretdataaccess"
	"github.com/tink-crypto/tink-go/v2/key"
	"github.com/tink-crypto/tink-go/v2/keyset"
	"github.com/tink-crypto/tink-go/v2/secretdata"
	"github.com/tink-crypto/tink-go/v2/signature"
	"github.com/tink-crypto/tink-go/v2/signature/compositemldsa"
	"github.com/tink-crypto/tink-go/v2/signature/ecdsa"
	"github.com/tink-crypto/tink-go/v2/signature/ed25519"
	"github.com/tink-crypto/tink-go/v2/signature/mldsa"
	"github.com/tink-crypto/tink-go/v2/signprehash"
	_ "github.com/tink-crypto/tink-go/v2/signprehash/mldsa"
	h "github.com/tink-crypto/tink-go/v2/testing/verifhooks"
	"github.com/tink-crypto/tink-go/v2/tink"
)

var setNames = []string{"44", "65", "87"}

// sink collects the events of one generator (parameter sets are generated concurrently, then written in order).
type sink struct{ evs []vt.Ev }

func (s *sink) Emit(e vt.Ev) { s.evs = append(s.evs, e) }
func (s *sink) flush() {
	for _, e := range s.evs {
		w.Emit(e)
	}
	s.evs = nil
}

type pset struct {
	name                     string
	par                      *h.MLDSAParamSet
	tau, lambda, log2g1      int
	gamma2                   uint32
	k, l, eta, omega         int
	beta, gamma1             uint32
	sigLen, ctLen, zLen, pkL int
}

func getSet(name string) pset {
	par := h.MLDSAParams(name)
	if par == nil {
		vt.Fatal("unknown parameter set %q", name)
	}
	p := pset{name: name, par: par}
	p.tau, p.lambda, p.log2g1, p.gamma2, p.k, p.l, p.eta, p.omega, _, _ = h.MLDSAParamValues(par)
	p.beta, p.gamma1 = uint32(p.tau*p.eta), 1<<uint(p.log2g1)
	p.ctLen = p.lambda / 4
	p.zLen = p.l * 32 * (1 + p.log2g1)
	p.sigLen = p.ctLen + p.zLen + p.omega + p.k
	p.pkL = par.PublicKeyLength()
	return p
}

type keyCtx struct {
	pset
	out      *sink
	seed     [32]byte
	pk       *h.MLDSAPublicKey
	sk       *h.MLDSASecretKey
	pkB, skB []byte
}

// guarded runs f (a signing call) and reports whether it panicked or did not return within the time limit
// (ML-DSA signing loops until a candidate is accepted; with faulty arithmetic it may never return).
func guarded(f func()) (panicked, hung bool) {
	done := make(chan bool, 1)
	go func() {
		p, _ := vt.Try(f)
		done <- p
	}()
	select {
	case p := <-done:
		return p, false
	case <-time.After(signLimit):
		return false, true
	}
}

var signLimit = 60 * time.Second

func shake256(n int, parts ...[]byte) []byte {
	x := sha3.NewShake256()
	for _, p := range parts {
		x.Write(p)
	}
	out := make([]byte, n)
	x.Read(out)
	return out
}

// ------------------------------------------------------------------------------ recorded calls

func newKey(out *sink, p pset, seed [32]byte) *keyCtx {
	kc := &keyCtx{pset: p, seed: seed, out: out}
	pan, pv := vt.Try(func() {
		kc.pk, kc.sk = h.MLDSAKeyGenInternal(p.par, seed)
		kc.pkB, kc.skB = kc.pk.Encode(), kc.sk.Encode()
	})
	e := vt.Ev{"ev": "keygen", "set": p.name, "route": "internal", "seed": vt.Hex(seed[:]), "pk": vt.Hex(kc.pkB), "sk": vt.Hex(kc.skB), "panic": pan}
	if pan {
		e["panicVal"] = fmt.Sprint(pv)
	}
	kc.out.Emit(e)
	if pan {
		return nil
	}
	return kc
}

func (kc *keyCtx) verifyEv(mp, sig []byte, kind string) bool {
	var err, err2 error
	pkH, mpH, sigH := vt.Hex(kc.pkB), vt.Hex(mp), vt.Hex(sig) // inputs as they were BEFORE the call
	pan, pv := vt.Try(func() {
		err = h.MLDSAVerifyInternal(kc.pk, mp, sig)
		err2 = h.MLDSAVerifyInternal(kc.pk, mp, sig) // verification is repeatable on the same buffers
	})
	e := vt.Ev{"ev": "verify", "set": kc.name, "route": "internal", "kind": kind, "pk": pkH, "mp": mpH, "sig": sigH, "ok": err == nil && !pan, "ok2": err2 == nil && !pan, "panic": pan}
	if pan {
		e["panicVal"] = fmt.Sprint(pv)
	}
	kc.out.Emit(e)
	return err == nil && !pan
}

// verifyWithPk: the public key bytes are (possibly modified) input too
func verifyWithPk(out *sink, p pset, pkB, mp, sig []byte, kind string) {
	pk, err := p.par.DecodePublicKey(pkB)
	if err != nil {
		out.Emit(vt.Ev{"ev": "note", "what": "DecodePublicKey refused", "set": p.name, "kind": kind, "len": len(pkB)})
		return
	}
	var verr error
	pkH, mpH, sigH := vt.Hex(pkB), vt.Hex(mp), vt.Hex(sig)
	pan, _ := vt.Try(func() { verr = h.MLDSAVerifyInternal(pk, mp, sig) })
	out.Emit(vt.Ev{"ev": "verify", "set": p.name, "route": "internal", "kind": kind, "pk": pkH, "mp": mpH, "sig": sigH, "ok": verr == nil && !pan, "panic": pan})
}

func (kc *keyCtx) signEv(mp []byte, rnd [32]byte, kind string) []byte {
	var res []byte
	skH, mpH, rndH := vt.Hex(kc.skB), vt.Hex(mp), vt.Hex(rnd[:])
	pan, hung := guarded(func() { res = h.MLDSASignInternal(kc.sk, mp, rnd) })
	var sig []byte
	if !hung {
		sig = res
	}
	kc.out.Emit(vt.Ev{"ev": "sign", "set": kc.name, "route": "internal", "kind": kind, "sk": skH, "mp": mpH, "rnd": rndH, "sig": vt.Hex(sig), "panic": pan, "hung": hung})
	return sig
}

func mprime(msg, ctx []byte) []byte {
	return append(append([]byte{0, byte(len(ctx))}, ctx...), msg...)
}

// ------------------------------------------------------------------------------ crafting
// The signing loop of FIPS 204 Algorithm 7, re-assembled from the package's own building blocks so
// that the harness can keep candidates the real signer would discard (boundary norms, hint counts).
// Used only to PRODUCE inputs; what the verifier must say about them is decided by the TLA+ reference.

type attempt struct {
	zNorm, r0Norm, ct0Norm uint32
	ones                   int
	sig                    []byte // nil when the hint does not fit the encoding (ones > omega)
}

func mapPoly(p *h.MLDSAPoly, f func(uint32) uint32) h.MLDSAPoly {
	var o h.MLDSAPoly
	for i, c := range p {
		o[i] = f(c)
	}
	return o
}

func (kc *keyCtx) attempts(mu [64]byte, rnd [32]byte, maxIter int, pick func(a attempt) bool) *attempt {
	rho, kK, _, s1, s2, t0 := h.MLDSASecretKeyParts(kc.sk)
	nttv := func(v []h.MLDSAPoly) []h.MLDSAPoly {
		o := make([]h.MLDSAPoly, len(v))
		for i := range v {
			o[i] = h.MLDSANTT(&v[i])
		}
		return o
	}
	scal := func(c *h.MLDSAPoly, v []h.MLDSAPoly) []h.MLDSAPoly { // NTT^-1(c o v[i])
		o := make([]h.MLDSAPoly, len(v))
		for i := range v {
			m := h.MLDSAMulNTT(c, &v[i])
			o[i] = h.MLDSAINTT(&m)
		}
		return o
	}
	s1h, s2h, t0h := nttv(s1), nttv(s2), nttv(t0)
	Ah := h.MLDSAExpandA(kc.par, rho)
	var rhopp [64]byte
	copy(rhopp[:], shake256(64, kK[:], rnd[:], mu[:]))
	g2 := kc.gamma2
	for it, kappa := 0, 0; it < maxIter && kappa+kc.l < 65536; it, kappa = it+1, kappa+kc.l {
		y := h.MLDSAExpandMask(kc.par, rhopp, kappa)
		wv := h.MLDSAMatrixMul(Ah, nttv(y))
		w1 := make([]h.MLDSAPoly, kc.k)
		for i := range wv {
			wv[i] = h.MLDSAINTT(&wv[i])
			w1[i] = mapPoly(&wv[i], func(c uint32) uint32 { return h.MLDSAHighBits(c, g2) })
		}
		ct := shake256(kc.ctLen, mu[:], h.MLDSAW1Encode(kc.par, w1))
		c := h.MLDSASampleInBall(kc.par, ct)
		ch := h.MLDSANTT(&c)
		cs1, cs2, ct0 := scal(&ch, s1h), scal(&ch, s2h), scal(&ch, t0h)
		z := make([]h.MLDSAPoly, kc.l)
		for i := range z {
			z[i] = h.MLDSAPolyAdd(&y[i], &cs1[i])
		}
		r0 := make([]h.MLDSAPoly, kc.k)
		hv := make([]h.MLDSAPoly, kc.k)
		for i := range r0 {
			wc := h.MLDSAPolySub(&wv[i], &cs2[i])
			r0[i] = mapPoly(&wc, func(c uint32) uint32 { return h.MLDSALowBits(c, g2) })
			wct := h.MLDSAPolyAdd(&wc, &ct0[i])
			neg := h.MLDSAPolyNeg(&ct0[i])
			for j := range hv[i] {
				hv[i][j] = h.MLDSAMakeHint(neg[j], g2, wct[j])
			}
		}
		a := attempt{zNorm: h.MLDSAVectorInfinityNorm(z), r0Norm: h.MLDSAVectorInfinityNorm(r0), ct0Norm: h.MLDSAVectorInfinityNorm(ct0), ones: h.MLDSANumOnes(hv)}
		if a.ones <= kc.omega {
			a.sig = h.MLDSASigEncode(kc.par, ct, z, hv)
		}
		if pick(a) {
			return &a
		}
	}
	return nil
}

func (kc *keyCtx) accepted(a attempt) bool {
	return a.zNorm < kc.gamma1-kc.beta && a.r0Norm < kc.gamma2-kc.beta && a.ct0Norm < kc.gamma2 && a.ones <= kc.omega
}

// craft searches signatures of mp whose norm / hint count sits exactly on a bound.
func (kc *keyCtx) craft(r *rand.Rand, mp []byte, kind string, budget int) *attempt {
	var mu [64]byte
	_, _, tr, _, _, _ := h.MLDSASecretKeyParts(kc.sk)
	copy(mu[:], shake256(64, tr[:], mp))
	zb, rb := kc.gamma1-kc.beta, kc.gamma2-kc.beta
	pick := map[string]func(a attempt) bool{
		"z=bound-1": func(a attempt) bool { return kc.accepted(a) && a.zNorm == zb-1 },
		"z=bound": func(a attempt) bool {
			return a.zNorm == zb && a.r0Norm < rb && a.ct0Norm < kc.gamma2 && a.ones <= kc.omega
		},
		"z=bound+1": func(a attempt) bool {
			return a.zNorm == zb+1 && a.r0Norm < rb && a.ct0Norm < kc.gamma2 && a.ones <= kc.omega
		},
		"r0=bound-1": func(a attempt) bool { return kc.accepted(a) && a.r0Norm == rb-1 },
		"r0=bound": func(a attempt) bool {
			return a.zNorm < zb && a.r0Norm == rb && a.ct0Norm < kc.gamma2 && a.ones <= kc.omega
		},
		"r0>bound": func(a attempt) bool {
			return a.zNorm < zb && a.r0Norm > rb && a.ct0Norm < kc.gamma2 && a.ones <= kc.omega
		},
		"ct0>=gamma2": func(a attempt) bool {
			return a.zNorm < zb && a.r0Norm < rb && a.ct0Norm >= kc.gamma2 && a.ones <= kc.omega
		},
		"ones=omega":  func(a attempt) bool { return kc.accepted(a) && a.ones == kc.omega },
		"ones=max-1":  func(a attempt) bool { return kc.accepted(a) && a.ones == kc.omega-1 },
		"ones=0..few": func(a attempt) bool { return kc.accepted(a) && a.ones <= kc.omega/3 },
	}[kind]
	for left := budget; left > 0; {
		var rnd [32]byte
		r.Read(rnd[:])
		n := 0
		a := kc.attempts(mu, rnd, left, func(a attempt) bool { n++; return pick(a) })
		if a != nil {
			return a
		}
		if n == 0 {
			break
		}
		left -= n
	}
	return nil
}

// craftLoop searches randomness rnd for which the signing loop of (mp, rnd) meets, BEFORE its first accepted
// iteration, a candidate sitting exactly on a bound of the rejection tests (so that a signer comparing with
// <= instead of <, or the other way round, returns a different signature). Returns nil if none was found.
func (kc *keyCtx) craftLoop(r *rand.Rand, mp []byte, kind string, budget int) *[32]byte {
	var mu [64]byte
	_, _, tr, _, _, _ := h.MLDSASecretKeyParts(kc.sk)
	copy(mu[:], shake256(64, tr[:], mp))
	zb, rb := kc.gamma1-kc.beta, kc.gamma2-kc.beta
	hit := map[string]func(a attempt) bool{
		"z=bound": func(a attempt) bool {
			return a.zNorm == zb && a.r0Norm < rb && a.ct0Norm < kc.gamma2 && a.ones <= kc.omega
		},
		"z=bound-1": func(a attempt) bool { return kc.accepted(a) && a.zNorm == zb-1 },
		"r0=bound": func(a attempt) bool {
			return a.zNorm < zb && a.r0Norm == rb && a.ct0Norm < kc.gamma2 && a.ones <= kc.omega
		},
		"r0=bound-1": func(a attempt) bool { return kc.accepted(a) && a.r0Norm == rb-1 },
		"ones=omega": func(a attempt) bool { return kc.accepted(a) && a.ones == kc.omega },
		"ones=omega+1": func(a attempt) bool {
			return a.zNorm < zb && a.r0Norm < rb && a.ct0Norm < kc.gamma2 && a.ones == kc.omega+1
		},
	}[kind]
	for left := budget; left > 0; {
		var rnd [32]byte
		r.Read(rnd[:])
		found, n := false, 0
		kc.attempts(mu, rnd, 256, func(a attempt) bool {
			n++
			if hit(a) {
				found = true
				return true
			}
			return kc.accepted(a)
		})
		if found {
			return &rnd
		}
		left -= n
	}
	return nil
}

// ------------------------------------------------------------------------------ signature mutations

type mutant struct {
	kind string
	sig  []byte
}

func clone(b []byte) []byte { return append([]byte(nil), b...) }

func setZ(p pset, sig []byte, poly, idx int, val int64) { // write coefficient z[poly][idx] = val (|val| <= gamma1)
	bits := 1 + p.log2g1
	enc := uint32(int64(p.gamma1) - val)
	off := 8*(p.ctLen+poly*32*bits) + idx*bits
	for b := 0; b < bits; b++ {
		byteI, bitI := (off+b)/8, uint((off+b)%8)
		sig[byteI] &^= 1 << bitI
		sig[byteI] |= byte((enc>>uint(b))&1) << bitI
	}
}

func mutants(p pset, r *rand.Rand, sig []byte, full bool) []mutant {
	var ms []mutant
	add := func(kind string, f func(b []byte) []byte) {
		if b := f(clone(sig)); b != nil {
			ms = append(ms, mutant{kind, b})
		}
	}
	hOff := p.ctLen + p.zLen
	last := int(sig[hOff+p.omega+p.k-1])
	// lengths
	add("len-1", func(b []byte) []byte { return b[:len(b)-1] })
	add("len+1", func(b []byte) []byte { return append(b, 0) })
	add("len+1front", func(b []byte) []byte { return append([]byte{0}, b...) })
	add("empty", func(b []byte) []byte { return []byte{} })
	add("only-c", func(b []byte) []byte { return b[:p.ctLen] })
	add("no-hint", func(b []byte) []byte { return b[:hOff] })
	// hint section (FIPS 204 Algorithm 21)
	add("hint-count-omega+1", func(b []byte) []byte { b[len(b)-1] = byte(p.omega + 1); return b })
	add("hint-count-255", func(b []byte) []byte { b[len(b)-1] = 255; return b })
	add("hint-count-dec", func(b []byte) []byte {
		i := r.Intn(p.k)
		if b[hOff+p.omega+i] == 0 {
			return nil
		}
		b[hOff+p.omega+i]--
		return b
	})
	add("hint-count-inc", func(b []byte) []byte { i := r.Intn(p.k); b[hOff+p.omega+i]++; return b })
	add("hint-counts-swapped", func(b []byte) []byte {
		i := r.Intn(p.k - 1)
		b[hOff+p.omega+i], b[hOff+p.omega+i+1] = b[hOff+p.omega+i+1], b[hOff+p.omega+i]
		return b
	})
	add("hint-padding-nonzero", func(b []byte) []byte {
		if last >= p.omega {
			return nil
		}
		b[hOff+last+r.Intn(p.omega-last)] = byte(1 + r.Intn(255))
		return b
	})
	add("hint-padding-last-byte", func(b []byte) []byte {
		if last >= p.omega {
			return nil
		}
		b[hOff+p.omega-1] = 1
		return b
	})
	add("hint-unsorted", func(b []byte) []byte {
		if last < 2 {
			return nil
		}
		i := r.Intn(last - 1)
		b[hOff+i], b[hOff+i+1] = b[hOff+i+1], b[hOff+i]
		return b
	})
	add("hint-duplicate", func(b []byte) []byte {
		if last < 2 {
			return nil
		}
		i := r.Intn(last - 1)
		b[hOff+i+1] = b[hOff+i]
		return b
	})
	add("hint-index-changed", func(b []byte) []byte {
		if last < 1 {
			return nil
		}
		b[hOff+r.Intn(last)] ^= 1 << uint(r.Intn(8))
		return b
	})
	add("hint-all-zero", func(b []byte) []byte {
		for i := hOff; i < len(b); i++ {
			b[i] = 0
		}
		return b
	})
	// z: one coefficient on / next to the norm bound (the rest untouched)
	zb := int64(p.gamma1 - p.beta)
	for _, v := range []int64{zb, -zb, zb - 1, -(zb - 1), int64(p.gamma1), -(int64(p.gamma1) - 1), 0} {
		v := v
		add(fmt.Sprintf("z-coeff=%d", v-zb), func(b []byte) []byte {
			setZ(p, b, r.Intn(p.l), r.Intn(256), v)
			return b
		})
	}
	// bit flips in every section
	flips := 2
	if full {
		flips = 6
	}
	for i := 0; i < flips; i++ {
		add("flip-c", func(b []byte) []byte { b[r.Intn(p.ctLen)] ^= 1 << uint(r.Intn(8)); return b })
		add("flip-z", func(b []byte) []byte { b[p.ctLen+r.Intn(p.zLen)] ^= 1 << uint(r.Intn(8)); return b })
		add("flip-z-lowbit", func(b []byte) []byte { // lowest bit of one coefficient
			bits := 1 + p.log2g1
			off := 8*p.ctLen + (r.Intn(p.l*256))*bits
			b[off/8] ^= 1 << uint(off%8)
			return b
		})
		add("flip-h", func(b []byte) []byte { b[hOff+r.Intn(p.omega+p.k)] ^= 1 << uint(r.Intn(8)); return b })
	}
	add("random", func(b []byte) []byte { r.Read(b); return b })
	add("zeros", func(b []byte) []byte { return make([]byte, len(b)) })
	return ms
}

// ------------------------------------------------------------------------------ public API routes

type pubKey struct {
	pset
	out      *sink
	seed     []byte
	variant  string
	id       uint32
	priv     *mldsa.PrivateKey
	pkB      []byte
	signer   tink.Signer
	verifier tink.Verifier
	handle   *keyset.Handle
}

func instanceOf(name string) mldsa.Instance {
	switch name {
	case "44":
		return mldsa.MLDSA44
	case "65":
		return mldsa.MLDSA65
	}
	return mldsa.MLDSA87
}

func variantOf(v string) mldsa.Variant {
	switch v {
	case "TINK":
		return mldsa.VariantTink
	case "NO_PREFIX":
		return mldsa.VariantNoPrefix
	}
	return mldsa.VariantNoPrefixWithPrehashID
}

func handleOf(k key.Key) *keyset.Handle {
	km := keyset.NewManager()
	id, err := km.AddKey(k)
	if err != nil {
		vt.Fatal("AddKey: %v", err)
	}
	if err := km.SetPrimary(id); err != nil {
		vt.Fatal("SetPrimary: %v", err)
	}
	hd, err := km.Handle()
	if err != nil {
		vt.Fatal("Handle: %v", err)
	}
	return hd
}

func newPubKey(out *sink, p pset, seed []byte, variant string, id uint32) *pubKey {
	params, err := mldsa.NewParameters(instanceOf(p.name), variantOf(variant))
	if err != nil {
		vt.Fatal("NewParameters: %v", err)
	}
	if variant == "NO_PREFIX" {
		id = 0
	}
	var priv *mldsa.PrivateKey
	pan, _ := vt.Try(func() {
		priv, err = mldsa.NewPrivateKey(secretdata.NewBytesFromData(seed, insecuresecretdataaccess.Token{}), id, params)
	})
	if pan || err != nil {
		out.Emit(vt.Ev{"ev": "keygen", "set": p.name, "route": "public", "seed": vt.Hex(seed), "pk": "", "sk": "", "panic": true})
		return nil
	}
	pub, _ := priv.PublicKey()
	pk := &pubKey{pset: p, out: out, seed: clone(seed), variant: variant, id: id, priv: priv, pkB: pub.(*mldsa.PublicKey).KeyBytes()}
	out.Emit(vt.Ev{"ev": "keygen", "set": p.name, "route": "public", "seed": vt.Hex(seed), "pk": vt.Hex(pk.pkB), "sk": "", "panic": false})
	pk.handle = handleOf(priv)
	if pk.signer, err = signature.NewSigner(pk.handle); err != nil {
		vt.Fatal("NewSigner: %v", err)
	}
	ph, err := pk.handle.Public()
	if err != nil {
		vt.Fatal("Public: %v", err)
	}
	if pk.verifier, err = signature.NewVerifier(ph); err != nil {
		vt.Fatal("NewVerifier: %v", err)
	}
	return pk
}

func (pk *pubKey) ev(name string) vt.Ev {
	return vt.Ev{"ev": name, "set": pk.name, "route": "public", "variant": pk.variant, "id": vt.ID4(pk.id), "pk": vt.Hex(pk.pkB)}
}

func (pk *pubKey) sign(msg []byte, kind string) []byte {
	var res []byte
	var rerr error
	msgH := vt.Hex(msg)
	pan, hung := guarded(func() { res, rerr = pk.signer.Sign(msg) })
	var sig []byte
	var err error
	if !hung {
		sig, err = res, rerr
	}
	e := pk.ev("signed")
	e["seed"], e["keyVariant"] = vt.Hex(pk.seed), pk.variant
	e["kind"], e["msg"], e["sig"], e["err"], e["panic"], e["hung"] = kind, msgH, vt.Hex(sig), err != nil, pan, hung
	pk.out.Emit(e)
	return sig
}

func (pk *pubKey) verify(sig, msg []byte, kind string) {
	var err, err2 error
	msgH, sigH := vt.Hex(msg), vt.Hex(sig)
	pan, _ := vt.Try(func() {
		err = pk.verifier.Verify(sig, msg)
		err2 = pk.verifier.Verify(sig, msg)
	})
	e := pk.ev("pverify")
	e["kind"], e["msg"], e["sig"], e["ok"], e["ok2"], e["panic"] = kind, msgH, sigH, err == nil && !pan, err2 == nil && !pan, pan
	pk.out.Emit(e)
}

// scribble overwrites a driver-owned input buffer after a call returned.
func scribble(b []byte) {
	for i := range b {
		b[i] = 0xA5
	}
}

// retained exercises one signer/verifier (and, for prehash-capable keys, one Prehash / PrehashSigner) the way
// a caller that keeps results around does: all messages travel through ONE driver-owned buffer that is
// scribbled after every call; every output is copied at return AND retained, and is only used (signed,
// verified, logged) after later calls on the same primitive, in a different order. Both the copy taken at
// return and the retained slice's content at the time of use are logged; the reference judges the latter.
func (pk *pubKey) retained(r *rand.Rand, pre tink.Prehash, ps tink.PrehashSigner) {
	msgs := make([][]byte, 3)
	for i := range msgs {
		msgs[i] = msgOf(r, i+2)
		if len(msgs[i]) == 0 {
			msgs[i] = []byte{byte(i)}
		}
	}
	pk.retainedMsgs(msgs, pre, ps)
}

func (pk *pubKey) retainedMsgs(msgs [][]byte, pre tink.Prehash, ps tink.PrehashSigner) {
	n := len(msgs)
	buf := make([]byte, 0, 4096)
	all := make([]string, n) // the whole scenario travels with every event (replay re-runs it)
	for i := range msgs {
		all[i] = vt.Hex(msgs[i])
	}
	order := []int{2, 0, 1}[:n]
	if n != 3 {
		order = nil
		for i := n - 1; i >= 0; i-- {
			order = append(order, i)
		}
	}
	// ---- ordinary signer: sign all, then verify all
	sigs, sigs0 := make([][]byte, n), make([][]byte, n)
	fail := make([]vt.Ev, n)
	for i := range msgs {
		in := append(buf[:0], msgs[i]...)
		var res []byte
		var rerr error
		pan, hung := guarded(func() { res, rerr = pk.signer.Sign(in) })
		if !hung && !pan && rerr == nil {
			sigs[i], sigs0[i] = res, clone(res)
		}
		fail[i] = vt.Ev{"err": rerr != nil && !hung, "panic": pan, "hung": hung}
		scribble(buf[:cap(buf)])
	}
	for _, i := range order {
		e := pk.ev("signed")
		e["seed"], e["keyVariant"] = vt.Hex(pk.seed), pk.variant
		e["keyID"] = vt.ID4(pk.id)
		e["kind"], e["msg"], e["sig"], e["sig0"], e["msgs"] = "retained", vt.Hex(msgs[i]), vt.Hex(sigs[i]), vt.Hex(sigs0[i]), all
		e["err"], e["panic"], e["hung"] = fail[i]["err"], fail[i]["panic"], fail[i]["hung"]
		pk.out.Emit(e)
		if sigs[i] != nil {
			in := append(buf[:0], msgs[i]...)
			pk.verify(sigs[i], in, "retained-signature")
			scribble(buf[:cap(buf)])
		}
	}
	if pre == nil || ps == nil {
		return
	}
	// ---- prehash path: compute all prehashes, then sign them in another order, then verify each against its own message
	digs, digs0 := make([][]byte, n), make([][]byte, n)
	for i := range msgs {
		in := append(buf[:0], msgs[i]...)
		var d []byte
		var err error
		pan, _ := vt.Try(func() { d, err = pre.ComputePrehash(in) })
		if !pan && err == nil {
			digs[i], digs0[i] = d, clone(d)
		}
		fail[i] = vt.Ev{"err": err != nil, "panic": pan}
		scribble(buf[:cap(buf)])
	}
	for i := range msgs {
		e := pk.ev("prehash")
		e["seed"], e["keyVariant"], e["keyID"], e["msgs"] = vt.Hex(pk.seed), pk.variant, vt.ID4(pk.id), all
		e["kind"], e["msg"], e["out"], e["out2"], e["err"], e["panic"] = "retained", vt.Hex(msgs[i]), vt.Hex(digs0[i]), vt.Hex(digs[i]), fail[i]["err"], fail[i]["panic"]
		pk.out.Emit(e)
	}
	psigs, psigs0 := make([][]byte, n), make([][]byte, n)
	for _, i := range order {
		if digs[i] == nil {
			continue
		}
		var res []byte
		var rerr error
		pan, hung := guarded(func() { res, rerr = ps.SignPrehash(digs[i]) })
		if !hung && !pan && rerr == nil {
			psigs[i], psigs0[i] = res, clone(res)
		}
		fail[i] = vt.Ev{"err": rerr != nil && !hung, "panic": pan, "hung": hung}
	}
	for i := range msgs {
		if digs[i] == nil {
			continue
		}
		e := pk.ev("signed")
		e["seed"], e["keyVariant"] = vt.Hex(pk.seed), pk.variant
		e["keyID"] = vt.ID4(pk.id)
		if pk.variant == "TINK" { // SignPrehash returns the bare ML-DSA signature
			e["variant"], e["id"] = "NO_PREFIX", "00000000"
		}
		e["kind"], e["msg"], e["sig"], e["sig0"], e["msgs"] = "prehash-retained", vt.Hex(msgs[i]), vt.Hex(psigs[i]), vt.Hex(psigs0[i]), all
		e["err"], e["panic"], e["hung"] = fail[i]["err"], fail[i]["panic"], fail[i]["hung"]
		pk.out.Emit(e)
		if psigs[i] != nil {
			full := append(clone(pk.priv.OutputPrefix()), psigs[i]...)
			pk.verify(full, msgs[i], "prehash-retained-signature")
		}
	}
}

func msgOf(r *rand.Rand, i int) []byte {
	switch i % 5 {
	case 0:
		return []byte{}
	case 1:
		return []byte("Hello world")
	case 2:
		return vt.Bytes(r, 1+r.Intn(64))
	case 3:
		return vt.Bytes(r, 136-66+r.Intn(4)) // around the SHAKE256 rate together with tr || 0 || 0
	}
	return vt.Bytes(r, 200+r.Intn(800))
}

// ------------------------------------------------------------------------------ the stage

type crafted struct {
	kind string
	mp   []byte
	a    *attempt
}

func algoStage() {
	full := vt.Thorough()
	sinks := make([]*sink, len(setNames)+1)
	var wg sync.WaitGroup
	for si, name := range setNames {
		sinks[si] = &sink{}
		wg.Add(1)
		go func(si int, name string) {
			defer wg.Done()
			r := vt.Rng(int64(130 + si))
			p := getSet(name)
			internalRoutes(sinks[si], p, r, full)
			publicRoutes(sinks[si], p, r, full)
		}(si, name)
	}
	sinks[len(setNames)] = &sink{}
	wg.Add(1)
	go func() {
		defer wg.Done()
		compositeRoutes(sinks[len(setNames)], vt.Rng(139), full)
	}()
	wg.Wait()
	for _, s := range sinks {
		s.flush()
	}
}

// knownLongExpandS: ML-DSA-65 seeds (little-endian counter, rest zero) for which one ExpandS polynomial needs a third
// SHAKE256 block (reported by the lead's seeding round); the seeded search below finds further ones.
var knownLongExpandS = []uint32{0x00022523, 0x0002ded8, 0x0000274f}

// searchedKeyGen: key generation from seeds selected by the XOF consumption of their samplers.
func searchedKeyGen(out *sink, p pset, r *rand.Rand, full bool) {
	for _, hh := range searchedSeeds(p, full) {
		out.Emit(vt.Ev{"ev": "note", "what": "xof-search seed", "set": p.name, "kind": hh.why, "poly": hh.idx, "bytes": hh.bytes, "blocks": blocksOf(hh.bytes, 136), "seed": vt.Hex(hh.seed[:])})
		newKey(out, p, hh.seed)
	}
	if p.name == "65" {
		for _, c := range knownLongExpandS {
			var sd [32]byte
			binary.LittleEndian.PutUint32(sd[:4], c)
			out.Emit(vt.Ev{"ev": "note", "what": "xof-search seed", "set": p.name, "kind": "known", "poly": -1, "bytes": 0, "blocks": 0, "seed": vt.Hex(sd[:])})
			newKey(out, p, sd)
		}
	}
	budget := 1500
	if full {
		budget = 20000
	}
	sd, rej := searchSeedsNTT(p, r, budget)
	out.Emit(vt.Ev{"ev": "note", "what": "xof-search seed", "set": p.name, "kind": "max-rejntt-rejections", "poly": -1, "bytes": 3 * (256 + rej), "blocks": blocksOf(3*(256+rej), 168), "seed": vt.Hex(sd[:])})
	newKey(out, p, sd)
}

func internalRoutes(out *sink, p pset, r *rand.Rand, full bool) {
	name := p.name
	searchedKeyGen(out, p, r, full)
	nKeys, nDet := 2, 1
	craftIters := 30000
	if full {
		nKeys, nDet, craftIters = 6, 5, 100000
	}
	for ki := 0; ki < nKeys; ki++ {
		var seed [32]byte
		r.Read(seed[:])
		if ki == 1 {
			seed = [32]byte{} // all-zero seed
		}
		kc := newKey(out, p, seed)
		if kc == nil {
			continue
		}
		// crafted signatures on the bounds of the rejection loop: searched concurrently, emitted below
		kinds := []string{"z=bound-1", "z=bound", "r0=bound", "ones=omega"}
		if full {
			kinds = append(kinds, "z=bound+1", "r0=bound-1", "r0>bound", "ones=max-1")
		} else if ki != 0 {
			kinds = []string{"z=bound"}
		}
		loopKinds := []string{"z=bound", "r0=bound", "ones=omega"}
		if full {
			loopKinds = append(loopKinds, "z=bound-1", "r0=bound-1", "ones=omega+1")
		} else if ki != 0 {
			loopKinds = nil
		}
		type loopCase struct {
			kind string
			mp   []byte
			rnd  *[32]byte
		}
		loops := make([]loopCase, len(loopKinds))
		found := make([]crafted, len(kinds))
		var cw sync.WaitGroup
		for i, kind := range loopKinds {
			cr := rand.New(rand.NewSource(r.Int63()))
			loops[i] = loopCase{kind: kind, mp: mprime(msgOf(cr, 1), nil)}
			cw.Add(1)
			go func(i int, cr *rand.Rand) {
				defer cw.Done()
				loops[i].rnd = kc.craftLoop(cr, loops[i].mp, loops[i].kind, craftIters*2)
			}(i, cr)
		}
		for i, kind := range kinds {
			cr := rand.New(rand.NewSource(r.Int63()))
			found[i] = crafted{kind: kind, mp: mprime(msgOf(cr, 2), nil)}
			cw.Add(1)
			go func(i int, cr *rand.Rand) {
				defer cw.Done()
				found[i].a = kc.craft(cr, found[i].mp, found[i].kind, craftIters)
			}(i, cr)
		}
		// deterministic and known-randomness signatures: byte-identical to Sign_internal
		ibuf := make([]byte, 0, 4096)
		var first []byte
		var firstMp []byte
		for si := 0; si < nDet; si++ {
			msg := msgOf(r, si+ki)
			ctx := []byte{}
			if si%2 == 1 {
				ctx = vt.Bytes(r, []int{1, 17, 255}[r.Intn(3)])
			}
			mp := mprime(msg, ctx)
			var rnd [32]byte
			if si >= 2 {
				r.Read(rnd[:])
			}
			// the message travels through one driver-owned buffer that is scribbled after every call
			sig := kc.signEv(append(ibuf[:0], mp...), rnd, "known-rnd")
			scribble(ibuf[:cap(ibuf)])
			if sig != nil && first == nil {
				first, firstMp = sig, mp
			}
			if sig != nil {
				kc.verifyEv(append(ibuf[:0], mp...), sig, "own-signature")
				scribble(ibuf[:cap(ibuf)])
			}
		}
		if first == nil {
			cw.Wait()
			continue
		}
		// external mu, deterministic
		{
			var mu [64]byte
			r.Read(mu[:])
			var rnd [32]byte
			var sig, res []byte
			pan, hung := guarded(func() { res = h.MLDSASignInternalWithMu(kc.sk, mu, rnd) })
			if !hung {
				sig = res
			}
			out.Emit(vt.Ev{"ev": "signmu", "set": name, "sk": vt.Hex(kc.skB), "mu": vt.Hex(mu[:]), "rnd": vt.Hex(rnd[:]), "sig": vt.Hex(sig), "panic": pan, "hung": hung})
			if sig != nil {
				var err error
				pan, _ := vt.Try(func() { err = kc.pk.VerifyWithMu(mu, sig) })
				out.Emit(vt.Ev{"ev": "verifymu", "set": name, "kind": "own", "pk": vt.Hex(kc.pkB), "mu": vt.Hex(mu[:]), "sig": vt.Hex(sig), "ok": err == nil && !pan, "panic": pan})
				mu[r.Intn(64)] ^= 1
				pan, _ = vt.Try(func() { err = kc.pk.VerifyWithMu(mu, sig) })
				out.Emit(vt.Ev{"ev": "verifymu", "set": name, "kind": "mu-flipped", "pk": vt.Hex(kc.pkB), "mu": vt.Hex(mu[:]), "sig": vt.Hex(sig), "ok": err == nil && !pan, "panic": pan})
			}
		}
		// malformed / mutated signatures
		for _, m := range mutants(p, r, first, full) {
			kc.verifyEv(firstMp, m.sig, m.kind)
		}
		// modified message / context / public key
		{
			mp := clone(firstMp)
			mp[len(mp)-1] ^= 1
			if len(firstMp) == 2 {
				mp = append(mp, 0)
			}
			kc.verifyEv(mp, first, "message-modified")
			kc.verifyEv(append(clone(firstMp), 0), first, "message-extended")
			mp = clone(firstMp)
			mp[0] ^= 1
			kc.verifyEv(mp, first, "domain-separator-modified")
			for _, pos := range []int{r.Intn(32), 32 + r.Intn(p.pkL-32), p.pkL - 1} {
				pkB := clone(kc.pkB)
				pkB[pos] ^= 1 << uint(r.Intn(8))
				verifyWithPk(out, p, pkB, firstMp, first, "pk-modified")
			}
			verifyWithPk(out, p, kc.pkB[:p.pkL-1], firstMp, first, "pk-short")
			verifyWithPk(out, p, make([]byte, p.pkL), firstMp, first, "pk-zero")
		}
		cw.Wait()
		for _, c := range found {
			if c.a == nil || c.a.sig == nil {
				out.Emit(vt.Ev{"ev": "note", "what": "crafting found no candidate", "set": name, "kind": c.kind})
				continue
			}
			out.Emit(vt.Ev{"ev": "note", "what": "crafted", "set": name, "kind": c.kind, "zNorm": c.a.zNorm, "r0Norm": c.a.r0Norm, "ct0Norm": c.a.ct0Norm, "ones": c.a.ones})
			kc.verifyEv(c.mp, c.a.sig, "crafted:"+c.kind)
		}
		// the encoded keys obtained at key generation, as the retained slices read after all later calls
		out.Emit(vt.Ev{"ev": "keygen", "set": name, "route": "internal", "kind": "retained", "seed": vt.Hex(seed[:]), "pk": vt.Hex(kc.pkB), "sk": vt.Hex(kc.skB), "panic": false})
		// the real signer on (message, randomness) pairs whose loop passes through a boundary candidate
		for _, c := range loops {
			if c.rnd == nil {
				out.Emit(vt.Ev{"ev": "note", "what": "crafting found no signing-loop case", "set": name, "kind": c.kind})
				continue
			}
			if sig := kc.signEv(c.mp, *c.rnd, "loop:"+c.kind); sig != nil {
				kc.verifyEv(c.mp, sig, "loop-signature:"+c.kind)
			}
		}
	}
}

func publicRoutes(out *sink, p pset, r *rand.Rand, full bool) {
	ids := []uint32{0x01020304, 0, 0xffffffff, 0x80000000}
	for vi, variant := range []string{"TINK", "NO_PREFIX", "EXTERNAL_MU"} {
		seed := vt.Bytes(r, 32)
		pk := newPubKey(out, p, seed, variant, ids[(vi+int(vt.Seed()))%len(ids)])
		if pk == nil {
			continue
		}
		n := 1
		if full {
			n = 3
		}
		var sig, msg []byte
		for i := 0; i < n; i++ {
			msg = msgOf(r, i+vi+1)
			sig = pk.sign(msg, "hedged")
			if sig == nil {
				continue
			}
			pk.verify(sig, msg, "own-signature")
		}
		if sig == nil {
			continue
		}
		pre := len(sig) - p.sigLen
		pk.verify(sig, append(clone(msg), 1), "message-extended")
		if len(msg) > 0 {
			pk.verify(sig, msg[:len(msg)-1], "message-truncated")
		}
		if pre > 0 {
			b := clone(sig)
			b[0] ^= 1
			pk.verify(b, msg, "prefix-start-byte")
			b = clone(sig)
			b[1+r.Intn(4)] ^= 1 << uint(r.Intn(8))
			pk.verify(b, msg, "prefix-key-id")
			pk.verify(sig[pre:], msg, "prefix-removed")
		} else {
			pk.verify(append([]byte{1, 1, 2, 3, 4}, sig...), msg, "prefix-added")
		}
		pk.verify(sig[:len(sig)-1], msg, "len-1")
		pk.verify([]byte{}, msg, "empty")
		b := clone(sig)
		b[pre+r.Intn(p.sigLen)] ^= 1 << uint(r.Intn(8))
		pk.verify(b, msg, "flip")
		if variant == "NO_PREFIX" {
			pk.retained(r, nil, nil)
			pk.retainedKey()
			continue
		}
		// external mu: ComputePrehash on the public handle, SignPrehash on the private handle; the result
		// must verify under the key's ordinary verifier (for TINK keys the verifier expects the prefix,
		// which SignPrehash does not add: both verdicts are recorded and judged).
		ph, _ := pk.handle.Public()
		pre2, err1 := signprehash.NewPrehash(ph)
		ps, err2 := signprehash.NewPrehashSigner(pk.handle)
		if err1 != nil || err2 != nil {
			out.Emit(vt.Ev{"ev": "note", "what": "prehash primitives refused", "set": p.name, "variant": variant, "e1": fmt.Sprint(err1), "e2": fmt.Sprint(err2)})
			pk.retained(r, nil, nil)
			continue
		}
		for i := 0; i < n; i++ {
			msg := msgOf(r, i+vi)
			var dig, s2 []byte
			var err error
			pan, _ := vt.Try(func() { dig, err = pre2.ComputePrehash(msg) })
			e := pk.ev("prehash")
			e["msg"], e["out"], e["err"], e["panic"] = vt.Hex(msg), vt.Hex(dig), err != nil, pan
			out.Emit(e)
			if pan || err != nil {
				continue
			}
			var res2 []byte
			var rerr2 error
			var hung bool
			pan, hung = guarded(func() { res2, rerr2 = ps.SignPrehash(dig) })
			if !hung {
				s2, err = res2, rerr2
			}
			// SignPrehash returns a bare ML-DSA signature of msg (no output prefix, also for TINK keys). For an
			// EXTERNAL_MU key this is what the ordinary verifier takes; for a TINK key the bare signature is judged
			// as a NO_PREFIX signature, and the verifier is asked about both forms.
			e = pk.ev("signed")
			e["seed"], e["keyVariant"] = vt.Hex(pk.seed), pk.variant
			if variant == "TINK" {
				e["variant"], e["id"] = "NO_PREFIX", "00000000"
			}
			e["kind"], e["msg"], e["sig"], e["err"], e["panic"], e["hung"] = "prehash", vt.Hex(msg), vt.Hex(s2), err != nil, pan, hung
			out.Emit(e)
			if s2 != nil {
				withPrefix := append(clone(pk.priv.OutputPrefix()), s2...)
				pk.verify(s2, msg, "prehash-signature-bare")
				pk.verify(withPrefix, msg, "prehash-signature-with-prefix")
				pk.verify(withPrefix, append(clone(msg), 0), "prehash-signature-other-message")
			}
			// SignPrehash must refuse a prehash for another key id / wrong start byte (coverage only)
			bad := clone(dig)
			bad[0] ^= 1
			_, e1 := ps.SignPrehash(bad)
			bad = clone(dig)
			bad[4] ^= 1
			_, e2 := ps.SignPrehash(bad)
			out.Emit(vt.Ev{"ev": "note", "what": "SignPrehash on foreign prehash", "startByteRefused": e1 != nil, "keyIDRefused": e2 != nil})
		}
		pk.retained(r, pre2, ps)
		pk.retainedKey()
	}
}

// retainedKey logs the public key bytes obtained right after key creation again, after all other use of the key.
func (pk *pubKey) retainedKey() {
	pk.out.Emit(vt.Ev{"ev": "keygen", "set": pk.name, "route": "public", "kind": "retained", "seed": vt.Hex(pk.seed), "pk": vt.Hex(pk.pkB), "sk": "", "panic": false})
}

type classical struct {
	alg    string // as in the composite label
	ca     compositemldsa.ClassicalAlgorithm
	sigMin int // a flip position range inside the classical signature that keeps its framing intact
}

func classicalKey(c classical, r *rand.Rand) (key.Key, []byte) {
	switch c.alg {
	case "Ed25519":
		edp, _ := ed25519.NewParameters(ed25519.VariantNoPrefix)
		k, err := ed25519.NewPrivateKey(secretdata.NewBytesFromData(vt.Bytes(r, 32), insecuresecretdataaccess.Token{}), 0, edp)
		if err != nil {
			vt.Fatal("ed25519.NewPrivateKey: %v", err)
		}
		pub, _ := k.PublicKey()
		return k, pub.(*ed25519.PublicKey).KeyBytes()
	case "ECDSA-P256", "ECDSA-P384":
		curve, hash, n := ecdsa.NistP256, ecdsa.SHA256, 32
		if c.alg == "ECDSA-P384" {
			curve, hash, n = ecdsa.NistP384, ecdsa.SHA384, 48
		}
		ep, err := ecdsa.NewParameters(curve, hash, ecdsa.DER, ecdsa.VariantNoPrefix)
		if err != nil {
			vt.Fatal("ecdsa.NewParameters: %v", err)
		}
		d := vt.Bytes(r, n)
		d[0] &= 0x7f
		d[n-1] |= 1
		k, err := ecdsa.NewPrivateKey(secretdata.NewBytesFromData(d, insecuresecretdataaccess.Token{}), 0, ep)
		if err != nil {
			vt.Fatal("ecdsa.NewPrivateKey: %v", err)
		}
		pub, _ := k.PublicKey()
		return k, pub.(*ecdsa.PublicKey).PublicPoint()
	}
	vt.Fatal("unsupported classical algorithm %s", c.alg)
	return nil, nil
}

// composite ML-DSA: the verifier must accept iff both components verify (all four combinations)
func compositeRoutes(out *sink, r *rand.Rand, full bool) {
	combos := []struct {
		inst string
		c    classical
	}{
		{"65", classical{"Ed25519", compositemldsa.Ed25519, 0}},
		{"87", classical{"ECDSA-P384", compositemldsa.ECDSAP384, 0}},
		{"65", classical{"ECDSA-P256", compositemldsa.ECDSAP256, 0}},
	}
	for ii, cb := range combos {
		inst := cb.inst
		if !full && ii == 2 {
			continue
		}
		p := getSet(inst)
		ci := compositemldsa.MLDSA65
		if inst == "87" {
			ci = compositemldsa.MLDSA87
		}
		for vi, variant := range []string{"TINK", "NO_PREFIX"} {
			if !full && (ii+vi+int(vt.Seed()))%2 == 1 {
				continue
			}
			cv, id := compositemldsa.VariantTink, uint32(0x0a0b0c0d)
			if variant == "NO_PREFIX" {
				cv, id = compositemldsa.VariantNoPrefix, 0
			}
			params, err := compositemldsa.NewParameters(cb.c.ca, ci, cv)
			if err != nil {
				vt.Fatal("compositemldsa.NewParameters: %v", err)
			}
			mlp, _ := mldsa.NewParameters(instanceOf(inst), mldsa.VariantNoPrefix)
			mlPriv, err := mldsa.NewPrivateKey(secretdata.NewBytesFromData(vt.Bytes(r, 32), insecuresecretdataaccess.Token{}), 0, mlp)
			if err != nil {
				vt.Fatal("mldsa.NewPrivateKey: %v", err)
			}
			clPriv, pkC := classicalKey(cb.c, r)
			priv, err := compositemldsa.NewPrivateKey(mlPriv, clPriv, id, params)
			if err != nil {
				vt.Fatal("compositemldsa.NewPrivateKey: %v", err)
			}
			hd := handleOf(priv)
			signer, err := signature.NewSigner(hd)
			if err != nil {
				vt.Fatal("composite NewSigner: %v", err)
			}
			ph, _ := hd.Public()
			verifier, err := signature.NewVerifier(ph)
			if err != nil {
				vt.Fatal("composite NewVerifier: %v", err)
			}
			mlPub, _ := mlPriv.PublicKey()
			pkM := mlPub.(*mldsa.PublicKey).KeyBytes()
			emit := func(sig, msg []byte, kind string) {
				var err, err2 error
				msgH, sigH := vt.Hex(msg), vt.Hex(sig)
				pan, _ := vt.Try(func() {
					err = verifier.Verify(sig, msg)
					err2 = verifier.Verify(sig, msg)
				})
				out.Emit(vt.Ev{"ev": "composite", "inst": inst, "alg": cb.c.alg, "variant": variant, "id": vt.ID4(id), "kind": kind,
					"pkM": vt.Hex(pkM), "pkC": vt.Hex(pkC), "msg": msgH, "sig": sigH, "ok": err == nil && !pan, "ok2": err2 == nil && !pan, "panic": pan})
			}
			msg := msgOf(r, 2+vi)
			var sig, res []byte
			var rerr error
			pan, hung := guarded(func() { res, rerr = signer.Sign(msg) })
			if !hung {
				sig, err = res, rerr
			}
			if pan || hung || err != nil {
				out.Emit(vt.Ev{"ev": "signfail", "what": "composite " + inst + " " + cb.c.alg, "panic": pan, "hung": hung, "err": err != nil})
				continue
			}
			pre := 0
			if variant == "TINK" {
				pre = 5
			}
			clLen := len(sig) - pre - p.sigLen
			flipCl := func(b []byte) { b[len(b)-1-r.Intn(clLen/3)] ^= 1 << uint(r.Intn(8)) } // inside the last integer / half
			emit(sig, msg, "both-valid")
			b := clone(sig)
			b[pre+r.Intn(p.sigLen)] ^= 1 << uint(r.Intn(8))
			emit(b, msg, "mldsa-invalid")
			b = clone(sig)
			flipCl(b)
			emit(b, msg, "classical-invalid")
			b[pre+r.Intn(p.sigLen)] ^= 1 << uint(r.Intn(8))
			emit(b, msg, "both-invalid")
			emit(sig, append(clone(msg), 0), "message-modified")
			emit(sig[:len(sig)-1], msg, "len-1")
			emit(append(clone(sig), 0), msg, "len+1")
			emit(sig[:pre+p.sigLen], msg, "classical-missing")
			emit(sig[:pre+p.sigLen-1], msg, "shorter-than-mldsa")
			if pre > 0 {
				b = clone(sig)
				b[2] ^= 4
				emit(b, msg, "prefix-key-id")
				emit(sig[pre:], msg, "prefix-removed")
			}
		}
	}
}
