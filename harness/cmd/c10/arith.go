package main

import (
	"math/rand"
	"sort"

	"verifharness/vt"

	h "github.com/tink-crypto/tink-go/v2/testing/verifhooks"
)

const q = h.MLDSAQ

var gammas = []uint32{(q - 1) / 88, (q - 1) / 32}

// ---------------------------------------------------------------------------------------------
// scalar layer: tables of unary functions in lossless run-length form

type ufn struct {
	name   string
	g, p   uint32
	lo, hi uint32 // domain [lo, hi)
	mulc   bool
	f      func(x uint32) []uint32
}

const maxRun = 4096

var slopes = []int64{0, 1, -1, 8192}

func lin(v uint32, s int64, dx uint32) uint32 {
	r := (int64(v) + s*int64(dx)) % q
	if r < 0 {
		r += q
	}
	return uint32(r)
}

// emitRuns walks xs (ascending) and emits maximal runs of consecutive x on which every output is
// v + s*(x-lo) mod q for one slope s per output (for mulc: s = p). The form is lossless: the run
// determines the function's value at each of its points.
func emitRuns(u ufn, xs []uint32) {
	i := 0
	for i < len(xs) {
		lo := xs[i]
		v := u.f(lo)
		s := make([]int64, len(v))
		n := 1
		if u.mulc {
			s[0] = int64(u.p)
		}
		for i+n < len(xs) && xs[i+n] == lo+uint32(n) && n < maxRun {
			o := u.f(xs[i+n])
			ok := true
			if n == 1 && !u.mulc { // choose the slopes from the second point
				for k := range o {
					found := false
					for _, c := range slopes {
						if lin(v[k], c, 1) == o[k] && o[k] < q {
							s[k], found = c, true
							break
						}
					}
					ok = ok && found
				}
			} else {
				for k := range o {
					ok = ok && lin(v[k], s[k], uint32(n)) == o[k]
				}
			}
			if !ok {
				break
			}
			n++
		}
		w.Emit(vt.Ev{"ev": "run", "fn": u.name, "g": u.g, "p": u.p, "lo": lo, "n": n, "v": v, "s": s})
		i += n
	}
}

func one(f func(uint32) uint32) func(uint32) []uint32 {
	return func(x uint32) []uint32 { return []uint32{f(x)} }
}
func two(f func(uint32) (uint32, uint32)) func(uint32) []uint32 {
	return func(x uint32) []uint32 { a, b := f(x); return []uint32{a, b} }
}

// interesting points of Z_q: where the definitions of FIPS 204 section 7.4 change branch
func boundaryPoints(r *rand.Rand) []uint32 {
	pts := []uint32{0, 1, q - 1, q - 2, (q - 1) / 2, (q + 1) / 2, 1 << 22, 1 << 23 >> 1}
	for _, g := range gammas {
		for k := uint32(0); k*g <= q+g; k++ {
			pts = append(pts, k*g)
		}
	}
	// Power2Round switches at odd multiples of 2^12; take a seeded subset plus both ends
	for k := uint32(0); k < 2048; k++ {
		if k < 6 || k > 2040 || r.Intn(24) == 0 {
			pts = append(pts, k<<12)
		}
	}
	for i := 0; i < 23; i++ {
		pts = append(pts, 1<<uint(i))
	}
	return pts
}

func neighbourhoods(pts []uint32, radius uint32, lo, hi uint32, r *rand.Rand, extra int) []uint32 {
	set := map[uint32]bool{}
	for _, p := range pts {
		for d := uint32(0); d <= radius; d++ {
			if p+d >= lo && p+d < hi {
				set[p+d] = true
			}
			if p >= d && p-d >= lo && p-d < hi {
				set[p-d] = true
			}
		}
	}
	for i := 0; i < extra; i++ {
		set[lo+uint32(r.Int63n(int64(hi-lo)))] = true
	}
	xs := make([]uint32, 0, len(set))
	for x := range set {
		xs = append(xs, x)
	}
	sort.Slice(xs, func(i, j int) bool { return xs[i] < xs[j] })
	return xs
}

func unaryTable(r *rand.Rand, full bool) []ufn {
	var t []ufn
	t = append(t, ufn{name: "reduceOnce", lo: 0, hi: 2 * q, f: one(h.MLDSAReduceOnce)})
	t = append(t, ufn{name: "neg", lo: 0, hi: q, f: one(h.MLDSANeg)})
	t = append(t, ufn{name: "power2round", lo: 0, hi: q, f: two(h.MLDSAPower2Round)})
	t = append(t, ufn{name: "centeredAbs", lo: 0, hi: q, f: one(h.MLDSACenteredAbs)})
	t = append(t, ufn{name: "scalePower2", lo: 0, hi: 1024, f: one(h.MLDSAScalePower2)})
	for _, g := range gammas {
		g := g
		t = append(t, ufn{name: "decompose", g: g, lo: 0, hi: q, f: two(func(x uint32) (uint32, uint32) { return h.MLDSADecompose(x, g) })})
		t = append(t, ufn{name: "highBits", g: g, lo: 0, hi: q, f: one(func(x uint32) uint32 { return h.MLDSAHighBits(x, g) })})
		t = append(t, ufn{name: "lowBits", g: g, lo: 0, hi: q, f: one(func(x uint32) uint32 { return h.MLDSALowBits(x, g) })})
		for _, hh := range []uint32{0, 1} {
			hh := hh
			t = append(t, ufn{name: "useHint", g: g, p: hh, lo: 0, hi: q, f: one(func(x uint32) uint32 { return h.MLDSAUseHint(x, g, hh) })})
		}
		// MakeHint(z, r) as a function of r for boundary z (|z| <= gamma2 is what signing uses; a few beyond)
		zs := []uint32{0, 1, q - 1, g, q - g, g - 1, q - g + 1, 78, q - 78, 2 * g, (q - 1) / 2}
		if !full {
			zs = []uint32{1, q - 1, g, q - g, zs[r.Intn(len(zs))]}
		} else {
			zs = append(zs, uint32(r.Int63n(int64(g))), q-uint32(r.Int63n(int64(g))))
		}
		for _, z := range zs {
			z := z
			t = append(t, ufn{name: "makeHint", g: g, p: z, lo: 0, hi: q, f: one(func(x uint32) uint32 { return h.MLDSAMakeHint(z, g, x) })})
		}
	}
	cs := []uint32{1, q - 1, (q - 1) / 2, uint32(r.Int63n(q))}
	for _, c := range cs {
		c := c
		t = append(t, ufn{name: "addc", p: c, lo: 0, hi: q, f: one(func(x uint32) uint32 { return h.MLDSAAdd(x, c) })})
		t = append(t, ufn{name: "subc", p: c, lo: 0, hi: q, f: one(func(x uint32) uint32 { return h.MLDSASub(x, c) })})
		t = append(t, ufn{name: "csub", p: c, lo: 0, hi: q, f: one(func(x uint32) uint32 { return h.MLDSASub(c, x) })})
	}
	// x -> x*c for the constants the algorithms multiply by, plus seeded ones
	ms := []uint32{8347681, h.MLDSAZeta(1), h.MLDSAZeta(128), q - 1, q - h.MLDSAZeta(255), 1 << 22, uint32(r.Int63n(q)), uint32(r.Int63n(q))}
	if !full {
		ms = []uint32{8347681, q - 1, h.MLDSAZeta(1 + r.Intn(255)), uint32(r.Int63n(q))}
	}
	for _, c := range ms {
		c := c
		t = append(t, ufn{name: "mulc", p: c, lo: 0, hi: q, mulc: true, f: one(func(x uint32) uint32 { return h.MLDSAMul(x, c) })})
	}
	return t
}

// scalarStage: thorough = every function on its whole domain (all of Z_q); quick = neighbourhoods of all
// branch boundaries plus seeded points. The table is split over `parts` processes by function index.
func scalarStage(part, parts int) {
	r := vt.Rng(10)
	full := vt.Thorough()
	tab := unaryTable(r, full)
	pts := boundaryPoints(r)
	if part == 0 {
		z := make([]uint32, 256)
		for i := range z {
			z[i] = h.MLDSAZeta(i)
		}
		w.Emit(vt.Ev{"ev": "zetas", "out": z})
		for _, name := range []string{"44", "65"} { // eta = 2 and eta = 4
			par := h.MLDSAParams(name)
			_, _, _, _, _, _, eta, _, _, _ := h.MLDSAParamValues(par)
			out, acc := make([]uint32, 16), make([]bool, 16)
			for b := 0; b < 16; b++ {
				out[b], acc[b] = h.MLDSACoeffFromHalfByte(par, byte(b))
			}
			w.Emit(vt.Ev{"ev": "halfbyte", "eta": eta, "out": out, "acc": acc})
		}
	}
	for i, u := range tab {
		if i%parts != part {
			continue
		}
		if full {
			xs := make([]uint32, 0, maxRun)
			for a := u.lo; a < u.hi; a += maxRun {
				xs = xs[:0]
				for x := a; x < u.hi && x < a+maxRun; x++ {
					xs = append(xs, x)
				}
				emitRuns(u, xs)
			}
			continue
		}
		p := append([]uint32{}, pts...)
		if u.name == "reduceOnce" {
			p = append(p, q, q+1, 2*q-1, 2*q-2, q+(q-1)/2)
		}
		if u.name == "makeHint" { // r with r+z crossing a HighBits boundary
			for k := uint32(0); k*u.g <= q; k++ {
				p = append(p, (k*u.g+q-u.p)%q)
			}
		}
		emitRuns(u, neighbourhoods(p, 12, u.lo, u.hi, r, 500))
	}
}

// ---------------------------------------------------------------------------------------------
// binary functions on B x B

func boundarySet(r *rand.Rand, full bool) []uint32 {
	set := map[uint32]bool{}
	add := func(x int64) {
		x %= q
		if x < 0 {
			x += q
		}
		set[uint32(x)] = true
	}
	for _, x := range []int64{0, 1, 2, 3, q - 1, q - 2, (q - 1) / 2, (q + 1) / 2, (q-1)/2 - 1, (q+1)/2 + 1, 78, 120, 196, 8347681} {
		add(x)
		add(-x)
	}
	for _, g := range gammas {
		step := int64(1)
		if !full {
			step = 5
		}
		for k := int64(0); k*int64(g) <= q; k += step {
			for d := int64(-1); d <= 1; d++ {
				add(k*int64(g) + d)
			}
		}
	}
	for i := 0; i < 23; i++ {
		add(1 << uint(i))
		add(1<<uint(i) - 1)
		add(1<<uint(i) + 1)
	}
	for i := 0; i < 256; i++ {
		if full || i < 8 || i > 250 || r.Intn(4) == 0 {
			add(int64(h.MLDSAZeta(i)))
		}
	}
	n := 100
	if full {
		n = 400
	}
	for i := 0; i < n; i++ {
		add(r.Int63n(q))
	}
	b := make([]uint32, 0, len(set))
	for x := range set {
		b = append(b, x)
	}
	sort.Slice(b, func(i, j int) bool { return b[i] < b[j] })
	return b
}

func binaryStage() {
	r := vt.Rng(11)
	full := vt.Thorough()
	B := boundarySet(r, full)
	type bfn struct {
		name string
		g    uint32
		f    func(a, b uint32) uint32
	}
	fs := []bfn{
		{"mul", 0, h.MLDSAMul}, {"add", 0, h.MLDSAAdd}, {"sub", 0, h.MLDSASub}, {"centeredMax", 0, h.MLDSACenteredMax},
	}
	for _, g := range gammas {
		g := g
		fs = append(fs, bfn{"makeHint", g, func(z, rr uint32) uint32 { return h.MLDSAMakeHint(z, g, rr) }})
	}
	for _, f := range fs {
		for ai, a := range B {
			if !full && f.name != "mul" && (ai+int(vt.Seed()))%3 != 0 {
				continue
			}
			out := make([]uint32, len(B))
			for i, b := range B {
				out[i] = f.f(a, b)
			}
			w.Emit(vt.Ev{"ev": "bin", "fn": f.name, "g": f.g, "a": a, "b": B, "out": out})
		}
	}
	// UseHint(h, r) for h in {0,1} on the boundary set (the complete tables are in the scalar stage)
	for _, g := range gammas {
		for hh := uint32(0); hh <= 1; hh++ {
			out := make([]uint32, len(B))
			for i, b := range B {
				out[i] = h.MLDSAUseHint(b, g, hh)
			}
			w.Emit(vt.Ev{"ev": "bin", "fn": "useHint", "g": g, "a": hh, "b": B, "out": out})
		}
	}
}

// ---------------------------------------------------------------------------------------------
// polynomial layer: NTT, NTT^-1, pointwise product, norm, packing, sampling

func randPoly(r *rand.Rand) h.MLDSAPoly {
	var p h.MLDSAPoly
	for i := range p {
		p[i] = uint32(r.Int63n(q))
	}
	return p
}

func constPoly(c uint32) h.MLDSAPoly {
	var p h.MLDSAPoly
	for i := range p {
		p[i] = c
	}
	return p
}

func basis(i int, c uint32) h.MLDSAPoly {
	var p h.MLDSAPoly
	p[i] = c
	return p
}

func polyInputs(r *rand.Rand, full bool) []h.MLDSAPoly {
	var ps []h.MLDSAPoly
	for i := 0; i < 256; i++ {
		if full || i < 3 || i > 252 || i == 127 || i == 128 || r.Intn(32) == 0 {
			ps = append(ps, basis(i, 1))
			if full || i%2 == 0 {
				ps = append(ps, basis(i, q-1))
			}
		}
	}
	ps = append(ps, constPoly(0), constPoly(1), constPoly(q-1), constPoly((q-1)/2), constPoly((q+1)/2))
	var alt, ramp h.MLDSAPoly
	for i := range alt {
		alt[i] = uint32(i%2) * (q - 1)
		ramp[i] = uint32(i) * 32737 % q
	}
	ps = append(ps, alt, ramp)
	n := 12
	if full {
		n = 150
	}
	for i := 0; i < n; i++ {
		ps = append(ps, randPoly(r))
	}
	// sparse polynomials with extreme coefficients
	for i := 0; i < n/2; i++ {
		var p h.MLDSAPoly
		for k := 0; k < 1+r.Intn(8); k++ {
			p[r.Intn(256)] = []uint32{1, q - 1, (q - 1) / 2, (q + 1) / 2, 1 << 22}[r.Intn(5)]
		}
		ps = append(ps, p)
	}
	return ps
}

func signedOf(p h.MLDSAPoly) []int64 { // centered representative, for the pack direction
	s := make([]int64, 256)
	for i, c := range p {
		s[i] = int64(c)
		if c > (q-1)/2 {
			s[i] = int64(c) - q
		}
	}
	return s
}

func bitlen(x uint32) int {
	n := 0
	for x > 0 {
		n++
		x >>= 1
	}
	return n
}

func polyStage() {
	r := vt.Rng(12)
	full := vt.Thorough()
	ps := polyInputs(r, full)
	for i, p := range ps {
		p := p
		w.Emit(vt.Ev{"ev": "ntt", "in": p, "out": h.MLDSANTT(&p)})
		w.Emit(vt.Ev{"ev": "intt", "in": p, "out": h.MLDSAINTT(&p)})
		w.Emit(vt.Ev{"ev": "norm", "in": p, "out": h.MLDSAInfinityNorm(&p)})
		o := ps[(i*7+3)%len(ps)]
		if full || i%3 == 0 {
			w.Emit(vt.Ev{"ev": "mulntt", "in": p, "in2": o, "out": h.MLDSAMulNTT(&p, &o)})
			w.Emit(vt.Ev{"ev": "polyadd", "in": p, "in2": o, "out": h.MLDSAPolyAdd(&p, &o)})
			w.Emit(vt.Ev{"ev": "polysub", "in": p, "in2": o, "out": h.MLDSAPolySub(&p, &o)})
		}
	}
	// norm: one coefficient on each side of the sign change, at every position class
	for _, c := range []uint32{(q - 1) / 2, (q + 1) / 2, (q-1)/2 - 1, (q+1)/2 + 1, 1 << 17, q - 1<<17, 130994, 130995, q - 130994} {
		for _, pos := range []int{0, 1, 255, r.Intn(256)} {
			p := randSmall(r, 1000)
			p[pos] = c
			w.Emit(vt.Ev{"ev": "norm", "in": p, "out": h.MLDSAInfinityNorm(&p)})
		}
	}
	// matrix * vector for the three shapes
	for _, name := range []string{"44", "65", "87"} {
		_, _, _, _, k, l, _, _, _, _ := h.MLDSAParamValues(h.MLDSAParams(name))
		m := make([][]h.MLDSAPoly, k)
		for i := range m {
			m[i] = make([]h.MLDSAPoly, l)
			for j := range m[i] {
				m[i][j] = randPoly(r)
			}
		}
		v := make([]h.MLDSAPoly, l)
		for j := range v {
			v[j] = randPoly(r)
		}
		w.Emit(vt.Ev{"ev": "matmul", "m": m, "v": v, "out": h.MLDSAMatrixMul(m, v)})
	}
	packStage(r, full)
	hintStage(r, full)
	sampleStage(r, full)
	codecStage(r, full)
}

func positionsOf(hv []h.MLDSAPoly) [][]int {
	pos := [][]int{}
	for _, p := range hv {
		pos = append(pos, positions(p))
	}
	return pos
}

func signedVec(v []h.MLDSAPoly) [][]int64 {
	o := make([][]int64, len(v))
	for i := range v {
		o[i] = signedOf(v[i])
	}
	return o
}

// emitSigDecode records sigDecode on arbitrary bytes of the right length.
func emitSigDecode(name string, sig []byte) {
	par := h.MLDSAParams(name)
	c, z, hv, err := h.MLDSASigDecode(par, sig)
	if err != nil {
		z = []h.MLDSAPoly{}
	}
	w.Emit(vt.Ev{"ev": "sigdecode", "set": name, "in": vt.Hex(sig), "ok": err == nil, "c": vt.Hex(c), "z": z, "h": positionsOf(hv)})
}

func emitPKDecode(name string, pkB []byte) {
	par := h.MLDSAParams(name)
	pk, err := par.DecodePublicKey(pkB)
	if err != nil {
		return
	}
	rho, t1, tr := h.MLDSAPublicKeyParts(pk)
	w.Emit(vt.Ev{"ev": "pkdecode", "set": name, "in": vt.Hex(pkB), "rho": vt.Hex(rho[:]), "t1": t1, "tr": vt.Hex(tr[:]), "re": vt.Hex(pk.Encode())})
}

func emitSKDecode(name string, skB []byte) {
	par := h.MLDSAParams(name)
	sk, err := par.DecodeSecretKey(skB)
	if err != nil {
		return
	}
	rho, kK, tr, s1, s2, t0 := h.MLDSASecretKeyParts(sk)
	w.Emit(vt.Ev{"ev": "skdecode", "set": name, "in": vt.Hex(skB), "rho": vt.Hex(rho[:]), "K": vt.Hex(kK[:]), "tr": vt.Hex(tr[:]),
		"s1": s1, "s2": s2, "t0": t0, "re": vt.Hex(sk.Encode())})
}

// codecStage: the composite encodings of marshal.go (sigEncode/sigDecode, pk/sk decode and re-encode)
func codecStage(r *rand.Rand, full bool) {
	n := 4
	if full {
		n = 60
	}
	for _, name := range []string{"44", "65", "87"} {
		par := h.MLDSAParams(name)
		_, lambda, log2g1, _, k, l, _, omega, _, _ := h.MLDSAParamValues(par)
		g1 := int64(1) << uint(log2g1)
		for i := 0; i < n; i++ {
			c := vt.Bytes(r, lambda/4)
			z := make([]h.MLDSAPoly, l)
			for a := range z {
				for j := range z[a] {
					v := r.Int63n(2*g1) - g1 + 1 // -gamma1+1 .. gamma1
					switch r.Intn(40) {
					case 0:
						v = g1
					case 1:
						v = -g1 + 1
					}
					if v < 0 {
						v += q
					}
					z[a][j] = uint32(v)
				}
			}
			hv := randomHint(r, k, r.Intn(omega+1))
			sig := h.MLDSASigEncode(par, c, z, hv)
			w.Emit(vt.Ev{"ev": "sigencode", "set": name, "c": vt.Hex(c), "z": signedVec(z), "h": positionsOf(hv), "out": vt.Hex(sig)})
			emitSigDecode(name, sig)
			b := append([]byte{}, sig...)
			b[r.Intn(len(b))] ^= 1 << uint(r.Intn(8))
			emitSigDecode(name, b)
			emitSigDecode(name, vt.Bytes(r, len(sig)))
			// keys: arbitrary bytes of the right length decode (every bit pattern is a valid t1 / s / t0 encoding
			// for the decoder) and must re-encode to themselves where the standard's ranges are respected
			emitPKDecode(name, vt.Bytes(r, par.PublicKeyLength()))
			var seed [32]byte
			r.Read(seed[:])
			pk, sk := h.MLDSAKeyGenInternal(par, seed)
			emitPKDecode(name, pk.Encode())
			emitSKDecode(name, sk.Encode())
		}
		ff := make([]byte, par.PublicKeyLength())
		for i := range ff {
			ff[i] = 0xff
		}
		emitPKDecode(name, ff)
	}
}

func randSmall(r *rand.Rand, bound int64) h.MLDSAPoly {
	var p h.MLDSAPoly
	for i := range p {
		v := r.Int63n(2*bound+1) - bound
		if v < 0 {
			v += q
		}
		p[i] = uint32(v)
	}
	return p
}

func packStage(r *rand.Rand, full bool) {
	n := 6
	if full {
		n = 60
	}
	// SimpleBitPack(w, b): t1 (b = 2^10-1), w1 (b = 43 for gamma2 = (q-1)/88, b = 15 for (q-1)/32)
	for _, b := range []uint32{1023, 43, 15} {
		bits := bitlen(b)
		var pats []h.MLDSAPoly
		pats = append(pats, constPoly(0), constPoly(b), constPoly(1))
		var ramp h.MLDSAPoly
		for i := range ramp {
			ramp[i] = uint32(i) % (b + 1)
		}
		pats = append(pats, ramp)
		for i := 0; i < 256; i++ {
			if full || i < 9 || i > 250 || r.Intn(32) == 0 {
				pats = append(pats, basis(i, b), basis(i, 1), basis(i, 1<<uint(bits-1)&b|1))
			}
		}
		for i := 0; i < n; i++ {
			var p h.MLDSAPoly
			for j := range p {
				p[j] = uint32(r.Int63n(int64(b) + 1))
			}
			pats = append(pats, p)
		}
		for _, p := range pats {
			p := p
			w.Emit(vt.Ev{"ev": "simplebitpack", "b": b, "in": p, "out": vt.Hex(h.MLDSASimpleBitPack(&p, bits))})
		}
		for _, enc := range byteInputs(r, 32*bits, n) {
			w.Emit(vt.Ev{"ev": "simplebitunpack", "b": b, "in": vt.Hex(enc), "out": h.MLDSASimpleBitUnpack(enc, bits)})
		}
	}
	// BitPack(w, a, b): s1/s2 (eta, eta), t0 (2^12-1, 2^12), z (gamma1-1, gamma1)
	for _, ab := range [][2]uint32{{2, 2}, {4, 4}, {1<<12 - 1, 1 << 12}, {1<<17 - 1, 1 << 17}, {1<<19 - 1, 1 << 19}} {
		a, b := ab[0], ab[1]
		bits := bitlen(a + b)
		var pats []h.MLDSAPoly
		pats = append(pats, constPoly(0), constPoly(b), constPoly((q-a)%q), constPoly(1), constPoly(q-1))
		for i := 0; i < 256; i++ {
			if full || i < 9 || i > 250 || r.Intn(32) == 0 {
				pats = append(pats, basis(i, b), basis(i, (q-a)%q))
			}
		}
		for i := 0; i < n; i++ {
			var p h.MLDSAPoly
			for j := range p {
				v := r.Int63n(int64(a)+int64(b)+1) - int64(a)
				if v < 0 {
					v += q
				}
				p[j] = uint32(v)
			}
			pats = append(pats, p)
		}
		for _, p := range pats {
			p := p
			w.Emit(vt.Ev{"ev": "bitpack", "a": a, "b": b, "in": signedOf(p), "out": vt.Hex(h.MLDSABitPack(&p, b, bits))})
		}
		for _, enc := range byteInputs(r, 32*bits, n) {
			w.Emit(vt.Ev{"ev": "bitunpack", "a": a, "b": b, "in": vt.Hex(enc), "out": h.MLDSABitUnpack(enc, b, bits)})
		}
	}
}

func byteInputs(r *rand.Rand, n, count int) [][]byte {
	var bs [][]byte
	bs = append(bs, make([]byte, n))
	ff := make([]byte, n)
	for i := range ff {
		ff[i] = 0xff
	}
	bs = append(bs, ff)
	for i := 0; i < count; i++ { // one bit set
		b := make([]byte, n)
		pos := r.Intn(8 * n)
		if i < 2 {
			pos = i * (8*n - 1)
		}
		b[pos/8] = 1 << uint(pos%8)
		bs = append(bs, b)
	}
	for i := 0; i < count; i++ {
		bs = append(bs, vt.Bytes(r, n))
	}
	return bs
}

func positions(p h.MLDSAPoly) []int {
	pos := []int{}
	for i, c := range p {
		if c != 0 {
			pos = append(pos, i)
		}
	}
	return pos
}

func randomHint(r *rand.Rand, k, total int) []h.MLDSAPoly {
	hv := make([]h.MLDSAPoly, k)
	for total > 0 {
		i, j := r.Intn(k), r.Intn(256)
		if r.Intn(3) == 0 {
			j = []int{0, 1, 254, 255}[r.Intn(4)]
		}
		if hv[i][j] == 0 {
			hv[i][j] = 1
			total--
		}
	}
	return hv
}

func hintStage(r *rand.Rand, full bool) {
	n := 10
	if full {
		n = 120
	}
	for _, name := range []string{"44", "65", "87"} {
		par := h.MLDSAParams(name)
		_, _, _, _, k, _, _, omega, _, _ := h.MLDSAParamValues(par)
		emitUnpack := func(enc []byte) {
			hv, err := h.MLDSAHintBitUnpack(par, enc)
			pos := [][]int{}
			for _, p := range hv {
				pos = append(pos, positions(p))
			}
			w.Emit(vt.Ev{"ev": "hintunpack", "set": name, "in": vt.Hex(enc), "ok": err == nil, "h": pos})
		}
		var valid [][]byte
		for i := 0; i < n; i++ {
			total := r.Intn(omega + 1)
			switch i {
			case 0:
				total = 0
			case 1, 2:
				total = omega
			case 3:
				total = omega - 1
			case 4:
				total = 1
			}
			hv := randomHint(r, k, total)
			if i == 5 { // all ones in the last polynomial
				hv = make([]h.MLDSAPoly, k)
				for j := 0; j < omega; j++ {
					hv[k-1][j] = 1
				}
			}
			if i == 6 { // all ones in the first polynomial, highest positions
				hv = make([]h.MLDSAPoly, k)
				for j := 0; j < omega; j++ {
					hv[0][255-j] = 1
				}
			}
			enc := h.MLDSAHintBitPack(par, hv)
			pos := [][]int{}
			for _, p := range hv {
				pos = append(pos, positions(p))
			}
			w.Emit(vt.Ev{"ev": "hintpack", "set": name, "h": pos, "out": vt.Hex(enc)})
			emitUnpack(enc)
			valid = append(valid, enc)
		}
		// malformed encodings derived from valid ones
		for _, v := range valid {
			mut := func(f func(b []byte) bool) {
				b := append([]byte{}, v...)
				if f(b) {
					emitUnpack(b)
				}
			}
			last := int(v[omega+k-1])
			mut(func(b []byte) bool { b[omega+k-1] = byte(omega + 1); return true })         // count omega+1
			mut(func(b []byte) bool { b[omega+k-1] = 255; return true })                     // count 255
			mut(func(b []byte) bool { b[omega+r.Intn(k)] = byte(r.Intn(256)); return true }) // arbitrary count byte
			mut(func(b []byte) bool { i := r.Intn(k); b[omega+i]++; return true })           // one count + 1
			mut(func(b []byte) bool {
				i := r.Intn(k)
				if b[omega+i] == 0 {
					return false
				}
				b[omega+i]--
				return true
			})
			mut(func(b []byte) bool {
				if last >= omega {
					return false
				}
				b[last+r.Intn(omega-last)] = byte(1 + r.Intn(255))
				return true
			}) // non-zero padding
			mut(func(b []byte) bool {
				if last >= omega {
					return false
				}
				b[omega-1] = 1
				return true
			})
			mut(func(b []byte) bool {
				if last < 2 {
					return false
				}
				i := r.Intn(last - 1)
				b[i], b[i+1] = b[i+1], b[i]
				return true
			}) // swap neighbours (unsorted unless across a boundary)
			mut(func(b []byte) bool {
				if last < 2 {
					return false
				}
				i := r.Intn(last - 1)
				b[i+1] = b[i]
				return true
			}) // duplicate index
			mut(func(b []byte) bool {
				if last < 1 {
					return false
				}
				b[r.Intn(last)] = byte(r.Intn(256))
				return true
			}) // arbitrary index byte
			mut(func(b []byte) bool { b[r.Intn(len(b))] ^= 1 << uint(r.Intn(8)); return true }) // bit flip
			mut(func(b []byte) bool {                                                           // decreasing counts
				i := r.Intn(k - 1)
				b[omega+i], b[omega+i+1] = b[omega+i+1], b[omega+i]
				return true
			})
		}
		for i := 0; i < n; i++ {
			emitUnpack(vt.Bytes(r, omega+k))
		}
		z := make([]byte, omega+k)
		emitUnpack(z)
		for i := range z {
			z[i] = 0xff
		}
		emitUnpack(z)
	}
}

// searchedSamplerInputs: inputs of every rejection sampler selected by their XOF consumption (minimum, typical,
// maximum found in a bounded seeded search; for eta = 4 inputs needing a third SHAKE256 block).
func searchedSamplerInputs(r *rand.Rand, full bool) {
	budget := 100000
	if full {
		budget = 1000000
	}
	for _, hh := range searchRho(r, 34, budget, 4, nttRejections) {
		var rho [34]byte
		copy(rho[:], hh.rho)
		bytes := 3 * (256 + hh.n)
		w.Emit(vt.Ev{"ev": "rejntt", "kind": "searched:" + hh.why, "rejections": hh.n, "blocks": blocksOf(bytes, 168), "rho": vt.Hex(rho[:]), "out": h.MLDSARejectNTTPoly(rho)})
	}
	for _, name := range []string{"44", "65", "87"} {
		p := getSet(name)
		for _, hh := range searchRho(r, p.lambda/4, budget, 4, func(b []byte) int { return ballRejections(b, p.tau) }) {
			w.Emit(vt.Ev{"ev": "sampleinball", "kind": "searched:" + hh.why, "rejections": hh.n, "blocks": blocksOf(8+p.tau+hh.n, 136), "tau": p.tau,
				"rho": vt.Hex(hh.rho), "out": h.MLDSASampleInBall(p.par, hh.rho)})
		}
		// RejBoundedPoly: direct candidates (min / typical / max) ...
		for _, hh := range searchRho(r, 66, budget, 4, func(b []byte) int { return boundedBytes(b, p.eta) }) {
			var rho [66]byte
			copy(rho[:], hh.rho)
			w.Emit(vt.Ev{"ev": "rejbounded", "kind": "searched:" + hh.why, "bytes": hh.n, "blocks": blocksOf(hh.n, 136), "eta": p.eta, "rho": vt.Hex(rho[:]),
				"out": h.MLDSARejectBoundedPoly(p.par, rho)})
		}
		// ... and the ExpandS inputs of the KeyGen seeds found by the seed search (the algorithm stage uses the same seeds)
		for _, hh := range searchedSeeds(p, full) {
			var rho [66]byte
			copy(rho[:], hh.rhop[:])
			rho[64] = byte(hh.idx)
			w.Emit(vt.Ev{"ev": "rejbounded", "kind": "searched-seed:" + hh.why, "bytes": hh.bytes, "blocks": blocksOf(hh.bytes, 136), "eta": p.eta, "rho": vt.Hex(rho[:]),
				"out": h.MLDSARejectBoundedPoly(p.par, rho)})
		}
	}
}

// searchedSeeds: KeyGen seeds whose ExpandS consumes an unusual number of XOF bytes (same list in both stages).
func searchedSeeds(p pset, full bool) []seedHit {
	budget, want := 400000, 3
	if full {
		budget, want = 2000000, 12
	}
	if p.eta == 2 { // two blocks always suffice: only min / max are of interest
		budget = 3000
	}
	return searchSeedsBounded(p, vt.Rng(int64(140+p.k)), budget, want, 2*136)
}

func sampleStage(r *rand.Rand, full bool) {
	searchedSamplerInputs(r, full)
	n := 12
	if full {
		n = 150
	}
	for i := 0; i < n; i++ {
		var rho [34]byte
		r.Read(rho[:])
		if i == 0 {
			rho = [34]byte{}
		}
		w.Emit(vt.Ev{"ev": "rejntt", "rho": vt.Hex(rho[:]), "out": h.MLDSARejectNTTPoly(rho)})
	}
	for _, name := range []string{"44", "65", "87"} {
		par := h.MLDSAParams(name)
		tau, lambda, _, _, _, l, eta, _, _, _ := h.MLDSAParamValues(par)
		for i := 0; i < n; i++ {
			var rho [66]byte
			r.Read(rho[:])
			if i == 0 {
				rho = [66]byte{}
			}
			w.Emit(vt.Ev{"ev": "rejbounded", "eta": eta, "rho": vt.Hex(rho[:]), "out": h.MLDSARejectBoundedPoly(par, rho)})
		}
		for i := 0; i < 2*n; i++ {
			rho := vt.Bytes(r, lambda/4)
			if i == 0 {
				rho = make([]byte, lambda/4)
			}
			w.Emit(vt.Ev{"ev": "sampleinball", "tau": tau, "rho": vt.Hex(rho), "out": h.MLDSASampleInBall(par, rho)})
		}
		for i := 0; i < n/2+1; i++ {
			var rho [64]byte
			r.Read(rho[:])
			mu := []int{0, l, 255, 256 - l + 1, 65535 - l, r.Intn(4000) * l}[i%6]
			w.Emit(vt.Ev{"ev": "expandmask", "set": name, "rho": vt.Hex(rho[:]), "mu": mu, "out": h.MLDSAExpandMask(par, rho, mu)})
		}
	}
}
