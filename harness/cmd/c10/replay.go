package main

import (
	"encoding/json"
	"fmt"
	"os"

	"verifharness/vt"

	"github.com/tink-crypto/tink-go/v2/key"
	"github.com/tink-crypto/tink-go/v2/signature"
	"github.com/tink-crypto/tink-go/v2/signature/compositemldsa"
	"github.com/tink-crypto/tink-go/v2/signature/ecdsa"
	"github.com/tink-crypto/tink-go/v2/signature/ed25519"
	"github.com/tink-crypto/tink-go/v2/signature/mldsa"
	"github.com/tink-crypto/tink-go/v2/signprehash"
	h "github.com/tink-crypto/tink-go/v2/testing/verifhooks"
)

// replay re-executes the single recorded call of a replay file against the current tree and writes
// the fresh event(s); the check then judges them with the same trace spec.
func replay(path string) {
	raw, err := os.ReadFile(path)
	if err != nil {
		vt.Fatal("read replay: %v", err)
	}
	var obj struct {
		Event map[string]any `json:"event"`
	}
	if err := json.Unmarshal(raw, &obj); err != nil || obj.Event == nil {
		vt.Fatal("bad replay file: %v", err)
	}
	e := obj.Event
	str := func(k string) string { s, _ := e[k].(string); return s }
	num := func(k string) uint32 { f, _ := e[k].(float64); return uint32(f) }
	hexf := func(k string) []byte { return vt.Unhex(str(k)) }
	poly := func(k string) h.MLDSAPoly {
		var p h.MLDSAPoly
		a, _ := e[k].([]any)
		for i := range p {
			if i < len(a) {
				f, _ := a[i].(float64)
				if f < 0 {
					f += q
				}
				p[i] = uint32(f)
			}
		}
		return p
	}
	out := &sink{}
	defer out.flush()
	if ml, ok := e["msgs"].([]any); ok && str("seed") != "" {
		// an event of the retained-outputs scenario: the behaviour depends on the whole call sequence, re-run it
		var id uint32
		fmt.Sscanf(str("id"), "%08x", &id)
		msgs := make([][]byte, len(ml))
		for i := range ml {
			x, _ := ml[i].(string)
			msgs[i] = vt.Unhex(x)
		}
		variant := str("keyVariant")
		if variant == "TINK" {
			fmt.Sscanf(str("keyID"), "%08x", &id)
		}
		pk := newPubKey(&sink{}, getSet(str("set")), hexf("seed"), variant, id)
		if pk == nil {
			vt.Fatal("replay: cannot rebuild the key")
		}
		pk.out = out
		if variant == "NO_PREFIX" {
			pk.retainedMsgs(msgs, nil, nil)
			return
		}
		ph, _ := pk.handle.Public()
		pre, err1 := signprehash.NewPrehash(ph)
		ps, err2 := signprehash.NewPrehashSigner(pk.handle)
		if err1 != nil || err2 != nil {
			vt.Fatal("replay: prehash primitives: %v %v", err1, err2)
		}
		pk.retainedMsgs(msgs, pre, ps)
		return
	}
	switch str("ev") {
	case "run":
		for _, u := range unaryTable(vt.Rng(10), true) {
			if u.name == str("fn") && u.g == num("g") {
				// rebuild the function for the recorded parameter p
				u = withParam(u, num("p"))
				xs := []uint32{}
				for x := num("lo"); x < num("lo")+num("n"); x++ {
					xs = append(xs, x)
				}
				emitRuns(u, xs)
				return
			}
		}
		vt.Fatal("replay: unknown function %q", str("fn"))
	case "bin":
		a := num("a")
		bl, _ := e["b"].([]any)
		B := make([]uint32, len(bl))
		outv := make([]uint32, len(bl))
		g := num("g")
		for i := range bl {
			f, _ := bl[i].(float64)
			B[i] = uint32(f)
			switch str("fn") {
			case "mul":
				outv[i] = h.MLDSAMul(a, B[i])
			case "add":
				outv[i] = h.MLDSAAdd(a, B[i])
			case "sub":
				outv[i] = h.MLDSASub(a, B[i])
			case "centeredMax":
				outv[i] = h.MLDSACenteredMax(a, B[i])
			case "makeHint":
				outv[i] = h.MLDSAMakeHint(a, g, B[i])
			case "useHint":
				outv[i] = h.MLDSAUseHint(B[i], g, a)
			default:
				vt.Fatal("replay: unknown binary function %q", str("fn"))
			}
		}
		w.Emit(vt.Ev{"ev": "bin", "fn": str("fn"), "g": g, "a": a, "b": B, "out": outv})
	case "ntt", "intt", "norm", "mulntt", "polyadd", "polysub":
		p, o := poly("in"), poly("in2")
		ne := vt.Ev{"ev": str("ev"), "in": p}
		switch str("ev") {
		case "ntt":
			ne["out"] = h.MLDSANTT(&p)
		case "intt":
			ne["out"] = h.MLDSAINTT(&p)
		case "norm":
			ne["out"] = h.MLDSAInfinityNorm(&p)
		case "mulntt":
			ne["in2"], ne["out"] = o, h.MLDSAMulNTT(&p, &o)
		case "polyadd":
			ne["in2"], ne["out"] = o, h.MLDSAPolyAdd(&p, &o)
		case "polysub":
			ne["in2"], ne["out"] = o, h.MLDSAPolySub(&p, &o)
		}
		w.Emit(ne)
	case "simplebitpack":
		p := poly("in")
		w.Emit(vt.Ev{"ev": "simplebitpack", "b": num("b"), "in": p, "out": vt.Hex(h.MLDSASimpleBitPack(&p, bitlen(num("b"))))})
	case "bitpack":
		p := poly("in")
		w.Emit(vt.Ev{"ev": "bitpack", "a": num("a"), "b": num("b"), "in": e["in"], "out": vt.Hex(h.MLDSABitPack(&p, num("b"), bitlen(num("a")+num("b"))))})
	case "simplebitunpack":
		w.Emit(vt.Ev{"ev": "simplebitunpack", "b": num("b"), "in": str("in"), "out": h.MLDSASimpleBitUnpack(hexf("in"), bitlen(num("b")))})
	case "bitunpack":
		w.Emit(vt.Ev{"ev": "bitunpack", "a": num("a"), "b": num("b"), "in": str("in"), "out": h.MLDSABitUnpack(hexf("in"), num("b"), bitlen(num("a")+num("b")))})
	case "hintunpack":
		par := h.MLDSAParams(str("set"))
		hv, err := h.MLDSAHintBitUnpack(par, hexf("in"))
		pos := [][]int{}
		for _, p := range hv {
			pos = append(pos, positions(p))
		}
		w.Emit(vt.Ev{"ev": "hintunpack", "set": str("set"), "in": str("in"), "ok": err == nil, "h": pos})
	case "hintpack":
		par := h.MLDSAParams(str("set"))
		hl, _ := e["h"].([]any)
		hv := make([]h.MLDSAPoly, len(hl))
		for i := range hl {
			pl, _ := hl[i].([]any)
			for _, x := range pl {
				f, _ := x.(float64)
				hv[i][int(f)] = 1
			}
		}
		w.Emit(vt.Ev{"ev": "hintpack", "set": str("set"), "h": e["h"], "out": vt.Hex(h.MLDSAHintBitPack(par, hv))})
	case "rejntt":
		var rho [34]byte
		copy(rho[:], hexf("rho"))
		w.Emit(vt.Ev{"ev": "rejntt", "rho": str("rho"), "out": h.MLDSARejectNTTPoly(rho)})
	case "rejbounded":
		var rho [66]byte
		copy(rho[:], hexf("rho"))
		name := "44"
		if num("eta") == 4 {
			name = "65"
		}
		w.Emit(vt.Ev{"ev": "rejbounded", "eta": num("eta"), "rho": str("rho"), "out": h.MLDSARejectBoundedPoly(h.MLDSAParams(name), rho)})
	case "sampleinball":
		name := map[uint32]string{39: "44", 49: "65", 60: "87"}[num("tau")]
		w.Emit(vt.Ev{"ev": "sampleinball", "tau": num("tau"), "rho": str("rho"), "out": h.MLDSASampleInBall(h.MLDSAParams(name), hexf("rho"))})
	case "expandmask":
		var rho [64]byte
		copy(rho[:], hexf("rho"))
		w.Emit(vt.Ev{"ev": "expandmask", "set": str("set"), "rho": str("rho"), "mu": num("mu"), "out": h.MLDSAExpandMask(h.MLDSAParams(str("set")), rho, int(num("mu")))})
	case "sigdecode":
		emitSigDecode(str("set"), hexf("in"))
	case "pkdecode":
		emitPKDecode(str("set"), hexf("in"))
	case "skdecode":
		emitSKDecode(str("set"), hexf("in"))
	case "sigencode":
		par := h.MLDSAParams(str("set"))
		vec := func(k string) []h.MLDSAPoly {
			a, _ := e[k].([]any)
			o := make([]h.MLDSAPoly, len(a))
			for i := range a {
				pl, _ := a[i].([]any)
				for j := range pl {
					f, _ := pl[j].(float64)
					if f < 0 {
						f += q
					}
					if j < 256 {
						o[i][j] = uint32(f)
					}
				}
			}
			return o
		}
		hl, _ := e["h"].([]any)
		hv := make([]h.MLDSAPoly, len(hl))
		for i := range hl {
			pl, _ := hl[i].([]any)
			for _, x := range pl {
				f, _ := x.(float64)
				hv[i][int(f)] = 1
			}
		}
		w.Emit(vt.Ev{"ev": "sigencode", "set": str("set"), "c": str("c"), "z": e["z"], "h": e["h"], "out": vt.Hex(h.MLDSASigEncode(par, hexf("c"), vec("z"), hv))})
	// ---------------------------------------------------------------- algorithm layer
	case "keygen":
		p := getSet(str("set"))
		if str("route") == "public" {
			newPubKey(out, p, hexf("seed"), "NO_PREFIX", 0)
			return
		}
		var seed [32]byte
		copy(seed[:], hexf("seed"))
		newKey(out, p, seed)
	case "sign", "signmu":
		p := getSet(str("set"))
		sk, err := p.par.DecodeSecretKey(hexf("sk"))
		if err != nil {
			vt.Fatal("replay: DecodeSecretKey: %v", err)
		}
		kc := &keyCtx{pset: p, out: out, sk: sk, skB: hexf("sk")}
		var rnd [32]byte
		copy(rnd[:], hexf("rnd"))
		if str("ev") == "sign" {
			kc.signEv(hexf("mp"), rnd, str("kind"))
			return
		}
		var mu [64]byte
		copy(mu[:], hexf("mu"))
		var sig, res []byte
		pan, hung := guarded(func() { res = h.MLDSASignInternalWithMu(sk, mu, rnd) })
		if !hung {
			sig = res
		}
		out.Emit(vt.Ev{"ev": "signmu", "set": p.name, "sk": str("sk"), "mu": str("mu"), "rnd": str("rnd"), "sig": vt.Hex(sig), "panic": pan, "hung": hung})
	case "verify":
		verifyWithPk(out, getSet(str("set")), hexf("pk"), hexf("mp"), hexf("sig"), str("kind"))
	case "verifymu":
		p := getSet(str("set"))
		pk, err := p.par.DecodePublicKey(hexf("pk"))
		if err != nil {
			vt.Fatal("replay: DecodePublicKey: %v", err)
		}
		var mu [64]byte
		copy(mu[:], hexf("mu"))
		var verr error
		pan, _ := vt.Try(func() { verr = pk.VerifyWithMu(mu, hexf("sig")) })
		out.Emit(vt.Ev{"ev": "verifymu", "set": p.name, "kind": str("kind"), "pk": str("pk"), "mu": str("mu"), "sig": str("sig"), "ok": verr == nil && !pan, "panic": pan})
	case "pverify", "prehash":
		p := getSet(str("set"))
		var id uint32
		fmt.Sscanf(str("id"), "%08x", &id)
		params, err := mldsa.NewParameters(instanceOf(p.name), variantOf(str("variant")))
		if err != nil {
			vt.Fatal("replay: %v", err)
		}
		pub, err := mldsa.NewPublicKey(hexf("pk"), id, params)
		if err != nil {
			vt.Fatal("replay: NewPublicKey: %v", err)
		}
		hd := handleOf(pub)
		pk := &pubKey{pset: p, out: out, variant: str("variant"), id: id, pkB: hexf("pk")}
		if str("ev") == "pverify" {
			if pk.verifier, err = signature.NewVerifier(hd); err != nil {
				vt.Fatal("replay: NewVerifier: %v", err)
			}
			pk.verify(hexf("sig"), hexf("msg"), str("kind"))
			return
		}
		pre, err := signprehash.NewPrehash(hd)
		if err != nil {
			vt.Fatal("replay: NewPrehash: %v", err)
		}
		var dig []byte
		pan, _ := vt.Try(func() { dig, err = pre.ComputePrehash(hexf("msg")) })
		ne := pk.ev("prehash")
		ne["msg"], ne["out"], ne["err"], ne["panic"] = str("msg"), vt.Hex(dig), err != nil, pan
		out.Emit(ne)
	case "signed":
		// a randomized signing call cannot be repeated bit for bit: re-sign the same message with the same seed
		// (recorded in the event) and let the reference verify the fresh signature
		p := getSet(str("set"))
		var id uint32
		fmt.Sscanf(str("id"), "%08x", &id)
		if str("seed") == "" {
			vt.Fatal("replay: signed event without seed")
		}
		variant := str("keyVariant")
		pk := newPubKey(&sink{}, p, hexf("seed"), variant, id)
		pk.out = out
		if str("kind") == "prehash" {
			ph, _ := pk.handle.Public()
			pre, err1 := signprehash.NewPrehash(ph)
			ps, err2 := signprehash.NewPrehashSigner(pk.handle)
			if err1 != nil || err2 != nil {
				vt.Fatal("replay: prehash primitives: %v %v", err1, err2)
			}
			dig, err := pre.ComputePrehash(hexf("msg"))
			if err != nil {
				vt.Fatal("replay: ComputePrehash: %v", err)
			}
			var s2, res []byte
			var rerr error
			pan, hung := guarded(func() { res, rerr = ps.SignPrehash(dig) })
			if !hung {
				s2, err = res, rerr
			}
			ne := pk.ev("signed")
			ne["variant"], ne["id"] = str("variant"), str("id")
			ne["kind"], ne["msg"], ne["sig"], ne["err"], ne["panic"], ne["hung"] = "prehash", str("msg"), vt.Hex(s2), err != nil, pan, hung
			out.Emit(ne)
			return
		}
		pk.sign(hexf("msg"), str("kind"))
	case "composite":
		var id uint32
		fmt.Sscanf(str("id"), "%08x", &id)
		ci, inst := compositemldsa.MLDSA65, str("inst")
		if inst == "87" {
			ci = compositemldsa.MLDSA87
		}
		cv := compositemldsa.VariantTink
		if str("variant") == "NO_PREFIX" {
			cv = compositemldsa.VariantNoPrefix
		}
		ca := map[string]compositemldsa.ClassicalAlgorithm{"Ed25519": compositemldsa.Ed25519, "ECDSA-P256": compositemldsa.ECDSAP256, "ECDSA-P384": compositemldsa.ECDSAP384}[str("alg")]
		params, err := compositemldsa.NewParameters(ca, ci, cv)
		if err != nil {
			vt.Fatal("replay: %v", err)
		}
		mlp, _ := mldsa.NewParameters(instanceOf(inst), mldsa.VariantNoPrefix)
		mlPub, err := mldsa.NewPublicKey(hexf("pkM"), 0, mlp)
		if err != nil {
			vt.Fatal("replay: %v", err)
		}
		var clPub key.Key
		switch str("alg") {
		case "Ed25519":
			edp, _ := ed25519.NewParameters(ed25519.VariantNoPrefix)
			clPub, err = ed25519.NewPublicKey(hexf("pkC"), 0, edp)
		case "ECDSA-P256":
			ep, _ := ecdsa.NewParameters(ecdsa.NistP256, ecdsa.SHA256, ecdsa.DER, ecdsa.VariantNoPrefix)
			clPub, err = ecdsa.NewPublicKey(hexf("pkC"), 0, ep)
		case "ECDSA-P384":
			ep, _ := ecdsa.NewParameters(ecdsa.NistP384, ecdsa.SHA384, ecdsa.DER, ecdsa.VariantNoPrefix)
			clPub, err = ecdsa.NewPublicKey(hexf("pkC"), 0, ep)
		}
		if err != nil {
			vt.Fatal("replay: classical public key: %v", err)
		}
		pub, err := compositemldsa.NewPublicKey(mlPub, clPub, id, params)
		if err != nil {
			vt.Fatal("replay: compositemldsa.NewPublicKey: %v", err)
		}
		verifier, err := signature.NewVerifier(handleOf(pub))
		if err != nil {
			vt.Fatal("replay: NewVerifier: %v", err)
		}
		var verr error
		pan, _ := vt.Try(func() { verr = verifier.Verify(hexf("sig"), hexf("msg")) })
		out.Emit(vt.Ev{"ev": "composite", "inst": inst, "alg": str("alg"), "variant": str("variant"), "id": str("id"), "kind": str("kind"),
			"pkM": str("pkM"), "pkC": str("pkC"), "msg": str("msg"), "sig": str("sig"), "ok": verr == nil && !pan, "panic": pan})
	default:
		vt.Fatal("replay: unsupported event %q", str("ev"))
	}
}

// withParam rebuilds a table entry of a parameterised unary function for another parameter value.
func withParam(u ufn, p uint32) ufn {
	g := u.g
	u.p = p
	switch u.name {
	case "useHint":
		u.f = one(func(x uint32) uint32 { return h.MLDSAUseHint(x, g, p) })
	case "makeHint":
		u.f = one(func(x uint32) uint32 { return h.MLDSAMakeHint(p, g, x) })
	case "addc":
		u.f = one(func(x uint32) uint32 { return h.MLDSAAdd(x, p) })
	case "subc":
		u.f = one(func(x uint32) uint32 { return h.MLDSASub(x, p) })
	case "csub":
		u.f = one(func(x uint32) uint32 { return h.MLDSASub(p, x) })
	case "mulc":
		u.f = one(func(x uint32) uint32 { return h.MLDSAMul(x, p) })
	}
	return u
}
