// x04: conformance driver for the growth check X04 (keyset.Handle API, Manager.AddKeyWithOpts,
// Manager.SetAnnotations, handle constructors of keyset / insecurecleartextkeyset / testkeyset).
// It executes operation histories on real objects -- plans derived from the TLC state graph of
// KeysetHandle.tla (-plan) or seeded random histories (-random) -- and records one event per call
// together with the FULL projection of every manager and of every live handle after the call.
// The driver compares nothing: TLC judges the trace (spec/trace/Trace_KeysetHandle.tla).
package main

import (
	"bytes"
	"encoding/json"
	"flag"
	"fmt"
	"math/rand"
	"os"
	"sort"
	"strings"

	"verifharness/vt"

	"github.com/tink-crypto/tink-go/v2/aead"
	"github.com/tink-crypto/tink-go/v2/aead/aesgcm"
	"github.com/tink-crypto/tink-go/v2/hybrid"
	"github.com/tink-crypto/tink-go/v2/hybrid/hpke"
	"github.com/tink-crypto/tink-go/v2/insecurecleartextkeyset"
	"github.com/tink-crypto/tink-go/v2/insecuresecretdataaccess"
	"github.com/tink-crypto/tink-go/v2/key"
	"github.com/tink-crypto/tink-go/v2/keyset"
	"github.com/tink-crypto/tink-go/v2/mac"
	"github.com/tink-crypto/tink-go/v2/mac/hmac"
	tinkpb "github.com/tink-crypto/tink-go/v2/proto/tink_go_proto"
	"github.com/tink-crypto/tink-go/v2/secretdata"
	"github.com/tink-crypto/tink-go/v2/signature"
	"github.com/tink-crypto/tink-go/v2/signature/ecdsa"
	"github.com/tink-crypto/tink-go/v2/signature/ed25519"
	"github.com/tink-crypto/tink-go/v2/testing/verifhooks"
	"github.com/tink-crypto/tink-go/v2/testkeyset"
	"github.com/tink-crypto/tink-go/v2/tink"
	"google.golang.org/protobuf/encoding/prototext"
	"google.golang.org/protobuf/proto"
)

const none = "none"
const nMgr = 3

var token = insecuresecretdataaccess.Token{}

type jEntry struct {
	ID      string `json:"id"`
	Status  string `json:"status"`
	Primary bool   `json:"primary"`
	Req     string `json:"req"`
	Mat     string `json:"mat"`
	URL     string `json:"url"`
	Raw     bool   `json:"raw"`
}
type jMgr struct {
	Entries []jEntry `json:"entries"`
	Unavail []string `json:"unavail"`
	Ann     string   `json:"ann"`
}
type jHandle struct {
	Entries []jEntry `json:"entries"`
	Ann     string   `json:"ann"`
}
type jInfoKey struct {
	ID     string `json:"id"`
	Status string `json:"status"`
	Raw    bool   `json:"raw"`
	URL    string `json:"url"`
}
type jInfo struct {
	Primary string     `json:"primary"`
	Keys    []jInfoKey `json:"keys"`
}

// plan steps, in model terms
type pOpt struct {
	O  string `json:"o"`
	S  string `json:"s"`
	ID int    `json:"id"`
}
type pStep struct {
	Op      string   `json:"op"`
	M       int      `json:"m"`
	ID      int      `json:"id"`
	WithReq bool     `json:"withReq"`
	Mat     string   `json:"mat"`
	Burn    []int    `json:"burn"`
	H       int      `json:"h"`
	I       int      `json:"i"`
	R       int      `json:"r"`
	Opts    []pOpt   `json:"opts"`
	A       string   `json:"a"`
	Anns    []string `json:"anns"`
	Ctor    string   `json:"ctor"`
	NilOp   string   `json:"nilop"`
}
type scenario struct {
	Steps []pStep `json:"steps"`
}

// real-valued option
type rOpt struct {
	O  string `json:"o"`
	S  string `json:"s"`
	ID string `json:"id"`
}

func status(s keyset.KeyStatus) string {
	switch s {
	case keyset.Enabled:
		return "ENABLED"
	case keyset.Disabled:
		return "DISABLED"
	case keyset.Destroyed:
		return "DESTROYED"
	}
	return "UNKNOWN"
}

func statusArg(s string) keyset.KeyStatus {
	switch s {
	case "ENABLED":
		return keyset.Enabled
	case "DISABLED":
		return keyset.Disabled
	case "DESTROYED":
		return keyset.Destroyed
	}
	return keyset.Unknown
}

func annString(m map[string]string) string {
	if m == nil {
		return "nil"
	}
	if len(m) == 0 {
		return "empty"
	}
	ks := make([]string, 0, len(m))
	for k := range m {
		ks = append(ks, k)
	}
	sort.Strings(ks)
	for i, k := range ks {
		ks[i] = k + "=" + m[k]
	}
	return strings.Join(ks, ";")
}

func annMap(a string) map[string]string {
	switch a {
	case "nil":
		return nil
	case "empty":
		return map[string]string{}
	}
	m := map[string]string{}
	for _, kv := range strings.Split(a, ";") {
		k, v, _ := strings.Cut(kv, "=")
		m[k] = v
	}
	return m
}

// ---- what a key looks like from outside (cached per key object; keys are immutable) ----------
type keyInfo struct {
	mat, url string
	raw      bool
}

var infoCache = map[key.Key]keyInfo{}

func infoOf(k key.Key) keyInfo {
	if ki, ok := infoCache[k]; ok {
		return ki
	}
	ki := keyInfo{mat: "?", url: "?"}
	if s, err := verifhooks.SerializeKey(k); err == nil {
		ki.url = s.KeyData.GetTypeUrl()
		ki.raw = s.OutputPrefixType == tinkpb.OutputPrefixType_RAW
		switch s.KeyData.GetKeyMaterialType() {
		case tinkpb.KeyData_SYMMETRIC:
			ki.mat = "SYMMETRIC"
		case tinkpb.KeyData_ASYMMETRIC_PRIVATE:
			ki.mat = "PRIVATE"
		case tinkpb.KeyData_ASYMMETRIC_PUBLIC:
			ki.mat = "PUBLIC"
		default:
			ki.mat = s.KeyData.GetKeyMaterialType().String()
		}
	}
	infoCache[k] = ki
	return ki
}

type world struct {
	w       *vt.Writer
	r       *rand.Rand
	mgrs    map[int]*keyset.Manager
	handles []*keyset.Handle
	script  []uint32
	draws   []uint32
	kek     tink.AEAD
}

func (w *world) draw(real uint32) uint32 {
	v := real
	if len(w.script) > 0 {
		v = w.script[0]
		w.script = w.script[1:]
	}
	w.draws = append(w.draws, v)
	return v
}

func (w *world) mgr(m int) *keyset.Manager {
	if w.mgrs[m] == nil {
		w.mgrs[m] = keyset.NewManager()
	}
	return w.mgrs[m]
}

func hexes(xs []uint32) []string {
	out := make([]string, len(xs))
	for i, x := range xs {
		out[i] = vt.ID4(x)
	}
	return out
}

func projMgr(km *keyset.Manager) jMgr {
	snap := km.VerifSnapshot()
	keys := km.VerifKeys()
	es := make([]jEntry, len(snap))
	for i, e := range snap {
		req := none
		if e.HasIDReq {
			req = vt.ID4(e.IDReq)
		}
		ki := infoOf(keys[i])
		es[i] = jEntry{vt.ID4(e.ID), status(e.Status), e.IsPrimary, req, ki.mat, ki.url, ki.raw}
	}
	un := km.VerifUnavailable()
	sort.Slice(un, func(i, j int) bool { return un[i] < un[j] })
	return jMgr{es, hexes(un), annString(km.VerifAnnotations())}
}

func projEntry(e *keyset.Entry) jEntry {
	k := e.Key()
	req := none
	if r, ok := k.IDRequirement(); ok {
		req = vt.ID4(r)
	}
	ki := infoOf(k)
	return jEntry{vt.ID4(e.KeyID()), status(e.KeyStatus()), e.IsPrimary(), req, ki.mat, ki.url, ki.raw}
}

func projHandle(h *keyset.Handle) jHandle {
	es := make([]jEntry, h.Len())
	for i := 0; i < h.Len(); i++ {
		e, err := h.Entry(i)
		if err != nil {
			// recorded, not judged here: the trace spec rejects the status (Entry(i) must succeed for 0 <= i < Len())
			es[i] = jEntry{ID: none, Status: "ENTRY-ERROR", Req: none, Mat: "?", URL: "?"}
			continue
		}
		es[i] = projEntry(e)
	}
	return jHandle{es, annString(h.VerifAnnotations())}
}

func projInfo(ki *tinkpb.KeysetInfo) jInfo {
	out := jInfo{Primary: vt.ID4(ki.GetPrimaryKeyId()), Keys: []jInfoKey{}}
	for _, k := range ki.GetKeyInfo() {
		out.Keys = append(out.Keys, jInfoKey{vt.ID4(k.GetKeyId()), k.GetStatus().String(), k.GetOutputPrefixType() == tinkpb.OutputPrefixType_RAW, k.GetTypeUrl()})
	}
	return out
}

func projKeyset(ks *tinkpb.Keyset) any {
	if ks == nil {
		return vt.Ev{"none": true}
	}
	out := jInfo{Primary: vt.ID4(ks.GetPrimaryKeyId()), Keys: []jInfoKey{}}
	for _, k := range ks.GetKey() {
		out.Keys = append(out.Keys, jInfoKey{vt.ID4(k.GetKeyId()), k.GetStatus().String(), k.GetOutputPrefixType() == tinkpb.OutputPrefixType_RAW, k.GetKeyData().GetTypeUrl()})
	}
	return out
}

var noOut = vt.Ev{"none": true}

// emit records the call and the projection of EVERYTHING that is alive.
func (w *world) emit(ev string, m int, extra vt.Ev, failed bool, panicked bool) {
	ms := make([]jMgr, nMgr)
	for i := 1; i <= nMgr; i++ {
		ms[i-1] = projMgr(w.mgr(i))
	}
	hs := make([]jHandle, len(w.handles))
	for i, h := range w.handles {
		hs[i] = projHandle(h)
	}
	e := vt.Ev{"ev": ev, "m": m, "err": failed, "panic": panicked, "ms": ms, "hs": hs}
	for k, v := range extra {
		e[k] = v
	}
	if _, ok := e["out"]; !ok {
		e["out"] = noOut
	}
	w.w.Emit(e)
}

// ---- real keys ---------------------------------------------------------------------------------

// newKey builds a real key of the given material kind, with ID requirement req (prefixed variant)
// or without (NO_PREFIX).
func (w *world) newKey(mat string, withReq bool, req uint32) key.Key {
	if !withReq {
		req = 0
	}
	must := func(k key.Key, err error) key.Key {
		if err != nil {
			vt.Fatal("newKey(%s): %v", mat, err)
		}
		return k
	}
	switch mat {
	case "SYMMETRIC":
		kb := secretdata.NewBytesFromData(vt.Bytes(w.r, 16), token)
		if w.r.Intn(2) == 0 {
			v := aesgcm.VariantNoPrefix
			if withReq {
				v = []aesgcm.Variant{aesgcm.VariantTink, aesgcm.VariantCrunchy}[w.r.Intn(2)]
			}
			// one key in four has a 16-byte IV: the proto format cannot represent it (C12 known finding: lossy round
			// trip), and a serializer that REFUSES such keys once made KeysetInfo()/String()/Handle() panic
			iv := 12
			if w.r.Intn(4) == 0 {
				iv = 16
			}
			p, err := aesgcm.NewParameters(aesgcm.ParametersOpts{KeySizeInBytes: 16, IVSizeInBytes: iv, TagSizeInBytes: 16, Variant: v})
			if err != nil {
				vt.Fatal("aesgcm params: %v", err)
			}
			k, err := aesgcm.NewKey(kb, req, p)
			return must(k, err)
		}
		v := hmac.VariantNoPrefix
		if withReq {
			v = []hmac.Variant{hmac.VariantTink, hmac.VariantCrunchy, hmac.VariantLegacy}[w.r.Intn(3)]
		}
		p, err := hmac.NewParameters(hmac.ParametersOpts{KeySizeInBytes: 16, TagSizeInBytes: 16, HashType: hmac.SHA256, Variant: v})
		if err != nil {
			vt.Fatal("hmac params: %v", err)
		}
		k, err := hmac.NewKey(kb, p, req)
		return must(k, err)
	case "PRIVATE", "PUBLIC":
		var priv interface {
			key.Key
			PublicKey() (key.Key, error)
		}
		switch w.r.Intn(3) {
		case 0:
			v := ed25519.VariantNoPrefix
			if withReq {
				v = []ed25519.Variant{ed25519.VariantTink, ed25519.VariantCrunchy, ed25519.VariantLegacy}[w.r.Intn(3)]
			}
			p, err := ed25519.NewParameters(v)
			if err != nil {
				vt.Fatal("ed25519 params: %v", err)
			}
			k, err := ed25519.NewPrivateKey(secretdata.NewBytesFromData(vt.Bytes(w.r, 32), token), req, p)
			must(k, err)
			priv = k
		case 1:
			v := ecdsa.VariantNoPrefix
			if withReq {
				v = []ecdsa.Variant{ecdsa.VariantTink, ecdsa.VariantCrunchy, ecdsa.VariantLegacy}[w.r.Intn(3)]
			}
			p, err := ecdsa.NewParameters(ecdsa.NistP256, ecdsa.SHA256, []ecdsa.SignatureEncoding{ecdsa.DER, ecdsa.IEEEP1363}[w.r.Intn(2)], v)
			if err != nil {
				vt.Fatal("ecdsa params: %v", err)
			}
			sc := vt.Bytes(w.r, 32)
			sc[0] &= 0x7f
			sc[31] |= 1
			k, err := ecdsa.NewPrivateKey(secretdata.NewBytesFromData(sc, token), req, p)
			must(k, err)
			priv = k
		default:
			v := hpke.VariantNoPrefix
			if withReq {
				v = []hpke.Variant{hpke.VariantTink, hpke.VariantCrunchy}[w.r.Intn(2)]
			}
			p, err := hpke.NewParameters(hpke.ParametersOpts{KEMID: hpke.DHKEM_X25519_HKDF_SHA256, KDFID: hpke.HKDFSHA256, AEADID: hpke.AES128GCM, Variant: v})
			if err != nil {
				vt.Fatal("hpke params: %v", err)
			}
			k, err := hpke.NewPrivateKey(secretdata.NewBytesFromData(vt.Bytes(w.r, 32), token), req, p)
			must(k, err)
			priv = k
		}
		if mat == "PRIVATE" {
			return priv
		}
		pub, err := priv.PublicKey()
		return must(pub, err)
	}
	vt.Fatal("unknown material kind %q", mat)
	return nil
}

// templates by (material kind, with ID requirement)
func (w *world) template(mat string, withReq bool) *tinkpb.KeyTemplate {
	var ts []func() *tinkpb.KeyTemplate
	switch {
	case mat == "SYMMETRIC" && withReq:
		ts = []func() *tinkpb.KeyTemplate{aead.AES128GCMKeyTemplate, mac.HMACSHA256Tag128KeyTemplate, aead.AES256GCMKeyTemplate}
	case mat == "SYMMETRIC":
		ts = []func() *tinkpb.KeyTemplate{aead.AES256GCMNoPrefixKeyTemplate, aead.AES128GCMKeyTemplate}
	case withReq:
		ts = []func() *tinkpb.KeyTemplate{signature.ED25519KeyTemplate, signature.ECDSAP256KeyTemplate, hybrid.DHKEM_X25519_HKDF_SHA256_HKDF_SHA256_AES_128_GCM_Key_Template}
	default:
		ts = []func() *tinkpb.KeyTemplate{signature.ED25519KeyWithoutPrefixTemplate, signature.ECDSAP256RawKeyTemplate, hybrid.DHKEM_X25519_HKDF_SHA256_HKDF_SHA256_AES_128_GCM_Raw_Key_Template}
	}
	t := ts[w.r.Intn(len(ts))]()
	if !withReq {
		t.OutputPrefixType = tinkpb.OutputPrefixType_RAW
	}
	return t
}

// ---- C11 operations (as in cmd/c11, with the kind of key material) ------------------------------

func (w *world) addRandom(m int, script []uint32, withReq bool, mat string) {
	km := w.mgr(m)
	w.script, w.draws = script, nil
	var id uint32
	var err error
	api := w.r.Intn(3)
	if withReq && api == 2 {
		api = w.r.Intn(2)
	}
	p, _ := vt.Try(func() {
		switch api {
		case 0:
			id, err = km.Add(w.template(mat, withReq))
		case 1:
			params, perr := verifhooks.ParseParameters(w.template(mat, withReq))
			if perr != nil {
				vt.Fatal("ParseParameters: %v", perr)
			}
			id, err = km.AddNewKeyFromParameters(params)
		default:
			id, err = km.AddKey(w.newKey(mat, false, 0))
		}
	})
	w.emit("AddRandom", m, vt.Ev{"id": vt.ID4(id), "withReq": withReq, "mat": mat, "draws": hexes(w.draws), "api": api}, err != nil, p)
	w.script = nil
}

func (w *world) addFail(m int, burn []uint32) {
	km := w.mgr(m)
	before := projMgr(km).Unavail
	w.script, w.draws = burn, nil
	var err error
	variant := w.r.Intn(3)
	p, _ := vt.Try(func() {
		if len(burn) > 0 {
			_, err = km.Add(&tinkpb.KeyTemplate{TypeUrl: "type.googleapis.com/verif.NoSuchKey", OutputPrefixType: tinkpb.OutputPrefixType_TINK})
			variant = 9
			return
		}
		switch variant {
		case 0:
			_, err = km.Add(nil)
		case 1:
			kt := aead.AES128GCMKeyTemplate()
			kt.OutputPrefixType = tinkpb.OutputPrefixType_UNKNOWN_PREFIX
			_, err = km.Add(kt)
		default:
			_, err = km.AddKey(nil)
		}
	})
	after := projMgr(km).Unavail
	gained := []string{}
	seen := map[string]bool{}
	for _, b := range before {
		seen[b] = true
	}
	for _, a := range after {
		if !seen[a] {
			gained = append(gained, a)
		}
	}
	w.emit("AddFail", m, vt.Ev{"burn": gained, "id": none, "api": variant}, err != nil, p)
	w.script = nil
}

func (w *world) addKeyReq(m int, r uint32, mat string) {
	var id uint32
	var err error
	k := w.newKey(mat, true, r)
	p, _ := vt.Try(func() { id, err = w.mgr(m).AddKey(k) })
	ev := vt.Ev{"id": vt.ID4(r), "mat": mat}
	if err == nil {
		ev["returned"] = vt.ID4(id)
	}
	w.emit("AddKeyReq", m, ev, err != nil, p)
}

func (w *world) idop(op string, m int, id uint32) {
	km := w.mgr(m)
	var err error
	p, _ := vt.Try(func() {
		switch op {
		case "SetPrimary":
			err = km.SetPrimary(id)
		case "Enable":
			err = km.Enable(id)
		case "Disable":
			err = km.Disable(id)
		case "Delete":
			err = km.Delete(id)
		default:
			vt.Fatal("unknown op %s", op)
		}
	})
	w.emit(op, m, vt.Ev{"id": vt.ID4(id)}, err != nil, p)
}

func (w *world) handle(m int) {
	var h *keyset.Handle
	var err error
	p, _ := vt.Try(func() { h, err = w.mgr(m).Handle() })
	if err == nil && !p {
		w.handles = append(w.handles, h)
	}
	w.emit("Handle", m, vt.Ev{"id": none}, err != nil, p)
}

func (w *world) fromHandle(m, h int) {
	p, _ := vt.Try(func() { w.mgrs[m] = keyset.NewManagerFromHandle(w.handles[h-1]) })
	w.emit("FromHandle", m, vt.Ev{"id": none, "h": h}, false, p)
}

// ---- the new manager operations --------------------------------------------------------------------

func (w *world) setAnnotations(m int, a string) {
	mp := annMap(a)
	var err error
	p, _ := vt.Try(func() { err = w.mgr(m).SetAnnotations(mp) })
	// the documentation promises a copy: the caller's later writes must not show
	if mp != nil {
		for k := range mp {
			mp[k] = "overwritten-by-caller"
		}
		mp["added-by-caller"] = "x"
	}
	w.emit("SetAnnotations", m, vt.Ev{"a": a}, err != nil, p)
}

func (w *world) setAnnotationsNilMgr(a string) {
	var km *keyset.Manager
	var err error
	p, _ := vt.Try(func() { err = km.SetAnnotations(annMap(a)) })
	w.emit("SetAnnotationsNilMgr", 1, vt.Ev{"a": a}, err != nil, p)
}

func (w *world) addOpts(m int, hasReq bool, r uint32, mat string, opts []rOpt, script []uint32, nilKey bool) {
	km := w.mgr(m)
	var k key.Key
	rs := none
	if !nilKey {
		k = w.newKey(mat, hasReq, r)
		if hasReq {
			rs = vt.ID4(r)
		}
	}
	var kos []keyset.KeyOpts
	for _, o := range opts {
		switch o.O {
		case "status":
			kos = append(kos, keyset.WithStatus(statusArg(o.S)))
		case "fixed":
			var id uint32
			fmt.Sscanf(o.ID, "%08x", &id)
			kos = append(kos, keyset.WithFixedID(id))
		case "primary":
			kos = append(kos, keyset.AsPrimary())
		default:
			vt.Fatal("unknown option %q", o.O)
		}
	}
	w.script, w.draws = script, nil
	var id uint32
	var err error
	p, _ := vt.Try(func() { id, err = verifhooks.ManagerAddKeyWithOpts(km, k, kos...) })
	ids := none
	if err == nil {
		ids = vt.ID4(id)
	}
	if opts == nil {
		opts = []rOpt{}
	}
	name := "AddOpts"
	if nilKey {
		name = "AddOptsNilKey"
	}
	w.emit(name, m, vt.Ev{"r": rs, "mat": mat, "opts": opts, "id": ids, "draws": hexes(w.draws)}, err != nil, p)
	w.script = nil
}

// ---- handle accessors ---------------------------------------------------------------------------------

func (w *world) hLen(h int) {
	var n int
	p, _ := vt.Try(func() { n = w.handles[h-1].Len() })
	w.emit("HLen", 1, vt.Ev{"h": h, "out": n}, false, p)
}

func (w *world) hEntry(h, i int) {
	var e *keyset.Entry
	var err error
	var out any = noOut
	p, _ := vt.Try(func() {
		e, err = w.handles[h-1].Entry(i)
		if err == nil {
			out = projEntry(e)
		}
	})
	w.emit("HEntry", 1, vt.Ev{"h": h, "i": i, "out": out}, err != nil, p)
}

func (w *world) hPrimary(h int) {
	var err error
	var out any = noOut
	p, _ := vt.Try(func() {
		var e *keyset.Entry
		e, err = w.handles[h-1].Primary()
		if err == nil {
			out = projEntry(e)
		}
	})
	w.emit("HPrimary", 1, vt.Ev{"h": h, "out": out}, err != nil, p)
}

func (w *world) hInfo(h int) {
	var out any = noOut
	p, _ := vt.Try(func() { out = projInfo(w.handles[h-1].KeysetInfo()) })
	w.emit("HInfo", 1, vt.Ev{"h": h, "out": out}, false, p)
}

func (w *world) hString(h int) {
	var out any = noOut
	failed := false
	p, _ := vt.Try(func() {
		s := w.handles[h-1].String()
		ki := &tinkpb.KeysetInfo{}
		if err := prototext.Unmarshal([]byte(s), ki); err != nil {
			failed = true
			return
		}
		out = projInfo(ki)
	})
	w.emit("HString", 1, vt.Ev{"h": h, "out": out}, failed, p)
}

func keysEqual(a, b *keyset.Handle, viaPublic bool) bool {
	if a.Len() != b.Len() {
		return false
	}
	for i := 0; i < a.Len(); i++ {
		ea, err1 := a.Entry(i)
		eb, err2 := b.Entry(i)
		if err1 != nil || err2 != nil {
			return false
		}
		ka := ea.Key()
		if g, ok := ka.(*aesgcm.Key); ok && g.Parameters().(*aesgcm.Parameters).IVSizeInBytes() != 12 {
			continue // not representable in the proto format (C12 known finding): equality after a round trip is not expected
		}
		if viaPublic {
			pk, ok := ka.(interface{ PublicKey() (key.Key, error) })
			if !ok {
				return false
			}
			var err error
			if ka, err = pk.PublicKey(); err != nil {
				return false
			}
		}
		if !ka.Equal(eb.Key()) {
			return false
		}
	}
	return true
}

func (w *world) hPublic(h int) {
	var ph *keyset.Handle
	var err error
	p, _ := vt.Try(func() { ph, err = w.handles[h-1].Public() })
	ev := vt.Ev{"h": h, "eq": false}
	if err == nil && !p {
		ev["eq"] = keysEqual(w.handles[h-1], ph, true)
		w.handles = append(w.handles, ph)
	}
	w.emit("HPublic", 1, ev, err != nil, p)
}

func (w *world) hNil(op string) {
	var h *keyset.Handle
	var err error
	var out any = noOut
	p, _ := vt.Try(func() {
		switch op {
		case "Len":
			out = h.Len()
		case "Entry":
			_, err = h.Entry(0)
		case "Primary":
			_, err = h.Primary()
		case "Public":
			_, err = h.Public()
		default:
			vt.Fatal("unknown nil op %q", op)
		}
	})
	w.emit("HNil", 1, vt.Ev{"op": op, "out": out}, err != nil, p)
}

// ---- constructors ---------------------------------------------------------------------------------------

func (w *world) newHandle(script []uint32, withReq bool, mat string) {
	t := w.template(mat, withReq)
	w.script, w.draws = append([]uint32(nil), script...), nil
	var h *keyset.Handle
	var err error
	p, _ := vt.Try(func() { h, err = keyset.NewHandle(proto.Clone(t).(*tinkpb.KeyTemplate)) })
	draws := hexes(w.draws)
	ev := vt.Ev{"withReq": withReq, "mat": mat, "id": none, "draws": draws, "alt": noOut}
	if err == nil && !p {
		if e, eerr := h.Entry(0); eerr == nil {
			ev["id"] = vt.ID4(e.KeyID())
		}
		w.handles = append(w.handles, h)
	}
	// the documented equivalent, executed on its own manager with the same draws
	w.script, w.draws = append([]uint32(nil), script...), nil
	vt.Try(func() {
		km := keyset.NewManager()
		id, aerr := km.Add(proto.Clone(t).(*tinkpb.KeyTemplate))
		if aerr != nil {
			return
		}
		if km.SetPrimary(id) != nil {
			return
		}
		if h2, herr := km.Handle(); herr == nil {
			ev["alt"] = projHandle(h2)
		}
	})
	w.script = nil
	w.emit("NewHandle", 1, ev, err != nil, p)
}

func (w *world) newHandleFail() {
	var err error
	variant := w.r.Intn(3)
	p, _ := vt.Try(func() {
		switch variant {
		case 0:
			_, err = keyset.NewHandle(nil)
		case 1:
			kt := aead.AES128GCMKeyTemplate()
			kt.OutputPrefixType = tinkpb.OutputPrefixType_UNKNOWN_PREFIX
			_, err = keyset.NewHandle(kt)
		default:
			_, err = keyset.NewHandle(&tinkpb.KeyTemplate{TypeUrl: "type.googleapis.com/verif.NoSuchKey", OutputPrefixType: tinkpb.OutputPrefixType_TINK})
		}
	})
	w.emit("NewHandleFail", 1, vt.Ev{"api": variant}, err != nil, p)
}

func reader(format int, b []byte) keyset.Reader {
	if format == 0 {
		return keyset.NewBinaryReader(bytes.NewReader(b))
	}
	return keyset.NewJSONReader(bytes.NewReader(b))
}

func writer(format int, b *bytes.Buffer) keyset.Writer {
	if format == 0 {
		return keyset.NewBinaryWriter(b)
	}
	return keyset.NewJSONWriter(b)
}

func (w *world) importHandle(h int, ctor string) {
	src := w.handles[h-1]
	var m1, m2 *tinkpb.Keyset
	var nh *keyset.Handle
	var err error
	format := w.r.Intn(2)
	p, _ := vt.Try(func() {
		m1 = insecurecleartextkeyset.KeysetMaterial(src)
		m2 = testkeyset.KeysetMaterial(src)
		switch ctor {
		case "noSecrets":
			nh, err = keyset.NewHandleWithNoSecrets(proto.Clone(m1).(*tinkpb.Keyset))
		case "ictKeysetHandle":
			if nh = insecurecleartextkeyset.KeysetHandle(proto.Clone(m1).(*tinkpb.Keyset)); nh == nil {
				err = fmt.Errorf("nil handle")
			}
		case "ictRead":
			buf := &bytes.Buffer{}
			if err = insecurecleartextkeyset.Write(src, writer(format, buf)); err == nil {
				nh, err = insecurecleartextkeyset.Read(reader(format, buf.Bytes()))
			}
		case "tkNewHandle":
			nh, err = testkeyset.NewHandle(proto.Clone(m2).(*tinkpb.Keyset))
		case "tkKeysetHandle":
			if nh = testkeyset.KeysetHandle(proto.Clone(m2).(*tinkpb.Keyset)); nh == nil {
				err = fmt.Errorf("nil handle")
			}
		case "tkRead":
			buf := &bytes.Buffer{}
			if err = testkeyset.Write(src, writer(format, buf)); err == nil {
				nh, err = testkeyset.Read(reader(format, buf.Bytes()))
			}
		case "encrypted":
			buf := &bytes.Buffer{}
			ad := vt.Bytes(w.r, w.r.Intn(3)*4)
			if err = src.WriteWithAssociatedData(writer(format, buf), w.kek, ad); err == nil {
				nh, err = keyset.ReadWithAssociatedData(reader(format, buf.Bytes()), w.kek, ad)
			}
		default:
			vt.Fatal("unknown constructor %q", ctor)
		}
	})
	ev := vt.Ev{"h": h, "ctor": ctor, "format": format, "eq": false, "m1": projKeyset(m1), "m2": projKeyset(m2), "same": m1 != nil && m2 != nil && proto.Equal(m1, m2)}
	if err == nil && !p && nh != nil {
		ev["eq"] = keysEqual(src, nh, false)
		w.handles = append(w.handles, nh)
	}
	w.emit("Import", 1, ev, err != nil, p)
}

func (w *world) importAnn(h int, anns []string) {
	src := w.handles[h-1]
	var nh *keyset.Handle
	var err error
	p, _ := vt.Try(func() {
		buf := &bytes.Buffer{}
		if err = insecurecleartextkeyset.Write(src, keyset.NewBinaryWriter(buf)); err != nil {
			return
		}
		var opts []keyset.Option
		for _, a := range anns {
			opts = append(opts, keyset.WithAnnotations(annMap(a)))
		}
		nh, err = insecurecleartextkeyset.Read(keyset.NewBinaryReader(bytes.NewReader(buf.Bytes())), opts...)
	})
	if anns == nil {
		anns = []string{}
	}
	ev := vt.Ev{"h": h, "anns": anns, "eq": false}
	if err == nil && !p && nh != nil {
		ev["eq"] = keysEqual(src, nh, false)
		w.handles = append(w.handles, nh)
	}
	w.emit("ImportAnn", 1, ev, err != nil, p)
}

func (w *world) reset() {
	w.mgrs = map[int]*keyset.Manager{}
	w.handles = nil
	infoCache = map[key.Key]keyInfo{}
	w.w.Emit(vt.Ev{"ev": "reset"})
}

// ---- plan mode -------------------------------------------------------------------------------------------

var realIDs = []uint32{0, 0xffffffff, 0x01020304, 0x80000000, 0x7fffffff, 1}

func runPlan(w *world, path string) {
	f, err := os.Open(path)
	if err != nil {
		vt.Fatal("open plan: %v", err)
	}
	dec := json.NewDecoder(f)
	k := 0
	for dec.More() {
		var sc scenario
		if err := dec.Decode(&sc); err != nil {
			vt.Fatal("decode plan: %v", err)
		}
		k++
		rot := (k + int(vt.Seed())) % len(realIDs)
		rid := func(m int) uint32 { return realIDs[(m-1+rot)%len(realIDs)] }
		w.reset()
		for _, s := range sc.Steps {
			if s.H > len(w.handles) {
				// an earlier call that the plan expected to produce a handle did not (the trace spec has rejected that
				// call); the rest of the scenario cannot be executed. Recorded, so that it can never pass silently.
				w.emit("Abandoned", 1, vt.Ev{"step": s.Op, "h": s.H}, false, false)
				break
			}
			// script: some of the currently unavailable ids first (exercises the redraw loop), then the target
			scriptFor := func(m int, target uint32) []uint32 {
				var script []uint32
				if m > 0 {
					for _, u := range w.mgr(m).VerifUnavailable() {
						if w.r.Intn(2) == 0 {
							script = append(script, u)
						}
					}
				}
				return append(script, target)
			}
			switch s.Op {
			case "AddRandom":
				w.addRandom(s.M, scriptFor(s.M, rid(s.ID)), s.WithReq, s.Mat)
			case "AddFail":
				var burn []uint32
				for _, b := range s.Burn {
					burn = append(burn, rid(b))
				}
				w.addFail(s.M, burn)
			case "AddKeyReq":
				w.addKeyReq(s.M, rid(s.ID), s.Mat)
			case "SetPrimary", "Enable", "Disable", "Delete":
				w.idop(s.Op, s.M, rid(s.ID))
			case "Handle":
				w.handle(s.M)
			case "FromHandle":
				w.fromHandle(s.M, s.H)
			case "SetAnnotations":
				w.setAnnotations(s.M, s.A)
			case "SetAnnotationsNilMgr":
				w.setAnnotationsNilMgr(s.A)
			case "AddOptsRefused", "AddOptsCollision", "AddOptsCollisionClearsPrimary", "AddOptsOk":
				var opts []rOpt
				for _, o := range s.Opts {
					ro := rOpt{O: o.O, S: o.S, ID: none}
					if o.O == "fixed" {
						ro.ID = vt.ID4(rid(o.ID))
					}
					opts = append(opts, ro)
				}
				var r uint32
				if s.R != 0 {
					r = rid(s.R)
				}
				var script []uint32
				if s.Op == "AddOptsOk" {
					script = scriptFor(s.M, rid(s.ID)) // used only when the id is random
				}
				w.addOpts(s.M, s.R != 0, r, s.Mat, opts, script, false)
			case "AddOptsNilKey":
				var opts []rOpt
				for _, o := range s.Opts {
					ro := rOpt{O: o.O, S: o.S, ID: none}
					if o.O == "fixed" {
						ro.ID = vt.ID4(rid(o.ID))
					}
					opts = append(opts, ro)
				}
				w.addOpts(s.M, false, 0, "SYMMETRIC", opts, nil, true)
			case "HLen":
				w.hLen(s.H)
			case "HEntry":
				w.hEntry(s.H, s.I)
			case "HPrimary":
				w.hPrimary(s.H)
			case "HInfo":
				w.hInfo(s.H)
			case "HString":
				w.hString(s.H)
			case "HPublic":
				w.hPublic(s.H)
			case "HNil":
				w.hNil(s.NilOp)
			case "NewHandle":
				w.newHandle([]uint32{rid(s.ID)}, s.WithReq, s.Mat)
			case "NewHandleFail":
				w.newHandleFail()
			case "Import":
				w.importHandle(s.H, s.Ctor)
			case "ImportAnn":
				w.importAnn(s.H, s.Anns)
			default:
				vt.Fatal("plan: unknown op %q", s.Op)
			}
		}
	}
}

// ---- random mode -----------------------------------------------------------------------------------------

var annPool = []string{"nil", "empty", "k=a", "k=b", "k=a;z=9", "team=x"}
var ctors = []string{"noSecrets", "ictKeysetHandle", "ictRead", "tkNewHandle", "tkKeysetHandle", "tkRead", "encrypted"}
var mats = []string{"SYMMETRIC", "PRIVATE", "PUBLIC"}

func runRandom(w *world, traces int) {
	for t := 0; t < traces; t++ {
		pool := []uint32{0, 0xffffffff}
		for len(pool) < 4+w.r.Intn(7) {
			pool = append(pool, []uint32{w.r.Uint32(), uint32(w.r.Intn(4)), 0x80000000 + uint32(w.r.Intn(2)), 0x7fffffff}[w.r.Intn(4)])
		}
		pick := func() uint32 { return pool[w.r.Intn(len(pool))] }
		w.reset()
		nm := 1 + w.r.Intn(nMgr)
		steps := 40 + w.r.Intn(81)
		// a history is biased towards one kind of material so that all-private keysets (Public()) and
		// all-public keysets (no-secrets import) occur, and mixes kinds otherwise
		bias := []string{"", "PRIVATE", "PRIVATE", "SYMMETRIC", "PUBLIC"}[w.r.Intn(5)]
		pickMat := func(allowPublic bool) string {
			m := bias
			if m == "" || w.r.Intn(6) == 0 {
				m = mats[w.r.Intn(3)]
			}
			if m == "PUBLIC" && !allowPublic {
				m = "PRIVATE"
			}
			return m
		}
		script := func(km *keyset.Manager) []uint32 {
			var sc []uint32
			un := map[uint32]bool{}
			for _, u := range km.VerifUnavailable() {
				un[u] = true
			}
			for i := 0; i < 4; i++ {
				c := pick()
				sc = append(sc, c)
				if !un[c] {
					break
				}
			}
			if un[sc[len(sc)-1]] {
				sc = sc[:len(sc)-1]
			}
			return sc
		}
		for s := 0; s < steps; s++ {
			m := 1 + w.r.Intn(nm)
			km := w.mgr(m)
			id := pick()
			if snap := km.VerifSnapshot(); len(snap) > 0 && w.r.Intn(2) == 0 {
				id = snap[w.r.Intn(len(snap))].ID
			}
			h := 0
			if len(w.handles) > 0 {
				h = 1 + w.r.Intn(len(w.handles))
			}
			room := len(w.handles) < 6
			switch op := w.r.Intn(40); {
			case op < 3:
				w.addRandom(m, script(km), w.r.Intn(3) != 0, pickMat(false))
			case op < 4:
				var burn []uint32
				if w.r.Intn(2) == 0 {
					c := pick()
					free := true
					for _, u := range km.VerifUnavailable() {
						if u == c {
							free = false
						}
					}
					if free {
						burn = []uint32{c}
					}
				}
				w.addFail(m, burn)
			case op < 6:
				w.addKeyReq(m, id, pickMat(true))
			case op < 9:
				w.idop("SetPrimary", m, id)
			case op < 10:
				w.idop("Enable", m, id)
			case op < 12:
				w.idop("Disable", m, id)
			case op < 14:
				w.idop("Delete", m, id)
			case op < 17:
				if room {
					w.handle(m)
				} else {
					w.idop("SetPrimary", m, id)
				}
			case op < 18:
				if h > 0 {
					w.fromHandle(m, h)
				}
			case op < 19:
				if w.r.Intn(6) == 0 {
					w.setAnnotationsNilMgr(annPool[w.r.Intn(len(annPool))])
				} else {
					w.setAnnotations(m, annPool[w.r.Intn(len(annPool))])
				}
			case op < 27:
				// AddKeyWithOpts: 0..4 options in random order
				var opts []rOpt
				for n := w.r.Intn(5); n > 0; n-- {
					switch w.r.Intn(5) {
					case 0, 1:
						opts = append(opts, rOpt{O: "status", S: []string{"ENABLED", "ENABLED", "DISABLED", "DESTROYED", "UNKNOWN"}[w.r.Intn(5)], ID: none})
					case 2, 3:
						opts = append(opts, rOpt{O: "fixed", S: "", ID: vt.ID4(id)})
						if w.r.Intn(4) == 0 {
							opts[len(opts)-1].ID = vt.ID4(pick())
						}
					default:
						opts = append(opts, rOpt{O: "primary", S: "", ID: none})
					}
				}
				hasReq := w.r.Intn(2) == 0
				r := id
				if w.r.Intn(4) == 0 {
					r = pick()
				}
				w.addOpts(m, hasReq, r, pickMat(true), opts, script(km), w.r.Intn(40) == 0)
			case op < 28:
				if h > 0 {
					w.hLen(h)
				}
			case op < 30:
				if h > 0 {
					w.hEntry(h, w.r.Intn(w.handles[h-1].Len()+3)-1)
				}
			case op < 31:
				if h > 0 {
					w.hPrimary(h)
				}
			case op < 32:
				if h > 0 {
					w.hInfo(h)
				}
			case op < 33:
				if h > 0 {
					w.hString(h)
				}
			case op < 35:
				if h > 0 && room {
					w.hPublic(h)
				}
			case op < 36:
				if w.r.Intn(3) == 0 {
					w.hNil([]string{"Len", "Entry", "Primary", "Public"}[w.r.Intn(4)])
				} else if w.r.Intn(4) == 0 {
					w.newHandleFail()
				} else if room {
					w.newHandle([]uint32{pick()}, w.r.Intn(3) != 0, pickMat(false))
				}
			case op < 39:
				if h > 0 && room {
					w.importHandle(h, ctors[w.r.Intn(len(ctors))])
				}
			default:
				if h > 0 && room {
					var anns []string
					for n := w.r.Intn(3); n > 0; n-- {
						anns = append(anns, annPool[w.r.Intn(len(annPool))])
					}
					w.importAnn(h, anns)
				}
			}
		}
	}
}

func main() {
	out := flag.String("out", "", "trace file")
	plan := flag.String("plan", "", "plan file (ndjson scenarios in model terms)")
	random := flag.Int("random", 0, "number of random histories")
	flag.Parse()
	if *out == "" {
		vt.Fatal("usage: x04 -out trace.ndjson (-plan p.ndjson | -random N)")
	}
	w := &world{w: vt.NewWriter(*out), r: vt.Rng(104)}
	defer w.w.Close()
	keyset.VerifDraw = w.draw
	// the key-encryption AEAD of the "encrypted" constructor (built without keyset.NewHandle, which is under test)
	kp, err := aesgcm.NewParameters(aesgcm.ParametersOpts{KeySizeInBytes: 16, IVSizeInBytes: 12, TagSizeInBytes: 16, Variant: aesgcm.VariantNoPrefix})
	if err != nil {
		vt.Fatal("kek params: %v", err)
	}
	kk, err := aesgcm.NewKey(secretdata.NewBytesFromData(vt.Bytes(w.r, 16), token), 0, kp)
	if err != nil {
		vt.Fatal("kek key: %v", err)
	}
	if w.kek, err = aesgcm.NewAEAD(kk); err != nil {
		vt.Fatal("kek: %v", err)
	}
	if *plan != "" {
		runPlan(w, *plan)
	}
	if *random > 0 {
		runRandom(w, *random)
	}
	fmt.Printf("events=%d\n", w.w.Count())
}
