package main

import (
	"os"

	"verifharness/vt"
)

func readAll(path string) []byte {
	b, err := os.ReadFile(path)
	if err != nil {
		vt.Fatal("read %s: %v", path, err)
	}
	return b
}
