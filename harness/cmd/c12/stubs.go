package main

import (
	"os"

	"verifharness/vt"
)

func readAll(path string) []byte {
	b, err := os.ReadFile(path)
	if err != nil {
		vt.Fatal("read %s: %v", path, err)
	}
	return b
}

func runIO(w *vt.Writer, replay string)  { vt.Fatal("mode io not built yet") }
func runSec(w *vt.Writer, replay string) { vt.Fatal("mode sec not built yet") }
