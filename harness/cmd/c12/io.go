package main

import (
	"bytes"
	"encoding/base64"
	"encoding/hex"
	"encoding/json"
	"fmt"
	"math/rand"
	"regexp"
	"sort"
	"strconv"
	"strings"
	"unicode/utf8"

	"verifharness/vt"

	"github.com/tink-crypto/tink-go/v2/aead"
	"github.com/tink-crypto/tink-go/v2/daead"
	"github.com/tink-crypto/tink-go/v2/hybrid"
	"github.com/tink-crypto/tink-go/v2/insecurecleartextkeyset"
	"github.com/tink-crypto/tink-go/v2/key"
	"github.com/tink-crypto/tink-go/v2/keyset"
	"github.com/tink-crypto/tink-go/v2/mac"
	"github.com/tink-crypto/tink-go/v2/prf"
	tinkpb "github.com/tink-crypto/tink-go/v2/proto/tink_go_proto"
	"github.com/tink-crypto/tink-go/v2/signature"
	"github.com/tink-crypto/tink-go/v2/testing/verifhooks"
	"github.com/tink-crypto/tink-go/v2/tink"
	"google.golang.org/protobuf/encoding/prototext"
	"google.golang.org/protobuf/proto"
	"google.golang.org/protobuf/reflect/protoreflect"
)

type planKey struct {
	Name    string `json:"name"`
	ID      string `json:"id"`
	Status  string `json:"status"`
	Primary bool   `json:"primary"`
}
type planHandle struct {
	Keys []planKey `json:"keys"`
}

type mode struct {
	F   string `json:"f"`   // binary | json
	M   string `json:"m"`   // cleartext | noSecrets | encrypted
	Kek int    `json:"kek"` // 0 when not encrypted
	Ad  string `json:"ad"`  // "" when not encrypted; nil | empty | a
}

func allModes() []mode {
	var out []mode
	for _, f := range []string{"binary", "json"} {
		out = append(out, mode{f, "cleartext", 0, ""}, mode{f, "noSecrets", 0, ""})
		for _, k := range []int{1, 2} {
			for _, ad := range []string{"nil", "empty", "a"} {
				out = append(out, mode{f, "encrypted", k, ad})
			}
		}
	}
	return out
}

var keks map[int]tink.AEAD

func initKeks() {
	keks = map[int]tink.AEAD{}
	for i := 1; i <= 2; i++ {
		bk, err := buildCatalogKey("aesgcm256_raw", 0, vt.Rng(int64(9000+i)))
		if err != nil {
			vt.Fatal("kek: %v", err)
		}
		m := keyset.NewManager()
		id, err := m.AddKey(bk.key)
		if err != nil {
			vt.Fatal("kek: %v", err)
		}
		m.SetPrimary(id)
		h, err := m.Handle()
		if err != nil {
			vt.Fatal("kek: %v", err)
		}
		a, err := aead.New(h)
		if err != nil {
			vt.Fatal("kek: %v", err)
		}
		keks[i] = a
	}
}

func adBytes(ad string) []byte {
	switch ad {
	case "empty":
		return []byte{}
	case "a":
		return []byte("associated data a")
	}
	return nil
}

func statusOf(s string) (keyset.KeyStatus, tinkpb.KeyStatusType) {
	switch s {
	case "ENABLED":
		return keyset.Enabled, tinkpb.KeyStatusType_ENABLED
	case "DISABLED":
		return keyset.Disabled, tinkpb.KeyStatusType_DISABLED
	case "DESTROYED":
		return keyset.Destroyed, tinkpb.KeyStatusType_DESTROYED
	}
	vt.Fatal("plan: status %q", s)
	return keyset.Unknown, 0
}

func parseID(s string) uint32 {
	b := vt.Unhex(s)
	if len(b) != 4 {
		vt.Fatal("plan: id %q", s)
	}
	return uint32(b[0])<<24 | uint32(b[1])<<16 | uint32(b[2])<<8 | uint32(b[3])
}

// world of one handle
type hw struct {
	plan   planHandle
	keys   []*builtKey
	h      *keyset.Handle
	ks     *tinkpb.Keyset // the proto keyset the plan describes (built by the driver from the serialized keys)
	route  string
	secret [][]byte
}

// buildHandle makes the handle the plan describes: through keyset.Manager when every key is a real key object,
// through a proto keyset + insecurecleartextkeyset.Read otherwise (REMOTE / UNKNOWN key data).
func buildHandle(n int, ph planHandle) (*hw, error) {
	w := &hw{plan: ph}
	r := vt.Rng(int64(100000 + n))
	nprim := 0
	allReal := true
	for _, pk := range ph.Keys {
		bk, err := buildCatalogKey(pk.Name, parseID(pk.ID), r)
		if err != nil {
			return nil, err
		}
		w.keys = append(w.keys, bk)
		w.secret = append(w.secret, bk.secrets...)
		if bk.key == nil {
			allReal = false
		}
		if pk.Primary {
			nprim++
		}
	}
	if nprim != 1 {
		vt.Fatal("plan handle %d has %d primaries", n, nprim)
	}
	w.ks = &tinkpb.Keyset{}
	for i, pk := range ph.Keys {
		_, st := statusOf(pk.Status)
		w.ks.Key = append(w.ks.Key, &tinkpb.Keyset_Key{KeyData: w.keys[i].data, Status: st, KeyId: parseID(pk.ID), OutputPrefixType: w.keys[i].prefix})
		if pk.Primary {
			w.ks.PrimaryKeyId = parseID(pk.ID)
		}
	}
	if allReal {
		w.route = "manager"
		m := keyset.NewManager()
		for i, pk := range ph.Keys {
			st, _ := statusOf(pk.Status)
			opts := []keyset.KeyOpts{keyset.WithStatus(st), keyset.WithFixedID(parseID(pk.ID))}
			if pk.Primary {
				opts = append(opts, keyset.AsPrimary())
			}
			if _, err := verifhooks.ManagerAddKeyWithOpts(m, w.keys[i].key, opts...); err != nil {
				return nil, fmt.Errorf("AddKeyWithOpts(%s): %v", pk.Name, err)
			}
		}
		h, err := m.Handle()
		if err != nil {
			return nil, fmt.Errorf("Manager.Handle: %v", err)
		}
		w.h = h
		return w, nil
	}
	w.route = "proto"
	h, err := insecurecleartextkeyset.Read(&keyset.MemReaderWriter{Keyset: proto.Clone(w.ks).(*tinkpb.Keyset)})
	if err != nil {
		return nil, fmt.Errorf("insecurecleartextkeyset.Read(proto keyset): %v", err)
	}
	w.h = h
	return w, nil
}

func statusName(s keyset.KeyStatus) string {
	switch s {
	case keyset.Enabled:
		return "ENABLED"
	case keyset.Disabled:
		return "DISABLED"
	case keyset.Destroyed:
		return "DESTROYED"
	}
	return "UNKNOWN"
}

func matOf(k key.Key) string {
	ks, err := verifhooks.SerializeKey(k)
	if err != nil {
		return "?"
	}
	return ks.KeyData.GetKeyMaterialType().String()
}

// project reads the projection of a handle through Entry(i) and the serialization of each entry's key.
func project(h *keyset.Handle) []any {
	out := []any{}
	for i := 0; i < h.Len(); i++ {
		e, err := h.Entry(i)
		if err != nil {
			out = append(out, map[string]any{"id": "", "status": "?", "prefix": "?", "url": "?", "primary": false, "mat": "?"})
			continue
		}
		r := map[string]any{"id": vt.ID4(e.KeyID()), "status": statusName(e.KeyStatus()), "primary": e.IsPrimary(), "prefix": "?", "url": "?", "mat": "?"}
		if ks, err := verifhooks.SerializeKey(e.Key()); err == nil {
			r["prefix"], r["url"], r["mat"] = ks.OutputPrefixType.String(), ks.KeyData.GetTypeUrl(), ks.KeyData.GetKeyMaterialType().String()
		}
		out = append(out, r)
	}
	return out
}

func writerFor(f string, buf *bytes.Buffer) keyset.Writer {
	if f == "json" {
		return keyset.NewJSONWriter(buf)
	}
	return keyset.NewBinaryWriter(buf)
}

func readerFor(f string, b []byte) keyset.Reader {
	if f == "json" {
		return keyset.NewJSONReader(bytes.NewReader(b))
	}
	return keyset.NewBinaryReader(bytes.NewReader(b))
}

func writeHandle(h *keyset.Handle, m mode) ([]byte, error) {
	var buf bytes.Buffer
	w := writerFor(m.F, &buf)
	var err error
	switch m.M {
	case "cleartext":
		err = insecurecleartextkeyset.Write(h, w)
	case "noSecrets":
		err = h.WriteWithNoSecrets(w)
	case "encrypted":
		if m.Ad == "nil" {
			err = h.Write(w, keks[m.Kek])
		} else {
			err = h.WriteWithAssociatedData(w, keks[m.Kek], adBytes(m.Ad))
		}
	}
	return buf.Bytes(), err
}

func readHandle(b []byte, m mode) (*keyset.Handle, error) {
	r := readerFor(m.F, b)
	switch m.M {
	case "cleartext":
		return insecurecleartextkeyset.Read(r)
	case "noSecrets":
		return keyset.ReadWithNoSecrets(r)
	default:
		if m.Ad == "nil" {
			return keyset.Read(r, keks[m.Kek])
		}
		return keyset.ReadWithAssociatedData(r, keks[m.Kek], adBytes(m.Ad))
	}
}

func runIO(w *vt.Writer, replay string)  { runHandles(w, replay, false) }
func runSec(w *vt.Writer, replay string) { runHandles(w, replay, true) }

var handlesPath string

func runHandles(w *vt.Writer, replay string, sec bool) {
	initKeks()
	var plans []planHandle
	if replay != "" {
		var r struct {
			Event struct {
				Keys []planKey `json:"keys"`
			} `json:"event"`
		}
		if err := json.Unmarshal(readAll(replay), &r); err != nil {
			vt.Fatal("replay file: %v", err)
		}
		plans = []planHandle{{Keys: r.Event.Keys}}
	} else {
		for _, raw := range readLines(handlesPath) {
			var ph planHandle
			if err := json.Unmarshal(raw, &ph); err != nil {
				vt.Fatal("handles: %v", err)
			}
			plans = append(plans, ph)
		}
	}
	for n, ph := range plans {
		doHandle(w, n, ph, sec)
	}
}

func doHandle(w *vt.Writer, n int, ph planHandle, sec bool) {
	hev := vt.Ev{"ev": "handle", "n": n, "keys": ph.Keys, "built": false, "route": "", "proj": []any{}, "panic": false,
		"public": map[string]any{"ok": false, "proj": []any{}, "equalKeys": false}}
	var hwv *hw
	var err error
	if try(func() { hwv, err = buildHandle(n, ph) }) {
		hev["panic"] = true
		w.Emit(hev)
		return
	}
	if err != nil {
		hev["why"] = err.Error()
		w.Emit(hev)
		return
	}
	h := hwv.h
	hev["built"], hev["route"], hev["proj"] = true, hwv.route, project(h)
	// Public()
	if try(func() {
		pub, err := h.Public()
		if err != nil {
			return
		}
		eq := pub.Len() == h.Len()
		for i := 0; eq && i < h.Len(); i++ {
			e, _ := h.Entry(i)
			pe, err := pub.Entry(i)
			pk, ok := e.Key().(interface{ PublicKey() (key.Key, error) })
			if err != nil || !ok {
				eq = false
				break
			}
			want, err := pk.PublicKey()
			eq = err == nil && pe.Key().Equal(want) && want.Equal(pe.Key())
		}
		hev["public"] = map[string]any{"ok": true, "proj": project(pub), "equalKeys": eq}
	}) {
		hev["panic"] = true
	}
	if sec {
		hev["sec"] = secArtifacts(hwv)
	}
	w.Emit(hev)
	// writer x reader matrix
	for _, wm := range allModes() {
		ev := vt.Ev{"ev": "io", "n": n, "keys": ph.Keys, "w": wm, "wok": false, "wpanic": false, "reads": []any{},
			"interop": map[string]any{"tried": false, "fam": "", "ab": "", "ba": ""}}
		var blob []byte
		var werr error
		ev["wtextleak"] = false
		if pan, pv := vt.Try(func() { blob, werr = writeHandle(h, wm) }); pan {
			ev["wpanic"] = true
			ev["wtextleak"] = sec && textLeak(fmt.Sprintf("%v|%+v|%#v", pv, pv, pv), hwv.secret)
			w.Emit(ev)
			continue
		}
		if werr != nil {
			ev["wtextleak"] = sec && errLeak(werr, hwv.secret)
			w.Emit(ev)
			continue
		}
		ev["wok"] = true
		if sec {
			ev["blob"] = blobArtifact(hwv, wm, blob)
		}
		var reads []any
		for _, rm := range allModes() {
			r := map[string]any{"f": rm.F, "m": rm.M, "kek": rm.Kek, "ad": rm.Ad, "ok": false, "panic": false, "proj": []any{}, "textleak": false}
			var h2 *keyset.Handle
			var rerr error
			if pan, pv := vt.Try(func() { h2, rerr = readHandle(blob, rm) }); pan {
				r["panic"] = true
				r["textleak"] = sec && textLeak(fmt.Sprintf("%v|%+v|%#v", pv, pv, pv), hwv.secret)
			} else if rerr != nil {
				r["textleak"] = sec && errLeak(rerr, hwv.secret)
			} else if rerr == nil && h2 != nil {
				r["ok"], r["proj"] = true, project(h2)
				if rm == wm && !sec {
					if try(func() { ev["interop"] = interop(hwv, h2, int64(n)) }) {
						ev["interop"] = map[string]any{"tried": true, "fam": "panic", "ab": "panic", "ba": "panic"}
					}
				}
			}
			reads = append(reads, r)
		}
		ev["reads"] = reads
		w.Emit(ev)
	}
}

// ------------------------------------------------------------------ primitive interoperability
// interop makes primitives from the original handle (a) and the re-read handle (b) and uses each one's output with
// the other. It only records: "ok" (the other side accepted / returned the same plaintext), "mismatch", or the step
// that failed. TLC decides whether interoperability was required for this keyset.
func interop(w *hw, b *keyset.Handle, seed int64) map[string]any {
	a := w.h
	fam := ""
	for i, pk := range w.plan.Keys {
		if pk.Status != "ENABLED" {
			continue
		}
		f := catalog[pk.Name].fam + "/" + catalog[pk.Name].kind
		if fam == "" {
			fam = f
		} else if fam != f {
			fam = "mixed"
		}
		_ = i
	}
	res := map[string]any{"tried": true, "fam": fam, "ab": "n/a", "ba": "n/a"}
	r := rand.New(rand.NewSource(seed))
	msg := vt.Bytes(r, 1+r.Intn(40))
	ad := vt.Bytes(r, r.Intn(8))
	eq := func(x []byte, err error) string {
		if err != nil {
			return "rejected"
		}
		if bytes.Equal(x, msg) {
			return "ok"
		}
		return "mismatch"
	}
	switch fam {
	case "aead/symmetric":
		pa, e1 := aead.New(a)
		pb, e2 := aead.New(b)
		if e1 != nil || e2 != nil {
			res["ab"], res["ba"] = "no primitive", "no primitive"
			return res
		}
		one := func(x, y tink.AEAD) string {
			ct, err := x.Encrypt(msg, ad)
			if err != nil {
				return "encrypt failed"
			}
			return eq(y.Decrypt(ct, ad))
		}
		res["ab"], res["ba"] = one(pa, pb), one(pb, pa)
	case "daead/symmetric":
		pa, e1 := daead.New(a)
		pb, e2 := daead.New(b)
		if e1 != nil || e2 != nil {
			res["ab"], res["ba"] = "no primitive", "no primitive"
			return res
		}
		one := func(x, y tink.DeterministicAEAD) string {
			ct, err := x.EncryptDeterministically(msg, ad)
			if err != nil {
				return "encrypt failed"
			}
			return eq(y.DecryptDeterministically(ct, ad))
		}
		res["ab"], res["ba"] = one(pa, pb), one(pb, pa)
	case "mac/symmetric":
		pa, e1 := mac.New(a)
		pb, e2 := mac.New(b)
		if e1 != nil || e2 != nil {
			res["ab"], res["ba"] = "no primitive", "no primitive"
			return res
		}
		one := func(x, y tink.MAC) string {
			tag, err := x.ComputeMAC(msg)
			if err != nil {
				return "compute failed"
			}
			if y.VerifyMAC(tag, msg) != nil {
				return "rejected"
			}
			return "ok"
		}
		res["ab"], res["ba"] = one(pa, pb), one(pb, pa)
	case "prf/symmetric":
		pa, e1 := prf.NewPRFSet(a)
		pb, e2 := prf.NewPRFSet(b)
		if e1 != nil || e2 != nil {
			res["ab"], res["ba"] = "no primitive", "no primitive"
			return res
		}
		x, e1 := pa.ComputePrimaryPRF(msg, 24)
		y, e2 := pb.ComputePrimaryPRF(msg, 24)
		v := "mismatch"
		if e1 != nil || e2 != nil {
			v = "compute failed"
		} else if bytes.Equal(x, y) && pa.PrimaryID == pb.PrimaryID {
			v = "ok"
		}
		res["ab"], res["ba"] = v, v
	case "sig/private":
		sa, e1 := signature.NewSigner(a)
		sb, e2 := signature.NewSigner(b)
		pubA, e3 := a.Public()
		pubB, e4 := b.Public()
		if e1 != nil || e2 != nil || e3 != nil || e4 != nil {
			res["ab"], res["ba"] = "no primitive", "no primitive"
			return res
		}
		va, e1 := signature.NewVerifier(pubA)
		vb, e2 := signature.NewVerifier(pubB)
		if e1 != nil || e2 != nil {
			res["ab"], res["ba"] = "no primitive", "no primitive"
			return res
		}
		one := func(s tink.Signer, v tink.Verifier) string {
			sig, err := s.Sign(msg)
			if err != nil {
				return "sign failed"
			}
			if v.Verify(sig, msg) != nil {
				return "rejected"
			}
			return "ok"
		}
		res["ab"], res["ba"] = one(sa, vb), one(sb, va)
	case "hybrid/private":
		pubA, e1 := a.Public()
		pubB, e2 := b.Public()
		if e1 != nil || e2 != nil {
			res["ab"], res["ba"] = "no primitive", "no primitive"
			return res
		}
		ea, e1 := hybrid.NewHybridEncrypt(pubA)
		eb, e2 := hybrid.NewHybridEncrypt(pubB)
		da, e3 := hybrid.NewHybridDecrypt(a)
		db, e4 := hybrid.NewHybridDecrypt(b)
		if e1 != nil || e2 != nil || e3 != nil || e4 != nil {
			res["ab"], res["ba"] = "no primitive", "no primitive"
			return res
		}
		one := func(e tink.HybridEncrypt, d tink.HybridDecrypt) string {
			ct, err := e.Encrypt(msg, ad)
			if err != nil {
				return "encrypt failed"
			}
			return eq(d.Decrypt(ct, ad))
		}
		res["ab"], res["ba"] = one(ea, db), one(eb, da)
	}
	return res
}

// ------------------------------------------------------------------ C13 artifacts
// fieldSet lists the populated fields of a proto message as dotted paths (unknown fields as "<unknown>").
func fieldSet(m protoreflect.Message, prefix string, out map[string]bool) {
	if len(m.GetUnknown()) > 0 {
		out[prefix+"<unknown>"] = true
	}
	m.Range(func(fd protoreflect.FieldDescriptor, v protoreflect.Value) bool {
		name := prefix + string(fd.Name())
		switch {
		case fd.IsList() && fd.Kind() == protoreflect.MessageKind:
			l := v.List()
			for i := 0; i < l.Len(); i++ {
				fieldSet(l.Get(i).Message(), name+".", out)
			}
		case fd.Kind() == protoreflect.MessageKind && !fd.IsList() && !fd.IsMap():
			fieldSet(v.Message(), name+".", out)
		default:
			out[name] = true
		}
		return true
	})
}

func sortedKeys(m map[string]bool) []string {
	out := []string{}
	for k := range m {
		out = append(out, k)
	}
	sort.Strings(out)
	return out
}

// jsonFieldSet lists the key paths of a JSON document with non-default leaf values, decoded with encoding/json
// (independently of protojson).
func jsonFieldSet(b []byte) ([]string, bool) {
	var v any
	if err := json.Unmarshal(b, &v); err != nil {
		return []string{}, false
	}
	out := map[string]bool{}
	var walk func(x any, p string)
	walk = func(x any, p string) {
		switch t := x.(type) {
		case map[string]any:
			for k, c := range t {
				walk(c, p+k+".")
			}
		case []any:
			for _, c := range t {
				walk(c, p)
			}
		default:
			out[strings.TrimSuffix(p, ".")] = true
		}
	}
	walk(v, "")
	return sortedKeys(out), true
}

// leakScan looks for every 8-byte window of every secret in raw, hex and base64 form (9-byte windows, every
// alignment, for base64) inside an artifact.
func leakScan(art []byte, secrets [][]byte) bool {
	lower := bytes.ToLower(art)
	for _, s := range secrets {
		for i := 0; i+8 <= len(s); i++ {
			win := s[i : i+8]
			if bytes.Contains(art, win) {
				return true
			}
			if bytes.Contains(lower, []byte(hex.EncodeToString(win))) {
				return true
			}
			if i+9 <= len(s) {
				w9 := s[i : i+9]
				if bytes.Contains(art, []byte(base64.StdEncoding.EncodeToString(w9))) || bytes.Contains(art, []byte(base64.URLEncoding.EncodeToString(w9))) {
					return true
				}
			}
		}
	}
	return false
}

func art(fields []string, decoded bool, data []byte, secrets [][]byte) map[string]any {
	return map[string]any{"fields": fields, "decoded": decoded, "leak": leakScan(data, secrets), "len": len(data)}
}

// ------------------------------------------------------------------ string-valued outputs
// Every string an API hands back is an artifact: error texts, fmt renderings of handles, entries, keys and
// parameters, panic values. textLeak scans one for key material in any of the encodings a formatter may apply.
var numList = regexp.MustCompile(`(?:0x[0-9a-fA-F]{1,2}|\d{1,3})(?:,? (?:0x[0-9a-fA-F]{1,2}|\d{1,3})){7,}`)
var numTok = regexp.MustCompile(`0x[0-9a-fA-F]{1,2}|\d{1,3}`)

// unescape undoes backslash escapes wherever they occur: \ooo (octal, protobuf text format), \xHH and \uXXXX (Go %q,
// %#v), and the single-character escapes. Everything else is copied.
func unescape(s []byte) []byte {
	out := make([]byte, 0, len(s))
	isOct := func(c byte) bool { return c >= '0' && c <= '7' }
	for i := 0; i < len(s); i++ {
		if s[i] != '\\' || i+1 >= len(s) {
			out = append(out, s[i])
			continue
		}
		c := s[i+1]
		switch {
		case isOct(c):
			v, j := 0, i+1
			for ; j < len(s) && j < i+4 && isOct(s[j]); j++ {
				v = v*8 + int(s[j]-'0')
			}
			out = append(out, byte(v))
			i = j - 1
		case c == 'x' && i+3 < len(s):
			if b, err := hex.DecodeString(string(s[i+2 : i+4])); err == nil {
				out = append(out, b[0])
				i += 3
			} else {
				out = append(out, s[i])
			}
		case (c == 'u' && i+5 < len(s)) || (c == 'U' && i+9 < len(s)):
			n := 4
			if c == 'U' {
				n = 8
			}
			if v, err := strconv.ParseUint(string(s[i+2:i+2+n]), 16, 32); err == nil {
				out = utf8.AppendRune(out, rune(v))
				i += 1 + n
			} else {
				out = append(out, s[i])
			}
		default:
			m := map[byte]byte{'n': '\n', 'r': '\r', 't': '\t', 'a': 7, 'b': 8, 'f': 12, 'v': 11, '\\': '\\', '"': '"', '\'': '\''}
			if b, ok := m[c]; ok {
				out = append(out, b)
				i++
			} else {
				out = append(out, s[i])
			}
		}
	}
	return out
}

// numberLists decodes every run of >= 8 small numbers ("[1 2 255]", "[]byte{0x1, 0x2}") into bytes.
func numberLists(s []byte) []byte {
	var out []byte
	for _, run := range numList.FindAll(s, -1) {
		for _, t := range numTok.FindAll(run, -1) {
			v, err := strconv.ParseUint(string(t), 0, 16)
			if strings.HasPrefix(string(t), "0") && !strings.HasPrefix(string(t), "0x") {
				v, err = strconv.ParseUint(string(t), 10, 16)
			}
			if err != nil || v > 255 {
				out = append(out, 0xff, 0x00, 0xff) // breaks a window
				continue
			}
			out = append(out, byte(v))
		}
		out = append(out, 0xff, 0x00, 0xff, 0x00)
	}
	return out
}

// textLeak: raw / hex (both cases) / base64 of the text itself, of the text with its escapes undone (Go-escaped,
// protobuf text-format octal), and of the byte lists printed as numbers.
func textLeak(text string, secrets [][]byte) bool {
	b := []byte(text)
	return leakScan(b, secrets) || leakScan(unescape(b), secrets) || leakScan(numberLists(b), secrets)
}

func errLeak(err error, secrets [][]byte) bool {
	return textLeak(fmt.Sprintf("%s|%v|%+v|%q", err.Error(), err, err, err.Error()), secrets)
}

// textArtifacts renders the handle, its entries, keys and parameters with the fmt verbs and collects the error texts
// of the refusing *NoSecrets APIs.
func textArtifacts(w *hw) []any {
	out := []any{}
	add := func(name string, f func() string) {
		text := ""
		pan, pv := vt.Try(func() { text = f() })
		if pan {
			text = fmt.Sprintf("%v|%#v", pv, pv)
			name += " (panic value)"
		}
		out = append(out, map[string]any{"name": name, "leak": textLeak(text, w.secret), "len": len(text), "panic": pan})
	}
	h := w.h
	add("error of NewHandleWithNoSecrets", func() string {
		_, err := keyset.NewHandleWithNoSecrets(proto.Clone(w.ks).(*tinkpb.Keyset))
		if err == nil {
			return ""
		}
		return fmt.Sprintf("%s|%+v|%q", err.Error(), err, err.Error())
	})
	// one artifact per object: its renderings under all verbs, concatenated
	render := func(x any, verbs ...string) string {
		var sb strings.Builder
		for _, v := range verbs {
			sb.WriteString(fmt.Sprintf(v, x))
			sb.WriteString(" | ")
		}
		return sb.String()
	}
	add("fmt %v %+v %#v %s %q of Handle", func() string { return render(h, "%v", "%+v", "%#v", "%s", "%q") })
	for i := 0; i < h.Len(); i++ {
		e, err := h.Entry(i)
		if err != nil {
			continue
		}
		add("fmt %v %+v %#v of Entry", func() string { return render(e, "%v", "%+v", "%#v") })
		add("fmt %v %+v %#v of key object", func() string { return render(e.Key(), "%v", "%+v", "%#v") })
		add("fmt %v %+v %#v of parameters object", func() string { return render(e.Key().Parameters(), "%v", "%+v", "%#v") })
	}
	return out
}

// secArtifacts exercises the *NoSecrets constructors and the metadata artifacts of one handle.
func secArtifacts(w *hw) map[string]any {
	out := map[string]any{}
	h := w.h
	// NewHandleWithNoSecrets on the proto keyset of the plan
	ok := false
	pan := try(func() {
		h2, err := keyset.NewHandleWithNoSecrets(proto.Clone(w.ks).(*tinkpb.Keyset))
		ok = err == nil && h2 != nil
	})
	out["newHandleNoSecrets"] = map[string]any{"ok": ok, "panic": pan}
	out["texts"] = textArtifacts(w)
	// String()
	str := ""
	pan = try(func() { str = h.String() })
	info := &tinkpb.KeysetInfo{}
	dec := prototext.Unmarshal([]byte(str), info) == nil
	fs := map[string]bool{}
	if dec {
		fieldSet(info.ProtoReflect(), "", fs)
	}
	a := art(sortedKeys(fs), dec, []byte(str), w.secret)
	a["panic"] = pan
	out["string"] = a
	// KeysetInfo()
	var ki *tinkpb.KeysetInfo
	pan = try(func() { ki = h.KeysetInfo() })
	fs = map[string]bool{}
	var kib []byte
	if ki != nil {
		fieldSet(ki.ProtoReflect(), "", fs)
		kib, _ = proto.Marshal(ki)
		kib = append(kib, []byte(prototext.Format(ki))...)
	}
	a = art(sortedKeys(fs), ki != nil, kib, w.secret)
	a["panic"] = pan
	out["keysetInfo"] = a
	return out
}

// blobArtifact decodes what a writer produced, independently of the keyset readers.
func blobArtifact(w *hw, m mode, blob []byte) map[string]any {
	var fields []string
	decoded := false
	if m.F == "json" {
		fields, decoded = jsonFieldSet(blob)
	} else {
		fs := map[string]bool{}
		if m.M == "encrypted" {
			e := &tinkpb.EncryptedKeyset{}
			if proto.Unmarshal(blob, e) == nil {
				decoded = true
				fieldSet(e.ProtoReflect(), "", fs)
			}
		} else {
			k := &tinkpb.Keyset{}
			if proto.Unmarshal(blob, k) == nil {
				decoded = true
				fieldSet(k.ProtoReflect(), "", fs)
			}
		}
		fields = sortedKeys(fs)
	}
	return art(fields, decoded, blob, w.secret)
}
