package main

import (
	"bytes"
	"crypto/sha256"
	"encoding/json"
	"fmt"
	"strings"

	"verifharness/keyfactory"
	"verifharness/vt"

	"github.com/tink-crypto/tink-go/v2/insecurecleartextkeyset"
	"github.com/tink-crypto/tink-go/v2/key"
	"github.com/tink-crypto/tink-go/v2/keyset"
	tinkpb "github.com/tink-crypto/tink-go/v2/proto/tink_go_proto"
	"github.com/tink-crypto/tink-go/v2/testing/verifhooks"
)

type kpCase struct {
	Kt   string            `json:"kt"`
	P    keyfactory.Params `json:"p"`
	Ok   bool              `json:"ok"`
	Rep  bool              `json:"rep"`  // key-level: the proto key message can carry the parameters
	Trep bool              `json:"trep"` // template-level
}

// val logs a serialized value: hex, or (for long values) its SHA-256 and length -- TLC only compares for equality.
func val(b []byte) string {
	if len(b) <= 160 {
		return vt.Hex(b)
	}
	h := sha256.Sum256(b)
	return fmt.Sprintf("sha256:%s:%d", vt.Hex(h[:]), len(b))
}

var classes = []string{"random", "zero", "leadzero", "maxid", "id0"}

var rsaTypes = map[string]bool{"RsaSsaPkcs1": true, "RsaSsaPss": true, "JwtRsaSsaPkcs1": true, "JwtRsaSsaPss": true}

// allClasses: a replay executes every material class whatever the tier
var allClasses bool

const none = "none"

func try(f func()) (panicked bool) {
	p, v := vt.Try(f)
	if p {
		if s, ok := v.(string); ok && strings.HasPrefix(s, "keyfactory:") {
			vt.Fatal("%s", s)
		}
	}
	return p
}

func runKP(w *vt.Writer, casesPath, replay string) {
	var lines []json.RawMessage
	if replay != "" {
		allClasses = true
		var r struct {
			Event struct {
				Kt string          `json:"kt"`
				P  json.RawMessage `json:"p"`
			} `json:"event"`
		}
		b := readAll(replay)
		if err := json.Unmarshal(b, &r); err != nil {
			vt.Fatal("replay file: %v", err)
		}
		lines = []json.RawMessage{json.RawMessage(fmt.Sprintf(`{"kt":%q,"p":%s}`, r.Event.Kt, r.Event.P))}
	} else {
		lines = readLines(casesPath)
	}
	for i, raw := range lines {
		var c kpCase
		if err := json.Unmarshal(raw, &c); err != nil {
			vt.Fatal("case %d: %v", i, err)
		}
		var pj struct {
			P json.RawMessage `json:"p"`
		}
		json.Unmarshal(raw, &pj)
		for _, ev := range doCase(i, c, pj.P) {
			w.Emit(ev)
		}
	}
}

func emptyTpl() map[string]any {
	return map[string]any{"ser": false, "url": "", "prefix": "", "value": "", "parse": false, "equal": false, "equalRev": false,
		"ser2": false, "url2": "", "prefix2": "", "value2": "", "panic": false}
}

// doCase returns the "params" event of a record and, when the constructor accepted it, its "keys" event.
func doCase(n int, c kpCase, rawP json.RawMessage) []vt.Ev {
	ev := vt.Ev{"ev": "params", "n": n, "kt": c.Kt, "p": rawP, "rep": c.Trep, "panic": false, "accepted": false, "tpl": emptyTpl()}
	var params key.Parameters
	var err error
	if try(func() { params, err = keyfactory.NewParameters(c.Kt, c.P) }) {
		ev["panic"] = true
		return []vt.Ev{ev}
	}
	if err != nil {
		return []vt.Ev{ev}
	}
	ev["accepted"] = true
	// ---- parameters -> template -> parameters
	t := emptyTpl()
	ev["tpl"] = t
	if try(func() {
		tpl, err := verifhooks.SerializeParameters(params)
		if err != nil {
			return
		}
		t["ser"], t["url"], t["prefix"], t["value"] = true, tpl.GetTypeUrl(), tpl.GetOutputPrefixType().String(), val(tpl.GetValue())
		p2, err := verifhooks.ParseParameters(tpl)
		if err != nil || p2 == nil {
			return
		}
		t["parse"], t["equal"], t["equalRev"] = true, params.Equal(p2), p2.Equal(params)
		tpl2, err := verifhooks.SerializeParameters(p2)
		if err != nil {
			return
		}
		t["ser2"], t["url2"], t["prefix2"], t["value2"] = true, tpl2.GetTypeUrl(), tpl2.GetOutputPrefixType().String(), val(tpl2.GetValue())
	}) {
		t["panic"] = true
	}
	// ---- keys of every kind and material class
	var keys []any
	for _, kind := range keyfactory.Kinds(c.Kt) {
		for ci, class := range classes {
			// quick tier: random material plus one other class, rotating with the record number
			if !vt.Thorough() && !allClasses && ci != 0 && ci != 1+n%4 {
				continue
			}
			keys = append(keys, doKey(c, kind, class, params, int64(n)*64+int64(ci)))
		}
		// RSA key types, 2048 bits, e = 65537: the special shapes of the embedded key table (unbalanced primes, CRT values
		// and d with leading zero bytes) -- every tier
		if rsaTypes[c.Kt] && c.P.Int("modulusBits") == 2048 && c.P.Int("exponent") == 65537 {
			for si, shape := range keyfactory.RSAShapes {
				keys = append(keys, doKey(c, kind, "rsa:"+shape, params, int64(n)*64+int64(8+si)))
			}
		}
	}
	return []vt.Ev{ev, {"ev": "keys", "n": n, "kt": c.Kt, "p": rawP, "rep": c.Rep, "keys": keys}}
}

func idStr(id uint32, has bool) string {
	if !has {
		return none
	}
	return vt.ID4(id)
}

func doKey(c kpCase, kind, class string, params key.Parameters, stream int64) map[string]any {
	r := map[string]any{"kind": kind, "mc": class, "id": none, "built": false, "ser": false, "url": "", "prefix": "", "material": "",
		"idreq": none, "value": "", "parse": false, "equal": false, "equalRev": false, "ser2": false, "url2": "", "prefix2": "",
		"material2": "", "idreq2": none, "value2": "", "serEqual": false, "ksbin": "n/a", "ksjson": "n/a", "ksinfo": "n/a", "panic": false}
	var k key.Key
	var err error
	if try(func() {
		k, err = keyfactory.NewKey(c.Kt, kind, c.P, params, keyfactory.Material{Class: class, Rng: vt.Rng(stream)})
	}) {
		r["panic"] = true
		return r
	}
	if err != nil || k == nil {
		return r
	}
	r["built"] = true
	r["id"] = idStr(k.IDRequirement())
	if try(func() {
		ks, err := verifhooks.SerializeKey(k)
		if err != nil {
			return
		}
		r["ser"], r["url"], r["prefix"] = true, ks.KeyData.GetTypeUrl(), ks.OutputPrefixType.String()
		r["material"], r["idreq"], r["value"] = ks.KeyData.GetKeyMaterialType().String(), idStr(ks.IDRequirement, ks.HasIDRequirement), val(ks.KeyData.GetValue())
		k2, err := verifhooks.ParseKey(ks)
		if err != nil || k2 == nil {
			return
		}
		r["parse"], r["equal"], r["equalRev"] = true, k.Equal(k2), k2.Equal(k)
		ks2, err := verifhooks.SerializeKey(k2)
		if err != nil {
			return
		}
		r["ser2"], r["url2"], r["prefix2"] = true, ks2.KeyData.GetTypeUrl(), ks2.OutputPrefixType.String()
		r["material2"], r["idreq2"], r["value2"] = ks2.KeyData.GetKeyMaterialType().String(), idStr(ks2.IDRequirement, ks2.HasIDRequirement), val(ks2.KeyData.GetValue())
		if eq, err := verifhooks.KeySerializationEqual(ks, ks2); err == nil {
			r["serEqual"] = eq
		}
	}) {
		r["panic"] = true
	}
	// a handle that holds the key must be able to describe itself: KeysetInfo() / String() serialize every key
	r["ksinfo"] = handleInfo(k)
	// public route: keyset.Manager.AddKey + insecurecleartextkeyset.Write/Read (binary and JSON)
	for _, f := range []string{"ksbin", "ksjson"} {
		if try(func() { r[f] = keysetRoute(k, f == "ksjson") }) {
			r[f] = "panic"
		}
	}
	return r
}

// handleInfo puts the key into a handle (Manager.AddKey, SetPrimary, Handle) and calls KeysetInfo() and String():
// "ok", "panic", or the step before them that failed.
func handleInfo(k key.Key) string {
	var h *keyset.Handle
	step := ""
	if try(func() {
		m := keyset.NewManager()
		id, err := m.AddKey(k)
		if err != nil {
			step = "AddKey failed"
			return
		}
		if err := m.SetPrimary(id); err != nil {
			step = "SetPrimary failed"
			return
		}
		if h, err = m.Handle(); err != nil {
			step = "Handle failed"
		}
	}) {
		return "panic before KeysetInfo"
	}
	if step != "" {
		return step
	}
	if try(func() { _ = h.KeysetInfo() }) {
		return "panic"
	}
	if try(func() { _ = h.String() }) {
		return "panic"
	}
	return "ok"
}

// keysetRoute returns "equal", "different", or the step that failed.
func keysetRoute(k key.Key, asJSON bool) string {
	m := keyset.NewManager()
	id, err := m.AddKey(k)
	if err != nil {
		return "AddKey failed"
	}
	if err := m.SetPrimary(id); err != nil {
		return "SetPrimary failed"
	}
	h, err := m.Handle()
	if err != nil {
		return "Handle failed"
	}
	var buf bytes.Buffer
	var wr keyset.Writer = keyset.NewBinaryWriter(&buf)
	if asJSON {
		wr = keyset.NewJSONWriter(&buf)
	}
	if err := insecurecleartextkeyset.Write(h, wr); err != nil {
		return "Write failed"
	}
	var rd keyset.Reader = keyset.NewBinaryReader(&buf)
	if asJSON {
		rd = keyset.NewJSONReader(&buf)
	}
	h2, err := insecurecleartextkeyset.Read(rd)
	if err != nil {
		return "Read failed"
	}
	if h2.Len() != 1 {
		return "different"
	}
	e, err := h2.Entry(0)
	if err != nil {
		return "Entry failed"
	}
	if e.KeyID() != id || !e.IsPrimary() || e.KeyStatus() != keyset.Enabled {
		return "different"
	}
	if e.Key().Equal(k) && k.Equal(e.Key()) {
		return "equal"
	}
	return "different"
}

var _ = tinkpb.KeyStatusType_ENABLED
