// c12: conformance driver for properties C12 (serialization round trips) and C13 (secret key material).
//
//	-mode kp  -cases <ndjson> -out <trace>   key / parameters round trips for every TLC-enumerated parameter record
//	-mode io  -out <trace>                   keyset writer x reader x mode matrix on generated keysets (KeysetIO.tla)
//	-mode sec -out <trace>                   C13: *NoSecrets APIs, artifacts and leak scans (Secrets.tla)
//
// The driver only executes the real code and records what it returned; every verdict is TLC's
// (spec/trace/Trace_KeyParams.tla, Trace_KeysetIO.tla, Trace_Secrets.tla).
package main

import (
	"bufio"
	"encoding/json"
	"flag"
	"os"

	"verifharness/vt"
)

func main() {
	mode := flag.String("mode", "kp", "kp | io | sec")
	cases := flag.String("cases", "", "ndjson cases written by Plan_KeyParams.tla (mode kp)")
	handles := flag.String("handles", "", "ndjson handles written by Plan_KeysetIO.tla (modes io, sec)")
	out := flag.String("out", "", "trace file")
	replay := flag.String("replay", "", "replay file: re-execute its case only")
	flag.Parse()
	if *out == "" {
		vt.Fatal("-out required")
	}
	handlesPath = *handles
	w := vt.NewWriter(*out)
	defer w.Close()
	switch *mode {
	case "kp":
		runKP(w, *cases, *replay)
	case "io":
		runIO(w, *replay)
	case "sec":
		runSec(w, *replay)
	default:
		vt.Fatal("unknown mode %q", *mode)
	}
}

// readLines reads an ndjson file into raw messages.
func readLines(path string) []json.RawMessage {
	f, err := os.Open(path)
	if err != nil {
		vt.Fatal("open %s: %v", path, err)
	}
	defer f.Close()
	var out []json.RawMessage
	sc := bufio.NewScanner(f)
	sc.Buffer(make([]byte, 1<<20), 1<<28)
	for sc.Scan() {
		b := sc.Bytes()
		if len(b) == 0 {
			continue
		}
		out = append(out, append(json.RawMessage(nil), b...))
	}
	if err := sc.Err(); err != nil {
		vt.Fatal("read %s: %v", path, err)
	}
	return out
}
