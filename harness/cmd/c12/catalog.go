package main

import (
	"fmt"
	"math/rand"

	"verifharness/keyfactory"
	"verifharness/vt"

	"github.com/tink-crypto/tink-go/v2/key"
	kmsaeadpb "github.com/tink-crypto/tink-go/v2/proto/kms_aead_go_proto"
	kmsenvpb "github.com/tink-crypto/tink-go/v2/proto/kms_envelope_go_proto"
	tinkpb "github.com/tink-crypto/tink-go/v2/proto/tink_go_proto"
	"github.com/tink-crypto/tink-go/v2/testing/verifhooks"
	"google.golang.org/protobuf/proto"
)

// catEntry mirrors spec/sys/KeysetCatalog.tla: a catalog name is a key type of the inventory with fixed parameters
// (real keys), or crafted key data (REMOTE / UNKNOWN material).
type catEntry struct {
	kt, kind string
	p        keyfactory.Params
	fam      string
}

var catalog = map[string]catEntry{
	"aesgcm128_tink":   {"AesGcm", "symmetric", keyfactory.Params{"keySize": 16, "ivSize": 12, "tagSize": 16, "variant": "TINK"}, "aead"},
	"aesgcm256_raw":    {"AesGcm", "symmetric", keyfactory.Params{"keySize": 32, "ivSize": 12, "tagSize": 16, "variant": "NO_PREFIX"}, "aead"},
	"xchacha_crunchy":  {"XChaCha20Poly1305", "symmetric", keyfactory.Params{"variant": "CRUNCHY"}, "aead"},
	"aesctrhmac_tink":  {"AesCtrHmac", "symmetric", keyfactory.Params{"aesKeySize": 32, "hmacKeySize": 32, "ivSize": 16, "hash": "SHA256", "tagSize": 32, "variant": "TINK"}, "aead"},
	"hmac_tink":        {"Hmac", "symmetric", keyfactory.Params{"keySize": 32, "hash": "SHA256", "tagSize": 32, "variant": "TINK"}, "mac"},
	"hmac_legacy":      {"Hmac", "symmetric", keyfactory.Params{"keySize": 32, "hash": "SHA512", "tagSize": 16, "variant": "LEGACY"}, "mac"},
	"aescmac_raw":      {"AesCmac", "symmetric", keyfactory.Params{"keySize": 32, "tagSize": 16, "variant": "NO_PREFIX"}, "mac"},
	"aessiv_tink":      {"AesSiv", "symmetric", keyfactory.Params{"keySize": 64, "variant": "TINK"}, "daead"},
	"aessiv_raw":       {"AesSiv", "symmetric", keyfactory.Params{"keySize": 64, "variant": "NO_PREFIX"}, "daead"},
	"hkdfprf":          {"HkdfPrf", "symmetric", keyfactory.Params{"keySize": 32, "hash": "SHA256", "saltSize": 8}, "prf"},
	"jwthmac_kid":      {"JwtHmac", "symmetric", keyfactory.Params{"algorithm": "HS256", "kidStrategy": "BASE64_KEY_ID", "keySize": 32}, "jwtmac"},
	"ecdsa_p256_tink":  {"Ecdsa", "private", keyfactory.Params{"curve": "NIST_P256", "hash": "SHA256", "encoding": "DER", "variant": "TINK"}, "sig"},
	"ed25519_raw":      {"Ed25519", "private", keyfactory.Params{"variant": "NO_PREFIX"}, "sig"},
	"ed25519_legacy":   {"Ed25519", "private", keyfactory.Params{"variant": "LEGACY"}, "sig"},
	"mldsa65_tink":     {"MlDsa", "private", keyfactory.Params{"instance": "ML_DSA_65", "variant": "TINK"}, "sig"},
	"hpke_x25519_tink": {"Hpke", "private", keyfactory.Params{"kem": "DHKEM_X25519_HKDF_SHA256", "kdf": "HKDF_SHA256", "aead": "AES_128_GCM", "variant": "TINK"}, "hybrid"},
	"ecies_p256_raw": {"Ecies", "private", keyfactory.Params{"curve": "NIST_P256", "hash": "SHA256", "pointFormat": "UNCOMPRESSED",
		"dem": "AES128_GCM_RAW", "saltSize": 0, "variant": "NO_PREFIX"}, "hybrid"},
	"kmsaead":         {"KmsAead", "remote", nil, "none"},
	"kmsenvelope_raw": {"KmsEnvelopeAead", "remote", nil, "none"},
	"unknown_tink":    {"Unregistered", "unknown", nil, "none"},
	"unknown_raw":     {"Unregistered", "unknown", nil, "none"},
}

func init() {
	for _, n := range []string{"ecdsa_p256_tink", "ed25519_raw", "mldsa65_tink", "hpke_x25519_tink", "ecies_p256_raw"} {
		e := catalog[n]
		e.kind = "public"
		catalog[n+"_pub"] = e
	}
}

// builtKey is a catalog key made concrete: a real key object (nil for crafted key data), its proto form, and the
// secret byte strings inside it.
type builtKey struct {
	name    string
	key     key.Key
	data    *tinkpb.KeyData
	prefix  tinkpb.OutputPrefixType
	secrets [][]byte
}

func mustMarshal(m proto.Message) []byte {
	b, err := proto.Marshal(m)
	if err != nil {
		vt.Fatal("marshal: %v", err)
	}
	return b
}

// buildCatalogKey makes the catalog key `name` with keyset key id `id`.
func buildCatalogKey(name string, id uint32, r *rand.Rand) (*builtKey, error) {
	e, ok := catalog[name]
	if !ok {
		vt.Fatal("catalog has no key %q", name)
	}
	switch e.kt {
	case "KmsAead":
		v := mustMarshal(&kmsaeadpb.KmsAeadKey{Version: 0, Params: &kmsaeadpb.KmsAeadKeyFormat{KeyUri: "fake-kms://verif/" + name}})
		return &builtKey{name: name, data: &tinkpb.KeyData{TypeUrl: "type.googleapis.com/google.crypto.tink.KmsAeadKey", Value: v,
			KeyMaterialType: tinkpb.KeyData_REMOTE}, prefix: tinkpb.OutputPrefixType_TINK}, nil
	case "KmsEnvelopeAead":
		dek := &tinkpb.KeyTemplate{TypeUrl: "type.googleapis.com/google.crypto.tink.AesGcmKey", Value: []byte{0x10, 0x10},
			OutputPrefixType: tinkpb.OutputPrefixType_TINK}
		v := mustMarshal(&kmsenvpb.KmsEnvelopeAeadKey{Version: 0, Params: &kmsenvpb.KmsEnvelopeAeadKeyFormat{KekUri: "fake-kms://verif/" + name, DekTemplate: dek}})
		return &builtKey{name: name, data: &tinkpb.KeyData{TypeUrl: "type.googleapis.com/google.crypto.tink.KmsEnvelopeAeadKey", Value: v,
			KeyMaterialType: tinkpb.KeyData_REMOTE}, prefix: tinkpb.OutputPrefixType_RAW}, nil
	case "Unregistered":
		sec := vt.Bytes(r, 40)
		pf := tinkpb.OutputPrefixType_TINK
		if name == "unknown_raw" {
			pf = tinkpb.OutputPrefixType_RAW
		}
		// field 1 (bytes) of an unknown message: the "secret" of an unregistered key type
		v := append([]byte{0x0a, byte(len(sec))}, sec...)
		return &builtKey{name: name, data: &tinkpb.KeyData{TypeUrl: "type.googleapis.com/verif.UnregisteredKey", Value: v,
			KeyMaterialType: tinkpb.KeyData_UNKNOWN_KEYMATERIAL}, prefix: pf, secrets: [][]byte{sec}}, nil
	}
	params, err := keyfactory.NewParameters(e.kt, e.p)
	if err != nil {
		return nil, fmt.Errorf("catalog %s: %v", name, err)
	}
	k, err := keyfactory.NewKey(e.kt, e.kind, e.p, params, keyfactory.Material{Class: "random", Rng: r, FixedID: &id})
	if err != nil {
		return nil, fmt.Errorf("catalog %s: %v", name, err)
	}
	ks, err := verifhooks.SerializeKey(k)
	if err != nil {
		return nil, fmt.Errorf("catalog %s: %v", name, err)
	}
	return &builtKey{name: name, key: k, data: ks.KeyData, prefix: ks.OutputPrefixType, secrets: keyfactory.SecretBytes(k)}, nil
}
