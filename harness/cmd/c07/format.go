package main

import (
	"bufio"
	"bytes"
	"encoding/json"
	"io"
	"math/rand"
	"os"

	"verifharness/vt"

	"github.com/tink-crypto/tink-go/v2/tink"
)

// ---- format clause: whole ciphertext bytes, judged by spec/algo/StreamFormat.tla ----------------

func cfgEv(ev string, k keySpec) vt.Ev {
	via := k.Via
	if via == "" {
		via = "subtle"
	}
	return vt.Ev{"ev": ev, "alg": k.Alg, "key": k.MainKey, "hkdf": k.Hkdf, "ks": k.KeySize, "tagAlg": k.TagAlg, "tag": k.Tag,
		"c": k.C, "off": k.UserOff, "via": via}
}

// small legal configurations: the segment size is near the smallest legal one so that a few hundred
// bytes span several segments
func smallKeySpec(r *rand.Rand) keySpec {
	k := randKeySpec(r, false)
	lo := k.UserOff + 1 + k.KeySize + 7 + k.Tag + 1
	k.C = lo + pick(r, 0, 0, 1, 2, 7, 16, r.Intn(48))
	return k
}

// encrypt pt through random Write sizes; returns the ciphertext
func encryptAll(p tink.StreamingAEAD, r *rand.Rand, aad, pt []byte, f, seg int) ([]byte, error) {
	var buf bytes.Buffer
	w, err := p.NewEncryptingWriter(&buf, aad)
	if err != nil {
		return nil, err
	}
	for _, c := range randChunks(r, len(pt), f, seg) {
		n, err := w.Write(pt[:c])
		if err != nil {
			return nil, err
		}
		pt = pt[n:]
	}
	if err := w.Close(); err != nil {
		return nil, err
	}
	return buf.Bytes(), nil
}

// decrypt ct through Read calls of random sizes over a source with a random short-read policy;
// returns what was returned before the first non-nil result, and that result's class
func decryptAll(p tink.StreamingAEAD, r *rand.Rand, aad, ct []byte, f, seg int) ([]byte, string, bool) {
	src := &source{rest: append([]byte{}, ct...), pol: *randPolicy(r, seg+16, true)}
	var out []byte
	cls := "ERR"
	pan, _ := vt.Try(func() {
		rd, err := p.NewDecryptingReader(src, aad)
		if err != nil {
			return
		}
		sizes := randReadSizes(r, f, seg)
		for k := 0; k < 4*len(ct)+50; k++ {
			b := make([]byte, sizes[k%len(sizes)])
			n, err := rd.Read(b)
			if err != nil {
				cls = errClass(err)
				return
			}
			out = append(out, b[:n]...)
		}
		cls = "SPIN"
	})
	return out, cls, pan
}

func genFormat(x *runner, n int, reqPath string) {
	r := vt.Rng(73)
	var req *bufio.Writer
	if reqPath != "" {
		f, err := os.Create(reqPath)
		if err != nil {
			vt.Fatal("create %s: %v", reqPath, err)
		}
		defer f.Close()
		req = bufio.NewWriter(f)
		defer req.Flush()
	}
	id := 0
	one := func(k keySpec, nn int) {
		id++
		h := 1 + k.KeySize + 7
		seg := k.C - k.Tag
		f := seg - k.UserOff - h
		pt, aad := vt.Bytes(r, nn), vt.Bytes(r, pick(r, 0, 0, 1, 16, r.Intn(40)))
		p, err := newPrim(k)
		var ct []byte
		if err == nil {
			ct, err = encryptAll(p, r, aad, pt, f, seg)
		}
		e := cfgEv("enc", k)
		e["aad"], e["pt"], e["ct"], e["err"] = vt.Hex(aad), vt.Hex(pt), vt.Hex(ct), err != nil
		if err != nil { // a legal configuration refused, or its encryption failed: recorded, the specification judges
			e["what"] = err.Error()
		}
		x.tw.Emit(e)
		if err == nil {
			// Tink decrypts its own ciphertext, untouched and manipulated; the decoder of the specification decides
			sc := scenario{P: seg, T: k.Tag, Off: k.UserOff + h, Hdr: []int{1, k.KeySize, 7}}
			for j := 0; j < 3; j++ {
				st, a := ct, aad
				if j > 0 {
					m, _ := randManip(r, &sc, len(ct), false)
					st = apply(&sc, m, ct, r)
					if m.Kind == "aad" {
						a = append(append([]byte{}, aad...), 1)
					}
				}
				out, cls, pan := decryptAll(p, r, a, st, f, seg)
				d := cfgEv("dec", k)
				d["aad"], d["ct"], d["out"], d["err"], d["panic"], d["by"] = vt.Hex(a), vt.Hex(st), vt.Hex(out), cls, pan, "tink"
				x.tw.Emit(d)
			}
		}
		if req != nil { // the specification encrypts the same plaintext with a chosen salt and nonce prefix
			salt, prefix := vt.Bytes(r, k.KeySize), vt.Bytes(r, 7)
			switch r.Intn(4) {
			case 0:
				salt, prefix = make([]byte, k.KeySize), make([]byte, 7)
			case 1:
				salt, prefix = bytes.Repeat([]byte{0xff}, k.KeySize), bytes.Repeat([]byte{0xff}, 7)
			}
			q := cfgEv("req", k)
			q["n"], q["salt"], q["prefix"], q["aad"], q["pt"] = id, vt.Hex(salt), vt.Hex(prefix), vt.Hex(aad), vt.Hex(pt)
			b, _ := json.Marshal(q)
			req.Write(b)
			req.WriteByte('\n')
		}
	}
	// (a) KEY TYPES through streamingaead.New(handle): every (HKDF hash, HMAC hash) pair the key types accept, smallest
	// and full-digest tags, both derived key sizes; the reference is keyed by the hashes the key DECLARES
	hs := []string{"SHA1", "SHA256", "SHA512"}
	cnt := 0
	for _, hk := range hs {
		for _, th := range append([]string{""}, hs...) {
			tags := []int{16}
			alg := "GCM"
			if th != "" {
				alg, tags = "CTR", []int{10, hashLens[th]}
			}
			for _, tag := range tags {
				cnt++
				k := keySpec{Alg: alg, Via: "keytype", KeySize: []int{16, 32}[cnt%2], Hkdf: hk, TagAlg: th, Tag: tag}
				k.MainKey = vt.Hex(vt.Bytes(r, pick(r, k.KeySize, 32)))
				k.C = 1 + k.KeySize + 7 + k.Tag + 1 + pick(r, 0, 1, 2, 7, 16)
				seg := k.C - k.Tag
				f := seg - (1 + k.KeySize + 7)
				one(k, f+seg+1+r.Intn(seg))
				one(k, pick(r, 0, 1, f, f+1))
			}
		}
	}
	// (b) seeded configurations of the subtle constructors (all five hashes, first-segment offsets); those a key type
	// can express (SHA1/SHA256/SHA512, no offset, 16- or 32-byte main key) go through the key type every other time
	keyable := func(h string) bool { return h == "" || h == "SHA1" || h == "SHA256" || h == "SHA512" }
	for i := 0; i < n; i++ {
		k := smallKeySpec(r)
		if i%2 == 1 && k.UserOff == 0 && keyable(k.Hkdf) && keyable(k.TagAlg) && (len(k.MainKey) == 32 || len(k.MainKey) == 64) {
			k.Via = "keytype"
		}
		seg := k.C - k.Tag
		f := seg - k.UserOff - (1 + k.KeySize + 7)
		top := f + 3*seg
		one(k, min(max(pick(r, 0, 1, f-1, f, f+1, f+seg-1, f+seg, f+seg+1, f+2*seg, top, r.Intn(top+1)), 0), top))
	}
}

// the primitive of a configuration: a subtle constructor, or the key type through streamingaead.New(handle)
func newPrim(k keySpec) (tink.StreamingAEAD, error) {
	if k.Via == "keytype" {
		return handleOf([]keySpec{k}, 0)
	}
	return newSubtle(k)
}

func specOfEvent(q map[string]any) keySpec {
	k := keySpec{Alg: q["alg"].(string), MainKey: q["key"].(string), Hkdf: q["hkdf"].(string), KeySize: int(q["ks"].(float64)),
		TagAlg: q["tagAlg"].(string), Tag: int(q["tag"].(float64)), C: int(q["c"].(float64)), UserOff: int(q["off"].(float64))}
	if v, ok := q["via"].(string); ok && v != "subtle" {
		k.Via = v
	}
	return k
}

// feed the ciphertexts made by the specification (Plan_Stream) to Tink's reader
func decSealed(x *runner, reqPath, sealedPath string) {
	r := vt.Rng(74)
	reqs := map[int]map[string]any{}
	for _, line := range readLines(reqPath) {
		var q map[string]any
		if err := json.Unmarshal(line, &q); err != nil {
			vt.Fatal("bad request: %v", err)
		}
		reqs[int(q["n"].(float64))] = q
	}
	for _, line := range readLines(sealedPath) {
		var s struct {
			N  int    `json:"n"`
			Ct string `json:"ct"`
		}
		if err := json.Unmarshal(line, &s); err != nil {
			vt.Fatal("bad sealed line: %v", err)
		}
		q := reqs[s.N]
		if q == nil {
			vt.Fatal("sealed ciphertext %d without request", s.N)
		}
		k := specOfEvent(q)
		p, err := newPrim(k)
		if err != nil { // refused: recorded as a reader that fails at once; the specification judges
			d := cfgEv("dec", k)
			d["aad"], d["ct"], d["out"], d["err"], d["panic"], d["by"], d["what"] = q["aad"], s.Ct, "", "ERR", false, "spec", err.Error()
			x.tw.Emit(d)
			continue
		}
		seg := k.C - k.Tag
		f := seg - k.UserOff - (1 + k.KeySize + 7)
		aad := vt.Unhex(q["aad"].(string))
		out, cls, pan := decryptAll(p, r, aad, vt.Unhex(s.Ct), f, seg)
		d := cfgEv("dec", k)
		d["aad"], d["ct"], d["out"], d["err"], d["panic"], d["by"] = vt.Hex(aad), s.Ct, vt.Hex(out), cls, pan, "spec"
		x.tw.Emit(d)
	}
}

func readLines(path string) [][]byte {
	f, err := os.Open(path)
	if err != nil {
		vt.Fatal("open %s: %v", path, err)
	}
	defer f.Close()
	rd := bufio.NewReaderSize(f, 1<<20)
	var out [][]byte
	for {
		line, err := rd.ReadBytes('\n')
		if len(bytes.TrimSpace(line)) > 0 {
			out = append(out, line)
		}
		if err == io.EOF {
			break
		}
		if err != nil {
			vt.Fatal("read %s: %v", path, err)
		}
	}
	return out
}

// replay of recorded format events: the same configuration and inputs against the current tree
func redoFormat(x *runner, path string) {
	r := vt.Rng(76)
	for _, line := range readLines(path) {
		var q map[string]any
		if err := json.Unmarshal(line, &q); err != nil {
			vt.Fatal("bad event: %v", err)
		}
		k := specOfEvent(q)
		p, err := newPrim(k)
		if err != nil { // refused: recorded; the specification judges
			e := cfgEv(q["ev"].(string), k)
			e["aad"], e["panic"], e["by"], e["what"] = q["aad"], false, "replay", err.Error()
			if q["ev"] == "enc" {
				e["pt"], e["ct"], e["err"] = q["pt"], "", true
			} else {
				e["ct"], e["out"], e["err"] = q["ct"], "", "ERR"
			}
			x.tw.Emit(e)
			continue
		}
		seg := k.C - k.Tag
		f := seg - k.UserOff - (1 + k.KeySize + 7)
		aad := vt.Unhex(q["aad"].(string))
		if q["ev"] == "enc" {
			pt := vt.Unhex(q["pt"].(string))
			ct, err := encryptAll(p, r, aad, pt, f, seg)
			e := cfgEv("enc", k)
			e["aad"], e["pt"], e["ct"], e["err"] = vt.Hex(aad), vt.Hex(pt), vt.Hex(ct), err != nil
			x.tw.Emit(e)
			continue
		}
		ct := vt.Unhex(q["ct"].(string))
		for j := 0; j < 8; j++ { // several read partitions / short-read policies
			out, cls, pan := decryptAll(p, r, aad, ct, f, seg)
			d := cfgEv("dec", k)
			d["aad"], d["ct"], d["out"], d["err"], d["panic"], d["by"] = vt.Hex(aad), vt.Hex(ct), vt.Hex(out), cls, pan, "replay"
			x.tw.Emit(d)
		}
	}
}
