package main

import (
	"math/rand"

	"verifharness/vt"
)

// ---- seeded scenario generators (boundary classes around the segment sizes) --------------------

func pick(r *rand.Rand, xs ...int) int { return xs[r.Intn(len(xs))] }

func nsegs(n, f, p int) int {
	if n <= f {
		return 1
	}
	return 1 + (n-f+p-1)/p
}

// lengths of the positional pieces of a stream of l bytes (StreamOps.Pieces)
func pieceLens(sc *scenario, l int) []int {
	h := 0
	for _, x := range sc.Hdr {
		h += x
	}
	l -= min(h, l)
	c := sc.P + sc.T - sc.Off
	var out []int
	for l > 0 {
		k := min(c, l)
		out = append(out, k)
		l -= k
		c = sc.P + sc.T
	}
	return out
}

// a random manipulation of a stream of l bytes and the length of the result
func randManip(r *rand.Rand, sc *scenario, l int, segOnly bool) (manip, int) {
	pl := pieceLens(sc, l)
	k := len(pl)
	c := sc.P + sc.T
	for {
		switch r.Intn(7) {
		case 0:
			if l > 0 && !segOnly {
				at := r.Intn(l)
				if r.Intn(2) == 0 { // prefer cuts at segment boundaries
					h := l
					for _, x := range pl {
						h -= x
					}
					at = h
					for _, x := range pl[:r.Intn(k+1)] {
						at += x
					}
					at = min(max(at+pick(r, -1, 0, 0, 1), 0), l-1)
				}
				return manip{Kind: "trunc", At: at}, at
			}
		case 1:
			if l > 0 && !segOnly {
				return manip{Kind: "alter", At: r.Intn(l)}, l
			}
		case 2:
			n := pick(r, 1, 1, 2, c-1, c, c+1, 1+r.Intn(2*c))
			if n >= 1 {
				return manip{Kind: "append", N: n}, l + n
			}
		case 3:
			if k > 0 {
				i := r.Intn(k)
				return manip{Kind: "drop", I: i}, l - pl[i]
			}
		case 4:
			if k > 0 {
				i := r.Intn(k)
				return manip{Kind: "dup", I: i, J: r.Intn(k + 1)}, l + pl[i]
			}
		case 5:
			if k > 1 {
				perm := r.Perm(k)
				return manip{Kind: "perm", Perm: perm}, l
			}
		case 6:
			return manip{Kind: "aad"}, l
		}
	}
}

func randPolicy(r *rand.Rand, c int, allowOne bool) *policy {
	switch r.Intn(6) {
	case 0:
		return &policy{Mode: "greedy"}
	case 1:
		if allowOne {
			return &policy{Mode: "one"}
		}
		return &policy{Mode: "half"}
	case 2:
		return &policy{Mode: "half"}
	case 3:
		return &policy{Mode: "eager"}
	}
	n := 1 + r.Intn(6)
	l := make([][2]int, n)
	for i := range l {
		lo := 1
		if !allowOne {
			lo = c / 8
		}
		l[i] = [2]int{lo + r.Intn(c+2), r.Intn(2)}
	}
	return &policy{Mode: "list", List: l}
}

// partition of n bytes into Write sizes from boundary classes (zero-length writes included)
func randChunks(r *rand.Rand, n, f, p int) []int {
	var out []int
	left := n
	if r.Intn(6) == 0 {
		out = append(out, 0)
	}
	for left > 0 {
		c := pick(r, 0, 1, 1, f-1, f, f+1, p-1, p, p+1, 2*p, 2*p+1, f+p, f+2*p, 1+r.Intn(3*p), left)
		c = min(max(c, 0), left)
		out = append(out, c)
		left -= c
	}
	if r.Intn(4) == 0 {
		out = append(out, 0)
	}
	return out
}

func randReadSizes(r *rand.Rand, f, p int) []int {
	n := 1 + r.Intn(4)
	out := make([]int, n)
	pos := false
	for i := range out {
		out[i] = max(0, pick(r, 0, 1, 1, 2, f-1, f, f+1, p-1, p, p+1, 2*p, 3*p+1, 1+r.Intn(2*p)))
		pos = pos || out[i] > 0
	}
	if !pos {
		out[0] = 1 + r.Intn(p)
	}
	return out
}

// keep the number of Read calls of a scenario in the hundreds: grow the sizes with the plaintext
func scaleReads(sizes []int, n int) []int {
	sum := 0
	for _, x := range sizes {
		sum += x
	}
	for sum*100 < n*len(sizes) {
		for i := range sizes {
			sizes[i] *= 2
		}
		sum *= 2
	}
	return sizes
}

// the operations of one generated scenario over parameters already fixed in sc (P, T, Off, Hdr)
func genOps(r *rand.Rand, sc *scenario, allowOne bool, maxSegs int) {
	f, p, t := sc.P-sc.Off, sc.P, sc.T
	h := 0
	for _, x := range sc.Hdr {
		h += x
	}
	top := f + (maxSegs-1)*p
	n := pick(r, 0, 1, f-1, f, f+1, f+p-1, f+p, f+p+1, f+2*p, f+2*p+1, top, r.Intn(top+1), r.Intn(top+1))
	n = min(max(n, 0), top)
	sc.MaxN = n + 4
	ops := []op{{Op: "NewWriter"}}
	for _, c := range randChunks(r, n, f, p) {
		ops = append(ops, op{Op: "Write", N: c})
	}
	ops = append(ops, op{Op: "Close"})
	segs := nsegs(n, f, p)
	if r.Intn(8) == 0 { // persistent failure of the underlying writer at some call (header write included)
		sc.SinkFail = 1 + r.Intn(segs+1)
		if r.Intn(3) == 0 {
			ops = append(ops, op{Op: "Close"})
		}
		sc.Ops = ops
		return
	}
	switch r.Intn(12) {
	case 0:
		ops = append(ops, op{Op: "Close"})
	case 1:
		ops = append(ops, op{Op: "Write", N: r.Intn(3)}) // write on a closed writer: an error, nothing reaches the sink
		sc.Ops = ops
		return
	}
	l := h + n + segs*t
	tam := op{Op: "Tamper", Pol: randPolicy(r, p+t, allowOne)}
	switch r.Intn(10) {
	case 0, 1, 2, 3: // untouched
		if r.Intn(4) == 0 {
			calls := 3 + l // upper bound on the number of underlying calls is policy dependent; any index is legal
			tam.SrcFail = 1 + r.Intn(min(calls, 4*(segs+3)))
			tam.FailK = r.Intn(4)
		}
	case 4:
		m1, l1 := randManip(r, sc, l, false)
		m2, _ := randManip(r, sc, l1, false)
		tam.M = []manip{m1, m2}
	default:
		m1, _ := randManip(r, sc, l, false)
		tam.M = []manip{m1}
	}
	ops = append(ops, tam, op{Op: "NewReader"},
		op{Op: "Reads", Sizes: scaleReads(randReadSizes(r, f, p), n), Extra: 2, Max: min(3*n+12*segs+20, 600)})
	sc.Ops = ops
}

func genToy(x *runner, n int) {
	r := vt.Rng(71)
	for i := 0; i < n; i++ {
		p := 2 + r.Intn(6)
		sc := scenario{Lvl: "toy", P: p, T: 4, Off: r.Intn(p), Hdr: []int{}, Seed: r.Int63(), Dst: r.Intn(2) == 0,
			PrefixLen: pick(r, 0, 3, 7), Tag: "gen-toy"}
		sc.NonceSize = sc.PrefixLen + 5 + pick(r, 0, 0, 4)
		genOps(r, &sc, true, 5)
		x.run(sc)
	}
}

var hashLens = map[string]int{"SHA1": 20, "SHA224": 28, "SHA256": 32, "SHA384": 48, "SHA512": 64}

func randKeySpec(r *rand.Rand, big bool) keySpec {
	hashes := []string{"SHA1", "SHA224", "SHA256", "SHA384", "SHA512"}
	k := keySpec{Alg: []string{"GCM", "CTR"}[r.Intn(2)], KeySize: pick(r, 16, 32), Hkdf: hashes[r.Intn(5)], Tag: 16}
	k.MainKey = vt.Hex(vt.Bytes(r, k.KeySize+pick(r, 0, 0, 1, 16)))
	if k.Alg == "CTR" {
		k.TagAlg = hashes[r.Intn(5)]
		k.Tag = pick(r, 10, 10, 16, hashLens[k.TagAlg], 10+r.Intn(hashLens[k.TagAlg]-9))
	}
	k.UserOff = pick(r, 0, 0, 0, 1, 8, r.Intn(40))
	lo := k.UserOff + 1 + k.KeySize + 7 + k.Tag + 1 // smallest legal ciphertext segment size
	k.C = pick(r, lo, lo, lo+1, lo+2, lo+7, lo+r.Intn(64), 256+k.UserOff, 4096)
	if big && r.Intn(3) == 0 {
		k.C = 1 << 20
	}
	k.C = max(k.C, lo)
	return k
}

func genArith(x *runner, n int) {
	r := vt.Rng(72)
	for i := 0; i < n; i++ {
		k := randKeySpec(r, vt.Thorough())
		h := 1 + k.KeySize + 7
		sc := scenario{Lvl: "arith", P: k.C - k.Tag, T: k.Tag, Off: k.UserOff + h, Hdr: []int{1, k.KeySize, 7}, Seed: r.Int63(),
			Keys: []keySpec{k}, Tag: "gen-arith"}
		segs := 5
		if k.C > 4096 {
			segs = 3
		}
		genOps(r, &sc, k.C <= 300, segs)
		x.run(sc)
	}
}

// ---- systematic sweeps at the arith level: every cut point, every altered byte, every segment-level
// manipulation, every failure index, for small streams of real AES-GCM-HKDF / AES-CTR-HMAC objects ----

func permutations(k int) [][]int {
	if k == 0 {
		return [][]int{{}}
	}
	var out [][]int
	for _, p := range permutations(k - 1) {
		for i := 0; i <= len(p); i++ {
			q := append(append(append([]int{}, p[:i]...), k-1), p[i:]...)
			out = append(out, q)
		}
	}
	return out
}

func genSweep(x *runner, level int) {
	r := vt.Rng(77)
	specs := []keySpec{
		{Alg: "GCM", KeySize: 16, Hkdf: "SHA256", Tag: 16, UserOff: 0},
		{Alg: "CTR", KeySize: 16, Hkdf: "SHA1", TagAlg: "SHA256", Tag: 10, UserOff: 1},
		{Alg: "GCM", KeySize: 32, Hkdf: "SHA512", Tag: 16, UserOff: 5},
		{Alg: "CTR", KeySize: 32, Hkdf: "SHA256", TagAlg: "SHA512", Tag: 33, UserOff: 0},
	}
	if level == 0 {
		specs = specs[:2]
	}
	for si, k := range specs {
		k.MainKey = vt.Hex(vt.Bytes(r, k.KeySize))
		h := 1 + k.KeySize + 7
		k.C = k.UserOff + h + k.Tag + 1 + 2 + si // first segment 3.. bytes
		p, f := k.C-k.Tag, k.C-k.Tag-k.UserOff-h
		base := scenario{Lvl: "arith", P: p, T: k.Tag, Off: k.UserOff + h, Hdr: []int{1, k.KeySize, 7}, Keys: []keySpec{k}, Tag: "sweep"}
		lens := []int{f + p + 1, 0, f, f + 2*p}
		if level == 0 {
			lens = lens[:1+si]
		}
		for _, n := range lens {
			segs := nsegs(n, f, p)
			l := h + n + segs*k.Tag
			mk := func(sinkFail int, tam *op) scenario {
				sc := base
				sc.Seed, sc.MaxN, sc.SinkFail = r.Int63(), n+2, sinkFail
				sc.Ops = []op{{Op: "NewWriter"}}
				for _, c := range randChunks(r, n, f, p) {
					sc.Ops = append(sc.Ops, op{Op: "Write", N: c})
				}
				sc.Ops = append(sc.Ops, op{Op: "Close"})
				if tam != nil {
					if tam.Pol == nil {
						tam.Pol = randPolicy(r, k.C, true)
					}
					sc.Ops = append(sc.Ops, *tam, op{Op: "NewReader"}, op{Op: "Reads", Sizes: randReadSizes(r, f, p), Extra: 1, Max: 3*n + 12*segs + 20})
				}
				return sc
			}
			// every failure index of the underlying writer (header write, each segment, one beyond)
			for sf := 1; sf <= segs+2; sf++ {
				x.run(mk(sf, nil))
			}
			// every failure index of the underlying reader, for each fixed short-read policy, with and without data
			for _, mode := range []string{"greedy", "half", "eager", "one"} {
				calls := 0
				{ // count the underlying calls of an undisturbed run with this policy
					probe := mk(0, &op{Op: "Tamper", Pol: &policy{Mode: mode}})
					c0 := x.srcCalls
					x.run(probe)
					calls = x.srcCalls - c0
				}
				for sf := 1; sf <= calls+1; sf++ {
					if mode == "one" && level == 0 && sf%3 != 1 {
						continue
					}
					x.run(mk(0, &op{Op: "Tamper", SrcFail: sf, FailK: (sf % 3), Pol: &policy{Mode: mode}}))
				}
			}
			// every cut point and every altered byte
			for at := 0; at < l; at++ {
				x.run(mk(0, &op{Op: "Tamper", M: []manip{{Kind: "trunc", At: at}}}))
				x.run(mk(0, &op{Op: "Tamper", M: []manip{{Kind: "alter", At: at}}}))
			}
			// segment-level manipulations
			for i := 0; i < segs; i++ {
				x.run(mk(0, &op{Op: "Tamper", M: []manip{{Kind: "drop", I: i}}}))
				for j := 0; j <= segs; j++ {
					x.run(mk(0, &op{Op: "Tamper", M: []manip{{Kind: "dup", I: i, J: j}}}))
				}
			}
			if segs <= 4 {
				for _, pm := range permutations(segs) {
					x.run(mk(0, &op{Op: "Tamper", M: []manip{{Kind: "perm", Perm: pm}}}))
				}
			}
			for _, a := range []int{1, 2, k.C - 1, k.C, k.C + 1} {
				x.run(mk(0, &op{Op: "Tamper", M: []manip{{Kind: "append", N: a}}}))
			}
			x.run(mk(0, &op{Op: "Tamper", M: []manip{{Kind: "aad"}}}))
		}
	}
}
