package main

import (
	"bytes"
	"encoding/json"
	"fmt"
	"io"
	"math/rand"

	"verifharness/vt"

	"github.com/tink-crypto/tink-go/v2/insecuresecretdataaccess"
	"github.com/tink-crypto/tink-go/v2/key"
	"github.com/tink-crypto/tink-go/v2/keyset"
	"github.com/tink-crypto/tink-go/v2/secretdata"
	"github.com/tink-crypto/tink-go/v2/streamingaead"
	"github.com/tink-crypto/tink-go/v2/streamingaead/aesctrhmac"
	"github.com/tink-crypto/tink-go/v2/streamingaead/aesgcmhkdf"
	"github.com/tink-crypto/tink-go/v2/tink"
)

// ---- keyset level: streamingaead.New(handle), the decryptReader of decrypt_reader.go --------------

func gcmHash(h string) aesgcmhkdf.HashType {
	return map[string]aesgcmhkdf.HashType{"SHA1": aesgcmhkdf.SHA1, "SHA256": aesgcmhkdf.SHA256, "SHA512": aesgcmhkdf.SHA512}[h]
}
func ctrHash(h string) aesctrhmac.HashType {
	return map[string]aesctrhmac.HashType{"SHA1": aesctrhmac.SHA1, "SHA256": aesctrhmac.SHA256, "SHA512": aesctrhmac.SHA512}[h]
}

// The keys are built from parameters the documentation declares legal; a refusal by Tink is Tink's behaviour,
// so it is returned (and recorded by the callers), never a driver error.
func realKey(k keySpec) (key.Key, error) {
	kb := secretdata.NewBytesFromData(vt.Unhex(k.MainKey), insecuresecretdataaccess.Token{})
	if k.Alg == "GCM" {
		p, err := aesgcmhkdf.NewParameters(aesgcmhkdf.ParametersOpts{KeySizeInBytes: kb.Len(), DerivedKeySizeInBytes: k.KeySize,
			HKDFHashType: gcmHash(k.Hkdf), SegmentSizeInBytes: int32(k.C)})
		if err != nil {
			return nil, fmt.Errorf("aesgcmhkdf.NewParameters: %v", err)
		}
		kk, err := aesgcmhkdf.NewKey(p, kb)
		if err != nil {
			return nil, fmt.Errorf("aesgcmhkdf.NewKey: %v", err)
		}
		return kk, nil
	}
	p, err := aesctrhmac.NewParameters(aesctrhmac.ParametersOpts{KeySizeInBytes: kb.Len(), DerivedKeySizeInBytes: k.KeySize,
		HkdfHashType: ctrHash(k.Hkdf), HmacHashType: ctrHash(k.TagAlg), HmacTagSizeInBytes: k.Tag, SegmentSizeInBytes: int32(k.C)})
	if err != nil {
		return nil, fmt.Errorf("aesctrhmac.NewParameters: %v", err)
	}
	kk, err := aesctrhmac.NewKey(p, kb)
	if err != nil {
		return nil, fmt.Errorf("aesctrhmac.NewKey: %v", err)
	}
	return kk, nil
}

// the primitive of a handle over the given keys (keyset order = slice order) with the given primary
func handleOf(ks []keySpec, primary int) (tink.StreamingAEAD, error) {
	m := keyset.NewManager()
	var ids []uint32
	for _, k := range ks {
		kk, err := realKey(k)
		if err != nil {
			return nil, err
		}
		id, err := m.AddKey(kk)
		if err != nil {
			return nil, fmt.Errorf("Manager.AddKey: %v", err)
		}
		ids = append(ids, id)
	}
	if err := m.SetPrimary(ids[primary]); err != nil {
		return nil, fmt.Errorf("Manager.SetPrimary: %v", err)
	}
	h, err := m.Handle()
	if err != nil {
		return nil, fmt.Errorf("Manager.Handle: %v", err)
	}
	p, err := streamingaead.New(h)
	if err != nil {
		return nil, fmt.Errorf("streamingaead.New: %v", err)
	}
	return p, nil
}

func paramsOf(k keySpec) map[string]any {
	return map[string]any{"P": k.C - k.Tag, "T": k.Tag, "Off": k.UserOff + 1 + k.KeySize + 7, "hdr": []int{1, k.KeySize, 7}}
}

func (x *runner) runKeyset(sc scenario) {
	rng := rand.New(rand.NewSource(sc.Seed))
	raw, _ := json.Marshal(sc)
	cands := make([]map[string]any, len(sc.Keys))
	for i, k := range sc.Keys {
		cands[i] = paramsOf(k)
	}
	x.tw.Emit(vt.Ev{"ev": "reset", "lvl": "keyset", "cands": cands, "writer": sc.Primary + 1, "scn": string(raw)})
	defer x.tw.Emit(vt.Ev{"ev": "end"})
	// the writer: a handle whose primary is the chosen key, or a foreign key with the parameters of the first
	setupFailed := func(what string, err error) {
		x.tw.Emit(vt.Ev{"ev": "Setup", "err": true, "what": what + ": " + err.Error()})
	}
	var wk keySpec
	var enc tink.StreamingAEAD
	var err error
	if sc.Primary >= 0 {
		wk = sc.Keys[sc.Primary]
		enc, err = handleOf(sc.Keys, sc.Primary)
	} else {
		wk = sc.Keys[0]
		wk.MainKey = vt.Hex(vt.Bytes(rng, len(wk.MainKey)/2))
		enc, err = handleOf([]keySpec{wk}, 0)
	}
	if err != nil {
		setupFailed("encrypting handle", err)
		return
	}
	dec, err := handleOf(sc.Keys, rng.Intn(len(sc.Keys)))
	if err != nil {
		setupFailed("decrypting handle", err)
		return
	}
	pt, aad := vt.Bytes(rng, sc.MaxN), vt.Bytes(rng, rng.Intn(20))
	seg := wk.C - wk.Tag
	f := seg - (1 + wk.KeySize + 7)
	ct, err := encryptAll(enc, rng, aad, pt, f, seg)
	if err != nil {
		setupFailed("encryption with the primary key", err)
		return
	}
	wsc := scenario{P: seg, T: wk.Tag, Off: 1 + wk.KeySize + 7, Hdr: []int{1, wk.KeySize, 7}}
	var (
		r    io.Reader
		src  *source
		got  int
		post bool
	)
	for _, o := range sc.Ops {
		switch o.Op {
		case "Tamper":
			st, a := ct, aad
			for _, m := range o.M {
				st = apply(&wsc, m, st, rng)
				if m.Kind == "aad" {
					a = append(append([]byte{}, aad...), 7)
				}
			}
			src = &source{rest: append([]byte{}, st...), failFrom: o.SrcFail, failK: o.FailK, pol: *o.Pol}
			ms := o.M
			if ms == nil {
				ms = []manip{}
			}
			for i := range ms {
				if ms[i].Perm == nil {
					ms[i].Perm = []int{}
				}
			}
			x.tw.Emit(vt.Ev{"ev": "Stream", "N": len(pt), "m": ms, "srcFail": o.SrcFail, "len": len(st)})
			r, err = dec.NewDecryptingReader(src, a)
			if err != nil || len(src.log) != 0 { // the model's constructor succeeds without I/O
				x.tw.Emit(vt.Ev{"ev": "Setup", "err": err != nil, "io": len(src.log), "what": fmt.Sprintf("NewDecryptingReader of the wrapped primitive: %v", err)})
				return
			}
		case "Reads":
			for k, after := 0, -1; k < o.Max && after != 0; k++ {
				sz := o.Sizes[k%len(o.Sizes)]
				p := make([]byte, sz)
				var n int
				var err error
				pan, _ := vt.Try(func() { n, err = r.Read(p) })
				e := vt.Ev{"ev": "Read", "n": sz, "ret": n, "err": errClass(err), "panic": pan, "calls": src.take(), "post": post}
				post = post || err != nil
				if pan || n < 0 || n > sz {
					x.tw.Emit(e)
					return
				}
				off := -1
				if got+n <= len(pt) && bytes.Equal(p[:n], pt[got:got+n]) {
					off = got
				} else if n > 0 {
					off = bytes.Index(pt, p[:n])
				}
				e["off"] = off
				if off >= 0 {
					got = off + n
				}
				x.tw.Emit(e)
				if after > 0 {
					after--
				} else if err != nil {
					after = o.Extra
				}
			}
		default:
			vt.Fatal("keyset level: unknown op %q", o.Op)
		}
	}
}

func genKeyset(x *runner, n int) {
	r := vt.Rng(75)
	hashes := []string{"SHA1", "SHA256", "SHA512"}
	for i := 0; i < n; i++ {
		nk := 1 + r.Intn(4)
		ks := make([]keySpec, nk)
		for j := range ks {
			k := keySpec{Alg: []string{"GCM", "CTR"}[r.Intn(2)], KeySize: pick(r, 16, 32), Hkdf: hashes[r.Intn(3)], Tag: 16}
			k.MainKey = vt.Hex(vt.Bytes(r, pick(r, k.KeySize, 32)))
			if k.Alg == "CTR" {
				k.TagAlg = hashes[r.Intn(3)]
				k.Tag = pick(r, 10, 16, hashLens[k.TagAlg])
			}
			lo := 1 + k.KeySize + 7 + k.Tag + 1
			k.C = pick(r, lo, lo+1, lo+5, lo+r.Intn(40), 128, 256)
			if vt.Thorough() && r.Intn(6) == 0 {
				k.C = 4096
			}
			if j > 0 && r.Intn(4) == 0 { // same parameters as the previous key, other key material
				k = ks[j-1]
				k.MainKey = vt.Hex(vt.Bytes(r, len(k.MainKey)/2))
			}
			ks[j] = k
		}
		sc := scenario{Lvl: "keyset", Keys: ks, Primary: r.Intn(nk+1) - 1, Seed: r.Int63(), Tag: "gen-keyset"}
		if r.Intn(4) != 0 && sc.Primary < 0 {
			sc.Primary = r.Intn(nk)
		}
		wk := ks[max(sc.Primary, 0)]
		// the writer's parameters decide the boundary classes
		tmp := scenario{P: wk.C - wk.Tag, T: wk.Tag, Off: 1 + wk.KeySize + 7, Hdr: []int{1, wk.KeySize, 7}}
		genOps(r, &tmp, wk.C <= 300, 4)
		sc.MaxN = tmp.MaxN - 4
		for _, o := range tmp.Ops {
			if o.Op == "Tamper" || o.Op == "Reads" {
				sc.Ops = append(sc.Ops, o)
			}
		}
		if len(sc.Ops) != 2 { // the generated scenario ended on the writer side (sink failure etc.): read untouched
			sc.Ops = []op{{Op: "Tamper", Pol: randPolicy(r, wk.C, wk.C <= 300)},
				{Op: "Reads", Sizes: randReadSizes(r, tmp.P-tmp.Off, tmp.P), Extra: 2, Max: 3*sc.MaxN + 80}}
		}
		if r.Intn(8) == 0 { // the first Read of all is a zero-length read
			sc.Ops[1].Sizes = append([]int{0}, sc.Ops[1].Sizes...)
		}
		x.run(sc)
	}
}
