// c07: conformance driver for property C07 (streaming AEAD). It executes scenarios -- an encryption
// through a sequence of Write calls and Close over an underlying writer that may fail, a manipulation
// of the finished ciphertext, a decryption through a sequence of Read calls over an underlying reader
// with short reads / data-with-EOF / failures -- on the REAL objects and records one event per public
// call: what it returned, what it handed to the underlying writer, what it asked of the underlying
// reader. TLC judges the trace (spec/trace/Trace_Streaming.tla, Trace_KeysetReader.tla,
// Trace_StreamFormat.tla). The driver never decides whether a result is right.
//
// Levels: "toy" = real noncebased.Writer/Reader around a harness segment cipher whose sizes equal the
// model's; "arith" = real subtle.AESGCMHKDF / subtle.AESCTRHMAC with real sizes; "keyset" =
// streamingaead.New(handle) over several keys; "format" = whole ciphertext bytes for the format clause.
package main

import (
	"bufio"
	"bytes"
	"crypto/sha256"
	"encoding/json"
	"errors"
	"flag"
	"io"
	"math/rand"
	"os"

	"verifharness/vt"

	"github.com/tink-crypto/tink-go/v2/streamingaead/subtle"
	"github.com/tink-crypto/tink-go/v2/streamingaead/subtle/noncebased"
	"github.com/tink-crypto/tink-go/v2/tink"
)

var errInjected = errors.New("injected I/O failure")

// ---------------------------------------------------------------------------------------------
// scenario (the driver's input; produced by plans from the TLC graph or by the seeded generators)

type manip struct {
	Kind string `json:"kind"`
	At   int    `json:"at"`
	N    int    `json:"n"`
	I    int    `json:"i"`
	J    int    `json:"j"`
	Perm []int  `json:"perm"`
}

// policy of the underlying reader: how many bytes a call delivers and whether the final bytes come
// together with io.EOF. Modes: greedy, one, half, eager, list (List[j] = [max bytes, eager 0/1], cyclic).
type policy struct {
	Mode string   `json:"mode"`
	List [][2]int `json:"list,omitempty"`
}

type op struct {
	Op      string  `json:"op"` // NewWriter, Write, Close, Tamper, NewReader, Read
	N       int     `json:"n,omitempty"`
	M       []manip `json:"m,omitempty"`
	SrcFail int     `json:"srcFail,omitempty"`
	FailK   int     `json:"failK,omitempty"`
	Pol     *policy `json:"pol,omitempty"`
	// Reads: Read calls with the sizes Sizes (cyclic) until a call returns a non-nil error, then Extra more; at most Max
	Sizes []int `json:"sizes,omitempty"`
	Extra int   `json:"extra,omitempty"`
	Max   int   `json:"max,omitempty"`
}

type keySpec struct {
	Alg     string `json:"alg"` // GCM or CTR
	MainKey string `json:"mainKey"`
	Hkdf    string `json:"hkdf"`
	KeySize int    `json:"keySize"`
	TagAlg  string `json:"tagAlg,omitempty"`
	Tag     int    `json:"tag"`
	C       int    `json:"c"`
	UserOff int    `json:"userOff"`
	Via     string `json:"via,omitempty"` // format stage: "keytype" = through the key type and streamingaead.New(handle)
}

type scenario struct {
	Lvl      string `json:"lvl"`
	P        int    `json:"P"`
	T        int    `json:"T"`
	Off      int    `json:"Off"`
	Hdr      []int  `json:"hdr"`
	SinkFail int    `json:"sinkFail"`
	Seed     int64  `json:"seed"` // plaintext, keys, junk
	MaxN     int    `json:"maxN"` // plaintext bytes available to the Write calls
	// toy
	Dst       bool `json:"dst,omitempty"`
	NonceSize int  `json:"nonceSize,omitempty"`
	PrefixLen int  `json:"prefixLen,omitempty"`
	// arith: one key; keyset: several, Primary is the index of the encrypting key
	Keys    []keySpec `json:"keys,omitempty"`
	Primary int       `json:"primary,omitempty"`
	Ops     []op      `json:"ops"`
	Tag     string    `json:"tag,omitempty"` // where the scenario comes from (evidence only)
}

// ---------------------------------------------------------------------------------------------
// underlying writer / reader

type sinkCall struct {
	D   string `json:"d,omitempty"`
	N   int    `json:"n"`
	Err bool   `json:"err"`
}

type sink struct {
	buf      []byte
	calls    int
	failFrom int
	hexlog   bool
	log      []sinkCall
}

func (s *sink) Write(p []byte) (int, error) {
	s.calls++
	if s.failFrom > 0 && s.calls >= s.failFrom {
		s.log = append(s.log, sinkCall{N: len(p), Err: true})
		return 0, errInjected
	}
	s.buf = append(s.buf, p...)
	c := sinkCall{N: len(p)}
	if s.hexlog {
		c.D = vt.Hex(p)
	}
	s.log = append(s.log, c)
	return len(p), nil
}

func (s *sink) take() []sinkCall {
	l := s.log
	s.log = nil
	if l == nil {
		l = []sinkCall{}
	}
	return l
}

type srcCall struct {
	Want int    `json:"want"`
	N    int    `json:"n"`
	Err  string `json:"err"`
}

type source struct {
	rest     []byte
	calls    int
	failFrom int
	failK    int
	pol      policy
	log      []srcCall
}

func (s *source) Read(p []byte) (int, error) {
	s.calls++
	want := len(p)
	m := min(want, len(s.rest))
	if s.failFrom > 0 && s.calls >= s.failFrom {
		k := min(s.failK, m)
		copy(p, s.rest[:k])
		s.rest = s.rest[k:]
		s.log = append(s.log, srcCall{want, k, "ERR"})
		return k, errInjected
	}
	if len(s.rest) == 0 {
		s.log = append(s.log, srcCall{want, 0, "EOF"})
		return 0, io.EOF
	}
	n, eager := m, false
	switch s.pol.Mode {
	case "one":
		n = min(1, m)
	case "half":
		n = (m + 1) / 2
	case "eager":
		eager = true
	case "list":
		e := s.pol.List[(s.calls-1)%len(s.pol.List)]
		n = max(1, min(e[0], m))
		if want == 0 {
			n = 0
		}
		eager = e[1] != 0
	}
	copy(p, s.rest[:n])
	s.rest = s.rest[n:]
	if eager && len(s.rest) == 0 && n > 0 {
		s.log = append(s.log, srcCall{want, n, "EOF"})
		return n, io.EOF
	}
	s.log = append(s.log, srcCall{want, n, "nil"})
	return n, nil
}

func (s *source) take() []srcCall {
	l := s.log
	s.log = nil
	if l == nil {
		l = []srcCall{}
	}
	return l
}

// ---------------------------------------------------------------------------------------------
// the harness segment cipher: segment || SHA-256(key || nonce || segment)[:tag]

type toyCipher struct {
	key []byte
	tag int
}

func (c toyCipher) seal(segment, nonce []byte) []byte {
	h := sha256.New()
	h.Write(c.key)
	h.Write(nonce)
	h.Write(segment)
	out := append([]byte{}, segment...)
	return append(out, h.Sum(nil)[:c.tag]...)
}

func (c toyCipher) EncryptSegment(segment, nonce []byte) ([]byte, error) {
	return c.seal(segment, nonce), nil
}

func (c toyCipher) DecryptSegment(segment, nonce []byte) ([]byte, error) {
	if len(segment) < c.tag {
		return nil, errors.New("toy: segment too short")
	}
	n := len(segment) - c.tag
	if !bytes.Equal(c.seal(segment[:n], nonce), segment) {
		return nil, errors.New("toy: tag mismatch")
	}
	return append([]byte{}, segment[:n]...), nil
}

// toyCipherDst additionally has the WithDst methods, which noncebased prefers when present.
type toyCipherDst struct{ toyCipher }

func (c toyCipherDst) EncryptSegmentWithDst(dst, segment, nonce []byte) ([]byte, error) {
	if len(dst) != 0 {
		return nil, errors.New("dst must be empty")
	}
	return append(dst, c.seal(segment, nonce)...), nil
}

func (c toyCipherDst) DecryptSegmentWithDst(dst, segment, nonce []byte) ([]byte, error) {
	if len(dst) != 0 {
		return nil, errors.New("dst must be empty")
	}
	pt, err := c.DecryptSegment(segment, nonce)
	if err != nil {
		return nil, err
	}
	return append(dst, pt...), nil
}

// ---------------------------------------------------------------------------------------------
// makers: how a level creates its encrypting writer / decrypting reader

type maker interface {
	newWriter(w io.Writer, altAad bool) (io.WriteCloser, error)
	newReader(r io.Reader, altAad bool) (io.Reader, error)
}

type toyMaker struct {
	sc         *scenario
	key, key2  []byte
	prefix     []byte
	nonceSize  int
	withDstAPI bool
}

func (m *toyMaker) cipher(alt bool) toyCipher {
	if alt {
		return toyCipher{m.key2, m.sc.T}
	}
	return toyCipher{m.key, m.sc.T}
}

func (m *toyMaker) newWriter(w io.Writer, alt bool) (io.WriteCloser, error) {
	var enc noncebased.SegmentEncrypter = m.cipher(alt)
	if m.withDstAPI {
		enc = toyCipherDst{m.cipher(alt)}
	}
	return noncebased.NewWriter(noncebased.WriterParams{W: w, SegmentEncrypter: enc, NonceSize: m.nonceSize, NoncePrefix: m.prefix,
		PlaintextSegmentSize: m.sc.P, FirstCiphertextSegmentOffset: m.sc.Off})
}

func (m *toyMaker) newReader(r io.Reader, alt bool) (io.Reader, error) {
	var dec noncebased.SegmentDecrypter = m.cipher(alt)
	if m.withDstAPI {
		dec = toyCipherDst{m.cipher(alt)}
	}
	return noncebased.NewReader(noncebased.ReaderParams{R: r, SegmentDecrypter: dec, NonceSize: m.nonceSize, NoncePrefix: m.prefix,
		CiphertextSegmentSize: m.sc.P + m.sc.T, FirstCiphertextSegmentOffset: m.sc.Off})
}

type primMaker struct {
	p         tink.StreamingAEAD
	aad, aad2 []byte
}

func (m *primMaker) a(alt bool) []byte {
	if alt {
		return m.aad2
	}
	return m.aad
}
func (m *primMaker) newWriter(w io.Writer, alt bool) (io.WriteCloser, error) {
	return m.p.NewEncryptingWriter(w, m.a(alt))
}
func (m *primMaker) newReader(r io.Reader, alt bool) (io.Reader, error) {
	return m.p.NewDecryptingReader(r, m.a(alt))
}

func newSubtle(k keySpec) (tink.StreamingAEAD, error) {
	mk := vt.Unhex(k.MainKey)
	if k.Alg == "GCM" {
		return subtle.NewAESGCMHKDF(mk, k.Hkdf, k.KeySize, k.C, k.UserOff)
	}
	return subtle.NewAESCTRHMAC(mk, k.Hkdf, k.KeySize, k.TagAlg, k.Tag, k.C, k.UserOff)
}

// ---------------------------------------------------------------------------------------------
// manipulations (positional segments, exactly as StreamOps.Apply)

func pieces(sc *scenario, st []byte) (hd []byte, ps [][]byte) {
	h := 0
	for _, x := range sc.Hdr {
		h += x
	}
	h = min(h, len(st))
	hd, body := st[:h], st[h:]
	c := sc.P + sc.T - sc.Off
	for len(body) > 0 {
		k := min(c, len(body))
		ps = append(ps, body[:k])
		body = body[k:]
		c = sc.P + sc.T
	}
	return
}

func join(hd []byte, ps [][]byte) []byte {
	out := append([]byte{}, hd...)
	for _, p := range ps {
		out = append(out, p...)
	}
	return out
}

func apply(sc *scenario, m manip, st []byte, rng *rand.Rand) []byte {
	hd, ps := pieces(sc, st)
	// A manipulation planned for the stream the model expects may not fit the stream the real code produced
	// (that difference is reported at the Write/Close events): then the stream is left as it is.
	switch {
	case m.Kind == "alter" && m.At >= len(st),
		(m.Kind == "drop" || m.Kind == "dup") && m.I >= len(ps),
		m.Kind == "dup" && m.J > len(ps),
		m.Kind == "perm" && len(m.Perm) != len(ps):
		return append([]byte{}, st...)
	}
	switch m.Kind {
	case "none", "aad":
		return append([]byte{}, st...)
	case "trunc":
		return append([]byte{}, st[:min(m.At, len(st))]...)
	case "alter":
		out := append([]byte{}, st...)
		out[m.At] ^= byte(1 << uint(rng.Intn(8)))
		return out
	case "append":
		return append(append([]byte{}, st...), vt.Bytes(rng, m.N)...)
	case "drop":
		var q [][]byte
		for i, p := range ps {
			if i != m.I {
				q = append(q, p)
			}
		}
		return join(hd, q)
	case "dup":
		var q [][]byte
		for i := 0; i <= len(ps); i++ {
			if i == m.J {
				q = append(q, ps[m.I])
			}
			if i < len(ps) {
				q = append(q, ps[i])
			}
		}
		return join(hd, q)
	case "perm":
		q := make([][]byte, len(ps))
		for i := range ps {
			q[i] = ps[m.Perm[i]]
		}
		return join(hd, q)
	}
	vt.Fatal("unknown manipulation %q", m.Kind)
	return nil
}

// ---------------------------------------------------------------------------------------------
// execution of one scenario

type runner struct {
	tw       *vt.Writer
	srcCalls int // calls on the underlying reader so far (all scenarios)
}

func errClass(err error) string {
	switch {
	case err == nil:
		return "nil"
	case err == io.EOF:
		return "EOF"
	}
	return "ERR"
}

func (x *runner) run(sc scenario) {
	if sc.Lvl == "keyset" {
		x.runKeyset(sc)
		return
	}
	rng := rand.New(rand.NewSource(sc.Seed))
	raw, _ := json.Marshal(sc)
	toy := sc.Lvl == "toy"
	pt := vt.Bytes(rng, sc.MaxN)
	reset := vt.Ev{"ev": "reset", "lvl": sc.Lvl, "P": sc.P, "T": sc.T, "Off": sc.Off, "hdr": sc.Hdr, "sinkFail": sc.SinkFail,
		"scn": string(raw)}
	if sc.Hdr == nil {
		reset["hdr"] = []int{}
	}
	var mk maker
	switch sc.Lvl {
	case "toy":
		tm := &toyMaker{sc: &sc, key: vt.Bytes(rng, 8), key2: vt.Bytes(rng, 8), prefix: vt.Bytes(rng, sc.PrefixLen), nonceSize: sc.NonceSize, withDstAPI: sc.Dst}
		mk = tm
		reset["key"], reset["key2"], reset["prefix"], reset["nonceSize"], reset["pt"] = vt.Hex(tm.key), vt.Hex(tm.key2), vt.Hex(tm.prefix), sc.NonceSize, vt.Hex(pt)
	case "arith":
		p, err := newSubtle(sc.Keys[0])
		if err != nil { // a legal configuration refused: recorded as the failure of the encrypting side's constructor
			x.tw.Emit(reset)
			x.tw.Emit(vt.Ev{"ev": "NewWriter", "err": true, "panic": false, "sink": []sinkCall{}, "what": "constructor of the primitive: " + err.Error()})
			x.tw.Emit(vt.Ev{"ev": "end"})
			return
		}
		mk = &primMaker{p: p, aad: vt.Bytes(rng, rng.Intn(20)), aad2: vt.Bytes(rng, 21)}
	default:
		vt.Fatal("unknown level %q", sc.Lvl)
	}
	x.tw.Emit(reset)
	aborted := false
	defer func() {
		if !aborted {
			x.tw.Emit(vt.Ev{"ev": "end"})
		}
	}()

	sk := &sink{failFrom: sc.SinkFail, hexlog: toy}
	var (
		w      io.WriteCloser
		r      io.Reader
		src    *source
		wpos   int
		got    int  // position in the plaintext behind the bytes returned last
		post   bool // a Read has already returned a non-nil result (what follows is not judged)
		altAad bool
	)
	for _, o := range sc.Ops {
		switch o.Op {
		case "NewWriter":
			var err error
			pan, _ := vt.Try(func() { w, err = mk.newWriter(sk, false) })
			x.tw.Emit(vt.Ev{"ev": "NewWriter", "err": err != nil, "panic": pan, "sink": sk.take()})
			if err != nil || pan {
				return
			}
		case "Write":
			if w == nil || wpos+o.N > len(pt) {
				// the real code consumed more than the plan foresaw (reported at that Write): give up on this scenario
				x.tw.Emit(vt.Ev{"ev": "abort", "why": "Write not executable"})
				aborted = true
				return
			}
			var n int
			var err error
			pan, _ := vt.Try(func() { n, err = w.Write(pt[wpos : wpos+o.N]) })
			x.tw.Emit(vt.Ev{"ev": "Write", "n": o.N, "ret": n, "err": err != nil, "panic": pan, "sink": sk.take()})
			if pan || n < 0 || n > o.N {
				return
			}
			wpos += n
		case "Close":
			var err error
			pan, _ := vt.Try(func() { err = w.Close() })
			x.tw.Emit(vt.Ev{"ev": "Close", "err": err != nil, "panic": pan, "sink": sk.take()})
			if pan {
				return
			}
		case "Tamper":
			st := sk.buf
			for _, m := range o.M {
				st = apply(&sc, m, st, rng)
				if m.Kind == "aad" {
					altAad = true
				}
			}
			pol := policy{Mode: "greedy"}
			if o.Pol != nil {
				pol = *o.Pol
			}
			src = &source{rest: append([]byte{}, st...), failFrom: o.SrcFail, failK: o.FailK, pol: pol}
			ms := o.M
			if ms == nil {
				ms = []manip{}
			}
			for i := range ms {
				if ms[i].Perm == nil {
					ms[i].Perm = []int{}
				}
			}
			e := vt.Ev{"ev": "Tamper", "m": ms, "srcFail": o.SrcFail, "len": len(st)}
			if toy {
				e["stream"] = vt.Hex(st)
			}
			x.tw.Emit(e)
		case "NewReader":
			var err error
			pan, _ := vt.Try(func() { r, err = mk.newReader(src, altAad) })
			cl := src.take()
			x.srcCalls += len(cl)
			// a constructor has no "clean end": any non-nil error is an error (on an empty stream the subtle
			// constructors return the bare io.EOF of io.ReadFull; recorded as bareEOF for information)
			cls := "nil"
			if err != nil {
				cls = "ERR"
			}
			x.tw.Emit(vt.Ev{"ev": "NewReader", "err": cls, "bareEOF": err == io.EOF, "panic": pan, "calls": cl})
			if err != nil || pan {
				return
			}
		case "Read", "Reads":
			sizes, extra, maxn := []int{o.N}, 0, 1
			if o.Op == "Reads" {
				sizes, extra, maxn = o.Sizes, o.Extra, o.Max
			}
			for k, after := 0, -1; k < maxn && after != 0; k++ {
				sz := sizes[k%len(sizes)]
				p := make([]byte, sz)
				var n int
				var err error
				pan, _ := vt.Try(func() { n, err = r.Read(p) })
				e := vt.Ev{"ev": "Read", "n": sz, "ret": n, "err": errClass(err), "panic": pan, "calls": src.take(), "post": post}
				x.srcCalls = x.srcCalls + len(e["calls"].([]srcCall))
				post = post || err != nil
				if pan || n < 0 || n > sz {
					x.tw.Emit(e)
					return
				}
				if toy {
					e["data"] = vt.Hex(p[:n])
				} else {
					// projection of the returned bytes onto the plaintext the driver chose: where they lie in it
					// (first tried right behind what was returned before; -1: not a piece of the plaintext)
					off := -1
					if got+n <= wpos && bytes.Equal(p[:n], pt[got:got+n]) {
						off = got
					} else if n > 0 {
						off = bytes.Index(pt[:wpos], p[:n])
					}
					e["off"] = off
					if off >= 0 {
						got = off + n
					}
				}
				x.tw.Emit(e)
				if after > 0 {
					after--
				} else if err != nil {
					after = extra
				}
			}
		default:
			vt.Fatal("unknown op %q", o.Op)
		}
	}
}

// ---------------------------------------------------------------------------------------------

func main() {
	out := flag.String("out", "", "trace file (ndjson)")
	plan := flag.String("plan", "", "scenario file (ndjson), executed as given")
	gen := flag.String("gen", "", "seeded generator: toy | arith")
	n := flag.Int("n", 100, "number of generated scenarios")
	req := flag.String("req", "", "format: file of encryption requests for the specification (written by -gen format, read by -sealed)")
	sealed := flag.String("sealed", "", "format: ciphertexts made by the specification (Plan_Stream) to be fed to Tink")
	redo := flag.String("redo", "", "format: recorded enc/dec events to execute again (replay)")
	flag.Parse()
	if *out == "" {
		vt.Fatal("-out required")
	}
	x := &runner{tw: vt.NewWriter(*out)}
	defer x.tw.Close()
	switch {
	case *plan != "":
		f, err := os.Open(*plan)
		if err != nil {
			vt.Fatal("open plan: %v", err)
		}
		rd := bufio.NewReaderSize(f, 1<<20)
		for {
			line, err := rd.ReadBytes('\n')
			if len(bytes.TrimSpace(line)) > 0 {
				var sc scenario
				if e := json.Unmarshal(line, &sc); e != nil {
					vt.Fatal("bad scenario: %v", e)
				}
				x.run(sc)
			}
			if err != nil {
				break
			}
		}
	case *gen == "toy":
		genToy(x, *n)
	case *gen == "arith":
		genArith(x, *n)
	case *gen == "sweep":
		genSweep(x, *n)
	case *gen == "keyset":
		genKeyset(x, *n)
	case *gen == "format":
		genFormat(x, *n, *req)
	case *redo != "":
		redoFormat(x, *redo)
	case *sealed != "":
		decSealed(x, *req, *sealed)
	default:
		vt.Fatal("nothing to do")
	}
}
