package main

import (
	"bytes"
	"fmt"
	"sort"
	"sync"

	"google.golang.org/protobuf/proto"

	"verifharness/keyfactory"
	"verifharness/vt"

	"github.com/tink-crypto/tink-go/v2/aead"
	"github.com/tink-crypto/tink-go/v2/core/registry"
	"github.com/tink-crypto/tink-go/v2/daead"
	"github.com/tink-crypto/tink-go/v2/hybrid"
	"github.com/tink-crypto/tink-go/v2/jwt"
	"github.com/tink-crypto/tink-go/v2/key"
	"github.com/tink-crypto/tink-go/v2/keyderivation"
	"github.com/tink-crypto/tink-go/v2/keyset"
	"github.com/tink-crypto/tink-go/v2/mac"
	"github.com/tink-crypto/tink-go/v2/prf"
	tinkpb "github.com/tink-crypto/tink-go/v2/proto/tink_go_proto"
	"github.com/tink-crypto/tink-go/v2/signature"
	"github.com/tink-crypto/tink-go/v2/signprehash"
	"github.com/tink-crypto/tink-go/v2/streamingaead"
	"github.com/tink-crypto/tink-go/v2/testing/verifhooks"
)

// ---------------------------------------------------------------- mgr: what a registered manager says about itself
func doMgr(c *planCase, all []*planCase) []vt.Ev {
	ev := vt.Ev{"ev": "mgr", "url": c.URL, "found": false, "typeURL": "", "supports": []string{}, "probes": 0, "same": false, "isPrivate": false}
	km, err := registry.GetKeyManager(c.URL)
	if err != nil || km == nil {
		return []vt.Ev{ev}
	}
	ev["found"], ev["typeURL"] = true, km.TypeURL()
	km2, err := registry.GetKeyManager(c.URL)
	ev["same"] = err == nil && km2 == km
	_, ev["isPrivate"] = km.(registry.PrivateKeyManager)
	// probes: every manager URL of the plan, every URL that must have no manager, and near misses of the own URL
	probes := []string{c.URL + "x", c.URL[:len(c.URL)-1], "", "type.googleapis.com/", c.URL + " ", " " + c.URL}
	for _, o := range all {
		if o.C == "mgr" || o.C == "unknown" {
			probes = append(probes, o.URL)
		}
	}
	yes := map[string]bool{}
	for _, p := range probes {
		if km.DoesSupport(p) {
			yes[p] = true
		}
	}
	var ys []string
	for p := range yes {
		ys = append(ys, p)
	}
	sort.Strings(ys)
	if ys == nil {
		ys = []string{}
	}
	ev["supports"], ev["probes"] = ys, len(probes)
	return []vt.Ev{ev}
}

// ---------------------------------------------------------------- unknown: nothing is registered under this URL
func refused(f func() error) string {
	var err error
	if pan, _ := vt.Try(func() { err = f() }); pan {
		return "panic"
	}
	if err != nil {
		return "refused"
	}
	return "accepted"
}

func doUnknown(c *planCase) []vt.Ev {
	u := c.URL
	ev := vt.Ev{"ev": "unknown", "url": u,
		"get":  refused(func() error { _, err := registry.GetKeyManager(u); return err }),
		"nkd":  refused(func() error { _, err := registry.NewKeyData(&tinkpb.KeyTemplate{TypeUrl: u, Value: libFormat, OutputPrefixType: tinkpb.OutputPrefixType_TINK}); return err }),
		"nk":   refused(func() error { _, err := registry.NewKey(&tinkpb.KeyTemplate{TypeUrl: u, Value: libFormat, OutputPrefixType: tinkpb.OutputPrefixType_TINK}); return err }),
		"prim": refused(func() error { _, err := registry.Primitive(u, libKey); return err }),
		"pfkd": refused(func() error { _, err := registry.PrimitiveFromKeyData(&tinkpb.KeyData{TypeUrl: u, Value: libKey, KeyMaterialType: tinkpb.KeyData_SYMMETRIC}); return err }),
		"handle": refused(func() error { _, err := keyset.NewHandle(&tinkpb.KeyTemplate{TypeUrl: u, Value: libFormat, OutputPrefixType: tinkpb.OutputPrefixType_TINK}); return err })}
	out := []vt.Ev{ev}
	if u == "" {
		// the documented argument checks of the registry functions
		out = append(out, vt.Ev{"ev": "nilargs",
			"nkd":   refused(func() error { _, err := registry.NewKeyData(nil); return err }),
			"nk":    refused(func() error { _, err := registry.NewKey(nil); return err }),
			"pfkd":  refused(func() error { _, err := registry.PrimitiveFromKeyData(nil); return err }),
			"empty": refused(func() error { _, err := registry.Primitive(libURL, nil); return err }),
			"good":  refused(func() error { _, err := registry.Primitive(libURL, libKey); return err })})
	}
	return out
}

// ---------------------------------------------------------------- cfgres: the per-class V0 configurations
func withConfig(class, kind string, h *keyset.Handle, cfg keyset.Config) error {
	var err error
	switch class {
	case "aead":
		_, err = aead.NewWithConfig(h, cfg)
	case "daead":
		_, err = daead.NewWithConfig(h, cfg)
	case "mac":
		_, err = mac.NewWithConfig(h, cfg)
	case "prf":
		_, err = prf.NewPRFSetWithConfig(h, cfg)
	case "streamingaead":
		_, err = streamingaead.NewWithConfig(h, cfg)
	case "keyderivation":
		_, err = keyderivation.NewWithConfig(h, cfg)
	case "jwtmac":
		_, err = jwt.NewMACWithConfig(h, cfg)
	case "hybrid":
		if kind == "public" {
			_, err = hybrid.NewHybridEncryptWithConfig(h, cfg)
		} else {
			_, err = hybrid.NewHybridDecryptWithConfig(h, cfg)
		}
	case "signature":
		if kind == "public" {
			_, err = signature.NewVerifierWithConfig(h, cfg)
		} else {
			_, err = signature.NewSignerWithConfig(h, cfg)
		}
	case "jwtsignature":
		if kind == "public" {
			_, err = jwt.NewVerifierWithConfig(h, cfg)
		} else {
			_, err = jwt.NewSignerWithConfig(h, cfg)
		}
	case "signprehash":
		if kind == "public" {
			_, err = signprehash.NewPrehashWithConfig(h, cfg)
		} else {
			_, err = signprehash.NewPrehashSignerWithConfig(h, cfg)
		}
	default:
		vt.Fatal("no factory for configuration class %q", class)
	}
	return err
}

var sampleKeys sync.Map // "kt/kind" -> key.Key (RSA keys are expensive: one per run)

func sampleKey(kt, kind string, p keyfactory.Params) (key.Key, error) {
	id := kt + "/" + kind + "/" + fmt.Sprint(p["variant"])
	if k, ok := sampleKeys.Load(id); ok {
		return k.(key.Key), nil
	}
	params, err := keyfactory.NewParameters(kt, p)
	if err != nil {
		return nil, err
	}
	k, err := keyfactory.NewKey(kt, kind, p, params, keyfactory.Material{Class: "random", Rng: vt.Rng(int64(len(id)) * 977)})
	if err != nil {
		return nil, err
	}
	sampleKeys.Store(id, k)
	return k, nil
}

func doCfgRes(c *planCase) []vt.Ev {
	ev := vt.Ev{"ev": "cfgres", "class": c.Class, "kt": c.Kt, "kind": c.Kind, "keyBuilt": false, "res": "", "glob": "", "fac": ""}
	k, err := sampleKey(c.Kt, c.Kind, c.P)
	if err != nil || k == nil {
		return []vt.Ev{ev}
	}
	ev["keyBuilt"] = true
	cfg, err := verifhooks.ConfigV0(c.Class)
	if err != nil {
		vt.Fatal("%v", err)
	}
	word := func(s string) string {
		if s == "accepted" {
			return "resolved"
		}
		return s
	}
	ev["res"] = word(refused(func() error { _, err := verifhooks.ConfigPrimitiveFromKey(cfg, k); return err }))
	ev["glob"] = word(refused(func() error { _, err := verifhooks.ConfigPrimitiveFromKey(verifhooks.RegistryConfig(), k); return err }))
	ev["fac"] = word(refused(func() error {
		m := keyset.NewManager()
		id, err := m.AddKey(k)
		if err != nil {
			return fmt.Errorf("AddKey: %v", err)
		}
		if err := m.SetPrimary(id); err != nil {
			return err
		}
		h, err := m.Handle()
		if err != nil {
			return err
		}
		return withConfig(c.Class, c.Kind, h, cfg)
	}))
	return []vt.Ev{ev}
}

// ---------------------------------------------------------------- custom: a user-defined key manager end to end
type customKM struct {
	url          string
	mu           sync.Mutex
	formats      []string
	primitiveFor []string
	keyValue     []byte
}

type customAEAD struct{}

func (customAEAD) Encrypt(pt, ad []byte) ([]byte, error) { return append([]byte("enc:"), pt...), nil }
func (customAEAD) Decrypt(ct, ad []byte) ([]byte, error) {
	if !bytes.HasPrefix(ct, []byte("enc:")) {
		return nil, fmt.Errorf("customAEAD: not mine")
	}
	return ct[4:], nil
}

func (m *customKM) Primitive(k []byte) (any, error) {
	m.mu.Lock()
	defer m.mu.Unlock()
	m.primitiveFor = append(m.primitiveFor, vt.Hex(k))
	return customAEAD{}, nil
}
func (m *customKM) NewKey([]byte) (proto.Message, error) { return nil, fmt.Errorf("not implemented") }
func (m *customKM) DoesSupport(u string) bool              { return u == m.url }
func (m *customKM) TypeURL() string                        { return m.url }
func (m *customKM) NewKeyData(f []byte) (*tinkpb.KeyData, error) {
	m.mu.Lock()
	defer m.mu.Unlock()
	m.formats = append(m.formats, vt.Hex(f))
	return &tinkpb.KeyData{TypeUrl: m.url, Value: append([]byte(nil), m.keyValue...), KeyMaterialType: tinkpb.KeyData_SYMMETRIC}, nil
}

func doCustom(c *planCase) []vt.Ev {
	n := histSeq.Add(1)
	rng := vt.Rng(int64(c.n)*8 + 5)
	km := &customKM{url: fmt.Sprintf("type.googleapis.com/verif.x03.s%d.custom%d", vt.Seed(), n), keyValue: vt.Bytes(rng, 16)}
	format := vt.Bytes(rng, 1+rng.Intn(20))
	msg := vt.Bytes(rng, 1+rng.Intn(30))
	ev := vt.Ev{"ev": "custom", "prefix": c.Prefix, "registered": false, "format": vt.Hex(format), "formats": []string{}, "handleErr": true, "keyId": "",
		"keyValue": vt.Hex(km.keyValue), "primitiveFor": []string{}, "aeadErr": true, "msg": vt.Hex(msg), "inner": vt.Hex(append([]byte("enc:"), msg...)), "ct": "", "pt": ""}
	if err := registry.RegisterKeyManager(km); err != nil {
		return []vt.Ev{ev}
	}
	defer registry.UnregisterKeyManager(km.url, verifhooks.InternalToken())
	ev["registered"] = true
	pt := tinkpb.OutputPrefixType(tinkpb.OutputPrefixType_value[c.Prefix])
	h, err := keyset.NewHandle(&tinkpb.KeyTemplate{TypeUrl: km.url, Value: append([]byte(nil), format...), OutputPrefixType: pt})
	ev["formats"] = append([]string{}, km.formats...)
	if err != nil {
		return []vt.Ev{ev}
	}
	ev["handleErr"] = false
	if e, err := h.Primary(); err == nil {
		ev["keyId"] = vt.ID4(e.KeyID())
	}
	a, err := aead.New(h)
	if err != nil {
		return []vt.Ev{ev}
	}
	ev["aeadErr"] = false
	ct, err := a.Encrypt(append([]byte(nil), msg...), nil)
	ev["ct"] = hexOrErr(ct, err)
	if err == nil {
		ev["pt"] = hexOrErr(a.Decrypt(ct, nil))
	}
	ev["primitiveFor"] = append([]string{}, km.primitiveFor...)
	return []vt.Ev{ev}
}
