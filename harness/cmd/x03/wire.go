package main

import (
	"encoding/json"
	"math/big"
	"sort"

	"verifharness/vt"
)

// A protobuf wire encoder for key FORMAT messages: the plan gives field path -> value (from KeyFormatWire.tla, i.e.
// from the .proto files); nothing of Tink is involved, so formats of INVALID parameter records can be written too.

type leaf struct {
	path []int
	enc  func(tag int) []byte
}

func varint(v uint64) []byte {
	var b []byte
	for v >= 0x80 {
		b = append(b, byte(v)|0x80)
		v >>= 7
	}
	return append(b, byte(v))
}

func lenDelimited(field int, payload []byte) []byte {
	b := varint(uint64(field)<<3 | 2)
	b = append(b, varint(uint64(len(payload)))...)
	return append(b, payload...)
}

func encodeLevel(ls []leaf, depth int) []byte {
	groups := map[int][]leaf{}
	var order []int
	for _, l := range ls {
		n := l.path[depth]
		if _, ok := groups[n]; !ok {
			order = append(order, n)
		}
		groups[n] = append(groups[n], l)
	}
	sort.Ints(order)
	var out []byte
	for _, n := range order {
		g := groups[n]
		var deeper []leaf
		for _, l := range g {
			if len(l.path) == depth+1 {
				out = append(out, l.enc(n)...)
			} else {
				deeper = append(deeper, l)
			}
		}
		if len(deeper) > 0 {
			out = append(out, lenDelimited(n, encodeLevel(deeper, depth+1))...)
		}
	}
	return out
}

// saltByte: the fixed salt patterns of harness/keyfactory (the salt is part of the parameters)
func saltByte(kt string, i int) byte {
	if kt == "Ecies" {
		return byte(0x50 + i)
	}
	return byte(0xa0 + i)
}

// encodeFormat writes the serialized key format of a case. ok = false: a nested template name could not be resolved.
func encodeFormat(kt string, w *wireForm) ([]byte, bool) {
	var ls []leaf
	for _, f := range w.Ints {
		var v int64
		if err := json.Unmarshal(f.V, &v); err != nil {
			vt.Fatal("wire int: %v", err)
		}
		if v == 0 {
			continue // proto3: the default value is not written
		}
		ls = append(ls, leaf{f.Path, func(n int) []byte { return append(varint(uint64(n)<<3), varint(uint64(v))...) }})
	}
	for _, f := range w.Bigs {
		var v int64
		if err := json.Unmarshal(f.V, &v); err != nil {
			vt.Fatal("wire big: %v", err)
		}
		b := big.NewInt(v).Bytes()
		ls = append(ls, leaf{f.Path, func(n int) []byte { return lenDelimited(n, b) }})
	}
	for _, f := range w.Lens {
		var v int
		if err := json.Unmarshal(f.V, &v); err != nil {
			vt.Fatal("wire len: %v", err)
		}
		if v <= 0 {
			continue
		}
		b := make([]byte, v)
		for i := range b {
			b[i] = saltByte(kt, i)
		}
		ls = append(ls, leaf{f.Path, func(n int) []byte { return lenDelimited(n, b) }})
	}
	for _, f := range w.Tpls {
		var name string
		if err := json.Unmarshal(f.V, &name); err != nil {
			vt.Fatal("wire tpl: %v", err)
		}
		b, ok := namedTemplateBytes(name)
		if !ok {
			return nil, false
		}
		ls = append(ls, leaf{f.Path, func(n int) []byte { return lenDelimited(n, b) }})
	}
	return encodeLevel(ls, 0), true
}
