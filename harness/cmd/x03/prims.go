package main

import (
	"bytes"
	"crypto/sha256"
	"encoding/hex"
	"fmt"
	"io"

	"google.golang.org/protobuf/proto"

	"verifharness/keyfactory"
	"verifharness/vt"

	"github.com/tink-crypto/tink-go/v2/aead"
	"github.com/tink-crypto/tink-go/v2/daead"
	"github.com/tink-crypto/tink-go/v2/hybrid"
	"github.com/tink-crypto/tink-go/v2/insecurecleartextkeyset"
	"github.com/tink-crypto/tink-go/v2/jwt"
	"github.com/tink-crypto/tink-go/v2/key"
	"github.com/tink-crypto/tink-go/v2/keyderivation"
	"github.com/tink-crypto/tink-go/v2/keyset"
	"github.com/tink-crypto/tink-go/v2/mac"
	"github.com/tink-crypto/tink-go/v2/prf"
	tinkpb "github.com/tink-crypto/tink-go/v2/proto/tink_go_proto"
	"github.com/tink-crypto/tink-go/v2/signature"
	"github.com/tink-crypto/tink-go/v2/streamingaead"
	"github.com/tink-crypto/tink-go/v2/testing/verifhooks"
	"github.com/tink-crypto/tink-go/v2/tink"
)

const errStr = "ERR"

var assoc = []byte("x03 associated data")

// side: one party of an interoperability test. produce makes a token for msg (ciphertext, tag, signature, PRF
// output); accept takes a token and returns the message it stands for (decrypts; for tags and signatures: returns msg
// itself when the token verifies).
type side struct {
	produce func(msg []byte) ([]byte, error)
	accept  func(tok, msg []byte) ([]byte, error)
}

func verified(err error, msg []byte) ([]byte, error) {
	if err != nil {
		return nil, err
	}
	return msg, nil
}

func streamSide(a tink.StreamingAEAD) *side {
	return &side{
		produce: func(m []byte) ([]byte, error) {
			var buf bytes.Buffer
			w, err := a.NewEncryptingWriter(&buf, assoc)
			if err != nil {
				return nil, err
			}
			if _, err := w.Write(m); err != nil {
				return nil, err
			}
			if err := w.Close(); err != nil {
				return nil, err
			}
			return buf.Bytes(), nil
		},
		accept: func(t, _ []byte) ([]byte, error) {
			r, err := a.NewDecryptingReader(bytes.NewReader(t), assoc)
			if err != nil {
				return nil, err
			}
			return io.ReadAll(r)
		},
	}
}

// sideOfPrimitives builds a side from primitive objects of a class (what registry.Primitive returned).
func sideOfPrimitives(class string, producer, acceptor any) (*side, error) {
	s := &side{}
	bad := func(p any, want string) error { return fmt.Errorf("primitive is a %T, not a %s", p, want) }
	switch class {
	case "AEAD":
		p, ok := producer.(tink.AEAD)
		if !ok {
			return nil, bad(producer, "tink.AEAD")
		}
		s.produce = func(m []byte) ([]byte, error) { return p.Encrypt(m, assoc) }
		s.accept = func(t, _ []byte) ([]byte, error) { return p.Decrypt(t, assoc) }
	case "DAEAD":
		p, ok := producer.(tink.DeterministicAEAD)
		if !ok {
			return nil, bad(producer, "tink.DeterministicAEAD")
		}
		s.produce = func(m []byte) ([]byte, error) { return p.EncryptDeterministically(m, assoc) }
		s.accept = func(t, _ []byte) ([]byte, error) { return p.DecryptDeterministically(t, assoc) }
	case "MAC":
		p, ok := producer.(tink.MAC)
		if !ok {
			return nil, bad(producer, "tink.MAC")
		}
		s.produce = func(m []byte) ([]byte, error) { return p.ComputeMAC(m) }
		s.accept = func(t, m []byte) ([]byte, error) { return verified(p.VerifyMAC(t, m), m) }
	case "PRF":
		p, ok := producer.(prf.PRF)
		if !ok {
			return nil, bad(producer, "prf.PRF")
		}
		s.produce = func(m []byte) ([]byte, error) { return p.ComputePRF(m, 16) }
	case "STREAM":
		p, ok := producer.(tink.StreamingAEAD)
		if !ok {
			return nil, bad(producer, "tink.StreamingAEAD")
		}
		return streamSide(p), nil
	case "SIGN":
		p, ok := producer.(tink.Signer)
		if !ok {
			return nil, bad(producer, "tink.Signer")
		}
		v, ok := acceptor.(tink.Verifier)
		if !ok {
			return nil, bad(acceptor, "tink.Verifier")
		}
		s.produce = func(m []byte) ([]byte, error) { return p.Sign(m) }
		s.accept = func(t, m []byte) ([]byte, error) { return verified(v.Verify(t, m), m) }
	case "HDEC":
		// producer = the HybridEncrypt of the public key, acceptor = the HybridDecrypt of the private key
		e, ok := producer.(tink.HybridEncrypt)
		if !ok {
			return nil, bad(producer, "tink.HybridEncrypt")
		}
		d, ok := acceptor.(tink.HybridDecrypt)
		if !ok {
			return nil, bad(acceptor, "tink.HybridDecrypt")
		}
		s.produce = func(m []byte) ([]byte, error) { return e.Encrypt(m, assoc) }
		s.accept = func(t, _ []byte) ([]byte, error) { return d.Decrypt(t, assoc) }
	default:
		return nil, fmt.Errorf("no primitives of class %s", class)
	}
	return s, nil
}

func jwtRaw(m []byte) (*jwt.RawJWT, error) {
	sub := hex.EncodeToString(m)
	return jwt.NewRawJWT(&jwt.RawJWTOptions{Subject: &sub, WithoutExpiration: true})
}

func jwtSubject(v *jwt.VerifiedJWT, err error) ([]byte, error) {
	if err != nil {
		return nil, err
	}
	s, err := v.Subject()
	if err != nil {
		return nil, err
	}
	return hex.DecodeString(s)
}

// sideOfHandle builds a side from a keyset handle through the public per-class factory (class = HandleClass of the
// specification; for asymmetric classes priv is the private handle and the public one is priv.Public()).
func sideOfHandle(class string, h *keyset.Handle) (*side, error) {
	var pub *keyset.Handle
	switch class {
	case "SIGN", "HDEC", "JWTSIGN":
		var err error
		if pub, err = h.Public(); err != nil {
			return nil, fmt.Errorf("Public(): %v", err)
		}
	}
	switch class {
	case "AEAD":
		p, err := aead.New(h)
		if err != nil {
			return nil, err
		}
		return sideOfPrimitives(class, p, nil)
	case "DAEAD":
		p, err := daead.New(h)
		if err != nil {
			return nil, err
		}
		return sideOfPrimitives(class, p, nil)
	case "MAC":
		p, err := mac.New(h)
		if err != nil {
			return nil, err
		}
		return sideOfPrimitives(class, p, nil)
	case "PRF":
		p, err := prf.NewPRFSet(h)
		if err != nil {
			return nil, err
		}
		return &side{produce: func(m []byte) ([]byte, error) { return p.ComputePrimaryPRF(m, 16) }}, nil
	case "STREAM":
		p, err := streamingaead.New(h)
		if err != nil {
			return nil, err
		}
		return streamSide(p), nil
	case "SIGN":
		s, err := signature.NewSigner(h)
		if err != nil {
			return nil, err
		}
		v, err := signature.NewVerifier(pub)
		if err != nil {
			return nil, err
		}
		return sideOfPrimitives(class, s, v)
	case "HDEC":
		d, err := hybrid.NewHybridDecrypt(h)
		if err != nil {
			return nil, err
		}
		e, err := hybrid.NewHybridEncrypt(pub)
		if err != nil {
			return nil, err
		}
		return sideOfPrimitives(class, e, d)
	case "JWTMAC":
		a, err := jwt.NewMAC(h)
		if err != nil {
			return nil, err
		}
		val, err := jwt.NewValidator(&jwt.ValidatorOpts{AllowMissingExpiration: true})
		if err != nil {
			return nil, err
		}
		return &side{
			produce: func(m []byte) ([]byte, error) {
				r, err := jwtRaw(m)
				if err != nil {
					return nil, err
				}
				s, err := a.ComputeMACAndEncode(r)
				return []byte(s), err
			},
			accept: func(t, _ []byte) ([]byte, error) { return jwtSubject(a.VerifyMACAndDecode(string(t), val)) },
		}, nil
	case "JWTSIGN":
		s, err := jwt.NewSigner(h)
		if err != nil {
			return nil, err
		}
		v, err := jwt.NewVerifier(pub)
		if err != nil {
			return nil, err
		}
		val, err := jwt.NewValidator(&jwt.ValidatorOpts{AllowMissingExpiration: true})
		if err != nil {
			return nil, err
		}
		return &side{
			produce: func(m []byte) ([]byte, error) {
				r, err := jwtRaw(m)
				if err != nil {
					return nil, err
				}
				c, err := s.SignAndEncode(r)
				return []byte(c), err
			},
			accept: func(t, _ []byte) ([]byte, error) { return jwtSubject(v.VerifyAndDecode(string(t), val)) },
		}, nil
	case "DERIVER":
		d, err := keyderivation.New(h)
		if err != nil {
			return nil, err
		}
		// derive twice with the same salt: the two derived keysets must interoperate (the derived key type of every
		// template the specification names is an AEAD)
		h1, err := d.DeriveKeyset([]byte("x03 salt"))
		if err != nil {
			return nil, fmt.Errorf("DeriveKeyset: %v", err)
		}
		h2, err := d.DeriveKeyset([]byte("x03 salt"))
		if err != nil {
			return nil, fmt.Errorf("DeriveKeyset: %v", err)
		}
		a1, err := aead.New(h1)
		if err != nil {
			return nil, err
		}
		a2, err := aead.New(h2)
		if err != nil {
			return nil, err
		}
		return &side{produce: func(m []byte) ([]byte, error) { return a1.Encrypt(m, assoc) },
			accept: func(t, _ []byte) ([]byte, error) { return a2.Decrypt(t, assoc) }}, nil
	}
	return nil, fmt.Errorf("no factory for class %s", class)
}

func hexOrErr(b []byte, err error) string {
	if err != nil {
		return errStr
	}
	return vt.Hex(b)
}

// cross: producer side p makes a token, acceptor side a takes it; strip removes that many leading bytes of the token
// first, prepend adds bytes in front (output prefix handling is the caller's with registry primitives).
func cross(p, a *side, msg []byte, strip int, prepend []byte) string {
	var out string
	if pan, v := vt.Try(func() {
		tok, err := p.produce(msg)
		if err != nil {
			out = errStr + ":produce"
			return
		}
		if strip > len(tok) {
			out = errStr + ":short"
			return
		}
		tok = append(append([]byte(nil), prepend...), tok[strip:]...)
		out = hexOrErr(a.accept(tok, append([]byte(nil), msg...)))
	}); pan {
		return fmt.Sprintf("PANIC:%v", v)
	}
	return out
}

// handleOf wraps one KeyData into a keyset handle (the key is primary and enabled).
func handleOf(kd *tinkpb.KeyData, pt tinkpb.OutputPrefixType, id uint32) (*keyset.Handle, error) {
	ks := &tinkpb.Keyset{PrimaryKeyId: id, Key: []*tinkpb.Keyset_Key{{KeyData: proto.Clone(kd).(*tinkpb.KeyData),
		Status: tinkpb.KeyStatusType_ENABLED, KeyId: id, OutputPrefixType: pt}}}
	return insecurecleartextkeyset.Read(&keyset.MemReaderWriter{Keyset: ks})
}

func keyDataOf(h *keyset.Handle) *tinkpb.KeyData {
	ks := insecurecleartextkeyset.KeysetMaterial(h)
	if len(ks.GetKey()) == 0 {
		return nil
	}
	return ks.GetKey()[0].GetKeyData()
}

// parseRaw parses a KeyData as a key with output prefix type RAW (what the key managers do).
func parseRaw(kd *tinkpb.KeyData) (key.Key, error) {
	return verifhooks.ParseKey(&verifhooks.KeySerialization{KeyData: kd, OutputPrefixType: tinkpb.OutputPrefixType_RAW})
}

func eqBoth(a, b key.Parameters) (bool, bool) {
	if a == nil || b == nil {
		return false, false
	}
	return a.Equal(b), b.Equal(a)
}

// rawParams: the parameter record with the variant a key manager sees (RAW output prefix)
func rawParams(p keyfactory.Params) keyfactory.Params {
	q := keyfactory.Params{}
	for k, v := range p {
		q[k] = v
	}
	if _, ok := q["variant"]; ok {
		q["variant"] = "NO_PREFIX"
	}
	if _, ok := q["kidStrategy"]; ok {
		q["kidStrategy"] = "IGNORED"
	}
	return q
}

// val logs a byte string: hex, or (long values) its SHA-256 and length -- TLC only compares for equality.
func val(b []byte) string {
	if len(b) <= 96 {
		return vt.Hex(b)
	}
	h := sha256.Sum256(b)
	return fmt.Sprintf("sha256:%s:%d", vt.Hex(h[:]), len(b))
}
