// x03: conformance driver of check X03 (registration life-cycle and the legacy registry.KeyManager interface,
// spec/sys/KeyManagerAPI.tla).
//
//	x03 -cases <ndjson written by Plan_KeyManagerAPI.tla> -out <trace> [-repo /repo]
//	x03 -replay <replay file> -out <trace>
//
// The driver executes every case on the REAL global registries of tink-go (core/registry, and through the
// testing/verifhooks bridge internal/config, primitiveregistry, keygenregistry, protoserialization) and records what
// came back; it never decides whether that is right: spec/trace/Trace_KeyManagerAPI.tla does.
package main

import (
	"bufio"
	"encoding/json"
	"flag"
	"os"
	"runtime"
	"sync"

	"verifharness/keyfactory"
	"verifharness/vt"
)

type wireField struct {
	Path []int           `json:"path"`
	V    json.RawMessage `json:"v"`
}

type wireForm struct {
	Ints []wireField `json:"ints"`
	Bigs []wireField `json:"bigs"`
	Lens []wireField `json:"lens"`
	Tpls []wireField `json:"tpls"`
}

type histOp struct {
	Op  string `json:"op"`
	URL string `json:"url,omitempty"`
	Mgr *struct {
		ID  string `json:"id"`
		URL string `json:"url"`
	} `json:"mgr,omitempty"`
	Client *struct {
		ID string `json:"id"`
	} `json:"client,omitempty"`
	URI *struct {
		Name string `json:"name"`
	} `json:"uri,omitempty"`
	K string `json:"k,omitempty"`
	C string `json:"c,omitempty"`
	I int    `json:"i,omitempty"`
}

type planCase struct {
	C       string            `json:"c"`
	URL     string            `json:"url"`
	Kt      string            `json:"kt"`
	Kind    string            `json:"kind"`
	P       keyfactory.Params `json:"p"`
	DP      keyfactory.Params `json:"dp"` // fmt: the parameters the format denotes
	Wire    *wireForm         `json:"wire"`
	Interop bool              `json:"interop"`
	Name    string            `json:"name"`
	Part    string            `json:"part"`
	Ops     []histOp          `json:"ops"`
	Class   string            `json:"class"`
	Prefix  string            `json:"prefix"`
	raw     json.RawMessage
	n       int
}

// field returns a raw JSON field of the case (echoed into the event so that TLC sees exactly what the plan said).
func (c *planCase) field(name string) json.RawMessage {
	var m map[string]json.RawMessage
	json.Unmarshal(c.raw, &m)
	if v, ok := m[name]; ok {
		return v
	}
	return json.RawMessage("null")
}

func readCases(path string) []*planCase {
	f, err := os.Open(path)
	if err != nil {
		vt.Fatal("open %s: %v", path, err)
	}
	defer f.Close()
	var out []*planCase
	sc := bufio.NewScanner(f)
	sc.Buffer(make([]byte, 1<<20), 1<<28)
	for sc.Scan() {
		b := sc.Bytes()
		if len(b) == 0 {
			continue
		}
		c := &planCase{raw: append(json.RawMessage(nil), b...), n: len(out)}
		if err := json.Unmarshal(b, c); err != nil {
			vt.Fatal("case %d: %v", len(out), err)
		}
		out = append(out, c)
	}
	if err := sc.Err(); err != nil {
		vt.Fatal("read %s: %v", path, err)
	}
	return out
}

// sequential: cases that use process-wide state shared between cases (the KMS client list, the internal global
// registries with the harness' two stub types)
func sequential(c *planCase) bool {
	switch c.C {
	case "hist":
		return c.Part != "reg" && c.Part != "cfg"
	case "tpl":
		return c.Kt == "KmsEnvelopeAead"
	}
	return false
}

func execute(c *planCase, all []*planCase) []vt.Ev {
	switch c.C {
	case "mgr":
		return doMgr(c, all)
	case "unknown":
		return doUnknown(c)
	case "fmt", "pubfmt":
		return doFmt(c)
	case "tpl":
		return doTpl(c)
	case "hist":
		return doHist(c)
	case "cfgres":
		return doCfgRes(c)
	case "custom":
		return doCustom(c)
	}
	vt.Fatal("unknown case kind %q", c.C)
	return nil
}

func main() {
	cases := flag.String("cases", "", "ndjson cases written by Plan_KeyManagerAPI.tla")
	out := flag.String("out", "", "trace file")
	replay := flag.String("replay", "", "replay file: re-execute its case only")
	flag.Parse()
	if *out == "" {
		vt.Fatal("-out required")
	}
	var all []*planCase
	if *replay != "" {
		b, err := os.ReadFile(*replay)
		if err != nil {
			vt.Fatal("replay: %v", err)
		}
		var r struct {
			Case json.RawMessage `json:"case"`
		}
		if err := json.Unmarshal(b, &r); err != nil || len(r.Case) == 0 {
			vt.Fatal("replay file has no case: %v", err)
		}
		c := &planCase{raw: r.Case}
		if err := json.Unmarshal(r.Case, c); err != nil {
			vt.Fatal("replay case: %v", err)
		}
		all = []*planCase{c}
	} else {
		all = readCases(*cases)
	}
	w := vt.NewWriter(*out)
	defer w.Close()
	emit := func(c *planCase) {
		for _, ev := range execute(c, all) {
			ev["case"] = c.raw
			w.Emit(ev)
		}
	}
	// sequential cases first (they own the global KMS client list), then the rest on all cores
	var par []*planCase
	for _, c := range all {
		if sequential(c) {
			emit(c)
		} else {
			par = append(par, c)
		}
	}
	ch := make(chan *planCase)
	var wg sync.WaitGroup
	for i := 0; i < runtime.NumCPU(); i++ {
		wg.Add(1)
		go func() {
			defer wg.Done()
			for c := range ch {
				emit(c)
			}
		}()
	}
	for _, c := range par {
		ch <- c
	}
	close(ch)
	wg.Wait()
}
