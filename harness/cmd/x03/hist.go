package main

import (
	"fmt"
	"reflect"
	"strings"
	"sync/atomic"

	"google.golang.org/protobuf/proto"

	"verifharness/vt"

	"github.com/tink-crypto/tink-go/v2/core/registry"
	"github.com/tink-crypto/tink-go/v2/key"
	"github.com/tink-crypto/tink-go/v2/keyset"
	kmsepb "github.com/tink-crypto/tink-go/v2/proto/kms_envelope_go_proto"
	tinkpb "github.com/tink-crypto/tink-go/v2/proto/tink_go_proto"
	"github.com/tink-crypto/tink-go/v2/testing/verifhooks"
	"github.com/tink-crypto/tink-go/v2/tink"
)

const (
	libURL         = "type.googleapis.com/google.crypto.tink.AesGcmKey"
	kmsEnvelopeURL = "type.googleapis.com/google.crypto.tink.KmsEnvelopeAeadKey"
	stubMark       = "x03stub:"
)

// ---------------------------------------------------------------- stub key manager (identified by its id)
type stubKM struct{ id, url string }
type stubPrim struct{ by string }

func (m *stubKM) Primitive([]byte) (any, error) { return &stubPrim{m.id}, nil }
func (m *stubKM) NewKey([]byte) (proto.Message, error) {
	return &tinkpb.KeyData{TypeUrl: m.url, Value: []byte(stubMark + m.id)}, nil
}
func (m *stubKM) DoesSupport(u string) bool { return u == m.url }
func (m *stubKM) TypeURL() string           { return m.url }
func (m *stubKM) NewKeyData([]byte) (*tinkpb.KeyData, error) {
	return &tinkpb.KeyData{TypeUrl: m.url, Value: []byte(stubMark + m.id), KeyMaterialType: tinkpb.KeyData_SYMMETRIC}, nil
}

var libManager = func() registry.KeyManager {
	m, err := registry.GetKeyManager(libURL)
	if err != nil {
		vt.Fatal("the library has no manager for %s: %v", libURL, err)
	}
	return m
}()

// a valid AES-128-GCM key format and key (so that the library's manager serves calls for the "lib" URL)
var libFormat = []byte{0x10, 0x10}
var libKey = append([]byte{0x1a, 0x10}, []byte("0123456789abcdef")...)

var histSeq atomic.Int64

func servedBy(kd *tinkpb.KeyData) string {
	if v := string(kd.GetValue()); strings.HasPrefix(v, stubMark) {
		return strings.TrimPrefix(v, stubMark)
	}
	if kd.GetTypeUrl() == libURL {
		return "lib"
	}
	return "other"
}

func regHistory(ops []histOp) []string {
	n := histSeq.Add(1)
	real := func(u string) string {
		if u == "lib" {
			return libURL
		}
		return fmt.Sprintf("type.googleapis.com/verif.x03.s%d.h%d.%s", vt.Seed(), n, u)
	}
	mgrs := map[string]*stubKM{}
	var res []string
	for _, op := range ops {
		r := "?"
		switch op.Op {
		case "Register":
			m, ok := mgrs[op.Mgr.ID]
			if !ok {
				m = &stubKM{id: op.Mgr.ID, url: real(op.Mgr.URL)}
				mgrs[op.Mgr.ID] = m
			}
			if err := registry.RegisterKeyManager(m); err != nil {
				r = "exists"
			} else {
				r = "ok"
			}
		case "Unregister":
			registry.UnregisterKeyManager(real(op.URL), verifhooks.InternalToken())
			r = "ok"
		case "Get":
			km, err := registry.GetKeyManager(real(op.URL))
			switch {
			case err != nil:
				r = "err"
			case km == libManager:
				r = "lib"
			default:
				if s, ok := km.(*stubKM); ok {
					r = s.id
				} else {
					r = "other"
				}
			}
		case "NewKeyData":
			kd, err := registry.NewKeyData(&tinkpb.KeyTemplate{TypeUrl: real(op.URL), Value: libFormat, OutputPrefixType: tinkpb.OutputPrefixType_TINK})
			if err != nil {
				r = "err"
			} else {
				r = servedBy(kd)
			}
		case "NewKey":
			m, err := registry.NewKey(&tinkpb.KeyTemplate{TypeUrl: real(op.URL), Value: libFormat, OutputPrefixType: tinkpb.OutputPrefixType_TINK})
			if err != nil {
				r = "err"
			} else if kd, ok := m.(*tinkpb.KeyData); ok {
				r = servedBy(kd)
			} else if string(m.ProtoReflect().Descriptor().FullName()) == "google.crypto.tink.AesGcmKey" {
				r = "lib"
			} else {
				r = "other"
			}
		case "Primitive", "PrimitiveFromKeyData":
			var p any
			var err error
			if op.Op == "Primitive" {
				p, err = registry.Primitive(real(op.URL), libKey)
			} else {
				p, err = registry.PrimitiveFromKeyData(&tinkpb.KeyData{TypeUrl: real(op.URL), Value: libKey, KeyMaterialType: tinkpb.KeyData_SYMMETRIC})
			}
			if err != nil {
				r = "err"
			} else if s, ok := p.(*stubPrim); ok {
				r = s.by
			} else if _, ok := p.(tink.AEAD); ok {
				r = "lib"
			} else {
				r = "other"
			}
		default:
			vt.Fatal("reg history: unknown op %q", op.Op)
		}
		res = append(res, r)
	}
	// leave nothing behind
	for _, m := range mgrs {
		if m.url != libURL {
			registry.UnregisterKeyManager(m.url, verifhooks.InternalToken())
		}
	}
	return res
}

// ---------------------------------------------------------------- KMS clients
var kmsPrefix = map[string]string{"a": "x03-kms://a/", "ab": "x03-kms://a/b/", "c": "x03-kms://c/"}

func kmsHistory(ops []histOp) []string {
	registry.ClearKMSClients()
	defer registry.ClearKMSClients()
	var asked []string
	clients := map[string]*fakeKMS{}
	var res []string
	for _, op := range ops {
		r := "?"
		switch op.Op {
		case "KmsRegister":
			c, ok := clients[op.Client.ID]
			if !ok {
				p, known := kmsPrefix[op.Client.ID]
				if !known {
					vt.Fatal("kms history: unknown client %q", op.Client.ID)
				}
				c = &fakeKMS{id: op.Client.ID, prefix: p, asked: &asked, backend: fakeBackend()}
				clients[op.Client.ID] = c
			}
			registry.RegisterKMSClient(c)
			r = "ok"
		case "KmsClear":
			registry.ClearKMSClients()
			r = "ok"
		case "KmsGet":
			c, err := registry.GetKMSClient("x03-kms://" + op.URI.Name)
			if err != nil {
				r = "err"
			} else if f, ok := c.(*fakeKMS); ok {
				r = f.id
			} else {
				r = "other"
			}
		case "EnvelopePrimitive":
			// the KMS envelope AEAD key manager looks the client of the key's kek_uri up in the registry
			k, err := proto.Marshal(&kmsepb.KmsEnvelopeAeadKey{Params: &kmsepb.KmsEnvelopeAeadKeyFormat{KekUri: "x03-kms://" + op.URI.Name,
				DekTemplate: &tinkpb.KeyTemplate{TypeUrl: libURL, Value: libFormat, OutputPrefixType: tinkpb.OutputPrefixType_TINK}}})
			if err != nil {
				vt.Fatal("marshal envelope key: %v", err)
			}
			asked = nil
			if _, err := registry.Primitive(kmsEnvelopeURL, k); err != nil {
				r = "err"
			} else if len(asked) == 0 {
				r = "noask"
			} else {
				r = asked[0]
			}
		default:
			vt.Fatal("kms history: unknown op %q", op.Op)
		}
		res = append(res, r)
	}
	return res
}

// ---------------------------------------------------------------- stub keys / parameters for the config and global registries
type stubParams struct{ tag string }

func (p *stubParams) HasIDRequirement() bool      { return false }
func (p *stubParams) Equal(o key.Parameters) bool { q, ok := o.(*stubParams); return ok && q.tag == p.tag }

type stubKey1 struct{ tag string }
type stubKey2 struct{ tag string }
type gKey struct{ tag string }
type gParams struct{ stubParams }

func (k *stubKey1) Parameters() key.Parameters      { return &stubParams{k.tag} }
func (k *stubKey1) IDRequirement() (uint32, bool)   { return 0, false }
func (k *stubKey1) Equal(o key.Key) bool            { q, ok := o.(*stubKey1); return ok && q.tag == k.tag }
func (k *stubKey2) Parameters() key.Parameters      { return &stubParams{k.tag} }
func (k *stubKey2) IDRequirement() (uint32, bool)   { return 0, false }
func (k *stubKey2) Equal(o key.Key) bool            { q, ok := o.(*stubKey2); return ok && q.tag == k.tag }
func (k *gKey) Parameters() key.Parameters          { return &gParams{stubParams{k.tag}} }
func (k *gKey) IDRequirement() (uint32, bool)       { return 0, false }
func (k *gKey) Equal(o key.Key) bool                { q, ok := o.(*gKey); return ok && q.tag == k.tag }
func (p *gParams) Equal(o key.Parameters) bool      { q, ok := o.(*gParams); return ok && q.tag == p.tag }

func ctorA(key.Key) (any, error) { return "cA", nil }
func ctorB(key.Key) (any, error) { return "cB", nil }

var ctors = map[string]func(key.Key) (any, error){"cA": ctorA, "cB": ctorB}

func cfgHistory(ops []histOp) []string {
	b := verifhooks.NewConfigBuilder()
	var cfgs []keyset.Config
	keyOf := func(k string) (reflect.Type, key.Key) {
		if k == "k1" {
			return reflect.TypeFor[*stubKey1](), &stubKey1{}
		}
		return reflect.TypeFor[*stubKey2](), &stubKey2{}
	}
	var res []string
	for _, op := range ops {
		r := "?"
		switch op.Op {
		case "BRegister":
			t, _ := keyOf(op.K)
			if err := verifhooks.ConfigBuilderRegister(b, t, ctors[op.C]); err != nil {
				r = "exists"
			} else {
				r = "ok"
			}
		case "Build":
			cfgs = append(cfgs, verifhooks.ConfigBuild(b))
			r = "ok"
		case "Lookup":
			if op.I > len(cfgs) {
				r = "nocfg"
				break
			}
			_, k := keyOf(op.K)
			p, err := verifhooks.ConfigPrimitiveFromKey(cfgs[op.I-1], k)
			if err != nil {
				r = "err"
			} else {
				r = fmt.Sprint(p)
			}
		default:
			vt.Fatal("cfg history: unknown op %q", op.Op)
		}
		res = append(res, r)
	}
	return res
}

// ---------------------------------------------------------------- the internal global registries
const gURL = "type.googleapis.com/verif.x03.gkey"

type gParamsParser struct{ tag string }

func (p *gParamsParser) Parse(*tinkpb.KeyTemplate) (key.Parameters, error) {
	return &gParams{stubParams{p.tag}}, nil
}

var gParsers = map[string]*gParamsParser{"cA": {"cA"}, "cB": {"cB"}}

func creatorA(key.Parameters, uint32) (key.Key, error) { return &gKey{"cA"}, nil }
func creatorB(key.Parameters, uint32) (key.Key, error) { return &gKey{"cB"}, nil }
func parserA(*verifhooks.KeySerialization) (key.Key, error) { return &gKey{"cA"}, nil }
func parserB(*verifhooks.KeySerialization) (key.Key, error) { return &gKey{"cB"}, nil }
func serializerOf(tag string) func(key.Key) (*verifhooks.KeySerialization, error) {
	return func(key.Key) (*verifhooks.KeySerialization, error) {
		return &verifhooks.KeySerialization{KeyData: &tinkpb.KeyData{TypeUrl: gURL, Value: []byte(tag), KeyMaterialType: tinkpb.KeyData_SYMMETRIC},
			OutputPrefixType: tinkpb.OutputPrefixType_RAW}, nil
	}
}

func gUnregister(which string) {
	switch which {
	case "prim":
		verifhooks.UnregisterPrimitiveConstructor[*gKey]()
	case "keygen":
		verifhooks.UnregisterKeyCreator[*gParams]()
	case "keyparser":
		verifhooks.UnregisterKeyParser(gURL)
	case "keyser":
		verifhooks.UnregisterKeySerializer[*gKey]()
	case "paramparser":
		verifhooks.UnregisterParametersParser(gURL)
	}
}

func okOrExists(err error) string {
	if err != nil {
		return "exists"
	}
	return "ok"
}

func gHistory(which string, ops []histOp) []string {
	gUnregister(which)
	defer gUnregister(which)
	var res []string
	for _, op := range ops {
		r := "?"
		switch op.Op {
		case "GRegister":
			switch which {
			case "prim":
				r = okOrExists(verifhooks.RegisterPrimitiveConstructor[*gKey](ctors[op.C]))
			case "keygen":
				r = okOrExists(verifhooks.RegisterKeyCreator[*gParams](map[string]func(key.Parameters, uint32) (key.Key, error){"cA": creatorA, "cB": creatorB}[op.C]))
			case "keyparser":
				r = okOrExists(verifhooks.RegisterKeyParser(gURL, map[string]func(*verifhooks.KeySerialization) (key.Key, error){"cA": parserA, "cB": parserB}[op.C]))
			case "keyser":
				r = okOrExists(verifhooks.RegisterKeySerializer[*gKey](serializerOf(op.C)))
			case "paramparser":
				r = okOrExists(verifhooks.RegisterParametersParser(gURL, gParsers[op.C]))
			}
		case "GUnregister":
			gUnregister(which)
			r = "ok"
		case "GLookup":
			r = "err"
			switch which {
			case "prim":
				if p, err := verifhooks.RegistryPrimitive(&gKey{}); err == nil {
					r = fmt.Sprint(p)
				}
			case "keygen":
				if k, err := verifhooks.CreateKey(&gParams{}, 0); err == nil {
					r = k.(*gKey).tag
				}
			case "keyparser":
				k, err := verifhooks.ParseKey(&verifhooks.KeySerialization{KeyData: &tinkpb.KeyData{TypeUrl: gURL, Value: []byte{1}, KeyMaterialType: tinkpb.KeyData_SYMMETRIC},
					OutputPrefixType: tinkpb.OutputPrefixType_RAW})
				if err == nil {
					if g, ok := k.(*gKey); ok {
						r = g.tag
					} else if strings.Contains(fmt.Sprintf("%T", k), "FallbackProtoKey") {
						r = "fallback"
					} else {
						r = "other"
					}
				}
			case "keyser":
				if s, err := verifhooks.SerializeKey(&gKey{}); err == nil {
					r = string(s.KeyData.GetValue())
				}
			case "paramparser":
				if p, err := verifhooks.ParseParameters(&tinkpb.KeyTemplate{TypeUrl: gURL, OutputPrefixType: tinkpb.OutputPrefixType_RAW}); err == nil {
					r = p.(*gParams).tag
				}
			}
		default:
			vt.Fatal("g history: unknown op %q", op.Op)
		}
		res = append(res, r)
	}
	return res
}

func doHist(c *planCase) []vt.Ev {
	var res []string
	pan, v := vt.Try(func() {
		switch c.Part {
		case "reg":
			res = regHistory(c.Ops)
		case "kms":
			res = kmsHistory(c.Ops)
		case "cfg":
			res = cfgHistory(c.Ops)
		default:
			res = gHistory(c.Part, c.Ops)
		}
	})
	ev := vt.Ev{"ev": "hist", "part": c.Part, "ops": c.field("ops"), "res": res, "panic": pan}
	if pan {
		ev["res"] = []string{fmt.Sprintf("PANIC: %v", v)}
	}
	return []vt.Ev{ev}
}
