package main

import (
	"fmt"
	"sync"

	"google.golang.org/protobuf/proto"

	"verifharness/keyfactory"
	"verifharness/vt"

	"github.com/tink-crypto/tink-go/v2/aead"
	"github.com/tink-crypto/tink-go/v2/core/registry"
	"github.com/tink-crypto/tink-go/v2/key"
	"github.com/tink-crypto/tink-go/v2/keyderivation"
	"github.com/tink-crypto/tink-go/v2/keyderivation/prfbasedkeyderivation"
	"github.com/tink-crypto/tink-go/v2/keyset"
	"github.com/tink-crypto/tink-go/v2/mac/hmac"
	"github.com/tink-crypto/tink-go/v2/prf"
	tinkpb "github.com/tink-crypto/tink-go/v2/proto/tink_go_proto"
	"github.com/tink-crypto/tink-go/v2/testing/verifhooks"
	"github.com/tink-crypto/tink-go/v2/tink"
)

// namedParameters resolves the names KeyParams.tla gives to nested parameter objects (ECIES DEMs, the PRFs and the
// derived keys of the PRF-based deriver).
func namedParameters(name string) (key.Parameters, error) {
	if p, err := keyfactory.NamedParameters(name); err == nil {
		return p, nil
	}
	if name == "NOT_A_PRF" {
		return hmac.NewParameters(hmac.ParametersOpts{KeySizeInBytes: 32, TagSizeInBytes: 16, HashType: hmac.SHA256, Variant: hmac.VariantNoPrefix})
	}
	full, err := keyfactory.NewParameters("PrfBasedDeriver", keyfactory.Params{"prf": name, "derived": "AES128_GCM_TINK"})
	if err != nil {
		return nil, err
	}
	return full.(*prfbasedkeyderivation.Parameters).PRFParameters(), nil
}

var namedCache sync.Map

func namedTemplateBytes(name string) ([]byte, bool) {
	if b, ok := namedCache.Load(name); ok {
		return b.([]byte), true
	}
	p, err := namedParameters(name)
	if err != nil {
		return nil, false
	}
	t, err := verifhooks.SerializeParameters(p)
	if err != nil {
		return nil, false
	}
	b, err := proto.Marshal(t)
	if err != nil {
		return nil, false
	}
	namedCache.Store(name, b)
	return b, true
}

const tplKekURI = "x03-kms://tpl/kek"

// the exported template constructors that take arguments, with the arguments the specification's table names
var templateSpecial = map[string]func() (*tinkpb.KeyTemplate, error){
	"aead.CreateKMSEnvelopeAEADKeyTemplate": func() (*tinkpb.KeyTemplate, error) {
		return aead.CreateKMSEnvelopeAEADKeyTemplate(tplKekURI, aead.AES128GCMKeyTemplate())
	},
	"aead.KMSEnvelopeAEADKeyTemplate": func() (*tinkpb.KeyTemplate, error) {
		return aead.KMSEnvelopeAEADKeyTemplate(tplKekURI, aead.AES128GCMKeyTemplate()), nil
	},
	"keyderivation.CreatePRFBasedKeyTemplate": func() (*tinkpb.KeyTemplate, error) {
		return keyderivation.CreatePRFBasedKeyTemplate(prf.HKDFSHA256PRFKeyTemplate(), aead.AES128GCMKeyTemplate())
	},
}

func init() {
	for _, n := range templateFuncsWithArgs {
		if _, ok := templateSpecial[n]; !ok {
			vt.Fatal("template constructor %s takes arguments and the driver has no call for it (harness/cmd/x03/tpl.go)", n)
		}
	}
}

// fakeKMS: a KMS client for key URIs under its prefix; the "remote" key is an in-memory AES-GCM key.
type fakeKMS struct {
	id, prefix string
	asked      *[]string // ids of the clients whose GetAEAD was called
	backend    tink.AEAD
}

func (c *fakeKMS) Supported(uri string) bool { return len(uri) >= len(c.prefix) && uri[:len(c.prefix)] == c.prefix }
func (c *fakeKMS) GetAEAD(uri string) (tink.AEAD, error) {
	if c.asked != nil {
		*c.asked = append(*c.asked, c.id)
	}
	if !c.Supported(uri) {
		return nil, fmt.Errorf("fakeKMS %s: uri %q not supported", c.id, uri)
	}
	return c.backend, nil
}

var kekOnce sync.Once
var kekAEAD tink.AEAD

func fakeBackend() tink.AEAD {
	kekOnce.Do(func() {
		h, err := keyset.NewHandle(aead.AES256GCMKeyTemplate())
		if err != nil {
			vt.Fatal("fake KEK: %v", err)
		}
		if kekAEAD, err = aead.New(h); err != nil {
			vt.Fatal("fake KEK: %v", err)
		}
	})
	return kekAEAD
}

func emptyTrip() map[string]any {
	return map[string]any{"done": false, "stage": "", "msg": "", "rel": "want", "fk": "", "kf": ""}
}

// roundTrip: the primitive of a handle works (produce, then accept with the same keyset)
func roundTrip(class string, h *keyset.Handle, stream int64) map[string]any {
	r := emptyTrip()
	rng := vt.Rng(stream)
	msg := vt.Bytes(rng, 1+rng.Intn(40))
	r["msg"] = vt.Hex(msg)
	var s *side
	var err error
	if pan, v := vt.Try(func() { s, err = sideOfHandle(class, h) }); pan {
		r["stage"] = fmt.Sprintf("factory panicked: %v", v)
		return r
	}
	if err != nil {
		r["stage"] = "factory: " + err.Error()
		return r
	}
	r["done"] = true
	if class == "PRF" {
		r["rel"] = "same"
		r["fk"], r["kf"] = hexOrErr(s.produce(msg)), hexOrErr(s.produce(msg))
		return r
	}
	r["fk"] = cross(s, s, msg, 0, nil)
	r["kf"] = r["fk"]
	return r
}

func doTpl(c *planCase) []vt.Ev {
	hclass := jsonStr(c, "hclass")
	ev := vt.Ev{"ev": "tpl", "name": c.Name, "kt": c.Kt, "p": c.field("p"), "found": false, "panic": false, "url": "", "prefix": "", "value": "",
		"wantBuilt": false, "parse": false, "eq": false, "eqRev": false, "lite": false, "reg": emptyKD(),
		"nk": map[string]any{"panic": false, "err": true, "name": ""},
		"h": map[string]any{"panic": false, "err": true, "n": 0, "primary": false, "status": "", "keyId": "", "idreq": "", "prefix": "", "url": "", "material": "", "eq": false, "eqRev": false},
		"rk": emptyTrip(), "nh": emptyTrip()}
	var tpl *tinkpb.KeyTemplate
	var err error
	if f, ok := templateFuncs[c.Name]; ok {
		if pan, _ := vt.Try(func() { tpl = f() }); pan {
			ev["panic"] = true
			return []vt.Ev{ev}
		}
	} else if f, ok := templateSpecial[c.Name]; ok {
		if pan, _ := vt.Try(func() { tpl, err = f() }); pan {
			ev["panic"] = true
			return []vt.Ev{ev}
		}
	} else {
		return []vt.Ev{ev} // found = false: the specification names a function the library does not have
	}
	if err != nil || tpl == nil {
		return []vt.Ev{ev}
	}
	if c.Kt == "KmsEnvelopeAead" {
		registry.ClearKMSClients()
		registry.RegisterKMSClient(&fakeKMS{id: "tpl", prefix: "x03-kms://tpl/", backend: fakeBackend()})
		defer registry.ClearKMSClients()
	}
	ev["found"], ev["url"], ev["prefix"], ev["value"] = true, tpl.GetTypeUrl(), tpl.GetOutputPrefixType().String(), vt.Hex(tpl.GetValue())
	// ---- the parameters the template stands for
	want, err := keyfactory.NewParameters(c.Kt, c.P)
	if err != nil {
		want = nil
	}
	wantRaw, err := keyfactory.NewParameters(c.Kt, rawParams(c.P))
	if err != nil || c.Kt == "PrfBasedDeriver" {
		wantRaw = want // (the deriver's manager keeps the derived template's own prefix type)
	}
	ev["wantBuilt"] = want != nil
	var tplParams key.Parameters
	if p, err := verifhooks.ParseParameters(proto.Clone(tpl).(*tinkpb.KeyTemplate)); err == nil && p != nil {
		ev["parse"] = true
		ev["eq"], ev["eqRev"] = eqBoth(p, want)
	}
	rawPT := tinkpb.OutputPrefixType_RAW
	if c.Kt == "PrfBasedDeriver" {
		rawPT = tpl.GetOutputPrefixType()
	}
	if p, err := verifhooks.ParseParameters(&tinkpb.KeyTemplate{TypeUrl: tpl.GetTypeUrl(), Value: tpl.GetValue(), OutputPrefixType: rawPT}); err == nil {
		tplParams = p
	}
	// ---- registry.NewKeyData(template) and the deprecated registry.NewKey(template)
	lite := !vt.Thorough() && expensive(c.P)
	ev["lite"] = lite
	var kd *tinkpb.KeyData
	rr := ev["reg"].(map[string]any)
	if pan, _ := vt.Try(func() { kd, err = registry.NewKeyData(proto.Clone(tpl).(*tinkpb.KeyTemplate)) }); pan {
		rr["panic"] = true
	} else if err == nil && kd != nil {
		describeKD(rr, kd, rawPT, tplParams, wantRaw)
		if lite {
		} else if kd2, err := registry.NewKeyData(proto.Clone(tpl).(*tinkpb.KeyTemplate)); err == nil && kd2 != nil {
			rr["fresh"] = string(kd.GetValue()) != string(kd2.GetValue())
		}
	}
	nk := ev["nk"].(map[string]any)
	var msg proto.Message
	if lite {
	} else if pan, _ := vt.Try(func() { msg, err = registry.NewKey(proto.Clone(tpl).(*tinkpb.KeyTemplate)) }); pan {
		nk["panic"] = true
	} else if err == nil && msg != nil {
		nk["err"], nk["name"] = false, string(msg.ProtoReflect().Descriptor().FullName())
	}
	// ---- the key registry.NewKeyData made, in a keyset with the template's prefix type: the factory accepts it and
	// the primitive works
	if kd != nil {
		id := uint32(0x1234abcd)
		h, err := handleOf(kd, tpl.GetOutputPrefixType(), id)
		if err != nil {
			ev["rk"].(map[string]any)["stage"] = "keyset handle: " + err.Error()
		} else {
			ev["rk"] = roundTrip(hclass, h, int64(c.n)*8+2)
		}
	}
	// ---- keyset.NewHandle(template)
	hr := ev["h"].(map[string]any)
	var h *keyset.Handle
	if pan, _ := vt.Try(func() { h, err = keyset.NewHandle(proto.Clone(tpl).(*tinkpb.KeyTemplate)) }); pan {
		hr["panic"] = true
	} else if err == nil && h != nil {
		hr["err"], hr["n"] = false, h.Len()
		if e, err := h.Primary(); err == nil && e != nil {
			hr["primary"], hr["status"], hr["keyId"] = e.IsPrimary(), e.KeyStatus().String(), vt.ID4(e.KeyID())
			idr, has := e.Key().IDRequirement()
			hr["idreq"] = "none"
			if has {
				hr["idreq"] = vt.ID4(idr)
			}
			hr["eq"], hr["eqRev"] = eqBoth(e.Key().Parameters(), want)
		}
		if info := h.KeysetInfo(); len(info.GetKeyInfo()) == 1 {
			hr["prefix"], hr["url"] = info.GetKeyInfo()[0].GetOutputPrefixType().String(), info.GetKeyInfo()[0].GetTypeUrl()
		}
		if k := keyDataOf(h); k != nil {
			hr["material"] = k.GetKeyMaterialType().String()
		}
		ev["nh"] = roundTrip(hclass, h, int64(c.n)*8+3)
	}
	return []vt.Ev{ev}
}
