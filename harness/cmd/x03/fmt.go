package main

import (
	"bytes"
	"encoding/binary"
	"fmt"

	"google.golang.org/protobuf/proto"

	"verifharness/keyfactory"
	"verifharness/vt"

	"github.com/tink-crypto/tink-go/v2/core/registry"
	"github.com/tink-crypto/tink-go/v2/key"
	tinkpb "github.com/tink-crypto/tink-go/v2/proto/tink_go_proto"
	"github.com/tink-crypto/tink-go/v2/testing/verifhooks"
)

var prefixTypes = []tinkpb.OutputPrefixType{tinkpb.OutputPrefixType_RAW, tinkpb.OutputPrefixType_TINK, tinkpb.OutputPrefixType_CRUNCHY}

// parseTemplate parses (type URL, format) as parameters the way the manager of kt does: output prefix type RAW; the
// PRF-based deriver takes the prefix type of its derived key template (the first one that parses is used).
func parseTemplate(kt, url string, format []byte) (key.Parameters, tinkpb.OutputPrefixType, error) {
	pts := prefixTypes[:1]
	if kt == "PrfBasedDeriver" {
		pts = prefixTypes
	}
	var err error
	for _, pt := range pts {
		var p key.Parameters
		if p, err = verifhooks.ParseParameters(&tinkpb.KeyTemplate{TypeUrl: url, Value: format, OutputPrefixType: pt}); err == nil && p != nil {
			return p, pt, nil
		}
	}
	return nil, tinkpb.OutputPrefixType_RAW, err
}

func emptyKD() map[string]any {
	return map[string]any{"panic": false, "err": true, "url": "", "material": "", "n": 0, "value": "", "parse": false, "eqTpl": false,
		"eqTplRev": false, "eqWant": false, "eqWantRev": false, "fresh": false, "why": ""}
}

// describeKD records a KeyData a manager returned: its fields, whether its value parses (prefix type pt), and whether
// the parsed key's parameters are Equal to the parsed template's / to the ones built from the plan's record.
func describeKD(r map[string]any, kd *tinkpb.KeyData, pt tinkpb.OutputPrefixType, tplParams, want key.Parameters) {
	r["err"] = false
	r["url"], r["material"], r["n"], r["value"] = kd.GetTypeUrl(), kd.GetKeyMaterialType().String(), len(kd.GetValue()), val(kd.GetValue())
	k, err := verifhooks.ParseKey(&verifhooks.KeySerialization{KeyData: kd, OutputPrefixType: pt})
	if err != nil || k == nil {
		return
	}
	r["parse"] = true
	r["eqTpl"], r["eqTplRev"] = eqBoth(k.Parameters(), tplParams)
	r["eqWant"], r["eqWantRev"] = eqBoth(k.Parameters(), want)
}

func emptyPrim() map[string]any {
	return map[string]any{"done": false, "stage": "", "refused": false, "msg": "", "rel": "want", "fk": "", "kf": "",
		"tink": map[string]any{"done": false, "id": "", "ctPrefix": "", "fk": "", "kf": ""}}
}

func emptyPub() map[string]any {
	return map[string]any{"done": false, "isPrivate": false, "panic": false, "err": true, "url": "", "material": "", "value": "",
		"parse": false, "eqWant": false, "hErr": true, "hurl": "", "hmaterial": "", "hvalue": ""}
}

func tinkPrefix(id uint32) []byte {
	b := []byte{1, 0, 0, 0, 0}
	binary.BigEndian.PutUint32(b[1:], id)
	return b
}

// interop exercises the primitive registry.Primitive makes of kd against the one the keyset factory makes of the SAME
// key, both ways (plan classes: AEAD DAEAD MAC PRF STREAM SIGN HDEC NONE).
func interop(class, url, pubURL string, kd, pubKD *tinkpb.KeyData, stream int64) map[string]any {
	r := emptyPrim()
	rng := vt.Rng(stream)
	msg := vt.Bytes(rng, 1+rng.Intn(40))
	id := rng.Uint32()
	r["msg"] = vt.Hex(msg)
	fail := func(stage string, err error) map[string]any {
		r["stage"] = fmt.Sprintf("%s: %v", stage, err)
		return r
	}
	var kp any
	var err error
	if pan, v := vt.Try(func() { kp, err = registry.Primitive(url, append([]byte(nil), kd.GetValue()...)) }); pan {
		return fail("registry.Primitive panicked", fmt.Errorf("%v", v))
	}
	if class == "NONE" {
		r["done"], r["refused"] = true, err != nil
		return r
	}
	if err != nil {
		return fail("registry.Primitive", err)
	}
	var kside *side
	switch class {
	case "SIGN", "HDEC":
		if pubKD == nil {
			return fail("no public key data", nil)
		}
		pp, err := registry.PrimitiveFromKeyData(pubKD)
		if err != nil {
			return fail("registry.PrimitiveFromKeyData(public)", err)
		}
		if class == "SIGN" {
			kside, err = sideOfPrimitives(class, kp, pp)
		} else {
			kside, err = sideOfPrimitives(class, pp, kp)
		}
		if err != nil {
			return fail("registry primitives", err)
		}
	default:
		if kside, err = sideOfPrimitives(class, kp, nil); err != nil {
			return fail("registry primitive", err)
		}
	}
	h, err := handleOf(kd, tinkpb.OutputPrefixType_RAW, id)
	if err != nil {
		return fail("keyset handle (RAW)", err)
	}
	fside, err := sideOfHandle(class, h)
	if err != nil {
		return fail("keyset factory (RAW)", err)
	}
	r["done"] = true
	if class == "PRF" {
		r["rel"] = "same"
		r["fk"], r["kf"] = hexOrErr(fside.produce(msg)), hexOrErr(kside.produce(msg))
		return r
	}
	r["fk"], r["kf"] = cross(fside, kside, msg, 0, nil), cross(kside, fside, msg, 0, nil)
	if class == "STREAM" {
		return r
	}
	// the same key under output prefix type TINK: the factory adds / strips 0x01 || key id, the registry primitive does not
	t := r["tink"].(map[string]any)
	t["id"] = vt.ID4(id)
	hT, err := handleOf(kd, tinkpb.OutputPrefixType_TINK, id)
	if err != nil {
		t["ctPrefix"] = "ERR:handle"
		return r
	}
	fT, err := sideOfHandle(class, hT)
	if err != nil {
		t["ctPrefix"] = "ERR:factory"
		return r
	}
	tok, err := fT.produce(msg)
	if err != nil || len(tok) < 5 {
		t["ctPrefix"] = "ERR:produce"
		return r
	}
	t["done"], t["ctPrefix"] = true, vt.Hex(tok[:5])
	t["fk"], t["kf"] = cross(fT, kside, msg, 5, nil), cross(kside, fT, msg, 0, tinkPrefix(id))
	return r
}

// publicKeyData compares PrivateKeyManager.PublicKeyData(serialized private key) with the key data of handle.Public().
func publicKeyData(km registry.KeyManager, kd *tinkpb.KeyData, want key.Parameters) (map[string]any, *tinkpb.KeyData) {
	r := emptyPub()
	r["done"] = true
	pkm, ok := km.(registry.PrivateKeyManager)
	r["isPrivate"] = ok
	if !ok {
		return r, nil
	}
	var pub *tinkpb.KeyData
	var err error
	if pan, _ := vt.Try(func() { pub, err = pkm.PublicKeyData(append([]byte(nil), kd.GetValue()...)) }); pan {
		r["panic"] = true
		return r, nil
	}
	if err == nil && pub != nil {
		r["err"] = false
		r["url"], r["material"], r["value"] = pub.GetTypeUrl(), pub.GetKeyMaterialType().String(), val(pub.GetValue())
		if k, err := parseRaw(pub); err == nil && k != nil {
			r["parse"] = true
			a, b := eqBoth(k.Parameters(), want)
			r["eqWant"] = a && b
		}
	}
	if h, err := handleOf(kd, tinkpb.OutputPrefixType_RAW, 7); err == nil {
		if ph, err := h.Public(); err == nil {
			if hk := keyDataOf(ph); hk != nil {
				r["hErr"] = false
				r["hurl"], r["hmaterial"], r["hvalue"] = hk.GetTypeUrl(), hk.GetKeyMaterialType().String(), val(hk.GetValue())
			}
		}
	}
	if r["err"].(bool) {
		return r, nil
	}
	return r, pub
}

func doFmt(c *planCase) []vt.Ev {
	var x struct {
		URL, PubURL, Class string
	}
	x.URL, x.PubURL, x.Class = jsonStr(c, "url"), jsonStr(c, "pubUrl"), jsonStr(c, "class")
	ev := vt.Ev{"ev": c.C, "kt": c.Kt, "kind": c.Kind, "p": c.field("p"), "dp": c.field("dp"), "url": x.URL, "fmtBuilt": false, "format": "", "found": false,
		"tplParse": false, "wantBuilt": false, "lite": false, "km": emptyKD(), "reg": emptyKD(), "nk": map[string]any{"panic": false, "err": true, "name": "", "parse": false, "eqWant": false},
		"prim": emptyPrim(), "pub": emptyPub(), "junk": map[string]any{"done": false, "trunc": "", "flip": "", "pubTrunc": "", "fmtTrunc": ""}}
	format, ok := encodeFormat(c.Kt, c.Wire)
	if !ok {
		return []vt.Ev{ev}
	}
	ev["fmtBuilt"], ev["format"] = true, val(format)
	km, err := registry.GetKeyManager(x.URL)
	if err != nil || km == nil {
		return []vt.Ev{ev}
	}
	ev["found"] = true
	tplParams, pt, err := parseTemplate(c.Kt, x.URL, format)
	ev["tplParse"] = err == nil
	want, err := keyfactory.NewParameters(c.Kt, c.DP)
	ev["wantBuilt"] = err == nil
	if err != nil {
		want = nil
	}
	// quick tier: no repeated generation of expensive (RSA >= 3072 bit) keys
	lite := !vt.Thorough() && expensive(c.DP)
	ev["lite"] = lite
	// ---- the manager's NewKeyData (twice: fresh key material on every call)
	var kd *tinkpb.KeyData
	kmr := ev["km"].(map[string]any)
	if pan, _ := vt.Try(func() { kd, err = km.NewKeyData(append([]byte(nil), format...)) }); pan {
		kmr["panic"] = true
	} else if err != nil {
		kmr["why"] = err.Error()
	} else if kd != nil {
		describeKD(kmr, kd, pt, tplParams, want)
		if lite {
		} else if kd2, err := km.NewKeyData(append([]byte(nil), format...)); err == nil && kd2 != nil {
			kmr["fresh"] = !bytes.Equal(kd.GetValue(), kd2.GetValue())
		}
	}
	// ---- registry.NewKeyData(template): the template's own output prefix type must not matter
	rr := ev["reg"].(map[string]any)
	var kdR *tinkpb.KeyData
	if pan, _ := vt.Try(func() {
		kdR, err = registry.NewKeyData(&tinkpb.KeyTemplate{TypeUrl: x.URL, Value: append([]byte(nil), format...), OutputPrefixType: tinkpb.OutputPrefixType_TINK})
	}); pan {
		rr["panic"] = true
	} else if err == nil && kdR != nil {
		describeKD(rr, kdR, pt, tplParams, want)
		rr["fresh"] = kd == nil || !bytes.Equal(kd.GetValue(), kdR.GetValue())
	}
	// ---- the deprecated NewKey: the same key as a proto message
	nk := ev["nk"].(map[string]any)
	var msg proto.Message
	if lite {
	} else if pan, _ := vt.Try(func() { msg, err = km.NewKey(append([]byte(nil), format...)) }); pan {
		nk["panic"] = true
	} else if err == nil && msg != nil {
		nk["err"] = false
		nk["name"] = string(msg.ProtoReflect().Descriptor().FullName())
		if b, err := proto.Marshal(msg); err == nil {
			material := tinkpb.KeyData_SYMMETRIC
			if kd != nil {
				material = kd.GetKeyMaterialType()
			}
			if k, err := verifhooks.ParseKey(&verifhooks.KeySerialization{KeyData: &tinkpb.KeyData{TypeUrl: x.URL, Value: b, KeyMaterialType: material}, OutputPrefixType: pt}); err == nil && k != nil {
				nk["parse"] = true
				a, b := eqBoth(k.Parameters(), want)
				nk["eqWant"] = a && b
			}
		}
	}
	if kd == nil || c.C == "pubfmt" {
		return []vt.Ev{ev}
	}
	// ---- damaged input must never panic: a truncated / bit-flipped serialized key, a truncated key format
	{
		j := ev["junk"].(map[string]any)
		v := kd.GetValue()
		rng := vt.Rng(int64(c.n)*8 + 4)
		flip := append([]byte(nil), v...)
		if len(flip) > 0 {
			flip[rng.Intn(len(flip))] ^= 1 << uint(rng.Intn(8))
		}
		j["done"] = true
		j["trunc"] = refused(func() error { _, err := km.Primitive(append([]byte(nil), v[:len(v)/2]...)); return err })
		j["flip"] = refused(func() error { _, err := km.Primitive(flip); return err })
		j["pubTrunc"] = "n/a"
		if pkm, ok := km.(registry.PrivateKeyManager); ok {
			j["pubTrunc"] = refused(func() error { _, err := pkm.PublicKeyData(append([]byte(nil), v[:len(v)/2]...)); return err })
		}
		j["fmtTrunc"] = "n/a"
		if len(format) > 1 {
			j["fmtTrunc"] = refused(func() error { _, err := km.NewKeyData(append([]byte(nil), format[:len(format)-1]...)); return err })
		}
	}
	// ---- PublicKeyData and the primitives
	var pubKD *tinkpb.KeyData
	if c.Kind == "private" {
		ev["pub"], pubKD = publicKeyData(km, kd, want)
	}
	if c.Interop {
		ev["prim"] = interop(x.Class, x.URL, x.PubURL, kd, pubKD, int64(c.n)*8+1)
	}
	return []vt.Ev{ev}
}

// expensive: key generation for this record costs seconds (RSA moduli of 3072 bits and more)
func expensive(p keyfactory.Params) bool {
	if _, ok := p["modulusBits"]; !ok {
		return false
	}
	return p.Int("modulusBits") >= 3072
}

func jsonStr(c *planCase, name string) string {
	b := c.field(name)
	if len(b) < 2 || b[0] != '"' {
		return ""
	}
	return string(b[1 : len(b)-1])
}
