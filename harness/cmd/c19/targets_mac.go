package main

import (
	"fmt"

	"github.com/tink-crypto/tink-go/v2/core/registry"
	"github.com/tink-crypto/tink-go/v2/insecurecleartextkeyset"
	"github.com/tink-crypto/tink-go/v2/keyset"
	"github.com/tink-crypto/tink-go/v2/mac"
	"github.com/tink-crypto/tink-go/v2/mac/aescmac"
	"github.com/tink-crypto/tink-go/v2/mac/hmac"
	macsubtle "github.com/tink-crypto/tink-go/v2/mac/subtle"
	tinkpb "github.com/tink-crypto/tink-go/v2/proto/tink_go_proto"
	"github.com/tink-crypto/tink-go/v2/secretdata"
	"github.com/tink-crypto/tink-go/v2/tink"
	"google.golang.org/protobuf/proto"
)

func materialOf(t *tinkpb.KeyTemplate) *tinkpb.Keyset {
	return insecurecleartextkeyset.KeysetMaterial(newHandle(t))
}

var prefixes = []tinkpb.OutputPrefixType{tinkpb.OutputPrefixType_TINK, tinkpb.OutputPrefixType_CRUNCHY,
	tinkpb.OutputPrefixType_LEGACY, tinkpb.OutputPrefixType_RAW}

// factoryTargets registers one target per output prefix type the key type accepts.
func factoryTargets(base, kind string, cost int, ks *tinkpb.Keyset, impl string, pts ...tinkpb.OutputPrefixType) {
	if len(pts) == 0 {
		pts = prefixes
	}
	n := 0
	for _, pt := range pts {
		v := withPrefix(ks, pt)
		if _, err := insecurecleartextkeyset.Read(&keyset.MemReaderWriter{Keyset: proto.Clone(v).(*tinkpb.Keyset)}); err != nil {
			continue // this key type has no such variant
		}
		h := must(insecurecleartextkeyset.Read(&keyset.MemReaderWriter{Keyset: proto.Clone(v).(*tinkpb.Keyset)}))
		if _, err := buildPrimitive(kindForBuild(kind), h); err != nil {
			continue
		}
		register(factoryTarget(fmt.Sprintf("%s/%s", base, pt), kind, cost, v, impl))
		n++
	}
	if n == 0 {
		panic("no variant of " + base + " could be built")
	}
}

func kindForBuild(kind string) string {
	switch kind {
	case "verifier":
		return "signer"
	case "hybridenc":
		return "hybriddec"
	}
	return kind
}

// ---------------------------------------------------------------------------------------------
// A key type Tink has no key class for: a custom registry.KeyManager whose Primitive returns a plain
// (non-full) tink.MAC.  mac.New wraps it into the legacy adapter (mac_factory.go fullMACAdapter).

const legacyMACTypeURL = "type.googleapis.com/verif.c19.LegacyMac"

type legacyMACKeyManager struct{}

func (legacyMACKeyManager) Primitive(serializedKey []byte) (any, error) {
	return macsubtle.NewHMAC("SHA256", append([]byte{}, serializedKey...), 16)
}
func (legacyMACKeyManager) NewKey(serializedKeyFormat []byte) (proto.Message, error) {
	return nil, fmt.Errorf("not supported")
}
func (legacyMACKeyManager) NewKeyData(serializedKeyFormat []byte) (*tinkpb.KeyData, error) {
	return nil, fmt.Errorf("not supported")
}
func (legacyMACKeyManager) DoesSupport(typeURL string) bool { return typeURL == legacyMACTypeURL }
func (legacyMACKeyManager) TypeURL() string                 { return legacyMACTypeURL }

var _ registry.KeyManager = legacyMACKeyManager{}

func customKeyset(typeURL string, value []byte, mt tinkpb.KeyData_KeyMaterialType, id uint32) *tinkpb.Keyset {
	return &tinkpb.Keyset{PrimaryKeyId: id, Key: []*tinkpb.Keyset_Key{{
		KeyData:          &tinkpb.KeyData{TypeUrl: typeURL, Value: value, KeyMaterialType: mt},
		Status:           tinkpb.KeyStatusType_ENABLED,
		KeyId:            id,
		OutputPrefixType: tinkpb.OutputPrefixType_TINK,
	}}}
}

func init() {
	must(0, registry.RegisterKeyManager(legacyMACKeyManager{}))

	// mac.New over every MAC key type and prefix type
	factoryTargets("mac.New/HMACSHA256Tag128", "mac", 0, materialOf(mac.HMACSHA256Tag128KeyTemplate()), "")
	factoryTargets("mac.New/HMACSHA512Tag512", "mac", 0, materialOf(mac.HMACSHA512Tag512KeyTemplate()), "")
	factoryTargets("mac.New/AESCMACTag128", "mac", 0, materialOf(mac.AESCMACTag128KeyTemplate()), "")
	factoryTargets("mac.New/legacy-adapter", "mac", 0,
		customKeyset(legacyMACTypeURL, []byte("0123456789abcdef0123456789abcdef"), tinkpb.KeyData_SYMMETRIC, 0x01020304), "mac.New[legacy-adapter]")

	// key objects
	for _, tmpl := range []struct {
		n string
		t *tinkpb.KeyTemplate
	}{{"HMACSHA256Tag128/TINK", mac.HMACSHA256Tag128KeyTemplate()}, {"HMACSHA512Tag512/LEGACY", legacyTemplate(mac.HMACSHA512Tag512KeyTemplate())}} {
		k0 := primaryKey(newHandle(tmpl.t)).(*hmac.Key)
		raw := k0.KeyBytes().Data(tok)
		id, _ := k0.IDRequirement()
		params := k0.Parameters().(*hmac.Parameters)
		register(&Target{Name: "mac/hmac.Key/" + tmpl.n, Obs: obsKey,
			New: func(c *Call) any {
				c.Site("mac/hmac.NewKey", "mac/hmac.NewKey", "secretdata.NewBytesFromData")
				k, err := hmac.NewKey(secretdata.NewBytesFromData(c.In("keyBytes", raw), tok), params, id)
				if !c.Check(err) {
					return nil
				}
				return newKeyObject(k, must(hmac.NewKey(secretdata.NewBytesFromData(append([]byte{}, raw...), tok), params, id)), "mac", nil)
			},
			Acc: []func(c *Call, o any){
				func(c *Call, o any) {
					c.Site("mac/hmac.(Key).OutputPrefix", "mac/hmac.(Key).OutputPrefix")
					c.Out("outputPrefix", o.(*keyObject).k.(*hmac.Key).OutputPrefix())
				},
				func(c *Call, o any) {
					c.Site("mac/hmac.(Key).KeyBytes", "mac/hmac.(Key).KeyBytes", "secretdata.(Bytes).Data")
					c.Out("keyBytes", o.(*keyObject).k.(*hmac.Key).KeyBytes().Data(tok))
				},
			}})
	}
	{
		k0 := primaryKey(newHandle(mac.AESCMACTag128KeyTemplate())).(*aescmac.Key)
		raw := k0.KeyBytes().Data(tok)
		id, _ := k0.IDRequirement()
		params := k0.Parameters().(*aescmac.Parameters)
		register(&Target{Name: "mac/aescmac.Key/TINK", Obs: obsKey,
			New: func(c *Call) any {
				c.Site("mac/aescmac.NewKey", "mac/aescmac.NewKey", "secretdata.NewBytesFromData")
				k, err := aescmac.NewKey(secretdata.NewBytesFromData(c.In("keyBytes", raw), tok), params, id)
				if !c.Check(err) {
					return nil
				}
				return newKeyObject(k, must(aescmac.NewKey(secretdata.NewBytesFromData(append([]byte{}, raw...), tok), params, id)), "mac", nil)
			},
			Acc: []func(c *Call, o any){
				func(c *Call, o any) {
					c.Site("mac/aescmac.(Key).OutputPrefix", "mac/aescmac.(Key).OutputPrefix")
					c.Out("outputPrefix", o.(*keyObject).k.(*aescmac.Key).OutputPrefix())
				},
				func(c *Call, o any) {
					c.Site("mac/aescmac.(Key).KeyBytes", "mac/aescmac.(Key).KeyBytes", "secretdata.(Bytes).Data")
					c.Out("keyBytes", o.(*keyObject).k.(*aescmac.Key).KeyBytes().Data(tok))
				},
			}})
	}

	// subtle constructors: the object is the primitive itself
	subtleMAC := func(name, site, concrete string, mk func(key []byte) (tink.MAC, error), keyLen int, ops ...string) {
		raw := []byte("0123456789abcdef0123456789abcdefXYZ")[:keyLen]
		uses := primitiveUses("mac", name, concrete, func(o any) any { return o.(*directObject).p },
			func(o any) any { return o.(*directObject).twin })
		register(&Target{Name: name, Obs: obsDirect,
			New: func(c *Call) any {
				c.Site(site, ops...)
				p, err := mk(c.In("key", raw))
				if !c.Check(err) {
					return nil
				}
				twin := must(mk(append([]byte{}, raw...)))
				return &directObject{p: p, twin: twin, probe: func() string { return res(p.ComputeMAC(probeMsg())) }}
			},
			Use: uses})
	}
	subtleMAC("mac/subtle.HMAC", "mac/subtle.NewHMAC", "mac/subtle.(HMAC)", func(k []byte) (tink.MAC, error) { return macsubtle.NewHMAC("SHA256", k, 16) }, 32,
		"mac/subtle.NewHMAC")
	subtleMAC("mac/subtle.AESCMAC", "mac/subtle.NewAESCMAC", "mac/subtle.(AESCMAC)", func(k []byte) (tink.MAC, error) { return macsubtle.NewAESCMAC(k, 16) }, 32,
		"mac/subtle.NewAESCMAC")
}

func legacyTemplate(t *tinkpb.KeyTemplate) *tinkpb.KeyTemplate {
	c := proto.Clone(t).(*tinkpb.KeyTemplate)
	c.OutputPrefixType = tinkpb.OutputPrefixType_LEGACY
	return c
}
