package main

import (
	"fmt"

	"github.com/tink-crypto/tink-go/v2/aead/aesctrhmac"
	"github.com/tink-crypto/tink-go/v2/aead/aesgcm"
	"github.com/tink-crypto/tink-go/v2/aead/aesgcmsiv"
	"github.com/tink-crypto/tink-go/v2/aead/chacha20poly1305"
	"github.com/tink-crypto/tink-go/v2/aead/xaesgcm"
	"github.com/tink-crypto/tink-go/v2/aead/xchacha20poly1305"
	"github.com/tink-crypto/tink-go/v2/daead/aessiv"
	"github.com/tink-crypto/tink-go/v2/hybrid"
	"github.com/tink-crypto/tink-go/v2/hybrid/ecies"
	"github.com/tink-crypto/tink-go/v2/hybrid/hpke"
	"github.com/tink-crypto/tink-go/v2/jwt/jwtecdsa"
	"github.com/tink-crypto/tink-go/v2/jwt/jwthmac"
	"github.com/tink-crypto/tink-go/v2/jwt/jwtmldsa"
	"github.com/tink-crypto/tink-go/v2/jwt/jwtrsassapkcs1"
	"github.com/tink-crypto/tink-go/v2/jwt/jwtrsassapss"
	"github.com/tink-crypto/tink-go/v2/key"
	"github.com/tink-crypto/tink-go/v2/keyset"
	"github.com/tink-crypto/tink-go/v2/mac/aescmac"
	"github.com/tink-crypto/tink-go/v2/mac/hmac"
	"github.com/tink-crypto/tink-go/v2/prf/aescmacprf"
	"github.com/tink-crypto/tink-go/v2/prf/hkdfprf"
	"github.com/tink-crypto/tink-go/v2/prf/hmacprf"
	"github.com/tink-crypto/tink-go/v2/secretdata"
	"github.com/tink-crypto/tink-go/v2/signature/ecdsa"
	"github.com/tink-crypto/tink-go/v2/signature/ed25519"
	"github.com/tink-crypto/tink-go/v2/signature/mldsa"
	"github.com/tink-crypto/tink-go/v2/signature/rsassapkcs1"
	"github.com/tink-crypto/tink-go/v2/signature/rsassapss"
	"github.com/tink-crypto/tink-go/v2/signature/slhdsa"
	saesctrhmac "github.com/tink-crypto/tink-go/v2/streamingaead/aesctrhmac"
	"github.com/tink-crypto/tink-go/v2/streamingaead/aesgcmhkdf"
)

// Every member of every key family: the constructors and accessors of a key class switch on the
// parameters (KEM id, curve, point format, instance, hash, variant), and each branch stores or
// returns bytes in its own way.  The targets of this file construct a key of EVERY value of every
// such parameter from caller buffers and read every accessor; they observe the key object itself
// (Equal against a pristine copy, serialized key data, accessor results) without building primitives,
// which keeps them cheap enough to run in full on every run.

func genKey(p key.Parameters) (key.Key, error) {
	m := keyset.NewManager()
	id, err := m.AddNewKeyFromParameters(p)
	if err != nil {
		return nil, err
	}
	if err := m.SetPrimary(id); err != nil {
		return nil, err
	}
	h, err := m.Handle()
	if err != nil {
		return nil, err
	}
	e, err := h.Primary()
	if err != nil {
		return nil, err
	}
	return e.Key(), nil
}

// wideSym registers a symmetric key class member when the parameters are accepted and a key can be generated.
func wideSym[K symKey](pkg, variant string, p key.Parameters, perr error, mk func(sd secretdata.Bytes, k0 K) (K, error)) {
	if perr != nil {
		return // this combination does not exist
	}
	k, err := genKey(p)
	if err != nil {
		return
	}
	symKeyTarget(pkg, "wide/"+variant, "none", k.(K), mk)
}

func init() {
	// ---------------- HPKE: every KEM id (ECDH curves are re-encoded, X-Wing and ML-KEM only length-checked), every variant
	for kem := hpke.DHKEM_P256_HKDF_SHA256; kem <= hpke.ML_KEM1024; kem++ {
		for _, v := range []hpke.Variant{hpke.VariantTink, hpke.VariantCrunchy, hpke.VariantNoPrefix} {
			params, err := hpke.NewParameters(hpke.ParametersOpts{KEMID: kem, KDFID: hpke.HKDFSHA256, AEADID: hpke.AES128GCM, Variant: v})
			if err != nil {
				continue
			}
			k, err := genKey(params)
			if err != nil {
				continue
			}
			p0 := k.(*hpke.PrivateKey)
			pkTargets(pkFamily{pkg: "hybrid/hpke", variant: fmt.Sprintf("wide/%v/%v", kem, v), privKind: "none", pubKind: "none", priv0: p0,
				pubArg: "publicKeyBytes", pubAcc: "PublicKeyBytes", getPub: func(k key.Key) []byte { return k.(*hpke.PublicKey).PublicKeyBytes() },
				mkPub:   func(b []byte) (key.Key, error) { return hpke.NewPublicKey(b, idOf(p0), params) },
				privArg: "privateKeyBytes", privAcc: "PrivateKeyBytes", getPriv: func(k key.Key) secretdata.Bytes { return k.(*hpke.PrivateKey).PrivateKeyBytes() },
				mkPriv: map[string]func(sd secretdata.Bytes, pub key.Key) (key.Key, error){
					"NewPrivateKey": func(sd secretdata.Bytes, pub key.Key) (key.Key, error) {
						return hpke.NewPrivateKey(sd, idOf(p0), params)
					},
					"NewPrivateKeyFromPublicKey": func(sd secretdata.Bytes, pub key.Key) (key.Key, error) {
						return hpke.NewPrivateKeyFromPublicKey(sd, pub.(*hpke.PublicKey))
					},
				}})
		}
	}
	// ---------------- ECIES: every curve x point format, every variant
	dem := primaryKey(newHandle(hybrid.ECIESHKDFAES128GCMKeyTemplate())).Parameters().(*ecies.Parameters).DEMParameters()
	for _, ct := range []ecies.CurveType{ecies.NISTP256, ecies.NISTP384, ecies.NISTP521, ecies.X25519} {
		for _, pf := range []ecies.PointFormat{ecies.UnspecifiedPointFormat, ecies.CompressedPointFormat, ecies.UncompressedPointFormat, ecies.LegacyUncompressedPointFormat} {
			for _, v := range []ecies.Variant{ecies.VariantTink, ecies.VariantCrunchy, ecies.VariantNoPrefix} {
				params, err := ecies.NewParameters(ecies.ParametersOpts{CurveType: ct, HashType: ecies.SHA256, NISTCurvePointFormat: pf, DEMParameters: dem,
					Salt: []byte("salt"), Variant: v})
				if err != nil {
					continue
				}
				if v != ecies.VariantTink && !(ct == ecies.NISTP256 && pf == ecies.UncompressedPointFormat) {
					continue // the variant only selects the prefix: all variants on one member
				}
				k, err := genKey(params)
				if err != nil {
					continue
				}
				p0 := k.(*ecies.PrivateKey)
				pkTargets(pkFamily{pkg: "hybrid/ecies", variant: fmt.Sprintf("wide/%v/%v/%v", ct, pf, v), privKind: "none", pubKind: "none", priv0: p0,
					pubArg: "publicKeyBytes", pubAcc: "PublicKeyBytes", getPub: func(k key.Key) []byte { return k.(*ecies.PublicKey).PublicKeyBytes() },
					mkPub:   func(b []byte) (key.Key, error) { return ecies.NewPublicKey(b, idOf(p0), params) },
					privArg: "privateKeyBytes", privAcc: "PrivateKeyBytes", getPriv: func(k key.Key) secretdata.Bytes { return k.(*ecies.PrivateKey).PrivateKeyBytes() },
					mkPriv: map[string]func(sd secretdata.Bytes, pub key.Key) (key.Key, error){
						"NewPrivateKey": func(sd secretdata.Bytes, pub key.Key) (key.Key, error) {
							return ecies.NewPrivateKey(sd, idOf(p0), params)
						},
						"NewPrivateKeyFromPublicKey": func(sd secretdata.Bytes, pub key.Key) (key.Key, error) {
							return ecies.NewPrivateKeyFromPublicKey(sd, pub.(*ecies.PublicKey))
						},
					}})
			}
		}
	}
	// ---------------- ECDSA: every curve (x hash x encoding accepted with it), every variant
	for _, ct := range []ecdsa.CurveType{ecdsa.NistP256, ecdsa.NistP384, ecdsa.NistP521} {
		for _, ht := range []ecdsa.HashType{ecdsa.SHA256, ecdsa.SHA384, ecdsa.SHA512} {
			for _, enc := range []ecdsa.SignatureEncoding{ecdsa.DER, ecdsa.IEEEP1363} {
				for _, v := range []ecdsa.Variant{ecdsa.VariantTink, ecdsa.VariantCrunchy, ecdsa.VariantLegacy, ecdsa.VariantNoPrefix} {
					params, err := ecdsa.NewParameters(ct, ht, enc, v)
					if err != nil {
						continue
					}
					if v != ecdsa.VariantTink && !(ct == ecdsa.NistP256 && enc == ecdsa.DER) {
						continue
					}
					k, err := genKey(params)
					if err != nil {
						continue
					}
					p0 := k.(*ecdsa.PrivateKey)
					pkTargets(pkFamily{pkg: "signature/ecdsa", variant: fmt.Sprintf("wide/%v/%v/%v/%v", ct, ht, enc, v), privKind: "none", pubKind: "none", priv0: p0,
						pubArg: "publicPoint", pubAcc: "PublicPoint", getPub: func(k key.Key) []byte { return k.(*ecdsa.PublicKey).PublicPoint() },
						mkPub:   func(b []byte) (key.Key, error) { return ecdsa.NewPublicKey(b, idOf(p0), params) },
						privArg: "privateKeyValue", privAcc: "PrivateKeyValue", getPriv: func(k key.Key) secretdata.Bytes { return k.(*ecdsa.PrivateKey).PrivateKeyValue() },
						mkPriv: map[string]func(sd secretdata.Bytes, pub key.Key) (key.Key, error){
							"NewPrivateKey": func(sd secretdata.Bytes, pub key.Key) (key.Key, error) {
								return ecdsa.NewPrivateKey(sd, idOf(p0), params)
							},
							"NewPrivateKeyFromPublicKey": func(sd secretdata.Bytes, pub key.Key) (key.Key, error) {
								return ecdsa.NewPrivateKeyFromPublicKey(pub.(*ecdsa.PublicKey), sd)
							},
						}})
				}
			}
		}
	}
	// ---------------- Ed25519: every variant
	for _, v := range []ed25519.Variant{ed25519.VariantTink, ed25519.VariantCrunchy, ed25519.VariantLegacy, ed25519.VariantNoPrefix} {
		params, err := ed25519.NewParameters(v)
		if err != nil {
			continue
		}
		k, err := genKey(&params)
		if err != nil {
			continue
		}
		p0 := k.(*ed25519.PrivateKey)
		pkTargets(pkFamily{pkg: "signature/ed25519", variant: fmt.Sprintf("wide/%v", v), privKind: "none", pubKind: "none", priv0: p0,
			pubArg: "keyBytes", pubAcc: "KeyBytes", getPub: func(k key.Key) []byte { return k.(*ed25519.PublicKey).KeyBytes() },
			mkPub:   func(b []byte) (key.Key, error) { return ed25519.NewPublicKey(b, idOf(p0), params) },
			privArg: "privateKeyBytes", privAcc: "PrivateKeyBytes", getPriv: func(k key.Key) secretdata.Bytes { return k.(*ed25519.PrivateKey).PrivateKeyBytes() },
			mkPriv: map[string]func(sd secretdata.Bytes, pub key.Key) (key.Key, error){
				"NewPrivateKey": func(sd secretdata.Bytes, pub key.Key) (key.Key, error) {
					return ed25519.NewPrivateKey(sd, idOf(p0), params)
				},
				"NewPrivateKeyWithPublicKey": func(sd secretdata.Bytes, pub key.Key) (key.Key, error) {
					return ed25519.NewPrivateKeyWithPublicKey(sd, pub.(*ed25519.PublicKey))
				},
			}})
	}
	// ---------------- ML-DSA: every instance x variant
	for _, inst := range []mldsa.Instance{mldsa.MLDSA44, mldsa.MLDSA65, mldsa.MLDSA87} {
		for _, v := range []mldsa.Variant{mldsa.VariantTink, mldsa.VariantNoPrefix, mldsa.VariantNoPrefixWithPrehashID} {
			params, err := mldsa.NewParameters(inst, v)
			if err != nil {
				continue
			}
			k, err := genKey(params)
			if err != nil {
				continue
			}
			p0 := k.(*mldsa.PrivateKey)
			pkTargets(pkFamily{pkg: "signature/mldsa", variant: fmt.Sprintf("wide/%v/%v", inst, v), privKind: "none", pubKind: "none", priv0: p0,
				pubArg: "keyBytes", pubAcc: "KeyBytes", getPub: func(k key.Key) []byte { return k.(*mldsa.PublicKey).KeyBytes() },
				mkPub:   func(b []byte) (key.Key, error) { return mldsa.NewPublicKey(b, idOf(p0), params) },
				privArg: "privateKeyBytes", privAcc: "PrivateKeyBytes", getPriv: func(k key.Key) secretdata.Bytes { return k.(*mldsa.PrivateKey).PrivateKeyBytes() },
				mkPriv: map[string]func(sd secretdata.Bytes, pub key.Key) (key.Key, error){
					"NewPrivateKey": func(sd secretdata.Bytes, pub key.Key) (key.Key, error) {
						return mldsa.NewPrivateKey(sd, idOf(p0), params)
					},
					"NewPrivateKeyWithPublicKey": func(sd secretdata.Bytes, pub key.Key) (key.Key, error) {
						return mldsa.NewPrivateKeyWithPublicKey(sd, pub.(*mldsa.PublicKey))
					},
				}})
		}
	}
	// ---------------- SLH-DSA: every parameter set (key constructors only: no signing)
	for _, ht := range []slhdsa.HashType{slhdsa.SHA2, slhdsa.SHAKE} {
		for _, ks := range []int{64, 96, 128} {
			for _, st := range []slhdsa.SignatureType{slhdsa.FastSigning, slhdsa.SmallSignature} {
				for _, v := range []slhdsa.Variant{slhdsa.VariantTink, slhdsa.VariantNoPrefix} {
					if v == slhdsa.VariantNoPrefix && !(ht == slhdsa.SHAKE && ks == 96) {
						continue
					}
					params, err := slhdsa.NewParameters(ht, ks, st, v)
					if err != nil {
						continue
					}
					k, err := genKey(params)
					if err != nil {
						continue
					}
					p0 := k.(*slhdsa.PrivateKey)
					pkTargets(pkFamily{pkg: "signature/slhdsa", variant: fmt.Sprintf("wide/%v-%d-%v/%v", ht, ks, st, v), privKind: "none", pubKind: "none", priv0: p0,
						pubArg: "keyBytes", pubAcc: "KeyBytes", getPub: func(k key.Key) []byte { return k.(*slhdsa.PublicKey).KeyBytes() },
						mkPub:   func(b []byte) (key.Key, error) { return slhdsa.NewPublicKey(b, idOf(p0), params) },
						privArg: "privateKeyBytes", privAcc: "PrivateKeyBytes", getPriv: func(k key.Key) secretdata.Bytes { return k.(*slhdsa.PrivateKey).PrivateKeyBytes() },
						mkPriv: map[string]func(sd secretdata.Bytes, pub key.Key) (key.Key, error){
							"NewPrivateKey": func(sd secretdata.Bytes, pub key.Key) (key.Key, error) {
								return slhdsa.NewPrivateKey(sd, idOf(p0), params)
							},
							"NewPrivateKeyWithPublicKey": func(sd secretdata.Bytes, pub key.Key) (key.Key, error) {
								return slhdsa.NewPrivateKeyWithPublicKey(sd, pub.(*slhdsa.PublicKey))
							},
						}})
				}
			}
		}
	}
	// ---------------- RSA (signature and JWT): every hash / algorithm and variant over ONE generated key's material
	{
		base := keyFromParams(must(rsassapkcs1.NewParameters(2048, rsassapkcs1.SHA256, 65537, rsassapkcs1.VariantNoPrefix))).(*rsassapkcs1.PrivateKey)
		n := must(base.PublicKey()).(*rsassapkcs1.PublicKey).Modulus()
		p, q, d := base.P(), base.Q(), base.D()
		for _, ht := range []rsassapkcs1.HashType{rsassapkcs1.SHA256, rsassapkcs1.SHA384, rsassapkcs1.SHA512} {
			for _, v := range []rsassapkcs1.Variant{rsassapkcs1.VariantTink, rsassapkcs1.VariantCrunchy, rsassapkcs1.VariantLegacy, rsassapkcs1.VariantNoPrefix} {
				if v != rsassapkcs1.VariantTink && ht != rsassapkcs1.SHA256 {
					continue
				}
				params, err := rsassapkcs1.NewParameters(2048, ht, 65537, v)
				if err != nil {
					continue
				}
				id := uint32(0)
				if params.HasIDRequirement() {
					id = 0x01020304
				}
				mkPub := func(n []byte) (key.Key, error) { return rsassapkcs1.NewPublicKey(n, id, params) }
				mkPriv := func(pub key.Key, p, q, d secretdata.Bytes) (key.Key, error) {
					return rsassapkcs1.NewPrivateKey(pub.(*rsassapkcs1.PublicKey), rsassapkcs1.PrivateKeyValues{P: p, Q: q, D: d})
				}
				p0 := must(mkPriv(must(mkPub(clone(n))), p, q, d)).(rsaPriv)
				rsaTargets(rsaFamily{pkg: "signature/rsassapkcs1", variant: fmt.Sprintf("wide/%v/%v", ht, v), kind: "none", pubKind: "none", valuesType: "PrivateKeyValues",
					priv0: p0, withPrefix: true, modulus: func(k key.Key) []byte { return k.(*rsassapkcs1.PublicKey).Modulus() }, mkPub: mkPub, mkPriv: mkPriv})
			}
		}
		for _, ht := range []rsassapss.HashType{rsassapss.SHA256, rsassapss.SHA384, rsassapss.SHA512} {
			for _, v := range []rsassapss.Variant{rsassapss.VariantTink, rsassapss.VariantCrunchy, rsassapss.VariantLegacy, rsassapss.VariantNoPrefix} {
				if v != rsassapss.VariantTink && ht != rsassapss.SHA256 {
					continue
				}
				params, err := rsassapss.NewParameters(rsassapss.ParametersValues{ModulusSizeBits: 2048, SigHashType: ht, MGF1HashType: ht, PublicExponent: 65537,
					SaltLengthBytes: 32}, v)
				if err != nil {
					continue
				}
				id := uint32(0)
				if params.HasIDRequirement() {
					id = 0x01020304
				}
				mkPub := func(n []byte) (key.Key, error) { return rsassapss.NewPublicKey(n, id, params) }
				mkPriv := func(pub key.Key, p, q, d secretdata.Bytes) (key.Key, error) {
					return rsassapss.NewPrivateKey(pub.(*rsassapss.PublicKey), rsassapss.PrivateKeyValues{P: p, Q: q, D: d})
				}
				p0 := must(mkPriv(must(mkPub(clone(n))), p, q, d)).(rsaPriv)
				rsaTargets(rsaFamily{pkg: "signature/rsassapss", variant: fmt.Sprintf("wide/%v/%v", ht, v), kind: "none", pubKind: "none", valuesType: "PrivateKeyValues",
					priv0: p0, withPrefix: true, modulus: func(k key.Key) []byte { return k.(*rsassapss.PublicKey).Modulus() }, mkPub: mkPub, mkPriv: mkPriv})
			}
		}
		for _, alg := range []jwtrsassapkcs1.Algorithm{jwtrsassapkcs1.RS256, jwtrsassapkcs1.RS384, jwtrsassapkcs1.RS512} {
			for _, ks := range []jwtrsassapkcs1.KIDStrategy{jwtrsassapkcs1.Base64EncodedKeyIDAsKID, jwtrsassapkcs1.IgnoredKID} {
				params, err := jwtrsassapkcs1.NewParameters(jwtrsassapkcs1.ParametersOpts{ModulusSizeInBits: 2048, PublicExponent: 65537, Algorithm: alg, KidStrategy: ks})
				if err != nil {
					continue
				}
				id := uint32(0)
				if params.HasIDRequirement() {
					id = 0x01020304
				}
				mkPub := func(n []byte) (key.Key, error) {
					return jwtrsassapkcs1.NewPublicKey(jwtrsassapkcs1.PublicKeyOpts{Modulus: n, IDRequirement: id, Parameters: params})
				}
				mkPriv := func(pub key.Key, p, q, d secretdata.Bytes) (key.Key, error) {
					return jwtrsassapkcs1.NewPrivateKey(jwtrsassapkcs1.PrivateKeyOpts{PublicKey: pub.(*jwtrsassapkcs1.PublicKey), P: p, Q: q, D: d})
				}
				p0 := must(mkPriv(must(mkPub(clone(n))), p, q, d)).(rsaPriv)
				rsaTargets(rsaFamily{pkg: "jwt/jwtrsassapkcs1", variant: fmt.Sprintf("wide/%v/%v", alg, ks), kind: "none", pubKind: "none", valuesType: "PrivateKeyOpts",
					pubOptsField: "Modulus", priv0: p0, modulus: func(k key.Key) []byte { return k.(*jwtrsassapkcs1.PublicKey).Modulus() }, mkPub: mkPub, mkPriv: mkPriv})
			}
		}
		for _, alg := range []jwtrsassapss.Algorithm{jwtrsassapss.PS256, jwtrsassapss.PS384, jwtrsassapss.PS512} {
			for _, ks := range []jwtrsassapss.KIDStrategy{jwtrsassapss.Base64EncodedKeyIDAsKID, jwtrsassapss.IgnoredKID} {
				params, err := jwtrsassapss.NewParameters(jwtrsassapss.ParametersOpts{ModulusSizeInBits: 2048, PublicExponent: 65537, Algorithm: alg, KidStrategy: ks})
				if err != nil {
					continue
				}
				id := uint32(0)
				if params.HasIDRequirement() {
					id = 0x01020304
				}
				mkPub := func(n []byte) (key.Key, error) {
					return jwtrsassapss.NewPublicKey(jwtrsassapss.PublicKeyOpts{Modulus: n, IDRequirement: id, Parameters: params})
				}
				mkPriv := func(pub key.Key, p, q, d secretdata.Bytes) (key.Key, error) {
					return jwtrsassapss.NewPrivateKey(jwtrsassapss.PrivateKeyOpts{PublicKey: pub.(*jwtrsassapss.PublicKey), P: p, Q: q, D: d})
				}
				p0 := must(mkPriv(must(mkPub(clone(n))), p, q, d)).(rsaPriv)
				rsaTargets(rsaFamily{pkg: "jwt/jwtrsassapss", variant: fmt.Sprintf("wide/%v/%v", alg, ks), kind: "none", pubKind: "none", valuesType: "PrivateKeyOpts",
					pubOptsField: "Modulus", priv0: p0, modulus: func(k key.Key) []byte { return k.(*jwtrsassapss.PublicKey).Modulus() }, mkPub: mkPub, mkPriv: mkPriv})
			}
		}
	}
	// ---------------- JWT ECDSA / ML-DSA / HMAC: every algorithm x KID strategy that can be generated
	for _, alg := range []jwtecdsa.Algorithm{jwtecdsa.ES256, jwtecdsa.ES384, jwtecdsa.ES512} {
		for _, ks := range []jwtecdsa.KIDStrategy{jwtecdsa.Base64EncodedKeyIDAsKID, jwtecdsa.IgnoredKID} {
			params, err := jwtecdsa.NewParameters(ks, alg)
			if err != nil {
				continue
			}
			k, err := genKey(params)
			if err != nil {
				continue
			}
			p0 := k.(*jwtecdsa.PrivateKey)
			jwtPair("jwt/jwtecdsa", fmt.Sprintf("wide/%v/%v", alg, ks), 0, p0, "publicPoint", "PublicPoint", "PublicPoint",
				func(k key.Key) []byte { return k.(*jwtecdsa.PublicKey).PublicPoint() },
				func(b []byte) (key.Key, error) {
					return jwtecdsa.NewPublicKey(jwtecdsa.PublicKeyOpts{PublicPoint: b, IDRequirement: idOf(p0), Parameters: params})
				},
				func(k key.Key) secretdata.Bytes { return k.(*jwtecdsa.PrivateKey).PrivateKeyValue() },
				func(sd secretdata.Bytes, pub key.Key) (key.Key, error) {
					return jwtecdsa.NewPrivateKeyFromPublicKey(sd, pub.(*jwtecdsa.PublicKey))
				})
		}
	}
	for _, alg := range []jwtmldsa.Algorithm{jwtmldsa.MLDSA44, jwtmldsa.MLDSA65, jwtmldsa.MLDSA87} {
		for _, ks := range []jwtmldsa.KIDStrategy{jwtmldsa.Base64EncodedKeyIDAsKID, jwtmldsa.IgnoredKID} {
			params, err := jwtmldsa.NewParameters(ks, alg)
			if err != nil {
				continue
			}
			k, err := genKey(params)
			if err != nil {
				continue
			}
			p0 := k.(*jwtmldsa.PrivateKey)
			jwtPair("jwt/jwtmldsa", fmt.Sprintf("wide/%v/%v", alg, ks), 0, p0, "keyBytes", "KeyBytes", "KeyBytes",
				func(k key.Key) []byte { return k.(*jwtmldsa.PublicKey).KeyBytes() },
				func(b []byte) (key.Key, error) {
					return jwtmldsa.NewPublicKey(jwtmldsa.PublicKeyOpts{KeyBytes: b, IDRequirement: idOf(p0), Parameters: params})
				},
				func(k key.Key) secretdata.Bytes { return k.(*jwtmldsa.PrivateKey).PrivateKeyValue() },
				func(sd secretdata.Bytes, pub key.Key) (key.Key, error) {
					return jwtmldsa.NewPrivateKeyFromPublicKey(sd, pub.(*jwtmldsa.PublicKey))
				})
		}
	}
	for _, alg := range []jwthmac.Algorithm{jwthmac.HS256, jwthmac.HS384, jwthmac.HS512} {
		for _, ks := range []jwthmac.KIDStrategy{jwthmac.Base64EncodedKeyIDAsKID, jwthmac.IgnoredKID} {
			params, err := jwthmac.NewParameters(64, ks, alg)
			if err != nil {
				continue
			}
			k, err := genKey(params)
			if err != nil {
				continue
			}
			k0 := k.(*jwthmac.Key)
			raw := k0.KeyBytes().Data(tok)
			mk := func(b []byte) (key.Key, error) {
				return jwthmac.NewKey(jwthmac.KeyOpts{KeyBytes: secretdata.NewBytesFromData(b, tok), IDRequirement: idOf(k0), Parameters: params})
			}
			register(&Target{Name: fmt.Sprintf("jwt/jwthmac.Key/wide/%v/%v", alg, ks), Obs: obsKey,
				New: func(c *Call) any {
					c.Site("jwt/jwthmac.NewKey", "jwt/jwthmac.NewKey", "jwt/jwthmac.KeyOpts.KeyBytes", "secretdata.NewBytesFromData")
					k, err := mk(c.In("keyBytes", raw))
					if !c.Check(err) {
						return nil
					}
					return newKeyObject(k, must(mk(clone(raw))), "none", nil)
				},
				Acc: []func(c *Call, o any){func(c *Call, o any) {
					c.Site("jwt/jwthmac.(Key).KeyBytes", "jwt/jwthmac.(Key).KeyBytes", "secretdata.(Bytes).Data")
					c.Out("keyBytes", o.(*keyObject).k.(*jwthmac.Key).KeyBytes().Data(tok))
				}}})
		}
	}
	// ---------------- symmetric key classes: every key size / hash / variant the parameters accept
	for _, ks := range []int{16, 24, 32} {
		for _, v := range []aesgcm.Variant{aesgcm.VariantTink, aesgcm.VariantCrunchy, aesgcm.VariantNoPrefix} {
			p, err := aesgcm.NewParameters(aesgcm.ParametersOpts{KeySizeInBytes: ks, IVSizeInBytes: 12, TagSizeInBytes: 16, Variant: v})
			wideSym("aead/aesgcm", fmt.Sprintf("%d/%v", ks, v), p, err, func(sd secretdata.Bytes, k0 *aesgcm.Key) (*aesgcm.Key, error) {
				return aesgcm.NewKey(sd, idOf(k0), k0.Parameters().(*aesgcm.Parameters))
			})
		}
		for _, v := range []aesgcmsiv.Variant{aesgcmsiv.VariantTink, aesgcmsiv.VariantCrunchy, aesgcmsiv.VariantNoPrefix} {
			p, err := aesgcmsiv.NewParameters(ks, v)
			wideSym("aead/aesgcmsiv", fmt.Sprintf("%d/%v", ks, v), p, err, func(sd secretdata.Bytes, k0 *aesgcmsiv.Key) (*aesgcmsiv.Key, error) {
				return aesgcmsiv.NewKey(sd, idOf(k0), k0.Parameters().(*aesgcmsiv.Parameters))
			})
		}
		for _, v := range []aescmac.Variant{aescmac.VariantTink, aescmac.VariantCrunchy, aescmac.VariantLegacy, aescmac.VariantNoPrefix} {
			p, err := aescmac.NewParameters(aescmac.ParametersOpts{KeySizeInBytes: ks, TagSizeInBytes: 16, Variant: v})
			wideSym("mac/aescmac", fmt.Sprintf("%d/%v", ks, v), p, err, func(sd secretdata.Bytes, k0 *aescmac.Key) (*aescmac.Key, error) {
				return aescmac.NewKey(sd, k0.Parameters().(*aescmac.Parameters), idOf(k0))
			})
		}
		{
			p, err := aescmacprf.NewParameters(ks)
			wideSym("prf/aescmacprf", fmt.Sprintf("%d", ks), &p, err, func(sd secretdata.Bytes, k0 *aescmacprf.Key) (*aescmacprf.Key, error) {
				return aescmacprf.NewKey(sd)
			})
		}
	}
	for _, ks := range []int{32, 48, 64} {
		for _, v := range []aessiv.Variant{aessiv.VariantTink, aessiv.VariantCrunchy, aessiv.VariantNoPrefix} {
			p, err := aessiv.NewParameters(ks, v)
			wideSym("daead/aessiv", fmt.Sprintf("%d/%v", ks, v), p, err, func(sd secretdata.Bytes, k0 *aessiv.Key) (*aessiv.Key, error) {
				return aessiv.NewKey(sd, idOf(k0), k0.Parameters().(*aessiv.Parameters))
			})
		}
	}
	for _, v := range []chacha20poly1305.Variant{chacha20poly1305.VariantTink, chacha20poly1305.VariantCrunchy, chacha20poly1305.VariantNoPrefix} {
		p, err := chacha20poly1305.NewParameters(v)
		wideSym("aead/chacha20poly1305", fmt.Sprint(v), p, err, func(sd secretdata.Bytes, k0 *chacha20poly1305.Key) (*chacha20poly1305.Key, error) {
			return chacha20poly1305.NewKey(sd, idOf(k0), k0.Parameters().(*chacha20poly1305.Parameters))
		})
	}
	for _, v := range []xchacha20poly1305.Variant{xchacha20poly1305.VariantTink, xchacha20poly1305.VariantCrunchy, xchacha20poly1305.VariantNoPrefix} {
		p, err := xchacha20poly1305.NewParameters(v)
		wideSym("aead/xchacha20poly1305", fmt.Sprint(v), p, err, func(sd secretdata.Bytes, k0 *xchacha20poly1305.Key) (*xchacha20poly1305.Key, error) {
			return xchacha20poly1305.NewKey(sd, idOf(k0), k0.Parameters().(*xchacha20poly1305.Parameters))
		})
	}
	for _, salt := range []int{8, 10, 12} {
		for _, v := range []xaesgcm.Variant{xaesgcm.VariantTink, xaesgcm.VariantNoPrefix} {
			p, err := xaesgcm.NewParameters(v, salt)
			wideSym("aead/xaesgcm", fmt.Sprintf("salt%d/%v", salt, v), p, err, func(sd secretdata.Bytes, k0 *xaesgcm.Key) (*xaesgcm.Key, error) {
				return xaesgcm.NewKey(sd, idOf(k0), k0.Parameters().(*xaesgcm.Parameters))
			})
		}
	}
	for _, ht := range []hmac.HashType{hmac.SHA1, hmac.SHA224, hmac.SHA256, hmac.SHA384, hmac.SHA512} {
		for _, v := range []hmac.Variant{hmac.VariantTink, hmac.VariantCrunchy, hmac.VariantLegacy, hmac.VariantNoPrefix} {
			if v != hmac.VariantTink && ht != hmac.SHA256 {
				continue
			}
			p, err := hmac.NewParameters(hmac.ParametersOpts{KeySizeInBytes: 32, TagSizeInBytes: 16, HashType: ht, Variant: v})
			wideSym("mac/hmac", fmt.Sprintf("%v/%v", ht, v), p, err, func(sd secretdata.Bytes, k0 *hmac.Key) (*hmac.Key, error) {
				return hmac.NewKey(sd, k0.Parameters().(*hmac.Parameters), idOf(k0))
			})
		}
	}
	for _, ht := range []hmacprf.HashType{hmacprf.SHA1, hmacprf.SHA224, hmacprf.SHA256, hmacprf.SHA384, hmacprf.SHA512} {
		p, err := hmacprf.NewParameters(32, ht)
		wideSym("prf/hmacprf", fmt.Sprint(ht), p, err, func(sd secretdata.Bytes, k0 *hmacprf.Key) (*hmacprf.Key, error) {
			return hmacprf.NewKey(sd, k0.Parameters().(*hmacprf.Parameters))
		})
	}
	for _, ht := range []hkdfprf.HashType{hkdfprf.SHA1, hkdfprf.SHA224, hkdfprf.SHA256, hkdfprf.SHA384, hkdfprf.SHA512} {
		for _, salt := range [][]byte{nil, []byte("a salt")} {
			p, err := hkdfprf.NewParameters(32, ht, salt)
			wideSym("prf/hkdfprf", fmt.Sprintf("%v/salt%d", ht, len(salt)), p, err, func(sd secretdata.Bytes, k0 *hkdfprf.Key) (*hkdfprf.Key, error) {
				return hkdfprf.NewKey(sd, k0.Parameters().(*hkdfprf.Parameters))
			})
		}
	}
	for _, ht := range []aesgcmhkdf.HashType{aesgcmhkdf.SHA1, aesgcmhkdf.SHA256, aesgcmhkdf.SHA512} {
		for _, ks := range []int{16, 32} {
			p, err := aesgcmhkdf.NewParameters(aesgcmhkdf.ParametersOpts{KeySizeInBytes: 32, DerivedKeySizeInBytes: ks, HKDFHashType: ht, SegmentSizeInBytes: 4096})
			wideSym("streamingaead/aesgcmhkdf", fmt.Sprintf("%v/%d", ht, ks), p, err, func(sd secretdata.Bytes, k0 *aesgcmhkdf.Key) (*aesgcmhkdf.Key, error) {
				return aesgcmhkdf.NewKey(k0.Parameters().(*aesgcmhkdf.Parameters), sd)
			})
		}
	}
	for _, ht := range []saesctrhmac.HashType{saesctrhmac.SHA1, saesctrhmac.SHA256, saesctrhmac.SHA512} {
		for _, ks := range []int{16, 32} {
			p, err := saesctrhmac.NewParameters(saesctrhmac.ParametersOpts{KeySizeInBytes: 32, DerivedKeySizeInBytes: ks, HkdfHashType: ht, HmacHashType: ht,
				HmacTagSizeInBytes: 16, SegmentSizeInBytes: 4096})
			wideSym("streamingaead/aesctrhmac", fmt.Sprintf("%v/%d", ht, ks), p, err, func(sd secretdata.Bytes, k0 *saesctrhmac.Key) (*saesctrhmac.Key, error) {
				return saesctrhmac.NewKey(k0.Parameters().(*saesctrhmac.Parameters), sd)
			})
		}
	}
	// AES-CTR-HMAC AEAD: every hash and variant
	for _, ht := range []aesctrhmac.HashType{aesctrhmac.SHA1, aesctrhmac.SHA224, aesctrhmac.SHA256, aesctrhmac.SHA384, aesctrhmac.SHA512} {
		for _, v := range []aesctrhmac.Variant{aesctrhmac.VariantTink, aesctrhmac.VariantCrunchy, aesctrhmac.VariantNoPrefix} {
			if v != aesctrhmac.VariantTink && ht != aesctrhmac.SHA256 {
				continue
			}
			params, err := aesctrhmac.NewParameters(aesctrhmac.ParametersOpts{AESKeySizeInBytes: 32, HMACKeySizeInBytes: 32, IVSizeInBytes: 16, TagSizeInBytes: 16,
				HashType: ht, Variant: v})
			if err != nil {
				continue
			}
			k, err := genKey(params)
			if err != nil {
				continue
			}
			k0 := k.(*aesctrhmac.Key)
			aesRaw, macRaw := k0.AESKeyBytes().Data(tok), k0.HMACKeyBytes().Data(tok)
			mk := func(a, m []byte) (*aesctrhmac.Key, error) {
				return aesctrhmac.NewKey(aesctrhmac.KeyOpts{AESKeyBytes: secretdata.NewBytesFromData(a, tok), HMACKeyBytes: secretdata.NewBytesFromData(m, tok),
					IDRequirement: idOf(k0), Parameters: params})
			}
			register(&Target{Name: fmt.Sprintf("aead/aesctrhmac.Key/wide/%v/%v", ht, v), Obs: obsKey,
				New: func(c *Call) any {
					c.Site("aead/aesctrhmac.NewKey", "aead/aesctrhmac.NewKey", "aead/aesctrhmac.KeyOpts.AESKeyBytes", "aead/aesctrhmac.KeyOpts.HMACKeyBytes", "secretdata.NewBytesFromData")
					k, err := mk(c.In("AESKeyBytes", aesRaw), c.In("HMACKeyBytes", macRaw))
					if !c.Check(err) {
						return nil
					}
					return newKeyObject(k, must(mk(clone(aesRaw), clone(macRaw))), "none", nil)
				},
				Acc: []func(c *Call, o any){
					func(c *Call, o any) {
						c.Site("aead/aesctrhmac.(Key).AESKeyBytes", "aead/aesctrhmac.(Key).AESKeyBytes", "secretdata.(Bytes).Data")
						c.Out("aesKeyBytes", o.(*keyObject).k.(*aesctrhmac.Key).AESKeyBytes().Data(tok))
					},
					func(c *Call, o any) {
						c.Site("aead/aesctrhmac.(Key).HMACKeyBytes", "aead/aesctrhmac.(Key).HMACKeyBytes", "secretdata.(Bytes).Data")
						c.Out("hmacKeyBytes", o.(*keyObject).k.(*aesctrhmac.Key).HMACKeyBytes().Data(tok))
					},
					func(c *Call, o any) {
						c.Site("aead/aesctrhmac.(Key).OutputPrefix", "aead/aesctrhmac.(Key).OutputPrefix")
						c.Out("outputPrefix", o.(*keyObject).k.(*aesctrhmac.Key).OutputPrefix())
					},
				}})
		}
	}
}
