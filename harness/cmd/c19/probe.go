package main

import (
	"bytes"
	"crypto/sha256"
	"encoding/hex"
	"fmt"
	"io"

	"verifharness/vt"

	"github.com/tink-crypto/tink-go/v2/aead"
	"github.com/tink-crypto/tink-go/v2/daead"
	"github.com/tink-crypto/tink-go/v2/hybrid"
	"github.com/tink-crypto/tink-go/v2/insecurecleartextkeyset"
	"github.com/tink-crypto/tink-go/v2/insecuresecretdataaccess"
	"github.com/tink-crypto/tink-go/v2/key"
	"github.com/tink-crypto/tink-go/v2/keyderivation"
	"github.com/tink-crypto/tink-go/v2/keyset"
	"github.com/tink-crypto/tink-go/v2/mac"
	"github.com/tink-crypto/tink-go/v2/prf"
	tinkpb "github.com/tink-crypto/tink-go/v2/proto/tink_go_proto"
	"github.com/tink-crypto/tink-go/v2/signature"
	"github.com/tink-crypto/tink-go/v2/streamingaead"
	"github.com/tink-crypto/tink-go/v2/tink"
	"google.golang.org/protobuf/proto"
)

var tok = insecuresecretdataaccess.Token{}

// fixed probe inputs (exact-size fresh slices on every use: never regions of a scenario)
func probeMsg() []byte { return []byte("c19 probe message: the quick brown fox") }
func probeAAD() []byte { return []byte("c19 probe aad") }

func must[T any](v T, err error) T {
	if err != nil {
		vt.Fatal("setup: %v", err)
	}
	return v
}

func hx(b []byte) string { return hex.EncodeToString(b) }

func digest(b []byte) string {
	h := sha256.Sum256(b)
	return fmt.Sprintf("%d:%s", len(b), hex.EncodeToString(h[:12]))
}

func res(b []byte, err error) string {
	if err != nil {
		return "ERR"
	}
	return enc(b)
}

func okStr(err error) string {
	if err != nil {
		return "rejected"
	}
	return "ok"
}

// Probe returns the observable behaviour of a primitive as a string that depends only on its key.
type Probe func() string

func ksDigest(h *keyset.Handle) string {
	if h == nil {
		return "nil"
	}
	ks := insecurecleartextkeyset.KeysetMaterial(h)
	b, err := proto.MarshalOptions{Deterministic: true}.Marshal(ks)
	if err != nil {
		return "ERR"
	}
	return digest(b)
}

// keyDigest: the key material and prefix type of every key of the handle - without key ids, which are
// drawn at random when a key without id requirement is wrapped into a handle.
func keyDigest(h *keyset.Handle) string {
	ks := insecurecleartextkeyset.KeysetMaterial(h)
	var all []byte
	for _, k := range ks.Key {
		b, err := proto.MarshalOptions{Deterministic: true}.Marshal(k.KeyData)
		if err != nil {
			return "ERR"
		}
		all = append(all, b...)
		all = append(all, byte(k.OutputPrefixType), byte(k.Status))
	}
	return digest(all)
}

func msgDigest(m proto.Message) string {
	b, err := proto.MarshalOptions{Deterministic: true}.Marshal(m)
	if err != nil {
		return "ERR"
	}
	return digest(b)
}

func streamEncrypt(a tink.StreamingAEAD, pt, aad []byte) ([]byte, error) {
	var buf bytes.Buffer
	w, err := a.NewEncryptingWriter(&buf, aad)
	if err != nil {
		return nil, err
	}
	if _, err := w.Write(pt); err != nil {
		return nil, err
	}
	if err := w.Close(); err != nil {
		return nil, err
	}
	return buf.Bytes(), nil
}

func streamDecrypt(a tink.StreamingAEAD, ct, aad []byte) ([]byte, error) {
	r, err := a.NewDecryptingReader(bytes.NewReader(ct), aad)
	if err != nil {
		return nil, err
	}
	return io.ReadAll(r)
}

// primitiveProbe builds the primitive of the given kind from h NOW and returns its probe. twin is a
// handle made from an independent deep copy of the key material (for public-key kinds: the private
// keyset); it plays the counterpart (decrypts what the primitive encrypts, verifies what it signs).
// A primitive that cannot be built yields a constant "ERR" probe.
func primitiveProbe(kind string, h, twin *keyset.Handle) Probe {
	fail := func(err error) Probe { return func() string { return "ERR-build" } }
	switch kind {
	case "aead":
		p, err := aead.New(h)
		if err != nil {
			return fail(err)
		}
		t := must(aead.New(twin))
		ct0 := must(t.Encrypt(probeMsg(), probeAAD()))
		return func() string {
			ct, err := p.Encrypt(probeMsg(), probeAAD())
			if err != nil {
				return "ERR-enc"
			}
			return res(p.Decrypt(bytes.Clone(ct0), probeAAD())) + "/" + res(t.Decrypt(ct, probeAAD()))
		}
	case "daead":
		p, err := daead.New(h)
		if err != nil {
			return fail(err)
		}
		return func() string { return res(p.EncryptDeterministically(probeMsg(), probeAAD())) }
	case "mac":
		p, err := mac.New(h)
		if err != nil {
			return fail(err)
		}
		return func() string { return res(p.ComputeMAC(probeMsg())) }
	case "prf":
		p, err := prf.NewPRFSet(h)
		if err != nil {
			return fail(err)
		}
		return func() string { return res(p.ComputePrimaryPRF(probeMsg(), 16)) }
	case "signer":
		p, err := signature.NewSigner(h)
		if err != nil {
			return fail(err)
		}
		v := must(signature.NewVerifier(must(twin.Public())))
		return func() string {
			sig, err := p.Sign(probeMsg())
			if err != nil {
				return "ERR-sign"
			}
			return okStr(v.Verify(sig, probeMsg()))
		}
	case "verifier":
		p, err := signature.NewVerifier(h)
		if err != nil {
			return fail(err)
		}
		sig0 := must(must(signature.NewSigner(twin)).Sign(probeMsg()))
		return func() string { return okStr(p.Verify(bytes.Clone(sig0), probeMsg())) }
	case "hybridenc":
		p, err := hybrid.NewHybridEncrypt(h)
		if err != nil {
			return fail(err)
		}
		d := must(hybrid.NewHybridDecrypt(twin))
		return func() string {
			ct, err := p.Encrypt(probeMsg(), probeAAD())
			if err != nil {
				return "ERR-enc"
			}
			return res(d.Decrypt(ct, probeAAD()))
		}
	case "hybriddec":
		p, err := hybrid.NewHybridDecrypt(h)
		if err != nil {
			return fail(err)
		}
		e := must(hybrid.NewHybridEncrypt(must(twin.Public())))
		ct0 := must(e.Encrypt(probeMsg(), probeAAD()))
		return func() string { return res(p.Decrypt(bytes.Clone(ct0), probeAAD())) }
	case "streaming":
		p, err := streamingaead.New(h)
		if err != nil {
			return fail(err)
		}
		t := must(streamingaead.New(twin))
		ct0 := must(streamEncrypt(t, probeMsg(), probeAAD()))
		return func() string {
			ct, err := streamEncrypt(p, probeMsg(), probeAAD())
			if err != nil {
				return "ERR-enc"
			}
			return res(streamDecrypt(p, bytes.Clone(ct0), probeAAD())) + "/" + res(streamDecrypt(t, ct, probeAAD()))
		}
	case "deriver":
		p, err := keyderivation.New(h)
		if err != nil {
			return fail(err)
		}
		return func() string {
			d, err := p.DeriveKeyset([]byte("c19 probe salt"))
			if err != nil {
				return "ERR-derive"
			}
			return ksDigest(d)
		}
	case "none":
		return func() string { return "-" }
	}
	vt.Fatal("primitiveProbe: unknown kind %q", kind)
	return nil
}

// handleOf wraps one key into a keyset handle (primary, enabled).
func handleOf(k key.Key) (*keyset.Handle, error) {
	m := keyset.NewManager()
	id, err := m.AddKey(k)
	if err != nil {
		return nil, err
	}
	if err := m.SetPrimary(id); err != nil {
		return nil, err
	}
	return m.Handle()
}

// keyObject is a key under test together with what is needed to observe it.
type keyObject struct {
	k        key.Key
	pristine key.Key // built from independent exact-size copies of the same material
	kind     string
	twin     *keyset.Handle // counterpart handle (pristine material)
	before   Probe          // primitive built from k right after construction
	extra    func() map[string]string
}

func newKeyObject(k, pristine key.Key, kind string, twinKey key.Key) *keyObject {
	o := &keyObject{k: k, pristine: pristine, kind: kind}
	if twinKey == nil {
		twinKey = pristine
	}
	o.twin = must(handleOf(twinKey))
	h := must(handleOf(k))
	o.before = primitiveProbe(kind, h, o.twin)
	return o
}

// observable value of a key: equality with the pristine copy, its complete serialization, the
// behaviour of a primitive built from it before and of one built from it now.
func obsKey(x any) map[string]string {
	o := x.(*keyObject)
	m := map[string]string{
		"equal":    fmt.Sprint(o.k.Equal(o.pristine)),
		"equalRev": fmt.Sprint(o.pristine.Equal(o.k)),
		"before":   o.before(),
	}
	h, err := handleOf(o.k)
	if err != nil {
		m["serialized"] = "ERR"
		m["after"] = "ERR"
	} else {
		m["serialized"] = keyDigest(h)
		m["after"] = primitiveProbe(o.kind, h, o.twin)()
	}
	if o.extra != nil {
		for k, v := range o.extra() {
			m[k] = v
		}
	}
	return m
}

// entryKey returns the key of the primary entry.
func primaryKey(h *keyset.Handle) key.Key {
	e := must(h.Primary())
	return e.Key()
}

func newHandle(t *tinkpb.KeyTemplate) *keyset.Handle { return must(keyset.NewHandle(t)) }
