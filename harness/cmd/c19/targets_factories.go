package main

import (
	"bytes"
	"fmt"

	"github.com/tink-crypto/tink-go/v2/aead"
	"github.com/tink-crypto/tink-go/v2/core/registry"
	"github.com/tink-crypto/tink-go/v2/daead"
	"github.com/tink-crypto/tink-go/v2/hybrid"
	"github.com/tink-crypto/tink-go/v2/insecurecleartextkeyset"
	"github.com/tink-crypto/tink-go/v2/key"
	"github.com/tink-crypto/tink-go/v2/keyderivation"
	"github.com/tink-crypto/tink-go/v2/keyset"
	"github.com/tink-crypto/tink-go/v2/prf"
	tinkpb "github.com/tink-crypto/tink-go/v2/proto/tink_go_proto"
	"github.com/tink-crypto/tink-go/v2/signature"
	"github.com/tink-crypto/tink-go/v2/signature/mldsa"
	"github.com/tink-crypto/tink-go/v2/signature/rsassapkcs1"
	"github.com/tink-crypto/tink-go/v2/signature/rsassapss"
	"github.com/tink-crypto/tink-go/v2/signature/slhdsa"
	"github.com/tink-crypto/tink-go/v2/streamingaead"
	"github.com/tink-crypto/tink-go/v2/testing/fakekms"
	"google.golang.org/protobuf/proto"
)

// wrapKM is a custom key manager for a key type Tink has no key class for.  Its "key" is the binary
// serialization of a cleartext keyset with one RAW key of a real type; Primitive builds the real
// primitive of the given kind from it.  What comes out of the registry for such a key is a plain
// (non-full) primitive, which every factory wraps into its legacy adapter (fullXAdapter) that adds the
// output prefix and, for LEGACY keys, the trailing zero byte.
type wrapKM struct {
	typeURL, pubTypeURL, kind string
}

func readKeyset(b []byte) (*keyset.Handle, error) {
	return insecurecleartextkeyset.Read(keyset.NewBinaryReader(bytes.NewReader(append([]byte{}, b...))))
}

func (m wrapKM) Primitive(serializedKey []byte) (any, error) {
	h, err := readKeyset(serializedKey)
	if err != nil {
		return nil, err
	}
	return buildPrimitive(m.kind, h)
}
func (m wrapKM) NewKey(serializedKeyFormat []byte) (proto.Message, error) {
	return nil, fmt.Errorf("not supported")
}
func (m wrapKM) NewKeyData(serializedKeyFormat []byte) (*tinkpb.KeyData, error) {
	return nil, fmt.Errorf("not supported")
}
func (m wrapKM) DoesSupport(typeURL string) bool { return typeURL == m.typeURL }
func (m wrapKM) TypeURL() string                 { return m.typeURL }

type wrapPrivKM struct{ wrapKM }

func (m wrapPrivKM) PublicKeyData(serializedKey []byte) (*tinkpb.KeyData, error) {
	h, err := readKeyset(serializedKey)
	if err != nil {
		return nil, err
	}
	pub, err := h.Public()
	if err != nil {
		return nil, err
	}
	b, err := proto.Marshal(insecurecleartextkeyset.KeysetMaterial(pub))
	if err != nil {
		return nil, err
	}
	return &tinkpb.KeyData{TypeUrl: m.pubTypeURL, Value: b, KeyMaterialType: tinkpb.KeyData_ASYMMETRIC_PUBLIC}, nil
}

var _ registry.PrivateKeyManager = wrapPrivKM{}

// legacyKeyset wraps a RAW real key into a keyset of the custom type.
func legacyKeyset(typeURL string, real *tinkpb.KeyTemplate, mt tinkpb.KeyData_KeyMaterialType) *tinkpb.Keyset {
	inner := withPrefix(materialOf(real), tinkpb.OutputPrefixType_RAW)
	return customKeyset(typeURL, must(proto.Marshal(inner)), mt, 0x0a0b0c0d)
}

func keysetOfKey(k key.Key) *tinkpb.Keyset {
	return insecurecleartextkeyset.KeysetMaterial(must(handleOf(k)))
}

func init() {
	const base = "type.googleapis.com/verif.c19.Legacy"
	for _, m := range []registry.KeyManager{
		wrapKM{typeURL: base + "Aead", kind: "aead"},
		wrapKM{typeURL: base + "Daead", kind: "daead"},
		wrapPrivKM{wrapKM{typeURL: base + "SignPriv", pubTypeURL: base + "SignPub", kind: "signer"}},
		wrapKM{typeURL: base + "SignPub", kind: "verifier"},
		wrapPrivKM{wrapKM{typeURL: base + "HybridPriv", pubTypeURL: base + "HybridPub", kind: "hybriddec"}},
		wrapKM{typeURL: base + "HybridPub", kind: "hybridenc"},
	} {
		must(0, registry.RegisterKeyManager(m))
	}
	T, C, L, R := tinkpb.OutputPrefixType_TINK, tinkpb.OutputPrefixType_CRUNCHY, tinkpb.OutputPrefixType_LEGACY, tinkpb.OutputPrefixType_RAW

	// ---------------- AEAD
	for n, t := range map[string]*tinkpb.KeyTemplate{"AES128GCM": aead.AES128GCMKeyTemplate(), "AES256GCMSIV": aead.AES256GCMSIVKeyTemplate(),
		"AES128CTRHMACSHA256": aead.AES128CTRHMACSHA256KeyTemplate(), "ChaCha20Poly1305": aead.ChaCha20Poly1305KeyTemplate(),
		"XChaCha20Poly1305": aead.XChaCha20Poly1305KeyTemplate(), "XAES256GCM192BitNonce": aead.XAES256GCM192BitNonceKeyTemplate()} {
		factoryTargets("aead.New/"+n, "aead", 0, materialOf(t), "")
	}
	factoryTargets("aead.New/legacy-adapter", "aead", 0, legacyKeyset(base+"Aead", aead.AES128GCMKeyTemplate(), tinkpb.KeyData_SYMMETRIC), "aead.New[legacy-adapter]")
	{ // KMS envelope AEAD through the registry (fake KMS of the repository's testing package)
		uri := must(fakekms.NewKeyURI())
		registry.RegisterKMSClient(must(fakekms.NewClient("fake-kms://")))
		factoryTargets("aead.New/KMSEnvelope", "aead", 0, materialOf(aead.KMSEnvelopeAEADKeyTemplate(uri, aead.AES128GCMKeyTemplate())), "aead.New[KMSEnvelopeAEAD]", T, R)
	}
	// ---------------- DAEAD
	factoryTargets("daead.New/AESSIV", "daead", 0, materialOf(daead.AESSIVKeyTemplate()), "")
	factoryTargets("daead.New/legacy-adapter", "daead", 0, legacyKeyset(base+"Daead", daead.AESSIVKeyTemplate(), tinkpb.KeyData_SYMMETRIC), "daead.New[legacy-adapter]")
	// ---------------- PRF
	for n, t := range map[string]*tinkpb.KeyTemplate{"HMACSHA256PRF": prf.HMACSHA256PRFKeyTemplate(), "HKDFSHA256PRF": prf.HKDFSHA256PRFKeyTemplate(),
		"AESCMACPRF": prf.AESCMACPRFKeyTemplate()} {
		factoryTargets("prf.NewPRFSet/"+n, "prf", 0, materialOf(t), "", R)
	}
	// ---------------- signatures
	sigKeysets := map[string]*tinkpb.Keyset{
		"ECDSAP256":        materialOf(signature.ECDSAP256KeyTemplate()),
		"ECDSAP384SHA512":  materialOf(signature.ECDSAP384SHA512KeyTemplate()),
		"ED25519":          materialOf(signature.ED25519KeyTemplate()),
		"RSASSAPKCS1-2048": keysetOfKey(keyFromParams(must(rsassapkcs1.NewParameters(2048, rsassapkcs1.SHA256, 65537, rsassapkcs1.VariantTink)))),
		"RSASSAPSS-2048": keysetOfKey(keyFromParams(must(rsassapss.NewParameters(rsassapss.ParametersValues{ModulusSizeBits: 2048,
			SigHashType: rsassapss.SHA256, MGF1HashType: rsassapss.SHA256, PublicExponent: 65537, SaltLengthBytes: 32}, rsassapss.VariantTink)))),
		"MLDSA65": keysetOfKey(keyFromParams(must(mldsa.NewParameters(mldsa.MLDSA65, mldsa.VariantTink)))),
	}
	cost := map[string]int{"RSASSAPKCS1-2048": 1, "RSASSAPSS-2048": 1, "MLDSA65": 1}
	for n, ks := range sigKeysets {
		factoryTargets("signature.NewSigner/"+n, "signer", cost[n], ks, "")
		factoryTargets("signature.NewVerifier/"+n, "verifier", cost[n], ks, "")
	}
	slh := keysetOfKey(keyFromParams(must(slhdsa.NewParameters(slhdsa.SHA2, 64, slhdsa.FastSigning, slhdsa.VariantTink))))
	factoryTargets("signature.NewSigner/SLHDSA-SHA2-128f", "signer", 2, slh, "", T, R)
	factoryTargets("signature.NewVerifier/SLHDSA-SHA2-128f", "verifier", 2, slh, "", T, R)
	lsig := legacyKeyset(base+"SignPriv", signature.ED25519KeyTemplate(), tinkpb.KeyData_ASYMMETRIC_PRIVATE)
	factoryTargets("signature.NewSigner/legacy-adapter", "signer", 0, lsig, "signature.NewSigner[legacy-adapter]")
	factoryTargets("signature.NewVerifier/legacy-adapter", "verifier", 0, lsig, "signature.NewVerifier[legacy-adapter]")
	// ---------------- hybrid
	for n, t := range map[string]*tinkpb.KeyTemplate{
		"HPKE-X25519-AES128GCM":     hybrid.DHKEM_X25519_HKDF_SHA256_HKDF_SHA256_AES_128_GCM_Key_Template(),
		"HPKE-P256-AES256GCM":       hybrid.DHKEM_P256_HKDF_SHA256_HKDF_SHA256_AES_256_GCM_Key_Template(),
		"HPKE-X25519-CHACHA20":      hybrid.DHKEM_X25519_HKDF_SHA256_HKDF_SHA256_CHACHA20_POLY1305_Key_Template(),
		"ECIES-AES128GCM":           hybrid.ECIESHKDFAES128GCMKeyTemplate(),
		"ECIES-AES128CTRHMACSHA256": hybrid.ECIESHKDFAES128CTRHMACSHA256KeyTemplate(),
	} {
		factoryTargets("hybrid.NewHybridEncrypt/"+n, "hybridenc", 0, materialOf(t), "")
		factoryTargets("hybrid.NewHybridDecrypt/"+n, "hybriddec", 0, materialOf(t), "")
	}
	lhyb := legacyKeyset(base+"HybridPriv", hybrid.DHKEM_X25519_HKDF_SHA256_HKDF_SHA256_AES_128_GCM_Key_Template(), tinkpb.KeyData_ASYMMETRIC_PRIVATE)
	factoryTargets("hybrid.NewHybridEncrypt/legacy-adapter", "hybridenc", 0, lhyb, "hybrid.NewHybridEncrypt[legacy-adapter]")
	factoryTargets("hybrid.NewHybridDecrypt/legacy-adapter", "hybriddec", 0, lhyb, "hybrid.NewHybridDecrypt[legacy-adapter]")
	// ---------------- streaming AEAD
	for n, t := range map[string]*tinkpb.KeyTemplate{"AES128GCMHKDF4KB": streamingaead.AES128GCMHKDF4KBKeyTemplate(),
		"AES128CTRHMACSHA256Segment4KB": streamingaead.AES128CTRHMACSHA256Segment4KBKeyTemplate()} {
		factoryTargets("streamingaead.New/"+n, "streaming", 1, materialOf(t), "", R)
	}
	// ---------------- keyset derivation
	{
		t := must(keyderivation.CreatePRFBasedKeyTemplate(prf.HKDFSHA256PRFKeyTemplate(), aead.AES128GCMKeyTemplate()))
		factoryTargets("keyderivation.New/HKDF-AES128GCM", "deriver", 0, materialOf(t), "", T, R)
	}
	_, _, _ = C, L, T
}
