package main

import (
	"bytes"
	"crypto/aes"
	"crypto/cipher"
	stded25519 "crypto/ed25519"
	"crypto/elliptic"
	"crypto/sha256"
	"fmt"
	"io"
	"math/big"

	aeadsubtle "github.com/tink-crypto/tink-go/v2/aead/subtle"
	daeadsubtle "github.com/tink-crypto/tink-go/v2/daead/subtle"
	"github.com/tink-crypto/tink-go/v2/hybrid"
	"github.com/tink-crypto/tink-go/v2/hybrid/hpke"
	hybridsubtle "github.com/tink-crypto/tink-go/v2/hybrid/subtle"
	"github.com/tink-crypto/tink-go/v2/keyset"
	kwpsubtle "github.com/tink-crypto/tink-go/v2/kwp/subtle"
	macsubtle "github.com/tink-crypto/tink-go/v2/mac/subtle"
	"github.com/tink-crypto/tink-go/v2/prf"
	prfsubtle "github.com/tink-crypto/tink-go/v2/prf/subtle"
	sigsubtle "github.com/tink-crypto/tink-go/v2/signature/subtle"
	streamsubtle "github.com/tink-crypto/tink-go/v2/streamingaead/subtle"
	"github.com/tink-crypto/tink-go/v2/streamingaead/subtle/noncebased"
	"github.com/tink-crypto/tink-go/v2/subtle"
	"github.com/tink-crypto/tink-go/v2/subtle/random"
	"github.com/tink-crypto/tink-go/v2/tink"
)

type namedBytes struct {
	name string
	b    []byte
	site string // the function of a constructor chain that receives this argument ("" = the target's constructor)
}

// directProbe: observable behaviour of a directly constructed primitive; peer is its counterpart (or
// a second instance) made from pristine copies of the constructor arguments.
func directProbe(kind string, p, peer any) Probe {
	switch kind {
	case "aead":
		ct0 := must(peer.(tink.AEAD).Encrypt(probeMsg(), probeAAD()))
		return func() string {
			ct, err := p.(tink.AEAD).Encrypt(probeMsg(), probeAAD())
			if err != nil {
				return "ERR-enc"
			}
			return res(p.(tink.AEAD).Decrypt(bytes.Clone(ct0), probeAAD())) + "/" + res(peer.(tink.AEAD).Decrypt(ct, probeAAD()))
		}
	case "indcpa":
		ct0 := must(peer.(aeadsubtle.INDCPACipher).Encrypt(probeMsg()))
		return func() string {
			ct, err := p.(aeadsubtle.INDCPACipher).Encrypt(probeMsg())
			if err != nil {
				return "ERR-enc"
			}
			return res(p.(aeadsubtle.INDCPACipher).Decrypt(bytes.Clone(ct0))) + "/" + res(peer.(aeadsubtle.INDCPACipher).Decrypt(ct))
		}
	case "daead":
		return func() string { return res(p.(tink.DeterministicAEAD).EncryptDeterministically(probeMsg(), probeAAD())) }
	case "mac":
		return func() string { return res(p.(tink.MAC).ComputeMAC(probeMsg())) }
	case "prf1":
		return func() string { return res(p.(prf.PRF).ComputePRF(probeMsg(), 16)) }
	case "kwp":
		return func() string { return res(p.(*kwpsubtle.KWP).Wrap([]byte("0123456789abcdef0123"))) }
	case "signer":
		return func() string {
			sig, err := p.(tink.Signer).Sign(probeMsg())
			if err != nil {
				return "ERR-sign"
			}
			return okStr(peer.(tink.Verifier).Verify(sig, probeMsg()))
		}
	case "verifier":
		sig0 := must(peer.(tink.Signer).Sign(probeMsg()))
		return func() string { return okStr(p.(tink.Verifier).Verify(bytes.Clone(sig0), probeMsg())) }
	case "hybridenc":
		return func() string {
			ct, err := p.(tink.HybridEncrypt).Encrypt(probeMsg(), probeAAD())
			if err != nil {
				return "ERR-enc"
			}
			return res(peer.(tink.HybridDecrypt).Decrypt(ct, probeAAD()))
		}
	case "hybriddec":
		ct0 := must(peer.(tink.HybridEncrypt).Encrypt(probeMsg(), probeAAD()))
		return func() string { return res(p.(tink.HybridDecrypt).Decrypt(bytes.Clone(ct0), probeAAD())) }
	case "streaming":
		ct0 := must(streamEncrypt(peer.(tink.StreamingAEAD), probeMsg(), probeAAD()))
		return func() string {
			ct, err := streamEncrypt(p.(tink.StreamingAEAD), probeMsg(), probeAAD())
			if err != nil {
				return "ERR-enc"
			}
			return res(streamDecrypt(p.(tink.StreamingAEAD), bytes.Clone(ct0), probeAAD())) + "/" + res(streamDecrypt(peer.(tink.StreamingAEAD), ct, probeAAD()))
		}
	}
	panic("directProbe: kind " + kind)
}

// directTarget: a primitive constructed directly from byte slices (subtle packages).
// mk builds the primitive from the constructor's byte arguments; peerOf builds the counterpart from
// pristine copies (nil: a second instance of the same primitive).
func directTarget(name, site, kind, concrete string, cost int, args []namedBytes, mk func(a [][]byte) (any, error),
	peerOf func(a [][]byte) any, ops ...string) {
	copies := func() [][]byte {
		out := make([][]byte, len(args))
		for i, a := range args {
			out[i] = clone(a.b)
		}
		return out
	}
	if peerOf == nil {
		peerOf = func(a [][]byte) any { return must(mk(a)) }
	}
	t := &Target{Name: name, Cost: cost, Obs: obsDirect}
	t.New = func(c *Call) any {
		c.Site(site, append([]string{site}, ops...)...)
		in := make([][]byte, len(args))
		for i, a := range args {
			if a.site != "" {
				c.Site(a.site)
			}
			in[i] = c.In(a.name, a.b)
		}
		c.Site(site)
		p, err := mk(in)
		if !c.Check(err) {
			return nil
		}
		peer := peerOf(copies())
		return &directObject{p: p, twin: peer, probe: directProbe(kind, p, peer)}
	}
	t.Use = primitiveUses(kind, name, concrete, func(o any) any { return o.(*directObject).p }, func(o any) any { return o.(*directObject).twin })
	register(t)
}

// ---------------------------------------------------------------- a segment cipher for noncebased (caller side of the interface)

type gcmSegments struct{ a cipher.AEAD }

func newGCMSegments() gcmSegments {
	b := must(aes.NewCipher([]byte("0123456789abcdef")))
	return gcmSegments{must(cipher.NewGCM(b))}
}
func (g gcmSegments) EncryptSegment(segment, nonce []byte) ([]byte, error) {
	return g.a.Seal(nil, nonce, segment, nil), nil
}
func (g gcmSegments) DecryptSegment(segment, nonce []byte) ([]byte, error) {
	return g.a.Open(nil, nonce, segment, nil)
}

// ---------------------------------------------------------------- DEM helper for hybrid/subtle ECIES (caller side of the interface)

type demHelper struct{ track bool }

func (demHelper) GetSymmetricKeySize() uint32 { return 16 }
func (h demHelper) GetAEADOrDAEAD(symmetricKeyValue []byte) (any, error) {
	a, err := aeadsubtle.NewAESGCM(clone(symmetricKeyValue))
	if h.track && curCall != nil {
		// the library hands this slice to caller code: it is the caller's from now on
		curCall.Out("symmetricKeyValue", symmetricKeyValue)
	}
	return a, err
}

func init() {
	k16 := []byte("0123456789abcdef")
	k32 := []byte("0123456789abcdef0123456789ABCDEF")
	k64 := append(clone(k32), []byte("fedcba9876543210FEDCBA9876543210")...)
	asAny := func(p any, err error) (any, error) { return p, err }
	_ = asAny

	// ---------------- aead/subtle
	directTarget("aead/subtle.AESGCM", "aead/subtle.NewAESGCM", "aead", "aead/subtle.(AESGCM)", 0, []namedBytes{{"key", k32, ""}},
		func(a [][]byte) (any, error) { return aeadsubtle.NewAESGCM(a[0]) }, nil)
	directTarget("aead/subtle.AESGCMSIV", "aead/subtle.NewAESGCMSIV", "aead", "aead/subtle.(AESGCMSIV)", 0, []namedBytes{{"key", k32, ""}},
		func(a [][]byte) (any, error) { return aeadsubtle.NewAESGCMSIV(a[0]) }, nil)
	directTarget("aead/subtle.ChaCha20Poly1305", "aead/subtle.NewChaCha20Poly1305", "aead", "aead/subtle.(ChaCha20Poly1305)", 0, []namedBytes{{"key", k32, ""}},
		func(a [][]byte) (any, error) { return aeadsubtle.NewChaCha20Poly1305(a[0]) }, nil)
	directTarget("aead/subtle.XChaCha20Poly1305", "aead/subtle.NewXChaCha20Poly1305", "aead", "aead/subtle.(XChaCha20Poly1305)", 0, []namedBytes{{"key", k32, ""}},
		func(a [][]byte) (any, error) { return aeadsubtle.NewXChaCha20Poly1305(a[0]) }, nil)
	directTarget("aead/subtle.AESCTR", "aead/subtle.NewAESCTR", "indcpa", "aead/subtle.(AESCTR)", 0, []namedBytes{{"key", k16, ""}},
		func(a [][]byte) (any, error) { return aeadsubtle.NewAESCTR(a[0], 16) }, nil)
	directTarget("aead/subtle.EncryptThenAuthenticate", "aead/subtle.NewEncryptThenAuthenticate", "aead", "aead/subtle.(EncryptThenAuthenticate)", 0,
		[]namedBytes{{"aesKey", k16, "aead/subtle.NewAESCTR"}, {"hmacKey", k32, "mac/subtle.NewHMAC"}},
		func(a [][]byte) (any, error) {
			ctr, err := aeadsubtle.NewAESCTR(a[0], 16)
			if err != nil {
				return nil, err
			}
			m, err := macsubtle.NewHMAC("SHA256", a[1], 16)
			if err != nil {
				return nil, err
			}
			return aeadsubtle.NewEncryptThenAuthenticate(ctr, m, 16)
		}, nil, "aead/subtle.NewAESCTR", "mac/subtle.NewHMAC")
	// ---------------- daead/subtle
	directTarget("daead/subtle.AESSIV", "daead/subtle.NewAESSIV", "daead", "daead/subtle.(AESSIV)", 0, []namedBytes{{"key", k64, ""}},
		func(a [][]byte) (any, error) { return daeadsubtle.NewAESSIV(a[0]) }, nil)
	// ---------------- prf/subtle
	directTarget("prf/subtle.AESCMACPRF", "prf/subtle.NewAESCMACPRF", "prf1", "prf/subtle.(AESCMACPRF)", 0, []namedBytes{{"key", k32, ""}},
		func(a [][]byte) (any, error) { return prfsubtle.NewAESCMACPRF(a[0]) }, nil)
	directTarget("prf/subtle.HMACPRF", "prf/subtle.NewHMACPRF", "prf1", "prf/subtle.(HMACPRF)", 0, []namedBytes{{"key", k32, ""}},
		func(a [][]byte) (any, error) { return prfsubtle.NewHMACPRF("SHA256", a[0]) }, nil)
	directTarget("prf/subtle.HKDFPRF", "prf/subtle.NewHKDFPRF", "prf1", "prf/subtle.(HKDFPRF)", 0, []namedBytes{{"key", k32, ""}, {"salt", []byte("c19 hkdf prf salt"), ""}},
		func(a [][]byte) (any, error) { return prfsubtle.NewHKDFPRF("SHA256", a[0], a[1]) }, nil)
	// ---------------- kwp/subtle
	directTarget("kwp/subtle.KWP", "kwp/subtle.NewKWP", "kwp", "kwp/subtle.(KWP)", 0, []namedBytes{{"wrappingKey", k32, ""}},
		func(a [][]byte) (any, error) { return kwpsubtle.NewKWP(a[0]) }, nil)
	// ---------------- signature/subtle
	{
		seed := k32
		edPriv := stded25519.NewKeyFromSeed(seed)
		edPub := []byte(edPriv.Public().(stded25519.PublicKey))
		verifier := func(a [][]byte) any { return must(sigsubtle.NewED25519Verifier(clone(edPub))) }
		signer := func(a [][]byte) any { return must(sigsubtle.NewED25519Signer(clone(seed))) }
		directTarget("signature/subtle.ED25519Signer/NewED25519Signer", "signature/subtle.NewED25519Signer", "signer", "signature/subtle.(ED25519Signer)", 0,
			[]namedBytes{{"keyValue", seed, ""}}, func(a [][]byte) (any, error) { return sigsubtle.NewED25519Signer(a[0]) }, verifier)
		directTarget("signature/subtle.ED25519Signer/NewED25519SignerFromPrivateKey", "signature/subtle.NewED25519SignerFromPrivateKey", "signer",
			"signature/subtle.(ED25519Signer)", 0, []namedBytes{{"privateKey", []byte(edPriv), ""}},
			func(a [][]byte) (any, error) {
				pk := stded25519.PrivateKey(a[0])
				return sigsubtle.NewED25519SignerFromPrivateKey(&pk)
			}, verifier)
		directTarget("signature/subtle.ED25519Verifier/NewED25519Verifier", "signature/subtle.NewED25519Verifier", "verifier", "signature/subtle.(ED25519Verifier)", 0,
			[]namedBytes{{"pub", edPub, ""}}, func(a [][]byte) (any, error) { return sigsubtle.NewED25519Verifier(a[0]) }, signer)
		directTarget("signature/subtle.ED25519Verifier/NewED25519VerifierFromPublicKey", "signature/subtle.NewED25519VerifierFromPublicKey", "verifier",
			"signature/subtle.(ED25519Verifier)", 0, []namedBytes{{"publicKey", edPub, ""}},
			func(a [][]byte) (any, error) {
				pk := stded25519.PublicKey(a[0])
				return sigsubtle.NewED25519VerifierFromPublicKey(&pk)
			}, signer)
	}
	{
		d := new(big.Int).SetBytes(sha256.New().Sum([]byte("c19 ecdsa key"))[:31]).FillBytes(make([]byte, 32))
		x, y := elliptic.P256().ScalarBaseMult(d)
		xb, yb := x.FillBytes(make([]byte, 32)), y.FillBytes(make([]byte, 32))
		for _, enc := range []string{"DER", "IEEE_P1363"} {
			enc := enc
			directTarget("signature/subtle.ECDSASigner/"+enc, "signature/subtle.NewECDSASigner", "signer", "signature/subtle.(ECDSASigner)", 0,
				[]namedBytes{{"keyValue", d, ""}}, func(a [][]byte) (any, error) { return sigsubtle.NewECDSASigner("SHA256", "NIST_P256", enc, a[0]) },
				func(a [][]byte) any {
					return must(sigsubtle.NewECDSAVerifier("SHA256", "NIST_P256", enc, clone(xb), clone(yb)))
				})
			directTarget("signature/subtle.ECDSAVerifier/"+enc, "signature/subtle.NewECDSAVerifier", "verifier", "signature/subtle.(ECDSAVerifier)", 0,
				[]namedBytes{{"x", xb, ""}, {"y", yb, ""}}, func(a [][]byte) (any, error) {
					return sigsubtle.NewECDSAVerifier("SHA256", "NIST_P256", enc, a[0], a[1])
				},
				func(a [][]byte) any { return must(sigsubtle.NewECDSASigner("SHA256", "NIST_P256", enc, clone(d))) })
		}
		// signature encoding helpers
		sig0 := must(must(sigsubtle.NewECDSASigner("SHA256", "NIST_P256", "DER", clone(d))).Sign(probeMsg()))
		register(&Target{Name: "signature/subtle.ECDSASignature",
			Use: []func(c *Call, o any){
				func(c *Call, o any) {
					c.Site("signature/subtle.DecodeECDSASignature", "signature/subtle.DecodeECDSASignature")
					_, err := sigsubtle.DecodeECDSASignature(c.In("encodedBytes", sig0), "DER")
					c.Check(err)
				},
				func(c *Call, o any) {
					c.Site("signature/subtle.(ECDSASignature).EncodeECDSASignature", "signature/subtle.(ECDSASignature).EncodeECDSASignature")
					s := must(sigsubtle.DecodeECDSASignature(clone(sig0), "DER"))
					b, err := s.EncodeECDSASignature("IEEE_P1363", "P-256")
					c.Check(err)
					c.Out("encoded", b)
				},
			}})
	}
	// ---------------- streamingaead/subtle
	directTarget("streamingaead/subtle.AESGCMHKDF", "streamingaead/subtle.NewAESGCMHKDF", "streaming", "streamingaead/subtle.(AESGCMHKDF)", 1, []namedBytes{{"mainKey", k32, ""}},
		func(a [][]byte) (any, error) { return streamsubtle.NewAESGCMHKDF(a[0], "SHA256", 16, 4096, 0) }, nil)
	directTarget("streamingaead/subtle.AESCTRHMAC", "streamingaead/subtle.NewAESCTRHMAC", "streaming", "streamingaead/subtle.(AESCTRHMAC)", 1, []namedBytes{{"mainKey", k32, ""}},
		func(a [][]byte) (any, error) {
			return streamsubtle.NewAESCTRHMAC(a[0], "SHA256", 16, "SHA256", 16, 4096, 0)
		}, nil)
	// noncebased.Writer / Reader: stateful objects.  A twin fed with exact-size copies of the same
	// inputs runs in lock-step; the observable value is "produces what the twin produces".
	{
		prefix := []byte("prefix7")
		type wobj struct {
			w, tw       *noncebased.Writer
			sink, tsink *bytes.Buffer
		}
		mkW := func(np []byte, sink *bytes.Buffer) (*noncebased.Writer, error) {
			return noncebased.NewWriter(noncebased.WriterParams{W: sink, SegmentEncrypter: newGCMSegments(), NonceSize: 12, NoncePrefix: np,
				PlaintextSegmentSize: 64, FirstCiphertextSegmentOffset: 0})
		}
		register(&Target{Name: "streamingaead/subtle/noncebased.Writer",
			New: func(c *Call) any {
				c.Site("streamingaead/subtle/noncebased.NewWriter", "streamingaead/subtle/noncebased.WriterParams.NoncePrefix")
				o := &wobj{sink: &bytes.Buffer{}, tsink: &bytes.Buffer{}}
				var err error
				o.w, err = mkW(c.In("NoncePrefix", prefix), o.sink)
				if !c.Check(err) {
					return nil
				}
				o.tw = must(mkW(clone(prefix), o.tsink))
				return o
			},
			Use: []func(c *Call, o any){func(c *Call, x any) {
				c.Site("streamingaead/subtle/noncebased.(Writer).Write", "streamingaead/subtle/noncebased.(Writer).Write",
					"streamingaead/subtle/noncebased.(SegmentEncrypter).EncryptSegment")
				o := x.(*wobj)
				for _, n := range []int{10, 100, 30} {
					data := c.Rand(n)
					_, err := o.w.Write(c.In("p", data))
					c.Check(err)
					must(o.tw.Write(clone(data)))
				}
			}},
			Obs: func(x any) map[string]string {
				// forward-looking: both writers get one more full segment, so that whatever the object
				// refers to NOW (nonce prefix, buffered plaintext) goes into the compared output at once
				o := x.(*wobj)
				probe := bytes.Repeat([]byte("c19 probe segment "), 8)[:128]
				_, e1 := o.w.Write(clone(probe))
				_, e2 := o.tw.Write(clone(probe))
				return map[string]string{"sameAsTwin": boolStr(e1 == nil && e2 == nil && bytes.Equal(o.sink.Bytes(), o.tsink.Bytes()))}
			}})
		type robj struct{ r, tr *noncebased.Reader }
		ct := func() []byte {
			var b bytes.Buffer
			w := must(mkW(clone(prefix), &b))
			must(w.Write(bytes.Repeat([]byte("c19 stream plaintext "), 2000)))
			must(0, w.Close())
			return b.Bytes()
		}()
		mkR := func(np []byte) (*noncebased.Reader, error) {
			return noncebased.NewReader(noncebased.ReaderParams{R: bytes.NewReader(clone(ct)), SegmentDecrypter: newGCMSegments(), NonceSize: 12, NoncePrefix: np,
				CiphertextSegmentSize: 64 + 16, FirstCiphertextSegmentOffset: 0})
		}
		register(&Target{Name: "streamingaead/subtle/noncebased.Reader",
			New: func(c *Call) any {
				c.Site("streamingaead/subtle/noncebased.NewReader", "streamingaead/subtle/noncebased.ReaderParams.NoncePrefix")
				r, err := mkR(c.In("NoncePrefix", prefix))
				if !c.Check(err) {
					return nil
				}
				return &robj{r: r, tr: must(mkR(clone(prefix)))}
			},
			Use: []func(c *Call, o any){func(c *Call, x any) {
				c.Site("streamingaead/subtle/noncebased.(Reader).Read", "streamingaead/subtle/noncebased.(Reader).Read",
					"streamingaead/subtle/noncebased.(SegmentDecrypter).DecryptSegment")
				o := x.(*robj)
				for _, n := range []int{10, 100, 30} {
					p := c.ReadBuf("p", n)
					k, err := io.ReadFull(o.r, p)
					c.Check(err)
					c.Out("read", p[:k:k])
					must(io.ReadFull(o.tr, make([]byte, n)))
				}
			}},
			Obs: func(x any) map[string]string {
				// the next 150 bytes (more than two segments) of both readers, consumed from both (they stay in
				// lock-step): whatever the object refers to NOW is used at once
				o := x.(*robj)
				a, b := make([]byte, 150), make([]byte, 150)
				na, ea := io.ReadFull(o.r, a)
				nb, eb := io.ReadFull(o.tr, b)
				return map[string]string{"nextAsTwin": boolStr(na == nb && (ea == nil) == (eb == nil) && bytes.Equal(a[:na], b[:nb]))}
			}})
	}
	// Polyval (stateful, lock-step twin)
	{
		type pobj struct{ p, tp aeadsubtle.Polyval }
		register(&Target{Name: "aead/subtle.Polyval",
			New: func(c *Call) any {
				c.Site("aead/subtle.NewPolyval", "aead/subtle.NewPolyval")
				p, err := aeadsubtle.NewPolyval(c.In("key", k16))
				if !c.Check(err) {
					return nil
				}
				return &pobj{p: p, tp: must(aeadsubtle.NewPolyval(clone(k16)))}
			},
			Use: []func(c *Call, o any){func(c *Call, x any) {
				c.Site("aead/subtle.(Polyval).Update", "aead/subtle.(Polyval).Update")
				o := x.(*pobj)
				for _, n := range []int{16, 21} {
					d := c.Rand(n)
					o.p.Update(c.In("data", d))
					o.tp.Update(clone(d))
				}
			}},
			Obs: func(x any) map[string]string {
				o := x.(*pobj)
				return map[string]string{"sameAsTwin": boolStr(o.p.Finish() == o.tp.Finish())}
			}})
	}
	// ---------------- hybrid/subtle
	{
		curve := elliptic.P256()
		dBytes := new(big.Int).SetBytes(sha256.New().Sum([]byte("c19 ecies key"))[:31]).FillBytes(make([]byte, 32))
		mkPriv := func(b []byte) *hybridsubtle.ECPrivateKey { return hybridsubtle.GetECPrivateKey(curve, b) }
		priv0 := mkPriv(clone(dBytes))
		x, y := curve.ScalarBaseMult(dBytes)
		priv0.PublicKey = hybridsubtle.ECPublicKey{Curve: curve, Point: hybridsubtle.ECPoint{X: x, Y: y}}
		pubPoint := must(hybridsubtle.PointEncode(curve, "UNCOMPRESSED", priv0.PublicKey.Point))
		salt := []byte("c19 ecies salt")
		dec := func(s []byte) any {
			return must(hybridsubtle.NewECIESAEADHKDFHybridDecrypt(priv0, s, "SHA256", "UNCOMPRESSED", demHelper{}))
		}
		enc := func(s []byte) any {
			return must(hybridsubtle.NewECIESAEADHKDFHybridEncrypt(&priv0.PublicKey, s, "SHA256", "UNCOMPRESSED", demHelper{}))
		}
		directTarget("hybrid/subtle.ECIESAEADHKDFHybridEncrypt", "hybrid/subtle.NewECIESAEADHKDFHybridEncrypt", "hybridenc", "hybrid/subtle.(ECIESAEADHKDFHybridEncrypt)", 0,
			[]namedBytes{{"hkdfSalt", salt, ""}}, func(a [][]byte) (any, error) {
				return hybridsubtle.NewECIESAEADHKDFHybridEncrypt(&priv0.PublicKey, a[0], "SHA256", "UNCOMPRESSED", demHelper{track: true})
			}, func(a [][]byte) any { return dec(a[0]) }, "hybrid/subtle.(EciesAEADHKDFDEMHelper).GetAEADOrDAEAD")
		directTarget("hybrid/subtle.ECIESAEADHKDFHybridDecrypt", "hybrid/subtle.NewECIESAEADHKDFHybridDecrypt", "hybriddec", "hybrid/subtle.(ECIESAEADHKDFHybridDecrypt)", 0,
			[]namedBytes{{"hkdfSalt", salt, ""}}, func(a [][]byte) (any, error) {
				return hybridsubtle.NewECIESAEADHKDFHybridDecrypt(priv0, a[0], "SHA256", "UNCOMPRESSED", demHelper{track: true})
			}, func(a [][]byte) any { return enc(a[0]) }, "hybrid/subtle.(EciesAEADHKDFDEMHelper).GetAEADOrDAEAD")
		peerPoint := hybridsubtle.ECPoint{X: x, Y: y}
		register(&Target{Name: "hybrid/subtle.ECPrivateKey",
			New: func(c *Call) any {
				c.Site("hybrid/subtle.GetECPrivateKey", "hybrid/subtle.GetECPrivateKey")
				return mkPriv(c.In("b", dBytes))
			},
			Use: []func(c *Call, o any){
				func(c *Call, o any) {
					c.Site("hybrid/subtle.ComputeSharedSecret", "hybrid/subtle.ComputeSharedSecret")
					s, err := hybridsubtle.ComputeSharedSecret(&peerPoint, o.(*hybridsubtle.ECPrivateKey))
					c.Check(err)
					c.Out("secret", s)
				},
				func(c *Call, o any) {
					c.Site("hybrid/subtle.PointDecode", "hybrid/subtle.PointDecode")
					_, err := hybridsubtle.PointDecode(curve, "UNCOMPRESSED", c.In("e", pubPoint))
					c.Check(err)
				},
				func(c *Call, o any) {
					c.Site("hybrid/subtle.PointEncode", "hybrid/subtle.PointEncode")
					b, err := hybridsubtle.PointEncode(curve, "COMPRESSED", peerPoint)
					c.Check(err)
					c.Out("encoded", b)
				},
			},
			Obs: func(o any) map[string]string {
				k := o.(*hybridsubtle.ECPrivateKey)
				return map[string]string{"D": k.D.Text(16), "shared": res(hybridsubtle.ComputeSharedSecret(&peerPoint, k))}
			}})
		// public-key (de)serialization helpers for HPKE
		tmpl := hybrid.DHKEM_X25519_HKDF_SHA256_HKDF_SHA256_CHACHA20_POLY1305_Raw_Key_Template()
		privH := newHandle(tmpl)
		pubBytes := primaryKey(must(privH.Public())).(*hpke.PublicKey).PublicKeyBytes()
		type hobj struct {
			h      *keyset.Handle
			before Probe
		}
		register(&Target{Name: "hybrid/subtle.KeysetHandleFromSerializedPublicKey",
			New: func(c *Call) any {
				c.Site("hybrid/subtle.KeysetHandleFromSerializedPublicKey", "hybrid/subtle.KeysetHandleFromSerializedPublicKey")
				t := hybrid.DHKEM_X25519_HKDF_SHA256_HKDF_SHA256_CHACHA20_POLY1305_Raw_Key_Template()
				c.InMsg("template", t)
				h, err := hybridsubtle.KeysetHandleFromSerializedPublicKey(c.In("pubKeyBytes", pubBytes), t)
				if !c.Check(err) {
					return nil
				}
				return &hobj{h: h, before: primitiveProbe("hybridenc", h, privH)}
			},
			Acc: []func(c *Call, o any){func(c *Call, o any) {
				c.Site("hybrid/subtle.SerializePrimaryPublicKey", "hybrid/subtle.SerializePrimaryPublicKey")
				b, err := hybridsubtle.SerializePrimaryPublicKey(o.(*hobj).h, hybrid.DHKEM_X25519_HKDF_SHA256_HKDF_SHA256_CHACHA20_POLY1305_Raw_Key_Template())
				c.Check(err)
				c.Out("publicKey", b)
			}},
			Obs: func(x any) map[string]string {
				o := x.(*hobj)
				return map[string]string{"keyset": ksDigest(o.h), "before": o.before(), "after": primitiveProbe("hybridenc", o.h, privH)()}
			}})
	}
	// ---------------- subtle (plain functions) and subtle/random
	{
		xpriv := must(subtle.GeneratePrivateKeyX25519())
		xpub := must(subtle.PublicFromPrivateX25519(clone(xpriv)))
		register(&Target{Name: "subtle.functions",
			Use: []func(c *Call, o any){
				func(c *Call, o any) {
					c.Site("subtle.ComputeHKDF", "subtle.ComputeHKDF")
					b, err := subtle.ComputeHKDF("SHA256", c.In("key", k32), c.In("salt", []byte("salt")), c.In("info", []byte("info")), 32)
					c.Check(err)
					c.Out("okm", b)
				},
				func(c *Call, o any) {
					c.Site("subtle.ComputeHKDF", "subtle.ComputeHKDF")
					b, err := subtle.ComputeHKDF("SHA256", c.In("key", k32), c.In("salt", nil), c.In("info", nil), 16)
					c.Check(err)
					c.Out("okm", b)
				},
				func(c *Call, o any) {
					c.Site("subtle.ComputeHash", "subtle.ComputeHash")
					b, err := subtle.ComputeHash(sha256.New, c.In("data", c.Rand(50)))
					c.Check(err)
					c.Out("digest", b)
				},
				func(c *Call, o any) {
					c.Site("subtle.ComputeSharedSecretX25519", "subtle.ComputeSharedSecretX25519")
					b, err := subtle.ComputeSharedSecretX25519(c.In("privKey", xpriv), c.In("pubValue", xpub))
					c.Check(err)
					c.Out("secret", b)
				},
				func(c *Call, o any) {
					c.Site("subtle.PublicFromPrivateX25519", "subtle.PublicFromPrivateX25519")
					b, err := subtle.PublicFromPrivateX25519(c.In("privKey", xpriv))
					c.Check(err)
					c.Out("pub", b)
				},
				func(c *Call, o any) {
					c.Site("subtle.GeneratePrivateKeyX25519", "subtle.GeneratePrivateKeyX25519")
					b, err := subtle.GeneratePrivateKeyX25519()
					c.Check(err)
					c.Out("privKey", b)
				},
				func(c *Call, o any) {
					c.Site("subtle/random.GetRandomBytes", "subtle/random.GetRandomBytes")
					c.Out("random", random.GetRandomBytes(24))
				},
				func(c *Call, o any) {
					c.Site("prf/subtle.ValidateHKDFPRFParams", "prf/subtle.ValidateHKDFPRFParams")
					c.Check(prfsubtle.ValidateHKDFPRFParams("SHA256", 32, c.In("salt", []byte("some salt"))))
				},
			}})
	}
	_ = fmt.Sprint
}
