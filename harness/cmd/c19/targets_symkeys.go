package main

import (
	"github.com/tink-crypto/tink-go/v2/aead"
	"github.com/tink-crypto/tink-go/v2/aead/aesctrhmac"
	"github.com/tink-crypto/tink-go/v2/aead/aesgcm"
	"github.com/tink-crypto/tink-go/v2/aead/aesgcmsiv"
	"github.com/tink-crypto/tink-go/v2/aead/chacha20poly1305"
	"github.com/tink-crypto/tink-go/v2/aead/xaesgcm"
	"github.com/tink-crypto/tink-go/v2/aead/xchacha20poly1305"
	"github.com/tink-crypto/tink-go/v2/daead"
	"github.com/tink-crypto/tink-go/v2/daead/aessiv"
	"github.com/tink-crypto/tink-go/v2/key"
	"github.com/tink-crypto/tink-go/v2/prf"
	"github.com/tink-crypto/tink-go/v2/prf/aescmacprf"
	"github.com/tink-crypto/tink-go/v2/prf/hkdfprf"
	"github.com/tink-crypto/tink-go/v2/prf/hmacprf"
	tinkpb "github.com/tink-crypto/tink-go/v2/proto/tink_go_proto"
	"github.com/tink-crypto/tink-go/v2/secretdata"
	"github.com/tink-crypto/tink-go/v2/streamingaead"
	saesctrhmac "github.com/tink-crypto/tink-go/v2/streamingaead/aesctrhmac"
	"github.com/tink-crypto/tink-go/v2/streamingaead/aesgcmhkdf"
)

type symKey interface {
	key.Key
	KeyBytes() secretdata.Bytes
}

type prefixed interface{ OutputPrefix() []byte }

func clone(b []byte) []byte { return append([]byte{}, b...) }

// symKeyTarget: a symmetric key class whose constructor takes the key material as secretdata.Bytes.
// The material travels: caller buffer -> secretdata.NewBytesFromData -> NewKey.
func symKeyTarget[K symKey](pkg, variant, kind string, k0 K, mk func(sd secretdata.Bytes, k0 K) (K, error)) {
	raw := k0.KeyBytes().Data(tok)
	t := &Target{Name: pkg + ".Key/" + variant, Obs: obsKey}
	if kind == "streaming" {
		t.Cost = 1
	}
	t.New = func(c *Call) any {
		c.Site(pkg+".NewKey", pkg+".NewKey", "secretdata.NewBytesFromData")
		k, err := mk(secretdata.NewBytesFromData(c.In("keyBytes", raw), tok), k0)
		if !c.Check(err) {
			return nil
		}
		return newKeyObject(k, must(mk(secretdata.NewBytesFromData(clone(raw), tok), k0)), kind, nil)
	}
	t.Acc = []func(c *Call, o any){func(c *Call, o any) {
		c.Site(pkg+".(Key).KeyBytes", pkg+".(Key).KeyBytes", "secretdata.(Bytes).Data")
		c.Out("keyBytes", o.(*keyObject).k.(K).KeyBytes().Data(tok))
	}}
	if _, ok := any(k0).(prefixed); ok {
		t.Acc = append(t.Acc, func(c *Call, o any) {
			c.Site(pkg+".(Key).OutputPrefix", pkg+".(Key).OutputPrefix")
			c.Out("outputPrefix", o.(*keyObject).k.(prefixed).OutputPrefix())
		})
	}
	register(t)
}

func idOf(k key.Key) uint32 { id, _ := k.IDRequirement(); return id }

func variantTemplates(t *tinkpb.KeyTemplate, pts ...tinkpb.OutputPrefixType) map[string]*tinkpb.KeyTemplate {
	m := map[string]*tinkpb.KeyTemplate{}
	for _, pt := range pts {
		c := legacyTemplate(t)
		c.OutputPrefixType = pt
		m[pt.String()] = c
	}
	return m
}

func init() {
	T, C, R := tinkpb.OutputPrefixType_TINK, tinkpb.OutputPrefixType_CRUNCHY, tinkpb.OutputPrefixType_RAW
	for v, t := range variantTemplates(aead.AES128GCMKeyTemplate(), T, C, R) {
		symKeyTarget("aead/aesgcm", v, "aead", primaryKey(newHandle(t)).(*aesgcm.Key), func(sd secretdata.Bytes, k0 *aesgcm.Key) (*aesgcm.Key, error) {
			return aesgcm.NewKey(sd, idOf(k0), k0.Parameters().(*aesgcm.Parameters))
		})
	}
	for v, t := range variantTemplates(aead.AES256GCMSIVKeyTemplate(), T, R) {
		symKeyTarget("aead/aesgcmsiv", v, "aead", primaryKey(newHandle(t)).(*aesgcmsiv.Key), func(sd secretdata.Bytes, k0 *aesgcmsiv.Key) (*aesgcmsiv.Key, error) {
			return aesgcmsiv.NewKey(sd, idOf(k0), k0.Parameters().(*aesgcmsiv.Parameters))
		})
	}
	for v, t := range variantTemplates(aead.ChaCha20Poly1305KeyTemplate(), T, C) {
		symKeyTarget("aead/chacha20poly1305", v, "aead", primaryKey(newHandle(t)).(*chacha20poly1305.Key), func(sd secretdata.Bytes, k0 *chacha20poly1305.Key) (*chacha20poly1305.Key, error) {
			return chacha20poly1305.NewKey(sd, idOf(k0), k0.Parameters().(*chacha20poly1305.Parameters))
		})
	}
	for v, t := range variantTemplates(aead.XChaCha20Poly1305KeyTemplate(), T, R) {
		symKeyTarget("aead/xchacha20poly1305", v, "aead", primaryKey(newHandle(t)).(*xchacha20poly1305.Key), func(sd secretdata.Bytes, k0 *xchacha20poly1305.Key) (*xchacha20poly1305.Key, error) {
			return xchacha20poly1305.NewKey(sd, idOf(k0), k0.Parameters().(*xchacha20poly1305.Parameters))
		})
	}
	for v, t := range variantTemplates(aead.XAES256GCM192BitNonceKeyTemplate(), T, R) {
		symKeyTarget("aead/xaesgcm", v, "aead", primaryKey(newHandle(t)).(*xaesgcm.Key), func(sd secretdata.Bytes, k0 *xaesgcm.Key) (*xaesgcm.Key, error) {
			return xaesgcm.NewKey(sd, idOf(k0), k0.Parameters().(*xaesgcm.Parameters))
		})
	}
	for v, t := range variantTemplates(daead.AESSIVKeyTemplate(), T, C, R) {
		symKeyTarget("daead/aessiv", v, "daead", primaryKey(newHandle(t)).(*aessiv.Key), func(sd secretdata.Bytes, k0 *aessiv.Key) (*aessiv.Key, error) {
			return aessiv.NewKey(sd, idOf(k0), k0.Parameters().(*aessiv.Parameters))
		})
	}
	symKeyTarget("prf/aescmacprf", "RAW", "prf", primaryKey(newHandle(prf.AESCMACPRFKeyTemplate())).(*aescmacprf.Key), func(sd secretdata.Bytes, k0 *aescmacprf.Key) (*aescmacprf.Key, error) {
		return aescmacprf.NewKey(sd)
	})
	symKeyTarget("prf/hmacprf", "RAW", "prf", primaryKey(newHandle(prf.HMACSHA256PRFKeyTemplate())).(*hmacprf.Key), func(sd secretdata.Bytes, k0 *hmacprf.Key) (*hmacprf.Key, error) {
		return hmacprf.NewKey(sd, k0.Parameters().(*hmacprf.Parameters))
	})
	symKeyTarget("prf/hkdfprf", "RAW", "prf", primaryKey(newHandle(prf.HKDFSHA256PRFKeyTemplate())).(*hkdfprf.Key), func(sd secretdata.Bytes, k0 *hkdfprf.Key) (*hkdfprf.Key, error) {
		return hkdfprf.NewKey(sd, k0.Parameters().(*hkdfprf.Parameters))
	})
	symKeyTarget("streamingaead/aesgcmhkdf", "RAW", "streaming", primaryKey(newHandle(streamingaead.AES128GCMHKDF4KBKeyTemplate())).(*aesgcmhkdf.Key), func(sd secretdata.Bytes, k0 *aesgcmhkdf.Key) (*aesgcmhkdf.Key, error) {
		return aesgcmhkdf.NewKey(k0.Parameters().(*aesgcmhkdf.Parameters), sd)
	})
	symKeyTarget("streamingaead/aesctrhmac", "RAW", "streaming", primaryKey(newHandle(streamingaead.AES128CTRHMACSHA256Segment4KBKeyTemplate())).(*saesctrhmac.Key), func(sd secretdata.Bytes, k0 *saesctrhmac.Key) (*saesctrhmac.Key, error) {
		return saesctrhmac.NewKey(k0.Parameters().(*saesctrhmac.Parameters), sd)
	})

	// AES-CTR-HMAC: two key parts, passed in an options struct
	for v, t := range variantTemplates(aead.AES128CTRHMACSHA256KeyTemplate(), T, C, R) {
		k0 := primaryKey(newHandle(t)).(*aesctrhmac.Key)
		aesRaw, macRaw := k0.AESKeyBytes().Data(tok), k0.HMACKeyBytes().Data(tok)
		mk := func(a, m []byte) (*aesctrhmac.Key, error) {
			return aesctrhmac.NewKey(aesctrhmac.KeyOpts{AESKeyBytes: secretdata.NewBytesFromData(a, tok), HMACKeyBytes: secretdata.NewBytesFromData(m, tok),
				IDRequirement: idOf(k0), Parameters: k0.Parameters().(*aesctrhmac.Parameters)})
		}
		register(&Target{Name: "aead/aesctrhmac.Key/" + v, Obs: obsKey,
			New: func(c *Call) any {
				c.Site("aead/aesctrhmac.NewKey", "aead/aesctrhmac.NewKey", "aead/aesctrhmac.KeyOpts.AESKeyBytes", "aead/aesctrhmac.KeyOpts.HMACKeyBytes", "secretdata.NewBytesFromData")
				k, err := mk(c.In("AESKeyBytes", aesRaw), c.In("HMACKeyBytes", macRaw))
				if !c.Check(err) {
					return nil
				}
				return newKeyObject(k, must(mk(clone(aesRaw), clone(macRaw))), "aead", nil)
			},
			Acc: []func(c *Call, o any){
				func(c *Call, o any) {
					c.Site("aead/aesctrhmac.(Key).AESKeyBytes", "aead/aesctrhmac.(Key).AESKeyBytes", "secretdata.(Bytes).Data")
					c.Out("aesKeyBytes", o.(*keyObject).k.(*aesctrhmac.Key).AESKeyBytes().Data(tok))
				},
				func(c *Call, o any) {
					c.Site("aead/aesctrhmac.(Key).HMACKeyBytes", "aead/aesctrhmac.(Key).HMACKeyBytes", "secretdata.(Bytes).Data")
					c.Out("hmacKeyBytes", o.(*keyObject).k.(*aesctrhmac.Key).HMACKeyBytes().Data(tok))
				},
				func(c *Call, o any) {
					c.Site("aead/aesctrhmac.(Key).OutputPrefix", "aead/aesctrhmac.(Key).OutputPrefix")
					c.Out("outputPrefix", o.(*keyObject).k.(*aesctrhmac.Key).OutputPrefix())
				},
			}})
	}

	// HKDF-PRF parameters carry a salt
	{
		salt := []byte("c19 hkdf salt value")
		keyRaw := []byte("0123456789abcdef0123456789abcdef")
		type paramObj struct {
			p, pristine *hkdfprf.Parameters
			before      Probe
		}
		keyFor := func(p *hkdfprf.Parameters) key.Key {
			return must(hkdfprf.NewKey(secretdata.NewBytesFromData(clone(keyRaw), tok), p))
		}
		register(&Target{Name: "prf/hkdfprf.Parameters",
			New: func(c *Call) any {
				c.Site("prf/hkdfprf.NewParameters", "prf/hkdfprf.NewParameters")
				p, err := hkdfprf.NewParameters(32, hkdfprf.SHA256, c.In("salt", salt))
				if !c.Check(err) {
					return nil
				}
				h := must(handleOf(keyFor(p)))
				return &paramObj{p: p, pristine: must(hkdfprf.NewParameters(32, hkdfprf.SHA256, clone(salt))), before: primitiveProbe("prf", h, h)}
			},
			Acc: []func(c *Call, o any){func(c *Call, o any) {
				c.Site("prf/hkdfprf.(Parameters).Salt", "prf/hkdfprf.(Parameters).Salt")
				c.Out("salt", o.(*paramObj).p.Salt())
			}},
			Obs: func(x any) map[string]string {
				o := x.(*paramObj)
				h := must(handleOf(keyFor(o.p)))
				return map[string]string{"equal": boolStr(o.p.Equal(o.pristine)), "equalRev": boolStr(o.pristine.Equal(o.p)), "salt": enc(o.p.Salt()),
					"before": o.before(), "after": primitiveProbe("prf", h, h)(), "serialized": keyDigest(h)}
			}})
	}
}

func boolStr(b bool) string {
	if b {
		return "true"
	}
	return "false"
}
