package main

import (
	"github.com/tink-crypto/tink-go/v2/jwt"
	"github.com/tink-crypto/tink-go/v2/jwt/jwtecdsa"
	"github.com/tink-crypto/tink-go/v2/jwt/jwthmac"
	"github.com/tink-crypto/tink-go/v2/jwt/jwtmldsa"
	"github.com/tink-crypto/tink-go/v2/jwt/jwtrsassapkcs1"
	"github.com/tink-crypto/tink-go/v2/jwt/jwtrsassapss"
	"github.com/tink-crypto/tink-go/v2/key"
	"github.com/tink-crypto/tink-go/v2/secretdata"
	"github.com/tink-crypto/tink-go/v2/signature/compositemldsa"
	"github.com/tink-crypto/tink-go/v2/signature/ed25519"
	"github.com/tink-crypto/tink-go/v2/signature/mldsa"
	"github.com/tink-crypto/tink-go/v2/signature/rsassapkcs1"
	"github.com/tink-crypto/tink-go/v2/signature/rsassapss"
)

// rsaFamily: RSA key classes take the modulus as []byte and P, Q, D as secretdata.Bytes in a struct.
type rsaPriv interface {
	privateKey
	P() secretdata.Bytes
	Q() secretdata.Bytes
	D() secretdata.Bytes
	DP() secretdata.Bytes
	DQ() secretdata.Bytes
	QInv() secretdata.Bytes
}

type rsaFamily struct {
	pkg, variant, kind, pubKind string
	valuesType                  string // name of the options struct of NewPrivateKey
	pubOptsField                string // set when the public constructor takes an options struct
	priv0                       rsaPriv
	modulus                     func(k key.Key) []byte
	mkPub                       func(n []byte) (key.Key, error)
	mkPriv                      func(pub key.Key, p, q, d secretdata.Bytes) (key.Key, error)
	withPrefix                  bool
}

func rsaTargets(f rsaFamily) {
	pub0 := must(f.priv0.PublicKey())
	n := f.modulus(pub0)
	p, q, d := f.priv0.P().Data(tok), f.priv0.Q().Data(tok), f.priv0.D().Data(tok)
	pubOps := []string{f.pkg + ".NewPublicKey"}
	if f.pubOptsField != "" {
		pubOps = append(pubOps, f.pkg+".PublicKeyOpts."+f.pubOptsField)
	}
	pubAcc := []func(c *Call, o any){func(c *Call, o any) {
		c.Site(f.pkg+".(PublicKey).Modulus", f.pkg+".(PublicKey).Modulus")
		c.Out("modulus", f.modulus(o.(*keyObject).k))
	}}
	if f.withPrefix {
		pubAcc = append(pubAcc, func(c *Call, o any) {
			c.Site(f.pkg+".(PublicKey).OutputPrefix", f.pkg+".(PublicKey).OutputPrefix")
			c.Out("outputPrefix", o.(*keyObject).k.(prefixed).OutputPrefix())
		})
	}
	register(&Target{Name: f.pkg + ".PublicKey/" + f.variant, Cost: 1, Obs: obsKey,
		New: func(c *Call) any {
			c.Site(f.pkg+".NewPublicKey", pubOps...)
			k, err := f.mkPub(c.In("modulus", n))
			if !c.Check(err) {
				return nil
			}
			return newKeyObject(k, must(f.mkPub(clone(n))), f.pubKind, f.priv0)
		},
		Acc: pubAcc})
	sd := func(b []byte) secretdata.Bytes { return secretdata.NewBytesFromData(b, tok) }
	acc := func(name string, get func(k rsaPriv) secretdata.Bytes) func(c *Call, o any) {
		return func(c *Call, o any) {
			c.Site(f.pkg+".(PrivateKey)."+name, f.pkg+".(PrivateKey)."+name, "secretdata.(Bytes).Data")
			c.Out(name, get(o.(*keyObject).k.(rsaPriv)).Data(tok))
		}
	}
	privAcc := []func(c *Call, o any){
		acc("P", func(k rsaPriv) secretdata.Bytes { return k.P() }), acc("Q", func(k rsaPriv) secretdata.Bytes { return k.Q() }),
		acc("D", func(k rsaPriv) secretdata.Bytes { return k.D() }), acc("DP", func(k rsaPriv) secretdata.Bytes { return k.DP() }),
		acc("DQ", func(k rsaPriv) secretdata.Bytes { return k.DQ() }), acc("QInv", func(k rsaPriv) secretdata.Bytes { return k.QInv() }),
		func(c *Call, o any) {
			c.Site(f.pkg+".(PublicKey).Modulus", f.pkg+".(PublicKey).Modulus")
			c.Out("modulus", f.modulus(must(o.(*keyObject).k.(privateKey).PublicKey())))
		},
	}
	if f.withPrefix {
		privAcc = append(privAcc, func(c *Call, o any) {
			c.Site(f.pkg+".(PrivateKey).OutputPrefix", f.pkg+".(PrivateKey).OutputPrefix")
			c.Out("outputPrefix", o.(*keyObject).k.(prefixed).OutputPrefix())
		})
	}
	register(&Target{Name: f.pkg + ".PrivateKey/" + f.variant, Cost: 1, Obs: obsKey,
		New: func(c *Call) any {
			c.Site(f.pkg+".NewPublicKey", pubOps...)
			pub, err := f.mkPub(c.In("modulus", n))
			if !c.Check(err) {
				return nil
			}
			c.Site(f.pkg+".NewPrivateKey", f.pkg+".NewPrivateKey", f.pkg+"."+f.valuesType+".P", f.pkg+"."+f.valuesType+".Q", f.pkg+"."+f.valuesType+".D",
				"secretdata.NewBytesFromData")
			k, err := f.mkPriv(pub, sd(c.In("P", p)), sd(c.In("Q", q)), sd(c.In("D", d)))
			if !c.Check(err) {
				return nil
			}
			return newKeyObject(k, must(f.mkPriv(must(f.mkPub(clone(n))), sd(clone(p)), sd(clone(q)), sd(clone(d)))), f.kind, f.priv0)
		},
		Acc: privAcc})
}

func init() {
	// ---------------- RSA-SSA-PKCS1 / RSA-SSA-PSS (2048-bit keys generated once per process)
	{
		params := must(rsassapkcs1.NewParameters(2048, rsassapkcs1.SHA256, 65537, rsassapkcs1.VariantTink))
		p0 := keyFromParams(params).(*rsassapkcs1.PrivateKey)
		rsaTargets(rsaFamily{pkg: "signature/rsassapkcs1", variant: "2048/TINK", kind: "signer", pubKind: "verifier", valuesType: "PrivateKeyValues", priv0: p0, withPrefix: true,
			modulus: func(k key.Key) []byte { return k.(*rsassapkcs1.PublicKey).Modulus() },
			mkPub:   func(n []byte) (key.Key, error) { return rsassapkcs1.NewPublicKey(n, idOf(p0), params) },
			mkPriv: func(pub key.Key, p, q, d secretdata.Bytes) (key.Key, error) {
				return rsassapkcs1.NewPrivateKey(pub.(*rsassapkcs1.PublicKey), rsassapkcs1.PrivateKeyValues{P: p, Q: q, D: d})
			}})
	}
	{
		params := must(rsassapss.NewParameters(rsassapss.ParametersValues{ModulusSizeBits: 2048, SigHashType: rsassapss.SHA256, MGF1HashType: rsassapss.SHA256,
			PublicExponent: 65537, SaltLengthBytes: 32}, rsassapss.VariantLegacy))
		p0 := keyFromParams(params).(*rsassapss.PrivateKey)
		rsaTargets(rsaFamily{pkg: "signature/rsassapss", variant: "2048/LEGACY", kind: "signer", pubKind: "verifier", valuesType: "PrivateKeyValues", priv0: p0, withPrefix: true,
			modulus: func(k key.Key) []byte { return k.(*rsassapss.PublicKey).Modulus() },
			mkPub:   func(n []byte) (key.Key, error) { return rsassapss.NewPublicKey(n, idOf(p0), params) },
			mkPriv: func(pub key.Key, p, q, d secretdata.Bytes) (key.Key, error) {
				return rsassapss.NewPrivateKey(pub.(*rsassapss.PublicKey), rsassapss.PrivateKeyValues{P: p, Q: q, D: d})
			}})
	}
	// ---------------- JWT RSA key classes (JWT primitives themselves are not in scope: no behaviour probe)
	{
		p0 := primaryKey(newHandle(jwt.RS256_2048_F4_Key_Template())).(*jwtrsassapkcs1.PrivateKey)
		params := p0.Parameters().(*jwtrsassapkcs1.Parameters)
		rsaTargets(rsaFamily{pkg: "jwt/jwtrsassapkcs1", variant: "RS256-2048", kind: "none", pubKind: "none", valuesType: "PrivateKeyOpts", pubOptsField: "Modulus", priv0: p0,
			modulus: func(k key.Key) []byte { return k.(*jwtrsassapkcs1.PublicKey).Modulus() },
			mkPub: func(n []byte) (key.Key, error) {
				return jwtrsassapkcs1.NewPublicKey(jwtrsassapkcs1.PublicKeyOpts{Modulus: n, IDRequirement: idOf(p0), Parameters: params})
			},
			mkPriv: func(pub key.Key, p, q, d secretdata.Bytes) (key.Key, error) {
				return jwtrsassapkcs1.NewPrivateKey(jwtrsassapkcs1.PrivateKeyOpts{PublicKey: pub.(*jwtrsassapkcs1.PublicKey), P: p, Q: q, D: d})
			}})
	}
	{
		p0 := primaryKey(newHandle(jwt.PS256_2048_F4_Key_Template())).(*jwtrsassapss.PrivateKey)
		params := p0.Parameters().(*jwtrsassapss.Parameters)
		rsaTargets(rsaFamily{pkg: "jwt/jwtrsassapss", variant: "PS256-2048", kind: "none", pubKind: "none", valuesType: "PrivateKeyOpts", pubOptsField: "Modulus", priv0: p0,
			modulus: func(k key.Key) []byte { return k.(*jwtrsassapss.PublicKey).Modulus() },
			mkPub: func(n []byte) (key.Key, error) {
				return jwtrsassapss.NewPublicKey(jwtrsassapss.PublicKeyOpts{Modulus: n, IDRequirement: idOf(p0), Parameters: params})
			},
			mkPriv: func(pub key.Key, p, q, d secretdata.Bytes) (key.Key, error) {
				return jwtrsassapss.NewPrivateKey(jwtrsassapss.PrivateKeyOpts{PublicKey: pub.(*jwtrsassapss.PublicKey), P: p, Q: q, D: d})
			}})
	}
	{
		p0 := primaryKey(newHandle(jwt.ES256Template())).(*jwtecdsa.PrivateKey)
		params := p0.Parameters().(*jwtecdsa.Parameters)
		jwtPair("jwt/jwtecdsa", "ES256", 0, p0, "publicPoint", "PublicPoint", "PublicPoint",
			func(k key.Key) []byte { return k.(*jwtecdsa.PublicKey).PublicPoint() },
			func(b []byte) (key.Key, error) {
				return jwtecdsa.NewPublicKey(jwtecdsa.PublicKeyOpts{PublicPoint: b, IDRequirement: idOf(p0), Parameters: params})
			},
			func(k key.Key) secretdata.Bytes { return k.(*jwtecdsa.PrivateKey).PrivateKeyValue() },
			func(sd secretdata.Bytes, pub key.Key) (key.Key, error) {
				return jwtecdsa.NewPrivateKeyFromPublicKey(sd, pub.(*jwtecdsa.PublicKey))
			})
	}
	{
		params := must(jwtmldsa.NewParameters(jwtmldsa.Base64EncodedKeyIDAsKID, jwtmldsa.MLDSA44))
		p0 := keyFromParams(params).(*jwtmldsa.PrivateKey)
		jwtPair("jwt/jwtmldsa", "MLDSA44", 1, p0, "keyBytes", "KeyBytes", "KeyBytes",
			func(k key.Key) []byte { return k.(*jwtmldsa.PublicKey).KeyBytes() },
			func(b []byte) (key.Key, error) {
				return jwtmldsa.NewPublicKey(jwtmldsa.PublicKeyOpts{KeyBytes: b, IDRequirement: idOf(p0), Parameters: params})
			},
			func(k key.Key) secretdata.Bytes { return k.(*jwtmldsa.PrivateKey).PrivateKeyValue() },
			func(sd secretdata.Bytes, pub key.Key) (key.Key, error) {
				return jwtmldsa.NewPrivateKeyFromPublicKey(sd, pub.(*jwtmldsa.PublicKey))
			})
	}
	{ // JWT HMAC
		k0 := primaryKey(newHandle(jwt.HS256Template())).(*jwthmac.Key)
		params := k0.Parameters().(*jwthmac.Parameters)
		raw := k0.KeyBytes().Data(tok)
		mk := func(b []byte) (key.Key, error) {
			return jwthmac.NewKey(jwthmac.KeyOpts{KeyBytes: secretdata.NewBytesFromData(b, tok), IDRequirement: idOf(k0), Parameters: params})
		}
		register(&Target{Name: "jwt/jwthmac.Key/HS256", Obs: obsKey,
			New: func(c *Call) any {
				c.Site("jwt/jwthmac.NewKey", "jwt/jwthmac.NewKey", "jwt/jwthmac.KeyOpts.KeyBytes", "secretdata.NewBytesFromData")
				k, err := mk(c.In("keyBytes", raw))
				if !c.Check(err) {
					return nil
				}
				return newKeyObject(k, must(mk(clone(raw))), "none", nil)
			},
			Acc: []func(c *Call, o any){func(c *Call, o any) {
				c.Site("jwt/jwthmac.(Key).KeyBytes", "jwt/jwthmac.(Key).KeyBytes", "secretdata.(Bytes).Data")
				c.Out("keyBytes", o.(*keyObject).k.(*jwthmac.Key).KeyBytes().Data(tok))
			}}})
	}
	// ---------------- composite ML-DSA: keys made of keys; the byte slices enter through the parts
	{
		params := must(compositemldsa.NewParameters(compositemldsa.Ed25519, compositemldsa.MLDSA65, compositemldsa.VariantTink))
		p0 := keyFromParams(params).(*compositemldsa.PrivateKey)
		ml0 := p0.MLDSAPrivateKey()
		ed0 := p0.ClassicalPrivateKey().(*ed25519.PrivateKey)
		mlPub0 := must(ml0.PublicKey()).(*mldsa.PublicKey)
		edPub0 := must(ed0.PublicKey()).(*ed25519.PublicKey)
		mlPubRaw, edPubRaw := mlPub0.KeyBytes(), edPub0.KeyBytes()
		mlPrivRaw, edPrivRaw := ml0.PrivateKeyBytes().Data(tok), ed0.PrivateKeyBytes().Data(tok)
		mlParams, edParams := mlPub0.Parameters().(*mldsa.Parameters), *edPub0.Parameters().(*ed25519.Parameters)
		mkPub := func(ml, ed []byte) (key.Key, error) {
			a, err := mldsa.NewPublicKey(ml, 0, mlParams)
			if err != nil {
				return nil, err
			}
			b, err := ed25519.NewPublicKey(ed, 0, edParams)
			if err != nil {
				return nil, err
			}
			return compositemldsa.NewPublicKey(a, b, idOf(p0), params)
		}
		mkPriv := func(ml, ed []byte) (key.Key, error) {
			a, err := mldsa.NewPrivateKey(secretdata.NewBytesFromData(ml, tok), 0, mlParams)
			if err != nil {
				return nil, err
			}
			b, err := ed25519.NewPrivateKey(secretdata.NewBytesFromData(ed, tok), 0, edParams)
			if err != nil {
				return nil, err
			}
			return compositemldsa.NewPrivateKey(a, b, idOf(p0), params)
		}
		register(&Target{Name: "signature/compositemldsa.PublicKey/MLDSA65-Ed25519/TINK", Cost: 1, Obs: obsKey,
			New: func(c *Call) any {
				c.Site("signature/mldsa.NewPublicKey", "signature/mldsa.NewPublicKey")
				a := c.In("mldsaKeyBytes", mlPubRaw)
				c.Site("signature/ed25519.NewPublicKey", "signature/ed25519.NewPublicKey")
				b := c.In("ed25519KeyBytes", edPubRaw)
				c.Site("signature/compositemldsa.NewPublicKey")
				k, err := mkPub(a, b)
				if !c.Check(err) {
					return nil
				}
				return newKeyObject(k, must(mkPub(clone(mlPubRaw), clone(edPubRaw))), "verifier", p0)
			},
			Acc: []func(c *Call, o any){
				func(c *Call, o any) {
					c.Site("signature/compositemldsa.(PublicKey).OutputPrefix", "signature/compositemldsa.(PublicKey).OutputPrefix")
					c.Out("outputPrefix", o.(*keyObject).k.(*compositemldsa.PublicKey).OutputPrefix())
				},
				func(c *Call, o any) {
					c.Site("signature/compositemldsa.(PublicKey).MLDSAPublicKey", "signature/mldsa.(PublicKey).KeyBytes")
					c.Out("mldsaKeyBytes", o.(*keyObject).k.(*compositemldsa.PublicKey).MLDSAPublicKey().KeyBytes())
				},
			}})
		register(&Target{Name: "signature/compositemldsa.PrivateKey/MLDSA65-Ed25519/TINK", Cost: 1, Obs: obsKey,
			New: func(c *Call) any {
				c.Site("signature/mldsa.NewPrivateKey", "signature/mldsa.NewPrivateKey", "secretdata.NewBytesFromData")
				a := c.In("mldsaPrivateKeyBytes", mlPrivRaw)
				c.Site("signature/ed25519.NewPrivateKey", "signature/ed25519.NewPrivateKey")
				b := c.In("ed25519PrivateKeyBytes", edPrivRaw)
				c.Site("signature/compositemldsa.NewPrivateKey")
				k, err := mkPriv(a, b)
				if !c.Check(err) {
					return nil
				}
				return newKeyObject(k, must(mkPriv(clone(mlPrivRaw), clone(edPrivRaw))), "signer", p0)
			},
			Acc: []func(c *Call, o any){
				func(c *Call, o any) {
					c.Site("signature/compositemldsa.(PrivateKey).OutputPrefix", "signature/compositemldsa.(PrivateKey).OutputPrefix")
					c.Out("outputPrefix", o.(*keyObject).k.(*compositemldsa.PrivateKey).OutputPrefix())
				},
			}})
	}
}

// ---------------- JWT ECDSA / ML-DSA: public bytes in an options struct, private bytes as secretdata
func jwtPair(pkg, variant string, cost int, p0 privateKey, pubArg, pubAcc, field string, getPub func(k key.Key) []byte,
	mkPub func(b []byte) (key.Key, error), getPriv func(k key.Key) secretdata.Bytes, mkPriv func(sd secretdata.Bytes, pub key.Key) (key.Key, error)) {
	pubRaw := getPub(must(p0.PublicKey()))
	privRaw := getPriv(p0).Data(tok)
	register(&Target{Name: pkg + ".PublicKey/" + variant, Cost: cost, Obs: obsKey,
		New: func(c *Call) any {
			c.Site(pkg+".NewPublicKey", pkg+".NewPublicKey", pkg+".PublicKeyOpts."+field)
			k, err := mkPub(c.In(pubArg, pubRaw))
			if !c.Check(err) {
				return nil
			}
			return newKeyObject(k, must(mkPub(clone(pubRaw))), "none", p0)
		},
		Acc: []func(c *Call, o any){func(c *Call, o any) {
			c.Site(pkg+".(PublicKey)."+pubAcc, pkg+".(PublicKey)."+pubAcc)
			c.Out(pubArg, getPub(o.(*keyObject).k))
		}}})
	register(&Target{Name: pkg + ".PrivateKey/" + variant, Cost: cost, Obs: obsKey,
		New: func(c *Call) any {
			c.Site(pkg+".NewPublicKey", pkg+".NewPublicKey", pkg+".PublicKeyOpts."+field)
			pub, err := mkPub(c.In(pubArg, pubRaw))
			if !c.Check(err) {
				return nil
			}
			c.Site(pkg+".NewPrivateKeyFromPublicKey", pkg+".NewPrivateKeyFromPublicKey", "secretdata.NewBytesFromData")
			k, err := mkPriv(secretdata.NewBytesFromData(c.In("keyBytes", privRaw), tok), pub)
			if !c.Check(err) {
				return nil
			}
			return newKeyObject(k, must(mkPriv(secretdata.NewBytesFromData(clone(privRaw), tok), must(mkPub(clone(pubRaw))))), "none", p0)
		},
		Acc: []func(c *Call, o any){
			func(c *Call, o any) {
				c.Site(pkg+".(PrivateKey).PrivateKeyValue", pkg+".(PrivateKey).PrivateKeyValue", "secretdata.(Bytes).Data")
				c.Out("keyBytes", getPriv(o.(*keyObject).k).Data(tok))
			},
			func(c *Call, o any) {
				c.Site(pkg+".(PublicKey)."+pubAcc, pkg+".(PublicKey)."+pubAcc)
				c.Out(pubArg, getPub(must(o.(*keyObject).k.(privateKey).PublicKey())))
			},
		}})
}
