// c19: conformance driver for property C19 (no writes into caller buffers; keys, handles and
// primitives share no memory with callers).  It executes the mutation schedules written out by TLC
// (spec/plan/Plan_Ownership.tla) on real Tink objects, one scenario per (target, buffer layout,
// schedule).  Every byte slice passed to the library lives inside a larger sentinel-filled array at
// a non-zero offset with spare capacity - five layouts: capped 8 bytes behind len, un-capped small,
// un-capped with 8 KiB of room (an append of any size lands in the caller's memory instead of
// reallocating), and all inputs of a call adjacent in one frame in call order / reverse order;
// every returned slice is registered with its full capacity.
// After every step the driver logs the content of every region and the observable value of the
// library object; spec/trace/Trace_Ownership.tla judges the log.  The driver itself judges nothing.
package main

import (
	"encoding/json"
	"flag"
	"fmt"
	"math/rand"
	"os"
	"regexp"
	"sort"
	"strings"

	"verifharness/vt"

	"google.golang.org/protobuf/proto"
)

// Target is one operation kind of the inventory: how to construct the library object from caller
// buffers, the calls that take/return byte slices, the accessors, and the object's observable value.
type Target struct {
	Name string
	Cost int // 0 cheap, 1 moderate (ms per step), 2 expensive (tens of ms or more per step)
	// New constructs the object. Inputs go through c.In / c.InMsg.
	New func(c *Call) any
	// Use: primitive calls / functions (each element is ONE library call: one event).
	Use []func(c *Call, o any)
	// Acc: accessors returning byte slices (each element one event).
	Acc []func(c *Call, o any)
	// Obs: observable value of the object, component -> string (deterministic).
	Obs func(o any) map[string]string
}

const nLayouts = 5

var targets []*Target

func register(t ...*Target) { targets = append(targets, t...) }

type regMeta struct {
	reg   Region
	role  string
	step  int
	site  string
	arg   string
	count int
}

type Scenario struct {
	t      *Target
	layout int
	w      *vt.Writer
	rng    *rand.Rand
	regs   []*regMeta
	obj    any
	step   int
	opsHit map[string]bool
	failed bool // a call returned an error or panicked
}

// Call is one library call in progress.
type Call struct {
	sc    *Scenario
	kind  string
	site  string
	ops   []string
	idx   []int // regions created by this call
	pre   []Val
	err   error
	frame *Frame // layouts 3, 4: the frame the inputs of this call are cut from
}

// Site names the call for violation signatures: <package>.<Func>.  A call chain (e.g. NewPublicKey then
// NewPrivateKeyFromPublicKey) names each function before passing it its inputs: a region is attributed to
// the site current when it was created; the event carries the last one.
func (c *Call) Site(s string, ops ...string) {
	c.site = s
	c.ops = append(c.ops, ops...)
}

func (c *Call) add(r Region, role, arg string) {
	c.sc.regs = append(c.sc.regs, &regMeta{reg: r, role: role, step: c.sc.step, site: c.site, arg: arg})
	c.idx = append(c.idx, len(c.sc.regs)-1)
	c.pre = append(c.pre, r.Val())
}

// In places content into a fresh caller buffer and returns the slice to hand to the library.
func (c *Call) In(arg string, content []byte) []byte {
	if c.sc.layout >= 3 {
		if c.frame == nil {
			c.frame = newFrame(c.sc.layout == 4)
			c.add(FrameRest{c.frame}, "in", "frame")
		}
		a := c.frame.carve(content)
		c.add(a, "in", arg)
		return a.Slice()
	}
	b := newBuf(content, c.sc.layout)
	c.add(b, "in", arg)
	return b.Slice()
}

// ReadBuf returns a caller buffer of n bytes for the library to fill (see FillBuf).
func (c *Call) ReadBuf(arg string, n int) []byte {
	b := newBuf(make([]byte, n), c.sc.layout)
	c.add(FillBuf{b}, "in", arg)
	return b.Slice()
}

// InMsg re-homes the bytes fields of a message the caller hands to the library.
func (c *Call) InMsg(arg string, m proto.Message) {
	c.add(rehome(m, c.sc.layout), "in", arg)
}

// Out registers a returned slice (nil allowed).
func (c *Call) Out(arg string, b []byte) { c.add(&Ret{b: b}, "out", arg) }

// OutMsg registers a returned message.
func (c *Call) OutMsg(arg string, m proto.Message) { c.add(&Msg{m: m}, "out", arg) }

// Check records an unexpected error of the library call (the schedule goes on; see main).
func (c *Call) Check(err error) bool {
	if err != nil && c.err == nil {
		c.err = err
	}
	return err == nil
}

// Rand returns n pseudo-random bytes (scenario stream).
func (c *Call) Rand(n int) []byte { return vt.Bytes(c.sc.rng, n) }

func (sc *Scenario) obs() map[string]string {
	m := map[string]string{"none": "-"}
	if sc.t.Obs != nil && sc.obj != nil {
		panicked, v := vt.Try(func() {
			for k, x := range sc.t.Obs(sc.obj) {
				m[k] = x
			}
		})
		if panicked {
			m["panic"] = fmt.Sprint(v)
		}
	}
	return m
}

func (sc *Scenario) vals() []Val {
	vs := make([]Val, len(sc.regs))
	for i, r := range sc.regs {
		vs[i] = r.reg.Val()
	}
	return vs
}

// curCall is the library call in progress (caller-side callbacks register what they are handed).
var curCall *Call

// call runs one library call and emits its event.
func (sc *Scenario) call(kind string, f func(c *Call)) {
	c := &Call{sc: sc, kind: kind, site: "-", ops: []string{}}
	curCall = c
	panicked, pv := vt.Try(func() { f(c) })
	curCall = nil
	type newReg struct {
		Role string `json:"role"`
		Arg  string `json:"arg"`
		Val  Val    `json:"val"`
	}
	news := []newReg{}
	// the model lists the inputs of a call before its results: reorder this call's regions accordingly
	if len(c.idx) > 0 {
		base := c.idx[0]
		var ins, outs []*regMeta
		var pin, pout []Val
		for k, i := range c.idx {
			if sc.regs[i].role == "in" {
				ins, pin = append(ins, sc.regs[i]), append(pin, c.pre[k])
			} else {
				outs, pout = append(outs, sc.regs[i]), append(pout, c.pre[k])
			}
		}
		copy(sc.regs[base:], append(ins, outs...))
		c.pre = append(pin, pout...)
	}
	for k, i := range c.idx {
		r := sc.regs[i]
		if r.site == "-" { // created before the call named its site
			r.site = c.site
		}
		v := c.pre[k] // inputs: what the caller put in before the call; results: as returned
		if x, ok := r.reg.(interface{ ExpectedPre() Val }); ok {
			v = x.ExpectedPre()
		}
		news = append(news, newReg{r.role, r.arg, v})
	}
	alias := [][2]int{}
	for _, i := range c.idx {
		if sc.regs[i].role != "out" {
			continue
		}
		for j := range sc.regs {
			if j != i && overlap(sc.regs[i].reg, sc.regs[j].reg) {
				alias = append(alias, [2]int{i + 1, j + 1})
			}
		}
	}
	errs := ""
	if c.err != nil {
		errs = c.err.Error()
		sc.failed = true
	}
	if panicked {
		errs = fmt.Sprint(pv)
		sc.failed = true
	}
	for _, o := range c.ops {
		sc.opsHit[o] = true
	}
	sc.w.Emit(vt.Ev{"ev": "call", "k": kind, "step": sc.step, "site": c.site, "ops": c.ops, "err": c.err != nil,
		"panic": panicked, "msg": errs, "new": news, "regs": sc.vals(), "alias": alias, "obs": sc.obs()})
}

type pStep struct {
	K    string `json:"k"`
	G    int    `json:"g"`
	Role string `json:"role"`
}

type scenarioSpec struct {
	Target string  `json:"target"`
	Layout int     `json:"layout"`
	Steps  []pStep `json:"steps"`
	Seed   int64   `json:"seed"`
	Rot    int     `json:"rot"`
}

func runScenario(w *vt.Writer, t *Target, sp scenarioSpec, hit map[string]bool) {
	sc := &Scenario{t: t, layout: sp.Layout, w: w, rng: rand.New(rand.NewSource(sp.Seed)), opsHit: hit}
	w.Emit(vt.Ev{"ev": "reset", "scenario": sp})
	for k, st := range sp.Steps {
		sc.step = k + 1
		switch st.K {
		case "new":
			sc.call("new", func(c *Call) {
				if t.New != nil {
					sc.obj = t.New(c)
				} else {
					sc.obj = struct{}{}
				}
			})
		case "use":
			// the calls of a step start at a different one in different scenarios, so that a finding at one
			// call site (the rest of a scenario is not judged after a mismatch) never hides another site
			for x := range t.Use {
				u := t.Use[(x+sp.Rot+k)%len(t.Use)]
				sc.call("use", func(c *Call) { u(c, sc.obj) })
			}
		case "acc":
			for x := range t.Acc {
				a := t.Acc[(x+sp.Rot+k)%len(t.Acc)]
				sc.call("acc", func(c *Call) { a(c, sc.obj) })
			}
		case "scr":
			var grp []int
			for i, r := range sc.regs {
				if r.step == st.G && r.role == st.Role {
					grp = append(grp, i)
				}
			}
			// one event per region, starting at a different member of the group in different
			// scenarios, so that every region gets to be the first one overwritten
			for x := range grp {
				i := grp[(x+sp.Rot)%len(grp)]
				r := sc.regs[i]
				r.count++
				if !r.reg.Scribble(r.count) {
					continue
				}
				w.Emit(vt.Ev{"ev": "scr", "step": sc.step, "R": []int{i + 1}, "site": r.site, "arg": r.arg, "role": r.role,
					"panic": false, "regs": sc.vals(), "obs": sc.obs()})
			}
		default:
			vt.Fatal("unknown step kind %q", st.K)
		}
	}
}

// shape probes a target once: how many regions do constructor, uses and accessors exchange?
func shape(t *Target) (ci, ui, uo, ao int, ops []string, sites []string) {
	tmp, err := os.CreateTemp("", "c19-probe-*.ndjson")
	if err != nil {
		vt.Fatal("%v", err)
	}
	defer os.Remove(tmp.Name())
	tmp.Close()
	w := vt.NewWriter(tmp.Name())
	hit := map[string]bool{}
	sc := &Scenario{t: t, layout: 0, w: w, rng: rand.New(rand.NewSource(1)), opsHit: hit}
	siteSet := map[string]bool{}
	count := func(from int) (in, out int) {
		for _, r := range sc.regs[from:] {
			siteSet[r.site] = true
			if r.role == "in" {
				in++
			} else {
				out++
			}
		}
		return
	}
	sc.step = 1
	sc.call("new", func(c *Call) {
		if t.New != nil {
			sc.obj = t.New(c)
		} else {
			sc.obj = struct{}{}
		}
	})
	var co int
	ci, co = count(0)
	if co != 0 {
		vt.Fatal("target %s: constructor step returns byte slices; model it as a use", t.Name)
	}
	n := len(sc.regs)
	sc.step = 2
	for _, u := range t.Use {
		sc.call("use", func(c *Call) { u(c, sc.obj) })
	}
	ui, uo = count(n)
	n = len(sc.regs)
	sc.step = 3
	for _, a := range t.Acc {
		sc.call("acc", func(c *Call) { a(c, sc.obj) })
	}
	var ai int
	ai, ao = count(n)
	if ai != 0 {
		vt.Fatal("target %s: accessor step takes byte slices; model it as a use", t.Name)
	}
	w.Close()
	if sc.failed {
		vt.Fatal("target %s: a call failed while probing (see %s)", t.Name, tmp.Name())
	}
	for o := range hit {
		ops = append(ops, o)
	}
	sort.Strings(ops)
	for s := range siteSet {
		sites = append(sites, s)
	}
	sort.Strings(sites)
	return
}

func bit(n int) int {
	if n > 0 {
		return 1
	}
	return 0
}

func main() {
	list := flag.Bool("list", false, "print the target table (name, shape, operations) as ndjson")
	plan := flag.String("plan", "", "schedules written by TLC: ndjson {shape:\"ci,ui,uo,ao\", steps:[...]}")
	out := flag.String("out", "", "trace file")
	only := flag.String("targets", "", "regexp selecting targets")
	replay := flag.String("replay", "", "scenario file (json) to re-execute")
	max0 := flag.Int("max0", 0, "max schedules per (target, layout) for cost class 0 (0 = all)")
	max1 := flag.Int("max1", 0, "... cost class 1")
	max2 := flag.Int("max2", 0, "... cost class 2")
	cover := flag.String("cover", "", "write the operations actually executed here")
	part := flag.Int("part", 0, "this process handles targets with index = part (mod of)")
	of := flag.Int("of", 1, "number of parallel driver processes")
	flag.Parse()
	sort.Slice(targets, func(i, j int) bool { return targets[i].Name < targets[j].Name })
	byName := map[string]*Target{}
	for _, t := range targets {
		if byName[t.Name] != nil {
			vt.Fatal("duplicate target %s", t.Name)
		}
		byName[t.Name] = t
	}
	var re *regexp.Regexp
	if *only != "" {
		re = regexp.MustCompile(*only)
	}
	if *list {
		enc := json.NewEncoder(os.Stdout)
		for _, t := range targets {
			if re != nil && !re.MatchString(t.Name) {
				continue
			}
			ci, ui, uo, ao, ops, sites := shape(t)
			enc.Encode(map[string]any{"target": t.Name, "shape": []int{ci, ui, uo, ao}, "ops": ops, "sites": sites, "cost": t.Cost})
		}
		return
	}
	if *out == "" {
		vt.Fatal("-out required")
	}
	w := vt.NewWriter(*out)
	hit := map[string]bool{}
	if *replay != "" {
		raw, err := os.ReadFile(*replay)
		if err != nil {
			vt.Fatal("%v", err)
		}
		var obj struct {
			Scenario scenarioSpec `json:"scenario"`
		}
		if err := json.Unmarshal(raw, &obj); err != nil {
			vt.Fatal("replay file: %v", err)
		}
		t := byName[obj.Scenario.Target]
		if t == nil {
			vt.Fatal("replay: unknown target %q", obj.Scenario.Target)
		}
		runScenario(w, t, obj.Scenario, hit)
		w.Close()
		return
	}
	// plan: schedules per shape class
	raw, err := os.ReadFile(*plan)
	if err != nil {
		vt.Fatal("%v", err)
	}
	scheds := map[string][][]pStep{}
	for _, ln := range strings.Split(string(raw), "\n") {
		if strings.TrimSpace(ln) == "" {
			continue
		}
		var p struct {
			Shape string  `json:"shape"`
			Steps []pStep `json:"steps"`
		}
		if err := json.Unmarshal([]byte(ln), &p); err != nil {
			vt.Fatal("plan line: %v", err)
		}
		scheds[p.Shape] = append(scheds[p.Shape], p.Steps)
	}
	maxes := []int{*max0, *max1, *max2}
	nsc := 0
	stats := map[string]int{}
	for ti, t := range targets {
		if re != nil && !re.MatchString(t.Name) {
			continue
		}
		if ti%*of != *part {
			continue
		}
		ci, ui, uo, ao, _, _ := shape(t)
		key := fmt.Sprintf("%d,%d,%d,%d", bit(ci), bit(ui), bit(uo), bit(ao))
		ss := scheds[key]
		if len(ss) == 0 {
			vt.Fatal("no schedules for shape %s (target %s)", key, t.Name)
		}
		// Every schedule runs in one of the five buffer layouts, rotating (the layouts differ only in what a
		// call can reach behind an input; what a scribble reveals does not depend on them); a target with fewer
		// than five schedules runs each of them in all five.  Expensive targets run a seeded sample.
		pick := make([]int, len(ss))
		for i := range pick {
			pick[i] = i
		}
		if m := 2 * maxes[t.Cost]; m > 0 && len(ss) > m {
			r := vt.Rng(int64(ti))
			r.Shuffle(len(pick), func(i, j int) { pick[i], pick[j] = pick[j], pick[i] })
			pick = pick[:m]
			sort.Ints(pick)
		}
		for k, si := range pick {
			layouts := []int{(k + ti + int(vt.Seed())) % nLayouts}
			if len(pick) < nLayouts {
				layouts = []int{0, 1, 2, 3, 4}
			}
			for _, layout := range layouts {
				sp := scenarioSpec{Target: t.Name, Layout: layout, Steps: ss[si], Seed: vt.Seed()*1000003 + int64(ti)*100000 + int64(nsc), Rot: si + layout}
				runScenario(w, t, sp, hit)
				nsc++
				stats[t.Name]++
			}
		}
	}
	w.Close()
	if *cover != "" {
		var ops []string
		for o := range hit {
			ops = append(ops, o)
		}
		sort.Strings(ops)
		os.WriteFile(*cover, []byte(strings.Join(ops, "\n")+"\n"), 0o644)
	}
	fmt.Printf("scenarios=%d events=%d targets=%d\n", nsc, w.Count(), len(stats))
}
