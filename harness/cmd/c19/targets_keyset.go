package main

import (
	"bytes"
	"context"
	"fmt"

	"github.com/tink-crypto/tink-go/v2/aead"
	"github.com/tink-crypto/tink-go/v2/core/cryptofmt"
	"github.com/tink-crypto/tink-go/v2/core/registry"
	"github.com/tink-crypto/tink-go/v2/hybrid"
	"github.com/tink-crypto/tink-go/v2/hybrid/ecies"
	"github.com/tink-crypto/tink-go/v2/insecurecleartextkeyset"
	"github.com/tink-crypto/tink-go/v2/jwt"
	"github.com/tink-crypto/tink-go/v2/keyderivation"
	"github.com/tink-crypto/tink-go/v2/keyset"
	"github.com/tink-crypto/tink-go/v2/mac"
	"github.com/tink-crypto/tink-go/v2/prf"
	tinkpb "github.com/tink-crypto/tink-go/v2/proto/tink_go_proto"
	"github.com/tink-crypto/tink-go/v2/secretdata"
	"github.com/tink-crypto/tink-go/v2/signature"
	"github.com/tink-crypto/tink-go/v2/signature/mldsa"
	"github.com/tink-crypto/tink-go/v2/signprehash"
	"github.com/tink-crypto/tink-go/v2/testing/fakekms"
	"github.com/tink-crypto/tink-go/v2/tink"
	"google.golang.org/protobuf/proto"
)

// handleObject: a keyset handle under test.
type handleObject struct {
	h      *keyset.Handle
	kind   string
	twin   *keyset.Handle
	before Probe
}

func newHandleObject(h *keyset.Handle, kind string, twin *keyset.Handle) *handleObject {
	return &handleObject{h: h, kind: kind, twin: twin, before: primitiveProbe(kind, h, twin)}
}

func obsHandle(x any) map[string]string {
	o := x.(*handleObject)
	return map[string]string{"keyset": ksDigest(o.h), "info": msgDigest(o.h.KeysetInfo()), "before": o.before(), "after": primitiveProbe(o.kind, o.h, o.twin)()}
}

func accKeysetMaterial(c *Call, o any) {
	c.Site("insecurecleartextkeyset.KeysetMaterial", "insecurecleartextkeyset.KeysetMaterial")
	c.OutMsg("keyset", insecurecleartextkeyset.KeysetMaterial(o.(*handleObject).h))
}

func cloneKs(ks *tinkpb.Keyset) *tinkpb.Keyset { return proto.Clone(ks).(*tinkpb.Keyset) }

func init() {
	// ---------------- secretdata
	{
		raw := []byte("secret bytes for c19, 29 long")
		type sdObj struct{ b, pristine secretdata.Bytes }
		register(&Target{Name: "secretdata.Bytes",
			New: func(c *Call) any {
				c.Site("secretdata.NewBytesFromData", "secretdata.NewBytesFromData")
				return &sdObj{b: secretdata.NewBytesFromData(c.In("data", raw), tok), pristine: secretdata.NewBytesFromData(clone(raw), tok)}
			},
			Acc: []func(c *Call, o any){func(c *Call, o any) {
				c.Site("secretdata.(Bytes).Data", "secretdata.(Bytes).Data")
				c.Out("data", o.(*sdObj).b.Data(tok))
			}},
			Obs: func(x any) map[string]string {
				o := x.(*sdObj)
				return map[string]string{"data": enc(o.b.Data(tok)), "equal": boolStr(o.b.Equal(o.pristine)), "equalRev": boolStr(o.pristine.Equal(o.b))}
			}})
		register(&Target{Name: "secretdata.NewBytesFromRand",
			New: func(c *Call) any {
				c.Site("secretdata.NewBytesFromRand", "secretdata.NewBytesFromRand", "secretdata.(Bytes).Equal")
				b, err := secretdata.NewBytesFromRand(24)
				c.Check(err)
				return &sdObj{b: b, pristine: secretdata.NewBytesFromData(b.Data(tok), tok)}
			},
			Acc: []func(c *Call, o any){func(c *Call, o any) {
				c.Site("secretdata.(Bytes).Data", "secretdata.(Bytes).Data")
				c.Out("data", o.(*sdObj).b.Data(tok))
			}},
			Obs: func(x any) map[string]string {
				o := x.(*sdObj)
				return map[string]string{"data": enc(o.b.Data(tok)), "equal": boolStr(o.b.Equal(o.pristine))}
			}})
	}
	// ---------------- keyset protos in, handles out
	multi := func() *tinkpb.Keyset { // several keys, one of a type Tink has no key class for
		ks := materialOf(mac.HMACSHA256Tag128KeyTemplate())
		ks.Key = append(ks.Key, withPrefix(materialOf(mac.AESCMACTag128KeyTemplate()), tinkpb.OutputPrefixType_LEGACY).Key[0])
		u := customKeyset(legacyMACTypeURL, []byte("0123456789abcdef0123456789abcdef"), tinkpb.KeyData_SYMMETRIC, 77).Key[0]
		ks.Key = append(ks.Key, u)
		ks.Key[1].KeyId, ks.Key[2].KeyId = ks.Key[0].KeyId+1, ks.Key[0].KeyId+2
		return ks
	}()
	multiUnknownPrimary := func() *tinkpb.Keyset {
		ks := cloneKs(multi)
		ks.PrimaryKeyId = ks.Key[2].KeyId
		return ks
	}()
	for name, ks := range map[string]*tinkpb.Keyset{"known-primary": multi, "unknown-type-primary": multiUnknownPrimary} {
		twin := must(insecurecleartextkeyset.Read(&keyset.MemReaderWriter{Keyset: cloneKs(ks)}))
		register(&Target{Name: "insecurecleartextkeyset.Read/MemReaderWriter/" + name, Obs: obsHandle,
			New: func(c *Call) any {
				c.Site("insecurecleartextkeyset.Read", "insecurecleartextkeyset.Read", "keyset.(MemReaderWriter).Read", "keyset.MemReaderWriter.Keyset", "keyset.(Reader).Read")
				in := cloneKs(ks)
				c.InMsg("keyset", in)
				h, err := insecurecleartextkeyset.Read(&keyset.MemReaderWriter{Keyset: in})
				if !c.Check(err) {
					return nil
				}
				return newHandleObject(h, "mac", twin)
			},
			Acc: []func(c *Call, o any){accKeysetMaterial,
				func(c *Call, o any) {
					c.Site("insecurecleartextkeyset.Write", "insecurecleartextkeyset.Write", "keyset.(MemReaderWriter).Write", "keyset.(Writer).Write")
					m := &keyset.MemReaderWriter{}
					c.Check(insecurecleartextkeyset.Write(o.(*handleObject).h, m))
					c.OutMsg("keyset", m.Keyset)
				}}})
		register(&Target{Name: "insecurecleartextkeyset.KeysetHandle/" + name, Obs: obsHandle,
			New: func(c *Call) any {
				c.Site("insecurecleartextkeyset.KeysetHandle", "insecurecleartextkeyset.KeysetHandle")
				in := cloneKs(ks)
				c.InMsg("keyset", in)
				h := insecurecleartextkeyset.KeysetHandle(in)
				if h == nil {
					c.Check(fmt.Errorf("nil handle"))
					return nil
				}
				return newHandleObject(h, "mac", twin)
			},
			Acc: []func(c *Call, o any){accKeysetMaterial}})
	}
	{ // JSON reader / writer over caller buffers
		var buf bytes.Buffer
		hm := must(insecurecleartextkeyset.Read(&keyset.MemReaderWriter{Keyset: cloneKs(multi)}))
		must(0, insecurecleartextkeyset.Write(hm, keyset.NewJSONWriter(&buf)))
		js := buf.Bytes()
		register(&Target{Name: "insecurecleartextkeyset.Read/JSONReader", Obs: obsHandle,
			New: func(c *Call) any {
				c.Site("insecurecleartextkeyset.Read[JSON]", "insecurecleartextkeyset.Read", "keyset.(JSONReader).Read", "keyset.(Reader).Read")
				h, err := insecurecleartextkeyset.Read(keyset.NewJSONReader(bytes.NewReader(c.In("json", js))))
				if !c.Check(err) {
					return nil
				}
				return newHandleObject(h, "mac", hm)
			},
			Acc: []func(c *Call, o any){accKeysetMaterial},
			Use: []func(c *Call, o any){
				func(c *Call, o any) { // the writers take a keyset proto from the caller
					c.Site("keyset.(JSONWriter).Write", "keyset.(JSONWriter).Write", "keyset.(Writer).Write")
					in := cloneKs(multi)
					c.InMsg("keyset", in)
					var b bytes.Buffer
					c.Check(keyset.NewJSONWriter(&b).Write(in))
				},
				func(c *Call, o any) {
					c.Site("keyset.(BinaryWriter).Write", "keyset.(BinaryWriter).Write", "keyset.(Writer).Write")
					in := cloneKs(multi)
					c.InMsg("keyset", in)
					var b bytes.Buffer
					c.Check(keyset.NewBinaryWriter(&b).Write(in))
				},
				func(c *Call, o any) {
					c.Site("keyset.(JSONWriter).WriteEncrypted", "keyset.(JSONWriter).WriteEncrypted", "keyset.(Writer).WriteEncrypted")
					in := &tinkpb.EncryptedKeyset{EncryptedKeyset: c.Rand(40), KeysetInfo: hm.KeysetInfo()}
					c.InMsg("encryptedKeyset", in)
					var b bytes.Buffer
					c.Check(keyset.NewJSONWriter(&b).WriteEncrypted(in))
				},
				func(c *Call, o any) {
					c.Site("keyset.(BinaryWriter).WriteEncrypted", "keyset.(BinaryWriter).WriteEncrypted", "keyset.(Writer).WriteEncrypted")
					in := &tinkpb.EncryptedKeyset{EncryptedKeyset: c.Rand(40), KeysetInfo: hm.KeysetInfo()}
					c.InMsg("encryptedKeyset", in)
					var b bytes.Buffer
					c.Check(keyset.NewBinaryWriter(&b).WriteEncrypted(in))
				},
				func(c *Call, o any) {
					c.Site("keyset.Validate", "keyset.Validate")
					in := cloneKs(multi)
					c.InMsg("keyset", in)
					c.Check(keyset.Validate(in))
				},
				func(c *Call, o any) {
					c.Site("core/cryptofmt.OutputPrefix", "core/cryptofmt.OutputPrefix")
					in := cloneKs(multi).Key[1]
					c.InMsg("key", in)
					_, err := cryptofmt.OutputPrefix(in)
					c.Check(err)
				},
			}})
	}
	{ // public keysets: NewHandleWithNoSecrets
		priv := newHandle(signature.ECDSAP256KeyTemplate())
		pubKs := insecurecleartextkeyset.KeysetMaterial(must(priv.Public()))
		unk := customKeyset("type.googleapis.com/verif.c19.LegacySignPub", []byte("opaque public key bytes"), tinkpb.KeyData_ASYMMETRIC_PUBLIC, 99).Key[0]
		withUnknown := cloneKs(pubKs)
		withUnknown.Key = append(withUnknown.Key, unk)
		for name, ks := range map[string]*tinkpb.Keyset{"ECDSA": pubKs, "ECDSA+unknown-type": withUnknown} {
			register(&Target{Name: "keyset.NewHandleWithNoSecrets/" + name, Obs: obsHandle,
				New: func(c *Call) any {
					c.Site("keyset.NewHandleWithNoSecrets", "keyset.NewHandleWithNoSecrets")
					in := cloneKs(ks)
					c.InMsg("keyset", in)
					h, err := keyset.NewHandleWithNoSecrets(in)
					if !c.Check(err) {
						return nil
					}
					return newHandleObject(h, "verifier", priv)
				},
				Acc: []func(c *Call, o any){accKeysetMaterial}})
		}
	}
	{ // encrypted keysets: associated data and the encrypted blob are caller buffers
		uri := must(fakekms.NewKeyURI())
		master := must(fakekms.NewAEAD(uri))
		masterCtx := must(fakekms.NewAEADWithContext(uri))
		hm := must(insecurecleartextkeyset.Read(&keyset.MemReaderWriter{Keyset: cloneKs(multi)}))
		aad := []byte("keyset associated data")
		var encBin, encJSON bytes.Buffer
		must(0, hm.WriteWithAssociatedData(keyset.NewBinaryWriter(&encBin), master, clone(aad)))
		must(0, hm.WriteWithAssociatedData(keyset.NewJSONWriter(&encJSON), master, clone(aad)))
		encMem := &keyset.MemReaderWriter{}
		must(0, hm.WriteWithAssociatedData(encMem, master, clone(aad)))
		uses := []func(c *Call, o any){
			func(c *Call, o any) {
				c.Site("keyset.(Handle).WriteWithAssociatedData", "keyset.(Handle).WriteWithAssociatedData", "keyset.(MemReaderWriter).WriteEncrypted",
					"keyset.MemReaderWriter.EncryptedKeyset", "keyset.(Writer).WriteEncrypted")
				m := &keyset.MemReaderWriter{}
				c.Check(o.(*handleObject).h.WriteWithAssociatedData(m, master, c.In("associatedData", aad)))
				if m.EncryptedKeyset != nil {
					c.OutMsg("encryptedKeyset", m.EncryptedKeyset)
				}
			},
			func(c *Call, o any) {
				c.Site("keyset.(Handle).WriteWithContext", "keyset.(Handle).WriteWithContext", "keyset.(MemReaderWriter).WriteEncrypted", "keyset.(Writer).WriteEncrypted")
				m := &keyset.MemReaderWriter{}
				c.Check(o.(*handleObject).h.WriteWithContext(context.Background(), m, masterCtx, c.In("associatedData", aad)))
				if m.EncryptedKeyset != nil {
					c.OutMsg("encryptedKeyset", m.EncryptedKeyset)
				}
			},
		}
		register(&Target{Name: "keyset.ReadWithAssociatedData/BinaryReader", Obs: obsHandle, Use: uses, Acc: []func(c *Call, o any){accKeysetMaterial},
			New: func(c *Call) any {
				c.Site("keyset.ReadWithAssociatedData", "keyset.ReadWithAssociatedData", "keyset.(BinaryReader).ReadEncrypted", "keyset.(Reader).ReadEncrypted")
				h, err := keyset.ReadWithAssociatedData(keyset.NewBinaryReader(bytes.NewReader(c.In("encryptedKeyset", encBin.Bytes()))), master, c.In("associatedData", aad))
				if !c.Check(err) {
					return nil
				}
				return newHandleObject(h, "mac", hm)
			}})
		register(&Target{Name: "keyset.ReadWithContext/JSONReader", Obs: obsHandle, Use: uses, Acc: []func(c *Call, o any){accKeysetMaterial},
			New: func(c *Call) any {
				c.Site("keyset.ReadWithContext", "keyset.ReadWithContext", "keyset.(JSONReader).ReadEncrypted", "keyset.(Reader).ReadEncrypted")
				h, err := keyset.ReadWithContext(context.Background(), keyset.NewJSONReader(bytes.NewReader(c.In("encryptedKeyset", encJSON.Bytes()))), masterCtx,
					c.In("associatedData", aad))
				if !c.Check(err) {
					return nil
				}
				return newHandleObject(h, "mac", hm)
			}})
		register(&Target{Name: "keyset.ReadWithAssociatedData/MemReaderWriter", Obs: obsHandle, Use: uses, Acc: []func(c *Call, o any){accKeysetMaterial},
			New: func(c *Call) any {
				c.Site("keyset.ReadWithAssociatedData", "keyset.ReadWithAssociatedData", "keyset.(MemReaderWriter).ReadEncrypted", "keyset.(Reader).ReadEncrypted")
				in := proto.Clone(encMem.EncryptedKeyset).(*tinkpb.EncryptedKeyset)
				c.InMsg("encryptedKeyset", in)
				h, err := keyset.ReadWithAssociatedData(&keyset.MemReaderWriter{EncryptedKeyset: in}, master, c.In("associatedData", aad))
				if !c.Check(err) {
					return nil
				}
				return newHandleObject(h, "mac", hm)
			}})
	}
	{ // key templates handed to the library
		register(&Target{Name: "keyset.NewHandle", Obs: func(x any) map[string]string { return map[string]string{"keyset": ksDigest(x.(*keyset.Handle))} },
			New: func(c *Call) any {
				c.Site("keyset.NewHandle", "keyset.NewHandle")
				t := mac.HMACSHA256Tag128KeyTemplate()
				c.InMsg("template", t)
				h, err := keyset.NewHandle(t)
				c.Check(err)
				return h
			},
			Use: []func(c *Call, o any){
				func(c *Call, o any) {
					c.Site("keyset.(Manager).Add", "keyset.(Manager).Add")
					t := aead.AES128CTRHMACSHA256KeyTemplate()
					c.InMsg("template", t)
					_, err := keyset.NewManagerFromHandle(o.(*keyset.Handle)).Add(t)
					c.Check(err)
				},
				func(c *Call, o any) {
					c.Site("core/registry.NewKeyData", "core/registry.NewKeyData")
					t := aead.AES128GCMKeyTemplate()
					c.InMsg("template", t)
					kd, err := registry.NewKeyData(t)
					if c.Check(err) {
						c.OutMsg("keyData", kd)
					}
				},
				func(c *Call, o any) {
					c.Site("core/registry.NewKey", "core/registry.NewKey")
					t := mac.HMACSHA256Tag128KeyTemplate()
					c.InMsg("template", t)
					k, err := registry.NewKey(t)
					if c.Check(err) {
						c.OutMsg("key", k)
					}
				},
				func(c *Call, o any) {
					c.Site("aead.KMSEnvelopeAEADKeyTemplate", "aead.KMSEnvelopeAEADKeyTemplate")
					t := aead.AES128GCMKeyTemplate()
					c.InMsg("dekTemplate", t)
					c.OutMsg("template", aead.KMSEnvelopeAEADKeyTemplate("fake-kms://x", t))
				},
				func(c *Call, o any) {
					c.Site("aead.CreateKMSEnvelopeAEADKeyTemplate", "aead.CreateKMSEnvelopeAEADKeyTemplate")
					t := aead.AES256GCMKeyTemplate()
					c.InMsg("dekTemplate", t)
					r, err := aead.CreateKMSEnvelopeAEADKeyTemplate("fake-kms://x", t)
					if c.Check(err) {
						c.OutMsg("template", r)
					}
				},
				func(c *Call, o any) {
					c.Site("keyderivation.CreatePRFBasedKeyTemplate", "keyderivation.CreatePRFBasedKeyTemplate")
					a, b := prf.HKDFSHA256PRFKeyTemplate(), aead.AES128GCMKeyTemplate()
					c.InMsg("prfKeyTemplate", a)
					c.InMsg("derivedKeyTemplate", b)
					r, err := keyderivation.CreatePRFBasedKeyTemplate(a, b)
					if c.Check(err) {
						c.OutMsg("template", r)
					}
				},
			}})
	}
	{ // KMS envelope AEAD constructed directly
		uri := must(fakekms.NewKeyURI())
		kek := must(fakekms.NewAEAD(uri))
		kekCtx := must(fakekms.NewAEADWithContext(uri))
		register(&Target{Name: "aead.KMSEnvelopeAEAD", Obs: obsDirect,
			New: func(c *Call) any {
				c.Site("aead.NewKMSEnvelopeAEAD2", "aead.NewKMSEnvelopeAEAD2")
				t := aead.AES128GCMKeyTemplate()
				c.InMsg("dekTemplate", t)
				p := aead.NewKMSEnvelopeAEAD2(t, kek)
				peer := aead.NewKMSEnvelopeAEAD2(aead.AES128GCMKeyTemplate(), kek)
				return &directObject{p: p, twin: peer, probe: directProbe("aead", p, peer)}
			},
			Use: primitiveUses("aead", "aead.KMSEnvelopeAEAD", "aead.(KMSEnvelopeAEAD)", func(o any) any { return o.(*directObject).p },
				func(o any) any { return o.(*directObject).twin })})
		type ctxObj struct {
			p, peer *aead.KMSEnvelopeAEADWithContext
		}
		bg := context.Background()
		register(&Target{Name: "aead.KMSEnvelopeAEADWithContext",
			New: func(c *Call) any {
				c.Site("aead.NewKMSEnvelopeAEADWithContext", "aead.NewKMSEnvelopeAEADWithContext")
				t := aead.AES128GCMKeyTemplate()
				c.InMsg("dekTemplate", t)
				p, err := aead.NewKMSEnvelopeAEADWithContext(t, kekCtx)
				if !c.Check(err) {
					return nil
				}
				return &ctxObj{p: p, peer: must(aead.NewKMSEnvelopeAEADWithContext(aead.AES128GCMKeyTemplate(), kekCtx))}
			},
			Use: []func(c *Call, o any){
				func(c *Call, o any) {
					c.Site("aead.(KMSEnvelopeAEADWithContext).EncryptWithContext", "aead.(KMSEnvelopeAEADWithContext).EncryptWithContext", "tink.(AEADWithContext).EncryptWithContext")
					ct, err := o.(*ctxObj).p.EncryptWithContext(bg, c.In("plaintext", c.Rand(21)), c.In("associatedData", c.Rand(5)))
					c.Check(err)
					c.Out("ciphertext", ct)
				},
				func(c *Call, o any) {
					c.Site("aead.(KMSEnvelopeAEADWithContext).DecryptWithContext", "aead.(KMSEnvelopeAEADWithContext).DecryptWithContext", "tink.(AEADWithContext).DecryptWithContext")
					aad := c.Rand(7)
					ct := must(o.(*ctxObj).peer.EncryptWithContext(bg, c.Rand(33), aad))
					pt, err := o.(*ctxObj).p.DecryptWithContext(bg, c.In("ciphertext", ct), c.In("associatedData", aad))
					c.Check(err)
					c.Out("plaintext", pt)
				},
			},
			Obs: func(x any) map[string]string {
				o := x.(*ctxObj)
				ct, err := o.p.EncryptWithContext(bg, probeMsg(), probeAAD())
				if err != nil {
					return map[string]string{"behaviour": "ERR-enc"}
				}
				return map[string]string{"behaviour": res(o.peer.DecryptWithContext(bg, ct, probeAAD()))}
			}})
	}
	{ // ECIES parameters carry a salt (options struct field)
		dem := primaryKey(newHandle(hybrid.ECIESHKDFAES128GCMKeyTemplate())).Parameters().(*ecies.Parameters).DEMParameters()
		mk := func(salt []byte) (*ecies.Parameters, error) {
			return ecies.NewParameters(ecies.ParametersOpts{CurveType: ecies.NISTP256, HashType: ecies.SHA256, NISTCurvePointFormat: ecies.UncompressedPointFormat,
				DEMParameters: dem, Salt: salt, Variant: ecies.VariantTink})
		}
		salt := []byte("c19 ecies parameters salt")
		type pobj struct{ p, pristine *ecies.Parameters }
		register(&Target{Name: "hybrid/ecies.Parameters",
			New: func(c *Call) any {
				c.Site("hybrid/ecies.NewParameters", "hybrid/ecies.ParametersOpts.Salt")
				p, err := mk(c.In("Salt", salt))
				if !c.Check(err) {
					return nil
				}
				return &pobj{p: p, pristine: must(mk(clone(salt)))}
			},
			Acc: []func(c *Call, o any){func(c *Call, o any) {
				c.Site("hybrid/ecies.(Parameters).Salt", "hybrid/ecies.(Parameters).Salt")
				c.Out("salt", o.(*pobj).p.Salt())
			}},
			Obs: func(x any) map[string]string {
				o := x.(*pobj)
				return map[string]string{"equal": boolStr(o.p.Equal(o.pristine)), "equalRev": boolStr(o.pristine.Equal(o.p)), "salt": enc(o.p.Salt())}
			}})
	}
	{ // signing a prehash (ML-DSA)
		privKey := keyFromParams(must(mldsa.NewParameters(mldsa.MLDSA44, mldsa.VariantTink)))
		priv := must(handleOf(privKey))
		pub := must(priv.Public())
		type phObj struct {
			ph tink.Prehash
			s  tink.PrehashSigner
			v  tink.Verifier
		}
		register(&Target{Name: "signprehash/MLDSA44", Cost: 1,
			New: func(c *Call) any {
				c.Site("signprehash.NewPrehashSigner", "signprehash.NewPrehash", "signprehash.NewPrehashSigner")
				ph, err := signprehash.NewPrehash(pub)
				if !c.Check(err) {
					return nil
				}
				s, err := signprehash.NewPrehashSigner(priv)
				if !c.Check(err) {
					return nil
				}
				return &phObj{ph: ph, s: s, v: must(signature.NewVerifier(pub))}
			},
			Use: []func(c *Call, o any){
				func(c *Call, o any) {
					c.Site("signprehash.NewPrehash.ComputePrehash", "tink.(Prehash).ComputePrehash")
					b, err := o.(*phObj).ph.ComputePrehash(c.In("data", c.Rand(40)))
					c.Check(err)
					c.Out("prehash", b)
				},
				func(c *Call, o any) {
					c.Site("signprehash.NewPrehashSigner.SignPrehash", "tink.(PrehashSigner).SignPrehash")
					pre := must(o.(*phObj).ph.ComputePrehash(c.Rand(30)))
					sig, err := o.(*phObj).s.SignPrehash(c.In("prehash", pre))
					c.Check(err)
					c.Out("signature", sig)
				},
			},
			Obs: func(x any) map[string]string {
				o := x.(*phObj)
				pre, err := o.ph.ComputePrehash(probeMsg())
				if err != nil {
					return map[string]string{"prehash": "ERR"}
				}
				sig, err := o.s.SignPrehash(pre)
				if err != nil {
					return map[string]string{"prehash": enc(pre), "sig": "ERR"}
				}
				return map[string]string{"prehash": enc(pre), "sig": okStr(o.v.Verify(sig, probeMsg()))}
			}})
	}
	{ // JWT helpers that exchange byte slices
		payload := []byte(`{"iss":"c19","sub":"ownership","exp":4102444800}`)
		macH := newHandle(jwt.HS256Template())
		jm := must(jwt.NewMAC(macH))
		validator := must(jwt.NewValidator(&jwt.ValidatorOpts{ExpectedIssuer: strPtr("c19")}))
		type jobj struct {
			raw *jwt.RawJWT
			ver *jwt.VerifiedJWT
		}
		register(&Target{Name: "jwt.RawJWT",
			New: func(c *Call) any {
				c.Site("jwt.NewRawJWTFromJSON", "jwt.NewRawJWTFromJSON")
				raw, err := jwt.NewRawJWTFromJSON(nil, c.In("jsonPayload", payload))
				if !c.Check(err) {
					return nil
				}
				compact := must(jm.ComputeMACAndEncode(must(jwt.NewRawJWTFromJSON(nil, clone(payload)))))
				return &jobj{raw: raw, ver: must(jm.VerifyMACAndDecode(compact, validator))}
			},
			Acc: []func(c *Call, o any){
				func(c *Call, o any) {
					c.Site("jwt.(RawJWT).JSONPayload", "jwt.(RawJWT).JSONPayload")
					b, err := o.(*jobj).raw.JSONPayload()
					c.Check(err)
					c.Out("payload", b)
				},
				func(c *Call, o any) {
					c.Site("jwt.(VerifiedJWT).JSONPayload", "jwt.(VerifiedJWT).JSONPayload")
					b, err := o.(*jobj).ver.JSONPayload()
					c.Check(err)
					c.Out("payload", b)
				},
			},
			Obs: func(x any) map[string]string {
				o := x.(*jobj)
				return map[string]string{"raw": res(o.raw.JSONPayload()), "verified": res(o.ver.JSONPayload())}
			}})
		pubH := must(newHandle(jwt.ES256Template()).Public())
		jwk := must(jwt.JWKSetFromPublicKeysetHandle(pubH))
		register(&Target{Name: "jwt.JWKSet",
			Obs: func(x any) map[string]string { return map[string]string{"keyset": ksDigest(x.(*keyset.Handle))} },
			New: func(c *Call) any {
				c.Site("jwt.JWKSetToPublicKeysetHandle", "jwt.JWKSetToPublicKeysetHandle")
				h, err := jwt.JWKSetToPublicKeysetHandle(c.In("jwkSet", jwk))
				c.Check(err)
				return h
			},
			Acc: []func(c *Call, o any){func(c *Call, o any) {
				c.Site("jwt.JWKSetFromPublicKeysetHandle", "jwt.JWKSetFromPublicKeysetHandle")
				b, err := jwt.JWKSetFromPublicKeysetHandle(o.(*keyset.Handle))
				c.Check(err)
				c.Out("jwkSet", b)
			}}})
	}
}

func strPtr(s string) *string { return &s }
