package main

import (
	"github.com/tink-crypto/tink-go/v2/hybrid"
	"github.com/tink-crypto/tink-go/v2/hybrid/ecies"
	"github.com/tink-crypto/tink-go/v2/hybrid/hpke"
	"github.com/tink-crypto/tink-go/v2/key"
	"github.com/tink-crypto/tink-go/v2/keyset"
	tinkpb "github.com/tink-crypto/tink-go/v2/proto/tink_go_proto"
	"github.com/tink-crypto/tink-go/v2/secretdata"
	"github.com/tink-crypto/tink-go/v2/signature"
	"github.com/tink-crypto/tink-go/v2/signature/compositemldsa"
	"github.com/tink-crypto/tink-go/v2/signature/ecdsa"
	"github.com/tink-crypto/tink-go/v2/signature/ed25519"
	"github.com/tink-crypto/tink-go/v2/signature/mldsa"
	"github.com/tink-crypto/tink-go/v2/signature/rsassapkcs1"
	"github.com/tink-crypto/tink-go/v2/signature/rsassapss"
	"github.com/tink-crypto/tink-go/v2/signature/slhdsa"
)

type privateKey interface {
	key.Key
	PublicKey() (key.Key, error)
}

// pkFamily describes a public-key key class pair by closures; pkTargets turns it into targets.
type pkFamily struct {
	pkg, variant      string
	cost              int
	privKind, pubKind string // signer/verifier or hybriddec/hybridenc
	priv0             privateKey
	pubArg, pubAcc    string // constructor argument name and accessor name of the public bytes
	getPub            func(k key.Key) []byte
	mkPub             func(b []byte) (key.Key, error)
	privArg, privAcc  string
	getPriv           func(k key.Key) secretdata.Bytes
	mkPriv            map[string]func(sd secretdata.Bytes, pub key.Key) (key.Key, error) // constructor name -> constructor
}

func pkTargets(f pkFamily) {
	pub0 := must(f.priv0.PublicKey())
	pubRaw := f.getPub(pub0)
	privRaw := f.getPriv(f.priv0).Data(tok)
	outputPrefix := func(pkgType string) func(c *Call, o any) {
		return func(c *Call, o any) {
			c.Site(f.pkg+".("+pkgType+").OutputPrefix", f.pkg+".("+pkgType+").OutputPrefix")
			c.Out("outputPrefix", o.(*keyObject).k.(prefixed).OutputPrefix())
		}
	}
	register(&Target{Name: f.pkg + ".PublicKey/" + f.variant, Cost: f.cost, Obs: obsKey,
		New: func(c *Call) any {
			c.Site(f.pkg+".NewPublicKey", f.pkg+".NewPublicKey")
			k, err := f.mkPub(c.In(f.pubArg, pubRaw))
			if !c.Check(err) {
				return nil
			}
			return newKeyObject(k, must(f.mkPub(clone(pubRaw))), f.pubKind, f.priv0)
		},
		Acc: []func(c *Call, o any){
			func(c *Call, o any) {
				c.Site(f.pkg+".(PublicKey)."+f.pubAcc, f.pkg+".(PublicKey)."+f.pubAcc)
				c.Out(f.pubArg, f.getPub(o.(*keyObject).k))
			},
			outputPrefix("PublicKey"),
		}})
	for ctor, mk := range f.mkPriv {
		register(&Target{Name: f.pkg + ".PrivateKey/" + f.variant + "/" + ctor, Cost: f.cost, Obs: obsKey,
			New: func(c *Call) any {
				c.Site(f.pkg+".NewPublicKey", f.pkg+".NewPublicKey")
				pub, err := f.mkPub(c.In(f.pubArg, pubRaw))
				if !c.Check(err) {
					return nil
				}
				c.Site(f.pkg+"."+ctor, f.pkg+"."+ctor, "secretdata.NewBytesFromData")
				k, err := mk(secretdata.NewBytesFromData(c.In(f.privArg, privRaw), tok), pub)
				if !c.Check(err) {
					return nil
				}
				return newKeyObject(k, must(mk(secretdata.NewBytesFromData(clone(privRaw), tok), must(f.mkPub(clone(pubRaw))))), f.privKind, f.priv0)
			},
			Acc: []func(c *Call, o any){
				func(c *Call, o any) {
					c.Site(f.pkg+".(PrivateKey)."+f.privAcc, f.pkg+".(PrivateKey)."+f.privAcc, "secretdata.(Bytes).Data")
					c.Out(f.privArg, f.getPriv(o.(*keyObject).k).Data(tok))
				},
				func(c *Call, o any) { // the public part reached through the private key
					c.Site(f.pkg+".(PublicKey)."+f.pubAcc, f.pkg+".(PublicKey)."+f.pubAcc)
					pk, err := o.(*keyObject).k.(privateKey).PublicKey()
					if c.Check(err) {
						c.Out(f.pubArg, f.getPub(pk))
					}
				},
				outputPrefix("PrivateKey"),
			}})
	}
}

func keyFromParams(p key.Parameters) key.Key {
	m := keyset.NewManager()
	id := must(m.AddNewKeyFromParameters(p))
	must(0, m.SetPrimary(id))
	return primaryKey(must(m.Handle()))
}

func init() {
	T, C, L, R := tinkpb.OutputPrefixType_TINK, tinkpb.OutputPrefixType_CRUNCHY, tinkpb.OutputPrefixType_LEGACY, tinkpb.OutputPrefixType_RAW
	_ = C
	// ---------------- ECDSA
	for v, t := range variantTemplates(signature.ECDSAP256KeyTemplate(), T, L, R) {
		p0 := primaryKey(newHandle(t)).(*ecdsa.PrivateKey)
		params := p0.Parameters().(*ecdsa.Parameters)
		pkTargets(pkFamily{pkg: "signature/ecdsa", variant: "P256/" + v, privKind: "signer", pubKind: "verifier", priv0: p0,
			pubArg: "publicPoint", pubAcc: "PublicPoint", getPub: func(k key.Key) []byte { return k.(*ecdsa.PublicKey).PublicPoint() },
			mkPub:   func(b []byte) (key.Key, error) { return ecdsa.NewPublicKey(b, idOf(p0), params) },
			privArg: "privateKeyValue", privAcc: "PrivateKeyValue", getPriv: func(k key.Key) secretdata.Bytes { return k.(*ecdsa.PrivateKey).PrivateKeyValue() },
			mkPriv: map[string]func(sd secretdata.Bytes, pub key.Key) (key.Key, error){
				"NewPrivateKey": func(sd secretdata.Bytes, pub key.Key) (key.Key, error) {
					return ecdsa.NewPrivateKey(sd, idOf(p0), params)
				},
				"NewPrivateKeyFromPublicKey": func(sd secretdata.Bytes, pub key.Key) (key.Key, error) {
					return ecdsa.NewPrivateKeyFromPublicKey(pub.(*ecdsa.PublicKey), sd)
				},
			}})
	}
	{
		p0 := primaryKey(newHandle(signature.ECDSAP521KeyTemplate())).(*ecdsa.PrivateKey)
		params := p0.Parameters().(*ecdsa.Parameters)
		pkTargets(pkFamily{pkg: "signature/ecdsa", variant: "P521/TINK", privKind: "signer", pubKind: "verifier", priv0: p0,
			pubArg: "publicPoint", pubAcc: "PublicPoint", getPub: func(k key.Key) []byte { return k.(*ecdsa.PublicKey).PublicPoint() },
			mkPub:   func(b []byte) (key.Key, error) { return ecdsa.NewPublicKey(b, idOf(p0), params) },
			privArg: "privateKeyValue", privAcc: "PrivateKeyValue", getPriv: func(k key.Key) secretdata.Bytes { return k.(*ecdsa.PrivateKey).PrivateKeyValue() },
			mkPriv: map[string]func(sd secretdata.Bytes, pub key.Key) (key.Key, error){
				"NewPrivateKey": func(sd secretdata.Bytes, pub key.Key) (key.Key, error) {
					return ecdsa.NewPrivateKey(sd, idOf(p0), params)
				},
			}})
	}
	// ---------------- Ed25519
	for v, t := range variantTemplates(signature.ED25519KeyTemplate(), T, L, R) {
		p0 := primaryKey(newHandle(t)).(*ed25519.PrivateKey)
		params := *p0.Parameters().(*ed25519.Parameters)
		pkTargets(pkFamily{pkg: "signature/ed25519", variant: v, privKind: "signer", pubKind: "verifier", priv0: p0,
			pubArg: "keyBytes", pubAcc: "KeyBytes", getPub: func(k key.Key) []byte { return k.(*ed25519.PublicKey).KeyBytes() },
			mkPub:   func(b []byte) (key.Key, error) { return ed25519.NewPublicKey(b, idOf(p0), params) },
			privArg: "privateKeyBytes", privAcc: "PrivateKeyBytes", getPriv: func(k key.Key) secretdata.Bytes { return k.(*ed25519.PrivateKey).PrivateKeyBytes() },
			mkPriv: map[string]func(sd secretdata.Bytes, pub key.Key) (key.Key, error){
				"NewPrivateKey": func(sd secretdata.Bytes, pub key.Key) (key.Key, error) {
					return ed25519.NewPrivateKey(sd, idOf(p0), params)
				},
				"NewPrivateKeyWithPublicKey": func(sd secretdata.Bytes, pub key.Key) (key.Key, error) {
					return ed25519.NewPrivateKeyWithPublicKey(sd, pub.(*ed25519.PublicKey))
				},
			}})
	}
	// ---------------- ML-DSA
	for _, v := range []mldsa.Variant{mldsa.VariantTink, mldsa.VariantNoPrefix} {
		params := must(mldsa.NewParameters(mldsa.MLDSA44, v))
		p0 := keyFromParams(params).(*mldsa.PrivateKey)
		pkTargets(pkFamily{pkg: "signature/mldsa", variant: "MLDSA44/" + v.String(), cost: 1, privKind: "signer", pubKind: "verifier", priv0: p0,
			pubArg: "keyBytes", pubAcc: "KeyBytes", getPub: func(k key.Key) []byte { return k.(*mldsa.PublicKey).KeyBytes() },
			mkPub:   func(b []byte) (key.Key, error) { return mldsa.NewPublicKey(b, idOf(p0), params) },
			privArg: "privateKeyBytes", privAcc: "PrivateKeyBytes", getPriv: func(k key.Key) secretdata.Bytes { return k.(*mldsa.PrivateKey).PrivateKeyBytes() },
			mkPriv: map[string]func(sd secretdata.Bytes, pub key.Key) (key.Key, error){
				"NewPrivateKey": func(sd secretdata.Bytes, pub key.Key) (key.Key, error) {
					return mldsa.NewPrivateKey(sd, idOf(p0), params)
				},
				"NewPrivateKeyWithPublicKey": func(sd secretdata.Bytes, pub key.Key) (key.Key, error) {
					return mldsa.NewPrivateKeyWithPublicKey(sd, pub.(*mldsa.PublicKey))
				},
			}})
	}
	// ---------------- SLH-DSA (fast-signing parameter set; signing still costs tens of ms)
	for _, v := range []slhdsa.Variant{slhdsa.VariantTink, slhdsa.VariantNoPrefix} {
		params := must(slhdsa.NewParameters(slhdsa.SHA2, 64, slhdsa.FastSigning, v))
		p0 := keyFromParams(params).(*slhdsa.PrivateKey)
		pkTargets(pkFamily{pkg: "signature/slhdsa", variant: "SHA2-128f/" + v.String(), cost: 2, privKind: "signer", pubKind: "verifier", priv0: p0,
			pubArg: "keyBytes", pubAcc: "KeyBytes", getPub: func(k key.Key) []byte { return k.(*slhdsa.PublicKey).KeyBytes() },
			mkPub:   func(b []byte) (key.Key, error) { return slhdsa.NewPublicKey(b, idOf(p0), params) },
			privArg: "privateKeyBytes", privAcc: "PrivateKeyBytes", getPriv: func(k key.Key) secretdata.Bytes { return k.(*slhdsa.PrivateKey).PrivateKeyBytes() },
			mkPriv: map[string]func(sd secretdata.Bytes, pub key.Key) (key.Key, error){
				"NewPrivateKey": func(sd secretdata.Bytes, pub key.Key) (key.Key, error) {
					return slhdsa.NewPrivateKey(sd, idOf(p0), params)
				},
				"NewPrivateKeyWithPublicKey": func(sd secretdata.Bytes, pub key.Key) (key.Key, error) {
					return slhdsa.NewPrivateKeyWithPublicKey(sd, pub.(*slhdsa.PublicKey))
				},
			}})
	}
	// ---------------- HPKE / ECIES
	for v, t := range variantTemplates(hybrid.DHKEM_X25519_HKDF_SHA256_HKDF_SHA256_AES_128_GCM_Key_Template(), T, R) {
		p0 := primaryKey(newHandle(t)).(*hpke.PrivateKey)
		params := p0.Parameters().(*hpke.Parameters)
		pkTargets(pkFamily{pkg: "hybrid/hpke", variant: "X25519/" + v, privKind: "hybriddec", pubKind: "hybridenc", priv0: p0,
			pubArg: "publicKeyBytes", pubAcc: "PublicKeyBytes", getPub: func(k key.Key) []byte { return k.(*hpke.PublicKey).PublicKeyBytes() },
			mkPub:   func(b []byte) (key.Key, error) { return hpke.NewPublicKey(b, idOf(p0), params) },
			privArg: "privateKeyBytes", privAcc: "PrivateKeyBytes", getPriv: func(k key.Key) secretdata.Bytes { return k.(*hpke.PrivateKey).PrivateKeyBytes() },
			mkPriv: map[string]func(sd secretdata.Bytes, pub key.Key) (key.Key, error){
				"NewPrivateKey": func(sd secretdata.Bytes, pub key.Key) (key.Key, error) {
					return hpke.NewPrivateKey(sd, idOf(p0), params)
				},
				"NewPrivateKeyFromPublicKey": func(sd secretdata.Bytes, pub key.Key) (key.Key, error) {
					return hpke.NewPrivateKeyFromPublicKey(sd, pub.(*hpke.PublicKey))
				},
			}})
	}
	{
		p0 := primaryKey(newHandle(hybrid.DHKEM_P256_HKDF_SHA256_HKDF_SHA256_AES_256_GCM_Key_Template())).(*hpke.PrivateKey)
		params := p0.Parameters().(*hpke.Parameters)
		pkTargets(pkFamily{pkg: "hybrid/hpke", variant: "P256/TINK", privKind: "hybriddec", pubKind: "hybridenc", priv0: p0,
			pubArg: "publicKeyBytes", pubAcc: "PublicKeyBytes", getPub: func(k key.Key) []byte { return k.(*hpke.PublicKey).PublicKeyBytes() },
			mkPub:   func(b []byte) (key.Key, error) { return hpke.NewPublicKey(b, idOf(p0), params) },
			privArg: "privateKeyBytes", privAcc: "PrivateKeyBytes", getPriv: func(k key.Key) secretdata.Bytes { return k.(*hpke.PrivateKey).PrivateKeyBytes() },
			mkPriv: map[string]func(sd secretdata.Bytes, pub key.Key) (key.Key, error){
				"NewPrivateKey": func(sd secretdata.Bytes, pub key.Key) (key.Key, error) {
					return hpke.NewPrivateKey(sd, idOf(p0), params)
				},
			}})
	}
	for v, t := range variantTemplates(hybrid.ECIESHKDFAES128GCMKeyTemplate(), T, C, R) {
		p0 := primaryKey(newHandle(t)).(*ecies.PrivateKey)
		params := p0.Parameters().(*ecies.Parameters)
		pkTargets(pkFamily{pkg: "hybrid/ecies", variant: "P256/" + v, privKind: "hybriddec", pubKind: "hybridenc", priv0: p0,
			pubArg: "publicKeyBytes", pubAcc: "PublicKeyBytes", getPub: func(k key.Key) []byte { return k.(*ecies.PublicKey).PublicKeyBytes() },
			mkPub:   func(b []byte) (key.Key, error) { return ecies.NewPublicKey(b, idOf(p0), params) },
			privArg: "privateKeyBytes", privAcc: "PrivateKeyBytes", getPriv: func(k key.Key) secretdata.Bytes { return k.(*ecies.PrivateKey).PrivateKeyBytes() },
			mkPriv: map[string]func(sd secretdata.Bytes, pub key.Key) (key.Key, error){
				"NewPrivateKey": func(sd secretdata.Bytes, pub key.Key) (key.Key, error) {
					return ecies.NewPrivateKey(sd, idOf(p0), params)
				},
				"NewPrivateKeyFromPublicKey": func(sd secretdata.Bytes, pub key.Key) (key.Key, error) {
					return ecies.NewPrivateKeyFromPublicKey(sd, pub.(*ecies.PublicKey))
				},
			}})
	}
	_ = rsassapkcs1.NewParameters
	_ = rsassapss.NewParameters
	_ = compositemldsa.NewParameters
}
