package main

import (
	"bytes"
	"fmt"
	"io"

	"github.com/tink-crypto/tink-go/v2/aead"
	"github.com/tink-crypto/tink-go/v2/daead"
	"github.com/tink-crypto/tink-go/v2/hybrid"
	"github.com/tink-crypto/tink-go/v2/insecurecleartextkeyset"
	"github.com/tink-crypto/tink-go/v2/keyderivation"
	"github.com/tink-crypto/tink-go/v2/keyset"
	"github.com/tink-crypto/tink-go/v2/mac"
	"github.com/tink-crypto/tink-go/v2/prf"
	tinkpb "github.com/tink-crypto/tink-go/v2/proto/tink_go_proto"
	"github.com/tink-crypto/tink-go/v2/signature"
	"github.com/tink-crypto/tink-go/v2/streamingaead"
	"github.com/tink-crypto/tink-go/v2/tink"
	"google.golang.org/protobuf/proto"
)

// ---------------------------------------------------------------------------------------------
// Primitives obtained from the keyset factories.  The object under test is (handle, primitive):
// the handle is read from a SERIALIZED KEYSET THAT LIVES IN A CALLER BUFFER (binary reader over the
// buffer), the primitive comes from the factory of its kind.  Observable value: the handle's
// keyset, the behaviour of the primitive built at construction time and of one built now.

type primObject struct {
	kind   string
	h      *keyset.Handle
	twin   *keyset.Handle // pristine counterpart (private keyset for public-key kinds)
	p      any
	peer   any // counterpart primitive made from the pristine material (prepares valid inputs only)
	before Probe
	resub  func() string
}

func (o *primObject) setResub(f func() string) { o.resub = f }

// peerOf builds the counterpart of a primitive kind from the pristine (private) handle.
func peerOf(kind string, twin *keyset.Handle) any {
	switch kind {
	case "aead":
		return must(aead.New(twin))
	case "daead":
		return must(daead.New(twin))
	case "mac":
		return must(mac.New(twin))
	case "verifier":
		return must(signature.NewSigner(twin))
	case "hybriddec":
		return must(hybrid.NewHybridEncrypt(must(twin.Public())))
	case "streaming":
		return must(streamingaead.New(twin))
	case "prf":
		return must(prf.NewPRFSet(twin))
	case "deriver":
		return must(keyderivation.New(twin))
	}
	return nil
}

// directObject: a primitive constructed directly (subtle packages, key managers); twin is the same
// primitive (or its counterpart) made from an independent copy of the key material.
type directObject struct {
	p     any
	twin  any
	probe Probe
	extra any
	resub func() string
}

func (o *directObject) setResub(f func() string) { o.resub = f }

func obsDirect(x any) map[string]string {
	o := x.(*directObject)
	return map[string]string{"behaviour": o.probe(), "resubmit": resubmit(o.resub)}
}

// Re-submission: a deterministic call remembers the caller buffers it was last given; every later
// observation hands THE SAME BUFFERS (with whatever they hold by then) to the object again and
// exact-size copies of their content to the pristine counterpart.  "true" = same answer.  An object
// that kept a reference to an earlier input (a cache keyed by the caller's slice, a retained message)
// answers for the old content and shows up when the caller overwrites that input.
func resubmit(f func() string) string {
	if f == nil {
		return "true"
	}
	return f()
}

func setResub(o any, f func() string) {
	if r, ok := o.(interface{ setResub(func() string) }); ok {
		r.setResub(f)
	}
}

func sameAnswer(a []byte, e1 error, b []byte, e2 error) string {
	return boolStr((e1 == nil) == (e2 == nil) && (e1 != nil || bytes.Equal(a, b)))
}

func obsPrim(x any) map[string]string {
	o := x.(*primObject)
	return map[string]string{
		"keyset":   ksDigest(o.h),
		"before":   o.before(),
		"after":    primitiveProbe(o.kind, o.h, o.twin)(),
		"resubmit": resubmit(o.resub),
	}
}

// twinVerifier: a verifier made from the pristine material (factory targets only).
func twinVerifier(o any) tink.Verifier {
	if p, ok := o.(*primObject); ok {
		pub, err := p.twin.Public()
		if err != nil {
			return nil
		}
		v, err := signature.NewVerifier(pub)
		if err != nil {
			return nil
		}
		return v
	}
	return nil
}

// withPrefix returns a copy of the keyset with every key's output prefix type replaced.
func withPrefix(ks *tinkpb.Keyset, pt tinkpb.OutputPrefixType) *tinkpb.Keyset {
	c := proto.Clone(ks).(*tinkpb.Keyset)
	for _, k := range c.Key {
		k.OutputPrefixType = pt
	}
	return c
}

func buildPrimitive(kind string, h *keyset.Handle) (any, error) {
	switch kind {
	case "aead":
		return aead.New(h)
	case "daead":
		return daead.New(h)
	case "mac":
		return mac.New(h)
	case "prf":
		return prf.NewPRFSet(h)
	case "signer":
		return signature.NewSigner(h)
	case "verifier":
		return signature.NewVerifier(h)
	case "hybridenc":
		return hybrid.NewHybridEncrypt(h)
	case "hybriddec":
		return hybrid.NewHybridDecrypt(h)
	case "streaming":
		return streamingaead.New(h)
	case "deriver":
		return keyderivation.New(h)
	}
	return nil, fmt.Errorf("unknown kind %s", kind)
}

var factoryOp = map[string]string{"aead": "aead.New", "daead": "daead.New", "mac": "mac.New", "prf": "prf.NewPRFSet",
	"signer": "signature.NewSigner", "verifier": "signature.NewVerifier", "hybridenc": "hybrid.NewHybridEncrypt",
	"hybriddec": "hybrid.NewHybridDecrypt", "streaming": "streamingaead.New", "deriver": "keyderivation.New"}

// factoryTarget: ks is the (private, for public-key kinds) keyset; for kinds working on the public
// part the handle under test is read from the serialized PUBLIC keyset.
// impl names the implementation behind the factory for violation signatures (e.g. "mac.New[legacy-adapter]").
func factoryTarget(name, kind string, cost int, ks *tinkpb.Keyset, impl string) *Target {
	priv := must(insecurecleartextkeyset.Read(&keyset.MemReaderWriter{Keyset: proto.Clone(ks).(*tinkpb.Keyset)}))
	twin := priv
	src := priv
	if kind == "verifier" || kind == "hybridenc" {
		src = must(priv.Public())
	}
	ser := must(proto.Marshal(insecurecleartextkeyset.KeysetMaterial(src)))
	if impl == "" {
		impl = factoryOp[kind]
	}
	t := &Target{Name: name, Cost: cost, Obs: obsPrim}
	t.New = func(c *Call) any {
		c.Site(impl, "insecurecleartextkeyset.Read", "keyset.NewBinaryReader", "keyset.(BinaryReader).Read", "keyset.(Reader).Read", factoryOp[kind])
		buf := c.In("serializedKeyset", ser)
		h, err := insecurecleartextkeyset.Read(keyset.NewBinaryReader(bytes.NewReader(buf)))
		if !c.Check(err) {
			return nil
		}
		p, err := buildPrimitive(kind, h)
		if !c.Check(err) {
			return nil
		}
		return &primObject{kind: kind, h: h, twin: twin, p: p, peer: peerOf(kind, twin), before: primitiveProbe(kind, h, twin)}
	}
	t.Use = primitiveUses(kind, impl, "", func(o any) any { return o.(*primObject).p }, func(o any) any { return o.(*primObject).peer })
	return t
}

// primitiveUses: the calls of a primitive of the given kind that exchange byte slices, one library
// call each.  get extracts the primitive from the object; twinOf the pristine counterpart handle
// (used only to PREPARE valid inputs such as a ciphertext to decrypt - never as an oracle).
func primitiveUses(kind, impl, concrete string, get func(o any) any, peer func(o any) any) []func(c *Call, o any) {
	ops := func(iface, method string) []string {
		r := []string{"tink.(" + iface + ")." + method}
		if iface == "PRF" || iface == "Set" {
			r = []string{"prf.(" + iface + ")." + method}
		}
		if iface == "KeysetDeriver" {
			r = []string{"keyderivation.(KeysetDeriver)." + method}
		}
		if concrete != "" {
			r = append(r, concrete+"."+method)
		}
		return r
	}
	switch kind {
	case "aead":
		return []func(c *Call, o any){
			func(c *Call, o any) {
				c.Site(impl+".Encrypt", ops("AEAD", "Encrypt")...)
				ct, err := get(o).(tink.AEAD).Encrypt(c.In("plaintext", c.Rand(21)), c.In("associatedData", c.Rand(5)))
				c.Check(err)
				c.Out("ciphertext", ct)
			},
			func(c *Call, o any) {
				c.Site(impl+".Decrypt", ops("AEAD", "Decrypt")...)
				aad := c.Rand(7)
				ct := must(peer(o).(tink.AEAD).Encrypt(c.Rand(33), aad))
				ctb, adb := c.In("ciphertext", ct), c.In("associatedData", aad)
				pt, err := get(o).(tink.AEAD).Decrypt(ctb, adb)
				c.Check(err)
				setResub(o, func() string {
					a, e1 := get(o).(tink.AEAD).Decrypt(ctb, adb)
					b, e2 := peer(o).(tink.AEAD).Decrypt(clone(ctb), clone(adb))
					return sameAnswer(a, e1, b, e2)
				})
				c.Out("plaintext", pt)
			},
			func(c *Call, o any) { // empty plaintext and empty associated data, still with spare capacity
				c.Site(impl+".Encrypt", ops("AEAD", "Encrypt")...)
				ct, err := get(o).(tink.AEAD).Encrypt(c.In("plaintext", nil), c.In("associatedData", nil))
				c.Check(err)
				c.Out("ciphertext", ct)
			},
		}
	case "daead":
		return []func(c *Call, o any){
			func(c *Call, o any) {
				c.Site(impl+".EncryptDeterministically", ops("DeterministicAEAD", "EncryptDeterministically")...)
				pt, ad := c.In("plaintext", c.Rand(21)), c.In("associatedData", c.Rand(5))
				ct, err := get(o).(tink.DeterministicAEAD).EncryptDeterministically(pt, ad)
				c.Check(err)
				setResub(o, func() string {
					a, e1 := get(o).(tink.DeterministicAEAD).EncryptDeterministically(pt, ad)
					b, e2 := peer(o).(tink.DeterministicAEAD).EncryptDeterministically(clone(pt), clone(ad))
					return sameAnswer(a, e1, b, e2)
				})
				c.Out("ciphertext", ct)
			},
			func(c *Call, o any) {
				c.Site(impl+".DecryptDeterministically", ops("DeterministicAEAD", "DecryptDeterministically")...)
				aad := c.Rand(7)
				ct := must(peer(o).(tink.DeterministicAEAD).EncryptDeterministically(c.Rand(33), aad))
				pt, err := get(o).(tink.DeterministicAEAD).DecryptDeterministically(c.In("ciphertext", ct), c.In("associatedData", aad))
				c.Check(err)
				c.Out("plaintext", pt)
			},
			func(c *Call, o any) {
				c.Site(impl+".EncryptDeterministically", ops("DeterministicAEAD", "EncryptDeterministically")...)
				ct, err := get(o).(tink.DeterministicAEAD).EncryptDeterministically(c.In("plaintext", nil), c.In("associatedData", nil))
				c.Check(err)
				c.Out("ciphertext", ct)
			},
		}
	case "mac":
		return []func(c *Call, o any){
			func(c *Call, o any) {
				c.Site(impl+".ComputeMAC", ops("MAC", "ComputeMAC")...)
				data := c.In("data", c.Rand(19))
				tag, err := get(o).(tink.MAC).ComputeMAC(data)
				c.Check(err)
				setResub(o, func() string {
					a, e1 := get(o).(tink.MAC).ComputeMAC(data)
					b, e2 := peer(o).(tink.MAC).ComputeMAC(clone(data))
					return sameAnswer(a, e1, b, e2)
				})
				c.Out("mac", tag)
			},
			func(c *Call, o any) {
				c.Site(impl+".VerifyMAC", ops("MAC", "VerifyMAC")...)
				data := c.Rand(23)
				tag := must(peer(o).(tink.MAC).ComputeMAC(data))
				c.Check(get(o).(tink.MAC).VerifyMAC(c.In("mac", tag), c.In("data", data)))
			},
			func(c *Call, o any) {
				c.Site(impl+".ComputeMAC", ops("MAC", "ComputeMAC")...)
				tag, err := get(o).(tink.MAC).ComputeMAC(c.In("data", nil))
				c.Check(err)
				c.Out("mac", tag)
			},
		}
	case "prf":
		return []func(c *Call, o any){
			func(c *Call, o any) {
				c.Site(impl+".ComputePrimaryPRF", ops("Set", "ComputePrimaryPRF")...)
				in := c.In("input", c.Rand(19))
				out, err := get(o).(*prf.Set).ComputePrimaryPRF(in, 16)
				c.Check(err)
				setResub(o, func() string {
					a, e1 := get(o).(*prf.Set).ComputePrimaryPRF(in, 16)
					b, e2 := peer(o).(*prf.Set).ComputePrimaryPRF(clone(in), 16)
					return sameAnswer(a, e1, b, e2)
				})
				c.Out("output", out)
			},
			func(c *Call, o any) {
				c.Site(impl+".ComputePRF", ops("PRF", "ComputePRF")...)
				s := get(o).(*prf.Set)
				out, err := s.PRFs[s.PrimaryID].ComputePRF(c.In("input", nil), 12)
				c.Check(err)
				c.Out("output", out)
			},
		}
	case "indcpa":
		type indcpa interface {
			Encrypt(plaintext []byte) ([]byte, error)
			Decrypt(ciphertext []byte) ([]byte, error)
		}
		return []func(c *Call, o any){
			func(c *Call, o any) {
				c.Site(impl+".Encrypt", "aead/subtle.(INDCPACipher).Encrypt", concrete+".Encrypt")
				ct, err := get(o).(indcpa).Encrypt(c.In("plaintext", c.Rand(21)))
				c.Check(err)
				c.Out("ciphertext", ct)
			},
			func(c *Call, o any) {
				c.Site(impl+".Decrypt", "aead/subtle.(INDCPACipher).Decrypt", concrete+".Decrypt")
				ct := must(peer(o).(indcpa).Encrypt(c.Rand(33)))
				pt, err := get(o).(indcpa).Decrypt(c.In("ciphertext", ct))
				c.Check(err)
				c.Out("plaintext", pt)
			},
		}
	case "kwp":
		type kwp interface {
			Wrap(data []byte) ([]byte, error)
			Unwrap(data []byte) ([]byte, error)
		}
		return []func(c *Call, o any){
			func(c *Call, o any) {
				c.Site(impl+".Wrap", concrete+".Wrap")
				data := c.In("data", c.Rand(21))
				ct, err := get(o).(kwp).Wrap(data)
				c.Check(err)
				setResub(o, func() string {
					a, e1 := get(o).(kwp).Wrap(data)
					b, e2 := peer(o).(kwp).Wrap(clone(data))
					return sameAnswer(a, e1, b, e2)
				})
				c.Out("wrapped", ct)
			},
			func(c *Call, o any) {
				c.Site(impl+".Unwrap", concrete+".Unwrap")
				ct := must(peer(o).(kwp).Wrap(c.Rand(33)))
				pt, err := get(o).(kwp).Unwrap(c.In("data", ct))
				c.Check(err)
				c.Out("unwrapped", pt)
			},
		}
	case "prf1":
		return []func(c *Call, o any){
			func(c *Call, o any) {
				c.Site(impl+".ComputePRF", ops("PRF", "ComputePRF")...)
				in := c.In("input", c.Rand(19))
				out, err := get(o).(prf.PRF).ComputePRF(in, 16)
				c.Check(err)
				setResub(o, func() string {
					a, e1 := get(o).(prf.PRF).ComputePRF(in, 16)
					b, e2 := peer(o).(prf.PRF).ComputePRF(clone(in), 16)
					return sameAnswer(a, e1, b, e2)
				})
				c.Out("output", out)
			},
			func(c *Call, o any) {
				c.Site(impl+".ComputePRF", ops("PRF", "ComputePRF")...)
				out, err := get(o).(prf.PRF).ComputePRF(c.In("input", nil), 12)
				c.Check(err)
				c.Out("output", out)
			},
		}
	case "signer":
		return []func(c *Call, o any){
			func(c *Call, o any) {
				c.Site(impl+".Sign", ops("Signer", "Sign")...)
				sig, err := get(o).(tink.Signer).Sign(c.In("data", c.Rand(19)))
				c.Check(err)
				c.Out("signature", sig)
			},
			func(c *Call, o any) {
				c.Site(impl+".Sign", ops("Signer", "Sign")...)
				sig, err := get(o).(tink.Signer).Sign(c.In("data", nil))
				c.Check(err)
				c.Out("signature", sig)
			},
		}
	case "verifier":
		return []func(c *Call, o any){
			func(c *Call, o any) {
				c.Site(impl+".Verify", ops("Verifier", "Verify")...)
				data := c.Rand(23)
				sig := must(peer(o).(tink.Signer).Sign(data))
				sb, db := c.In("signature", sig), c.In("data", data)
				c.Check(get(o).(tink.Verifier).Verify(sb, db))
				twinV := twinVerifier(o)
				if twinV != nil {
					setResub(o, func() string {
						return boolStr((get(o).(tink.Verifier).Verify(sb, db) == nil) == (twinV.Verify(clone(sb), clone(db)) == nil))
					})
				}
			},
			func(c *Call, o any) {
				c.Site(impl+".Verify", ops("Verifier", "Verify")...)
				sig := must(peer(o).(tink.Signer).Sign(nil))
				c.Check(get(o).(tink.Verifier).Verify(c.In("signature", sig), c.In("data", nil)))
			},
		}
	case "hybridenc":
		return []func(c *Call, o any){
			func(c *Call, o any) {
				c.Site(impl+".Encrypt", ops("HybridEncrypt", "Encrypt")...)
				ct, err := get(o).(tink.HybridEncrypt).Encrypt(c.In("plaintext", c.Rand(21)), c.In("contextInfo", c.Rand(5)))
				c.Check(err)
				c.Out("ciphertext", ct)
			},
			func(c *Call, o any) {
				c.Site(impl+".Encrypt", ops("HybridEncrypt", "Encrypt")...)
				ct, err := get(o).(tink.HybridEncrypt).Encrypt(c.In("plaintext", nil), c.In("contextInfo", nil))
				c.Check(err)
				c.Out("ciphertext", ct)
			},
		}
	case "hybriddec":
		return []func(c *Call, o any){
			func(c *Call, o any) {
				c.Site(impl+".Decrypt", ops("HybridDecrypt", "Decrypt")...)
				info := c.Rand(7)
				ct := must(peer(o).(tink.HybridEncrypt).Encrypt(c.Rand(33), info))
				pt, err := get(o).(tink.HybridDecrypt).Decrypt(c.In("ciphertext", ct), c.In("contextInfo", info))
				c.Check(err)
				c.Out("plaintext", pt)
			},
		}
	case "streaming":
		return []func(c *Call, o any){
			func(c *Call, o any) { // encrypt: aad and every written chunk are caller buffers
				c.Site(impl+".NewEncryptingWriter", ops("StreamingAEAD", "NewEncryptingWriter")...)
				var sink bytes.Buffer
				w, err := get(o).(tink.StreamingAEAD).NewEncryptingWriter(&sink, c.In("associatedData", c.Rand(9)))
				if !c.Check(err) {
					return
				}
				_, err = w.Write(c.In("p", c.Rand(50)))
				c.Check(err)
				_, err = w.Write(c.In("p", c.Rand(5000)))
				c.Check(err)
				c.Check(w.Close())
			},
			func(c *Call, o any) { // decrypt: the reader fills caller buffers (inside len only)
				c.Site(impl+".NewDecryptingReader", ops("StreamingAEAD", "NewDecryptingReader")...)
				aad := c.Rand(9)
				ct := must(streamEncrypt(peer(o).(tink.StreamingAEAD), c.Rand(6000), aad))
				r, err := get(o).(tink.StreamingAEAD).NewDecryptingReader(bytes.NewReader(ct), c.In("associatedData", aad))
				if !c.Check(err) {
					return
				}
				for _, n := range []int{7, 4500, 3000} {
					p := c.ReadBuf("p", n)
					k, err := r.Read(p)
					if err != nil && err != io.EOF {
						c.Check(err)
					}
					c.Out("read", p[:k:k])
				}
			},
		}
	case "deriver":
		return []func(c *Call, o any){
			func(c *Call, o any) {
				c.Site(impl+".DeriveKeyset", ops("KeysetDeriver", "DeriveKeyset")...)
				salt := c.In("salt", c.Rand(11))
				h, err := get(o).(keyderivation.KeysetDeriver).DeriveKeyset(salt)
				c.Check(err)
				setResub(o, func() string {
					a, e1 := get(o).(keyderivation.KeysetDeriver).DeriveKeyset(salt)
					b, e2 := peer(o).(keyderivation.KeysetDeriver).DeriveKeyset(clone(salt))
					return boolStr((e1 == nil) == (e2 == nil) && (e1 != nil || ksDigest(a) == ksDigest(b)))
				})
				if err == nil {
					c.OutMsg("derivedKeyset", insecurecleartextkeyset.KeysetMaterial(h))
				}
			},
		}
	}
	panic("primitiveUses: unknown kind " + kind)
}
