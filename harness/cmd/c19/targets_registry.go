package main

import (
	"strings"

	"github.com/tink-crypto/tink-go/v2/aead"
	"github.com/tink-crypto/tink-go/v2/core/registry"
	"github.com/tink-crypto/tink-go/v2/daead"
	"github.com/tink-crypto/tink-go/v2/hybrid"
	"github.com/tink-crypto/tink-go/v2/insecurecleartextkeyset"
	"github.com/tink-crypto/tink-go/v2/key"
	"github.com/tink-crypto/tink-go/v2/mac"
	"github.com/tink-crypto/tink-go/v2/prf"
	tinkpb "github.com/tink-crypto/tink-go/v2/proto/tink_go_proto"
	"github.com/tink-crypto/tink-go/v2/signature"
	"github.com/tink-crypto/tink-go/v2/signature/rsassapkcs1"
	"github.com/tink-crypto/tink-go/v2/signature/rsassapss"
	"github.com/tink-crypto/tink-go/v2/streamingaead"
	"google.golang.org/protobuf/proto"
)

// Key managers of the registry (the legacy path every keyset with a key type unknown to the key
// classes still takes, and a public API of its own): Primitive / NewKey / NewKeyData / PublicKeyData
// take serialized protos as []byte.  The object under test is the primitive the manager builds from a
// serialized key that lives in a caller buffer.
func kmTarget(kind, peerKind string, kd, peerKD *tinkpb.KeyData, format []byte, cost int) {
	km, err := registry.GetKeyManager(kd.TypeUrl)
	if err != nil {
		return // key types without a key manager are reached through the key classes only
	}
	short := kd.TypeUrl[strings.LastIndex(kd.TypeUrl, ".")+1:]
	mkPeer := func() any {
		if peerKD == nil {
			return must(registry.Primitive(kd.TypeUrl, clone(kd.Value)))
		}
		return must(registry.Primitive(peerKD.TypeUrl, clone(peerKD.Value)))
	}
	iface := "KeyManager"
	_, isPriv := km.(registry.PrivateKeyManager)
	if isPriv {
		iface = "PrivateKeyManager"
	}
	t := &Target{Name: "core/registry.KeyManager/" + short, Cost: cost, Obs: obsDirect}
	t.New = func(c *Call) any {
		c.Site("core/registry.KeyManager["+short+"].Primitive", "core/registry.("+iface+").Primitive")
		p, err := km.Primitive(c.In("serializedKey", kd.Value))
		if !c.Check(err) {
			return nil
		}
		peer := mkPeer()
		return &directObject{p: p, twin: peer, probe: directProbe(kind, p, peer)}
	}
	t.Use = primitiveUses(kind, "core/registry.KeyManager["+short+"]", "", func(o any) any { return o.(*directObject).p }, func(o any) any { return o.(*directObject).twin })
	t.Use = append(t.Use,
		func(c *Call, o any) {
			c.Site("core/registry.Primitive["+short+"]", "core/registry.Primitive")
			_, err := registry.Primitive(kd.TypeUrl, c.In("serializedKey", kd.Value))
			c.Check(err)
		},
		func(c *Call, o any) {
			c.Site("core/registry.PrimitiveFromKeyData["+short+"]", "core/registry.PrimitiveFromKeyData")
			in := proto.Clone(kd).(*tinkpb.KeyData)
			c.InMsg("keyData", in)
			_, err := registry.PrimitiveFromKeyData(in)
			c.Check(err)
		})
	if format != nil {
		t.Use = append(t.Use,
			func(c *Call, o any) {
				c.Site("core/registry.KeyManager["+short+"].NewKey", "core/registry.("+iface+").NewKey")
				m, err := km.NewKey(c.In("serializedKeyFormat", format))
				if c.Check(err) {
					c.OutMsg("key", m)
				}
			},
			func(c *Call, o any) {
				c.Site("core/registry.KeyManager["+short+"].NewKeyData", "core/registry.("+iface+").NewKeyData")
				m, err := km.NewKeyData(c.In("serializedKeyFormat", format))
				if c.Check(err) {
					c.OutMsg("keyData", m)
				}
			})
	}
	if pkm, ok := km.(registry.PrivateKeyManager); ok {
		t.Use = append(t.Use, func(c *Call, o any) {
			c.Site("core/registry.KeyManager["+short+"].PublicKeyData", "core/registry.(PrivateKeyManager).PublicKeyData")
			m, err := pkm.PublicKeyData(c.In("serializedKey", kd.Value))
			if c.Check(err) {
				c.OutMsg("keyData", m)
			}
		})
	}
	register(t)
}

func init() {
	sym := func(kind string, cost int, t *tinkpb.KeyTemplate) {
		kmTarget(kind, "", materialOf(t).Key[0].KeyData, nil, t.Value, cost)
	}
	for _, t := range []*tinkpb.KeyTemplate{aead.AES128GCMKeyTemplate(), aead.AES256GCMSIVKeyTemplate(), aead.AES128CTRHMACSHA256KeyTemplate(),
		aead.ChaCha20Poly1305KeyTemplate(), aead.XChaCha20Poly1305KeyTemplate(), aead.XAES256GCM192BitNonceKeyTemplate()} {
		sym("aead", 0, t)
	}
	sym("daead", 0, daead.AESSIVKeyTemplate())
	sym("mac", 0, mac.HMACSHA256Tag128KeyTemplate())
	sym("mac", 0, mac.AESCMACTag128KeyTemplate())
	sym("prf1", 0, prf.HMACSHA256PRFKeyTemplate())
	sym("prf1", 0, prf.HKDFSHA256PRFKeyTemplate())
	sym("prf1", 0, prf.AESCMACPRFKeyTemplate())
	sym("streaming", 1, streamingaead.AES128GCMHKDF4KBKeyTemplate())
	sym("streaming", 1, streamingaead.AES128CTRHMACSHA256Segment4KBKeyTemplate())
	asym := func(privKind, pubKind string, cost int, t *tinkpb.KeyTemplate) {
		h := newHandle(t)
		priv := insecurecleartextkeyset.KeysetMaterial(h).Key[0].KeyData
		pub := insecurecleartextkeyset.KeysetMaterial(must(h.Public())).Key[0].KeyData
		kmTarget(privKind, pubKind, priv, pub, t.Value, cost)
		kmTarget(pubKind, privKind, pub, priv, nil, cost)
	}
	asym("signer", "verifier", 0, signature.ECDSAP256KeyTemplate())
	asym("signer", "verifier", 0, signature.ED25519KeyTemplate())
	// RSA: 2048-bit keys made from parameters (the templates start at 3072 bits; NewKey would generate one per call)
	for _, k := range []key.Key{
		keyFromParams(must(rsassapkcs1.NewParameters(2048, rsassapkcs1.SHA256, 65537, rsassapkcs1.VariantNoPrefix))),
		keyFromParams(must(rsassapss.NewParameters(rsassapss.ParametersValues{ModulusSizeBits: 2048, SigHashType: rsassapss.SHA256,
			MGF1HashType: rsassapss.SHA256, PublicExponent: 65537, SaltLengthBytes: 32}, rsassapss.VariantNoPrefix))),
	} {
		h := must(handleOf(k))
		priv := insecurecleartextkeyset.KeysetMaterial(h).Key[0].KeyData
		pub := insecurecleartextkeyset.KeysetMaterial(must(h.Public())).Key[0].KeyData
		kmTarget("signer", "verifier", priv, pub, nil, 1)
		kmTarget("verifier", "signer", pub, priv, nil, 1)
	}
	asym("hybriddec", "hybridenc", 0, hybrid.DHKEM_X25519_HKDF_SHA256_HKDF_SHA256_AES_128_GCM_Key_Template())
	asym("hybriddec", "hybridenc", 0, hybrid.ECIESHKDFAES128GCMKeyTemplate())
}
