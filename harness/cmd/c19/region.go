package main

import (
	"bytes"
	"crypto/sha256"
	"encoding/hex"
	"fmt"
	"sort"
	"unsafe"

	"google.golang.org/protobuf/proto"
	"google.golang.org/protobuf/reflect/protoreflect"
)

// Val is the logged content of a region: d = bytes inside len, s = spare capacity (len..cap),
// g = guard zones of the caller's array outside the slice.
type Val struct {
	D string `json:"d"`
	S string `json:"s"`
	G string `json:"g"`
}

const (
	guardLen  = 8
	spareLen  = 8    // layouts 0 and 1
	roomyLen  = 8192 // layout 2 (and own arrays in layouts 3, 4): more room than anything a call could append
	spareByte = 0xA5
	guardByte = 0x5A
)

// enc: short contents verbatim, long ones as (length, SHA-256 prefix) - the oracle is equality only.
func enc(b []byte) string {
	if len(b) <= 40 {
		return hex.EncodeToString(b)
	}
	h := sha256.Sum256(b)
	return fmt.Sprintf("%d:%s", len(b), hex.EncodeToString(h[:12]))
}

// Region is a piece of caller-owned memory: an input buffer or a returned slice / message.
type Region interface {
	Val() Val
	// Scribble overwrites everything the owner may legitimately write (len and spare capacity);
	// reports false when there is nothing to write.
	Scribble(count int) bool
	// Ranges returns the address ranges [lo,hi) of the region's full capacity.
	Ranges() [][2]uintptr
}

func addrRange(b []byte) ([2]uintptr, bool) {
	if cap(b) == 0 {
		return [2]uintptr{}, false
	}
	lo := uintptr(unsafe.Pointer(unsafe.SliceData(b)))
	return [2]uintptr{lo, lo + uintptr(cap(b))}, true
}

func overlap(a, b Region) bool {
	for _, x := range a.Ranges() {
		for _, y := range b.Ranges() {
			if x[0] < y[1] && y[0] < x[1] {
				return true
			}
		}
	}
	return false
}

func scribbleBytes(b []byte, count int) bool {
	full := b[:cap(b)]
	if len(full) == 0 {
		return false
	}
	for i := range b {
		b[i] ^= byte(0x55 + 2*count) // never zero: always changes the byte
	}
	for i := len(b); i < len(full); i++ {
		full[i] = byte(count*17 + i + 1)
		if full[i] == spareByte {
			full[i]++
		}
	}
	return true
}

// ---------------------------------------------------------------- input buffers

// Buf is a caller buffer inside a larger sentinel-filled array:
// [guard | data (len n) | spare | guard]; layout 0 caps the slice behind the spare bytes
// (arr[off:off+n:off+n+spare]), layout 1 leaves the whole rest of the array as capacity.
type Buf struct {
	arr    []byte
	n      int
	layout int
	spare  int
}

// Layouts: 0 = slice capped right behind 8 spare bytes (arr[off:off+n:off+n+8]); 1 = the whole rest of a
// small array is capacity; 2 = 8 KiB of sentinel-filled spare capacity, un-clipped (an append of any
// size this driver uses fits and therefore lands in the caller's memory instead of reallocating);
// 3 / 4 = all inputs of one call adjacent in ONE frame, in call order / in reverse order (see Frame).
func newBuf(content []byte, layout int) *Buf {
	n := len(content)
	spareLen := spareLen
	if layout >= 2 {
		spareLen = roomyLen
	}
	arr := make([]byte, guardLen+n+spareLen+guardLen)
	for i := range arr {
		arr[i] = guardByte
	}
	copy(arr[guardLen:], content)
	for i := guardLen + n; i < guardLen+n+spareLen; i++ {
		arr[i] = spareByte
	}
	return &Buf{arr: arr, n: n, layout: layout, spare: spareLen}
}

func (b *Buf) Slice() []byte {
	if b.layout == 0 {
		return b.arr[guardLen : guardLen+b.n : guardLen+b.n+b.spare]
	}
	return b.arr[guardLen : guardLen+b.n]
}

func (b *Buf) Val() Val {
	g := append(append([]byte{}, b.arr[:guardLen]...), b.arr[guardLen+b.n+b.spare:]...)
	return Val{D: enc(b.arr[guardLen : guardLen+b.n]), S: enc(b.arr[guardLen+b.n : guardLen+b.n+b.spare]), G: enc(g)}
}

func (b *Buf) Scribble(count int) bool {
	return scribbleBytes(b.arr[guardLen:guardLen+b.n:guardLen+b.n+b.spare], count)
}

func (b *Buf) Ranges() [][2]uintptr {
	r, _ := addrRange(b.arr)
	return [][2]uintptr{r}
}

// ---------------------------------------------------------------- returned slices

type Ret struct{ b []byte }

func (r *Ret) Val() Val {
	return Val{D: enc(r.b), S: enc(r.b[len(r.b):cap(r.b)]), G: ""}
}
func (r *Ret) Scribble(count int) bool { return scribbleBytes(r.b, count) }
func (r *Ret) Ranges() [][2]uintptr {
	if x, ok := addrRange(r.b); ok {
		return [][2]uintptr{x}
	}
	return nil
}

// ---------------------------------------------------------------- proto messages (byte carriers)

// Msg is a protobuf message handed across the API (keyset, key data, key template, encrypted keyset).
// As an input, every bytes field is re-homed into a Buf first (rehome); as a result it is taken as is.
type Msg struct {
	m    proto.Message
	bufs []*Buf // guards of re-homed fields (inputs only)
}

type bytesField struct {
	path string
	get  func() []byte
}

// walk lists the bytes fields of m (recursively) and the mutable scalar fields.
func walk(m protoreflect.Message, path string, fb func(path string, msg protoreflect.Message, fd protoreflect.FieldDescriptor, idx int), fs func(msg protoreflect.Message, fd protoreflect.FieldDescriptor)) {
	fds := m.Descriptor().Fields()
	for i := 0; i < fds.Len(); i++ {
		fd := fds.Get(i)
		if !m.Has(fd) {
			continue
		}
		p := path + "." + string(fd.Name())
		switch {
		case fd.IsMap():
			// no maps in tink's key protos that carry bytes
		case fd.IsList():
			l := m.Get(fd).List()
			for j := 0; j < l.Len(); j++ {
				switch fd.Kind() {
				case protoreflect.MessageKind:
					walk(l.Get(j).Message(), fmt.Sprintf("%s[%d]", p, j), fb, fs)
				case protoreflect.BytesKind:
					fb(fmt.Sprintf("%s[%d]", p, j), m, fd, j)
				}
			}
		case fd.Kind() == protoreflect.MessageKind:
			walk(m.Get(fd).Message(), p, fb, fs)
		case fd.Kind() == protoreflect.BytesKind:
			fb(p, m, fd, -1)
		default:
			if fs != nil {
				fs(m, fd)
			}
		}
	}
}

func getBytes(msg protoreflect.Message, fd protoreflect.FieldDescriptor, idx int) []byte {
	if idx >= 0 {
		return msg.Get(fd).List().Get(idx).Bytes()
	}
	return msg.Get(fd).Bytes()
}

// rehome moves every bytes field of m into its own sentinel-surrounded array.
func rehome(m proto.Message, layout int) *Msg {
	r := &Msg{m: m}
	walk(m.ProtoReflect(), "", func(path string, msg protoreflect.Message, fd protoreflect.FieldDescriptor, idx int) {
		b := newBuf(getBytes(msg, fd, idx), layout)
		r.bufs = append(r.bufs, b)
		if idx >= 0 {
			msg.Mutable(fd).List().Set(idx, protoreflect.ValueOfBytes(b.Slice()))
		} else {
			msg.Set(fd, protoreflect.ValueOfBytes(b.Slice()))
		}
		// the generated code must keep exactly this slice, otherwise the placement is void
		got := getBytes(msg, fd, idx)
		if len(got) > 0 && unsafe.SliceData(got) != unsafe.SliceData(b.Slice()) {
			panic("c19: protobuf runtime copied a bytes field on Set; re-homing impossible")
		}
	}, nil)
	return r
}

func (r *Msg) fields() [][]byte {
	var out [][]byte
	walk(r.m.ProtoReflect(), "", func(path string, msg protoreflect.Message, fd protoreflect.FieldDescriptor, idx int) {
		out = append(out, getBytes(msg, fd, idx))
	}, nil)
	return out
}

func (r *Msg) Val() Val {
	ser, err := proto.MarshalOptions{Deterministic: true}.Marshal(r.m)
	if err != nil {
		ser = []byte("unmarshalable: " + err.Error())
	}
	var spare, guard []byte
	for _, f := range r.fields() {
		spare = append(spare, f[len(f):cap(f)]...)
		spare = append(spare, '|')
	}
	for _, b := range r.bufs {
		guard = append(guard, b.arr[:guardLen]...)
		guard = append(guard, b.arr[guardLen+b.n+b.spare:]...)
	}
	// for re-homed inputs the spare bytes are those of the arrays, whatever the library did to the field
	if len(r.bufs) > 0 {
		spare = spare[:0]
		for _, b := range r.bufs {
			spare = append(spare, b.arr[guardLen+b.n:guardLen+b.n+b.spare]...)
		}
		ser = append(ser, '#')
		for _, b := range r.bufs {
			ser = append(ser, b.arr[guardLen:guardLen+b.n]...)
		}
	}
	return Val{D: enc(ser), S: enc(spare), G: enc(guard)}
}

// Scribble overwrites every bytes field in place (full capacity) and changes every scalar field
// (a library object must not look at the caller's message again either).
func (r *Msg) Scribble(count int) bool {
	done := false
	walk(r.m.ProtoReflect(), "", func(path string, msg protoreflect.Message, fd protoreflect.FieldDescriptor, idx int) {
		// re-homed inputs: the arrays are overwritten below (once), wherever the field points now
		if len(r.bufs) == 0 && scribbleBytes(getBytes(msg, fd, idx), count) {
			done = true
		}
	}, func(msg protoreflect.Message, fd protoreflect.FieldDescriptor) {
		switch fd.Kind() {
		case protoreflect.Uint32Kind, protoreflect.Fixed32Kind:
			msg.Set(fd, protoreflect.ValueOfUint32(uint32(msg.Get(fd).Uint())+uint32(1+count)))
			done = true
		case protoreflect.Int32Kind:
			msg.Set(fd, protoreflect.ValueOfInt32(int32(msg.Get(fd).Int())+int32(1+count)))
			done = true
		case protoreflect.StringKind:
			msg.Set(fd, protoreflect.ValueOfString(msg.Get(fd).String()+"~"))
			done = true
		case protoreflect.EnumKind:
			vals := fd.Enum().Values()
			cur := msg.Get(fd).Enum()
			next := vals.Get((int(cur) + 1 + count) % vals.Len()).Number()
			if next == cur {
				next = vals.Get((int(cur) + 2 + count) % vals.Len()).Number()
			}
			msg.Set(fd, protoreflect.ValueOfEnum(next))
			done = true
		}
	})
	for _, b := range r.bufs { // the caller's arrays, even if the library re-pointed the field
		if b.Scribble(count) {
			done = true
		}
	}
	return done
}

func (r *Msg) Ranges() [][2]uintptr {
	var out [][2]uintptr
	for _, f := range r.fields() {
		if x, ok := addrRange(f); ok {
			out = append(out, x)
		}
	}
	for _, b := range r.bufs {
		out = append(out, b.Ranges()...)
	}
	sort.Slice(out, func(i, j int) bool { return out[i][0] < out[j][0] })
	return out
}

// ---------------------------------------------------------------- buffers the library is asked to fill

// FillBuf is the argument of an io.Reader-style call: the library may write anywhere inside len
// (the contract allows all of p as scratch space) but nowhere else.  The region therefore consists
// of the spare capacity and the guard zones only; the bytes read are registered as a result.
type FillBuf struct{ *Buf }

func (f FillBuf) Val() Val {
	v := f.Buf.Val()
	v.D = ""
	return v
}

func (f FillBuf) Scribble(count int) bool {
	return scribbleBytes(f.arr[guardLen+f.n:guardLen+f.n:guardLen+f.n+f.spare], count)
}

func (f FillBuf) Ranges() [][2]uintptr {
	lo := uintptr(unsafe.Pointer(unsafe.SliceData(f.arr)))
	return [][2]uintptr{{lo, lo + guardLen}, {lo + guardLen + uintptr(f.n), lo + uintptr(len(f.arr))}}
}

// ---------------------------------------------------------------- inputs adjacent in one frame

// Frame holds all byte-slice inputs of ONE call next to each other, as a caller does that cuts the
// arguments out of one message buffer: [64 sentinel bytes | input | input | ... | sentinel rest], slices
// un-clipped.  forward: in the order the call receives them (an append to the first argument runs over
// the second); reverse: the other way round.  The inputs are AdjBuf regions (their bytes only); everything
// else of the frame is one FrameRest region that must stay sentinel.
const (
	frameLen   = 40 << 10
	frameHead  = 64
	frameStart = 24 << 10 // reverse frames grow downwards from here
)

type Frame struct {
	arr     []byte
	reverse bool
	pos     int
	carved  [][2]int
}

func newFrame(reverse bool) *Frame {
	f := &Frame{arr: make([]byte, frameLen), reverse: reverse, pos: frameHead}
	for i := range f.arr {
		f.arr[i] = spareByte
	}
	if reverse {
		f.pos = frameStart
	}
	return f
}

func (f *Frame) carve(content []byte) *AdjBuf {
	n := len(content)
	var off int
	if f.reverse {
		f.pos -= n
		off = f.pos
	} else {
		off = f.pos
		f.pos += n
	}
	if off < frameHead || off+n > frameStart {
		panic("c19: inputs of one call exceed the frame")
	}
	copy(f.arr[off:], content)
	f.carved = append(f.carved, [2]int{off, off + n})
	return &AdjBuf{f: f, off: off, n: n}
}

// sorted: the non-empty inputs by position.
func (f *Frame) sorted() [][2]int {
	var cs [][2]int
	for _, c := range f.carved {
		if c[1] > c[0] {
			cs = append(cs, c)
		}
	}
	sort.Slice(cs, func(i, j int) bool { return cs[i][0] < cs[j][0] })
	return cs
}

type AdjBuf struct {
	f      *Frame
	off, n int
}

func (a *AdjBuf) Slice() []byte { return a.f.arr[a.off : a.off+a.n] }
func (a *AdjBuf) Val() Val      { return Val{D: enc(a.f.arr[a.off : a.off+a.n])} }
func (a *AdjBuf) Scribble(count int) bool {
	return scribbleBytes(a.f.arr[a.off:a.off+a.n:a.off+a.n], count)
}
func (a *AdjBuf) Ranges() [][2]uintptr {
	if a.n == 0 {
		return nil
	}
	lo := uintptr(unsafe.Pointer(unsafe.SliceData(a.f.arr))) + uintptr(a.off)
	return [][2]uintptr{{lo, lo + uintptr(a.n)}}
}

type FrameRest struct{ f *Frame }

func (r FrameRest) rest() []byte {
	cs := r.f.sorted()
	var out []byte
	at := 0
	for _, c := range cs {
		out = append(out, r.f.arr[at:c[0]]...)
		at = c[1]
	}
	return append(out, r.f.arr[at:]...)
}

func (r FrameRest) Val() Val { return Val{S: enc(r.rest())} }

// ExpectedPre: what the caller put there - sentinel bytes everywhere outside the inputs (the frame is
// still being filled when the region is registered, so its content at that moment is not the reference).
func (r FrameRest) ExpectedPre() Val {
	n := len(r.f.arr)
	for _, c := range r.f.carved {
		n -= c[1] - c[0]
	}
	return Val{S: enc(bytes.Repeat([]byte{spareByte}, n))}
}

func (r FrameRest) Scribble(count int) bool {
	cs := r.f.sorted()
	at := 0
	fill := func(b []byte) {
		for i := range b {
			b[i] = byte(count*29 + i + 3)
		}
	}
	for _, c := range cs {
		fill(r.f.arr[at:c[0]])
		at = c[1]
	}
	fill(r.f.arr[at:])
	return true
}

func (r FrameRest) Ranges() [][2]uintptr {
	lo := uintptr(unsafe.Pointer(unsafe.SliceData(r.f.arr)))
	cs := r.f.sorted()
	var out [][2]uintptr
	at := 0
	for _, c := range cs {
		if c[0] > at {
			out = append(out, [2]uintptr{lo + uintptr(at), lo + uintptr(c[0])})
		}
		at = c[1]
	}
	return append(out, [2]uintptr{lo + uintptr(at), lo + uintptr(len(r.f.arr))})
}
