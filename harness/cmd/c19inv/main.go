// Command c19inv extracts, mechanically, the part of tink-go's public API that can exchange byte
// slices with a caller (C19): every exported function, every exported method of an exported type,
// every method of an exported interface and every exported field of an exported struct, in a
// non-internal package of the repository tree, whose type mentions []byte (directly or through
// slices, arrays, maps, pointers, channels, function types, variadics or named non-struct types
// whose underlying type does).  Output: one line per operation,
//
//	<import path relative to the module>.<Func>                 in:<n> out:<m>
//	<import path>.(<Type>).<Method>                             ...
//	<import path>.<Struct>.<Field>                              field
//
// sorted.  The check diffs this list against the inventory table of spec/sys/OwnershipInventory.tla.
//
// The packages are type-checked with go/types against the export data of their dependencies
// (`go list -export -deps`), without the `verif` build tag (hook files are not public API).
package main

import (
	"bufio"
	"bytes"
	"encoding/json"
	"flag"
	"fmt"
	"go/ast"
	"go/importer"
	"go/parser"
	"go/token"
	"go/types"
	"io"
	"os"
	"os/exec"
	"path/filepath"
	"sort"
	"strings"
)

const module = "github.com/tink-crypto/tink-go/v2"

type listPkg struct {
	ImportPath string
	Dir        string
	Export     string
	GoFiles    []string
	Standard   bool
	ForTest    string
}

func fatal(f string, a ...any) {
	fmt.Fprintf(os.Stderr, "DRIVER-ERROR: "+f+"\n", a...)
	os.Exit(2)
}

func main() {
	repo := flag.String("repo", "/repo", "repository tree")
	out := flag.String("out", "", "output file (default stdout)")
	flag.BoolVar(&verbose, "v", false, "append the signature")
	flag.Parse()

	cmd := exec.Command("go", "list", "-export", "-deps", "-json=ImportPath,Dir,Export,GoFiles,Standard", "./...")
	cmd.Dir = *repo
	var stderr bytes.Buffer
	cmd.Stderr = &stderr
	raw, err := cmd.Output()
	if err != nil {
		fatal("go list: %v\n%s", err, stderr.String())
	}
	exports := map[string]string{}
	var own []listPkg
	dec := json.NewDecoder(bytes.NewReader(raw))
	for {
		var p listPkg
		if err := dec.Decode(&p); err == io.EOF {
			break
		} else if err != nil {
			fatal("go list json: %v", err)
		}
		if p.Export != "" {
			exports[p.ImportPath] = p.Export
		}
		if strings.HasPrefix(p.ImportPath, module) {
			own = append(own, p)
		}
	}
	fset := token.NewFileSet()
	imp := importer.ForCompiler(fset, "gc", func(path string) (io.ReadCloser, error) {
		f, ok := exports[path]
		if !ok {
			return nil, fmt.Errorf("no export data for %s", path)
		}
		return os.Open(f)
	})
	var lines []string
	npk := 0
	for _, p := range own {
		rel := strings.TrimPrefix(strings.TrimPrefix(p.ImportPath, module), "/")
		if skipPackage(rel) {
			continue
		}
		npk++
		var files []*ast.File
		for _, g := range p.GoFiles {
			f, err := parser.ParseFile(fset, filepath.Join(p.Dir, g), nil, parser.SkipObjectResolution)
			if err != nil {
				fatal("parse %s: %v", g, err)
			}
			files = append(files, f)
		}
		conf := types.Config{Importer: imp}
		pkg, err := conf.Check(p.ImportPath, fset, files, nil)
		if err != nil {
			fatal("type-check %s: %v", p.ImportPath, err)
		}
		lines = append(lines, scan(rel, pkg)...)
	}
	sort.Strings(lines)
	w := bufio.NewWriter(os.Stdout)
	if *out != "" {
		f, err := os.Create(*out)
		if err != nil {
			fatal("%v", err)
		}
		defer f.Close()
		w = bufio.NewWriter(f)
	}
	for _, l := range lines {
		fmt.Fprintln(w, l)
	}
	w.Flush()
	fmt.Fprintf(os.Stderr, "c19inv: %d packages, %d operations\n", npk, len(lines))
}

// skipPackage: internal packages cannot be imported by callers; proto packages are generated
// message types (plain data owned by the caller, no Tink operation behind them); testing/ and
// testutil/ are the library's own test helpers; the verif hook bridge is ours.
func skipPackage(rel string) bool {
	for _, seg := range strings.Split(rel, "/") {
		if seg == "internal" {
			return true
		}
	}
	return strings.HasPrefix(rel, "proto/") || rel == "proto" || strings.HasPrefix(rel, "testing/") ||
		rel == "testutil" || strings.HasPrefix(rel, "testutil/") || rel == "testkeyset" || strings.HasPrefix(rel, "kokoro") ||
		strings.HasPrefix(rel, "docs")
}

// mentions reports whether t mentions []byte; named struct types and interfaces are opaque
// (their own fields/methods are listed separately if they are part of the tree).
func mentions(t types.Type, seen map[types.Type]bool) bool {
	if seen[t] {
		return false
	}
	seen[t] = true
	switch u := t.(type) {
	case *types.Alias:
		return mentions(types.Unalias(u), seen)
	case *types.Named:
		switch st := u.Underlying().(type) {
		case *types.Interface:
			return false
		case *types.Struct:
			// secretdata.Bytes wraps a byte slice (key material travels in it)
			if p := u.Obj().Pkg(); p != nil && p.Path() == module+"/secretdata" && u.Obj().Name() == "Bytes" {
				return true
			}
			// generated proto messages of the tree are plain byte carriers handed across the API
			// (keyset protos, key data, templates): look inside them
			if p := u.Obj().Pkg(); p != nil && strings.HasPrefix(p.Path(), module+"/proto/") {
				for i := 0; i < st.NumFields(); i++ {
					if st.Field(i).Exported() && mentions(st.Field(i).Type(), seen) {
						return true
					}
				}
			}
			return false
		}
		return mentions(u.Underlying(), seen)
	case *types.Slice:
		if b, ok := u.Elem().(*types.Basic); ok && b.Kind() == types.Byte {
			return true
		}
		if b, ok := u.Elem().Underlying().(*types.Basic); ok && b.Kind() == types.Uint8 {
			return true
		}
		return mentions(u.Elem(), seen)
	case *types.Array:
		return mentions(u.Elem(), seen)
	case *types.Pointer:
		return mentions(u.Elem(), seen)
	case *types.Map:
		return mentions(u.Key(), seen) || mentions(u.Elem(), seen)
	case *types.Chan:
		return mentions(u.Elem(), seen)
	case *types.Signature:
		return tupleMentions(u.Params(), seen) > 0 || tupleMentions(u.Results(), seen) > 0
	case *types.Struct: // anonymous struct
		for i := 0; i < u.NumFields(); i++ {
			if mentions(u.Field(i).Type(), seen) {
				return true
			}
		}
	}
	return false
}

func tupleMentions(t *types.Tuple, seen map[types.Type]bool) int {
	n := 0
	for i := 0; i < t.Len(); i++ {
		if mentions(t.At(i).Type(), map[types.Type]bool{}) {
			n++
		}
	}
	return n
}

func sigLine(name string, s *types.Signature) (string, bool) {
	in, out := tupleMentions(s.Params(), nil), tupleMentions(s.Results(), nil)
	if in+out == 0 {
		return "", false
	}
	if verbose {
		return fmt.Sprintf("%s in:%d out:%d\t%s", name, in, out, types.TypeString(s, func(p *types.Package) string { return p.Name() })), true
	}
	return fmt.Sprintf("%s in:%d out:%d", name, in, out), true
}

var verbose bool

func scan(rel string, pkg *types.Package) []string {
	var res []string
	sc := pkg.Scope()
	for _, name := range sc.Names() {
		obj := sc.Lookup(name)
		if !obj.Exported() {
			continue
		}
		switch o := obj.(type) {
		case *types.Func:
			if l, ok := sigLine(rel+"."+name, o.Type().(*types.Signature)); ok {
				res = append(res, l)
			}
		case *types.Var:
			if mentions(o.Type(), map[types.Type]bool{}) {
				res = append(res, fmt.Sprintf("%s.%s var", rel, name))
			}
		case *types.TypeName:
			if o.IsAlias() {
				// an alias re-exports another type; its operations are listed where it is declared
				// if that is inside the tree; note the alias so that the table can account for it.
				t := types.Unalias(o.Type())
				if n, ok := t.(*types.Named); ok && n.Obj().Pkg() != nil && strings.HasPrefix(n.Obj().Pkg().Path(), module) {
					tr := strings.TrimPrefix(strings.TrimPrefix(n.Obj().Pkg().Path(), module), "/")
					if skipPackage(tr) {
						// alias of an internal type: its methods ARE public API through this name
						res = append(res, typeOps(rel, name, n)...)
					}
				}
				continue
			}
			n, ok := o.Type().(*types.Named)
			if !ok {
				continue
			}
			res = append(res, typeOps(rel, name, n)...)
		}
	}
	return res
}

func typeOps(rel, name string, n *types.Named) []string {
	var res []string
	switch u := n.Underlying().(type) {
	case *types.Interface:
		for i := 0; i < u.NumMethods(); i++ {
			m := u.Method(i)
			if !m.Exported() {
				continue
			}
			if l, ok := sigLine(fmt.Sprintf("%s.(%s).%s", rel, name, m.Name()), m.Type().(*types.Signature)); ok {
				res = append(res, l)
			}
		}
		return res
	case *types.Struct:
		for i := 0; i < u.NumFields(); i++ {
			f := u.Field(i)
			if f.Exported() && !f.Embedded() && mentions(f.Type(), map[types.Type]bool{}) {
				res = append(res, fmt.Sprintf("%s.%s.%s field", rel, name, f.Name()))
			}
		}
	default:
		if mentions(n.Underlying(), map[types.Type]bool{}) {
			res = append(res, fmt.Sprintf("%s.%s type", rel, name))
		}
	}
	// method set of *T (includes promoted methods of embedded fields)
	ms := types.NewMethodSet(types.NewPointer(n))
	for i := 0; i < ms.Len(); i++ {
		m := ms.At(i).Obj().(*types.Func)
		if !m.Exported() {
			continue
		}
		if l, ok := sigLine(fmt.Sprintf("%s.(%s).%s", rel, name, m.Name()), m.Type().(*types.Signature)); ok {
			res = append(res, l)
		}
	}
	return res
}
