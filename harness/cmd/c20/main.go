// Command c20 records the random regions' carriers for C20 (freshness): every randomized key type x
// variant is called n times under ONE key, spread over two OS processes x two separately parsed
// handles x two primitive instances (a per-instance counter or a time/constant-seeded generator
// repeats across instances and processes; the last instance of every handle is called from 4
// goroutines at once), and the complete outputs are logged. Nothing is judged
// here: spec/trace/Trace_Freshness.tla cuts the random fields out by the wire-format offsets and
// runs the monitors of spec/sys/Freshness.tla.
//
//	c20 -init keys.json [-only name]           generate one real key per key type (keyset export, hex)
//	c20 -keys keys.json -proc P -out f.ndjson  the calls of process P (0 or 1)
package main

import (
	"bytes"
	"encoding/json"
	"flag"
	"fmt"
	"os"
	"runtime"
	"strings"
	"sync"

	"verifharness/conc"
	"verifharness/vt"

	"github.com/tink-crypto/tink-go/v2/aead"
	"github.com/tink-crypto/tink-go/v2/aead/aesgcm"
	"github.com/tink-crypto/tink-go/v2/hybrid"
	"github.com/tink-crypto/tink-go/v2/jwt"
	"github.com/tink-crypto/tink-go/v2/keyset"
	"github.com/tink-crypto/tink-go/v2/secretdata"
	"github.com/tink-crypto/tink-go/v2/signature"
	"github.com/tink-crypto/tink-go/v2/signprehash"
	"github.com/tink-crypto/tink-go/v2/streamingaead"
)

const (
	nHandles    = 2
	nInstances  = 2
	nProcs      = 2
	nGoroutines = 4 // on the last instance of every handle
)

// block is one per-key history in keys.json.
type block struct {
	Key     string         `json:"key"`
	Kind    string         `json:"kind"` // aead stream hpke ecies sig keyid keygen
	Cfg     map[string]any `json:"cfg"`
	Target  string         `json:"target"`  // name in conc.Targets
	N       int            `json:"n"`       // calls over all processes
	Keyset  string         `json:"keyset"`  // hex export (empty for keyid / keygen)
	KeyID   uint32         `json:"keyid"`   // NoReadback keys: Keyset holds the private key bytes, rebuilt with this id
	Raw     string         `json:"raw"`     // entry point over raw key bytes (raw.go); Keyset holds the key bytes
	Classes []string       `json:"classes"` // input classes the calls rotate through
}

type keysFile struct {
	Tier   string  `json:"tier"`
	Blocks []block `json:"blocks"`
}

func callsFor(t conc.Target, full bool) int {
	n := 512
	if full {
		n = 4096
	}
	if t.Big {
		n /= 4
	}
	if t.Cost == 2 {
		n /= 8
	}
	return n
}

func keygenFor(t conc.Target, full bool) int {
	n := 64
	if full {
		n = 512
	}
	if t.Slow {
		n /= 16
	}
	return n
}

func initKeys(path, only string) {
	full := vt.Thorough()
	kf := keysFile{Tier: vt.Tier()}
	ts := conc.Targets(full)
	var mu sync.Mutex
	var wg sync.WaitGroup
	blocks := make([]*block, len(ts))
	for i, t := range ts {
		if t.Kind == "" || (only != "" && only != t.Name) {
			continue
		}
		wg.Add(1)
		go func(i int, t conc.Target) {
			defer wg.Done()
			h, _, err := conc.NewHandle(t.Params)
			if err != nil {
				vt.Fatal("generate %s: %v", t.Name, err)
			}
			b := &block{Key: t.Name, Kind: t.Kind, Cfg: t.Cfg, Target: t.Name, N: callsFor(t, full), Classes: classNames()}
			if t.NoReadback {
				kb, id := conc.KeyBytes(h)
				b.Keyset, b.KeyID = vt.Hex(kb), id
			} else {
				b.Keyset = vt.Hex(conc.Export(h))
			}
			mu.Lock()
			blocks[i] = b
			mu.Unlock()
		}(i, t)
	}
	wg.Wait()
	for _, b := range blocks {
		if b != nil {
			kf.Blocks = append(kf.Blocks, *b)
		}
	}
	for _, rt := range rawTargets() {
		if only != "" && only != rt.name {
			continue
		}
		n := 512
		if full {
			n = 4096
		}
		kf.Blocks = append(kf.Blocks, block{Key: rt.name, Kind: rt.kind, Cfg: rt.cfg, Raw: rt.name, N: n, Keyset: vt.Hex(rt.genKey()), Classes: classNames()})
	}
	idn := 512
	if full {
		idn = 4096
	}
	if only == "" || only == "keyid" {
		kf.Blocks = append(kf.Blocks, block{Key: "keyid", Kind: "keyid", Cfg: map[string]any{"variant": "NO_PREFIX"}, N: idn, Classes: []string{}})
	}
	for _, t := range ts {
		k := "keygen/" + t.Name
		if only != "" && only != k {
			continue
		}
		kf.Blocks = append(kf.Blocks, block{Key: k, Kind: "keygen", Cfg: map[string]any{"variant": "NO_PREFIX"}, Target: t.Name, N: keygenFor(t, full), Classes: []string{}})
	}
	b, _ := json.Marshal(kf)
	if err := os.WriteFile(path, b, 0o600); err != nil {
		vt.Fatal("write %s: %v", path, err)
	}
	fmt.Printf("c20: %d key histories planned (%s)\n", len(kf.Blocks), kf.Tier)
}

// The calls of one key rotate through INPUT CLASSES: the message / plaintext length (an empty input is
// where an input-dependent fast path skips the draw); within a class the message is the same every
// time ("repeated signing of one message"). The associated data / context info rotates independently.
var (
	lens = []int{0, 1, 15, 16, 17, 100}
	ads  = [][]byte{nil, {}, []byte("associated data")}
)

func classNames() []string {
	out := make([]string, len(lens))
	for i, n := range lens {
		out[i] = fmt.Sprintf("len%d", n)
	}
	return out
}

// input returns the i-th call's message, associated data and class name.
func input(i int) ([]byte, []byte, string) {
	n := lens[i%len(lens)]
	return bytes.Repeat([]byte{'m'}, n), ads[(i/len(lens))%len(ads)], fmt.Sprintf("len%d", n)
}

// caller returns a function performing the i-th randomized call on a NEW primitive instance made from h.
func caller(t *conc.Target, h *keyset.Handle) func(i int) ([]byte, string) {
	switch t.Class {
	case "aead":
		p, err := aead.New(h)
		chk(t, err)
		return func(i int) ([]byte, string) {
			msg, ad, cls := input(i)
			c, err := p.Encrypt(msg, ad)
			chk(t, err)
			return c, cls
		}
	case "saead":
		p, err := streamingaead.New(h)
		chk(t, err)
		return func(i int) ([]byte, string) {
			msg, ad, cls := input(i)
			var b bytes.Buffer
			w, err := p.NewEncryptingWriter(&b, ad)
			chk(t, err)
			if len(msg) > 0 { // the empty stream: no Write at all
				_, err = w.Write(msg)
				chk(t, err)
			}
			chk(t, w.Close())
			return b.Bytes(), cls
		}
	case "hybrid":
		pub, err := h.Public()
		chk(t, err)
		p, err := hybrid.NewHybridEncrypt(pub)
		chk(t, err)
		return func(i int) ([]byte, string) {
			msg, ctx, cls := input(i)
			c, err := p.Encrypt(msg, ctx)
			chk(t, err)
			return c, cls
		}
	case "sig":
		p, err := signature.NewSigner(h)
		chk(t, err)
		return func(i int) ([]byte, string) {
			msg, _, cls := input(i)
			s, err := p.Sign(msg)
			chk(t, err)
			return s, cls
		}
	case "prehash":
		pub, err := h.Public()
		chk(t, err)
		ph, err := signprehash.NewPrehash(pub)
		chk(t, err)
		p, err := signprehash.NewPrehashSigner(h)
		chk(t, err)
		return func(i int) ([]byte, string) {
			msg, _, cls := input(i)
			d, err := ph.ComputePrehash(msg)
			chk(t, err)
			s, err := p.SignPrehash(d) // the same prehash every time within a class
			chk(t, err)
			return s, cls
		}
	case "jwtsig":
		p, err := jwt.NewSigner(h)
		chk(t, err)
		raws := make([]*jwt.RawJWT, len(lens))
		for k, n := range lens {
			sub := strings.Repeat("s", n)
			raw, err := jwt.NewRawJWT(&jwt.RawJWTOptions{Subject: &sub, WithoutExpiration: true})
			chk(t, err)
			raws[k] = raw
		}
		return func(i int) ([]byte, string) {
			_, _, cls := input(i)
			s, err := p.SignAndEncode(raws[i%len(lens)])
			chk(t, err)
			return []byte(s), cls
		}
	}
	vt.Fatal("no randomized call for class %s", t.Class)
	return nil
}

func chk(t *conc.Target, err error) {
	if err != nil {
		vt.Fatal("%s: call failed on a valid key: %v", t.Name, err)
	}
}

type sink struct {
	key string
	p   int
	k   int
	evs []vt.Ev
}

func (s *sink) emit(out []byte, h, inst int, aux string) { s.emitCls(out, h, inst, aux, "") }

func (s *sink) emitCls(out []byte, h, inst int, aux, cls string) {
	e := vt.Ev{"ev": "emit", "key": s.key, "out": vt.Hex(out), "p": s.p, "h": h, "inst": inst, "k": s.k}
	if cls != "" {
		e["cls"] = cls
	}
	if aux != "" {
		e["aux"] = aux
	}
	s.k++
	s.evs = append(s.evs, e)
}

func runBlock(b block, ts []conc.Target, proc int) []vt.Ev {
	s := &sink{key: b.Key, p: proc}
	per := b.N / nProcs
	switch b.Kind {
	case "keyid":
		// manager A: Add(template); manager B: AddNewKeyFromParameters; the rest: keyset.NewHandle (one manager each)
		tmpl := aead.AES128GCMKeyTemplate()
		prm := conc.Find(ts, "AESGCM128/NO_PREFIX").Params
		ma, mb := keyset.NewManager(), keyset.NewManager()
		for i := 0; i < per/2; i++ {
			id, err := ma.Add(tmpl)
			if err != nil {
				vt.Fatal("Manager.Add: %v", err)
			}
			s.emit(idBytes(id), 0, 0, fmt.Sprintf("p%d-A", proc))
		}
		for i := 0; i < per/4; i++ {
			id, err := mb.AddNewKeyFromParameters(prm)
			if err != nil {
				vt.Fatal("Manager.AddNewKeyFromParameters: %v", err)
			}
			s.emit(idBytes(id), 1, 0, fmt.Sprintf("p%d-B", proc))
		}
		// manager D: the draw loop itself, scripted through the verif hook keyset.VerifDraw (it sees every real draw
		// and may replace it). A draw may collide with (a) an id currently in the keyset, (b) the id of a deleted key,
		// (c) several such ids in a row; every value the draw source returned during the call is logged ("draws")
		// next to the id handed out: the id must be the LAST draw (a value of the uniform source, not something
		// derived from a taken id) and every earlier draw must have been unavailable. A key that requires a
		// deleted id must be refused. "manager,id" must never repeat, also across Delete.
		md := keyset.NewManager()
		mgrD := fmt.Sprintf("p%d-D", proc)
		var live, deleted []uint32
		addD := func(script []uint32) uint32 {
			var seen []string
			keyset.VerifDraw = func(real uint32) uint32 {
				v := real
				if len(script) > 0 {
					v, script = script[0], script[1:]
				}
				seen = append(seen, vt.Hex(idBytes(v)))
				return v
			}
			id, err := md.Add(tmpl)
			keyset.VerifDraw = nil
			must(err, "Manager.Add")
			s.emit(idBytes(id), 3, 0, mgrD)
			s.evs[len(s.evs)-1]["draws"] = seen
			live = append(live, id)
			return id
		}
		p0 := addD(nil)
		must(md.SetPrimary(p0), "Manager.SetPrimary")
		tinkPrm := conc.Find(ts, "AESGCM128/TINK").Params.(*aesgcm.Parameters)
		for c := 0; c < 10 && s.k+3 < per; c++ {
			x := addD(nil)
			must(md.Delete(x), "Manager.Delete")
			live = live[:len(live)-1]
			deleted = append(deleted, x)
			switch c % 4 {
			case 0: // (b) the next draw is the deleted id
				addD([]uint32{x})
			case 1: // (a) the next draw is an id currently in the keyset
				addD([]uint32{live[c%len(live)]})
			case 2: // (c) several collisions in a row: live, deleted, live, deleted
				addD([]uint32{p0, x, live[len(live)-1], deleted[0]})
			default: // a key that REQUIRES the deleted id
				kb, err := secretdata.NewBytesFromRand(16)
				must(err, "key bytes")
				k, err := aesgcm.NewKey(kb, x, tinkPrm)
				must(err, "aesgcm.NewKey")
				if id, err := md.AddKey(k); err == nil { // handed out: logged (a repeat if it is the deleted id)
					s.emit(idBytes(id), 3, 0, mgrD)
				}
			}
		}
		for i := 0; s.k < per; i++ {
			h, err := keyset.NewHandle(tmpl)
			if err != nil {
				vt.Fatal("keyset.NewHandle: %v", err)
			}
			s.emit(idBytes(h.KeysetInfo().GetPrimaryKeyId()), 2, i, fmt.Sprintf("p%d-N%d", proc, i))
		}
	case "keygen":
		t := conc.Find(ts, b.Target)
		for i := 0; i < per; i++ {
			h, _, err := conc.NewHandle(t.Params)
			if err != nil {
				vt.Fatal("generate %s: %v", t.Name, err)
			}
			ks := conc.Material(h)
			s.emit(ks.GetKey()[0].GetKeyData().GetValue(), 0, i, "")
		}
	default:
		t := conc.Find(ts, b.Target)
		rt := findRaw(b.Raw)
		if t == nil && rt == nil {
			vt.Fatal("unknown target of history %s", b.Key)
		}
		raw := vt.Unhex(b.Keyset)
		each := per / (nHandles * nInstances)
		if each < 1 {
			each = 1
		}
		for h := 0; h < nHandles; h++ {
			var kh *keyset.Handle
			switch {
			case rt != nil: // raw key bytes: every instance is built from a fresh copy of them
			case t.NoReadback:
				kh = conc.Rebuild(t, raw, b.KeyID) // a separately built handle of the same key
			default:
				kh = conc.Import(raw) // a separately parsed handle of the same key
			}
			for inst := 0; inst < nInstances; inst++ {
				var call func(int) ([]byte, string)
				if rt != nil {
					call = rt.mk(append([]byte{}, raw...)) // a new primitive instance
				} else {
					call = caller(t, kh) // a new primitive instance
				}
				if inst == nInstances-1 && each >= 2*nGoroutines {
					// the last instance is shared by several goroutines calling at once: state kept in the primitive
					// (a nonce scratch buffer, a counter) repeats or tears values only under concurrency
					type oc struct {
						out []byte
						cls string
					}
					outs := make([][]oc, nGoroutines)
					start := make(chan struct{})
					var wg sync.WaitGroup
					for g := 0; g < nGoroutines; g++ {
						wg.Add(1)
						go func(g int) {
							defer wg.Done()
							<-start
							for i := g; i < each; i += nGoroutines {
								o, c := call(i)
								outs[g] = append(outs[g], oc{o, c})
							}
						}(g)
					}
					close(start)
					wg.Wait()
					for g := range outs {
						for _, o := range outs[g] {
							s.emitCls(o.out, h, inst, "", o.cls)
						}
					}
					continue
				}
				for i := 0; i < each; i++ {
					o, c := call(i + inst) // the instances start at different classes
					s.emitCls(o, h, inst, "", c)
				}
			}
		}
	}
	return s.evs
}

func must(err error, what string) {
	if err != nil {
		vt.Fatal("%s: %v", what, err)
	}
}

func idBytes(id uint32) []byte {
	return []byte{byte(id >> 24), byte(id >> 16), byte(id >> 8), byte(id)}
}

func runProc(keys, out string, proc int) {
	raw, err := os.ReadFile(keys)
	if err != nil {
		vt.Fatal("read %s: %v", keys, err)
	}
	var kf keysFile
	if err := json.Unmarshal(raw, &kf); err != nil {
		vt.Fatal("parse %s: %v", keys, err)
	}
	ts := conc.Targets(kf.Tier == "thorough")
	w := vt.NewWriter(out)
	res := make([][]vt.Ev, len(kf.Blocks))
	sem := make(chan struct{}, runtime.NumCPU())
	var wg sync.WaitGroup
	for i, b := range kf.Blocks { // key ids first, alone: the scripted draw hook is process-global
		if b.Kind == "keyid" {
			res[i] = runBlock(b, ts, proc)
		}
	}
	for i, b := range kf.Blocks {
		if b.Kind == "keyid" {
			continue
		}
		wg.Add(1)
		sem <- struct{}{}
		go func(i int, b block) {
			defer wg.Done()
			defer func() { <-sem }()
			res[i] = runBlock(b, ts, proc)
		}(i, b)
	}
	wg.Wait()
	for _, evs := range res {
		for _, e := range evs {
			w.Emit(e)
		}
	}
	w.Close()
	fmt.Printf("c20: process %d recorded %d calls under %d keys\n", proc, w.Count(), len(kf.Blocks))
}

func main() {
	initp := flag.String("init", "", "write the key file")
	keys := flag.String("keys", "", "key file")
	proc := flag.Int("proc", 0, "process number")
	out := flag.String("out", "", "trace file")
	only := flag.String("only", "", "restrict to one key history")
	flag.Parse()
	switch {
	case *initp != "":
		initKeys(*initp, *only)
	case *keys != "" && *out != "":
		runProc(*keys, *out, *proc)
	default:
		vt.Fatal("usage: c20 -init keys.json | -keys keys.json -proc P -out trace.ndjson")
	}
}
