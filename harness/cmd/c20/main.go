// Command c20 records the random regions' carriers for C20 (freshness): every randomized key type x
// variant is called n times under ONE key, spread over two OS processes x two separately parsed
// handles x two primitive instances (a per-instance counter or a time/constant-seeded generator
// repeats across instances and processes; the last instance of every handle is called from 4
// goroutines at once), and the complete outputs are logged. Nothing is judged
// here: spec/trace/Trace_Freshness.tla cuts the random fields out by the wire-format offsets and
// runs the monitors of spec/sys/Freshness.tla.
//
//	c20 -init keys.json [-only name]           generate one real key per key type (keyset export, hex)
//	c20 -keys keys.json -proc P -out f.ndjson  the calls of process P (0 or 1)
package main

import (
	"bytes"
	"encoding/json"
	"flag"
	"fmt"
	"os"
	"runtime"
	"sync"

	"verifharness/conc"
	"verifharness/vt"

	"github.com/tink-crypto/tink-go/v2/aead"
	"github.com/tink-crypto/tink-go/v2/hybrid"
	"github.com/tink-crypto/tink-go/v2/jwt"
	"github.com/tink-crypto/tink-go/v2/keyset"
	"github.com/tink-crypto/tink-go/v2/signature"
	"github.com/tink-crypto/tink-go/v2/streamingaead"
)

const (
	nHandles    = 2
	nInstances  = 2
	nProcs      = 2
	nGoroutines = 4 // on the last instance of every handle
)

// block is one per-key history in keys.json.
type block struct {
	Key    string         `json:"key"`
	Kind   string         `json:"kind"` // aead stream hpke ecies sig keyid keygen
	Cfg    map[string]any `json:"cfg"`
	Target string         `json:"target"` // name in conc.Targets
	N      int            `json:"n"`      // calls over all processes
	Keyset string         `json:"keyset"` // hex export (empty for keyid / keygen)
}

type keysFile struct {
	Tier   string  `json:"tier"`
	Blocks []block `json:"blocks"`
}

func callsFor(t conc.Target, full bool) int {
	n := 512
	if full {
		n = 4096
	}
	if t.Big {
		n /= 4
	}
	if t.Cost == 2 {
		n /= 8
	}
	return n
}

func keygenFor(t conc.Target, full bool) int {
	n := 64
	if full {
		n = 512
	}
	if t.Slow {
		n /= 16
	}
	return n
}

func initKeys(path, only string) {
	full := vt.Thorough()
	kf := keysFile{Tier: vt.Tier()}
	ts := conc.Targets(full)
	var mu sync.Mutex
	var wg sync.WaitGroup
	blocks := make([]*block, len(ts))
	for i, t := range ts {
		if t.Kind == "" || (only != "" && only != t.Name) {
			continue
		}
		wg.Add(1)
		go func(i int, t conc.Target) {
			defer wg.Done()
			h, _, err := conc.NewHandle(t.Params)
			if err != nil {
				vt.Fatal("generate %s: %v", t.Name, err)
			}
			mu.Lock()
			blocks[i] = &block{Key: t.Name, Kind: t.Kind, Cfg: t.Cfg, Target: t.Name, N: callsFor(t, full), Keyset: vt.Hex(conc.Export(h))}
			mu.Unlock()
		}(i, t)
	}
	wg.Wait()
	for _, b := range blocks {
		if b != nil {
			kf.Blocks = append(kf.Blocks, *b)
		}
	}
	idn := 512
	if full {
		idn = 4096
	}
	if only == "" || only == "keyid" {
		kf.Blocks = append(kf.Blocks, block{Key: "keyid", Kind: "keyid", Cfg: map[string]any{"variant": "NO_PREFIX"}, N: idn})
	}
	for _, t := range ts {
		k := "keygen/" + t.Name
		if only != "" && only != k {
			continue
		}
		kf.Blocks = append(kf.Blocks, block{Key: k, Kind: "keygen", Cfg: map[string]any{"variant": "NO_PREFIX"}, Target: t.Name, N: keygenFor(t, full)})
	}
	b, _ := json.Marshal(kf)
	if err := os.WriteFile(path, b, 0o600); err != nil {
		vt.Fatal("write %s: %v", path, err)
	}
	fmt.Printf("c20: %d key histories planned (%s)\n", len(kf.Blocks), kf.Tier)
}

var (
	msg = []byte("the same message every time")
	ad  = []byte("associated data")
)

// caller returns a function performing one randomized call on a NEW primitive instance made from h.
func caller(t *conc.Target, h *keyset.Handle) func() []byte {
	switch t.Class {
	case "aead":
		p, err := aead.New(h)
		chk(t, err)
		return func() []byte { c, err := p.Encrypt(msg, ad); chk(t, err); return c }
	case "saead":
		p, err := streamingaead.New(h)
		chk(t, err)
		return func() []byte {
			var b bytes.Buffer
			w, err := p.NewEncryptingWriter(&b, ad)
			chk(t, err)
			_, err = w.Write(msg)
			chk(t, err)
			chk(t, w.Close())
			return b.Bytes()
		}
	case "hybrid":
		pub, err := h.Public()
		chk(t, err)
		p, err := hybrid.NewHybridEncrypt(pub)
		chk(t, err)
		return func() []byte { c, err := p.Encrypt(msg, ad); chk(t, err); return c }
	case "sig":
		p, err := signature.NewSigner(h)
		chk(t, err)
		return func() []byte { s, err := p.Sign(msg); chk(t, err); return s }
	case "jwtsig":
		p, err := jwt.NewSigner(h)
		chk(t, err)
		sub := "subject"
		raw, err := jwt.NewRawJWT(&jwt.RawJWTOptions{Subject: &sub, WithoutExpiration: true})
		chk(t, err)
		return func() []byte { s, err := p.SignAndEncode(raw); chk(t, err); return []byte(s) }
	}
	vt.Fatal("no randomized call for class %s", t.Class)
	return nil
}

func chk(t *conc.Target, err error) {
	if err != nil {
		vt.Fatal("%s: call failed on a valid key: %v", t.Name, err)
	}
}

type sink struct {
	key string
	p   int
	k   int
	evs []vt.Ev
}

func (s *sink) emit(out []byte, h, inst int, aux string) {
	e := vt.Ev{"ev": "emit", "key": s.key, "out": vt.Hex(out), "p": s.p, "h": h, "inst": inst, "k": s.k}
	if aux != "" {
		e["aux"] = aux
	}
	s.k++
	s.evs = append(s.evs, e)
}

func runBlock(b block, ts []conc.Target, proc int) []vt.Ev {
	s := &sink{key: b.Key, p: proc}
	per := b.N / nProcs
	switch b.Kind {
	case "keyid":
		// manager A: Add(template); manager B: AddNewKeyFromParameters; the rest: keyset.NewHandle (one manager each)
		tmpl := aead.AES128GCMKeyTemplate()
		prm := conc.Find(ts, "AESGCM128/NO_PREFIX").Params
		ma, mb := keyset.NewManager(), keyset.NewManager()
		for i := 0; i < per/2; i++ {
			id, err := ma.Add(tmpl)
			if err != nil {
				vt.Fatal("Manager.Add: %v", err)
			}
			s.emit(idBytes(id), 0, 0, fmt.Sprintf("p%d-A", proc))
		}
		for i := 0; i < per/4; i++ {
			id, err := mb.AddNewKeyFromParameters(prm)
			if err != nil {
				vt.Fatal("Manager.AddNewKeyFromParameters: %v", err)
			}
			s.emit(idBytes(id), 1, 0, fmt.Sprintf("p%d-B", proc))
		}
		for i := 0; s.k < per; i++ {
			h, err := keyset.NewHandle(tmpl)
			if err != nil {
				vt.Fatal("keyset.NewHandle: %v", err)
			}
			s.emit(idBytes(h.KeysetInfo().GetPrimaryKeyId()), 2, i, fmt.Sprintf("p%d-N%d", proc, i))
		}
	case "keygen":
		t := conc.Find(ts, b.Target)
		for i := 0; i < per; i++ {
			h, _, err := conc.NewHandle(t.Params)
			if err != nil {
				vt.Fatal("generate %s: %v", t.Name, err)
			}
			ks := conc.Material(h)
			s.emit(ks.GetKey()[0].GetKeyData().GetValue(), 0, i, "")
		}
	default:
		t := conc.Find(ts, b.Target)
		raw := vt.Unhex(b.Keyset)
		each := per / (nHandles * nInstances)
		if each < 1 {
			each = 1
		}
		for h := 0; h < nHandles; h++ {
			kh := conc.Import(raw) // a separately parsed handle of the same key
			for inst := 0; inst < nInstances; inst++ {
				call := caller(t, kh) // a new primitive instance
				if inst == nInstances-1 && each >= 2*nGoroutines {
					// the last instance is shared by several goroutines calling at once: state kept in the primitive
					// (a nonce scratch buffer, a counter) repeats or tears values only under concurrency
					outs := make([][][]byte, nGoroutines)
					start := make(chan struct{})
					var wg sync.WaitGroup
					for g := 0; g < nGoroutines; g++ {
						wg.Add(1)
						go func(g int) {
							defer wg.Done()
							<-start
							for i := g; i < each; i += nGoroutines {
								outs[g] = append(outs[g], call())
							}
						}(g)
					}
					close(start)
					wg.Wait()
					for g := range outs {
						for _, o := range outs[g] {
							s.emit(o, h, inst, "")
						}
					}
					continue
				}
				for i := 0; i < each; i++ {
					s.emit(call(), h, inst, "")
				}
			}
		}
	}
	return s.evs
}

func idBytes(id uint32) []byte {
	return []byte{byte(id >> 24), byte(id >> 16), byte(id >> 8), byte(id)}
}

func runProc(keys, out string, proc int) {
	raw, err := os.ReadFile(keys)
	if err != nil {
		vt.Fatal("read %s: %v", keys, err)
	}
	var kf keysFile
	if err := json.Unmarshal(raw, &kf); err != nil {
		vt.Fatal("parse %s: %v", keys, err)
	}
	ts := conc.Targets(kf.Tier == "thorough")
	w := vt.NewWriter(out)
	res := make([][]vt.Ev, len(kf.Blocks))
	sem := make(chan struct{}, runtime.NumCPU())
	var wg sync.WaitGroup
	for i, b := range kf.Blocks {
		wg.Add(1)
		sem <- struct{}{}
		go func(i int, b block) {
			defer wg.Done()
			defer func() { <-sem }()
			res[i] = runBlock(b, ts, proc)
		}(i, b)
	}
	wg.Wait()
	for _, evs := range res {
		for _, e := range evs {
			w.Emit(e)
		}
	}
	w.Close()
	fmt.Printf("c20: process %d recorded %d calls under %d keys\n", proc, w.Count(), len(kf.Blocks))
}

func main() {
	initp := flag.String("init", "", "write the key file")
	keys := flag.String("keys", "", "key file")
	proc := flag.Int("proc", 0, "process number")
	out := flag.String("out", "", "trace file")
	only := flag.String("only", "", "restrict to one key history")
	flag.Parse()
	switch {
	case *initp != "":
		initKeys(*initp, *only)
	case *keys != "" && *out != "":
		runProc(*keys, *out, *proc)
	default:
		vt.Fatal("usage: c20 -init keys.json | -keys keys.json -proc P -out trace.ndjson")
	}
}
