package main

// The randomized entry points that do not go through a keyset: the per-key constructor
// aesgcm.NewAEAD, the aead/subtle, streamingaead/subtle, signature/subtle and hybrid/subtle
// constructors over raw key bytes, and the KMS envelope AEAD. (Enumerated from the packages: every
// exported New* that returns something with Encrypt / Sign / NewEncryptingWriter and needs no
// internalapi.Token; the token-gated per-key constructors - ecdsa.NewSigner(key, token) ... - are what
// the keyset factories call and are reached through them.) One raw key per entry, shared by both
// processes through the key file.

import (
	"bytes"
	"crypto/ecdsa"
	"crypto/elliptic"
	"crypto/rand"
	"math/big"

	"verifharness/vt"

	"github.com/tink-crypto/tink-go/v2/aead"
	"github.com/tink-crypto/tink-go/v2/aead/aesgcm"
	aeadsubtle "github.com/tink-crypto/tink-go/v2/aead/subtle"
	hybridsubtle "github.com/tink-crypto/tink-go/v2/hybrid/subtle"
	"github.com/tink-crypto/tink-go/v2/insecuresecretdataaccess"
	macsubtle "github.com/tink-crypto/tink-go/v2/mac/subtle"
	"github.com/tink-crypto/tink-go/v2/secretdata"
	sigsubtle "github.com/tink-crypto/tink-go/v2/signature/subtle"
	streamsubtle "github.com/tink-crypto/tink-go/v2/streamingaead/subtle"
)

type rawTarget struct {
	name string
	kind string
	cfg  map[string]any
	big  bool
	// genKey makes the key material once (process "init"); mk builds a NEW primitive instance from it.
	genKey func() []byte
	mk     func(key []byte) func(i int) ([]byte, string)
}

func randKey(n int) func() []byte {
	return func() []byte {
		b := make([]byte, n)
		if _, err := rand.Read(b); err != nil {
			vt.Fatal("rand: %v", err)
		}
		return b
	}
}

type encrypter interface {
	Encrypt(pt, ad []byte) ([]byte, error)
}

func aeadCalls(name string, p encrypter, err error) func(i int) ([]byte, string) {
	must(err, name)
	return func(i int) ([]byte, string) {
		msg, ad, cls := input(i)
		c, err := p.Encrypt(msg, ad)
		must(err, name)
		return c, cls
	}
}

func aeadCfg(kt string, iv int) map[string]any {
	return map[string]any{"kt": kt, "variant": "NO_PREFIX", "ivLen": iv, "saltLen": 0}
}

// demHelper: AES-128-GCM as the ECIES DEM of hybrid/subtle.
type demHelper struct{}

func (demHelper) GetSymmetricKeySize() uint32          { return 16 }
func (demHelper) GetAEADOrDAEAD(k []byte) (any, error) { return aeadsubtle.NewAESGCM(k) }

func rawTargets() []rawTarget {
	return []rawTarget{
		{name: "aesgcm.NewAEAD", kind: "aead", cfg: aeadCfg("AESGCM", 12), genKey: randKey(32),
			mk: func(k []byte) func(int) ([]byte, string) {
				prm, err := aesgcm.NewParameters(aesgcm.ParametersOpts{KeySizeInBytes: 32, IVSizeInBytes: 12, TagSizeInBytes: 16, Variant: aesgcm.VariantNoPrefix})
				must(err, "aesgcm params")
				key, err := aesgcm.NewKey(secretdata.NewBytesFromData(k, insecuresecretdataaccess.Token{}), 0, prm)
				must(err, "aesgcm key")
				p, err := aesgcm.NewAEAD(key)
				return aeadCalls("aesgcm.NewAEAD", p, err)
			}},
		{name: "aead/subtle.NewAESGCM", kind: "aead", cfg: aeadCfg("AESGCM", 12), genKey: randKey(16),
			mk: func(k []byte) func(int) ([]byte, string) {
				p, err := aeadsubtle.NewAESGCM(k)
				return aeadCalls("subtle.NewAESGCM", p, err)
			}},
		{name: "aead/subtle.NewAESGCMSIV", kind: "aead", cfg: aeadCfg("AESGCMSIV", 12), genKey: randKey(32),
			mk: func(k []byte) func(int) ([]byte, string) {
				p, err := aeadsubtle.NewAESGCMSIV(k)
				return aeadCalls("subtle.NewAESGCMSIV", p, err)
			}},
		{name: "aead/subtle.NewChaCha20Poly1305", kind: "aead", cfg: aeadCfg("CHACHA", 12), genKey: randKey(32),
			mk: func(k []byte) func(int) ([]byte, string) {
				p, err := aeadsubtle.NewChaCha20Poly1305(k)
				return aeadCalls("subtle.NewChaCha20Poly1305", p, err)
			}},
		{name: "aead/subtle.NewXChaCha20Poly1305", kind: "aead", cfg: aeadCfg("XCHACHA", 24), genKey: randKey(32),
			mk: func(k []byte) func(int) ([]byte, string) {
				p, err := aeadsubtle.NewXChaCha20Poly1305(k)
				return aeadCalls("subtle.NewXChaCha20Poly1305", p, err)
			}},
		{name: "aead/subtle.NewEncryptThenAuthenticate(NewAESCTR)", kind: "aead", cfg: aeadCfg("AESCTRHMAC", 16), genKey: randKey(48),
			mk: func(k []byte) func(int) ([]byte, string) {
				ctr, err := aeadsubtle.NewAESCTR(k[:16], 16)
				must(err, "NewAESCTR")
				mac, err := macsubtle.NewHMAC("SHA256", k[16:], 16)
				must(err, "NewHMAC")
				p, err := aeadsubtle.NewEncryptThenAuthenticate(ctr, mac, 16)
				return aeadCalls("NewEncryptThenAuthenticate", p, err)
			}},
		{name: "aead/subtle.NewAESCTR", kind: "aead", cfg: aeadCfg("AESCTRHMAC", 12), genKey: randKey(32),
			mk: func(k []byte) func(int) ([]byte, string) {
				ctr, err := aeadsubtle.NewAESCTR(k, 12)
				must(err, "NewAESCTR")
				return func(i int) ([]byte, string) {
					msg, _, cls := input(i)
					c, err := ctr.Encrypt(msg)
					must(err, "AESCTR.Encrypt")
					return c, cls
				}
			}},
		{name: "aead.NewKMSEnvelopeAEAD2", kind: "envelope", cfg: map[string]any{"variant": "NO_PREFIX"}, genKey: randKey(32),
			mk: func(k []byte) func(int) ([]byte, string) {
				kek, err := aeadsubtle.NewAESGCM(k)
				must(err, "KEK")
				return aeadCalls("KMSEnvelopeAEAD", aead.NewKMSEnvelopeAEAD2(aead.AES128GCMKeyTemplate(), kek), nil)
			}},
		{name: "streamingaead/subtle.NewAESGCMHKDF", kind: "stream", cfg: map[string]any{"alg": "AESGCMHKDF", "keySize": 16}, genKey: randKey(32),
			mk: func(k []byte) func(int) ([]byte, string) {
				p, err := streamsubtle.NewAESGCMHKDF(k, "SHA256", 16, 4096, 0)
				must(err, "NewAESGCMHKDF")
				return func(i int) ([]byte, string) {
					msg, ad, cls := input(i)
					var b bytes.Buffer
					w, err := p.NewEncryptingWriter(&b, ad)
					must(err, "NewEncryptingWriter")
					if len(msg) > 0 {
						_, err = w.Write(msg)
						must(err, "Write")
					}
					must(w.Close(), "Close")
					return b.Bytes(), cls
				}
			}},
		{name: "streamingaead/subtle.NewAESCTRHMAC", kind: "stream", cfg: map[string]any{"alg": "AESCTRHMAC", "keySize": 32}, genKey: randKey(32),
			mk: func(k []byte) func(int) ([]byte, string) {
				p, err := streamsubtle.NewAESCTRHMAC(k, "SHA256", 32, "SHA256", 32, 4096, 0)
				must(err, "NewAESCTRHMAC")
				return func(i int) ([]byte, string) {
					msg, ad, cls := input(i)
					var b bytes.Buffer
					w, err := p.NewEncryptingWriter(&b, ad)
					must(err, "NewEncryptingWriter")
					if len(msg) > 0 {
						_, err = w.Write(msg)
						must(err, "Write")
					}
					must(w.Close(), "Close")
					return b.Bytes(), cls
				}
			}},
		{name: "signature/subtle.NewECDSASigner", kind: "sig", cfg: map[string]any{"variant": "NO_PREFIX"},
			genKey: func() []byte {
				k, err := ecdsa.GenerateKey(elliptic.P256(), rand.Reader)
				must(err, "ecdsa key")
				return k.D.FillBytes(make([]byte, 32))
			},
			mk: func(k []byte) func(int) ([]byte, string) {
				p, err := sigsubtle.NewECDSASigner("SHA256", "NIST_P256", "DER", k)
				must(err, "NewECDSASigner")
				return func(i int) ([]byte, string) {
					msg, _, cls := input(i)
					s, err := p.Sign(msg)
					must(err, "ECDSASigner.Sign")
					return s, cls
				}
			}},
		{name: "hybrid/subtle.NewECIESAEADHKDFHybridEncrypt", kind: "ecies",
			cfg: map[string]any{"curve": "P256", "fmt": "UNCOMPRESSED", "dem": "AES128GCM", "variant": "NO_PREFIX"},
			genKey: func() []byte {
				k, err := hybridsubtle.GenerateECDHKeyPair(elliptic.P256())
				must(err, "ecdh key")
				return append(k.PublicKey.Point.X.FillBytes(make([]byte, 32)), k.PublicKey.Point.Y.FillBytes(make([]byte, 32))...)
			},
			mk: func(k []byte) func(int) ([]byte, string) {
				pub := &hybridsubtle.ECPublicKey{Curve: elliptic.P256(), Point: hybridsubtle.ECPoint{X: new(big.Int).SetBytes(k[:32]), Y: new(big.Int).SetBytes(k[32:])}}
				p, err := hybridsubtle.NewECIESAEADHKDFHybridEncrypt(pub, []byte("salt"), "SHA256", "UNCOMPRESSED", demHelper{})
				return aeadCalls("ECIESAEADHKDFHybridEncrypt", p, err)
			}},
	}
}

func findRaw(name string) *rawTarget {
	ts := rawTargets()
	for i := range ts {
		if ts[i].name == name {
			return &ts[i]
		}
	}
	return nil
}
