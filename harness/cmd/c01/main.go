// c01: conformance driver for C01 (AEAD round trip and documented wire format) and C02 (AEAD never
// releases plaintext for a ciphertext it did not produce).  It executes the real Tink AEAD code over an
// enumerated space of key types x parameters x variants x key ids x routes x lengths x content classes
// and records one ndjson event per public call; spec/trace/Trace_AEAD.tla judges every event against the
// TLA+ reference of the documented wire format.  The driver never decides anything about an outcome.
//
//	-mode plan : write seal requests (chosen nonces) that TLC turns into ciphertexts (Plan_AEAD.tla)
//	-mode run  : execute Encrypt/Decrypt (Tink-made and specification-made ciphertexts, mutations) and log
//	-replay f  : re-execute the single call of a replay file against the current tree
package main

import (
	"bufio"
	"encoding/json"
	"flag"
	"fmt"
	"math/rand"
	"os"
	"path/filepath"

	"verifharness/vt"
)

var (
	prop    = flag.String("prop", "C01", "C01 | C02")
	mode    = flag.String("mode", "run", "plan | run")
	out     = flag.String("out", "", "output file (requests in plan mode, trace in run mode)")
	sealedF = flag.String("sealed", "", "ciphertexts made by the specification for the plan's requests")
	replayF = flag.String("replay", "", "replay file")
	wyDir   = flag.String("wy", "", "directory of Wycheproof vector files")
)

var variants = []string{"TINK", "CRUNCHY", "NO_PREFIX"}
var ids = []uint32{0, 1, 0x01020304, 0x7fffffff, 0x80000000, 0xffffffff}
var hashes = []string{"SHA1", "SHA224", "SHA256", "SHA384", "SHA512"}
var digest = map[string]int{"SHA1": 20, "SHA224": 28, "SHA256": 32, "SHA384": 48, "SHA512": 64}

// ------------------------------------------------------------------ the plan: targets
func mkKey(r *rand.Rand, n int, class int) []byte {
	switch class % 7 {
	case 5:
		return make([]byte, n) // all-zero key
	case 6:
		b := make([]byte, n)
		for i := range b {
			b[i] = 0xff
		}
		return b
	}
	return vt.Bytes(r, n)
}

// targets enumerates the configurations of this run deterministically from the seed.
func targets(full bool) []*target {
	r := vt.Rng(1)
	seed := int(vt.Seed())
	var ts []*target
	n := 0
	add := func(mode, route, dek string, keys ...keyCfg) {
		ts = append(ts, &target{Mode: mode, Route: route, Keys: keys, DEK: dek})
		n++
	}
	pick := func(i int) uint32 { return ids[(i+seed)%len(ids)] }
	kc := 0
	simple := func(kt string, keyLen int, v string, id uint32) keyCfg {
		kc++
		if len(ts) > 0 && kc%7 >= 5 && kc%14 < 7 { // all-00 / all-ff keys now and then, never twice in a keyset
			return keyCfg{KT: kt, Variant: v, ID: id, Key: mkKey(r, keyLen, kc)}
		}
		return keyCfg{KT: kt, Variant: v, ID: id, Key: vt.Bytes(r, keyLen)}
	}
	// AES-GCM, AES-GCM-SIV: key sizes x variants x routes
	for _, kt := range []string{"AESGCM", "AESGCMSIV"} {
		for ki, kl := range []int{16, 32} {
			for vi, v := range variants {
				add("keyset", "factory", "", simple(kt, kl, v, pick(n)))
				if full {
					for _, id := range ids {
						if v != "NO_PREFIX" {
							add("keyset", "factory", "", simple(kt, kl, v, id))
						}
					}
				}
				if kt == "AESGCM" && (full || (vi+ki)%2 == 0) {
					add("keyset", "ctor", "", simple(kt, kl, v, pick(n)))
				}
			}
			add("keyset", "proto", "", simple(kt, kl, "LEGACY", pick(n)))
			add("keyset", "subtle", "", simple(kt, kl, "NO_PREFIX", 0))
		}
	}
	for _, kt := range []string{"CHACHA", "XCHACHA"} {
		for _, v := range variants {
			add("keyset", "factory", "", simple(kt, 32, v, pick(n)))
		}
		add("keyset", "proto", "", simple(kt, 32, "LEGACY", pick(n)))
		add("keyset", "proto", "", simple(kt, 32, "TINK", pick(n)))
		add("keyset", "subtle", "", simple(kt, 32, "NO_PREFIX", 0))
	}
	// XAES-256-GCM: every salt size x {TINK, NO_PREFIX}
	for salt := 8; salt <= 12; salt++ {
		for _, v := range []string{"TINK", "NO_PREFIX"} {
			k := simple("XAES", 32, v, pick(n))
			k.SaltLen = salt
			add("keyset", "factory", "", k)
		}
	}
	kx := simple("XAES", 32, "TINK", 0xffffffff)
	kx.SaltLen = 12
	add("keyset", "proto", "", kx)
	// AES-CTR-HMAC: AES key x IV size x hash x tag size x HMAC key size x variant
	ctr := func(aes, iv int, h string, tag, hk int, v string, id uint32) keyCfg {
		return keyCfg{KT: "AESCTRHMAC", Variant: v, ID: id, Key: mkKey(r, aes, n), MKey: mkKey(r, hk, n+3), IVLen: iv, TagLen: tag, Hash: h}
	}
	// HMAC key sizes on both sides of both hash block sizes (64: SHA1/224/256, 128: SHA384/512)
	hks := []int{16, 32, 63, 64, 65, 100, 127, 128, 129, 200}
	ctrTarget := func(k int, aes, iv int, h string, tag, hk int) {
		v := variants[k%3]
		switch {
		case k%5 == 4:
			add("keyset", "proto", "", ctr(aes, iv, h, tag, hk, "LEGACY", pick(n)))
		case k%3 == 2:
			add("keyset", "subtle", "", ctr(aes, iv, h, tag, hk, "NO_PREFIX", 0))
		default:
			add("keyset", "factory", "", ctr(aes, iv, h, tag, hk, v, pick(n)))
		}
	}
	for hi, h := range hashes {
		mid := 11 + r.Intn(digest[h]-12)
		if full {
			// every tag size x every IV size, HMAC key size and AES key size rotating
			for tag := 10; tag <= digest[h]; tag++ {
				for iv := 12; iv <= 16; iv++ {
					k := tag*5 + iv + hi
					ctrTarget(k, []int{16, 32}[k%2], iv, h, tag, hks[k%len(hks)])
				}
			}
			// every HMAC key size x {min, mid, max} tag x both AES key sizes, IV size rotating
			for ki, hk := range hks {
				for ti, tag := range []int{10, mid, digest[h]} {
					for ai, aes := range []int{16, 32} {
						ctrTarget(ki+ti+ai+hi+1, aes, 12+(ki+ti+ai)%5, h, tag, hk)
					}
				}
			}
			continue
		}
		// quick: a seeded subset that always has, per hash, one key size <= 64, one in (64, 128] and one > 128,
		// crossed with {min, mid, max} tag; IV sizes 12..16 and both AES key sizes rotate through
		sizes := []int{[]int{16, 32, 63, 64}[(seed+hi)%4], []int{65, 100, 127, 128}[(seed+hi)%4], []int{129, 200}[(seed+hi)%2],
			[]int{64, 65, 128, 63}[(seed+2*hi)%4]}
		for si, hk := range sizes {
			for ti, tag := range []int{10, mid, digest[h]} {
				k := si*3 + ti + hi + seed
				ctrTarget(k, []int{16, 32}[k%2], 12+k%5, h, tag, hk)
			}
		}
	}
	// keysets of several keys: prefix-indexed lookup, then RAW fallback
	add("keyset", "factory", "", simple("AESGCM", 16, "TINK", 5), simple("AESGCM", 16, "NO_PREFIX", 0), simple("CHACHA", 32, "CRUNCHY", 6))
	add("keyset", "factory", "", simple("XCHACHA", 32, "NO_PREFIX", 0), simple("AESGCMSIV", 32, "TINK", 0xffffffff), simple("AESGCM", 32, "NO_PREFIX", 0))
	add("keyset", "proto", "", simple("AESGCM", 32, "LEGACY", 7), simple("AESGCM", 32, "TINK", 7+1), ctr(16, 12, "SHA256", 16, 32, "CRUNCHY", 0))
	// KMS envelope: every DEK template over an in-process remote AEAD (Tink AES-GCM keyset)
	for di, d := range dekSpecs {
		kekV := []string{"TINK", "NO_PREFIX", "CRUNCHY"}[di%3]
		add("envelope", "envelope2", d.Name, simple("AESGCM", []int{16, 32}[di%2], kekV, pick(n)))
		if full || di%3 == seed%3 {
			add("envelope", "kmskeyset", d.Name, simple("AESGCM", 32, "TINK", pick(n)))
		}
		if full || di%3 == (seed+1)%3 { // the envelope key itself carries an output prefix (legacy adapter of the factory)
			add("envelope", "kmskeyset", d.Name, simple("AESGCM", 16, "CRUNCHY", pick(n)))
			ts[len(ts)-1].Env = keyCfg{Variant: []string{"TINK", "CRUNCHY", "LEGACY"}[di%3], ID: pick(n + 1)}
		}
	}
	// size-controlled remotes: encrypted-DEK sizes around every boundary of the envelope code (4096 = the
	// largest Encrypt emits and therefore must round-trip; 4097: Encrypt may refuse), both envelope types
	for pi, padTo := range []int{200, 4095, 4096, 4097, 255, 256, 257, 4094} {
		if !full && pi >= 4 && pi-4 != seed%4 {
			continue
		}
		for ri, route := range []string{"envelope2", "envelopectx"} {
			d := dekSpecs[(pi*2+ri+seed)%len(dekSpecs)]
			add("envelope", route, d.Name, simple("AESGCM", []int{16, 32}[(pi+ri)%2], []string{"TINK", "NO_PREFIX"}[(pi+ri)%2], pick(n)))
			ts[len(ts)-1].RKind, ts[len(ts)-1].PadTo = "padded", padTo
		}
	}
	// the with-context envelope over a plain remote, every DEK template
	for di, d := range dekSpecs {
		if full || di%2 == seed%2 {
			add("envelope", "envelopectx", d.Name, simple("AESGCM", 32, "TINK", pick(n)))
		}
	}
	return ts
}

// core reports whether target ti gets the full-depth treatment in the thorough tier: everything except
// the ~1000 AES-CTR-HMAC parameter combinations, of which every eighth (rotating with the seed) is core.
func core(t *target, ti int) bool {
	every := 8
	return t.Mode != "keyset" || len(t.Keys) > 1 || t.Keys[0].KT != "AESCTRHMAC" || ti%every == int(vt.Seed())%every
}

// polyvalCost reports whether judging t's events evaluates POLYVAL in TLA+ (AES-GCM-SIV somewhere in it).
func polyvalCost(t *target) bool {
	if t.Mode == "envelope" {
		return dekByName(t.DEK).Cfg.KT == "AESGCMSIV"
	}
	for _, k := range t.Keys {
		if k.KT == "AESGCMSIV" {
			return true
		}
	}
	return false
}

var longLens = []int{1024, 2048, 4097}

// sivRank is the number of POLYVAL-costly targets before ti (-1 if ti is not one): the quick tier gives the
// full set of long inputs / the paired modifications to designated AES-GCM-SIV targets only.
func sivRank(ts []*target, ti int) int {
	if !polyvalCost(ts[ti]) || ts[ti].Mode != "keyset" || len(ts[ti].Keys) != 1 {
		return -1
	}
	n := 0
	for i := 0; i < ti; i++ {
		if polyvalCost(ts[i]) && ts[i].Mode == "keyset" && len(ts[i].Keys) == 1 {
			n++
		}
	}
	return n
}

// longCases: (plaintext length, associated-data length) pairs with one long side. Every target gets one long
// plaintext and one long AD (length rotating); designated AES-GCM-SIV targets (a subtle/16-byte-key and a
// factory/32-byte-key one in the quick tier) and, in the thorough tier, every core target get all lengths.
func longCases(ts []*target, ti int, full bool) [][2]int {
	rk := sivRank(ts, ti)
	all := (full && core(ts[ti], ti)) || (!full && (rk == 4 || rk == 5))
	var cs [][2]int
	for i, l := range longLens {
		if all || i == ti%3 {
			cs = append(cs, [2]int{l, 5})
		}
		if all || i == (ti+1)%3 {
			cs = append(cs, [2]int{20, l})
		}
	}
	return cs
}

// pairTarget: AES-GCM-SIV targets whose long ciphertexts get the paired block modifications (C02)
func pairTarget(ts []*target, ti int, full bool) bool {
	rk := sivRank(ts, ti)
	return rk == 4 || (full && rk >= 0)
}

var boundaryLens = []int{0, 1, 15, 16, 17, 31, 32, 33, 63, 64, 65, 255, 256, 257}

// ------------------------------------------------------------------ inputs
func ptLens(full bool, t *target, ti int) []int {
	if full && !core(t, ti) {
		return boundaryLens
	}
	if full {
		var ls []int
		for i := 0; i <= 300; i++ {
			ls = append(ls, i)
		}
		return append(ls, 511, 512, 513, 1024, 4095, 4096, 4097)
	}
	ls := []int{0}
	for i, l := range boundaryLens {
		if (i+ti)%2 == 0 && l != 0 {
			ls = append(ls, l)
		}
	}
	if ti%8 == 0 {
		ls = append(ls, 4097)
	}
	return ls
}

var adLens = []int{0, 0, 1, 15, 16, 17, 64, 255, 0, 3}

func content(r *rand.Rand, n, class int) []byte {
	b := make([]byte, n)
	switch class % 4 {
	case 0:
		r.Read(b)
	case 1:
	case 2:
		for i := range b {
			b[i] = 0xff
		}
	case 3:
		if n > 0 {
			b[r.Intn(n)] = 1 << uint(r.Intn(8))
		}
	}
	return b
}

// adOf returns the associated data of case i; nil and empty alternate for length 0.
func adOf(r *rand.Rand, i int) ([]byte, bool) {
	n := adLens[i%len(adLens)]
	if n == 0 {
		if i%2 == 0 {
			return nil, true
		}
		return []byte{}, false
	}
	return content(r, n, i/len(adLens)), false
}

func nonceOf(r *rand.Rand, n, class int) []byte {
	b := make([]byte, n)
	switch class % 4 {
	case 0:
		r.Read(b)
	case 1: // all-00
	case 2:
		for i := range b {
			b[i] = 0xff
		}
	case 3:
		for i := range b {
			b[i] = byte(i + 1)
		}
	}
	return b
}

// ------------------------------------------------------------------ seal requests (spec -> Tink)
type sealReq struct {
	N        int
	T        int // target index
	Key      int // which key of the keyset encrypts (keyset mode)
	Nonce    []byte
	Pt, Ad   []byte
	DekBytes []byte // envelope
	DekCfg   keyCfg
	KekNonce []byte
	Muts     bool // C02: derive mutations from this ciphertext
	Pairs    bool // C02: long ciphertext for the paired block modifications
}

func (q sealReq) j(t *target) map[string]any {
	keys := []any{}
	order := append([]keyCfg{t.Keys[q.Key]}, append(append([]keyCfg{}, t.Keys[:q.Key]...), t.Keys[q.Key+1:]...)...)
	for _, k := range order {
		keys = append(keys, k.j())
	}
	m := map[string]any{"n": q.N, "mode": t.Mode, "keys": keys, "dek": "", "ep": vt.Hex(t.envPrefix()), "rkind": t.rkind(), "padTo": t.PadTo, "nonce": vt.Hex(q.Nonce), "pt": vt.Hex(q.Pt),
		"ad": vt.Hex(q.Ad), "dekBytes": vt.Hex(q.DekBytes), "kekNonce": vt.Hex(q.KekNonce)}
	if t.Mode == "envelope" {
		m["dek"] = q.DekCfg.KT
	}
	return m
}

// requests enumerates, deterministically, the ciphertexts the specification is asked to make.
func requests(ts []*target, full bool) []sealReq {
	r := vt.Rng(2)
	var qs []sealReq
	for ti, t := range ts {
		if t.rkind() == "padded" && t.PadTo > 4096 {
			continue // beyond what Encrypt emits: Decrypt may refuse, nothing to replay from the specification
		}
		var lens []int
		if *prop == "C02" {
			lens = []int{1, 0}
			if full && core(t, ti) {
				lens = []int{1, 0, 16}
			} else if full {
				lens = []int{1}
			}
		} else if full && !core(t, ti) {
			lens = []int{0, 1, 16, 17, 33, 64}
		} else if full {
			for i := 0; i <= 80; i++ {
				lens = append(lens, i)
			}
			lens = append(lens, 127, 128, 129, 255, 256, 257, 1024, 4097)
		} else {
			lens = []int{0, 1, 16, []int{15, 17, 31, 32, 33, 64, 65, 257}[ti%8]}
		}
		emit := func(li, n, adLen, ki int, muts, pairs bool) {
			q := sealReq{N: len(qs), T: ti, Key: ki, Pt: content(r, n, li+ti), Muts: muts, Pairs: pairs}
			if adLen >= 0 {
				q.Ad = content(r, adLen, li+ti+1)
			} else {
				q.Ad, _ = adOf(r, li+ti+1)
			}
			if t.Mode == "envelope" {
				d := dekByName(t.DEK)
				c := d.Cfg
				c.Variant = "NO_PREFIX"
				c.Key = mkKey(r, len(c.Key), li+ti)
				c.MKey = vt.Bytes(r, len(c.MKey))
				q.DekCfg = c
				q.DekBytes = serializedKey(c)
				q.Nonce = nonceOf(r, c.nonceLen(), li+ti)
				q.KekNonce = nonceOf(r, 12, li+ti+1)
			} else {
				q.Nonce = nonceOf(r, t.Keys[ki].nonceLen(), li+ti)
			}
			qs = append(qs, q)
		}
		for li, n := range lens {
			for ki := range t.Keys {
				if t.Mode == "envelope" && ki > 0 {
					break
				}
				if ki > 0 && li > 1 {
					break
				}
				adLen := -1
				if *prop == "C01" && li == 3 && ki == 0 { // one specification-made ciphertext with long associated data
					adLen = []int{256, 8192, 300, 8193}[ti%4]
					if !full && polyvalCost(t) {
						adLen = 256 + ti%4
					}
				}
				emit(li, n, adLen, ki, *prop == "C02" && li == 0, false)
			}
		}
		// long inputs (bulk paths of the implementations): plaintext and associated data of 1 KiB, 2 KiB, 4 KiB + 1
		if *prop == "C01" {
			for _, c := range longCases(ts, ti, full) {
				emit(100+c[0]+c[1], c[0], c[1], 0, false, false)
			}
		} else if pairTarget(ts, ti, full) {
			emit(200, 1040, 1088, 0, false, true) // C02: long base for the paired-modification class
		}
	}
	return qs
}

var gTargets []*target

// ------------------------------------------------------------------ execution
type runner struct {
	w    *vt.Writer
	r    *rand.Rand
	full bool
	lay  int    // rotating frame layout of the next call
	buf  []byte // the frame, reused across calls
}

type pair struct{ ct, ad []byte }

func prodJSON(ps []pair) []any {
	o := []any{}
	for _, p := range ps {
		o = append(o, map[string]any{"ct": vt.Hex(p.ct), "ad": vt.Hex(p.ad)})
	}
	return o
}

// ------------------------------------------------------------------ caller-buffer discipline
// All inputs of one call live ADJACENT in one driver-owned frame that is reused across calls:
//
//	guard | first | [spare] | second | [spare] | guard | margin
//
// in both orders (lay%2: 0 = ciphertext/plaintext first, 1 = associated data first), slices with their natural
// (un-clipped) capacity, with (lay >= 2) or without a sentinel-filled spare capacity behind each slice.  Inputs
// are logged from pre-call copies; after the call the whole frame (guards, inputs, spare, margin) must be
// unchanged (`inIntact`): "decrypting returns exactly the plaintext" presupposes that Tink got, and left, the
// bytes the caller passed.  nil slices stay nil (nothing to place).
const (
	guardLen  = 16
	spareLen  = 24
	marginLen = 256
)

type placed struct {
	a, b  []byte // the slices handed to Tink
	frame []byte // region that must not change
	snap  []byte
}

func (x *runner) place(lay int, a, b []byte) *placed {
	sp := 0
	if lay >= 2 {
		sp = spareLen
	}
	total := 2*guardLen + len(a) + len(b) + 2*sp + marginLen
	if cap(x.buf) < total {
		x.buf = make([]byte, total+4096)
	}
	buf := x.buf[:cap(x.buf)]
	fr := buf[:total]
	for i := range fr {
		fr[i] = 0xee
	}
	first, second := a, b
	if lay%2 == 1 {
		first, second = b, a
	}
	off := guardLen
	put := func(src []byte) []byte {
		if src == nil {
			return nil
		}
		d := buf[off : off+len(src)] // natural capacity: runs on through everything behind it
		copy(d, src)
		off += len(src)
		for i := 0; i < sp; i++ {
			buf[off+i] = 0xa5
		}
		off += sp
		return d
	}
	for i := 0; i < guardLen; i++ {
		fr[i] = 0xc3
	}
	f1 := put(first)
	f2 := put(second)
	for i := 0; i < guardLen; i++ {
		buf[off+i] = 0xc3
	}
	p := &placed{frame: fr, snap: append([]byte{}, fr...)}
	if lay%2 == 1 {
		p.a, p.b = f2, f1
	} else {
		p.a, p.b = f1, f2
	}
	return p
}

func (p *placed) intact() bool { return string(p.frame) == string(p.snap) }

// encrypt performs one Encrypt (and the round trip through Tink's own Decrypt with nil/empty associated
// data interchanged) and logs it. Returns the ciphertext (nil on failure).
func (x *runner) encrypt(t *target, pt, ad []byte) []byte {
	var ct, back []byte
	var err, rerr error
	lay := x.lay % 4
	x.lay++
	in := x.place(lay, pt, ad)
	p, pv := vt.Try(func() { ct, err = t.a.Encrypt(in.a, in.b) })
	ct = append([]byte(nil), ct...) // the driver's own copy
	e := t.ev("encrypt")
	e["lay"], e["inIntact"] = lay, in.intact()
	e["pt"], e["ad"], e["adnil"] = vt.Hex(pt), vt.Hex(ad), ad == nil
	e["ct"], e["err"], e["panic"] = vt.Hex(ct), err != nil, p
	e["rtok"], e["rtout"], e["rtpanic"], e["rtIntact"] = false, "", false, true
	if p {
		e["panicVal"] = fmt.Sprint(pv)
	}
	if !p && err == nil {
		ad2 := ad
		if len(ad) == 0 { // nil and empty must be interchangeable
			if ad == nil {
				ad2 = []byte{}
			} else {
				ad2 = nil
			}
		}
		rin := x.place((lay+1)%4, ct, ad2) // the frame is reused, other order
		rp, rpv := vt.Try(func() { back, rerr = t.a.Decrypt(rin.a, rin.b) })
		e["rtok"], e["rtout"], e["rtpanic"], e["rtIntact"] = rerr == nil && !rp, vt.Hex(back), rp, rin.intact()
		if rp {
			e["panicVal"] = fmt.Sprint(rpv)
		}
	}
	x.w.Emit(e)
	if p || err != nil {
		return nil
	}
	return ct
}

// decrypt performs one Decrypt -- twice from the same frame -- and logs it with the pairs known to have been
// produced under the key.
func (x *runner) decrypt(t *target, kind, src string, ct, ad []byte, produced []pair, chk bool, want []byte) {
	var pt, pt2 []byte
	var err, err2 error
	lay := x.lay % 4
	x.lay++
	in := x.place(lay, ct, ad)
	p, pv := vt.Try(func() {
		pt, err = t.a.Decrypt(in.a, in.b)
		pt = append([]byte(nil), pt...)
		pt2, err2 = t.a.Decrypt(in.a, in.b)
	})
	e := t.ev("decrypt")
	e["kind"], e["src"] = kind, src
	e["lay"], e["inIntact"] = lay, in.intact()
	e["ct"], e["ad"], e["adnil"] = vt.Hex(ct), vt.Hex(ad), ad == nil
	e["produced"] = prodJSON(produced)
	e["chk"], e["want"] = chk, vt.Hex(want)
	e["ok"], e["out"], e["panic"] = err == nil && !p, vt.Hex(pt), p
	e["ok2"], e["out2"] = err2 == nil && !p, vt.Hex(pt2)
	if p {
		e["panicVal"] = fmt.Sprint(pv)
	}
	x.w.Emit(e)
}

func readSealed(path string) map[int][]byte {
	m := map[int][]byte{}
	if path == "" {
		return m
	}
	f, err := os.Open(path)
	if err != nil {
		vt.Fatal("open sealed: %v", err)
	}
	defer f.Close()
	sc := bufio.NewScanner(f)
	sc.Buffer(make([]byte, 1<<20), 1<<26)
	for sc.Scan() {
		var o struct {
			N  int    `json:"n"`
			Ct string `json:"ct"`
		}
		if err := json.Unmarshal(sc.Bytes(), &o); err != nil {
			vt.Fatal("bad sealed line: %v", err)
		}
		m[o.N] = vt.Unhex(o.Ct)
	}
	return m
}

func main() {
	flag.Parse()
	if *out == "" {
		vt.Fatal("usage: c01 -prop C01|C02 -mode plan|run -out file [-sealed file] [-wy dir] [-replay file]")
	}
	full := vt.Thorough()
	if *replayF != "" {
		w := vt.NewWriter(*out)
		defer w.Close()
		replay(*replayF, &runner{w: w, r: vt.Rng(9), full: full})
		return
	}
	ts := targets(full)
	gTargets = ts
	qs := requests(ts, full)
	if *mode == "plan" {
		w := vt.NewWriter(*out)
		for _, q := range qs {
			w.Emit(q.j(ts[q.T]))
		}
		w.Close()
		fmt.Printf("requests=%d targets=%d\n", len(qs), len(ts))
		return
	}
	sealed := readSealed(*sealedF)
	w := vt.NewWriter(*out)
	defer w.Close()
	x := &runner{w: w, r: vt.Rng(3), full: full}
	built := 0
	refused(x)
	for ti, t := range ts {
		if err := t.build(); err != nil {
			e := t.ev("construct")
			e["err"], e["errText"] = true, err.Error()
			w.Emit(e)
			continue
		}
		built++
		var mine []sealReq
		for _, q := range qs {
			if q.T == ti {
				mine = append(mine, q)
			}
		}
		if *prop == "C01" {
			runC01(x, t, ti, mine, sealed)
		} else {
			runC02(x, t, ti, mine, sealed)
		}
	}
	if *prop == "C01" {
		if *wyDir != "" {
			wycheproof(x, *wyDir)
		}
		hookEvents(x)
	}
	fmt.Printf("events=%d targets=%d built=%d requests=%d\n", w.Count(), len(ts), built, len(qs))
}

// refused records configurations the library is expected to refuse (coverage only, never judged).
func refused(x *runner) {
	r := vt.Rng(4)
	cs := []*target{
		{Mode: "keyset", Route: "factory", Keys: []keyCfg{{KT: "AESGCM", Variant: "TINK", ID: 1, Key: vt.Bytes(r, 24)}}},
		{Mode: "keyset", Route: "ctor", Keys: []keyCfg{{KT: "AESGCM", Variant: "TINK", ID: 1, Key: vt.Bytes(r, 16), IVLen: 16, TagLen: 16}}},
		{Mode: "keyset", Route: "ctor", Keys: []keyCfg{{KT: "AESGCM", Variant: "TINK", ID: 1, Key: vt.Bytes(r, 16), IVLen: 12, TagLen: 12}}},
		{Mode: "keyset", Route: "ctor", Keys: []keyCfg{{KT: "AESGCM", Variant: "TINK", ID: 1, Key: vt.Bytes(r, 24)}}},
		{Mode: "keyset", Route: "subtle", Keys: []keyCfg{{KT: "AESGCM", Variant: "NO_PREFIX", Key: vt.Bytes(r, 24)}}},
		{Mode: "keyset", Route: "subtle", Keys: []keyCfg{{KT: "AESGCMSIV", Variant: "NO_PREFIX", Key: vt.Bytes(r, 24)}}},
		{Mode: "keyset", Route: "subtle", Keys: []keyCfg{{KT: "CHACHA", Variant: "NO_PREFIX", Key: vt.Bytes(r, 31)}}},
		{Mode: "keyset", Route: "subtle", Keys: []keyCfg{{KT: "XCHACHA", Variant: "NO_PREFIX", Key: vt.Bytes(r, 33)}}},
		{Mode: "keyset", Route: "factory", Keys: []keyCfg{{KT: "XAES", Variant: "TINK", ID: 1, Key: vt.Bytes(r, 32), SaltLen: 7}}},
		{Mode: "keyset", Route: "factory", Keys: []keyCfg{{KT: "XAES", Variant: "TINK", ID: 1, Key: vt.Bytes(r, 32), SaltLen: 13}}},
		{Mode: "keyset", Route: "factory", Keys: []keyCfg{{KT: "XAES", Variant: "TINK", ID: 1, Key: vt.Bytes(r, 16), SaltLen: 12}}},
		{Mode: "keyset", Route: "factory", Keys: []keyCfg{{KT: "AESCTRHMAC", Variant: "TINK", ID: 1, Key: vt.Bytes(r, 24), MKey: vt.Bytes(r, 32), IVLen: 16, TagLen: 16, Hash: "SHA256"}}},
		{Mode: "keyset", Route: "factory", Keys: []keyCfg{{KT: "AESCTRHMAC", Variant: "TINK", ID: 1, Key: vt.Bytes(r, 16), MKey: vt.Bytes(r, 32), IVLen: 11, TagLen: 16, Hash: "SHA256"}}},
		{Mode: "keyset", Route: "factory", Keys: []keyCfg{{KT: "AESCTRHMAC", Variant: "TINK", ID: 1, Key: vt.Bytes(r, 16), MKey: vt.Bytes(r, 32), IVLen: 17, TagLen: 16, Hash: "SHA256"}}},
		{Mode: "keyset", Route: "factory", Keys: []keyCfg{{KT: "AESCTRHMAC", Variant: "TINK", ID: 1, Key: vt.Bytes(r, 16), MKey: vt.Bytes(r, 32), IVLen: 16, TagLen: 9, Hash: "SHA256"}}},
		{Mode: "keyset", Route: "factory", Keys: []keyCfg{{KT: "AESCTRHMAC", Variant: "TINK", ID: 1, Key: vt.Bytes(r, 16), MKey: vt.Bytes(r, 32), IVLen: 16, TagLen: 33, Hash: "SHA256"}}},
		{Mode: "keyset", Route: "factory", Keys: []keyCfg{{KT: "AESCTRHMAC", Variant: "TINK", ID: 1, Key: vt.Bytes(r, 16), MKey: vt.Bytes(r, 15), IVLen: 16, TagLen: 16, Hash: "SHA256"}}},
		{Mode: "keyset", Route: "subtle", Keys: []keyCfg{{KT: "AESCTRHMAC", Variant: "NO_PREFIX", Key: vt.Bytes(r, 16), MKey: vt.Bytes(r, 32), IVLen: 16, TagLen: 9, Hash: "SHA256"}}},
	}
	for _, t := range cs {
		var err error
		p, _ := vt.Try(func() { err = t.build() })
		e := t.ev("construct")
		e["err"], e["panic"], e["expectRefused"] = err != nil || p, p, true
		x.w.Emit(e)
	}
}

// ------------------------------------------------------------------ C01
func runC01(x *runner, t *target, ti int, mine []sealReq, sealed map[int][]byte) {
	// Tink -> spec: every length class, contents and associated-data classes
	for li, n := range ptLens(x.full, t, ti) {
		pt := content(x.r, n, li+ti)
		if n == 0 && li%2 == 1 {
			pt = nil
		}
		ad, _ := adOf(x.r, li+ti)
		x.encrypt(t, pt, ad)
	}
	// long associated data: lengths whose bit length crosses 2^8 bytes / 2^16 bits (length encodings)
	bigAD := []int{256, 257, 511, 8191, 8192, 8193, 1000, 4096}
	if !x.full && polyvalCost(t) { // POLYVAL in TLA+ costs ~1.5 ms per block: keep the quick tier's long AD short there
		bigAD = []int{256, 257, 511, 1000}
	}
	x.encrypt(t, content(x.r, 20, ti), content(x.r, bigAD[ti%len(bigAD)], ti/len(bigAD)))
	if x.full {
		x.encrypt(t, content(x.r, 33, ti), content(x.r, bigAD[(ti+3)%len(bigAD)], 0))
	}
	// long inputs (bulk paths): plaintext / associated data of 1 KiB, 2 KiB, 4 KiB + 1
	for ci, c := range longCases(gTargets, ti, x.full) {
		x.encrypt(t, content(x.r, c[0], ci+ti), content(x.r, c[1], ci+ti+1))
	}
	// spec -> Tink: ciphertexts made by the TLA+ reference with chosen nonces
	for _, q := range mine {
		ct, ok := sealed[q.N]
		if !ok {
			vt.Fatal("no sealed ciphertext for request %d", q.N)
		}
		ad := q.Ad
		if len(ad) == 0 && q.N%2 == 0 {
			ad = nil
		}
		x.decrypt(t, "exact", "spec", ct, ad, []pair{{ct, q.Ad}}, true, q.Pt)
	}
}

// ------------------------------------------------------------------ Wycheproof known answers -> Tink
type wyFile struct {
	TestGroups []struct {
		IvSize  int `json:"ivSize"`
		KeySize int `json:"keySize"`
		TagSize int `json:"tagSize"`
		Tests   []struct {
			TcID   int    `json:"tcId"`
			Key    string `json:"key"`
			Iv     string `json:"iv"`
			Aad    string `json:"aad"`
			Msg    string `json:"msg"`
			Ct     string `json:"ct"`
			Tag    string `json:"tag"`
			Result string `json:"result"`
		} `json:"tests"`
	} `json:"testGroups"`
}

var wyFiles = []struct{ file, kt string }{
	{"aes_gcm_test.json", "AESGCM"}, {"aes_gcm_siv_test.json", "AESGCMSIV"},
	{"chacha20_poly1305_test.json", "CHACHA"}, {"xchacha20_poly1305_test.json", "XCHACHA"},
}

func wycheproof(x *runner, dir string) {
	for _, wf := range wyFiles {
		raw, err := os.ReadFile(filepath.Join(dir, wf.file))
		if err != nil {
			vt.Fatal("wycheproof: %v", err)
		}
		var f wyFile
		if err := json.Unmarshal(raw, &f); err != nil {
			vt.Fatal("wycheproof %s: %v", wf.file, err)
		}
		n := 0
		for _, g := range f.TestGroups {
			nl := keyCfg{KT: wf.kt}.nonceLen()
			if g.IvSize != nl*8 || g.TagSize != 128 || (g.KeySize != 128 && g.KeySize != 256) {
				continue
			}
			for _, tc := range g.Tests {
				if tc.Result != "valid" && tc.Result != "invalid" {
					continue
				}
				n++
				if !x.full && wf.kt != "AESGCMSIV" && (n+int(vt.Seed()))%2 == 0 {
					continue
				}
				route := []string{"subtle", "factory"}[n%2]
				t := &target{Mode: "keyset", Route: route, Keys: []keyCfg{{KT: wf.kt, Variant: "NO_PREFIX", Key: vt.Unhex(tc.Key)}}}
				if err := t.build(); err != nil {
					e := t.ev("construct")
					e["err"], e["errText"] = true, err.Error()
					x.w.Emit(e)
					continue
				}
				ct := vt.Unhex(tc.Iv + tc.Ct + tc.Tag)
				ad := vt.Unhex(tc.Aad)
				var produced []pair
				if tc.Result == "valid" {
					produced = []pair{{ct, ad}}
				}
				x.decrypt(t, fmt.Sprintf("kat:%s#%d", wf.file, tc.TcID), "wycheproof", ct, ad, produced, tc.Result == "valid", vt.Unhex(tc.Msg))
			}
		}
	}
}
