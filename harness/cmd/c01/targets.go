package main

// Construction of real Tink AEAD primitives from an abstract key configuration, over every public
// route: keyset factory (aead.New) with keys built by the per-type key packages, keysets that went
// through the proto serialization (LEGACY output prefix), aesgcm.NewAEAD, aead/subtle constructors,
// KMS envelope AEAD (NewKMSEnvelopeAEAD2 and a KmsEnvelopeAeadKey keyset with a registered client).

import (
	"context"
	"fmt"
	"strings"
	"sync"

	"verifharness/vt"

	"github.com/tink-crypto/tink-go/v2/aead"
	"github.com/tink-crypto/tink-go/v2/aead/aesctrhmac"
	"github.com/tink-crypto/tink-go/v2/aead/aesgcm"
	"github.com/tink-crypto/tink-go/v2/aead/aesgcmsiv"
	"github.com/tink-crypto/tink-go/v2/aead/chacha20poly1305"
	aeadsubtle "github.com/tink-crypto/tink-go/v2/aead/subtle"
	"github.com/tink-crypto/tink-go/v2/aead/xaesgcm"
	"github.com/tink-crypto/tink-go/v2/aead/xchacha20poly1305"
	"github.com/tink-crypto/tink-go/v2/core/registry"
	"github.com/tink-crypto/tink-go/v2/insecurecleartextkeyset"
	"github.com/tink-crypto/tink-go/v2/insecuresecretdataaccess"
	"github.com/tink-crypto/tink-go/v2/key"
	"github.com/tink-crypto/tink-go/v2/keyset"
	macsubtle "github.com/tink-crypto/tink-go/v2/mac/subtle"
	ctrpb "github.com/tink-crypto/tink-go/v2/proto/aes_ctr_go_proto"
	ctrhmacpb "github.com/tink-crypto/tink-go/v2/proto/aes_ctr_hmac_aead_go_proto"
	commonpb "github.com/tink-crypto/tink-go/v2/proto/common_go_proto"
	hmacpb "github.com/tink-crypto/tink-go/v2/proto/hmac_go_proto"
	tinkpb "github.com/tink-crypto/tink-go/v2/proto/tink_go_proto"
	"github.com/tink-crypto/tink-go/v2/secretdata"
	"github.com/tink-crypto/tink-go/v2/tink"
	"google.golang.org/protobuf/proto"
)

// keyCfg is the abstract key configuration of spec/algo/AEADWire.tla.
type keyCfg struct {
	KT      string // AESGCM AESCTRHMAC AESGCMSIV CHACHA XCHACHA XAES
	Variant string // TINK CRUNCHY LEGACY NO_PREFIX
	ID      uint32
	Key     []byte
	MKey    []byte // AESCTRHMAC: HMAC key
	IVLen   int    // AESCTRHMAC
	TagLen  int    // AESCTRHMAC
	Hash    string // AESCTRHMAC
	SaltLen int    // XAES
}

func (k keyCfg) j() map[string]any {
	id := vt.ID4(k.ID)
	if k.Variant == "NO_PREFIX" {
		id = "00000000"
	}
	return map[string]any{"kt": k.KT, "variant": k.Variant, "id": id, "key": vt.Hex(k.Key), "mkey": vt.Hex(k.MKey),
		"ivLen": k.IVLen, "tagLen": k.TagLen, "hash": k.Hash, "saltLen": k.SaltLen}
}

func cfgFromJSON(m map[string]any) keyCfg {
	s := func(n string) string { v, _ := m[n].(string); return v }
	i := func(n string) int { v, _ := m[n].(float64); return int(v) }
	var id uint32
	fmt.Sscanf(s("id"), "%08x", &id)
	return keyCfg{KT: s("kt"), Variant: s("variant"), ID: id, Key: vt.Unhex(s("key")), MKey: vt.Unhex(s("mkey")),
		IVLen: i("ivLen"), TagLen: i("tagLen"), Hash: s("hash"), SaltLen: i("saltLen")}
}

func (k keyCfg) prefix() []byte {
	b := []byte{0, byte(k.ID >> 24), byte(k.ID >> 16), byte(k.ID >> 8), byte(k.ID)}
	switch k.Variant {
	case "TINK":
		b[0] = 1
		return b
	case "CRUNCHY", "LEGACY":
		return b
	}
	return nil
}

// layout (lengths only; used to aim mutations, never to judge)
func (k keyCfg) nonceLen() int {
	switch k.KT {
	case "AESCTRHMAC":
		return k.IVLen
	case "XCHACHA":
		return 24
	case "XAES":
		return k.SaltLen + 12
	}
	return 12
}
func (k keyCfg) tagLen() int {
	if k.KT == "AESCTRHMAC" {
		return k.TagLen
	}
	return 16
}

var tok = insecuresecretdataaccess.Token{}

func sd(b []byte) secretdata.Bytes { return secretdata.NewBytesFromData(b, tok) }

func ctrHash(h string) aesctrhmac.HashType {
	switch h {
	case "SHA1":
		return aesctrhmac.SHA1
	case "SHA224":
		return aesctrhmac.SHA224
	case "SHA256":
		return aesctrhmac.SHA256
	case "SHA384":
		return aesctrhmac.SHA384
	case "SHA512":
		return aesctrhmac.SHA512
	}
	return aesctrhmac.UnknownHashType
}

// buildKey makes the key object through the per-type key package. LEGACY is built as CRUNCHY and
// turned into LEGACY on the proto route (the key packages have no LEGACY variant).
func buildKey(k keyCfg) (key.Key, error) {
	idReq := k.ID
	v := k.Variant
	if v == "NO_PREFIX" {
		idReq = 0
	}
	if v == "LEGACY" {
		v = "CRUNCHY"
	}
	switch k.KT {
	case "AESGCM":
		vv := map[string]aesgcm.Variant{"TINK": aesgcm.VariantTink, "CRUNCHY": aesgcm.VariantCrunchy, "NO_PREFIX": aesgcm.VariantNoPrefix}[v]
		iv, tag := 12, 16
		if k.IVLen != 0 {
			iv = k.IVLen
		}
		if k.TagLen != 0 {
			tag = k.TagLen
		}
		p, err := aesgcm.NewParameters(aesgcm.ParametersOpts{KeySizeInBytes: len(k.Key), IVSizeInBytes: iv, TagSizeInBytes: tag, Variant: vv})
		if err != nil {
			return nil, err
		}
		return aesgcm.NewKey(sd(k.Key), idReq, p)
	case "AESCTRHMAC":
		vv := map[string]aesctrhmac.Variant{"TINK": aesctrhmac.VariantTink, "CRUNCHY": aesctrhmac.VariantCrunchy, "NO_PREFIX": aesctrhmac.VariantNoPrefix}[v]
		p, err := aesctrhmac.NewParameters(aesctrhmac.ParametersOpts{AESKeySizeInBytes: len(k.Key), HMACKeySizeInBytes: len(k.MKey),
			IVSizeInBytes: k.IVLen, TagSizeInBytes: k.TagLen, HashType: ctrHash(k.Hash), Variant: vv})
		if err != nil {
			return nil, err
		}
		return aesctrhmac.NewKey(aesctrhmac.KeyOpts{AESKeyBytes: sd(k.Key), HMACKeyBytes: sd(k.MKey), IDRequirement: idReq, Parameters: p})
	case "AESGCMSIV":
		vv := map[string]aesgcmsiv.Variant{"TINK": aesgcmsiv.VariantTink, "CRUNCHY": aesgcmsiv.VariantCrunchy, "NO_PREFIX": aesgcmsiv.VariantNoPrefix}[v]
		p, err := aesgcmsiv.NewParameters(len(k.Key), vv)
		if err != nil {
			return nil, err
		}
		return aesgcmsiv.NewKey(sd(k.Key), idReq, p)
	case "CHACHA":
		vv := map[string]chacha20poly1305.Variant{"TINK": chacha20poly1305.VariantTink, "CRUNCHY": chacha20poly1305.VariantCrunchy, "NO_PREFIX": chacha20poly1305.VariantNoPrefix}[v]
		p, err := chacha20poly1305.NewParameters(vv)
		if err != nil {
			return nil, err
		}
		return chacha20poly1305.NewKey(sd(k.Key), idReq, p)
	case "XCHACHA":
		vv := map[string]xchacha20poly1305.Variant{"TINK": xchacha20poly1305.VariantTink, "CRUNCHY": xchacha20poly1305.VariantCrunchy, "NO_PREFIX": xchacha20poly1305.VariantNoPrefix}[v]
		p, err := xchacha20poly1305.NewParameters(vv)
		if err != nil {
			return nil, err
		}
		return xchacha20poly1305.NewKey(sd(k.Key), idReq, p)
	case "XAES":
		vv := map[string]xaesgcm.Variant{"TINK": xaesgcm.VariantTink, "NO_PREFIX": xaesgcm.VariantNoPrefix}[v]
		p, err := xaesgcm.NewParameters(vv, k.SaltLen)
		if err != nil {
			return nil, err
		}
		return xaesgcm.NewKey(sd(k.Key), idReq, p)
	}
	return nil, fmt.Errorf("driver: unknown key type %q", k.KT)
}

// handleOf builds a keyset handle with keys[0] as primary. Keys of variant LEGACY make the keyset
// take the detour through its proto form, where the output prefix type is set to LEGACY.
func handleOf(keys []keyCfg, viaProto bool) (*keyset.Handle, error) {
	km := keyset.NewManager()
	ids := make([]uint32, len(keys))
	for i, k := range keys {
		kk, err := buildKey(k)
		if err != nil {
			return nil, err
		}
		id, err := km.AddKey(kk)
		if err != nil {
			return nil, err
		}
		ids[i] = id
	}
	if err := km.SetPrimary(ids[0]); err != nil {
		return nil, err
	}
	h, err := km.Handle()
	if err != nil {
		return nil, err
	}
	if !viaProto {
		return h, nil
	}
	ks := insecurecleartextkeyset.KeysetMaterial(h)
	for i, k := range keys {
		if k.Variant == "LEGACY" {
			for _, pk := range ks.Key {
				if pk.KeyId == ids[i] {
					pk.OutputPrefixType = tinkpb.OutputPrefixType_LEGACY
				}
			}
		}
	}
	return insecurecleartextkeyset.Read(&keyset.MemReaderWriter{Keyset: ks})
}

// serializedKey returns the proto key message bytes (KeyData.value) of a RAW key: the form in which a
// DEK travels inside an envelope.
func serializedKey(k keyCfg) []byte {
	k.Variant, k.ID = "NO_PREFIX", 0
	h, err := handleOf([]keyCfg{k}, false)
	if err != nil {
		vt.Fatal("serializedKey: %v", err)
	}
	return insecurecleartextkeyset.KeysetMaterial(h).Key[0].KeyData.Value
}

// ---------------------------------------------------------------- DEK templates of the envelope
type dekSpec struct {
	Name string
	Cfg  keyCfg // sizes; Key/MKey lengths give the key sizes
	Tmpl func() *tinkpb.KeyTemplate
}

func ctrHmacTemplate(aesKey, iv, hmacKey, tag int, hash commonpb.HashType) *tinkpb.KeyTemplate {
	f := &ctrhmacpb.AesCtrHmacAeadKeyFormat{
		AesCtrKeyFormat: &ctrpb.AesCtrKeyFormat{Params: &ctrpb.AesCtrParams{IvSize: uint32(iv)}, KeySize: uint32(aesKey)},
		HmacKeyFormat:   &hmacpb.HmacKeyFormat{Params: &hmacpb.HmacParams{Hash: hash, TagSize: uint32(tag)}, KeySize: uint32(hmacKey)},
	}
	b, err := proto.Marshal(f)
	if err != nil {
		vt.Fatal("marshal template: %v", err)
	}
	return &tinkpb.KeyTemplate{Value: b, TypeUrl: "type.googleapis.com/google.crypto.tink.AesCtrHmacAeadKey", OutputPrefixType: tinkpb.OutputPrefixType_TINK}
}

func zb(n int) []byte { return make([]byte, n) }

var dekSpecs = []dekSpec{
	{"AES128GCM", keyCfg{KT: "AESGCM", Key: zb(16)}, aead.AES128GCMKeyTemplate},
	{"AES256GCM", keyCfg{KT: "AESGCM", Key: zb(32)}, aead.AES256GCMKeyTemplate},
	{"AES128CTRHMACSHA256", keyCfg{KT: "AESCTRHMAC", Key: zb(16), MKey: zb(32), IVLen: 16, TagLen: 16, Hash: "SHA256"}, aead.AES128CTRHMACSHA256KeyTemplate},
	{"AES256CTRHMACSHA256", keyCfg{KT: "AESCTRHMAC", Key: zb(32), MKey: zb(32), IVLen: 16, TagLen: 32, Hash: "SHA256"}, aead.AES256CTRHMACSHA256KeyTemplate},
	{"AES256CTR12HMACSHA512T20", keyCfg{KT: "AESCTRHMAC", Key: zb(32), MKey: zb(48), IVLen: 12, TagLen: 20, Hash: "SHA512"},
		func() *tinkpb.KeyTemplate { return ctrHmacTemplate(32, 12, 48, 20, commonpb.HashType_SHA512) }},
	{"AES128CTR13HMACSHA1T10", keyCfg{KT: "AESCTRHMAC", Key: zb(16), MKey: zb(16), IVLen: 13, TagLen: 10, Hash: "SHA1"},
		func() *tinkpb.KeyTemplate { return ctrHmacTemplate(16, 13, 16, 10, commonpb.HashType_SHA1) }},
	{"CHACHA20POLY1305", keyCfg{KT: "CHACHA", Key: zb(32)}, aead.ChaCha20Poly1305KeyTemplate},
	{"XCHACHA20POLY1305", keyCfg{KT: "XCHACHA", Key: zb(32)}, aead.XChaCha20Poly1305KeyTemplate},
	{"AES128GCMSIV", keyCfg{KT: "AESGCMSIV", Key: zb(16)}, aead.AES128GCMSIVKeyTemplate},
	{"AES256GCMSIV", keyCfg{KT: "AESGCMSIV", Key: zb(32)}, aead.AES256GCMSIVKeyTemplate},
}

func dekByName(n string) dekSpec {
	for _, d := range dekSpecs {
		if d.Name == n {
			return d
		}
	}
	vt.Fatal("unknown DEK template %q", n)
	return dekSpec{}
}

// ---------------------------------------------------------------- fake in-process KMS
type fakeKMS struct {
	mu sync.Mutex
	m  map[string]tink.AEAD
}

func (f *fakeKMS) Supported(uri string) bool { return strings.HasPrefix(uri, "fake-kms://") }
func (f *fakeKMS) GetAEAD(uri string) (tink.AEAD, error) {
	f.mu.Lock()
	defer f.mu.Unlock()
	a, ok := f.m[uri]
	if !ok {
		return nil, fmt.Errorf("fake kms: unknown key %s", uri)
	}
	return a, nil
}

var kms = &fakeKMS{m: map[string]tink.AEAD{}}
var kmsOnce sync.Once
var kmsN int

// ---------------------------------------------------------------- targets
type target struct {
	Mode  string   // keyset | envelope
	Route string   // factory proto ctor subtle | envelope2 kmskeyset
	Keys  []keyCfg // keyset: the keys, first = primary; envelope: the remote (KEK) keyset
	DEK   string   // envelope: name of the DEK template
	Env   keyCfg   // envelope, route kmskeyset: Variant/ID of the KmsEnvelopeAeadKey inside its keyset
	RKind string   // envelope: kind of remote AEAD: "tink" (the keyset AEAD itself) | "padded" (size-controlled)
	PadTo int      // padded remote: exact size of every encrypted DEK it returns
	a     tink.AEAD
}

// envPrefix is the output prefix of the envelope key itself (empty unless it lives in a keyset with a prefix).
func (t *target) envPrefix() []byte {
	if t.Mode != "envelope" || t.Route != "kmskeyset" {
		return nil
	}
	return t.Env.prefix()
}

func (t *target) primary() keyCfg { return t.Keys[0] }

func (t *target) rkind() string {
	if t.RKind == "" {
		return "tink"
	}
	return t.RKind
}

// paddedRemote is the harness's size-controlled remote AEAD (Envelope.tla, remote kind "padded"): it wraps
// a real Tink AEAD and returns be16(|inner|) || inner || zero padding of exactly `total` bytes; it opens
// only strings of exactly that size with all-zero padding.
type paddedRemote struct {
	inner tink.AEAD
	total int
}

func (p *paddedRemote) Encrypt(pt, ad []byte) ([]byte, error) {
	c, err := p.inner.Encrypt(pt, ad)
	if err != nil {
		return nil, err
	}
	if 2+len(c) > p.total {
		return nil, fmt.Errorf("padded remote: %d bytes do not fit %d", len(c), p.total)
	}
	out := make([]byte, p.total)
	out[0], out[1] = byte(len(c)>>8), byte(len(c))
	copy(out[2:], c)
	return out, nil
}

func (p *paddedRemote) Decrypt(c, ad []byte) ([]byte, error) {
	if len(c) != p.total || len(c) < 2 {
		return nil, fmt.Errorf("padded remote: wrong size")
	}
	n := int(c[0])<<8 | int(c[1])
	if 2+n > len(c) {
		return nil, fmt.Errorf("padded remote: bad length")
	}
	for _, b := range c[2+n:] {
		if b != 0 {
			return nil, fmt.Errorf("padded remote: bad padding")
		}
	}
	return p.inner.Decrypt(c[2:2+n], ad)
}

// with-context forms (NewKMSEnvelopeAEADWithContext)
type ctxRemote struct{ a tink.AEAD }

func (c ctxRemote) EncryptWithContext(_ context.Context, pt, ad []byte) ([]byte, error) {
	return c.a.Encrypt(pt, ad)
}
func (c ctxRemote) DecryptWithContext(_ context.Context, ct, ad []byte) ([]byte, error) {
	return c.a.Decrypt(ct, ad)
}

type noCtx struct {
	a *aead.KMSEnvelopeAEADWithContext
}

func (n noCtx) Encrypt(pt, ad []byte) ([]byte, error) {
	return n.a.EncryptWithContext(context.Background(), pt, ad)
}
func (n noCtx) Decrypt(ct, ad []byte) ([]byte, error) {
	return n.a.DecryptWithContext(context.Background(), ct, ad)
}

// layout of what t.Encrypt emits (aiming mutations only)
func (t *target) dekCfg() keyCfg {
	c := dekByName(t.DEK).Cfg
	c.Variant = "NO_PREFIX"
	return c
}

func (t *target) ev(name string) vt.Ev {
	ks := make([]any, len(t.Keys))
	for i, k := range t.Keys {
		ks[i] = k.j()
	}
	e := vt.Ev{"ev": name, "mode": t.Mode, "route": t.Route, "keys": ks, "dek": "", "dekTmpl": t.DEK, "ep": vt.Hex(t.envPrefix()),
		"rkind": t.rkind(), "padTo": t.PadTo}
	if t.Mode == "envelope" {
		e["dek"] = dekByName(t.DEK).Cfg.KT
	}
	return e
}

func subtleAEAD(k keyCfg) (tink.AEAD, error) {
	switch k.KT {
	case "AESGCM":
		return aeadsubtle.NewAESGCM(k.Key)
	case "AESGCMSIV":
		return aeadsubtle.NewAESGCMSIV(k.Key)
	case "CHACHA":
		return aeadsubtle.NewChaCha20Poly1305(k.Key)
	case "XCHACHA":
		return aeadsubtle.NewXChaCha20Poly1305(k.Key)
	case "AESCTRHMAC":
		ctr, err := aeadsubtle.NewAESCTR(k.Key, k.IVLen)
		if err != nil {
			return nil, err
		}
		m, err := macsubtle.NewHMAC(k.Hash, k.MKey, uint32(k.TagLen))
		if err != nil {
			return nil, err
		}
		return aeadsubtle.NewEncryptThenAuthenticate(ctr, m, k.TagLen)
	}
	return nil, fmt.Errorf("driver: no subtle constructor for %s", k.KT)
}

// build constructs the real primitive; an error means the library refused the configuration.
func (t *target) build() error {
	var err error
	switch t.Route {
	case "factory", "proto":
		var h *keyset.Handle
		if h, err = handleOf(t.Keys, t.Route == "proto"); err == nil {
			t.a, err = aead.New(h)
		}
	case "ctor":
		var k key.Key
		if k, err = buildKey(t.Keys[0]); err == nil {
			t.a, err = aesgcm.NewAEAD(k.(*aesgcm.Key))
		}
	case "subtle":
		t.a, err = subtleAEAD(t.Keys[0])
	case "envelope2", "envelopectx", "kmskeyset":
		var h *keyset.Handle
		var kek tink.AEAD
		if h, err = handleOf(t.Keys, false); err != nil {
			return err
		}
		if kek, err = aead.New(h); err != nil {
			return err
		}
		tmpl := dekByName(t.DEK).Tmpl()
		if t.rkind() == "padded" {
			kek = &paddedRemote{inner: kek, total: t.PadTo}
		}
		if t.Route == "envelope2" {
			t.a = aead.NewKMSEnvelopeAEAD2(tmpl, kek)
			return nil
		}
		if t.Route == "envelopectx" {
			var wc *aead.KMSEnvelopeAEADWithContext
			if wc, err = aead.NewKMSEnvelopeAEADWithContext(tmpl, ctxRemote{kek}); err != nil {
				return err
			}
			t.a = noCtx{wc}
			return nil
		}
		kmsOnce.Do(func() { registry.RegisterKMSClient(kms) })
		kms.mu.Lock()
		kmsN++
		uri := fmt.Sprintf("fake-kms://key/%d", kmsN)
		kms.m[uri] = kek
		kms.mu.Unlock()
		var kt *tinkpb.KeyTemplate
		if kt, err = aead.CreateKMSEnvelopeAEADKeyTemplate(uri, tmpl); err != nil {
			return err
		}
		var eh *keyset.Handle
		if eh, err = keyset.NewHandle(kt); err != nil {
			return err
		}
		if len(t.envPrefix()) > 0 { // give the envelope key a chosen id and output prefix type (through its proto form)
			ks := insecurecleartextkeyset.KeysetMaterial(eh)
			ks.PrimaryKeyId = t.Env.ID
			ks.Key[0].KeyId = t.Env.ID
			ks.Key[0].OutputPrefixType = map[string]tinkpb.OutputPrefixType{"TINK": tinkpb.OutputPrefixType_TINK,
				"CRUNCHY": tinkpb.OutputPrefixType_CRUNCHY, "LEGACY": tinkpb.OutputPrefixType_LEGACY}[t.Env.Variant]
			if eh, err = insecurecleartextkeyset.Read(&keyset.MemReaderWriter{Keyset: ks}); err != nil {
				return err
			}
		}
		t.a, err = aead.New(eh)
	default:
		err = fmt.Errorf("driver: unknown route %q", t.Route)
	}
	return err
}
