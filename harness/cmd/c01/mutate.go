package main

// C02: systematic modifications of valid ciphertexts (made by Tink's Encrypt and by the TLA+ reference),
// associated-data edits, and arbitrary byte strings.  Every resulting Decrypt call is logged together
// with the (ciphertext, associated data) pairs known to have been produced under the key; the verdict is
// the specification's.

import (
	"encoding/binary"
	"encoding/json"
	"fmt"
	"os"

	"verifharness/vt"
)

type base struct {
	ct, ad, pt []byte
	src        string // tink | spec
	k          keyCfg // key (layout) that made it; envelope: the DEK layout
	allBits    bool
	pairs      bool // long AES-GCM-SIV ciphertext: paired block modifications
}

type mut struct {
	kind   string
	ct, ad []byte
}

type region struct {
	name     string
	off, len int
}

func clone(b []byte) []byte { return append([]byte{}, b...) }

func cat(bs ...[]byte) []byte {
	var o []byte
	for _, b := range bs {
		o = append(o, b...)
	}
	if o == nil {
		o = []byte{}
	}
	return o
}

// regions of a well-formed ciphertext (to aim modifications at every field and field boundary)
func regions(t *target, b base) []region {
	var rs []region
	off := 0
	add := func(n string, l int) {
		if l > 0 {
			rs = append(rs, region{n, off, l})
		}
		off += l
	}
	if t.Mode == "envelope" {
		po := len(t.envPrefix())
		add("prefix", po)
		l := int(binary.BigEndian.Uint32(b.ct[po : po+4]))
		add("lenfield", 4)
		add("encdek", l)
	} else {
		add("prefix", len(b.k.prefix()))
	}
	add("nonce", b.k.nonceLen())
	body := len(b.ct) - off - b.k.tagLen()
	add("body", body)
	add("tag", b.k.tagLen())
	return rs
}

func region1(rs []region, name string) (region, bool) {
	for _, r := range rs {
		if r.name == name {
			return r, true
		}
	}
	return region{}, false
}

func mutations(x *runner, t *target, b base, others []base) []mut {
	var ms []mut
	add := func(kind string, ct, ad []byte) { ms = append(ms, mut{kind, ct, ad}) }
	rs := regions(t, b)
	n := len(b.ct)
	// ---- single-bit flips
	bits := map[int]bool{}
	if b.allBits && (x.full || n <= 64) {
		for i := 0; i < 8*n; i++ {
			bits[i] = true
		}
	} else if b.allBits { // quick tier, longer ciphertext: one bit of every byte, every bit of the first 8 and last 16 bytes
		for i := 0; i < n; i++ {
			bits[8*i+(i+int(vt.Seed()))%8] = true
		}
		for i := 0; i < 64; i++ {
			bits[i] = true
		}
		for i := 8 * (n - 16); i < 8*n; i++ {
			bits[i] = true
		}
	} else {
		for _, r := range rs {
			bits[8*r.off] = true
			bits[8*r.off+7] = true
			bits[8*(r.off+r.len)-1] = true
			bits[8*(r.off+r.len-1)] = true
		}
		for i := 0; i < 6; i++ {
			bits[x.r.Intn(8*n)] = true
		}
	}
	for i := 0; i < 8*n; i++ {
		if bits[i] {
			c := clone(b.ct)
			c[i/8] ^= 1 << uint(i%8)
			add(fmt.Sprintf("flip:%d", i), c, b.ad)
		}
	}
	// ---- truncations
	cuts := map[int]bool{0: true, n - 1: true}
	if b.allBits {
		for i := 0; i < n; i++ {
			cuts[i] = true
		}
	} else {
		for _, r := range rs {
			for _, c := range []int{r.off - 1, r.off, r.off + 1} {
				if c >= 0 && c < n {
					cuts[c] = true
				}
			}
		}
	}
	for i := 0; i < n; i++ {
		if cuts[i] {
			add(fmt.Sprintf("trunc:%d", i), clone(b.ct[:i]), b.ad)
		}
	}
	// drop bytes from the front / the middle
	add("dropfirst", clone(b.ct[1:]), b.ad)
	if r, ok := region1(rs, "tag"); ok && r.off > 0 {
		add("dropbeforetag", cat(b.ct[:r.off-1], b.ct[r.off:]), b.ad)
	}
	// ---- extensions
	exts := []int{1, 16, 17}
	if b.allBits {
		exts = nil
		for i := 1; i <= 17; i++ {
			exts = append(exts, i)
		}
	}
	for _, e := range exts {
		if e%2 == 1 {
			add(fmt.Sprintf("ext0:%d", e), cat(b.ct, make([]byte, e)), b.ad)
		} else {
			add(fmt.Sprintf("extR:%d", e), cat(b.ct, vt.Bytes(x.r, e)), b.ad)
		}
	}
	add("prepend0", cat([]byte{0}, b.ct), b.ad)
	add("double", cat(b.ct, b.ct), b.ad)
	// ---- output prefix: other variants / other key ids / other keys of the keyset
	{
		pk := b.k
		if t.Mode == "envelope" {
			pk = t.Env
		}
		pre := pk.prefix()
		rest := b.ct[len(pre):]
		if len(pre) > 0 {
			for _, id := range []uint32{pk.ID + 1, pk.ID - 1, pk.ID ^ 0x80000000, pk.ID ^ 0xff, 0, 0xffffffff} {
				for _, v := range []string{"TINK", "CRUNCHY"} {
					p := keyCfg{Variant: v, ID: id}.prefix()
					if string(p) != string(pre) {
						add(fmt.Sprintf("prefix:%s/%08x", v, id), cat(p, rest), b.ad)
					}
				}
			}
			add("prefix:stripped", clone(rest), b.ad)
			add("prefix:doubled", cat(pre, b.ct), b.ad)
			add("prefix:startbyte2", cat([]byte{2}, b.ct[1:]), b.ad)
		} else {
			for _, p := range [][]byte{{1, 0, 0, 0, 0}, {0, 0, 0, 0, 0}, {1, 0xff, 0xff, 0xff, 0xff}} {
				add("prefix:added", cat(p, b.ct), b.ad)
			}
		}
		for _, k := range t.Keys {
			if p := k.prefix(); string(p) != string(pre) && t.Mode == "keyset" {
				add("prefix:otherkey", cat(p, rest), b.ad)
			}
		}
	}
	// ---- associated data
	if len(b.ad) > 0 {
		a := clone(b.ad)
		a[0] ^= 1
		add("ad:flipfirst", b.ct, a)
		a = clone(b.ad)
		a[len(a)-1] ^= 0x80
		add("ad:fliplast", b.ct, a)
		add("ad:trunc", b.ct, clone(b.ad[:len(b.ad)-1]))
		add("ad:ext0", b.ct, cat(b.ad, []byte{0}))
		add("ad:empty", b.ct, []byte{})
		add("ad:nil", b.ct, nil)
		add("ad:prepend0", b.ct, cat([]byte{0}, b.ad))
	} else {
		add("ad:zero1", b.ct, []byte{0})
		add("ad:rand16", b.ct, vt.Bytes(x.r, 16))
		add("ad:zero8", b.ct, make([]byte, 8))
	}
	// ---- field swaps and splices
	tg, _ := region1(rs, "tag")
	nc, _ := region1(rs, "nonce")
	bd, hasBody := region1(rs, "body")
	head := b.ct[:nc.off]
	nonce := b.ct[nc.off : nc.off+nc.len]
	tag := b.ct[tg.off:]
	body := []byte{}
	if hasBody {
		body = b.ct[bd.off : bd.off+bd.len]
		add("swap:tag-body", cat(head, nonce, tag, body), b.ad)
		rb := clone(body)
		for i, j := 0, len(rb)-1; i < j; i, j = i+1, j-1 {
			rb[i], rb[j] = rb[j], rb[i]
		}
		if string(rb) != string(body) {
			add("swap:body-reversed", cat(head, nonce, rb, tag), b.ad)
		}
	}
	add("tag:zero", cat(head, nonce, body, make([]byte, len(tag))), b.ad)
	add("tag:ones", cat(head, nonce, body, ones(len(tag))), b.ad)
	rt := clone(tag)
	for i, j := 0, len(rt)-1; i < j; i, j = i+1, j-1 {
		rt[i], rt[j] = rt[j], rt[i]
	}
	add("tag:reversed", cat(head, nonce, body, rt), b.ad)
	add("nonce:zero", cat(head, make([]byte, len(nonce)), body, tag), b.ad)
	for oi, o := range others {
		if string(o.ct) == string(b.ct) || o.k.KT != b.k.KT || len(o.k.prefix()) != len(b.k.prefix()) {
			continue
		}
		ors := regions(t, o)
		otg, _ := region1(ors, "tag")
		onc, _ := region1(ors, "nonce")
		add(fmt.Sprintf("splice:tag-of-%d", oi), cat(head, nonce, body, o.ct[otg.off:]), b.ad)
		add(fmt.Sprintf("splice:nonce-of-%d", oi), cat(head, o.ct[onc.off:onc.off+onc.len], body, tag), b.ad)
		if string(o.ad) != string(b.ad) {
			add(fmt.Sprintf("ad:of-%d", oi), b.ct, o.ad)
		}
		if t.Mode == "envelope" {
			// another envelope's encrypted DEK in front of this payload, and vice versa
			po := len(t.envPrefix())
			ol := int(binary.BigEndian.Uint32(o.ct[po : po+4]))
			l := int(binary.BigEndian.Uint32(b.ct[po : po+4]))
			add(fmt.Sprintf("env:dek-of-%d", oi), cat(o.ct[:po+4+ol], b.ct[po+4+l:]), b.ad)
		}
	}
	// ---- paired modifications: the same difference XORed into two blocks of one 64-byte group of the body and of
	// the associated data (an implementation folding several blocks per step with a wrong key power accepts these)
	if b.pairs {
		pairMut := func(what string, src []byte, off, ln int, build func([]byte) ([]byte, []byte)) {
			groups := map[int]bool{0: true, ln / 64 / 2: true, ln/64 - 1: true}
			for g := range groups {
				if g < 0 || (g+1)*64 > ln {
					continue
				}
				for i := 0; i < 4; i++ {
					for j := i + 1; j < 4; j++ {
						d := vt.Bytes(x.r, 16)
						if (i+j+g)%3 == 0 {
							d = make([]byte, 16)
							d[x.r.Intn(16)] = 1 << uint(x.r.Intn(8))
						}
						m := clone(src)
						for k := 0; k < 16; k++ {
							m[off+g*64+i*16+k] ^= d[k]
							m[off+g*64+j*16+k] ^= d[k]
						}
						c, a := build(m)
						add(fmt.Sprintf("pair:%s:g%d:%d-%d", what, g, i, j), c, a)
					}
				}
			}
		}
		if bd, ok := region1(rs, "body"); ok {
			pairMut("body", b.ct, bd.off, bd.len, func(m []byte) ([]byte, []byte) { return m, b.ad })
		}
		pairMut("ad", b.ad, 0, len(b.ad), func(m []byte) ([]byte, []byte) { return b.ct, m })
	}
	// ---- envelope framing: the encrypted-DEK length field
	if t.Mode == "envelope" {
		po := len(t.envPrefix())
		ep, env := b.ct[:po], b.ct[po:]
		en := len(env)
		l := binary.BigEndian.Uint32(env[:4])
		for _, v := range []uint32{0, 1, l - 1, l + 1, l + 12, uint32(en - 4), uint32(en - 3), uint32(en - 5), uint32(en), uint32(n), 4096, 4097,
			0x7fffffff, 0x80000000, 0x80000000 | l, 0xffffffff, 0x00010000 | l, l << 8, l << 24} {
			if v == l {
				continue
			}
			c := clone(env)
			binary.BigEndian.PutUint32(c[:4], v)
			add(fmt.Sprintf("env:len=%d", v), cat(ep, c), b.ad)
		}
		le := clone(env)
		binary.LittleEndian.PutUint32(le[:4], l)
		add("env:len-little-endian", cat(ep, le), b.ad)
		add("env:no-lenfield", cat(ep, env[4:]), b.ad)
		add("env:payload-only", cat(ep, env[4+l:]), b.ad)
		add("env:dek-only", cat(ep, env[:4+l]), b.ad)
	}
	return ms
}

func ones(n int) []byte {
	b := make([]byte, n)
	for i := range b {
		b[i] = 0xff
	}
	return b
}

// garbage: byte strings of every length 0..minimum+2 with zero / random / valid-prefix content
func garbage(x *runner, t *target, ti int, prods []pair) {
	k := t.primary()
	min := len(k.prefix()) + k.nonceLen() + k.tagLen()
	pre := k.prefix()
	if t.Mode == "envelope" {
		d := t.dekCfg()
		min = len(t.envPrefix()) + 4 + 1 + d.nonceLen() + d.tagLen()
		pre = cat(t.envPrefix(), []byte{0, 0, 0, 1})
	}
	for l := 0; l <= min+2; l++ {
		if !(x.full && core(t, ti)) && l > 6 && l < min-2 && (l+int(vt.Seed()))%3 != 0 {
			continue
		}
		x.decrypt(t, fmt.Sprintf("garbage:zero:%d", l), "none", make([]byte, l), nil, prods, false, nil)
		x.decrypt(t, fmt.Sprintf("garbage:rand:%d", l), "none", vt.Bytes(x.r, l), []byte{}, prods, false, nil)
		if l >= len(pre) && len(pre) > 0 {
			x.decrypt(t, fmt.Sprintf("garbage:prefixed:%d", l), "none", cat(pre, vt.Bytes(x.r, l-len(pre))), nil, prods, false, nil)
		}
	}
	for _, l := range []int{64, 255, 4096 + 4 + 1, 5000} {
		x.decrypt(t, fmt.Sprintf("garbage:rand:%d", l), "none", vt.Bytes(x.r, l), nil, prods, false, nil)
	}
}

func runC02(x *runner, t *target, ti int, mine []sealReq, sealed map[int][]byte) {
	var bases []base
	lay := t.primary()
	if t.Mode == "envelope" {
		lay = t.dekCfg()
	}
	// which bases get EVERY bit flip / truncation / extension (the others: field boundaries and samples)
	isCore := x.full && core(t, ti)
	big := t.rkind() == "padded" && t.PadTo > 1000 // 4 kB envelopes: field boundaries and samples only
	lens := []int{1, 17}
	if isCore {
		lens = []int{1, 17, 0}
	} else if x.full {
		lens = []int{1}
	}
	for bi, n := range lens {
		pt := content(x.r, n, bi+ti)
		ad, _ := adOf(x.r, bi+ti+2)
		if ct := x.encrypt(t, pt, ad); ct != nil {
			bases = append(bases, base{ct, ad, pt, "tink", lay, !big && ((isCore && bi == 0) || (!x.full && bi == 0 && ti%2 == 0)), false})
		}
	}
	if pairTarget(gTargets, ti, x.full) { // long Tink-made base for the paired modifications
		pt, ad := content(x.r, 1040, ti), content(x.r, 1088, ti+1)
		if ct := x.encrypt(t, pt, ad); ct != nil {
			bases = append(bases, base{ct, ad, pt, "tink", lay, false, true})
		}
	}
	for _, q := range mine {
		ct, ok := sealed[q.N]
		if !ok {
			vt.Fatal("no sealed ciphertext for request %d", q.N)
		}
		l := lay
		if t.Mode == "keyset" {
			l = t.Keys[q.Key]
		}
		bases = append(bases, base{ct, q.Ad, q.Pt, "spec", l, !big && q.Muts && q.Key == 0 && (isCore || (!x.full && ti%2 == 1)), q.Pairs})
	}
	var prods []pair
	for _, b := range bases {
		prods = append(prods, pair{b.ct, b.ad})
	}
	for _, b := range bases {
		x.decrypt(t, "exact", b.src, b.ct, b.ad, prods, b.src == "spec", b.pt)
		for _, m := range mutations(x, t, b, bases) {
			x.decrypt(t, m.kind, b.src, m.ct, m.ad, prods, false, nil)
		}
	}
	garbage(x, t, ti, prods)
}

// ------------------------------------------------------------------ replay of one recorded call
func replay(path string, x *runner) {
	raw, err := os.ReadFile(path)
	if err != nil {
		vt.Fatal("read replay: %v", err)
	}
	var obj struct {
		Event map[string]any `json:"event"`
	}
	if err := json.Unmarshal(raw, &obj); err != nil || obj.Event == nil {
		vt.Fatal("bad replay file: %v", err)
	}
	e := obj.Event
	str := func(k string) string { s, _ := e[k].(string); return s }
	bl := func(k string) bool { s, _ := e[k].(bool); return s }
	hexOrNil := func(k, nilk string) []byte {
		b := vt.Unhex(str(k))
		if len(b) == 0 && bl(nilk) {
			return nil
		}
		return b
	}
	switch str("ev") {
	case "polyval", "sivctr":
		replayHook(x, e)
		return
	}
	t := &target{Mode: str("mode"), Route: str("route"), DEK: str("dekTmpl")}
	t.RKind = str("rkind")
	if v, ok := e["padTo"].(float64); ok {
		t.PadTo = int(v)
	}
	if ep := vt.Unhex(str("ep")); len(ep) == 5 {
		t.Env = keyCfg{Variant: map[byte]string{1: "TINK", 0: "CRUNCHY"}[ep[0]], ID: binary.BigEndian.Uint32(ep[1:])}
	}
	ks, _ := e["keys"].([]any)
	for _, k := range ks {
		t.Keys = append(t.Keys, cfgFromJSON(k.(map[string]any)))
	}
	if err := t.build(); err != nil {
		vt.Fatal("replay: cannot construct primitive: %v", err)
	}
	if v, ok := e["lay"].(float64); ok {
		x.lay = int(v) // same placement of the inputs in the caller's frame
	}
	switch str("ev") {
	case "encrypt":
		x.encrypt(t, vt.Unhex(str("pt")), hexOrNil("ad", "adnil"))
	case "decrypt":
		var prods []pair
		ps, _ := e["produced"].([]any)
		for _, p := range ps {
			m := p.(map[string]any)
			c, _ := m["ct"].(string)
			a, _ := m["ad"].(string)
			prods = append(prods, pair{vt.Unhex(c), vt.Unhex(a)})
		}
		x.decrypt(t, str("kind"), str("src"), vt.Unhex(str("ct")), hexOrNil("ad", "adnil"), prods, bl("chk"), vt.Unhex(str("want")))
	default:
		vt.Fatal("replay: unsupported event %q", str("ev"))
	}
}
