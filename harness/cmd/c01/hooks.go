package main

// Internal functions of AES-GCM-SIV judged directly: POLYVAL (the internal implementation through the
// verif hook and the public copy in aead/subtle) and the RFC 8452 counter mode with a chosen initial
// counter (hook), which is the only way to cross the 32-bit counter wrap deterministically.

import (
	"fmt"

	"verifharness/vt"

	aeadsubtle "github.com/tink-crypto/tink-go/v2/aead/subtle"
	"github.com/tink-crypto/tink-go/v2/testing/verifhooks"
)

type polyvalI interface {
	Update(data []byte)
	Finish() [16]byte
}

func newPolyval(impl string, key []byte) (polyvalI, error) {
	if impl == "internal" {
		return verifhooks.NewInternalPolyval(key)
	}
	return aeadsubtle.NewPolyval(key)
}

func polyvalEvent(x *runner, impl string, key []byte, chunks [][]byte) {
	var out [16]byte
	var err error
	p, pv := vt.Try(func() {
		var pv polyvalI
		if pv, err = newPolyval(impl, key); err != nil {
			return
		}
		for _, c := range chunks {
			pv.Update(c)
		}
		out = pv.Finish()
	})
	if err != nil {
		vt.Fatal("NewPolyval refused a 16-byte key: %v", err)
	}
	cs := []any{}
	for _, c := range chunks {
		cs = append(cs, vt.Hex(c))
	}
	e := vt.Ev{"ev": "polyval", "impl": impl, "key": vt.Hex(key), "chunks": cs, "out": vt.Hex(out[:]), "panic": p}
	if p {
		e["panicVal"] = fmt.Sprint(pv)
	}
	x.w.Emit(e)
}

func sivctrEvent(x *runner, key, ctr, data []byte) {
	var out []byte
	var err error
	p, pv := vt.Try(func() { out, err = verifhooks.AESGCMSIVCTR(key, ctr, data) })
	if err != nil {
		vt.Fatal("AESGCMSIVCTR refused a valid input: %v", err)
	}
	e := vt.Ev{"ev": "sivctr", "key": vt.Hex(key), "ctr": vt.Hex(ctr), "data": vt.Hex(data), "out": vt.Hex(out), "panic": p}
	if p {
		e["panicVal"] = fmt.Sprint(pv)
	}
	x.w.Emit(e)
}

func basis(i int) []byte { // x^i in POLYVAL's little-endian bit order
	b := make([]byte, 16)
	b[i/8] = 1 << uint(i%8)
	return b
}

func hookEvents(x *runner) {
	r := vt.Rng(5)
	seed := int(vt.Seed())
	// POLYVAL: dot(x^j, x^i) for basis-element pairs (all 128^2 in the thorough tier)
	for i := 0; i < 128; i++ {
		for j := 0; j < 128; j++ {
			if x.full || (i*131+j+seed)%16 == 0 || (i >= 120 && j >= 120) || i+j == 127 || i+j == 128 {
				impl := "internal"
				if (i+j)%5 == 0 {
					impl = "subtle"
				}
				polyvalEvent(x, impl, basis(i), [][]byte{basis(j)})
			}
		}
	}
	// dense patterns: all-ones, random, multi-block, uneven Update chunks (each zero-padded to a block)
	n := 300
	if x.full {
		n = 4000
	}
	for k := 0; k < n; k++ {
		key := vt.Bytes(r, 16)
		if k%7 == 0 {
			key = ones(16)
		}
		var chunks [][]byte
		for c := 0; c <= k%4; c++ {
			l := []int{16, 1, 15, 17, 32, 0, 31, 33, 48, 5}[(k+c*3)%10]
			chunks = append(chunks, content(r, l, k+c))
		}
		polyvalEvent(x, []string{"internal", "subtle"}[k%2], key, chunks)
	}
	// lengths on both sides of every plausible bulk-path threshold, in ONE Update call, with random, all-ones and
	// single-non-zero-block contents (a block-position-dependent slip shows with a single non-zero block at every
	// position of a 64-byte group)
	bulk := []int{}
	for k := 1; k <= 12; k++ {
		bulk = append(bulk, 16*k)
	}
	bulk = append(bulk, 255, 256, 257, 511, 512, 513, 1008, 1023, 1024, 1025, 1040, 1088, 2048, 4096, 8192)
	impls := []string{"internal"}
	if x.full {
		impls = []string{"internal", "subtle"}
	}
	for li, l := range bulk {
		for _, impl := range impls {
			polyvalEvent(x, impl, vt.Bytes(r, 16), [][]byte{vt.Bytes(r, l)})
			if l < 8192 || x.full {
				polyvalEvent(x, impl, vt.Bytes(r, 16), [][]byte{ones(l)})
			}
		}
		if !x.full && li%3 == seed%3 {
			polyvalEvent(x, "subtle", vt.Bytes(r, 16), [][]byte{vt.Bytes(r, l)})
		}
		if l >= 1024 { // a long chunk followed / preceded by a short one (Update pads each chunk)
			polyvalEvent(x, "internal", vt.Bytes(r, 16), [][]byte{vt.Bytes(r, l), vt.Bytes(r, 5)})
			if l <= 2048 {
				polyvalEvent(x, "internal", vt.Bytes(r, 16), [][]byte{vt.Bytes(r, 17), vt.Bytes(r, l)})
			}
		}
	}
	singles := []int{1024, 1088}
	if x.full {
		singles = []int{64, 128, 256, 512, 1008, 1024, 1040, 1088, 2048, 4096}
	}
	for _, l := range singles {
		nb := l / 16
		pos := map[int]bool{nb - 1: true}
		for _, g := range []int{0, nb / 8, nb/4 - 1} { // first, a middle and the last 64-byte group
			for q := 0; q < 4; q++ {
				if b := 4*g + q; b >= 0 && b < nb {
					pos[b] = true
				}
			}
		}
		for b := 0; b < nb; b++ {
			if !pos[b] {
				continue
			}
			for _, impl := range impls {
				d := make([]byte, l)
				copy(d[16*b:], vt.Bytes(r, 16))
				polyvalEvent(x, impl, vt.Bytes(r, 16), [][]byte{d})
			}
		}
	}
	// counter mode around the 32-bit wrap and elsewhere
	starts := [][]byte{{0xff, 0xff, 0xff, 0xff}, {0xfe, 0xff, 0xff, 0xff}, {0xfd, 0xff, 0xff, 0xff}, {0xff, 0xff, 0xff, 0x7f},
		{0, 0, 0, 0}, {0xff, 0, 0, 0}, {0xff, 0xff, 0, 0}, {0xff, 0xff, 0xff, 0}, {0x00, 0xff, 0xff, 0xff}}
	for si, s := range starts {
		for _, kl := range []int{16, 32} {
			for li, l := range []int{0, 1, 16, 17, 32, 48, 49, 80} {
				if !x.full && (si+li+kl/16+seed)%2 == 0 && l != 48 {
					continue
				}
				rest := vt.Bytes(r, 12)
				if (si+li)%3 == 0 {
					rest = ones(12) // a carry out of the counter must not reach byte 5
				}
				sivctrEvent(x, vt.Bytes(r, kl), cat(s, rest), content(r, l, si+li))
			}
		}
	}
	for k := 0; k < 40; k++ {
		sivctrEvent(x, vt.Bytes(r, 16+16*(k%2)), vt.Bytes(r, 16), vt.Bytes(r, 1+r.Intn(100)))
	}
}

func replayHook(x *runner, e map[string]any) {
	str := func(k string) string { s, _ := e[k].(string); return s }
	if str("ev") == "sivctr" {
		sivctrEvent(x, vt.Unhex(str("key")), vt.Unhex(str("ctr")), vt.Unhex(str("data")))
		return
	}
	var chunks [][]byte
	cs, _ := e["chunks"].([]any)
	for _, c := range cs {
		s, _ := c.(string)
		chunks = append(chunks, vt.Unhex(s))
	}
	polyvalEvent(x, str("impl"), vt.Unhex(str("key")), chunks)
}
