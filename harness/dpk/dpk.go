// Package dpk holds what the C08/C15/C17 drivers share: PRF key construction from an abstract
// configuration and keysets with chosen key ids / statuses / primary.
package dpk

import (
	"fmt"

	"verifharness/vt"

	"github.com/tink-crypto/tink-go/v2/insecurecleartextkeyset"
	"github.com/tink-crypto/tink-go/v2/insecuresecretdataaccess"
	"github.com/tink-crypto/tink-go/v2/key"
	"github.com/tink-crypto/tink-go/v2/keyset"
	"github.com/tink-crypto/tink-go/v2/prf/aescmacprf"
	"github.com/tink-crypto/tink-go/v2/prf/hkdfprf"
	"github.com/tink-crypto/tink-go/v2/prf/hmacprf"
	tinkpb "github.com/tink-crypto/tink-go/v2/proto/tink_go_proto"
	"github.com/tink-crypto/tink-go/v2/secretdata"
)

// PRFCfg is the abstract PRF key: Alg HMAC | CMAC | HKDF.
type PRFCfg struct {
	Alg     string `json:"alg"`
	Hash    string `json:"hash"`
	Salt    string `json:"salt"` // hex (HKDF only)
	SaltNil bool   `json:"saltnil"`
	Key     string `json:"key"` // hex
}

func Secret(b []byte) secretdata.Bytes {
	return secretdata.NewBytesFromData(b, insecuresecretdataaccess.Token{})
}

func hmacHash(h string) hmacprf.HashType {
	switch h {
	case "SHA1":
		return hmacprf.SHA1
	case "SHA224":
		return hmacprf.SHA224
	case "SHA256":
		return hmacprf.SHA256
	case "SHA384":
		return hmacprf.SHA384
	case "SHA512":
		return hmacprf.SHA512
	}
	return hmacprf.UnknownHashType
}

func HKDFHash(h string) hkdfprf.HashType {
	switch h {
	case "SHA1":
		return hkdfprf.SHA1
	case "SHA224":
		return hkdfprf.SHA224
	case "SHA256":
		return hkdfprf.SHA256
	case "SHA384":
		return hkdfprf.SHA384
	case "SHA512":
		return hkdfprf.SHA512
	}
	return hkdfprf.UnknownHashType
}

// PRFKey builds the key object of the per-type key package.
func PRFKey(c PRFCfg) (key.Key, error) {
	kb := vt.Unhex(c.Key)
	switch c.Alg {
	case "HMAC":
		p, err := hmacprf.NewParameters(len(kb), hmacHash(c.Hash))
		if err != nil {
			return nil, err
		}
		return hmacprf.NewKey(Secret(kb), p)
	case "CMAC":
		return aescmacprf.NewKey(Secret(kb))
	case "HKDF":
		salt := vt.Unhex(c.Salt)
		if c.SaltNil {
			salt = nil
		}
		p, err := hkdfprf.NewParameters(len(kb), HKDFHash(c.Hash), salt)
		if err != nil {
			return nil, err
		}
		return hkdfprf.NewKey(Secret(kb), p)
	}
	return nil, fmt.Errorf("unknown PRF alg %q", c.Alg)
}

// Ent is one keyset entry to build. ID is the wanted key id (for keys with an id requirement it must
// equal the requirement).
type Ent struct {
	ID      uint32
	Status  string // ENABLED | DISABLED | DESTROYED
	Primary bool
	Key     key.Key
}

// Handle builds a keyset handle with exactly the given ids, statuses and primary: keys are added
// through keyset.Manager, the keyset is then re-labelled at the proto level and re-read through
// insecurecleartextkeyset (so the ids of keys without id requirement are chosen, not random).
func Handle(ents []Ent) (*keyset.Handle, error) {
	km := keyset.NewManager()
	var first uint32
	var got []uint32
	for i, e := range ents {
		id, err := km.AddKey(e.Key)
		if err != nil {
			return nil, fmt.Errorf("AddKey: %v", err)
		}
		if i == 0 {
			first = id
		}
		got = append(got, id)
	}
	if err := km.SetPrimary(first); err != nil {
		return nil, err
	}
	h, err := km.Handle()
	if err != nil {
		return nil, err
	}
	ks := insecurecleartextkeyset.KeysetMaterial(h)
	if len(ks.Key) != len(ents) {
		return nil, fmt.Errorf("keyset has %d keys, want %d", len(ks.Key), len(ents))
	}
	for i, e := range ents {
		if ks.Key[i].KeyId != got[i] {
			return nil, fmt.Errorf("unexpected key order")
		}
		if _, req := e.Key.IDRequirement(); !req {
			ks.Key[i].KeyId = e.ID
		} else if ks.Key[i].KeyId != e.ID {
			return nil, fmt.Errorf("key requires id %d, wanted %d", ks.Key[i].KeyId, e.ID)
		}
		switch e.Status {
		case "ENABLED":
			ks.Key[i].Status = tinkpb.KeyStatusType_ENABLED
		case "DISABLED":
			ks.Key[i].Status = tinkpb.KeyStatusType_DISABLED
		case "DESTROYED":
			ks.Key[i].Status = tinkpb.KeyStatusType_DESTROYED
		default:
			return nil, fmt.Errorf("bad status %q", e.Status)
		}
		if e.Primary {
			ks.PrimaryKeyId = e.ID
		}
	}
	return insecurecleartextkeyset.Read(&keyset.MemReaderWriter{Keyset: ks})
}
