// Package dpk holds what the C08/C15/C17 drivers share: PRF key construction from an abstract
// configuration and keysets with chosen key ids / statuses / primary.
package dpk

import (
	"fmt"

	"verifharness/vt"

	"github.com/tink-crypto/tink-go/v2/insecurecleartextkeyset"
	"github.com/tink-crypto/tink-go/v2/insecuresecretdataaccess"
	"github.com/tink-crypto/tink-go/v2/key"
	"github.com/tink-crypto/tink-go/v2/keyset"
	"github.com/tink-crypto/tink-go/v2/prf/aescmacprf"
	"github.com/tink-crypto/tink-go/v2/prf/hkdfprf"
	"github.com/tink-crypto/tink-go/v2/prf/hmacprf"
	tinkpb "github.com/tink-crypto/tink-go/v2/proto/tink_go_proto"
	"github.com/tink-crypto/tink-go/v2/secretdata"
)

// PRFCfg is the abstract PRF key: Alg HMAC | CMAC | HKDF.
type PRFCfg struct {
	Alg     string `json:"alg"`
	Hash    string `json:"hash"`
	Salt    string `json:"salt"` // hex (HKDF only)
	SaltNil bool   `json:"saltnil"`
	Key     string `json:"key"` // hex
}

func Secret(b []byte) secretdata.Bytes {
	return secretdata.NewBytesFromData(b, insecuresecretdataaccess.Token{})
}

func hmacHash(h string) hmacprf.HashType {
	switch h {
	case "SHA1":
		return hmacprf.SHA1
	case "SHA224":
		return hmacprf.SHA224
	case "SHA256":
		return hmacprf.SHA256
	case "SHA384":
		return hmacprf.SHA384
	case "SHA512":
		return hmacprf.SHA512
	}
	return hmacprf.UnknownHashType
}

func HKDFHash(h string) hkdfprf.HashType {
	switch h {
	case "SHA1":
		return hkdfprf.SHA1
	case "SHA224":
		return hkdfprf.SHA224
	case "SHA256":
		return hkdfprf.SHA256
	case "SHA384":
		return hkdfprf.SHA384
	case "SHA512":
		return hkdfprf.SHA512
	}
	return hkdfprf.UnknownHashType
}

// PRFKey builds the key object of the per-type key package.
func PRFKey(c PRFCfg) (key.Key, error) {
	kb := vt.Unhex(c.Key) // a fresh buffer, scribbled over once the key object exists
	defer Scribble(kb)
	switch c.Alg {
	case "HMAC":
		p, err := hmacprf.NewParameters(len(kb), hmacHash(c.Hash))
		if err != nil {
			return nil, err
		}
		return hmacprf.NewKey(Secret(kb), p)
	case "CMAC":
		return aescmacprf.NewKey(Secret(kb))
	case "HKDF":
		salt := vt.Unhex(c.Salt)
		if c.SaltNil {
			salt = nil
		}
		defer Scribble(salt)
		p, err := hkdfprf.NewParameters(len(kb), HKDFHash(c.Hash), salt)
		if err != nil {
			return nil, err
		}
		return hkdfprf.NewKey(Secret(kb), p)
	}
	return nil, fmt.Errorf("unknown PRF alg %q", c.Alg)
}

// Ent is one keyset entry to build. ID is the wanted key id (for keys with an id requirement it must
// equal the requirement).
type Ent struct {
	ID      uint32
	Status  string // ENABLED | DISABLED | DESTROYED
	Primary bool
	Key     key.Key
}

// Handle builds a keyset handle with exactly the given ids, statuses and primary: keys are added
// through keyset.Manager, the keyset is then re-labelled at the proto level and re-read through
// insecurecleartextkeyset (so the ids of keys without id requirement are chosen, not random).
func Handle(ents []Ent) (*keyset.Handle, error) {
	km := keyset.NewManager()
	var first uint32
	var got []uint32
	for i, e := range ents {
		id, err := km.AddKey(e.Key)
		if err != nil {
			return nil, fmt.Errorf("AddKey: %v", err)
		}
		if i == 0 {
			first = id
		}
		got = append(got, id)
	}
	if err := km.SetPrimary(first); err != nil {
		return nil, err
	}
	h, err := km.Handle()
	if err != nil {
		return nil, err
	}
	ks := insecurecleartextkeyset.KeysetMaterial(h)
	if len(ks.Key) != len(ents) {
		return nil, fmt.Errorf("keyset has %d keys, want %d", len(ks.Key), len(ents))
	}
	for i, e := range ents {
		if ks.Key[i].KeyId != got[i] {
			return nil, fmt.Errorf("unexpected key order")
		}
		if _, req := e.Key.IDRequirement(); !req {
			ks.Key[i].KeyId = e.ID
		} else if ks.Key[i].KeyId != e.ID {
			return nil, fmt.Errorf("key requires id %d, wanted %d", ks.Key[i].KeyId, e.ID)
		}
		switch e.Status {
		case "ENABLED":
			ks.Key[i].Status = tinkpb.KeyStatusType_ENABLED
		case "DISABLED":
			ks.Key[i].Status = tinkpb.KeyStatusType_DISABLED
		case "DESTROYED":
			ks.Key[i].Status = tinkpb.KeyStatusType_DESTROYED
		default:
			return nil, fmt.Errorf("bad status %q", e.Status)
		}
		if e.Primary {
			ks.PrimaryKeyId = e.ID
		}
	}
	return insecurecleartextkeyset.Read(&keyset.MemReaderWriter{Keyset: ks})
}

// ---- adversarial caller buffers -------------------------------------------------------------
//
// Every byte string handed to Tink lives in a driver-owned, REUSED backing array (one Arena per argument role):
// successive calls overwrite the same memory with the next input, and after every constructor / call the driver
// scribbles over what it passed. A primitive that keeps a reference to a caller buffer, caches by comparing with an
// uncopied slice, or returns memory aliasing an input then computes with / returns the wrong bytes, which the
// reference (fed from pristine copies taken before the call) exposes. Outputs must be rendered AFTER the scribble.

// Arena is the reused backing array of one argument role. Layout of a loaded input:
//
//	[ guard | data (what Tink is handed) | spare capacity | guard ]
//
// guard zones and spare capacity are filled with a sentinel pattern; the slice handed to Tink has len = data and
// cap = data + spare, so an append() by the callee lands in the sentinel-filled spare capacity. Intact compares the
// whole region with what was loaded: input bytes, spare capacity and guards must be unchanged after the call.
type Arena struct {
	mem   []byte
	want  []byte // pre-call snapshot of mem[:used]
	used  int
	live  bool // loaded since the last scribble
	gen   byte
	guard int
}

const (
	arenaGuard = 32
	arenaSpare = 48
)

func sentinel(i int, gen byte) byte { return 0xc3 ^ gen ^ byte(i*11) }

// load lays out rec (the whole record that lives in the buffer) and returns the offset of its first byte.
func (a *Arena) load(rec []byte) int {
	need := arenaGuard + len(rec) + arenaSpare + arenaGuard
	if cap(a.mem) < need {
		a.mem = make([]byte, need*2)
	}
	a.mem = a.mem[:cap(a.mem)]
	a.gen++
	for i := 0; i < need; i++ {
		a.mem[i] = sentinel(i, a.gen)
	}
	copy(a.mem[arenaGuard:], rec)
	a.used = need
	a.want = append(a.want[:0], a.mem[:need]...)
	a.live = true
	return arenaGuard
}

// Load overwrites the arena with v and returns the slice to hand to Tink (nil stays nil): len(v) bytes with
// sentinel-filled spare capacity behind them.
func (a *Arena) Load(v []byte) []byte {
	if v == nil {
		return nil
	}
	off := a.load(v)
	return a.mem[off : off+len(v) : off+len(v)+arenaSpare]
}

// LoadPrefix places the whole record rec in the arena and returns only its first n bytes: the rest of the record is
// the slice's spare capacity (buf[:n] of a larger caller record).
func (a *Arena) LoadPrefix(rec []byte, n int) []byte {
	off := a.load(rec)
	return a.mem[off : off+n : off+len(rec)+arenaSpare]
}

// Again returns the first n bytes of what is in the arena WITHOUT rewriting it.
func (a *Arena) Again(n int) []byte {
	return a.mem[arenaGuard : arenaGuard+n : a.used-arenaGuard]
}

// Intact reports whether input bytes, spare capacity and guard zones still hold what was loaded.
func (a *Arena) Intact() bool {
	if !a.live {
		return true
	}
	return string(a.mem[:a.used]) == string(a.want)
}

// Scribble overwrites the whole arena with a changing pattern.
func (a *Arena) Scribble() {
	a.gen++
	a.live = false
	m := a.mem[:cap(a.mem)]
	for i := range m {
		m[i] = 0xa5 ^ a.gen ^ byte(i*7)
	}
}

// Scribble overwrites one-shot buffers (constructor arguments) after use.
func Scribble(bs ...[]byte) {
	for _, b := range bs {
		b = b[:cap(b)]
		for i := range b {
			b[i] = 0x5c ^ byte(i*13)
		}
	}
}

// Arenas is a set of arenas by role name. It remembers whether any call altered a buffer it was handed
// (TakeIntact), checked on every ScribbleAll / Check.
type Arenas struct {
	m     map[string]*Arena
	dirty []string
}

func NewArenas() *Arenas { return &Arenas{m: map[string]*Arena{}} }

func (as *Arenas) get(role string) *Arena {
	a := as.m[role]
	if a == nil {
		a = &Arena{}
		as.m[role] = a
	}
	return a
}

// In loads v into the arena of the given role.
func (as *Arenas) In(role string, v []byte) []byte { return as.get(role).Load(v) }

// InPrefix loads the whole record rec and returns its first n bytes (spare capacity = the rest of the record).
func (as *Arenas) InPrefix(role string, rec []byte, n int) []byte {
	return as.get(role).LoadPrefix(rec, n)
}

// Again returns the first n bytes of the record already in the arena, without rewriting the buffer.
func (as *Arenas) Again(role string, n int) []byte { return as.get(role).Again(n) }

// Check compares every live arena with its pre-call snapshot and remembers the roles that were altered.
func (as *Arenas) Check() {
	for role, a := range as.m {
		if !a.Intact() {
			as.dirty = append(as.dirty, role)
			a.want = append(a.want[:0], a.mem[:a.used]...) // report once; later calls are compared with the new state
		}
	}
}

// ScribbleAll checks every arena (see Check) and then scribbles over all of them.
func (as *Arenas) ScribbleAll() {
	as.Check()
	for _, a := range as.m {
		a.Scribble()
	}
}

// TakeIntact reports whether every buffer handed to Tink since the last TakeIntact came back unchanged (input
// bytes, spare capacity, guard zones), and resets the record.
func (as *Arenas) TakeIntact() bool {
	ok := len(as.dirty) == 0
	as.dirty = nil
	return ok
}

// Walk is the sequence of input lengths successive calls on ONE object go through: growing, shrinking down to empty,
// growing again - so that any per-object scratch buffer, cache or high-water-mark state shows in a later call.
// min is the smallest admissible length (lengths below it are dropped), step scales the classes.
func Walk(min int) []int {
	base := []int{0, 1, 15, 16, 17, 33, 64, 100, 257, 100, 64, 33, 17, 16, 15, 1, 0, 1, 16, 40, 5, 0, 31}
	var out []int
	for _, n := range base {
		if n >= min {
			out = append(out, n)
		}
	}
	return out
}

// Writer is a trace writer that stamps every event with inIntact: whether all buffers handed to Tink since the
// previous event came back unchanged (input bytes, spare capacity, guard zones).
type Writer struct {
	*vt.Writer
	B *Arenas
}

func NewWriter(path string, b *Arenas) *Writer { return &Writer{vt.NewWriter(path), b} }

func (w *Writer) Emit(e vt.Ev) {
	e["inIntact"] = w.B.TakeIntact()
	w.Writer.Emit(e)
}
