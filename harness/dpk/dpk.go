// Package dpk holds what the C08/C15/C17 drivers share: PRF key construction from an abstract
// configuration and keysets with chosen key ids / statuses / primary.
package dpk

import (
	"fmt"

	"verifharness/vt"

	"github.com/tink-crypto/tink-go/v2/insecurecleartextkeyset"
	"github.com/tink-crypto/tink-go/v2/insecuresecretdataaccess"
	"github.com/tink-crypto/tink-go/v2/key"
	"github.com/tink-crypto/tink-go/v2/keyset"
	"github.com/tink-crypto/tink-go/v2/prf/aescmacprf"
	"github.com/tink-crypto/tink-go/v2/prf/hkdfprf"
	"github.com/tink-crypto/tink-go/v2/prf/hmacprf"
	tinkpb "github.com/tink-crypto/tink-go/v2/proto/tink_go_proto"
	"github.com/tink-crypto/tink-go/v2/secretdata"
)

// PRFCfg is the abstract PRF key: Alg HMAC | CMAC | HKDF.
type PRFCfg struct {
	Alg     string `json:"alg"`
	Hash    string `json:"hash"`
	Salt    string `json:"salt"` // hex (HKDF only)
	SaltNil bool   `json:"saltnil"`
	Key     string `json:"key"` // hex
}

func Secret(b []byte) secretdata.Bytes {
	return secretdata.NewBytesFromData(b, insecuresecretdataaccess.Token{})
}

func hmacHash(h string) hmacprf.HashType {
	switch h {
	case "SHA1":
		return hmacprf.SHA1
	case "SHA224":
		return hmacprf.SHA224
	case "SHA256":
		return hmacprf.SHA256
	case "SHA384":
		return hmacprf.SHA384
	case "SHA512":
		return hmacprf.SHA512
	}
	return hmacprf.UnknownHashType
}

func HKDFHash(h string) hkdfprf.HashType {
	switch h {
	case "SHA1":
		return hkdfprf.SHA1
	case "SHA224":
		return hkdfprf.SHA224
	case "SHA256":
		return hkdfprf.SHA256
	case "SHA384":
		return hkdfprf.SHA384
	case "SHA512":
		return hkdfprf.SHA512
	}
	return hkdfprf.UnknownHashType
}

// PRFKey builds the key object of the per-type key package.
func PRFKey(c PRFCfg) (key.Key, error) {
	kb := vt.Unhex(c.Key) // a fresh buffer, scribbled over once the key object exists
	defer Scribble(kb)
	switch c.Alg {
	case "HMAC":
		p, err := hmacprf.NewParameters(len(kb), hmacHash(c.Hash))
		if err != nil {
			return nil, err
		}
		return hmacprf.NewKey(Secret(kb), p)
	case "CMAC":
		return aescmacprf.NewKey(Secret(kb))
	case "HKDF":
		salt := vt.Unhex(c.Salt)
		if c.SaltNil {
			salt = nil
		}
		defer Scribble(salt)
		p, err := hkdfprf.NewParameters(len(kb), HKDFHash(c.Hash), salt)
		if err != nil {
			return nil, err
		}
		return hkdfprf.NewKey(Secret(kb), p)
	}
	return nil, fmt.Errorf("unknown PRF alg %q", c.Alg)
}

// Ent is one keyset entry to build. ID is the wanted key id (for keys with an id requirement it must
// equal the requirement).
type Ent struct {
	ID      uint32
	Status  string // ENABLED | DISABLED | DESTROYED
	Primary bool
	Key     key.Key
}

// Handle builds a keyset handle with exactly the given ids, statuses and primary: keys are added
// through keyset.Manager, the keyset is then re-labelled at the proto level and re-read through
// insecurecleartextkeyset (so the ids of keys without id requirement are chosen, not random).
func Handle(ents []Ent) (*keyset.Handle, error) {
	km := keyset.NewManager()
	var first uint32
	var got []uint32
	for i, e := range ents {
		id, err := km.AddKey(e.Key)
		if err != nil {
			return nil, fmt.Errorf("AddKey: %v", err)
		}
		if i == 0 {
			first = id
		}
		got = append(got, id)
	}
	if err := km.SetPrimary(first); err != nil {
		return nil, err
	}
	h, err := km.Handle()
	if err != nil {
		return nil, err
	}
	ks := insecurecleartextkeyset.KeysetMaterial(h)
	if len(ks.Key) != len(ents) {
		return nil, fmt.Errorf("keyset has %d keys, want %d", len(ks.Key), len(ents))
	}
	for i, e := range ents {
		if ks.Key[i].KeyId != got[i] {
			return nil, fmt.Errorf("unexpected key order")
		}
		if _, req := e.Key.IDRequirement(); !req {
			ks.Key[i].KeyId = e.ID
		} else if ks.Key[i].KeyId != e.ID {
			return nil, fmt.Errorf("key requires id %d, wanted %d", ks.Key[i].KeyId, e.ID)
		}
		switch e.Status {
		case "ENABLED":
			ks.Key[i].Status = tinkpb.KeyStatusType_ENABLED
		case "DISABLED":
			ks.Key[i].Status = tinkpb.KeyStatusType_DISABLED
		case "DESTROYED":
			ks.Key[i].Status = tinkpb.KeyStatusType_DESTROYED
		default:
			return nil, fmt.Errorf("bad status %q", e.Status)
		}
		if e.Primary {
			ks.PrimaryKeyId = e.ID
		}
	}
	return insecurecleartextkeyset.Read(&keyset.MemReaderWriter{Keyset: ks})
}

// ---- adversarial caller buffers -------------------------------------------------------------
//
// Every byte string handed to Tink lives in a driver-owned, REUSED backing array (one Arena per argument role):
// successive calls overwrite the same memory with the next input, and after every constructor / call the driver
// scribbles over what it passed. A primitive that keeps a reference to a caller buffer, caches by comparing with an
// uncopied slice, or returns memory aliasing an input then computes with / returns the wrong bytes, which the
// reference (fed from pristine copies taken before the call) exposes. Outputs must be rendered AFTER the scribble.

// Arena is the reused backing array of one argument role.
type Arena struct {
	mem []byte
	gen byte
}

// Load overwrites the arena with v and returns the slice to hand to Tink (nil stays nil). The returned slice keeps
// spare capacity on purpose.
func (a *Arena) Load(v []byte) []byte {
	if v == nil {
		return nil
	}
	if cap(a.mem) < len(v) {
		a.mem = make([]byte, len(v)*2+64)
	}
	a.mem = a.mem[:cap(a.mem)]
	b := a.mem[:len(v)]
	copy(b, v)
	return b
}

// Scribble overwrites the whole arena (used part and spare capacity) with a changing pattern.
func (a *Arena) Scribble() {
	a.gen++
	m := a.mem[:cap(a.mem)]
	for i := range m {
		m[i] = 0xa5 ^ a.gen ^ byte(i*7)
	}
}

// Scribble overwrites one-shot buffers (constructor arguments) after use.
func Scribble(bs ...[]byte) {
	for _, b := range bs {
		b = b[:cap(b)]
		for i := range b {
			b[i] = 0x5c ^ byte(i*13)
		}
	}
}

// Arenas is a set of arenas by role name.
type Arenas map[string]*Arena

// In loads v into the arena of the given role.
func (as Arenas) In(role string, v []byte) []byte {
	a := as[role]
	if a == nil {
		a = &Arena{}
		as[role] = a
	}
	return a.Load(v)
}

// ScribbleAll scribbles every arena of the set.
func (as Arenas) ScribbleAll() {
	for _, a := range as {
		a.Scribble()
	}
}

// Walk is the sequence of input lengths successive calls on ONE object go through: growing, shrinking down to empty,
// growing again - so that any per-object scratch buffer, cache or high-water-mark state shows in a later call.
// min is the smallest admissible length (lengths below it are dropped), step scales the classes.
func Walk(min int) []int {
	base := []int{0, 1, 15, 16, 17, 33, 64, 100, 257, 100, 64, 33, 17, 16, 15, 1, 0, 1, 16, 40, 5, 0, 31}
	var out []int
	for _, n := range base {
		if n >= min {
			out = append(out, n)
		}
	}
	return out
}
