"""Shared machinery for /verif/bin/vcheck: TLC invocation, Go driver builds, trace sharding,
negative controls, known findings, evidence files, exit codes (DESIGN.md section 5).

Exit codes: 0 held; 1 + "VIOLATION property=<id> replay=<path>" for real-code behaviour that
contradicts the specification; 2 for anything else (infrastructure), never a VIOLATION line.
"""
import concurrent.futures as cf
import json
import os
import random
import re
import shutil
import subprocess
import sys
import tempfile
import time

VERIF = os.path.dirname(os.path.dirname(os.path.abspath(__file__)))
REPO = "/repo"
TLA_JAR = "/opt/veriftools/tla/tla2tools.jar"
CM_JAR = "/opt/veriftools/tla/CommunityModules-deps.jar"
CLASSES = os.path.join(VERIF, "build", "classes")
SPEC = os.path.join(VERIF, "spec")
LIBS_JDK = [os.path.join(SPEC, d) for d in ("prim/jdk", "lib", "algo", "pq", "sys", "trace", "mc", "plan", "proofs")] + ["/opt/veriftools/tlapm/lib/tlapm/stdlib"]
LIBS_TOY = [os.path.join(SPEC, d) for d in ("prim/toy", "lib", "algo", "pq", "sys", "trace", "mc", "plan", "proofs")] + ["/opt/veriftools/tlapm/lib/tlapm/stdlib"]


SLOTS = int(os.environ.get("VERIF_SLOTS", "20"))   # machine-wide cap on concurrently busy TLC worker threads
SLOT_DIR = os.environ.get("VERIF_SLOT_DIR", "/tmp/verif-slots")


class _Slots:
    """Cross-process token pool (flock on files) so that parallel checks do not oversubscribe the machine."""

    def __init__(self, want):
        self.want = max(1, min(want, SLOTS))
        self.held = []

    def __enter__(self):
        import fcntl
        os.makedirs(SLOT_DIR, exist_ok=True)
        self.big = None
        if self.want > 1:
            # one multi-slot request at a time machine-wide; it then acquires-and-holds, so it cannot starve
            # behind single-slot requests and cannot deadlock with another multi-slot request
            self.want = min(self.want, max(2, SLOTS * 3 // 5))
            self.big = open(os.path.join(SLOT_DIR, "big"), "w")
            fcntl.flock(self.big, fcntl.LOCK_EX)
        while len(self.held) < self.want:
            for i in range(SLOTS):
                if len(self.held) >= self.want:
                    break
                f = open(os.path.join(SLOT_DIR, "slot-%d" % i), "w")
                try:
                    fcntl.flock(f, fcntl.LOCK_EX | fcntl.LOCK_NB)
                    self.held.append(f)
                except OSError:
                    f.close()
            if len(self.held) < self.want:
                time.sleep(0.2 + random.random() * 0.3)
        return self

    def __exit__(self, *a):
        for f in self.held:
            f.close()
        self.held = []
        if getattr(self, "big", None):
            self.big.close()


class Infra(Exception):
    """An infrastructure problem: exit 2, never a verdict about the code."""


class TLCResult:
    def __init__(self):
        self.rc = None
        self.out = ""
        self.ok = False                # "No error has been found"
        self.invariant = None          # name of a violated invariant / property
        self.postcondition_failed = False
        self.error = None              # other error text (spec evaluation error etc.)
        self.generated = 0
        self.distinct = 0
        self.depth = 0
        self.last_state = None         # dict var -> value of the final counterexample state
        self.trace_len = 0
        self.coverage = {}             # action -> count (when -coverage was requested)
        self.wall = 0.0

    def summary(self):
        return dict(ok=self.ok, invariant=self.invariant, generated=self.generated,
                    distinct=self.distinct, depth=self.depth, error=self.error,
                    postcondition_failed=self.postcondition_failed, wall_s=round(self.wall, 1))


def _env_base():
    env = dict(os.environ)
    env["GOFLAGS"] = "-mod=mod"
    env["GOPROXY"] = "off"
    env.pop("GOSUMDB", None)
    env.pop("GOTOOLCHAIN", None)   # default auto selects the cached go1.25.11
    return env


class Ctx:
    def __init__(self, pid, tier, seed=None, replay=None):
        self.id = pid
        self.tier = tier
        self.seed = int(seed if seed is not None else os.environ.get("VERIF_SEED", "1") or 1)
        self.replay = replay
        self.t0 = time.time()
        self.rng = random.Random(self.seed * 7919 + sum(map(ord, pid)))
        self.scratch = tempfile.mkdtemp(prefix="verif-%s-" % pid)
        self.cov = {"states": 0, "transitions": 0, "traces_validated_against_impl": 0, "samples": [],
                    "stages": {}}
        self.assumptions = []
        self.violations = []      # dicts with signature, what, replay path
        self.known_hits = []
        self.level = "model_checking"
        self._known = None
        os.makedirs(os.path.join(VERIF, "evidence", "replays"), exist_ok=True)

    # ------------------------------------------------------------------ bookkeeping
    @property
    def thorough(self):
        return self.tier == "thorough"

    def log(self, *a):
        print("[%s %6.1fs]" % (self.id, time.time() - self.t0), *a, flush=True)

    def sample(self, s, cap=8):
        if len(self.cov["samples"]) < cap:
            self.cov["samples"].append(_shorten(s))

    def stage(self, name, **kv):
        self.cov["stages"].setdefault(name, {}).update(kv)

    def add_states(self, r):
        self.cov["states"] += r.distinct
        self.cov["transitions"] += r.generated

    def env(self, **extra):
        env = _env_base()
        env["VERIF_SEED"] = str(self.seed)
        env["VERIF_TIER"] = self.tier
        for k, v in extra.items():
            env[k] = str(v)
        return env

    # ------------------------------------------------------------------ known findings
    def known(self):
        if self._known is None:
            p = os.path.join(VERIF, "KNOWN_FINDINGS.json")
            self._known = []
            if os.path.exists(p):
                self._known = [f for f in json.load(open(p)).get("findings", [])
                               if f.get("property") == self.id and f.get("status") == "known"]
        return self._known

    def violation(self, signature, what, replay_obj):
        """Record a real-code violation. signature identifies call site + input class."""
        for f in self.known():
            if f["signature"] == signature:
                if signature not in [k["signature"] for k in self.known_hits]:
                    self.known_hits.append(dict(signature=signature, what=f.get("what", what)))
                return False
        for v in self.violations:
            if v["signature"] == signature:
                v["count"] = v.get("count", 1) + 1
                return True
        n = len(self.violations)
        path = os.path.join(VERIF, "evidence", "replays", "%s-%d-%d.json" % (self.id, self.seed, n))
        replay_obj = dict(replay_obj)
        replay_obj.update(property=self.id, signature=signature, what=what, seed=self.seed, tier=self.tier)
        with open(path, "w") as f:
            json.dump(replay_obj, f, indent=1)
        self.violations.append(dict(signature=signature, what=what, replay=path))
        self.log("VIOLATION candidate:", signature, "-", what)
        return True

    def finish(self):
        wall = time.time() - self.t0
        for k in self.known_hits:
            print("KNOWN-FINDING: property=%s %s: %s" % (self.id, k["signature"], k["what"]))
        cov = self.cov
        cov.setdefault("rule", "")
        ev = dict(property_id=self.id, tier=self.tier, seed=self.seed, level=self.level, coverage=cov,
                  assumptions=self.assumptions, wall_s=round(wall, 1), violations=len(self.violations),
                  known_findings_seen=[k["signature"] for k in self.known_hits])
        if not cov["samples"]:
            cov["samples"] = ["(no sample recorded)"]
        evdir = os.path.join(VERIF, "evidence")
        if os.environ.get("VERIF_REPO"):      # mutation trial against a scratch worktree: never evidence
            evdir = "/tmp/verif-trial-evidence"
            os.makedirs(evdir, exist_ok=True)
        elif os.environ.get("VERIF_EVIDENCE_DIR"):   # extra runs (seed sweeps) that must not replace the committed evidence
            evdir = os.environ["VERIF_EVIDENCE_DIR"]
            os.makedirs(evdir, exist_ok=True)
        with open(os.path.join(evdir, "%s.json" % self.id), "w") as f:
            json.dump(ev, f, indent=1, default=str)
        shutil.rmtree(self.scratch, ignore_errors=True)
        for v in self.violations:
            print("VIOLATION property=%s replay=%s" % (self.id, v["replay"]))
            print("  %s: %s (x%d)" % (v["signature"], v["what"], v.get("count", 1)))
        if self.violations:
            sys.exit(1)
        print("OK property=%s tier=%s seed=%d states=%d transitions=%d traces=%d wall=%.1fs" % (
            self.id, self.tier, self.seed, cov["states"], cov["transitions"],
            cov["traces_validated_against_impl"], wall))
        sys.exit(0)

    def infra(self, msg):
        raise Infra(msg)

    # ------------------------------------------------------------------ builds
    def classes(self):
        """Compile the JDK primitive binding if missing or stale."""
        src = os.path.join(SPEC, "prim", "jdk", "Prim.java")
        cls = os.path.join(CLASSES, "Prim.class")
        srcs = [src] + [os.path.join(SPEC, "prim", "jdk", f) for f in os.listdir(os.path.join(SPEC, "prim", "jdk"))
                        if f.endswith(".java") and f != "Prim.java"]
        if not os.path.exists(cls) or any(os.path.getmtime(s) > os.path.getmtime(cls) for s in srcs):
            os.makedirs(CLASSES, exist_ok=True)
            tmp = tempfile.mkdtemp(prefix="verif-cls-")
            r = subprocess.run(["javac", "-nowarn", "-cp", TLA_JAR, "-d", tmp] + srcs,
                               capture_output=True, text=True)
            if r.returncode != 0:
                shutil.rmtree(tmp, ignore_errors=True)
                raise Infra("javac failed: " + r.stderr[-2000:])
            for f in os.listdir(tmp):
                os.replace(os.path.join(tmp, f), os.path.join(CLASSES, f))
            shutil.rmtree(tmp, ignore_errors=True)
        return CLASSES

    def go_build(self, cmd, race=False, tags="verif"):
        """Build /verif/harness/cmd/<cmd> against /repo's working tree with the hooks enabled."""
        out = os.path.join(self.scratch, cmd + ("-race" if race else ""))
        args = ["go", "build", "-tags", tags]
        alt = os.environ.get("VERIF_REPO")   # mutation trials only: build against a scratch worktree
        if alt:
            mod = os.path.join(self.scratch, "alt.mod")
            src = open(os.path.join(VERIF, "harness", "go.mod")).read()
            open(mod, "w").write(src.replace("=> /repo", "=> " + alt))
            shutil.copy(os.path.join(VERIF, "harness", "go.sum"), os.path.join(self.scratch, "alt.sum"))
            args += ["-modfile", mod]
            self.log("NOTE: building against VERIF_REPO=%s (mutation trial; not evidence)" % alt)
        if race:
            args.append("-race")
        args += ["-o", out, "./cmd/" + cmd]
        t = time.time()
        r = subprocess.run(args, cwd=os.path.join(VERIF, "harness"), env=self.env(), capture_output=True, text=True)
        if r.returncode != 0:
            raise Infra("go build %s failed:\n%s" % (cmd, (r.stdout + r.stderr)[-4000:]))
        self.log("built %s in %.1fs" % (cmd, time.time() - t))
        return out

    def run(self, argv, timeout=1800, env=None, cwd=None, ok_codes=(0,), stdin=None):
        t = time.time()
        try:
            r = subprocess.run(argv, env=env or self.env(), cwd=cwd or self.scratch, capture_output=True,
                               text=True, timeout=timeout, input=stdin)
        except subprocess.TimeoutExpired:
            raise Infra("timeout after %ds: %s" % (timeout, " ".join(argv[:4])))
        if r.returncode not in ok_codes:
            raise Infra("command failed rc=%d: %s\n%s" % (r.returncode, " ".join(argv[:6]),
                                                        (r.stdout[-3000:] + r.stderr[-3000:])))
        r.wall = time.time() - t
        return r

    # ------------------------------------------------------------------ TLC
    def tlc(self, module, cfg=None, libs=None, env=None, workers=1, timeout=900, heap="3g",
            extra=(), coverage=False, simulate=None, deque=False, name=None, toy=False):
        """Run TLC on spec/<...>/<module>.tla (module may be a path). Returns TLCResult."""
        self.classes()
        path = module if module.endswith(".tla") else self._find(module + ".tla")
        cfgp = cfg if (cfg and cfg.endswith(".cfg")) else self._find((cfg or os.path.basename(path)[:-4]) + ".cfg")
        libs = libs or (LIBS_TOY if toy else LIBS_JDK)
        meta = tempfile.mkdtemp(prefix="meta-", dir=self.scratch)
        dump = os.path.join(meta, "cex.json")
        jopts = ["-XX:+UseParallelGC", "-XX:ParallelGCThreads=%d" % max(2, min(8, workers)), "-Xmx" + heap,
                 "-Xss512m", "-DTLA-Library=" + ":".join(libs)]
        if deque:
            jopts.append("-Dtlc2.tool.queue.IStateQueue=StateDeque")
        cp = ":".join([TLA_JAR, CM_JAR] + ([] if toy else [CLASSES]))
        argv = ["java"] + jopts + ["-cp", cp, "tlc2.TLC", "-workers", str(workers), "-metadir", meta,
                                   "-noGenerateSpecTE", "-dumpTrace", "json", dump, "-config", cfgp]
        if coverage:
            argv += ["-coverage", "1"]
        if simulate:
            argv += ["-simulate", simulate]
        argv += list(extra) + [path]
        e = self.env(**(env or {}))
        with _Slots(workers):
            t = time.time()
            try:
                r = subprocess.run(argv, env=e, cwd=meta, capture_output=True, text=True, timeout=timeout)
            except subprocess.TimeoutExpired as ex:
                subprocess.run(["pkill", "-f", meta], capture_output=True)
                raise Infra("TLC timeout after %ds on %s" % (timeout, os.path.basename(path)))
        res = parse_tlc(r.stdout + r.stderr)
        res.rc = r.returncode
        res.wall = time.time() - t
        if res.invariant and os.path.exists(dump):
            try:
                d = json.load(open(dump))
                st = d.get("counterexample", {}).get("state", [])
                if st:
                    res.last_state = st[-1][1] if isinstance(st[-1], list) else st[-1]
                    res.trace_len = len(st)
                    res.cex_states = [s[1] if isinstance(s, list) else s for s in st]
            except Exception as ex:  # noqa
                res.error = (res.error or "") + " [cex parse: %s]" % ex
        shutil.rmtree(meta, ignore_errors=True)
        if not res.ok and not res.invariant and not res.postcondition_failed and not res.error:
            res.error = "TLC ended without verdict (rc=%s): %s" % (r.returncode, (r.stdout + r.stderr)[-1500:])
        return res

    def _find(self, fname):
        for root, _, files in os.walk(SPEC):
            if fname in files:
                return os.path.join(root, fname)
        raise Infra("spec file not found: " + fname)

    def model_check(self, module, cfg=None, stage=None, must_cover=True, **kw):
        """Exhaustive (M) run: must end without error; a violated invariant here is a specification
        or design finding (exit 2 unless the check reproduces it on real code)."""
        kw.setdefault("workers", 16)
        kw.setdefault("heap", "12g")
        r = self.tlc(module, cfg, coverage=must_cover and self.thorough, **kw)
        nm = stage or ("M:" + (cfg or module))
        self.stage(nm, **r.summary())
        if r.error or r.postcondition_failed:
            raise Infra("model checking %s: %s" % (nm, r.error or "postcondition failed"))
        if r.invariant:
            raise Infra("model checking %s: %s violated on the model alone (specification/design finding, "
                        "not reproduced on real code); last state: %s" % (nm, r.invariant, json.dumps(r.last_state)[:1500]))
        self.add_states(r)
        self.log("%s: %d distinct / %d generated states, depth %d, %.1fs" % (nm, r.distinct, r.generated, r.depth, r.wall))
        return r

    # ------------------------------------------------------------------ trace validation
    def validate_events(self, module, trace, cfg=None, shards=16, timeout=1800, env=None, heap="3g",
                        max_findings=25, stage=None, deque=False, reset=None):
        """Validate a trace with a trace spec that has variables l (next position) and bad (<<>> or
        <<reason, expected...>>), invariant Conforms, env VERIF_TRACE / VERIF_START. The file is split into
        `shards` pieces validated by parallel TLC processes; after a mismatch the shard resumes behind the
        offending event. With reset=<event name> the trace is stateful: pieces start only at events of that
        name (which re-initialise the model) and a shard resumes at the next such event after a mismatch.
        Returns (mismatches, n_events); a mismatch is dict(event=<json>, index=<global 0-based>, bad=[...])."""
        lines = [x for x in open(trace).read().splitlines() if x.strip()]
        n = len(lines)
        if n == 0:
            raise Infra("empty trace " + trace)
        shards = max(1, min(shards, (n + 199) // 200))
        cuts = [i * n // shards for i in range(shards)] + [n]
        resets = None
        if reset:
            key = '"ev":"%s"' % reset
            resets = [i for i, x in enumerate(lines) if key in x.replace('": "', '":"')]
            if not resets or resets[0] != 0:
                raise Infra("stateful trace %s must start with a %s event" % (trace, reset))
            import bisect
            snapped = sorted(set([0] + [resets[min(len(resets) - 1, bisect.bisect_left(resets, c))] for c in cuts[1:-1]]))
            cuts = snapped + [n]
        bounds = [(cuts[i], cuts[i + 1]) for i in range(len(cuts) - 1) if cuts[i] < cuts[i + 1]]
        shards = len(bounds)
        files = []
        for i, (a, b) in enumerate(bounds):
            p = os.path.join(self.scratch, "%s.%s.%d.ndjson" % (os.path.basename(trace), module, i))
            with open(p, "w") as f:
                f.write("\n".join(lines[a:b]) + "\n")
            files.append(p)
        mism, tot = [], TLCResult()

        def work(i):
            out, start, a = [], 1, bounds[i][0]
            m = bounds[i][1] - a
            gen = 0
            while start <= m and len(out) < max_findings:
                e = dict(env or {})
                e.update(VERIF_TRACE=files[i], VERIF_START=start)
                r = self.tlc(module, cfg, env=e, workers=1, timeout=timeout, heap=heap, deque=deque)
                gen += r.generated
                if r.invariant:
                    bad = (r.last_state or {}).get("bad")
                    li = (r.last_state or {}).get("l")
                    if not bad or not isinstance(li, int):
                        raise Infra("trace spec %s: violated %s without diagnostic state: %s" % (module, r.invariant, r.last_state))
                    idx = li - 2   # bad describes event l-1 (1-based) => 0-based l-2
                    out.append(dict(index=a + idx, event=json.loads(lines[a + idx]), bad=bad))
                    start = li
                    if resets is not None:
                        nxt = [x for x in resets if x > a + idx and x < bounds[i][1]]
                        if not nxt:
                            break
                        start = nxt[0] - a + 1
                    continue
                if r.error or not r.ok:
                    raise Infra("trace spec %s shard %d: %s" % (module, i, r.error or r.out[-1500:]))
                if r.postcondition_failed:
                    raise Infra("trace spec %s shard %d did not consume its trace" % (module, i))
                break
            return out, gen

        with cf.ThreadPoolExecutor(max_workers=min(16, shards)) as ex:
            for out, gen in ex.map(work, range(shards)):
                mism += out
                tot.generated += gen
        self.cov["states"] += n
        self.cov["transitions"] += n
        self.stage(stage or ("T:" + module), events=n, shards=shards, mismatches=len(mism))
        for p in files:
            os.remove(p)
        return mism, n

    def negative_control(self, module, trace, corrupt, cfg=None, window=250, env=None, tries=40, stage=None,
                         reset=None):
        """Corrupt one logged field of one event (chosen by the seed) and require rejection at exactly
        that event. `corrupt(event, rng)` returns a changed copy or None when not applicable."""
        lines = [x for x in open(trace).read().splitlines() if x.strip()]
        for _ in range(tries):
            k = self.rng.randrange(len(lines))
            ev = json.loads(lines[k])
            c = corrupt(ev, self.rng)
            if c is None:
                continue
            a = max(0, k - window // 2)
            sub = lines[a:a + window]
            if reset:   # stateful trace: the window is the scenario (reset .. next reset) containing event k
                key = '"ev":"%s"' % reset
                isr = lambda x: key in x.replace('": "', '":"')
                if isr(lines[k]):
                    continue
                a = k
                while a > 0 and not isr(lines[a]):
                    a -= 1
                b = k + 1
                while b < len(lines) and not isr(lines[b]):
                    b += 1
                sub = lines[a:b]
            sub[k - a] = json.dumps(c)
            p = os.path.join(self.scratch, "nc.%s.ndjson" % module)
            with open(p, "w") as f:
                f.write("\n".join(sub) + "\n")
            e = dict(env or {})
            e.update(VERIF_TRACE=p, VERIF_START=1)
            r = self.tlc(module, cfg, env=e, workers=1)
            want = (k - a) + 2
            got = (r.last_state or {}).get("l")
            if not r.invariant or got != want:
                raise Infra("negative control of %s NOT rejected at the corrupted event (event %d of window; TLC: %s, l=%s)"
                            % (module, k - a, r.summary(), got))
            self.stage(stage or ("NC:" + module), rejected_at_event=k, field_corrupted=c.get("_corrupted", "?"))
            self.log("negative control: corrupted event %d rejected" % k)
            return
        raise Infra("negative control: no corruptible event found in " + trace)


def _shorten(x, n=160):
    if isinstance(x, str) and len(x) > n:
        return x[:n] + "...(%d chars)" % len(x)
    if isinstance(x, dict):
        return {k: _shorten(v, n) for k, v in x.items()}
    if isinstance(x, list):
        return [_shorten(v, n) for v in x[:40]]
    return x


_RE_STATES = re.compile(r"(\d+) states generated, (\d+) distinct states found")
_RE_DEPTH = re.compile(r"depth of the complete state graph search is (\d+)")
_RE_INV = re.compile(r"Error: Invariant (\S+) is violated")
_RE_PROP = re.compile(r"Error: (?:Temporal properties were violated|Action property (\S+) is violated|Action property .* is violated)")


def parse_tlc(out):
    r = TLCResult()
    r.out = out
    if "Model checking completed. No error has been found." in out or "Finished simulation" in out:
        r.ok = True
    m = _RE_INV.search(out)
    if m:
        r.invariant = m.group(1)
        r.ok = False
    elif "is violated" in out and "Error:" in out:
        m2 = re.search(r"Error: (.*is violated.*)", out)
        r.invariant = m2.group(1) if m2 else "property"
        r.ok = False
    elif "Temporal properties were violated" in out:
        r.invariant = "temporal"
        r.ok = False
    if re.search(r"Error: Postcondition .* is false", out) or "Error: Evaluating postcondition" in out:
        r.postcondition_failed = True
        r.ok = False
    ms = _RE_STATES.findall(out)
    if ms:
        r.generated, r.distinct = int(ms[-1][0]), int(ms[-1][1])
    m = _RE_DEPTH.search(out)
    if m:
        r.depth = int(m.group(1))
    if not r.invariant and not r.postcondition_failed:
        errs = [l for l in out.splitlines() if l.startswith("Error:")]
        if errs:
            i = out.find(errs[0])
            r.error = out[i:i + 2500]
            r.ok = False
    # coverage: lines like "<Action line .. of module X>: 12:34"
    for m in re.finditer(r"<(\w+) line \d+, col \d+ to line \d+, col \d+ of module (\w+)>: (\d+):(\d+)", out):
        r.coverage[m.group(2) + "." + m.group(1)] = (int(m.group(3)), int(m.group(4)))
    return r


def main(run_fn_loader):
    if len(sys.argv) < 3:
        print("usage: vcheck <Cxx> quick|thorough [--replay <path>]", file=sys.stderr)
        sys.exit(2)
    pid, tier = sys.argv[1], sys.argv[2]
    replay = None
    if "--replay" in sys.argv:
        replay = os.path.abspath(sys.argv[sys.argv.index("--replay") + 1])
    os.environ["VERIF_TIER"] = tier
    ctx = Ctx(pid, tier, replay=replay)
    try:
        run = run_fn_loader(pid)
        run(ctx)
        ctx.finish()
    except Infra as e:
        print("INFRA-ERROR property=%s: %s" % (pid, e), file=sys.stderr)
        shutil.rmtree(ctx.scratch, ignore_errors=True)
        sys.exit(2)
    except SystemExit:
        raise
    except Exception:
        import traceback
        traceback.print_exc()
        print("INFRA-ERROR property=%s: unexpected exception in the check driver" % pid, file=sys.stderr)
        shutil.rmtree(ctx.scratch, ignore_errors=True)
        sys.exit(2)
