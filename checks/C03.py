"""C03 - Signatures verify iff genuinely produced by the private key (ECDSA, Ed25519, RSA-SSA-PKCS1, RSA-SSA-PSS)."""
import concurrent.futures as cf
import glob
import json
import os

import vlib

TRACE = "Trace_Sig"


# ---------------------------------------------------------------------------------- selfspec (Wycheproof)
_SHA = {"SHA-1": "SHA1", "SHA-224": "SHA224", "SHA-256": "SHA256", "SHA-384": "SHA384", "SHA-512": "SHA512"}
_CURVE = {"secp256r1": "P256", "secp384r1": "P384", "secp521r1": "P521"}


def _kat(alg, f, t, ok, **kw):
    e = dict(ev="verify", alg=alg, curve="", hash="", mgf="", enc="", saltLen=0, variant="NO_PREFIX", id="00000000",
             route="wycheproof", kind="kat:%s#%d" % (f, t["tcId"]), pk="", e="", msg=t["msg"], sig=t["sig"], ok=ok,
             panic=False, inIntact=True)
    e.update(kw)
    return e


def wycheproof_events(wy):
    """Known-answer events for the reference: every Wycheproof vector of the parameter sets Tink supports (and
    the MGF1-hash != message-hash PSS groups, which only the reference supports). `acceptable` vectors are the
    PKCS#1 DigestInfo without NULL parameters: the strict RFC 8017 section 8.2.2 comparison rejects them."""
    evs = []
    for c, h in [("secp256r1", "sha256"), ("secp384r1", "sha384"), ("secp384r1", "sha512"), ("secp521r1", "sha512")]:
        for suffix, enc in [("", "DER"), ("_p1363", "IEEE_P1363")]:
            f = "ecdsa_%s_%s%s_test.json" % (c, h, suffix)
            for g in wy(f)["testGroups"]:
                for t in g["tests"]:
                    evs.append(_kat("ECDSA", f, t, t["result"] == "valid", curve=_CURVE[g["publicKey"]["curve"]],
                                    hash=_SHA[g["sha"]], enc=enc, pk=g["publicKey"]["uncompressed"]))
    f = "ed25519_test.json"
    for g in wy(f)["testGroups"]:
        for t in g["tests"]:
            evs.append(_kat("ED25519", f, t, t["result"] == "valid", pk=g["publicKey"]["pk"]))
    for bits in (2048, 3072, 4096, 8192):
        for h in ("sha256", "sha384", "sha512"):
            f = "rsa_signature_%d_%s_test.json" % (bits, h)
            for g in wy(f)["testGroups"]:
                if g["publicKey"]["publicExponent"] != "010001":
                    continue   # Tink: e = 65537 only
                for t in g["tests"]:
                    evs.append(_kat("RSA_PKCS1", f, t, t["result"] == "valid", hash=_SHA[g["sha"]],
                                    pk=g["publicKey"]["modulus"], e=g["publicKey"]["publicExponent"]))
    for f in ["rsa_pss_2048_sha256_mgf1_0_test.json", "rsa_pss_2048_sha256_mgf1_32_test.json",
              "rsa_pss_2048_sha384_mgf1_48_test.json", "rsa_pss_3072_sha256_mgf1_32_test.json",
              "rsa_pss_4096_sha256_mgf1_32_test.json", "rsa_pss_4096_sha384_mgf1_48_test.json",
              "rsa_pss_4096_sha512_mgf1_32_test.json", "rsa_pss_4096_sha512_mgf1_64_test.json",
              "rsa_pss_2048_sha256_mgf1sha1_20_test.json", "rsa_pss_2048_sha1_mgf1_20_test.json",
              "rsa_pss_misc_test.json"]:
        for g in wy(f)["testGroups"]:
            if g["sha"] not in _SHA or g["mgfSha"] not in _SHA or g["mgf"] != "MGF1":
                continue
            for t in g["tests"]:
                evs.append(_kat("RSA_PSS", f, t, t["result"] == "valid", hash=_SHA[g["sha"]], mgf=_SHA[g["mgfSha"]],
                                saltLen=g["sLen"], pk=g["publicKey"]["modulus"], e=g["publicKey"]["publicExponent"]))
    return evs


SELFSPEC = {TRACE: wycheproof_events}


# ---------------------------------------------------------------------------------- the check
def corrupt(ev, rng):
    """Negative control: flip Tink's recorded verdict, or damage a signature that was recorded as accepted /
    as produced by Tink (the reference must notice that the bytes no longer verify)."""
    ev = dict(ev)
    if ev["ev"] in ("sign", "verify") and ev.get("inIntact") and not ev["panic"] and rng.random() < 0.03:
        ev["inIntact"] = False      # "the call wrote into the caller's frame"
        ev["_corrupted"] = "inIntact"
        return ev
    damage = (ev["ev"] == "sign" and ev["sig"] and not ev["err"]) or \
             (ev["ev"] == "verify" and ev["ok"] and not ev["panic"] and rng.random() < 0.7)
    if damage:
        fld = "held" if ev["ev"] == "sign" and rng.random() < 0.5 else "sig"   # held: the slice after later Sign calls
        i = rng.randrange(len(ev[fld]))
        ev[fld] = ev[fld][:i] + ("0" if ev[fld][i] != "0" else "1") + ev[fld][i + 1:]
        ev["_corrupted"] = fld
        return ev
    if ev["ev"] == "verify" and not ev["panic"] and rng.random() < 0.05:
        ev["ok"] = not ev["ok"]
        ev["_corrupted"] = "ok"
        return ev
    return None


def kind_class(kind):
    """Stable input class of a mutation kind (positions and numbers dropped)."""
    import re
    return re.sub(r"(?<![A-Za-z0-9])\d+", "N", kind.split("@")[0])


def signature_of(e, bad):
    """Call site + input class, stable across seeds. Hash/curve/variant are part of it, except for the one
    RSA-SSA-PSS salt-length-0 class (KNOWN_FINDINGS), which does not depend on them. That class is recognised by
    the specification's own diagnosis (Trace_Sig.PSSDiag: the signature IS a valid RSASSA-PSS signature, for
    another salt length than the key's 0), so nothing else can hide behind it."""
    diag = bad[2] if len(bad) > 2 else ""
    if e.get("alg") == "RSA_PSS" and e.get("saltLen") == 0 and diag.startswith("valid RSASSA-PSS signature for salt length"):
        if e["ev"] == "sign":
            return "factory/RSA_PSS/saltLen=0 Sign: signature does not verify with the declared salt length"
        if e.get("origin") == "tink":
            return "factory/RSA_PSS/saltLen=0 Verify: accepts Tink's own signature that carries a non-empty salt"
        return "factory/RSA_PSS/saltLen=0 Verify: accepts reference signatures of any salt length"
    params = "/".join(str(x) for x in (e.get("curve"), e.get("hash"), e.get("enc")) if x)
    if e.get("alg") == "RSA_PSS":
        params += "/salt%s" % e.get("saltLen")
    if bad[0].startswith("Sign/Verify wrote into the caller's buffers"):   # independent of the input class
        return "%s/%s/%s/%s %s wrote into the caller's buffers" % (e.get("route"), e.get("alg"), params, e.get("variant"), e["ev"])
    return "%s/%s/%s/%s %s %s:%s %s" % (e.get("route"), e.get("alg"), params, e.get("variant"), e["ev"],
                                       e.get("origin", ""), kind_class(e.get("kind", "")), bad[0])


def report(ctx, mism):
    split = [m for m in mism if m["bad"][0].startswith("REFERENCE-SPLIT")]
    if split:
        raise vlib.Infra("the TLA+ reference and the JDK's whole-algorithm provider disagree on %d events "
                         "(reference bug or undocumented provider deviation), e.g. %s" % (len(split), json.dumps(split[0])[:1500]))
    for m in mism:
        e = m["event"]
        what = "%s: %s %s %s %s id=%s kind=%s:%s (spec expected %s)" % (
            m["bad"][0], e.get("alg"), "/".join(str(x) for x in (e.get("curve"), e.get("hash"), e.get("enc")) if x),
            ("saltLen=%s" % e.get("saltLen")) if e.get("alg") == "RSA_PSS" else "", e.get("variant"), e.get("id"),
            e.get("origin"), e.get("kind"), [x for x in m["bad"][1:] if x])
        ctx.violation(signature_of(e, m["bad"]), what, dict(event=e, spec_says=m["bad"]))


def reference_sign(ctx, req, ans, shards):
    """Answer the driver's reference-signature requests with TLC (Plan_Sig), sharded."""
    lines = [x for x in open(req).read().splitlines() if x.strip()]
    shards = max(1, min(shards, len(lines) // 50 or 1))
    parts = [lines[i::shards] for i in range(shards)]

    def work(i):
        rq, out = "%s.%d" % (req, i), "%s.%d" % (ans, i)
        open(rq, "w").write("\n".join(parts[i]) + "\n")
        r = ctx.tlc("Plan_Sig", env=dict(VERIF_REQ=rq, VERIF_OUT=out), workers=1, timeout=7200)
        if not r.ok or not os.path.exists(out):
            raise vlib.Infra("reference signer (Plan_Sig) failed: %s" % (r.error or r.out[-1500:]))
        return open(out).read()

    with cf.ThreadPoolExecutor(max_workers=shards) as ex:
        res = list(ex.map(work, range(shards)))
    open(ans, "w").write("".join(x if x.endswith("\n") else x + "\n" for x in res))
    n = sum(1 for x in open(ans) if x.strip())
    if n != len(lines):
        raise vlib.Infra("reference signer answered %d of %d requests" % (n, len(lines)))
    return n


def run(ctx):
    ctx.cov["rule"] = (
        "events = real Sign/Verify calls through signature.NewSigner/NewVerifier(handle), the per-key constructors "
        "{ecdsa,ed25519,rsassapkcs1,rsassapss}.NewSigner/NewVerifier (hook testing/verifhooks: they take an internalapi.Token; "
        "reached directly because the factory's prefix map shadows the per-key prefix check), the signature/subtle constructors and "
        "the raw internal/signature RSA primitives, over "
        "ECDSA {P256/SHA256, P384/SHA384, P384/SHA512, P521/SHA512} x {DER, IEEE_P1363}, Ed25519, RSA-SSA-PKCS1 {SHA256,384,512}, "
        "RSA-SSA-PSS x salt {0,1,20,hLen,32,64,max-1,max}, modulus 2048 (quick) / 2048,2049,3072,4096 (thorough), x {TINK,CRUNCHY,"
        "LEGACY,NO_PREFIX} x key ids {0,1,0x01020304,2^31-1,2^31,2^32-1}, fresh keys per run; per (configuration, key): messages "
        "signed by Tink (reference verifies) and by the reference signer Plan_Sig (Tink verifies), each followed by the systematic "
        "mutation set (message edits, signature bit flips, truncations/extensions, prefix edits, other key, other message, r/s "
        "values 0,1,n-1,n,r+n,n-s, swapped encodings, ~45 DER re-encodings, P1363 length edits, Ed25519 S+kL, RSA s+n / n-s / "
        "leading zero, malformed EMSA-PKCS1/EMSA-PSS encodings signed with the real private exponent, other hash / MGF / salt "
        "length / variant / scheme); caller-buffer discipline on every call: message and signature are sub-slices of reused "
        "driver-owned frames (live tail, sentinel spare capacity, guards) that must be unchanged after the call, incl. signing/"
        "verifying a prefix of a live buffer in place and then the enclosing buffer; signatures returned by Sign must survive "
        "later Sign calls; for ECDSA/DER additionally every re-encoding shape of lib/DERShapes.tla with <= 2 deviations "
        "(thorough: the full 75k product per curve) generated by TLC from a reference signature; plus the (key, message, "
        "signature) triples of the Wycheproof files as further inputs (expected results unused); every event judged by TLC "
        "against TinkSig.tla. MC_DER: exhaustive check of the strict DER parser against the encoder on shapes x boundary values")
    ctx.assumptions += [
        "big-integer and elliptic-curve arithmetic (u1*G+u2*Q, modular inverse, RSA exponentiation), SHA-2 and the Ed25519 core are "
        "the JDK's (java.math.BigInteger, SunEC Ed25519, SUN MessageDigest), independent of Go's standard library",
        "JDK 17's ECDSA provider wrongly rejects signatures whose R has x >= n; the ECDSA equation is therefore written in TLA+ "
        "over BigInteger primitives and the provider is a cross-checked second opinion",
        "rejection of forgeries is checked on enumerated mutations of valid signatures, not on all byte strings",
    ]
    if os.environ.get("VERIF_C03_ONLY"):
        ctx.log("NOTE: VERIF_C03_ONLY=%s restricts the run to one algorithm family (debugging aid; not evidence)" % os.environ["VERIF_C03_ONLY"])
        ctx.assumptions.append("RESTRICTED RUN (VERIF_C03_ONLY=%s): not evidence" % os.environ["VERIF_C03_ONLY"])
    drv = ctx.go_build("c03")
    trace = ctx.scratch + "/c03.ndjson"
    if ctx.replay:   # re-execute exactly the recorded call against the current tree and re-judge it
        ctx.run([drv, "-out", trace, "-replay", ctx.replay])
        mism, n = ctx.validate_events(TRACE, trace)
        report(ctx, mism)
        return
    # (M) the strict DER parser against the encoder on the re-encoding shapes x boundary integer values (exhaustive)
    ctx.model_check("MC_DER", "MC_DER_full" if ctx.thorough else "MC_DER", stage="M:MC_DER", must_cover=False,
                    workers=1, heap="6g", timeout=7200)   # every state is an initial state: generated and checked by one thread
    keys, req, ans = ctx.scratch + "/keys.json", ctx.scratch + "/req.ndjson", ctx.scratch + "/ans.ndjson"
    r = ctx.run([drv, "-mode", "plan", "-keys", keys, "-req", req])
    ctx.log("plan:", r.stdout.strip())
    n = reference_sign(ctx, req, ans, 16 if ctx.thorough else 8)
    ctx.stage("R:Plan_Sig", reference_signatures=n)
    ctx.log("reference signer: %d signatures" % n)
    wy = sorted(glob.glob("/root/go/pkg/mod/github.com/c2sp/wycheproof@*/testvectors_v1"))
    if not wy:
        raise vlib.Infra("Wycheproof vectors (input source for edge-case keys/signatures) not found in the module cache")
    r = ctx.run([drv, "-mode", "run", "-keys", keys, "-ans", ans, "-out", trace, "-wy", wy[-1]], timeout=3000)
    ctx.log("driver:", r.stdout.strip())
    # events are independent: deal them round-robin over the shards so that the expensive ones (P-384/P-521 curve
    # arithmetic, 4096-bit RSA) do not all land in the same TLC process
    lines = open(trace).read().splitlines()
    shards = 16
    dealt = [ln for i in range(shards) for ln in lines[i::shards]]
    open(trace + ".dealt", "w").write("\n".join(dealt) + "\n")
    # max_findings: never stop judging a shard early (the known salt-length-0 findings alone are ~10 per such key)
    mism, n = ctx.validate_events(TRACE, trace + ".dealt", shards=shards, timeout=14400 if ctx.thorough else 3000,
                                  max_findings=100000)
    ctx.cov["traces_validated_against_impl"] += 1
    ctx.cov["events"] = n
    by_kind, expect = {}, []
    for ln in lines:
        e = json.loads(ln)
        if e["ev"] == "construct":   # coverage expectations (DESIGN section 4): exit 2, never a verdict
            if e["kind"].startswith("unit:"):
                expect.append("the library refused a configuration the plan expects to be usable (model out of date): %s" % ln[:600])
            if e["kind"].startswith("refused:") and not e["err"]:
                expect.append("the library accepted a configuration the plan expects to be refused (model out of date): %s" % ln[:600])
        k = "%s %s %s" % (e["alg"], e["ev"], e.get("origin", ""))
        by_kind[k] = by_kind.get(k, 0) + 1
    ctx.stage("T:" + TRACE, by_kind=by_kind)
    for k in (7, len(lines) // 3, len(lines) // 2, len(lines) - 3):
        ctx.sample(json.loads(lines[k]))
    report(ctx, mism)
    if expect and not ctx.violations:
        raise vlib.Infra(expect[0])
    if not ctx.violations:
        # negative control on the events that conform (known findings, if any, are left out of the window)
        badl = set(json.dumps(m["event"], sort_keys=True) for m in mism)
        nc = trace + ".nc"
        with open(nc, "w") as f:
            for ln in lines:
                if not badl or json.dumps(json.loads(ln), sort_keys=True) not in badl:
                    f.write(ln + "\n")
        ctx.negative_control(TRACE, nc, corrupt)


MANIFEST = dict(
    category="model_checking",
    text=("Every recorded Sign/Verify call of the real code (quick ~35k, thorough several 100k events: every supported curve/hash/"
          "encoding/salt/modulus/variant combination, fresh keys, Tink-made and reference-made signatures, systematic mutations "
          "and re-encodings) is judged by TLC against an executable TLA+ reference: strict DER parser (X.690), the FIPS 186-5 ECDSA "
          "verification equation, RFC 8017 EMSA-PKCS1-v1_5 / EMSA-PSS / MGF1 and Tink's prefix/LEGACY wire format written in TLA+ "
          "over JDK arithmetic primitives. Tink's verdict must equal the reference's on every event; Tink's signatures must verify "
          "under the reference. Conformance on enumerated inputs, not a proof over all byte strings."),
    note=("Trusted: JDK BigInteger/SHA-2/Ed25519, TLC, the TLA+ transcriptions (gated by RFC 6979/8032 vectors and 7.8k Wycheproof "
          "vectors in bin/selfspec; cross-checked per event against the JDK's own ECDSA/RSASSA providers). Ed25519 has a single "
          "reference implementation (JDK). Multi-key keysets and the legacy full*Adapter wrappers of the factories belong to C05."),
    technique="TLA+ reference spec (X.690 DER, FIPS 186-5, RFC 8017, RFC 8032 via JDK) + TLC reference signer (plan) + TLC trace "
              "validation of recorded real-code calls, negative control",
    design_ref="DESIGN.md section 6, C03",
)
