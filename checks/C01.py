"""C01 - AEAD decrypts what it encrypts, in the documented standard wire format.

Also hosts the pipeline shared with C02 (same driver harness/cmd/c01, same trace spec Trace_AEAD)."""
import concurrent.futures as cf
import glob
import json
import os
import random
import sys

sys.path.insert(0, os.path.join(os.path.dirname(os.path.dirname(os.path.abspath(__file__))), "lib"))
import vlib  # noqa: E402

WY = sorted(glob.glob("/root/go/pkg/mod/github.com/c2sp/wycheproof@*/testvectors_v1"))


# ---------------------------------------------------------------------------------------------- shared pipeline
def seal(ctx, req, name="sealed"):
    """spec -> Tink: TLC (Plan_AEAD.tla) turns the driver's seal requests into the ciphertexts the documented
    format prescribes. Sharded over parallel TLC processes; the output keeps the request numbers."""
    lines = [x for x in open(req).read().splitlines() if x.strip()]
    k = max(1, min(16, len(lines) // 400))     # a JVM start costs ~8 CPU-s: one process per ~400 requests
    parts = [lines[i::k] for i in range(k)]

    def work(i):
        pin = os.path.join(ctx.scratch, "%s.req.%d.ndjson" % (name, i))
        pout = os.path.join(ctx.scratch, "%s.out.%d.ndjson" % (name, i))
        open(pin, "w").write("\n".join(parts[i]) + "\n")
        r = ctx.tlc("Plan_AEAD", env=dict(VERIF_REQ=pin, VERIF_SEALED=pout), workers=1, timeout=2400)
        if not r.ok or not os.path.exists(pout):
            raise vlib.Infra("Plan_AEAD (specification-made ciphertexts) failed: %s" % (r.error or r.out[-1500:]))
        return open(pout).read().splitlines()

    out = os.path.join(ctx.scratch, name + ".ndjson")
    with cf.ThreadPoolExecutor(max_workers=k) as ex, open(out, "w") as f:
        n = 0
        for ls in ex.map(work, range(k)):
            for x in ls:
                if x.strip():
                    f.write(x + "\n")
                    n += 1
    if n != len(lines):
        raise vlib.Infra("Plan_AEAD sealed %d of %d requests" % (n, len(lines)))
    ctx.stage("R:Plan_AEAD", requests=len(lines), shards=k)
    return out


def kind_class(e):
    return str(e.get("kind", "")).split(":")[0]


def signature(e, bad):
    keys = e.get("keys") or [{}]
    k = keys[0]
    if e["ev"] in ("polyval", "sivctr"):
        return "%s/%s %s" % (e["ev"], e.get("impl", "hook"), bad[0])
    what = k.get("kt", "?")
    if e.get("mode") == "envelope":
        what = "ENVELOPE(%s)" % e.get("dekTmpl")
    elif len(keys) > 1:
        what = "KEYSET(%s)" % "+".join(x.get("kt", "?") for x in keys)
    return "%s/%s/%s/%s%s %s" % (e.get("route"), what, k.get("variant"), e["ev"],
                                ("[" + kind_class(e) + "]") if e["ev"] == "decrypt" else "", bad[0])


def corrupt(ev, rng):
    ev = dict(ev)

    def flip_hex(s):
        i = rng.randrange(len(s))
        return s[:i] + ("0" if s[i] != "0" else "1") + s[i + 1:]

    if ev["ev"] == "encrypt" and not ev["err"] and ev["ct"]:
        f = rng.choice(["ct", "pt", "rtout", "inIntact", "rtIntact"]) if ev["pt"] else "ct"
        ev[f] = (not ev[f]) if f.endswith("Intact") else flip_hex(ev[f])
        ev["_corrupted"] = f
        return ev
    if ev["ev"] == "decrypt":
        f = rng.choice(["ok", "ok", "inIntact"])
        if f == "ok":
            ev["ok"] = ev["ok2"] = not ev["ok"]
        else:
            ev[f] = not ev[f]
        ev["_corrupted"] = f
        return ev
    if ev["ev"] in ("polyval", "sivctr") and ev["out"]:
        ev["out"] = flip_hex(ev["out"])
        ev["_corrupted"] = "out"
        return ev
    return None


def judge(ctx, trace, replaying=False):
    lines = [x for x in open(trace).read().splitlines() if x.strip()]
    chunk = 200000                     # bounds the heap of a TLC shard (each shard holds its events as TLC values)
    mism, n = [], 0
    for c, a in enumerate(range(0, len(lines), chunk)):
        part = lines[a:a + chunk]
        p = trace if len(lines) <= chunk else "%s.part%d" % (trace, c)
        if p != trace:
            open(p, "w").write("\n".join(part) + "\n")
        # a JVM costs ~6 s before its JIT is warm: few shards for small traces
        mi, k = ctx.validate_events("Trace_AEAD", p, timeout=2400, shards=max(2, min(16, len(part) // 500)),
                                    stage="T:Trace_AEAD" + ("" if p == trace else "#%d" % c))
        for m in mi:
            m["index"] += a
        mism += mi
        n += k
        if p != trace:
            os.remove(p)
    infra = [m for m in mism if str(m["bad"][0]).startswith("INFRA")]
    if infra:
        raise vlib.Infra("Trace_AEAD: %s; event %s" % (infra[0]["bad"], json.dumps(infra[0]["event"])[:1200]))
    for m in mism:
        e = m["event"]
        sig = "replay" if replaying else signature(e, m["bad"])
        ctx.violation(sig, "%s (spec expected %s)" % (m["bad"][0], m["bad"][1:]), dict(event=e, spec_says=m["bad"]))
    return mism, n


def pipeline(ctx, prop):
    if not WY:
        raise vlib.Infra("wycheproof vectors not found in the module cache")
    drv = ctx.go_build("c01")
    trace = os.path.join(ctx.scratch, "aead.ndjson")
    if ctx.replay:   # re-execute exactly the recorded call against the current tree and re-judge it
        ctx.run([drv, "-prop", prop, "-out", trace, "-replay", ctx.replay])
        judge(ctx, trace, replaying=True)
        return
    req = os.path.join(ctx.scratch, "req.ndjson")
    r = ctx.run([drv, "-prop", prop, "-mode", "plan", "-out", req])
    ctx.log(r.stdout.strip())
    sealed = seal(ctx, req)
    r = ctx.run([drv, "-prop", prop, "-mode", "run", "-sealed", sealed, "-wy", WY[-1], "-out", trace])
    ctx.log(r.stdout.strip())
    # events are self-contained: shuffle so that the expensive ones (POLYVAL in TLA+) spread over the shards
    lines = open(trace).read().splitlines()
    random.Random(ctx.seed).shuffle(lines)
    open(trace, "w").write("\n".join(lines) + "\n")
    stats = {}
    for x in lines:
        e = json.loads(x)
        k = e["ev"]
        if k in ("encrypt", "decrypt"):
            ks = e["keys"]
            kt = "ENVELOPE" if e["mode"] == "envelope" else (ks[0]["kt"] if len(ks) == 1 else "KEYSET")
            k = "%s/%s" % (k, kt)
            if e["ev"] == "decrypt":
                acc = stats.setdefault("decrypt_accepted", 0)
                stats["decrypt_accepted"] = acc + (1 if e["ok"] else 0)
        stats[k] = stats.get(k, 0) + 1
    ctx.cov["events_by_class"] = stats
    refused = [json.loads(x) for x in lines if '"ev":"construct"' in x]
    ctx.cov["constructs_refused"] = sum(1 for e in refused if e["err"])
    for e in refused:
        if e["err"] and not e.get("expectRefused"):
            raise vlib.Infra("coverage hole: the library refused a configuration the plan expects to work: %s"
                             % json.dumps({k: e.get(k) for k in ("route", "mode", "dekTmpl", "errText", "keys")})[:800])
    mism, n = judge(ctx, trace)
    ctx.cov["traces_validated_against_impl"] += 1
    ctx.cov["events"] = n
    for k in (7, len(lines) // 3, len(lines) // 2, len(lines) - 2):
        ctx.sample(json.loads(lines[k]))
    if not mism:
        ctx.negative_control("Trace_AEAD", trace, corrupt)


ASSUMPTIONS = [
    "AES block, GCM, ChaCha20-Poly1305, the ChaCha20 block and HMAC/SHA are the JDK's providers (independent of Go's "
    "standard library and x/crypto); everything above them (CTR, encrypt-then-MAC, POLYVAL/GF(2^128), RFC 8452 key "
    "derivation/tag/counter mode, HChaCha20, CMAC, XAES key derivation, envelope framing, DEK protobuf) is TLA+",
    "the remote KMS of the envelope AEAD is an in-process Tink AES-GCM keyset AEAD, optionally wrapped by the harness's "
    "size-controlled remote (be16 length || inner || zero padding to an exact size; modelled in Envelope.tla); Encrypt may "
    "refuse only when the remote returns more than 4096 bytes, everything it emits must decrypt",
    "quantifiers over plaintext/associated data are covered by every small length plus boundary classes, not by proof",
]


def run(ctx):
    ctx.cov["rule"] = (
        "events = real Encrypt/Decrypt calls over key type (AES-GCM, AES-CTR-HMAC, AES-GCM-SIV, ChaCha20-/XChaCha20-Poly1305, "
        "XAES-256-GCM, KMS envelope over 10 DEK templates (KMSEnvelopeAEAD and ...WithContext; plain and size-controlled remote "
        "AEADs returning encrypted DEKs of 200..257 and 4094/4095/4096/4097 bytes), multi-key keysets) x key size (HMAC keys on "
        "both sides of the 64- and 128-byte hash blocks: 16..200) x IV/tag size x hash x variant "
        "(TINK/CRUNCHY/LEGACY/NO_PREFIX) x key id (0..0xffffffff) x route (aead.New keyset factory, keyset through its proto "
        "form, aesgcm.NewAEAD, aead/subtle, NewKMSEnvelopeAEAD2, KmsEnvelopeAeadKey keyset) x plaintext length (boundary "
        "classes + 1 KiB / 2 KiB / 4 KiB+1 plaintext and AD quick; every length 0..300 + block multiples thorough) x content class x associated data (nil/empty/"
        "lengths). Tink->spec: TLC opens Tink's ciphertext with the TLA+ reference and checks framing + Tink's own round "
        "trip. spec->Tink: TLC (Plan_AEAD) makes ciphertexts with chosen nonces (00.., ff.., random) that Tink must "
        "decrypt; Wycheproof AES-GCM / AES-GCM-SIV (incl. counter wrap) / (X)ChaCha20-Poly1305 vectors are decrypted by "
        "Tink and judged by the spec; POLYVAL (basis pairs, dense, chunked, single Update calls of 16..8192 bytes on both "
        "sides of bulk-path thresholds with random / all-ones / single-non-zero-block contents) and the RFC 8452 counter mode at the 32-bit "
        "wrap are judged through verif hooks. Caller-buffer discipline on every call: inputs adjacent in one reused "
        "guarded frame (both orders, natural capacity, with/without sentinel spare capacity), frame must be intact after "
        "the call, every Decrypt issued twice from the same frame")
    ctx.assumptions += ASSUMPTIONS
    pipeline(ctx, "C01")


# ---------------------------------------------------------------------------------------------- reference gate
def kat_events(wy):
    """Wycheproof known answers pushed through Trace_AEAD (ev = kat): the TLA+ reference must seal valid vectors to
    exactly the stated ciphertext, open them, and reject the invalid ones, before it may judge code."""
    evs = []
    for f, kt, nl in [("aes_gcm_test.json", "AESGCM", 12), ("aes_gcm_siv_test.json", "AESGCMSIV", 12),
                      ("chacha20_poly1305_test.json", "CHACHA", 12), ("xchacha20_poly1305_test.json", "XCHACHA", 24)]:
        for g in wy(f)["testGroups"]:
            if g["ivSize"] != nl * 8 or g["tagSize"] != 128 or g["keySize"] not in (128, 192, 256):
                continue
            if kt == "AESGCMSIV" and g["keySize"] == 192:
                continue
            for t in g["tests"]:
                if t["result"] not in ("valid", "invalid"):
                    continue
                key = dict(kt=kt, variant="NO_PREFIX", id="00000000", key=t["key"], mkey="", ivLen=0, tagLen=0, hash="", saltLen=0)
                evs.append(dict(ev="kat", mode="keyset", keys=[key], dek="", nonce=t["iv"], pt=t["msg"], ad=t["aad"],
                                ct=t["iv"] + t["ct"] + t["tag"], valid=(t["result"] == "valid"),
                                kind="kat:%s#%d" % (f, t["tcId"])))
    return evs


SELFSPEC = {"Trace_AEAD": kat_events}

MANIFEST = dict(
    category="model_checking",
    text=("Every recorded Encrypt/Decrypt call of the real AEAD code (all seven key types incl. KMS envelope over ten DEK "
          "templates and multi-key keysets, all parameter dimensions, variants, extreme key ids, six construction routes, "
          "boundary and exhaustive-small plaintext/AD lengths, nil vs empty AD) is judged by TLC against an executable TLA+ "
          "reference of the documented wire format: the reference must open Tink's ciphertexts to the logged plaintext with "
          "exact framing (Tink->spec), and Tink must decrypt ciphertexts the TLA+ reference made with chosen nonces "
          "(spec->Tink, Plan_AEAD) as well as Wycheproof's. POLYVAL, the RFC 8452 key derivation/tag/counter mode, CTR IV "
          "padding, encrypt-then-MAC suffix, HChaCha20, XAES CMAC key derivation and envelope framing are TLA+ text, gated "
          "by RFC/C2SP/NIST vectors (Self_AEAD) and the Wycheproof files through the same trace spec. Conformance on an "
          "enumerated input space, not a proof over all inputs."),
    note=("Trusted: JDK AES/GCM/ChaCha20(-Poly1305)/HMAC providers, TLC, the TLA+ transcriptions (gated by standard vectors). "
          "Plaintext lengths above 4097 bytes and the 2^32-block / 2^36-byte limits are not exercised. AES-GCM parameters "
          "other than IV 12 / tag 16 are refused by Tink and therefore not judged. The remote KMS is simulated in process."),
    technique=("TLA+ reference specs (RFC 8452 incl. POLYVAL in TLA+, SP 800-38A CTR, EtM, XChaCha via HChaCha20 from the "
               "ChaCha20 block, XAES-256-GCM via CMAC, envelope framing + protobuf subset) + TLC trace validation of recorded "
               "real-code calls in both directions (TLC-made ciphertexts replayed into Tink), verif hooks for POLYVAL and the "
               "GCM-SIV counter wrap, negative control"),
    design_ref="DESIGN.md section 6, C01",
)
