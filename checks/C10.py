"""C10 - ML-DSA-44/65/87 keys and signatures conform to FIPS 204 on every input."""
import concurrent.futures as cf
import json
import os

import vlib

ARITH = "Trace_MLDSAArith"
ALGO = "Trace_MLDSA"
ALGO_EVS = {"keygen", "sign", "signmu", "verify", "verifymu", "pverify", "signed", "signfail", "prehash", "composite", "note"}


# ----------------------------------------------------------------------------------------- negative controls
def _flip_hex(s, rng):
    i = rng.randrange(len(s))
    return s[:i] + ("0" if s[i] != "0" else "1") + s[i + 1:]


def corrupt_arith(ev, rng):
    ev = dict(ev)
    k = ev["ev"]
    if k == "run":
        ev["v"] = list(ev["v"])
        j = rng.randrange(len(ev["v"]))
        ev["v"][j] = (ev["v"][j] + 1) % 8380417
        ev["_corrupted"] = "run.v"
        return ev
    if k == "bin":
        if ev["fn"] == "centeredMax":
            return None
        ev["out"] = list(ev["out"])
        j = rng.randrange(len(ev["out"]))
        ev["out"][j] = 1 - ev["out"][j] if ev["fn"] == "makeHint" else (ev["out"][j] + 1) % 8380417
        ev["_corrupted"] = "bin.out"
        return ev
    if k in ("ntt", "intt", "mulntt", "polyadd", "polysub", "rejntt", "rejbounded", "sampleinball",
             "simplebitunpack", "bitunpack") and isinstance(ev.get("out"), list):
        ev["out"] = list(ev["out"])
        j = rng.randrange(len(ev["out"]))
        ev["out"][j] = (ev["out"][j] + 1) % 8380417
        ev["_corrupted"] = k + ".out"
        return ev
    if k == "norm":
        ev["out"] = ev["out"] + 1
        ev["_corrupted"] = "norm.out"
        return ev
    if k in ("simplebitpack", "bitpack", "hintpack", "sigencode") and ev.get("out"):
        ev["out"] = _flip_hex(ev["out"], rng)
        ev["_corrupted"] = k + ".out"
        return ev
    if k == "hintunpack" or (k == "sigdecode" and not ev["ok"]):
        ev["ok"] = not ev["ok"]
        ev["_corrupted"] = k + ".ok"
        return ev
    if k in ("pkdecode", "skdecode"):
        ev["tr"] = _flip_hex(ev["tr"], rng)
        ev["_corrupted"] = k + ".tr"
        return ev
    return None


def corrupt_algo(ev, rng):
    ev = dict(ev)
    k = ev["ev"]
    if k in ("verify", "verifymu", "pverify", "composite") and not ev.get("panic"):
        ev["ok"] = not ev["ok"]
        ev["_corrupted"] = k + ".ok"
        return ev
    if k == "keygen" and ev.get("pk"):
        f = "pk" if (not ev.get("sk") or rng.random() < 0.5) else "sk"
        ev[f] = _flip_hex(ev[f], rng)
        ev["_corrupted"] = "keygen." + f
        return ev
    if k in ("sign", "signmu") and ev.get("sig"):
        ev["sig"] = _flip_hex(ev["sig"], rng)
        ev["_corrupted"] = k + ".sig"
        return ev
    if k == "prehash" and ev.get("out"):
        ev["out"] = _flip_hex(ev["out"], rng)
        ev["_corrupted"] = "prehash.out"
        return ev
    if k == "signed" and ev.get("sig") and not ev.get("err"):
        # a signature with one altered z byte must not verify
        s = ev["sig"]
        i = len(s) // 2
        ev["sig"] = s[:i] + ("0" if s[i] != "0" else "1") + s[i + 1:]
        ev["_corrupted"] = "signed.sig"
        return ev
    return None


# ----------------------------------------------------------------------------------------- helpers
def _sig(e, bad):
    what = e.get("fn") or e.get("kind") or ""
    where = e.get("set") or e.get("inst") or ""
    return "%s/%s/%s %s" % (e["ev"], what.split("=")[0] if e["ev"] == "verify" and what.startswith("z-coeff") else what,
                            where, bad[0])


def _report(ctx, mism):
    for m in mism:
        e = m["event"]
        ctx.violation(_sig(e, m["bad"]), "%s (spec: %s)" % (m["bad"][0], "; ".join(str(x)[:120] for x in m["bad"][1:])),
                      dict(event=e, spec_says=[str(x)[:400] for x in m["bad"]]))


def _validate_heavy(ctx, module, trace, ways=16, stage=None):
    """Few but expensive events: distribute round-robin over `ways` files and validate them concurrently
    (vlib's own sharding only splits traces of >= 200 events per shard)."""
    lines = [x for x in open(trace).read().splitlines() if x.strip()]
    ways = max(1, min(ways, len(lines)))
    files, idx = [], []
    for i in range(ways):
        sub = list(range(i, len(lines), ways))
        p = os.path.join(ctx.scratch, "%s.rr%02d.ndjson" % (os.path.basename(trace), i))
        with open(p, "w") as f:
            f.write("\n".join(lines[j] for j in sub) + "\n")
        files.append(p)
        idx.append(sub)
    mism = []

    def work(i):
        mm, _ = ctx.validate_events(module, files[i], shards=1, timeout=2400, stage="T:%s[%d]" % (module, i))
        return [dict(m, index=idx[i][m["index"]]) for m in mm]

    with cf.ThreadPoolExecutor(max_workers=ways) as ex:
        for out in ex.map(work, range(ways)):
            mism += out
    for i in range(ways):
        ctx.cov["stages"].pop("T:%s[%d]" % (module, i), None)
    ctx.stage(stage or ("T:" + module), events=len(lines), shards=ways, mismatches=len(mism))
    return sorted(mism, key=lambda m: m["index"]), len(lines)


def _driver(ctx, drv, name, args, timeout):
    out = os.path.join(ctx.scratch, "c10.%s.ndjson" % name)
    r = ctx.run([drv, "-out", out] + args, timeout=timeout)
    ctx.log("driver %s: %s" % (name, r.stdout.strip()))
    return out


def _arith_trace(ctx, drv):
    """Run the scalar/binary/polynomial driver stages concurrently and merge their events."""
    sparts = 8 if ctx.thorough else 2
    jobs = [("scalar%d" % i, ["-stage", "scalar", "-part", str(i), "-parts", str(sparts)]) for i in range(sparts)]
    jobs += [("binary", ["-stage", "binary"]), ("poly", ["-stage", "poly"])]
    with cf.ThreadPoolExecutor(max_workers=len(jobs)) as ex:
        outs = list(ex.map(lambda j: _driver(ctx, drv, j[0], j[1], 1800), jobs))
    lines = []
    for o in outs:
        lines += [x for x in open(o).read().splitlines() if x]
    # events are independent; a seeded shuffle gives every contiguous shard the same mix of cheap and expensive ones
    import random
    random.Random(ctx.seed).shuffle(lines)
    arith = os.path.join(ctx.scratch, "c10.arith.ndjson")
    with open(arith, "w") as f:
        f.write("\n".join(lines) + "\n")
    return arith


EXPECT = {"crafted:z=bound-1": True, "crafted:ones=omega": True, "crafted:ones=max-1": True, "crafted:ones=0..few": True,
          "crafted:r0=bound-1": True, "crafted:z=bound": False, "crafted:z=bound+1": False, "own-signature": True,
          "hint-count-omega+1": False, "hint-unsorted": False, "hint-duplicate": False, "hint-padding-nonzero": False,
          "len-1": False, "len+1": False, "message-modified": False}


def _coverage(ctx, algo, arith):
    """Coverage expectations about the generated cases (not oracles): a contradiction means the case
    generator is out of date -> exit 2, never a VIOLATION."""
    seen, acc, rej = {}, {}, {}
    # rejection samplers: inputs selected by XOF consumption must include the rare long ones
    xof = {}
    for line in open(arith):
        if '"kind":"searched' in line:
            e = json.loads(line)
            k = "%s/%s" % (e["ev"], e.get("eta", e.get("tau", "")))
            xof[k] = sorted(set(xof.get(k, [])) | {e["blocks"]})
    seeds3 = 0
    for line in open(algo):
        e = json.loads(line)
        if e["ev"] == "note" and e.get("what") == "xof-search seed" and e["set"] == "65" and e["blocks"] >= 3:
            seeds3 += 1
    ctx.cov["sampler_inputs_by_xof_blocks"] = xof
    ctx.cov["keygen_seeds_with_3_block_ExpandS_polynomial"] = seeds3
    if max(xof.get("rejbounded/4", [0])) < 3 or seeds3 < 1:
        raise vlib.Infra("case generator: no RejBoundedPoly(eta=4) input / KeyGen seed needing a third SHAKE256 block was found")
    if xof.get("rejbounded/2") != [1, 2]:
        raise vlib.Infra("case generator: RejBoundedPoly(eta=2) inputs needing one and two blocks expected, got %s" % xof.get("rejbounded/2"))
    for line in open(algo):
        e = json.loads(line)
        if e["ev"] != "verify":
            continue
        k, s = e.get("kind", ""), e["set"]
        seen.setdefault(k, set()).add(e["ok"])
        (acc if e["ok"] else rej)[s] = (acc if e["ok"] else rej).get(s, 0) + 1
    for k, want in EXPECT.items():
        if k in seen and seen[k] != {want}:
            raise vlib.Infra("case generator out of date: all %r cases were expected to be %s by the reference and the code, "
                             "got verdicts %s" % (k, "accepted" if want else "rejected", seen[k]))
    need = ["crafted:z=bound-1", "crafted:z=bound", "hint-count-omega+1", "hint-unsorted", "own-signature"]
    missing = [k for k in need if k not in seen]
    if missing:
        raise vlib.Infra("case generator produced no %s cases" % missing)
    for s in ("44", "65", "87"):
        if not acc.get(s) or not rej.get(s):
            raise vlib.Infra("parameter set %s: no accepted or no rejected verification in the trace" % s)
    ctx.cov["verify_accepted"] = acc
    ctx.cov["verify_rejected"] = rej
    ctx.cov["crafted_kinds_seen"] = sorted(k for k in seen if k.startswith("crafted:"))


def run(ctx):
    ctx.cov["rule"] = (
        "M: FIPS 204's own lemmas (Power2Round/Decompose ranges and reconstruction, UseHint(MakeHint(z,r),r) = HighBits(r+z), "
        "NTT^-1(NTT(w)) = w, NTT(a*b) = NTT(a) o NTT(b), NTT = evaluation at the roots, Unpack(Pack(w)) = w, limb product = "
        "shift-and-add product) model-checked on Z_q samples. T scalar: every unexported scalar function of algebra.go "
        "(reduceOnce, neg, add/sub/mul by constants, power2Round, decompose, highBits, lowBits, useHint h=0/1, makeHint for boundary z, "
        "centeredAbs, scalePower2; both gamma2) evaluated on ALL q = 8380417 field elements (thorough) / on the neighbourhoods of all "
        "branch boundaries plus seeded points (quick), logged as lossless runs and compared with the FIPS definition at every element; "
        "binary functions on boundary x boundary; NTT/NTT^-1/pointwise/norm on basis, extreme, sparse and random polynomials; every bit "
        "width of SimpleBitPack/BitPack and their inverses; HintBitPack/strict HintBitUnpack on valid and systematically malformed "
        "encodings; RejNTTPoly/RejBoundedPoly/SampleInBall/ExpandMask on seeded inputs. T algorithms: KeyGen from seed and signatures "
        "with known randomness byte-identical to the TLA+ KeyGen_internal/Sign_internal; hedged and prehash signatures verified by the "
        "TLA+ Verify; Verify verdicts on own, mutated (every section, lengths, hint encodings, z coefficients on the bound), modified "
        "message/public key and crafted boundary signatures (||z|| = gamma1-beta and -1, r0 on its bound, exactly omega hints) equal the "
        "reference's; composite ML-DSA (Ed25519, ECDSA) accepts iff both components verify. Buffers are treated adversarially: inputs "
        "are logged from pre-call copies and travel through one driver-owned buffer that is scribbled after every call; verification is "
        "called twice; signatures, prehashes and encoded keys are copied at return AND retained across later calls on the same "
        "primitive (3 prehashes first, signed in another order, each verified against its own message) - both values are judged. "
        "Rejection samplers: inputs are SEARCHED by XOF consumption (minimum / typical / maximum blocks in a bounded seeded search, "
        "incl. RejBoundedPoly(eta=4) inputs and KeyGen seeds needing a third SHAKE256 block) and used as sampler events and KeyGen seeds.")
    ctx.assumptions += [
        "SHAKE128/256 are the Keccak sponge of spec/prim/jdk/Prim.java (cross-checked against the JDK's SHA3 at class load), independent of Go",
        "Ed25519 / ECDSA component verification of composite keys is the primitive layer's (JDK), see C03",
        "hedged signing is judged by verification only (the fresh randomness is not observable); rnd is observable through the internal hook",
        "quantifier over seeds/messages/signatures is covered by seeded samples plus systematic boundary and mutation classes, not exhaustively",
    ]
    drv = ctx.go_build("c10")
    if ctx.replay:
        ev = json.load(open(ctx.replay)).get("event", {})
        trace = ctx.scratch + "/c10.replay.ndjson"
        ctx.run([drv, "-out", trace, "-replay", ctx.replay], timeout=1200)
        mod = ALGO if ev.get("ev") in ALGO_EVS else ARITH
        mism, _ = ctx.validate_events(mod, trace, shards=1)
        _report(ctx, mism)
        return

    def stage_m():   # (M) the reference against the standard's own lemmas
        ctx.model_check("MC_MLDSAArith", cfg="MC_MLDSAArith_full" if ctx.thorough else "MC_MLDSAArith", must_cover=False,
                        workers=1, heap="6g" if ctx.thorough else "3g", timeout=2400)

    def stage_arith():   # (T) scalar / polynomial / packing / sampling layers
        arith = _arith_trace(ctx, drv)
        mm, n = ctx.validate_events(ARITH, arith, shards=16, timeout=2400)
        ctx.log("arith layers: %d events validated, %d mismatches" % (n, len(mm)))
        return arith, mm, n

    def stage_algo():   # (T) algorithm layer
        algo = _driver(ctx, drv, "algo", ["-stage", "algo"], 2400 if ctx.thorough else 600)
        mm, n = _validate_heavy(ctx, ALGO, algo)
        ctx.log("algorithm layer: %d events validated, %d mismatches" % (n, len(mm)))
        return algo, mm, n

    with cf.ThreadPoolExecutor(max_workers=3) as ex:
        fm, fa, fg = ex.submit(stage_m), ex.submit(stage_arith), ex.submit(stage_algo)
        arith, mism_a, n_a = fa.result()
        _report(ctx, mism_a)
        try:
            algo, mism, n = fg.result()
        except vlib.Infra:
            if ctx.violations:      # the lower layers already contradict the specification: report that
                ctx.log("algorithm-layer stage did not complete; reporting the violations of the lower layers")
                return
            raise
        fm.result()

    ctx.cov["traces_validated_against_impl"] += 2
    ctx.cov["arith_events"] = n_a
    pts = 0
    lines = open(arith).read().splitlines()
    for x in lines:
        if x.startswith('{"ev":"run"'):
            pts += json.loads(x)["n"]
    ctx.cov["scalar_function_points_checked"] = pts
    for k in (3, len(lines) // 3, len(lines) - 2):
        ctx.sample(json.loads(lines[k]))
    arith_bad = bool(mism_a)

    ctx.cov["algo_events"] = n
    kinds = {}
    alines = open(algo).read().splitlines()
    for x in alines:
        e = json.loads(x)
        kinds[e["ev"]] = kinds.get(e["ev"], 0) + 1
    ctx.cov["algo_event_kinds"] = kinds
    for k in (1, len(alines) // 2, len(alines) - 1):
        ctx.sample(json.loads(alines[k]))
    _report(ctx, mism)

    if not mism and not arith_bad:
        _coverage(ctx, algo, arith)
        ctx.negative_control(ARITH, arith, corrupt_arith, window=40)
        ctx.negative_control(ALGO, algo, corrupt_algo, window=6)


# ----------------------------------------------------------------------------------------- reference gate (bin/selfspec)
def _wycheproof_events(wy):
    """Wycheproof mldsa_{44,65,87}_{verify,sign_seed}_test.json as known-answer events for Trace_MLDSA. Each real
    event is followed by cheap `pad` events so that vlib shards the (expensive) events over 16 TLC processes."""
    evs = []
    for s in ("44", "65", "87"):
        for g in wy("mldsa_%s_verify_test.json" % s)["testGroups"]:
            for t in g["tests"]:
                evs.append(dict(ev="xverify", set=s, pk=g["publicKey"], msg=t["msg"], ctx=t.get("ctx", ""), sig=t["sig"],
                                ok=(t["result"] == "valid"), kind="kat:verify#%d" % t["tcId"]))
        for g in wy("mldsa_%s_sign_seed_test.json" % s)["testGroups"]:
            for t in g["tests"]:
                evs.append(dict(ev="xsign", set=s, seed=g["privateSeed"], pk=g["publicKey"], msg=t["msg"], ctx=t.get("ctx", ""),
                                sig=t["sig"], ok=(t["result"] == "valid"), kind="kat:sign_seed#%d" % t["tcId"]))
    out = []
    for e in evs:
        out.append(e)
        out += [dict(ev="pad")] * 7
    return out


SELFSPEC = {"Trace_MLDSA": _wycheproof_events}

MANIFEST = dict(
    category="model_checking",
    text=("FIPS 204 is transcribed into TLA+ (spec/pq/MLDSAArith, MLDSAEncode, MLDSASample, MLDSA: mod+-, Power2Round, Decompose, "
          "MakeHint/UseHint, NTT with zeta = 1753, bit packing, strict hint unpacking, rejection sampling over SHAKE, KeyGen_internal, "
          "Sign_internal with its rejection loop, Verify_internal, external mu, composite rule). TLC first model-checks the standard's own "
          "lemmas on the transcription and re-derives all Wycheproof ML-DSA sign/verify vectors with it, then judges recorded behaviour of "
          "the real code: every scalar function of algebra.go on all 8 380 417 field elements (thorough) compared with the definition at "
          "each element, NTT/packing/sampling on polynomial classes, key generation and known-randomness signatures byte for byte, and "
          "Verify verdicts on own, mutated, malformed and crafted boundary signatures for all three parameter sets, plus prehash and "
          "composite routes through the public keyset API. Conformance on enumerated/seeded inputs, not a proof over all seeds and "
          "messages; the scalar layer is exhaustive."),
    note=("Trusted: TLC, the Keccak sponge of the primitive layer, JDK Ed25519/ECDSA for the classical half of composite keys, the "
          "TLA+ transcription (gated by FIPS lemmas and Wycheproof). Hedged signatures are judged by verification only. Crafted "
          "boundary signatures are built with Tink's own primitives but judged only by the reference."),
    technique="TLA+ reference spec of FIPS 204 + TLC model checking of its lemmas + TLC trace validation of recorded real-code calls, negative controls",
    design_ref="DESIGN.md section 6, C10",
)
