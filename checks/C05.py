"""C05 - Keyset primitives use the primary key to produce and any enabled key to accept.

(M) TLC: on every well-formed keyset of <= 3 keys (ids {0, 2^32-1, 0x01020304} x TINK/CRUNCHY/LEGACY/RAW x
    ENABLED/DISABLED/DESTROYED x full/legacy-adapter implementation x any primary x any order) and on every keyset
    reachable through KeysetManager.tla (add, promote, enable, disable, delete, externally read handles), the
    mechanism written like the code (prefix map lookup in insertion order, then prefix-less keys, first success wins
    and is logged; every enabled key in order for streaming AEAD / JWT; PRF set; signer) agrees with the property's
    rule for every input made by a key of the keyset (any status), a removed key, a foreign key with the same id and
    prefix type, and every first-five-byte collision of a prefix-less output.
(R) every keyset TLC wrote out (spec/plan/Plan_PrimitiveSet) is instantiated with REAL keys for AEAD, DAEAD, MAC,
    signature, hybrid, JWT MAC, JWT signature, streaming AEAD and PRF set, run through the real factories, and every
    produced output / accept-reject verdict / logged key id is judged by TLC with the property's rule.
(T) seeded random keysets of up to 8 keys followed by 30-step rotation histories of real keyset.Manager calls, the
    real handle after every call judged the same way."""
import concurrent.futures as cf
import json
import os

import vlib

TRACE = "Trace_PrimitiveSet"          # one event = one keyset through a real factory (independent events)
TRACE_H = "Trace_PrimitiveSetHist"    # the same, inside rotation histories replayed through KeysetManager.tla (stateful)
CLASSES = ["AEAD", "DAEAD", "MAC", "SIG", "HYBRID", "JWTMAC", "JWTSIG", "STREAM", "PRF"]


# ------------------------------------------------------------------ helpers
def token_index(bad):
    """Judge() appends 'token <n>' when the finding is about one input."""
    if bad and isinstance(bad[-1], str) and bad[-1].startswith("token "):
        return int(bad[-1].split()[1]) - 1
    return None


def base_case(ev, tok=None):
    """The abstract case behind an event, in the form the driver's -plan mode takes (ids literal): replaying it
    re-executes the keyset (and, for a collision instance, searches a fresh colliding output) on the current tree."""
    ks = [dict(e) for e in ev["ks"]]
    toks = ev.get("toks", [])
    if "colbase" in ev:                     # a collision instance: entry col had its id dictated by the output
        j = toks[0]["col"] - 1
        ks[j]["id"] = ev["colbase"]
        toks = toks[:1]
    elif tok is not None:
        toks = [toks[tok]]
    makers = [dict(id=t["by"]["id"], pt=t["by"]["pt"], mat=t["by"]["mat"], col=t["col"]) for t in toks]
    return dict(ks=ks, cls=[ev["cls"]], rot=-1, makers=makers)


def signature(m):
    e, bad = m["event"], m["bad"]
    k = token_index(bad)
    inp = ""
    if k is not None and k < len(e.get("toks", [])):
        t = e["toks"][k]
        inp = " input by a %s key%s" % (t["by"]["pt"], " (first bytes collide with another key's prefix)" if t["col"] else "")
    impl = "+".join(sorted({x["impl"] for x in e["ks"]}))
    return "%s factory [%s]: %s%s" % (e.get("cls"), impl, bad[0], inp)


def report(ctx, mism, stage):
    for m in mism:
        if m["bad"][0].startswith("INFRA"):
            raise vlib.Infra("%s: %s (event %d: %s)" % (stage, m["bad"], m["index"], json.dumps(m["event"])[:600]))
        k = token_index(m["bad"])
        ctx.violation(signature(m), "%s (spec: %s)" % (m["bad"][0], m["bad"][1:]),
                      dict(stage=stage, case=base_case(m["event"], k), event=m["event"], spec_says=m["bad"]))


def corrupt(ev, rng):
    if ev["ev"] != "set":
        return None
    ev = json.loads(json.dumps(ev))
    if "prf" in ev:
        ids = [e["id"] for e in ev["ks"]]
        ev["prf"]["primary"] = "0badc0de" if len(ids) == 1 else rng.choice([i for i in ids if i != ev["prf"]["primary"]])
        ev["_corrupted"] = "prf.primary"
        return ev
    toks = ev.get("toks") or []
    choice = rng.randrange(3)
    if choice == 0 and toks:
        t = rng.choice(toks)
        t["ok"] = not t["ok"]
        if t["ok"]:
            t["got"] = t["msg"]
        ev["_corrupted"] = "toks.ok"
        return ev
    if choice == 1 and ev.get("mon"):
        acc = [t for t in toks if t["ok"]]
        if acc:
            t = rng.choice(acc)
            t["logged"] = ["0badc0de"]
            ev["_corrupted"] = "toks.logged"
            return ev
    if choice == 2 and "prod" in ev and not ev["prod"]["err"]:
        ev["prod"]["acceptedBy"] = ev["prod"]["acceptedBy"] + ["0badc0de"] if rng.randrange(2) else []
        ev["_corrupted"] = "prod.acceptedBy"
        return ev
    return None


def run_driver(ctx, drv, jobs, tag):
    """jobs: list of argv tails; each runs as its own process writing its own trace. Returns (trace paths, stdout)."""
    outs = []

    def work(i):
        out = os.path.join(ctx.scratch, "%s.%d.ndjson" % (tag, i))
        r = ctx.run([drv, "-out", out] + jobs[i], timeout=7200)
        return out, r.stdout.strip()

    with cf.ThreadPoolExecutor(max_workers=min(12, len(jobs))) as ex:
        outs = list(ex.map(work, range(len(jobs))))
    return [o for o, _ in outs], [s for _, s in outs]


def tally(stdouts):
    tot = {}
    for s in stdouts:
        for kv in s.split():
            k, v = kv.split("=")
            tot[k] = tot.get(k, 0) + int(v)
    return tot


def validate(ctx, files, stage, module=TRACE, reset=None):
    """Validate the per-process traces as one file; returns (mismatches, events, merged path). The file is cut into
    pieces of <= ~40k events (keeps each TLC process's JSON small); pieces of stateful traces begin at a reset event
    (every per-process file starts with one, and vlib cuts its shards at reset events only)."""
    merged = os.path.join(ctx.scratch, stage.split(":")[0] + "-all.ndjson")
    lines = []
    for f in files:
        lines += [x for x in open(f).read().splitlines() if x.strip()]
    if not lines:
        raise vlib.Infra("%s: the driver recorded nothing" % stage)
    open(merged, "w").write("".join(x + "\n" for x in lines))
    cuts, last = [0], 0
    for i, x in enumerate(lines):
        if i - last >= 40000 and (not reset or '"ev":"%s"' % reset in x):
            cuts.append(i)
            last = i
    cuts.append(len(lines))
    mism = []
    for a, b in zip(cuts, cuts[1:]):
        part = merged + ".part"
        open(part, "w").write("\n".join(lines[a:b]) + "\n")
        mm, _ = ctx.validate_events(module, part, shards=16, timeout=3600, heap="4g", stage=stage, reset=reset)
        for m in mm:
            m["index"] += a
        mism += mm
    ctx.stage(stage, events=len(lines), mismatches=len(mism))
    return mism, len(lines), merged


# ------------------------------------------------------------------ (P) beyond the small scope [proofprimset]
def proof_beyond_bound(ctx):
    """Thorough tier only. spec/proofs/PrimitiveSetAbs.tla restates PrimitiveSet.tla's property rule and mechanism for an
    arbitrary id set and keysets of any length; TLAPS proves mechanism <=> property there (accept verdict, logged key,
    producer, PRF set). MC_PrimitiveSetAbsAgree has TLC check that every operator of that module returns the same value as
    its namesake in PrimitiveSet.tla on every keyset / class / input of MC_PrimitiveSet_quick. Anything but a complete
    proof / a clean model check is exit 2 (this is about the model, never a verdict on the code)."""
    import re
    import shutil
    import subprocess
    d = os.path.join(ctx.scratch, "tlaps-primset")
    os.makedirs(d)
    shutil.copy(os.path.join(os.path.dirname(os.path.dirname(os.path.abspath(__file__))), "spec", "proofs", "PrimitiveSetAbs.tla"), d)
    try:
        # (--stretch: back-end timeouts x3, the machine is shared; measured alone: 374 obligations, 13 s wall, 1 CPU-min)
        r = subprocess.run(["tlapm", "--threads", "8", "--cleanfp", "--stretch", "3", "PrimitiveSetAbs.tla"], cwd=d,
                           capture_output=True, text=True, timeout=3600)
    except subprocess.TimeoutExpired:
        ctx.infra("tlapm timeout (PrimitiveSetAbs)")
    m = re.search(r"All (\d+) obligations proved", r.stdout + r.stderr)
    if not m:
        ctx.infra("TLAPS proof of PrimitiveSetAbs failed: " + (r.stdout + r.stderr)[-1500:])
    ctx.stage("P:TLAPS PrimitiveSetAbs", obligations=int(m.group(1)), discharged=int(m.group(1)))
    ctx.log("TLAPS PrimitiveSetAbs: all %s obligations proved" % m.group(1))
    ctx.model_check("MC_PrimitiveSetAbsAgree", "MC_PrimitiveSetAbsAgree", timeout=7200, workers=8, must_cover=False,
                    stage="P:PrimitiveSetAbs = PrimitiveSet on all keysets <=3 keys (agreement of the proved module)")


# ------------------------------------------------------------------ the check
def run(ctx):
    ctx.cov["rule"] = (
        "(M) every well-formed keyset of <= 3 keys over ids {0, 2^32-1, 0x01020304} x {TINK,CRUNCHY,LEGACY,RAW} x {ENABLED,"
        "DISABLED,DESTROYED} x {full, legacy adapter} x any primary x any order, plus shared key material (<= 2 keys), plus every "
        "keyset reachable through KeysetManager.tla; on each, all inputs made by any (id, prefix type, key material incl. a foreign "
        "one) and every first-five-byte collision of a prefix-less output; 9 primitive classes. (R) the same keysets written out by "
        "TLC (all in thorough; all <= 2-key and a seeded sample of 3-key ones in quick) instantiated with real keys per class (1-6 "
        "key types per class with different header/nonce/tag/signature lengths, drawn per keyset so that every ordered mix of key "
        "types occurs with the producing key at every position, legacy-adapter path through a harness-registered registry.KeyManager, "
        "ids rotated over {0, 2^32-1, 0x01020304, 2^31, 2^31-1, 1}), colliding prefix-less outputs found by search and the other "
        "key's id taken from their bytes; (T) seeded random keysets of <= 8 keys + 30 real keyset.Manager calls each. Every "
        "event (keyset as the handle shows it, produced output's prefix and which single keys accept it, accept/reject per input, "
        "key ids logged by a monitoring client) is judged by TLC with PropAccept / Produce / PropPRFSet of PrimitiveSet.tla")
    ctx.assumptions += [
        "key material is abstract in the model: an input's body verifies under exactly the key material (and LEGACY convention) "
        "that made it, and never after being shifted by a prefix length (PrimitiveSet!ValidBody); that single keys behave so is "
        "C01-C04/C06/C08",
        "exhaustive only within the model constants; the real-code side covers every keyset of the model (thorough) with a few "
        "key types per class, not every key type",
        "inputs are outputs of single keys (the property's quantifier), not arbitrary byte strings",
        "Handle.Public() drops monitoring annotations; in rotation histories the public view is re-read with annotations",
    ]
    # ---------------------------------------------------------------- (M)
    if not ctx.replay:
        r = ctx.tlc("MC_PrimitiveSet", "MC_PrimitiveSet_reach", workers=1)
        if r.invariant != "Reached":
            raise vlib.Infra("MC_PrimitiveSet: no well-formed, class-admitted keyset of full length is reached (vacuous): %s" % r.summary())
        if ctx.thorough:
            # (must_cover=False: -coverage 1 doubles the cost of these invariant-heavy runs and vlib does not read it;
            #  that the invariant is evaluated on full-length keysets is what the Reached run above establishes)
            ctx.model_check("MC_PrimitiveSet", "MC_PrimitiveSet", stage="M:all keysets <=3 keys, both implementations", timeout=7200,
                            must_cover=False)
            ctx.model_check("MC_PrimitiveSetHist", "MC_PrimitiveSetHist", timeout=7200, must_cover=False,
                            stage="M:rotation histories (KeysetManager), <=3 entries, external handles <=2 keys, 9 classes")
        else:
            # (few workers: a 16-slot request starves on a shared machine; these runs take seconds of CPU)
            ctx.model_check("MC_PrimitiveSet", "MC_PrimitiveSet_quick", stage="M:all keysets <=3 keys, full implementation", timeout=3600, workers=4)
            ctx.model_check("MC_PrimitiveSetHist", "MC_PrimitiveSetHist_quick", timeout=3600, workers=4,
                            stage="M:rotation histories (KeysetManager), <=2 entries, external handles 1 key, 5 mechanism shapes")
        ctx.model_check("MC_PrimitiveSet", "MC_PrimitiveSet_shared", stage="M:shared key material, <=2 keys, both implementations", timeout=3600, workers=4)
    drv = ctx.go_build("c05")
    empty = os.path.join(ctx.scratch, "empty.ndjson")
    open(empty, "w").close()
    if ctx.replay:
        obj = json.load(open(ctx.replay))
        plan = os.path.join(ctx.scratch, "replay.plan")
        open(plan, "w").write(json.dumps(obj["case"]) + "\n")
        files, _ = run_driver(ctx, drv, [["-plan", plan, "-makers", empty]], "replay")
        mism, n, _ = validate(ctx, files, "replay")
        for m in mism:
            ctx.violation("replay", "%s (spec: %s)" % (m["bad"][0], m["bad"][1:]), dict(event=m["event"], case=obj["case"], spec_says=m["bad"]))
        return
    # ---------------------------------------------------------------- (R) the cases TLC wrote out
    cases_f = os.path.join(ctx.scratch, "cases.ndjson")
    makers_f = os.path.join(ctx.scratch, "makers.ndjson")
    r = ctx.tlc("Plan_PrimitiveSet", "Plan_PrimitiveSet", workers=1, heap="6g", timeout=3600,
                env=dict(VERIF_OUT=cases_f, VERIF_MAKERS=makers_f))
    if not r.ok or not os.path.exists(cases_f):
        raise vlib.Infra("Plan_PrimitiveSet: %s" % (r.error or r.summary()))
    cases = [json.loads(x) for x in open(cases_f) if x.strip()]
    cases.sort(key=lambda c: json.dumps(c, sort_keys=True))
    n_all = len(cases)
    n_makers = sum(1 for x in open(makers_f) if x.strip())
    small = [c for c in cases if len(c["ks"]) <= 2]
    big = [c for c in cases if len(c["ks"]) == 3]
    if not ctx.thorough:
        big = ctx.rng.sample(big, 150)
    chosen = small + big

    def variant(c, how):
        c = json.loads(json.dumps(c))
        for e in c["ks"]:
            e["impl"] = "legacyAdapter" if how == "all" or ctx.rng.randrange(2) else "full"
        return c
    # implementation variants: every key through the legacy adapter, and a random mix
    var_src = ctx.rng.sample(chosen, len(chosen) // 4) if not ctx.thorough else small + ctx.rng.sample(big, len(big) // 5)
    plan_cases = list(chosen) + [variant(c, "all") for c in var_src] + [variant(c, "mix") for c in var_src]
    for k, c in enumerate(plan_cases):
        c["rot"] = (k + ctx.seed) % 6
        # which REAL key types the keyset mixes, and in which order: the model's materials m1..m3 (tied to positions 1..3)
        # are renamed to three distinct materials out of m1..m12; a material's number deals its key type (12 is a multiple
        # of every class's number of key types), so over the cases every class meets every ordered mix of its key types
        # (different header / nonce / tag / signature lengths), with the producing key at every position. The foreign
        # material f1 gets the key type of one of the keyset's materials.
        a = ctx.rng.sample(range(1, 13), 3)
        c["mats"] = {"m1": "m%d" % a[0], "m2": "m%d" % a[1], "m3": "m%d" % a[2], "f1": "f%d" % ctx.rng.choice(a[:len(c["ks"])])}
    plan = os.path.join(ctx.scratch, "plan.ndjson")
    open(plan, "w").write("".join(json.dumps(c) + "\n" for c in plan_cases))
    ctx.stage("R:plan", keysets_in_model=n_all, makers=n_makers, keysets_replayed=len(chosen), with_impl_variants=len(plan_cases))
    ctx.log("plan: %d keysets in the model, %d replayed (+%d implementation variants), %d input makers" %
            (n_all, len(chosen), len(plan_cases) - len(chosen), n_makers))
    colfrac = "1" if ctx.thorough else "0.25"   # quick: a seeded quarter of the collision instances
    files, outs = run_driver(ctx, drv, [["-plan", plan, "-makers", makers_f, "-classes", c, "-colfrac", colfrac] for c in CLASSES], "plan")
    t = tally(outs)
    for c, o in zip(CLASSES, outs):          # every class must really have been exercised
        tc = tally([o])
        if tc.get("sets", 0) == 0 or (c != "PRF" and tc.get("tokens", 0) == 0):
            raise vlib.Infra("class %s: the driver executed nothing (%s)" % (c, o))
        ctx.stage("R:driver " + c, **tc)
    ctx.log("driver (plan):", t)
    ctx.stage("R:driver", **t)
    if t.get("tokens", 0) == 0 or t.get("collisions", 0) == 0:
        raise vlib.Infra("the driver produced no inputs / no colliding prefix-less outputs")
    mism, n1, merged1 = validate(ctx, files, "R:keysets from TLC through the real factories")
    report(ctx, mism, "R")
    ctx.cov["traces_validated_against_impl"] += len(plan_cases)
    # ---------------------------------------------------------------- (T) random keysets + rotation histories
    nh = 1200 if ctx.thorough else 96
    procs = 12
    jobs = [["-random", str(nh // procs), "-steps", "30", "-stream", str(i)] for i in range(procs)]
    files, outs = run_driver(ctx, drv, jobs, "hist")
    t2 = tally(outs)
    ctx.log("driver (histories):", t2)
    ctx.stage("T:driver", histories=(nh // procs) * procs, **t2)
    mism2, n2, merged2 = validate(ctx, files, "T:random keysets and rotation histories", module=TRACE_H, reset="reset")
    report(ctx, mism2, "T")
    ctx.cov["traces_validated_against_impl"] += (nh // procs) * procs
    ctx.cov["events"] = n1 + n2
    ctx.cov["inputs_judged"] = t.get("tokens", 0) + t2.get("tokens", 0)
    lines = open(merged1).read().splitlines()
    for k in (0, len(lines) // 3, len(lines) // 2):
        e = json.loads(lines[k])
        e["toks"] = e.get("toks", [])[:3]
        ctx.sample(e)
    if not mism and not mism2:
        ctx.negative_control(TRACE, merged1, corrupt, window=40)
        ctx.negative_control(TRACE_H, merged2, corrupt, reset="reset", stage="NC:histories")
    if ctx.thorough:                      # [proofprimset] (P) after all other stages; quick is unchanged
        proof_beyond_bound(ctx)


MANIFEST = dict(
    category="model_checking",
    text=("PrimitiveSet.tla states the property's rule (produce with the primary key and its prefix; accept iff valid under an "
          "ENABLED key whose prefix the input carries or which has none; the logged key did the work; a PRF set mirrors the "
          "enabled keys) and, separately, the mechanism as the factories implement it (prefix map lookup in insertion order, then "
          "prefix-less keys, first success wins; full*Adapter wrappers; no map for JWT and streaming AEAD). TLC shows the two agree "
          "on every keyset of <= 3 keys x 4 prefix types x 3 statuses x 2 implementations x any primary/order and on every keyset "
          "reachable through KeysetManager.tla, for all inputs by present, removed and foreign keys and all first-five-byte "
          "collisions. The same keysets are then built with real keys for AEAD, DAEAD, MAC, signature, hybrid, JWT MAC, JWT "
          "signature, streaming AEAD and PRF sets (several key types per class, legacy-adapter path via a harness key manager, key "
          "ids incl. 0 and 2^32-1, DISABLED/DESTROYED keys via proto keysets), run through the real factories together with random "
          "8-key keysets under 30-step real keyset.Manager rotation histories; TLC judges every produced prefix, accept/reject "
          "verdict and monitoring log entry with the property's rule."),
    note=("Key material is abstract in the model (an input verifies under exactly the key that made it: that is C01-C04/C06/C08). "
          "Inputs are outputs of single keys, not arbitrary bytes. Exhaustive within the constants; a few key types per class. "
          "Hook: testing/verifhooks.RegisterMonitoringClient (re-export of internal/internalregistry). The keyset deriver is not "
          "covered."),
    technique="TLA+ decision model (property vs mechanism) + TLC exhaustive model checking + TLC-generated cases replayed into the real "
              "factories + TLC trace validation of real rotation histories, negative control",
    design_ref="DESIGN.md section 6, C05",
)
