"""C12 - Keys, parameters and keysets survive serialization unchanged.

(R) Plan_KeyParams.tla: TLC enumerates every parameter record of the key-type inventory KeyParams.tla (29 parameter
    families / 42 key types; thorough = the full dependent product, quick = boundary-thinned ranges); the driver
    builds, with the REAL constructors, parameters and keys (kinds x material classes) for every record, runs
    parameters <-> template and key <-> KeySerialization <-> key (internal/protoserialization through a verif bridge,
    and the public Manager.AddKey + insecurecleartextkeyset route) and records the results;
(T) Trace_KeyParams.tla judges every record (Equal both ways, byte-identical re-serialization, type URL, material
    type, variant <-> prefix type, id requirement, and -- KeyFormatWire.tla, a protobuf wire decoder in TLA+ -- every
    parameter at its documented proto field of the key template);
(M) KeysetIO.tla is model checked on small constants; (R/T) every writer x reader x mode pair is executed on generated
    keysets and Trace_KeysetIO.tla judges the recorded projections and the primitive interoperability results."""
import concurrent.futures as cf
import json
import os
import sys

sys.path.insert(0, os.path.join(os.path.dirname(os.path.dirname(os.path.abspath(__file__))), "lib"))
import vlib  # noqa: E402

# key types whose enumeration is large get a TLC process of their own
PLAN_GROUPS = [["AesCtrHmac"], ["AesCtrHmacStreaming", "Hmac"], ["Ecies", "RsaSsaPss"], None]


def plan_cases(ctx, only=None):
    """spec -> Tink: the parameter records, written by TLC (Plan_KeyParams). Returns the path of the merged case file."""
    big = [t for g in PLAN_GROUPS if g for t in g]
    groups = [g for g in PLAN_GROUPS]

    def work(i):
        g = groups[i]
        out = os.path.join(ctx.scratch, "cases.%d.ndjson" % i)
        env = dict(VERIF_CASES=out, VERIF_SAMPLE=0)
        if g is None:
            env["VERIF_TYPES"] = ",".join(sorted(set(ALL_TYPES) - set(big)))
        else:
            env["VERIF_TYPES"] = ",".join(g)
        if only:
            ts = [t for t in env["VERIF_TYPES"].split(",") if t in only]
            if not ts:
                return []
            env["VERIF_TYPES"] = ",".join(ts)
        r = ctx.tlc("Plan_KeyParams", env=env, workers=1, timeout=1500, heap="4g", extra=("-seed", str(ctx.seed)))
        if not r.ok or not os.path.exists(out):
            raise vlib.Infra("Plan_KeyParams failed: %s" % (r.error or r.out[-1500:]))
        return [x for x in open(out).read().splitlines() if x.strip()]

    path = os.path.join(ctx.scratch, "cases.ndjson")
    n = 0
    per = {}
    with cf.ThreadPoolExecutor(max_workers=len(groups)) as ex, open(path, "w") as f:
        for ls in ex.map(work, range(len(groups))):
            for x in ls:
                f.write(x + "\n")
                n += 1
                kt = json.loads(x)["kt"]
                per[kt] = per.get(kt, 0) + 1
    if n == 0:
        raise vlib.Infra("Plan_KeyParams produced no cases")
    ctx.stage("R:Plan_KeyParams", cases=n, per_key_type=per)
    ctx.log("plan: %d parameter records over %d key types" % (n, len(per)))
    return path, n, per


ALL_TYPES = ["AesGcm", "AesCtrHmac", "AesGcmSiv", "ChaCha20Poly1305", "XChaCha20Poly1305", "XAesGcm", "AesSiv", "Hmac",
             "AesCmac", "HmacPrf", "HkdfPrf", "AesCmacPrf", "AesGcmHkdfStreaming", "AesCtrHmacStreaming", "Ecdsa", "Ed25519",
             "RsaSsaPkcs1", "RsaSsaPss", "MlDsa", "SlhDsa", "CompositeMlDsa", "Hpke", "Ecies", "JwtHmac", "JwtEcdsa",
             "JwtRsaSsaPkcs1", "JwtRsaSsaPss", "JwtMlDsa", "PrfBasedDeriver"]


def kp_signature(m):
    """call site (key type, params | key kind) + what failed + input class (parameters the proto format can / cannot carry)"""
    e = m["event"]
    what = m["bad"][0]
    cls = "representable" if e.get("rep", True) else "not representable in the proto format"
    if e["ev"] == "keys" and len(m["bad"]) > 1:
        return "protoserialization/%s %s key: %s [%s]" % (e["kt"], m["bad"][1], what, cls)
    return "protoserialization/%s parameters: %s [%s]" % (e["kt"], what, cls)


def handle_mismatches(ctx, mism, sig, slim=None):
    cov = [m for m in mism if str(m["bad"][0]).startswith("COVERAGE")]
    if cov:
        m = cov[0]
        ev = dict(m["event"])
        ev.pop("keys", None)
        raise vlib.Infra("model out of date (coverage expectation, not a verdict): %s; spec says %s; event %s"
                         % (m["bad"][0], m["bad"][1:], json.dumps(ev)[:600]))
    for m in mism:
        ev = slim(m["event"]) if slim else m["event"]
        ctx.violation(sig(m), "%s (spec: %s)" % (m["bad"][0], m["bad"][1:]), dict(event=ev, spec_says=m["bad"]))


def slim_kp(e):
    e = dict(e)
    if "keys" in e:
        e["keys"] = e["keys"][:2]
    return e


def corrupt_kp(ev, rng):
    ev = json.loads(json.dumps(ev))
    c = rng.randrange(4)
    if ev["ev"] == "params":
        if not ev.get("accepted") or not ev["tpl"]["ser"] or not ev["tpl"]["equal"]:
            return None
        if c < 2:
            ev["tpl"]["equal"] = False
            ev["_corrupted"] = "tpl.equal"
        else:
            ev["tpl"]["prefix"] = ev["tpl"]["prefix2"] = "LEGACY" if ev["tpl"]["prefix"] != "LEGACY" else "TINK"
            ev["_corrupted"] = "tpl.prefix"
        return ev
    ks = [k for k in ev["keys"] if k["built"] and k["ser"] and k["equal"]]
    if c == 0 and ks:
        k = ks[rng.randrange(len(ks))]
        k["idreq"] = k["idreq2"] = "0badc0de"
        ev["_corrupted"] = "keys.idreq"
    elif c == 1 and ks:
        k = ks[rng.randrange(len(ks))]
        k["value2"] = ("00" if not k["value2"].startswith("00") else "01") + k["value2"][2:]
        ev["_corrupted"] = "keys.value2"
    elif c == 2 and ks:
        k = ks[rng.randrange(len(ks))]
        k["prefix"] = k["prefix2"] = "CRUNCHY" if k["prefix"] != "CRUNCHY" else "TINK"
        ev["_corrupted"] = "keys.prefix"
    elif c == 3 and ks:
        k = ks[rng.randrange(len(ks))]
        k["equalRev"] = False
        ev["_corrupted"] = "keys.equalRev"
    else:
        return None
    return ev


def stage_kp(ctx, drv):
    if ctx.replay:
        obj = json.load(open(ctx.replay))
        if obj.get("event", {}).get("ev") not in ("params", "keys"):
            return False
        tr = os.path.join(ctx.scratch, "replay-kp.ndjson")
        ctx.run([drv, "-mode", "kp", "-replay", ctx.replay, "-out", tr])
        mism, n = ctx.validate_events("Trace_KeyParams", tr, shards=1)
        handle_mismatches(ctx, mism, lambda m: "replay", slim_kp)
        return True
    only = [t for t in os.environ.get("VERIF_C12_TYPES", "").split(",") if t] or None   # development aid
    cases, n, per = plan_cases(ctx, only)
    tr = os.path.join(ctx.scratch, "kp.ndjson")
    r = ctx.run([drv, "-mode", "kp", "-cases", cases, "-out", tr], timeout=2400)
    ctx.log("driver: %d parameter records executed in %.1fs" % (n, r.wall))
    # records the proto format cannot carry are validated apart: every one of them may disagree in the same way,
    # and one replay per signature is enough
    nacc = nkeys = nref = 0
    for line in open(tr):
        e = json.loads(line)
        nacc += e.get("accepted", False)
        nkeys += sum(1 for k in e.get("keys", []) if k["built"])
        nref += e.get("accepted", False) and not e["tpl"]["ser"]
        nref += sum(1 for k in e.get("keys", []) if k["built"] and not k["ser"])
    mism, n1 = ctx.validate_events("Trace_KeyParams", tr, shards=16 if ctx.thorough else 10, stage="T:key/parameter round trips")
    handle_mismatches(ctx, mism, kp_signature, slim_kp)
    n2 = 0
    ctx.stage("R:key/parameter round trips", records=n, accepted_by_constructor=nacc, keys_built=nkeys, refused_by_serializer=nref)
    ctx.cov["traces_validated_against_impl"] += n1 + n2
    lines = open(tr).read().splitlines()
    for k in (len(lines) // 3, 2 * len(lines) // 3):
        ctx.sample(slim_kp(json.loads(lines[k])))
    # negative control on the events of the key types without any disagreement
    dirty = {m["event"]["kt"] for m in mism}
    clean = os.path.join(ctx.scratch, "kp-clean.ndjson")
    with open(clean, "w") as f:
        for x in lines:
            if json.loads(x)["kt"] not in dirty:
                f.write(x + "\n")
    if not ctx.violations:    # (known findings are filtered out above; with a new violation the run fails anyway)
        ctx.negative_control("Trace_KeyParams", clean, corrupt_kp, window=60, stage="NC:Trace_KeyParams")
    return True


def plan_handles(ctx, sets, npairs, nrandom):
    out = os.path.join(ctx.scratch, "handles.ndjson")
    r = ctx.tlc("Plan_KeysetIO", env=dict(VERIF_HANDLES=out, VERIF_SETS=sets, VERIF_PAIRS=npairs, VERIF_RANDOM=nrandom), workers=1,
                timeout=900, heap="3g", extra=("-seed", str(ctx.seed)))
    if not r.ok or not os.path.exists(out):
        raise vlib.Infra("Plan_KeysetIO failed: %s" % (r.error or r.out[-1500:]))
    n = sum(1 for x in open(out) if x.strip())
    ctx.stage("R:Plan_KeysetIO", handles=n, sets=sets)
    return out, n


def io_signature(m):
    e = m["event"]
    b = m["bad"]
    return "keysetio/%s %s%s" % (e["ev"], b[0], (" [%s]" % b[1]) if len(b) > 1 and e["ev"] == "io" else "")


def slim_io(e):
    e = dict(e)
    if "reads" in e:
        e["reads"] = [r for r in e["reads"] if r["ok"]][:4]
    return e


def corrupt_io(ev, rng):
    ev = json.loads(json.dumps(ev))
    if ev["ev"] == "handle":
        if not ev["built"] or not ev["proj"]:
            return None
        k = rng.randrange(len(ev["proj"]))
        c = rng.randrange(3)
        if c == 0:
            ev["proj"][k]["primary"] = not ev["proj"][k]["primary"]
            ev["_corrupted"] = "proj.primary"
        elif c == 1:
            ev["proj"][k]["status"] = "DISABLED" if ev["proj"][k]["status"] != "DISABLED" else "ENABLED"
            ev["_corrupted"] = "proj.status"
        else:
            ev["proj"][k]["id"] = "0badc0de"
            ev["_corrupted"] = "proj.id"
        return ev
    if not ev["wok"]:
        return None
    match = [r for r in ev["reads"] if r["ok"] and r["f"] == ev["w"]["f"] and r["m"] == ev["w"]["m"] and r["kek"] == ev["w"]["kek"]]
    if not match:
        return None
    r = match[0]
    c = rng.randrange(3)
    if c == 0:
        r["ok"] = False
        ev["_corrupted"] = "reads.ok"
    elif c == 1:
        r["proj"][0]["id"] = "0badc0de"
        ev["_corrupted"] = "reads.proj.id"
    else:
        bad = [x for x in ev["reads"] if not x["ok"] and x["m"] == "encrypted" and ev["w"]["m"] == "encrypted" and x["f"] == ev["w"]["f"]]
        if not bad:
            return None
        bad[0]["ok"] = True
        bad[0]["proj"] = r["proj"]
        ev["_corrupted"] = "reads(wrong kek/ad).ok"
    return ev


def stage_io(ctx, drv):
    """keyset handles through every writer x reader pair (KeysetIO.tla)."""
    if ctx.replay:
        obj = json.load(open(ctx.replay))
        if obj.get("event", {}).get("ev") not in ("handle", "io"):
            return False
        tr = os.path.join(ctx.scratch, "replay-io.ndjson")
        ctx.run([drv, "-mode", "io", "-replay", ctx.replay, "-out", tr])
        mism, n = ctx.validate_events("Trace_KeysetIO", tr, shards=1)
        handle_mismatches(ctx, mism, lambda m: "replay", slim_io)
        return True
    if ctx.thorough:
        ctx.model_check("MC_KeysetIO", "MC_KeysetIO", stage="M:KeysetIO ids 0..2, <=2 keys, 2 prefixes, 5 materials, 2 keks, 3 ads", workers=4)
    ctx.model_check("MC_KeysetIO", "MC_KeysetIO_quick", stage="M:KeysetIO ids 0..1, <=2 keys, 5 materials, 2 keks, 3 ads", workers=1, heap="4g")
    hp, nh = plan_handles(ctx, "singles,pairs,mats,random", 100000 if ctx.thorough else 60, 1500 if ctx.thorough else 60)
    tr = os.path.join(ctx.scratch, "io.ndjson")
    r = ctx.run([drv, "-mode", "io", "-handles", hp, "-out", tr], timeout=2400)
    ctx.log("driver: %d handles x 16 writers x 16 readers executed in %.1fs" % (nh, r.wall))
    mism, n = ctx.validate_events("Trace_KeysetIO", tr, shards=16 if ctx.thorough else 6, stage="T:keyset writer x reader matrix")
    handle_mismatches(ctx, mism, io_signature, slim_io)
    ctx.cov["traces_validated_against_impl"] += nh
    nreads = ninter = 0
    lines = open(tr).read().splitlines()
    for x in lines:
        e = json.loads(x)
        if e["ev"] == "io":
            nreads += len(e["reads"])
            ninter += e["interop"]["ab"] == "ok"
    ctx.stage("R:keyset writer x reader matrix", handles=nh, reads=nreads, interoperability_checks=ninter)
    ctx.sample(slim_io(json.loads(lines[len(lines) // 2])))
    bad_n = {m["event"]["n"] for m in mism}
    clean = os.path.join(ctx.scratch, "io-clean.ndjson")
    with open(clean, "w") as f:
        for x in lines:
            if json.loads(x)["n"] not in bad_n:
                f.write(x + "\n")
    if not ctx.violations:
        ctx.negative_control("Trace_KeysetIO", clean, corrupt_io, window=40, stage="NC:Trace_KeysetIO")
    return True


def run(ctx):
    ctx.cov["rule"] = ("(R) TLC (Plan_KeyParams over KeyParams.tla) enumerates every parameter record of 29 parameter families: "
                       "the full dependent product of all documented values (closed ranges completely, open-ended ones over "
                       "{min, min+1, typical, large}) plus one-fault records (min-1, max+1, unknown enum); thorough = all, quick = "
                       "ranges thinned to boundary values (interior value moves with VERIF_SEED). Per accepted record: parameters "
                       "<-> template, and key <-> serialization for kinds {symmetric | private, public} x material {random, "
                       "all-zero, leading-zero, id 0xffffffff, id 0} through internal/protoserialization and through Manager.AddKey "
                       "+ cleartext binary/JSON write/read; TLC judges every record")
    ctx.assumptions += ["key material is sampled by class (random, all-zero, leading zero, extreme ids), not enumerated",
                        "ParamsOK / Representable are coverage expectations: a mismatch stops the run with exit 2"]
    drv = ctx.go_build("c12")
    only = os.environ.get("VERIF_C12_STAGES", "kp,io").split(",")   # development aid
    if ctx.replay:
        if not (stage_kp(ctx, drv) or stage_io(ctx, drv)):
            raise vlib.Infra("replay file has no event of this check")
        return
    if "kp" in only:
        stage_kp(ctx, drv)
    if "io" in only:
        stage_io(ctx, drv)


SELFTESTS = ["Self_KeyFormatWire"]   # protobuf encoding examples + Tink's template constants gate KeyFormatWire.tla

MANIFEST = dict(
    category="model_checking",
    text=("KeyParams.tla is the key-type inventory as TLA+ data (29 parameter families / 42 key types: fields, domains, ParamsOK, "
          "Usable, Representable). TLC (Plan_KeyParams) enumerates every parameter record (thorough: the full dependent product, "
          "43k records; quick: boundary-thinned, 7.5k); the REAL constructors, serializers and parsers are executed on every record "
          "and on keys of every kind x material class {random, all-zero, leading-zero, id 2^32-1, id 0; RSA: unbalanced primes both ways, dp / dq / qInv with one and two leading zero bytes, short d}, each also put into a handle whose KeysetInfo() / String() must not panic, through "
          "internal/protoserialization (verif bridge) and through Manager.AddKey + cleartext binary/JSON write/read. "
          "Trace_KeyParams.tla judges every record: Equal both ways, byte-identical re-serialization, type URL, material type, "
          "variant <-> output prefix type, id requirement, and -- with a protobuf wire decoder written in TLA+ (KeyFormatWire.tla, "
          "field tables transcribed from proto/*.proto) -- that every parameter sits at its documented proto field. KeysetIO.tla "
          "models handle -> proto keyset -> writer (binary|JSON x cleartext|encrypted(kek, ad)|noSecrets) -> reader; it is model "
          "checked (85k / 991k states) and every writer x reader pair (16 x 16) is executed on TLC-generated keysets (catalog "
          "singles with ids 0 / 2^32-1, all ordered pairs with DISABLED / DESTROYED keys, all material-type sequences, seeded "
          "random); Trace_KeysetIO.tla judges projections, Public() and primitive interoperability (aead, daead, mac, prf, "
          "signature, hybrid) between original and re-read handle."),
    note=("Key material is sampled by class, not enumerated. The wire-level field check covers key templates of 23 key types (not "
          "ECIES / composite / deriver nested templates, not the key messages). KeysetIO keysets use 26 catalog keys, not every "
          "key type. Known findings (KNOWN_FINDINGS.json): JWT CustomKID parameters are not representable in a key template; "
          "ML-DSA VariantNoPrefixWithPrehashID keysets cannot be read back. Hook: testing/verifhooks/protoserialization.go."),
    technique=("TLA+ inventory + TLC-generated cases replayed into real code + TLC trace validation (incl. a TLA+ protobuf wire "
               "decoder) + TLC model checking of the keyset I/O state machine + negative controls"),
    design_ref="DESIGN.md section 6, C12; Appendix A",
)
