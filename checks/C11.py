"""C11 - Keyset manager keeps keysets well-formed under any operation history.

(M) exhaustive TLC model checking of spec/sys/KeysetManager.tla (invariants + action properties);
(R) every transition of a bounded state graph written out by TLC is executed on real keyset.Manager
    objects (transition tour) and (T) seeded random histories are executed too; both kinds of
    execution are recorded and validated step by step by TLC against the same actions."""
import json
import os
from collections import defaultdict, deque


def build_plan(edges_path, plan_path, rng, max_len=60):
    """Transition tour of the dumped graph: BFS-tree path to an uncovered edge, then greedy extension
    along uncovered edges. Returns (n_states, n_edges, n_scenarios, n_steps)."""
    succ = defaultdict(list)      # state key -> list of (edge id)
    edges = []
    inits = {}
    for line in open(edges_path):
        line = line.strip()
        if not line:
            continue
        e = json.loads(json.loads(line))
        pk = json.dumps(e["pre"], sort_keys=True)
        qk = json.dumps(e["post"], sort_keys=True)
        edges.append((pk, e["res"], qk, e))
        succ[pk].append(len(edges) - 1)
        if all(not m["entries"] and not m["unavail"] for m in e["pre"]["mgr"]):
            inits[pk] = e["pre"]
    # BFS tree
    parent = {k: None for k in inits}
    dq = deque(inits)
    while dq:
        s = dq.popleft()
        for ei in succ.get(s, []):
            q = edges[ei][2]
            if q not in parent:
                parent[q] = ei
                dq.append(q)
    covered = [False] * len(edges)

    def tree_path(s):
        p = []
        while parent[s] is not None:
            p.append(parent[s])
            s = edges[parent[s]][0]
        return p[::-1]

    def step_of(ei):
        pk, res, qk, e = edges[ei]
        st = dict(op=res["op"], m=res["m"], id=res["id"], h=res["h"], withReq=False, burn=[])
        if res["op"] == "AddRandom":
            st["withReq"] = e["post"]["mgr"][res["m"] - 1]["entries"][-1]["req"] != 0
        if res["op"] == "AddFail":
            pre_u = set(e["pre"]["mgr"][res["m"] - 1]["unavail"])
            st["burn"] = [u for u in e["post"]["mgr"][res["m"] - 1]["unavail"] if u not in pre_u]
        return st

    order = list(range(len(edges)))
    rng.shuffle(order)
    n_sc = n_steps = 0
    with open(plan_path, "w") as out:
        for ei in order:
            if covered[ei] or edges[ei][0] not in parent:
                continue
            path = tree_path(edges[ei][0]) + [ei]
            cur = edges[ei][2]
            while len(path) < max_len:
                nxt = [x for x in succ.get(cur, []) if not covered[x] and x not in path]
                if not nxt:
                    break
                x = nxt[0]
                path.append(x)
                cur = edges[x][2]
            for x in path:
                covered[x] = True
            first = json.loads(edges[path[0]][0])
            ext = first["handles"][0] if first["handles"] else None
            out.write(json.dumps(dict(ext=ext, steps=[step_of(x) for x in path])) + "\n")
            n_sc += 1
            n_steps += len(path)
    reach = sum(1 for e in edges if e[0] in parent)
    return len(parent), reach, sum(covered), n_sc, n_steps


def apalache_inductive(ctx):
    """The C11 core is an INDUCTIVE invariant of the sequence-based model from ANY state satisfying it (ids 1..5,
    <= 5 entries), checked symbolically by Apalache; a mutated SetPrimary (keeps the old primary) must be refuted."""
    import shutil, subprocess, re
    src = os.path.join(os.path.dirname(os.path.dirname(os.path.abspath(__file__))), "spec", "proofs", "KeysetManagerApa.tla")
    d = os.path.join(ctx.scratch, "apa")
    os.makedirs(d, exist_ok=True)
    shutil.copy(src, d)
    mut = open(src).read().replace("MODULE KeysetManagerApa", "MODULE KeysetManagerApaMut").replace(
        "!.primary = (entries[i].id = id)", "!.primary = (entries[i].primary \\/ entries[i].id = id)")
    open(os.path.join(d, "KeysetManagerApaMut.tla"), "w").write(mut)

    def run(mod, init, length):
        try:
            r = subprocess.run(["apalache-mc", "check", "--init=" + init, "--inv=IndInv", "--length=%d" % length, mod + ".tla"],
                               cwd=d, capture_output=True, text=True, timeout=900)
        except subprocess.TimeoutExpired:
            ctx.infra("apalache timeout on " + mod)
        m = re.search(r"The outcome is: (\w+)", r.stdout + r.stderr)
        return m.group(1) if m else "Unknown:" + (r.stdout + r.stderr)[-400:]
    o1, o2, o3 = run("KeysetManagerApa", "Init", 0), run("KeysetManagerApa", "IndInit", 1), run("KeysetManagerApaMut", "IndInit", 1)
    if o1 != "NoError" or o2 != "NoError":
        ctx.infra("Apalache: IndInv is not inductive on the model (%s / %s)" % (o1, o2))
    if o3 == "NoError":
        ctx.infra("Apalache: the mutated model was not refuted (inductiveness check is vacuous)")
    ctx.stage("P:Apalache inductive invariant (ids 1..5, <=5 entries, from any state)", init=o1, step=o2, mutated_model=o3)
    ctx.log("Apalache: IndInv inductive (init %s, step %s; mutated SetPrimary: %s)" % (o1, o2, o3))


def corrupt(ev, rng):
    if ev["ev"] == "reset":
        return None
    ev = json.loads(json.dumps(ev))
    choice = rng.randrange(3)
    if choice == 0:
        ev["err"] = not ev["err"]
        ev["_corrupted"] = "err"
        return ev
    es = ev["st"]["entries"]
    if choice == 1 and es:
        e = rng.choice(es)
        e["primary"] = not e["primary"]
        ev["_corrupted"] = "st.entries.primary"
        return ev
    if choice == 2 and es:
        e = rng.choice(es)
        e["status"] = "DISABLED" if e["status"] != "DISABLED" else "ENABLED"
        ev["_corrupted"] = "st.entries.status"
        return ev
    return None


def signature(m):
    e = m["event"]
    return "keyset.Manager/%s %s" % (e["ev"], m["bad"][0])


def run(ctx):
    ctx.cov["rule"] = ("(M) all reachable states of KeysetManager.tla within the stated constants; (R) one real execution per "
                       "transition of the bounded graph (transition tour, model ids mapped to real ids incl. 0 and 2^32-1, "
                       "scripted id draws force the collision/redraw path); (T) seeded random histories of 50-200 calls over "
                       "<= 12 ids, 1-3 managers, external handles with DISABLED/DESTROYED keys; every call's result, the "
                       "manager's entries/unavailable ids and every live handle are compared with the specification by TLC")
    ctx.assumptions += ["exhaustive only within the model constants (ID = 1..3, <= 3 entries, <= 2 handles)",
                        "DESTROYED keys enter a manager only through an externally read handle (public API)"]
    # ---------------- (M)
    if ctx.thorough:
        ctx.model_check("MC_KeysetManager", "MC_KeysetManager", stage="M:one manager, ID=1..3, <=3 entries, <=2 handles, ext<=2", timeout=5400)
    ctx.model_check("MC_KeysetManager", "MC_KeysetManager_quick", stage="M:one manager, ID=1..3, <=3 entries, <=1 handle, ext<=1")
    ctx.model_check("MC_KeysetManager", "MC_KeysetManager_two", stage="M:two managers (isolation), ID=1..2, <=2 entries")
    if ctx.thorough and not ctx.replay:
        # beyond the bound: KeysetManager refines the set-based abstraction (TLC), whose invariant TLAPS proves
        # for an arbitrary id set and unbounded keysets
        ctx.model_check("MC_KeysetManagerRefine", stage="M:refinement of KeysetManagerAbs (ID=1..3, <=3 entries)", workers=16,
                        timeout=3600)
        import shutil, subprocess, re
        d = os.path.join(ctx.scratch, "tlaps")
        os.makedirs(d)
        shutil.copy(os.path.join(os.path.dirname(os.path.dirname(os.path.abspath(__file__))), "spec", "proofs", "KeysetManagerAbs.tla"), d)
        try:
            r = subprocess.run(["tlapm", "--threads", "8", "--cleanfp", "KeysetManagerAbs.tla"], cwd=d, capture_output=True, text=True, timeout=1200)
        except subprocess.TimeoutExpired:
            ctx.infra("tlapm timeout")
        m = re.search(r"All (\d+) obligations proved", r.stdout + r.stderr)
        if not m:
            ctx.infra("TLAPS proof of KeysetManagerAbs failed: " + (r.stdout + r.stderr)[-1500:])
        ctx.stage("P:TLAPS KeysetManagerAbs (arbitrary ID, unbounded)", obligations=int(m.group(1)), discharged=int(m.group(1)))
        ctx.log("TLAPS: all %s obligations proved" % m.group(1))
    if not ctx.replay:
        apalache_inductive(ctx)
    drv = ctx.go_build("c11")
    if ctx.replay:
        obj = json.load(open(ctx.replay))
        trace = os.path.join(ctx.scratch, "replay.ndjson")
        # the replay file carries the scenario in model terms; re-execute it on the current tree
        plan = os.path.join(ctx.scratch, "replay.plan")
        open(plan, "w").write(json.dumps(obj["scenario"]) + "\n")
        ctx.run([drv, "-out", trace, "-plan", plan])
        mism, n = ctx.validate_events("Trace_KeysetManager", trace, reset="reset")
        for m in mism:
            ctx.violation("replay", "%s (spec: %s)" % (m["bad"][0], m["bad"][1:]), dict(event=m["event"]))
        return
    # ---------------- (R) transition tour
    edges = os.path.join(ctx.scratch, "edges.ndjson")
    r = ctx.tlc("MC_KeysetManager", "MC_KeysetManager_plan", workers=1, heap="4g", env={"VERIF_EDGES": edges})
    if not r.ok:
        raise ctx.infra("plan graph: %s" % (r.error or r.summary()))
    plan = os.path.join(ctx.scratch, "plan.ndjson")
    ns, ne, cov, nsc, nst = build_plan(edges, plan, ctx.rng)
    if cov != ne:
        ctx.infra("transition tour covers %d of %d edges" % (cov, ne))
    ctx.stage("R:plan", graph_states=ns, graph_edges=ne, edges_covered=cov, scenarios=nsc, steps=nst)
    ctx.log("plan: %d states, %d edges -> %d scenarios, %d steps" % (ns, ne, nsc, nst))
    tr1 = os.path.join(ctx.scratch, "c11-plan.ndjson")
    ctx.run([drv, "-out", tr1, "-plan", plan])
    mism, n1 = ctx.validate_events("Trace_KeysetManager", tr1, reset="reset", stage="R:replay of every graph edge", max_findings=3)
    scen = [json.loads(x) for x in open(plan)]
    for m in mism:
        # scenario index = number of reset events up to the mismatch
        k = sum(1 for x in open(tr1).read().splitlines()[:m["index"] + 1] if '"ev":"reset"' in x) - 1
        ctx.violation(signature(m), "%s (spec: %s)" % (m["bad"][0], m["bad"][1:]),
                      dict(event=m["event"], spec_says=m["bad"], scenario=scen[k]))
    ctx.cov["traces_validated_against_impl"] += nsc
    # ---------------- (T) random histories
    ntr = 5000 if ctx.thorough else 200
    tr2 = os.path.join(ctx.scratch, "c11-random.ndjson")
    ctx.run([drv, "-out", tr2, "-random", str(ntr)])
    mism2, n2 = ctx.validate_events("Trace_KeysetManager", tr2, reset="reset", stage="T:random histories", max_findings=3)
    for m in mism2:
        ctx.violation(signature(m), "%s (spec: %s)" % (m["bad"][0], m["bad"][1:]),
                      dict(event=m["event"], spec_says=m["bad"], note="random history; re-run with the same VERIF_SEED"))
    ctx.cov["traces_validated_against_impl"] += ntr
    lines = open(tr2).read().splitlines()
    ctx.sample(dict(scenario_from_graph=scen[0]))
    for k in (3, len(lines) // 2):
        ctx.sample(json.loads(lines[k]))
    if not mism and not mism2:
        ctx.negative_control("Trace_KeysetManager", tr2, corrupt, reset="reset")


MANIFEST = dict(
    category="model_checking",
    text=("KeysetManager.tla models keyset.Manager one action per public method (incl. the id-draw loop, error paths, handles "
          "as immutable snapshots, NewManagerFromHandle, externally read handles with DISABLED/DESTROYED keys). TLC checks the "
          "property's clauses as invariants/action properties over all reachable states within small constants (quick 30k + "
          "76k states, thorough 9M states), then every transition of a bounded state graph (6k states, 108k edges) is executed "
          "on the real Manager and seeded random histories (200 / 5000 x 50-200 calls) are executed too; TLC validates every "
          "recorded call (result, entries, unavailable ids, every live handle) against the same actions."),
    note=("Exhaustive only within the constants; conformance covers every edge of the bounded graph plus random histories. "
          "Hooks: keyset.VerifSnapshot/VerifUnavailable (observation), keyset.VerifDraw (scripted random ids). AddKeyWithOpts "
          "(internal API) is outside the listed operations."),
    technique="TLA+ state machine + TLC exhaustive model checking + transition-tour replay into real code + TLC trace validation",
    design_ref="DESIGN.md section 6, C11",
)
