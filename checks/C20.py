"""C20 - Randomized operations draw fresh, full-length randomness on every call.

(M) MC_Freshness: the incremental monitor of spec/sys/Freshness.tla equals the declarative property
    over the history (exhaustive over all short histories of a small value space) + threshold tables.
(T) harness/cmd/c20 calls every randomized key type x variant n times under ONE key, spread over two
    OS processes x two separately parsed handles x two primitive instances, and logs the complete
    outputs; Trace_Freshness.tla cuts the random fields out by the wire-format offsets
    (spec/sys/RandomFields.tla) and runs the monitors: NoRepeat after every call, the uniformity
    conditions (necessary conditions, false-alarm probability < 2^-40 per run) when a key's history ends."""
import concurrent.futures as cf
import json
import os


def _short(x, n=160):
    if isinstance(x, str) and len(x) > n:
        return x[:n] + "...(%d chars)" % len(x)
    if isinstance(x, dict):
        return {k: _short(v, n) for k, v in x.items()}
    if isinstance(x, (list, tuple)):
        return [_short(v, n) for v in list(x)[:40]]
    return x


def record(ctx, drv, only=None):
    """keys file -> two driver processes in parallel -> one trace, the calls of each key contiguous."""
    keys = os.path.join(ctx.scratch, "c20-keys.json")
    argv = [drv, "-init", keys] + (["-only", only] if only else [])
    ctx.log(ctx.run(argv).stdout.strip())
    outs = [os.path.join(ctx.scratch, "c20-p%d.ndjson" % p) for p in (0, 1)]
    with cf.ThreadPoolExecutor(2) as ex:   # two separate OS processes
        for r in ex.map(lambda p: ctx.run([drv, "-keys", keys, "-proc", str(p), "-out", outs[p]]), (0, 1)):
            ctx.log(r.stdout.strip())
    blocks = json.load(open(keys))["blocks"]
    per = {b["key"]: [] for b in blocks}
    for o in outs:
        for line in open(o):
            if line.strip():
                k = line[line.index('"key":"') + 7:]
                per[k[:k.index('"')]].append(line.strip())
    trace = os.path.join(ctx.scratch, "c20.ndjson")
    with open(trace, "w") as f:
        for b in blocks:
            f.write(json.dumps(dict(ev="reset", key=b["key"], kind=b["kind"], cfg=b["cfg"], classes=b.get("classes") or [])) + "\n")
            for x in per[b["key"]]:
                f.write(x + "\n")
            f.write(json.dumps(dict(ev="end", key=b["key"], n=len(per[b["key"]]))) + "\n")
    return trace, blocks


def judge(ctx, trace, stage):
    mism, n = ctx.validate_events("Trace_Freshness", trace, reset="reset", stage=stage, heap="4g", timeout=2400)
    lines = None
    for m in mism:
        e, bad = m["event"], m["bad"]
        if bad[0].startswith("coverage:"):
            ctx.infra("C20 trace not judgeable at event %d (%s): %s" % (m["index"], e.get("key"), bad))
        if lines is None:
            lines = open(trace).read().splitlines()
        sig = "%s %s/%s" % (e.get("key"), bad[0], bad[1] if len(bad) > 1 else "")
        first = None
        if e["ev"] == "emit":   # the earlier call with the same output, for the replay file
            for x in lines[:m["index"]][::-1]:
                if '"ev": "reset"' in x or '"ev":"reset"' in x:
                    break
                if e["out"] in x:
                    first = json.loads(x)
                    break
        ctx.violation(sig, "%s: %s" % (bad[0], " ".join(bad[1:])),
                      dict(event=_short(e, 400), earlier_call_with_same_output=_short(first, 400) if first else None,
                           spec_says=bad, only=e.get("key")))
    return mism, n


def repeat_control(ctx, trace):
    """negative control 1: one call's output replaced by the previous call's -> rejected at that call."""
    prev, last = {}, {}
    for line in open(trace):
        e = json.loads(line)
        if e["ev"] == "emit":
            if e["key"] in last and last[e["key"]][1] == e.get("aux"):   # same manager for key ids
                prev[(e["key"], e["k"], e["p"])] = last[e["key"]][0]
            last[e["key"]] = (e["out"], e.get("aux"))

    def corrupt(ev, rng):
        if ev["ev"] != "emit" or (ev["key"], ev["k"], ev["p"]) not in prev:
            return None
        ev = dict(ev)
        ev["out"] = prev[(ev["key"], ev["k"], ev["p"])]
        ev["_corrupted"] = "out := output of the previous call"
        return ev
    ctx.negative_control("Trace_Freshness", trace, corrupt, reset="reset", stage="NC:repeated output")


def stuck_bit_control(ctx, trace, blocks):
    """negative control 2: in one key's history one bit of a uniform field is forced to 0 in every call ->
    no call is rejected, the history is rejected at its end event by the bit monitor."""
    cands = [b for b in blocks if b["kind"] in ("aead", "stream", "keyid")]
    b = ctx.rng.choice(cands)
    off = {"aead": 0 if b["cfg"].get("variant") == "NO_PREFIX" else 5, "stream": 1, "keyid": 0}[b["kind"]]
    pos = off + ctx.rng.randrange(4)
    bit = ctx.rng.randrange(8)
    # either in every call, or only in the calls of ONE input class (then only that sub-history is rejected)
    only_cls = None
    if b.get("classes") and b["n"] // len(b["classes"]) >= 64 and ctx.rng.randrange(3) > 0:
        only_cls = ctx.rng.choice(b["classes"])
    sub, on = [], False
    for line in open(trace):
        e = json.loads(line)
        if e["ev"] == "reset":
            on = e["key"] == b["key"]
        if on:
            if e["ev"] == "emit" and (only_cls is None or e.get("cls") == only_cls):
                raw = bytearray.fromhex(e["out"])
                raw[pos] &= 0xFF ^ (1 << bit)
                e["out"] = raw.hex()
            sub.append(json.dumps(e))
    p = os.path.join(ctx.scratch, "nc-stuck.ndjson")
    open(p, "w").write("\n".join(sub) + "\n")
    r = ctx.tlc("Trace_Freshness", env=dict(VERIF_TRACE=p, VERIF_START=1), workers=1, heap="4g")
    got = (r.last_state or {}).get("l")
    bad = (r.last_state or {}).get("bad") or []
    # a cleared bit can also create a repeat in a short field only with negligible probability; the end event is the last line
    if (not r.invariant or got != len(sub) + 1 or not bad or "never changes" not in bad[0]
            or (only_cls is not None and ("input class " + only_cls) not in bad[2])):
        ctx.infra("negative control (stuck bit %d of byte %d in %s, class %s) not rejected at the end event: %s l=%s bad=%s"
                  % (bit, pos, b["key"], only_cls, r.summary(), got, bad))
    ctx.stage("NC:stuck bit", key=b["key"], byte=pos, bit=bit, input_class=only_cls or "all", rejected_at="end", diagnosis=bad)
    ctx.log("negative control: stuck bit rejected at the end of the history (%s)" % bad[2])


def run(ctx):
    ctx.cov["rule"] = ("every randomized key type x variant of conc.Targets (AEAD: AES-GCM, AES-CTR-HMAC, AES-GCM-SIV, ChaCha20/"
                       "XChaCha20-Poly1305, X-AES-GCM; streaming AES-GCM-HKDF / AES-CTR-HMAC; HPKE with all 7 KEMs; ECIES over 3 curves x "
                       "point formats x DEMs; ECDSA, RSA-PSS, ML-DSA, SLH-DSA (fast sets), composite ML-DSA, pre-hash ML-DSA-44/65/87 "
                       "(signprehash.NewPrehashSigner), JWT ES256/384/512, PS256(/384/512), ML-DSA-65(/87); the entry points over raw keys: "
                       "aesgcm.NewAEAD, aead/subtle NewAESGCM / NewAESGCMSIV / NewChaCha20Poly1305 / NewXChaCha20Poly1305 / "
                       "NewEncryptThenAuthenticate / NewAESCTR, aead.NewKMSEnvelopeAEAD2 (both nonces), streamingaead/subtle "
                       "NewAESGCMHKDF / NewAESCTRHMAC, signature/subtle.NewECDSASigner, hybrid/subtle.NewECIESAEADHKDFHybridEncrypt; "
                       "Manager.Add / AddNewKeyFromParameters / NewHandle key ids; key generation of every key type) is called n times "
                       "under one key (n = 512 quick / 4096 thorough; fewer where only no-repeat is claimed and a call is slow or large), the "
                       "inputs rotating through classes (plaintext / message / stream length 0, 1, 15, 16, 17, 100; AD / context nil, "
                       "empty, short) with the monitors also run per class sub-history; key ids also across Delete and through the scripted draw loop "
                       "(keyset.VerifDraw: a draw colliding with a live id, a deleted id, several in a row; every draw is logged: the id "
                       "handed out must be the LAST draw and every earlier draw unavailable; AddKey requiring a deleted id is refused) "
                       "across 2 OS processes x 2 handles x 2 primitive instances; every output is an event judged by TLC")
    ctx.assumptions += ["uniformity is checked through necessary conditions only (every bit toggles, every byte position shows "
                        ">= MinDistinct(n) values, XOR of two random regions of one output is itself random); a bias keeping all of "
                        "them is not detected",
                        "thresholds give a false-alarm probability < 2^-40 per run for a truly uniform source (Freshness.tla)",
                        "schedules/instances sampled: 2 processes x 2 handles x 2 instances per key"]
    ctx.model_check("MC_Freshness", "MC_Freshness" if ctx.thorough else "MC_Freshness_quick",
                    workers=8 if ctx.thorough else 1, heap="4g",
                    stage="M:incremental monitor = declarative property over every history of <= %d calls" % (4 if ctx.thorough else 3))
    drv = ctx.go_build("c20")
    only = None
    if ctx.replay:
        only = json.load(open(ctx.replay)).get("only")
    trace, blocks = record(ctx, drv, only)
    mism, n = judge(ctx, trace, "T:freshness monitors over recorded outputs")
    ctx.cov["traces_validated_against_impl"] += len(blocks)
    ctx.cov["events"] = n
    ctx.stage("T:histories", keys=len(blocks), calls=n - 2 * len(blocks),
              by_kind={k: sum(1 for b in blocks if b["kind"] == k) for k in sorted({b["kind"] for b in blocks})})
    lines = open(trace).read().splitlines()
    for k in (1, len(lines) // 3, 2 * len(lines) // 3):
        ctx.sample(json.loads(lines[k]))
    if ctx.replay or mism:
        return
    repeat_control(ctx, trace)
    stuck_bit_control(ctx, trace, blocks)


MANIFEST = dict(
    category="model_checking",
    text=("Freshness.tla is a monitor state machine over the history of one key (set of values seen per random field, repeat "
          "count, per byte position the set of byte values; bit flags derived); RandomFields.tla gives the wire-format offsets "
          "of the random regions (reusing AEADWire/HPKE/ECIES/OutputPrefix). TLC first checks exhaustively on small scopes that "
          "the incremental monitor equals the declarative property over the history, then validates traces recorded from the "
          "real code: every randomized key type x variant called 512 (quick) / 4096 (thorough) times under one key across 2 OS "
          "processes x 2 handles x 2 primitive instances, the last instance called from 4 goroutines at once (33k / 270k outputs, "
          "153 / 165 key histories incl. the pre-hash signing path, JWT signers and every constructor over raw keys). NoRepeat (IV/nonce/salt||IV/"
          "header/encapsulation/signature/generated key/(manager, key id)) is an invariant after every call; at the end of a "
          "history every bit of every uniform field must have toggled, every byte position must show >= MinDistinct(n) values, "
          "and the XOR of two random regions of one output must itself look random. The calls rotate through input classes "
          "(empty / 1 / 15 / 16 / 17 / 100-byte plaintexts, messages, streams; nil / empty / short AD); every class sub-history of "
          ">= 64 calls is monitored on its own, so an input-dependent fast path that skips the draw is seen. Ids handed out by "
          "one manager must stay pairwise distinct across Delete, and with scripted colliding draws the id handed out must be the "
          "last value of the random source (Freshness!DrawVerdict), never a value derived from a taken id."),
    note=("Conformance on sampled histories, not a proof. 'Uniformly distributed' is a distributional claim: the specification "
          "can only state NECESSARY conditions with a bounded false-alarm rate (< 2^-40 per run for a truly uniform source; "
          "calculation in Freshness.tla: union bound for repeats, exact occupancy recurrence for distinct byte values) and evaluate "
          "them on observed histories; a bias that keeps all 256 values per byte and toggles all bits is not detected. Short "
          "fields (7-byte nonce prefix, 8-byte salt, 4-byte ids across managers) get a repeat budget instead of 0. "
          "SLH-DSA: fast parameter sets only; signatures/encapsulations/keys are checked for no-repeat only."),
    technique="TLA+ monitor state machine + TLC bounded model checking of the monitor + TLC trace validation of recorded real-code outputs, two negative controls",
    design_ref="DESIGN.md section 6, C20",
)
