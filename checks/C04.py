"""C04 - MAC tags are the standard HMAC/AES-CMAC values and only those verify."""
import json


def corrupt(ev, rng):
    ev = dict(ev)
    if ev["ev"] == "compute" and ev["out"]:
        i = rng.randrange(len(ev["out"]))
        ev["out"] = ev["out"][:i] + ("0" if ev["out"][i] != "0" else "1") + ev["out"][i + 1:]
        ev["out2"] = ev["out"]
        ev["_corrupted"] = "out"
        return ev
    if ev["ev"] == "verify" and ev["ok"] in (True, False):
        ev["ok"] = not ev["ok"]
        ev["_corrupted"] = "ok"
        return ev
    return None


def run(ctx):
    ctx.cov["rule"] = ("events = real ComputeMAC/VerifyMAC calls over hash x key size x tag size x variant x key id x route "
                       "(keyset factory, subtle) x message length (every length 0..40 quick / 0..100 thorough plus block "
                       "multiples up to 4096) x content class x tag/message mutation; each event judged by TLC against "
                       "MACTag.tla (RFC 4493 transcribed in TLA+ over the JDK AES block; RFC 2104 = JDK HMAC)")
    ctx.assumptions += ["AES block cipher and HMAC/SHA are the JDK's (independent of Go's standard library)",
                        "forgery resistance is checked on enumerated mutations, not on all byte strings"]
    drv = ctx.go_build("c04")
    trace = ctx.scratch + "/c04.ndjson"
    if ctx.replay:   # re-execute exactly the recorded case against the current tree and re-judge it
        ctx.run([drv, "-out", trace, "-replay", ctx.replay])
        mism, n = ctx.validate_events("Trace_MAC", trace)
        for m in mism:
            ctx.violation("replay", "%s (spec expected %s)" % (m["bad"][0], m["bad"][1:]), dict(event=m["event"], spec_says=m["bad"]))
        return
    r = ctx.run([drv, "-out", trace])
    ctx.log(r.stdout.strip())
    mism, n = ctx.validate_events("Trace_MAC", trace, max_findings=4)
    ctx.cov["traces_validated_against_impl"] += 1
    ctx.cov["events"] = n
    lines = open(trace).read().splitlines()
    for k in (5, len(lines) // 2, len(lines) - 1):
        ctx.sample(json.loads(lines[k]))
    for m in mism:
        e = m["event"]
        sig = "%s/%s/%s/%s %s" % (e.get("route"), e.get("alg"), e.get("variant"), e["ev"], m["bad"][0])
        ctx.violation(sig, "%s (spec expected %s)" % (m["bad"][0], m["bad"][1:]), dict(event=e, spec_says=m["bad"]))
    if not mism:
        ctx.negative_control("Trace_MAC", trace, corrupt)


MANIFEST = dict(
    category="model_checking",
    text=("Every recorded ComputeMAC/VerifyMAC call of the real code (80k quick / ~1M thorough events over all hashes, "
          "key sizes, tag sizes, variants, key ids, routes, every message length 0..100 and block multiples, systematic tag "
          "and message mutations) is judged by TLC against an executable TLA+ reference (RFC 4493 transcribed over an "
          "uninterpreted AES block bound to the JDK; RFC 2104 bound to the JDK's HMAC). Conformance, not a proof: the "
          "quantifier over messages is covered by exhaustive small lengths plus boundary classes."),
    note=("Trusted: JDK AES/HMAC/SHA providers, TLC, the TLA+ transcription of RFC 4493 (gated by RFC vectors in "
          "bin/setup selfspec). Forgery rejection is checked on enumerated mutations only."),
    technique="TLA+ reference spec (RFC 4493/2104) + TLC trace validation of recorded real-code calls, negative control",
    design_ref="DESIGN.md section 6, C04",
)
