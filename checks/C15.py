"""C15 - PRFs are deterministic, prefix-consistent and equal to HMAC / HKDF / AES-CMAC."""
import collections
import json
import os

import vlib


def _shuffle(ctx, trace):
    """Events are independent: interleave the classes so that the TLC shards carry equal work."""
    import random
    lines = open(trace).read().splitlines()
    random.Random(ctx.seed).shuffle(lines)
    open(trace, "w").write("\n".join(lines) + "\n")

DIGEST = {"SHA1": 20, "SHA224": 28, "SHA256": 32, "SHA384": 48, "SHA512": 64}


def _flip_hex(h, rng):
    i = rng.randrange(len(h))
    return h[:i] + ("0" if h[i] != "0" else "1") + h[i + 1:]


def _shapes(ctx):
    """(R) spec -> code: TLC enumerates EVERY well-formed keyset shape (status x key-type class x primary position) of up
    to 3 (quick) / 4 (thorough) keys from PRFSet!WellFormed; the driver instantiates each with real keys."""
    path = os.path.join(ctx.scratch, "shapes.ndjson")
    r = ctx.tlc("Plan_KeysetShapes", env=dict(VERIF_SHAPES=path, VERIF_MAXKEYS=4 if ctx.thorough else 3, VERIF_TYPES=3),
                workers=1, timeout=1200)
    if not r.ok or not os.path.exists(path):
        raise vlib.Infra("Plan_KeysetShapes failed: %s" % (r.error or r.out[-1500:]))
    n = sum(1 for x in open(path) if x.strip())
    ctx.stage("R:Plan_KeysetShapes", shapes=n, max_keys=4 if ctx.thorough else 3)
    ctx.add_states(r)
    return path, n


def corrupt(ev, rng):
    ev = dict(ev)
    k = ev["ev"]
    if k in ("compute", "setcompute", "hkdf") and ev["ok"] and ev["out"]:
        ev["out"] = _flip_hex(ev["out"], rng)
        ev["out2"] = "=" if ev["out2"] == "=" else ev["out"]
        ev["_corrupted"] = "out"
        return ev
    if k == "compute" and not ev["ok"] and not ev["panic"]:
        ev["ok"] = True
        ev["_corrupted"] = "ok"
        return ev
    if k == "sweep" and not ev["err"]:
        outs = list(ev["outs"])
        i = rng.randrange(1, len(outs))
        outs[i] = _flip_hex(outs[i], rng)
        ev["outs"] = outs
        ev["_corrupted"] = "outs[%d]" % i
        return ev
    if k == "prefix" and ev["n"] > 0:
        ev["outN"] = _flip_hex(ev["outN"], rng)
        ev["_corrupted"] = "outN"
        return ev
    if k == "set" and not ev["err"]:
        if rng.random() < 0.5 or not ev["ids"]:
            ev["primaryId"] = "%08x" % ((int(ev["primaryId"], 16) + 1) % 2 ** 32)
            ev["_corrupted"] = "primaryId"
        else:
            ev["ids"] = ev["ids"][1:]
            ev["_corrupted"] = "ids"
        return ev
    return None


def _sig(e, bad):
    k = e["ev"]
    if k in ("compute", "sweep", "prefix"):
        cls = ""
        if k == "compute":
            mx = 16 if e["alg"] == "CMAC" else DIGEST.get(e["hash"], 0) * (255 if e["alg"] == "HKDF" else 1)
            cls = "n>max" if e["n"] > mx else ("n=max" if e["n"] == mx else "n<max")
        return "prf/%s/%s/%s/%s %s %s" % (e.get("route"), e["alg"], e.get("hash"), k, cls, bad[0])
    if k in ("set", "setcompute"):
        return "prf.NewPRFSet/%s %s %s" % (k, "primary" if e.get("id") == "primary" else "byid" if k == "setcompute" else "", bad[0])
    return "subtle.ComputeHKDF/%s %s" % (e.get("hash"), bad[0])


def _coverage(ctx, trace, n_shapes):
    """Coverage expectations: exit 2 when the enumeration is broken or the model of what the library accepts is
    out of date; never a verdict about the code."""
    c = collections.Counter()
    hk_in_range_refused = None
    planned = 0
    repeats = 0
    enclosed = 0
    walks = 0
    for line in open(trace):
        e = json.loads(line)
        if "inIntact" not in e:
            raise vlib.Infra("C15: event without inIntact: %s" % e["ev"])
        enclosed += e["ev"] == "compute" and e.get("kind") == "enclosed-whole"
        repeats += e["ev"] == "compute" and e.get("kind") == "repeat"
        walks += e["ev"] == "compute" and e.get("kind") == "walk"
        planned += e["ev"] == "set" and e.get("route") == "plan"
        c[(e["ev"], e.get("alg", e.get("hash", "")))] += 1
        if e["ev"] == "hkdf" and e["hash"] in DIGEST and not e["ok"] and not e["panic"] and 10 <= e["n"] <= 255 * DIGEST[e["hash"]]:
            hk_in_range_refused = e
        if e["ev"] == "sweep":
            mx = 16 if e["alg"] == "CMAC" else DIGEST[e["hash"]]
            if not e["err"] and not e["panic"] and len(e["outs"]) != mx + 1:
                raise vlib.Infra("C15: sweep does not cover 0..max")
    if enclosed == 0:
        raise vlib.Infra("C15: enclosing-buffer sequence never executed")
    if walks == 0:
        raise vlib.Infra("C15: no PRF object walked through the input-length classes in both directions")
    if repeats == 0:
        raise vlib.Infra("C15: no computation repeated after buffer reuse / scribbling")
    if planned != n_shapes:
        raise vlib.Infra("C15: %d of the %d keyset shapes enumerated by TLC were executed" % (planned, n_shapes))
    ctx.cov["keyset_shapes_executed"] = "%d/%d" % (planned, n_shapes)
    for alg in ("HMAC", "CMAC"):
        if c[("sweep", alg)] == 0:
            raise vlib.Infra("C15: no sweep over %s" % alg)
    for k in (("compute", "HKDF"), ("prefix", "HKDF"), ("set", ""), ("setcompute", "")):
        if c[k] == 0:
            raise vlib.Infra("C15: event class %s never executed" % (k,))
    for h in DIGEST:
        if c[("hkdf", h)] == 0:
            raise vlib.Infra("C15: ComputeHKDF never executed for %s" % h)
    if hk_in_range_refused is not None:
        # the statement only constrains returned output; a refusal inside 10..255*hLen means the model of the helper's
        # domain is out of date (DESIGN section 4: coverage expectation)
        raise vlib.Infra("C15: subtle.ComputeHKDF refused a length inside its documented domain: %s"
                         % json.dumps(vlib._shorten(hk_in_range_refused)))
    ctx.cov["event_classes"] = {"%s:%s" % k: v for k, v in sorted(c.items())}


def run(ctx):
    ctx.cov["rule"] = (
        "events = real ComputePRF calls over route (prf.NewPRFSet on keysets of hmacprf/hkdfprf/aescmacprf keys, prf/subtle "
        "constructors) x hash x key size x salt class (nil, empty, short, hLen zeros, hLen, hLen+-1, long) x input length "
        "class (0..4096 around hash-block and padding boundaries) x content class; for HMAC/CMAC every output length "
        "0..max in one sweep plus max+1, max+2, 2max, 2^16, 2^31, 2^32-1; for HKDF the boundary set {0,1,hLen-1,hLen,hLen+1,"
        "2hLen+-1,254hLen,255hLen-1,255hLen,255hLen+1,...} plus a sample (every length 0..3hLen+1 thorough); prefix law on "
        "pairs of real outputs; PRF sets over EVERY keyset shape TLC enumerates (Plan_KeysetShapes: status x type class x primary position, up "
        "to 3 keys quick / 4 thorough), over generated keysets (1..5 keys, mixed types, ENABLED/DISABLED/DESTROYED, "
        "extreme ids) and over keysets the library generates from its key templates; subtle.ComputeHKDF over hash x salt{nil,empty,...} x info x key x length incl. its bounds and "
        "Wycheproof inputs. Every event judged by TLC against PRF.tla / PRFSet.tla / HKDF.tla")
    ctx.cov["buffers"] = ("every input handed to Tink (constructor keys/salts, PRF input, HKDF key/salt/info) lives in a driver-owned "
                          "reused buffer scribbled over after every constructor and call; inputs are logged from pristine copies, "
                          "outputs copied after the scribble; the earliest inputs of every PRF are recomputed at the end (kind=repeat) "
                          "and every PRF object is walked through the input-length classes growing, shrinking to empty and growing "
                          "again (kind=walk); every input has sentinel-filled spare capacity and guard zones and the trace spec judges "
                          "inIntact (input, spare capacity, guards unchanged) with the value; enclosing-buffer sequence buf[:n] then "
                          "buf[:n+k] without rewriting (kind=enclosed-*)")
    ctx.assumptions += ["HMAC/SHA and the AES block are the JDK's (independent of Go's standard library)",
                        "'all inputs' is covered by length and content classes, not exhaustively",
                        "for outputs longer than 256 bytes the driver logs '=' when the repeated call returned identical bytes"]
    drv = ctx.go_build("c15")
    trace = ctx.scratch + "/c15.ndjson"
    if ctx.replay:
        ctx.run([drv, "-out", trace, "-replay", ctx.replay])
        mism, n = ctx.validate_events("Trace_PRF", trace)
        for m in mism:
            ctx.violation("replay", "%s (spec expected %s)" % (m["bad"][0], str(m["bad"][1:])[:200]), dict(event=m["event"], spec_says=m["bad"]))
        return
    shapes, n_shapes = _shapes(ctx)
    r = ctx.run([drv, "-out", trace, "-shapes", shapes])
    ctx.log(r.stdout.strip())
    _coverage(ctx, trace, n_shapes)
    _shuffle(ctx, trace)
    lines = open(trace).read().splitlines()
    for k in (15, len(lines) // 3, len(lines) // 2, len(lines) - 300):
        ctx.sample(json.loads(lines[k]))
    # large traces are validated in pieces of <= 100k events (16 TLC shards each) to bound the JVM heaps
    mism, n, step, first = [], 0, 100000, None
    for j in range(0, len(lines), step):
        piece = ctx.scratch + "/c15-%d.ndjson" % (j // step)
        open(piece, "w").write("\n".join(lines[j:j + step]) + "\n")
        mm, k = ctx.validate_events("Trace_PRF", piece, heap="3g", max_findings=4, stage="T:Trace_PRF/%d" % (j // step))
        mism += mm
        n += k
        if first is None:
            first = piece
        else:
            os.remove(piece)
    del lines
    trace = first
    ctx.cov["traces_validated_against_impl"] += 1
    ctx.cov["events"] = n
    spec_bugs = [m for m in mism if m["bad"][0].startswith("SPEC:") or m["bad"][0] == "unknown event"]
    if spec_bugs:
        raise vlib.Infra("Trace_PRF: reference/driver inconsistency: %s" % json.dumps(vlib._shorten(spec_bugs[0]))[:1200])
    for m in mism:
        e = m["event"]
        ctx.violation(_sig(e, m["bad"]), "%s (spec expected %s)" % (m["bad"][0], str(m["bad"][1:])[:200]),
                      dict(event=e, spec_says=m["bad"]))
    if not mism:
        ctx.negative_control("Trace_PRF", trace, corrupt)


def _hkdf_kat(wy):
    evs = []
    for h in ("SHA1", "SHA256", "SHA384", "SHA512"):
        f = "hkdf_sha%s_test.json" % h[3:]
        for g in wy(f)["testGroups"]:
            for t in g["tests"]:
                evs.append(dict(ev="kat", hash=h, key=t["ikm"], salt=t["salt"], info=t["info"], n=t["size"], out=t["okm"],
                                valid=(t["result"] != "invalid"), kind="%s#%d" % (f, t["tcId"])))
    return evs


SELFSPEC = {"Trace_PRF": _hkdf_kat}

MANIFEST = dict(
    category="model_checking",
    text=("Every recorded ComputePRF / ComputePrimaryPRF call (HMAC-PRF, HKDF-PRF, AES-CMAC-PRF through prf.NewPRFSet and the "
          "prf/subtle constructors; all hashes, key sizes, salt classes, input length classes; every output length 0..max+1 "
          "for HMAC/CMAC, boundary set plus sample for HKDF), the prefix law on pairs of real outputs, the primary id / key-id "
          "map of PRF sets built from generated keysets (mixed key types, statuses, extreme ids), and every subtle.ComputeHKDF "
          "call (hash x salt nil/empty/random x info x key x length classes incl. the bounds) is judged by TLC against an "
          "executable TLA+ reference: RFC 5869 transcribed over the JDK's HMAC, RFC 4493 transcribed over the JDK AES block, "
          "RFC 2104 = JDK HMAC. Conformance, not a proof: inputs are covered by classes, output lengths exhaustively where "
          "the range is small."),
    note=("Trusted: JDK HMAC/SHA/AES providers, TLC, the TLA+ transcriptions (gated by RFC 5869 appendix A and the Wycheproof "
          "hkdf_sha1/256/384/512 vectors in bin/selfspec). A refusal of subtle.ComputeHKDF inside 10..255*hLen is treated as a "
          "stale model (exit 2), since the statement only constrains returned output."),
    technique="TLA+ reference specs (RFC 5869, RFC 4493) + PRF-set decision procedure + TLC trace validation, negative control",
    design_ref="DESIGN.md section 6, C15",
)
