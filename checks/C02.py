"""C02 - AEAD never releases plaintext for a ciphertext it did not produce.

Shares the driver (harness/cmd/c01 -prop C02), the trace spec (Trace_AEAD) and the pipeline with checks/C01.py."""
import importlib.util
import os

_p = os.path.join(os.path.dirname(os.path.abspath(__file__)), "C01.py")
_spec = importlib.util.spec_from_file_location("check_C01_shared", _p)
c01 = importlib.util.module_from_spec(_spec)
_spec.loader.exec_module(c01)


def run(ctx):
    ctx.cov["rule"] = (
        "for every configuration of C01's plan (7 key types incl. envelope and multi-key keysets x parameters x variants x "
        "routes): valid ciphertexts made by Tink's Encrypt and by the TLA+ reference (chosen nonces), then every single-bit "
        "flip (all positions on small ciphertexts, field boundaries otherwise), every truncation length, 1..17 appended "
        "bytes, dropped/prepended bytes, other variant's / other key id's / other key's prefix, stripped/added/doubled "
        "prefix, associated-data edits (flip, truncate, extend, nil/empty vs non-empty, another ciphertext's AD), swapped "
        "tag/body, zero/ones/reversed tag, spliced tag/nonce of another ciphertext of the same key, envelope: encrypted-DEK "
        "length field values around 0, |encDEK|+-1, |ct|-4, 4096/4097, 2^31, 2^32-1, little-endian, another envelope's DEK; "
        "long (>= 1 KiB body and AD) AES-GCM-SIV ciphertexts: the same difference XORed into every pair of blocks of a "
        "64-byte group of body and of AD (bulk-path POLYVAL forgeries); "
        "and byte strings of every length 0..minimum+2 (zero/random/valid prefix). Each Decrypt call is judged by TLC: "
        "accept => (ct, ad) in the produced set of the key; verdict and plaintext = reference Open; error => no plaintext; "
        "a panic anywhere is a violation")
    ctx.assumptions += c01.ASSUMPTIONS + [
        "'produced' = the pairs emitted by Tink's Encrypt in this run plus the pairs made by the TLA+ reference for the key; "
        "forgery resistance is checked on the enumerated modifications, not on all byte strings"]
    c01.pipeline(ctx, "C02")


MANIFEST = dict(
    category="model_checking",
    text=("Every recorded Decrypt call of the real AEAD code on systematically modified valid ciphertexts (Tink-made and "
          "TLA+-reference-made), modified associated data and arbitrary byte strings of every short length, over all seven "
          "key types (incl. KMS envelope framing and multi-key keysets with RAW fallback), parameters, variants, key ids and "
          "routes, is judged by TLC against the property verbatim (accept => the (ciphertext, associated data) pair is in the "
          "produced set of that key) and against the TLA+ reference's own Open (verdict and plaintext must agree; an error "
          "must come without plaintext; no panic). Conformance on an enumerated mutation space, not a proof."),
    note=("Trusted: JDK primitive providers, TLC, the TLA+ transcriptions (gated by standard vectors, see C01). Not covered: "
          "multi-bit random modifications beyond the listed classes, ciphertexts longer than ~5 kB, cryptographic forgery "
          "resistance of the primitives themselves."),
    technique=("TLA+ reference specs + produced-set invariant in the trace spec; TLC trace validation of recorded real-code "
               "Decrypt calls over an enumerated mutation plan (both Tink-made and TLC-made base ciphertexts); negative control"),
    design_ref="DESIGN.md section 6, C02",
)
