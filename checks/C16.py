"""C16 - SLH-DSA keys and signatures conform to FIPS 205 on every input (all twelve parameter sets).

Oracle: spec/pq/{SLHConv,SLHAddr,SLHParams,SLHHash,WOTS,XMSS,FORS,SLHDSA}.tla (FIPS 205 transcribed in TLA+ over
the primitives SHAKE256 / SHA-256 / SHA-512 / HMAC of the JDK binding), evaluated by TLC on every recorded call of
the real code (spec/trace/Trace_SLHDSA.tla).  The reference is gated by the known answers embedded in the
repository's own test files (read as data) and by an exhaustive toy-parameter model check (spec/mc/MC_SLHToy).
"""
import concurrent.futures as cf
import json
import os
import re
import time

import vlib

REPO_DEFAULT = "/repo"
TRACE = "Trace_SLHDSA"

SETS = {  # n, h, d, hp, a, k  (coverage/cost model only; the oracle's constants live in SLHParams.tla)
    "128s": (16, 63, 7, 9, 12, 14), "128f": (16, 66, 22, 3, 6, 33), "192s": (24, 63, 7, 9, 14, 17),
    "192f": (24, 66, 22, 3, 8, 33), "256s": (32, 64, 8, 8, 14, 22), "256f": (32, 68, 17, 4, 9, 35)}
NAMES = ["SLH-DSA-%s-%s" % (h, s) for s in ("128s", "128f", "192s", "192f", "256s", "256f") for h in ("SHA2", "SHAKE")]


# --------------------------------------------------------------------------------------------- known answers (data)
def kat_vectors():
    """Known answers embedded in the repository's tests, read as DATA: (a) internal/signature/slhdsa/
    slhdsa_kat_vectors_test.go (sphincsplus reference implementation: sk, pk, msg, ctx, deterministic signature),
    (b) signature/slhdsa/key_pairs_test.go (Tink C++ / BoringSSL: private key, public key, message, signature)."""
    base = REPO_DEFAULT   # always the pinned tree: the vectors are data, not code under test
    src = open(os.path.join(base, "internal/signature/slhdsa/slhdsa_kat_vectors_test.go")).read()
    a = []
    for m in re.finditer(r'\{\s*name:\s*"([^"]+)",\s*par:\s*\w+,\s*sk:\s*"([0-9a-f]+)",\s*pk:\s*"([0-9a-f]+)",\s*msg:\s*"([0-9a-f]*)",'
                         r'\s*ctx:\s*"([0-9a-f]*)",\s*wantSig:\s*"([0-9a-f]+)"', src):
        a.append(dict(ps=m.group(1), sk=m.group(2), pk=m.group(3), msg=m.group(4), ctx=m.group(5), sig=m.group(6), det=True,
                      src="slhdsa_kat_vectors_test.go"))
    src = open(os.path.join(base, "signature/slhdsa/key_pairs_test.go")).read()
    c = {}
    for m in re.finditer(r'(\w+Hex)\s*=\s*((?:"[0-9a-f]*"\s*\+?\s*)+)', src):
        c[m.group(1)] = "".join(re.findall(r'"([0-9a-f]*)"', m.group(2)))
    b = []
    for nm in NAMES:
        tag = nm.replace("SLH-DSA-", "").replace("-", "")
        if "privKey%sHex" % tag in c:
            # Two of these (copied from Tink C++) are pure-mode signatures with an empty context and are verified by the
            # repository's tests; the other ten ("generated using the SLH-DSA python library") are never verified there: they
            # are signatures of the INTERNAL interface (slh_sign_internal over the bare message, no M' framing).
            b.append(dict(ps=nm, sk=c["privKey%sHex" % tag], pk=c["pubKey%sHex" % tag], msg=c["msg%sHex" % tag], ctx="",
                          sig=c["sig%sHex" % tag], det=False, src="key_pairs_test.go", raw=tag not in ("SHA2128s", "SHAKE256f")))
    if len(a) != 12 or len(b) != 12:
        raise vlib.Infra("expected 12 + 12 known-answer vectors in the repository's tests, found %d + %d" % (len(a), len(b)))
    return a + b


def _ev_verify(v, ok=True, mut="kat", sig=None, msg=None):
    return dict(ev="verify", ps=v["ps"], route="internal-raw" if v.get("raw") else "kat", pk=v["pk"], msg=v["msg"] if msg is None else msg, ctx=v["ctx"],
                sig=v["sig"] if sig is None else sig, ok=ok, panic=False, mut=mut, variant="NO_PREFIX", id="00000000", src=v["src"])


def _ev_keygen(v, full=True):
    return dict(ev="keygen", ps=v["ps"], route="kat", seeds="", sk=v["sk"], pk=v["pk"], panic=False, full=full, src=v["src"])


def _ev_sign(v, mode, piece=0):
    return dict(ev="sign", ps=v["ps"], route="kat", sk=v["sk"], pk=v["pk"], msg=v["msg"], ctx=v["ctx"], sig=v["sig"], det=True, same=True,
                err=False, panic=False, mode=mode, piece=piece, variant="NO_PREFIX", id="00000000", src=v["src"])


def _flip_hex(h, pos):
    return h[:pos] + ("0" if h[pos] != "0" else "1") + h[pos + 1:]


def gate_events(level):
    """level 0 (bin/selfspec, every quick run): all 24 pk/sig pairs verify, a modified one does not, PK.root of the six f
    sets is reproduced from the seeds, the two 128f deterministic signatures are reproduced byte for byte.
    level 1 (thorough): PK.root for all 24 keys, every deterministic KAT signature reproduced (f: whole, s: piece by piece)."""
    evs = []
    for v in kat_vectors():
        fast = v["ps"].endswith("f")
        evs.append(_ev_verify(v))
        if v["det"]:
            evs.append(_ev_verify(v, ok=False, mut="kat-sig-bit", sig=_flip_hex(v["sig"], len(v["sig"]) // 2)))
            evs.append(_ev_verify(v, ok=False, mut="kat-msg-bit", msg=_flip_hex(v["msg"], 0)))
        if fast or level >= 1:
            evs.append(_ev_keygen(v))
        if v["det"]:
            if fast and (level >= 1 or "128f" in v["ps"]):
                evs.append(_ev_sign(v, "full"))
            elif not fast and level >= 1:
                d = SETS[v["ps"][-4:]][2]
                evs += [_ev_sign(v, "piece", j) for j in range(d + 1)]
            else:
                evs.append(_ev_sign(v, "rv"))
    return evs


# --------------------------------------------------------------------------------------------- cost model, sharding
def cost(e):
    """Estimated hash calls of the reference for one event (only used to balance the parallel TLC shards)."""
    ps = e.get("ps", "")
    if ps[-4:] not in SETS:
        return {"base2b_range": 3000}.get(e["ev"], 15)
    n, h, d, hp, a, k = SETS[ps[-4:]]
    ln = 2 * n + 3
    mult = 2.2 if "SHA2" in ps else 1.0
    wots = ln * 16 + 1
    verify = k * (1 + a) + d * (ln * 8 + hp)
    xs = (2 ** hp - 1) * wots + ln * 8
    fors = k * (2 ** a) * 3
    ev = e["ev"]
    c = 15
    if ev == "verify":
        c = verify if len(e["sig"]) // 2 in (((1 + k * (1 + a) + h + d * ln) * n), ((1 + k * (1 + a) + h + d * ln) * n) + 5) else 5
    elif ev == "keygen":
        c = (2 ** hp) * wots if e["full"] else 5
    elif ev == "sign_digest":
        c = 5 if (e["err"] or e["panic"]) else {"full": fors + d * (xs + ln * 8), "fors": fors + 2 * verify}.get(e["mode"], 2 * verify)
    elif ev == "verify_digest":
        c = verify
    elif ev == "sign_internal":
        c = (fors + d * (xs + ln * 8)) if e.get("full") else 2 * verify
    elif ev == "sign":
        if e["err"] or e["panic"]:
            c = 5
        elif e["det"] and e["mode"] == "full":
            c = fors + d * (xs + ln * 8) + verify
        elif e["det"] and e["mode"] == "piece":
            c = fors if e["piece"] == 0 else xs + k * (1 + a) + e["piece"] * (ln * 8 + hp)
        else:
            c = 2 * verify
    elif ev == "split":
        c = 3 * (k + d)
    elif ev == "rootcmp":
        c = verify // 4
    return int(c * mult) + 20


def shard_by_cost(events, n):
    """Longest-processing-time-first into n bins; returns list of lists (original order inside a bin)."""
    order = sorted(range(len(events)), key=lambda i: -cost(events[i]))
    bins = [[0, []] for _ in range(n)]
    for i in order:
        b = min(bins, key=lambda x: x[0])
        b[0] += cost(events[i])
        b[1].append(i)
    return [[events[i] for i in sorted(b[1])] for b in bins if b[1]], max(b[0] for b in bins)


def validate(ctx, events, name, shards=16, timeout=2400):
    """Validate independent events with Trace_SLHDSA in `shards` cost-balanced parallel TLC processes."""
    bins, worst = shard_by_cost(events, shards)
    files = []
    for i, evs in enumerate(bins):
        p = os.path.join(ctx.scratch, "%s.%02d.ndjson" % (name, i))
        with open(p, "w") as f:
            f.write("\n".join(json.dumps(e) for e in evs) + "\n")
        files.append(p)
    mism = []

    walls = []

    def work(p):
        t = time.time()
        r = ctx.validate_events(TRACE, p, shards=1, timeout=timeout, heap="4g", stage="T:%s/%s" % (name, os.path.basename(p)))
        walls.append(round(time.time() - t, 1))
        return r

    with cf.ThreadPoolExecutor(max_workers=min(16, len(files))) as ex:    # more shards than workers: dynamic balancing
        for m, _ in ex.map(work, files):
            mism += m
    # the per-file stage entries are noise: fold them into one
    for k in [k for k in ctx.cov["stages"] if k.startswith("T:%s/" % name)]:
        del ctx.cov["stages"][k]
    ctx.stage("T:" + name, events=len(events), shards=len(files), mismatches=len(mism), est_hash_calls=sum(cost(e) for e in events),
              est_hash_calls_worst_shard=worst, shard_wall_s=sorted(walls))
    for p in files:
        os.remove(p)
    return mism


def sig_class(e):
    m = e.get("mut", "")
    return re.sub(r"/layer\d+$", "", m)


def report(ctx, mism):
    for m in mism:
        e = m["event"]
        if e.get("src"):     # a known-answer event: the data judges the reference, not the code
            raise vlib.Infra("the reference disagrees with a known answer of the repository's tests (%s %s %s): %s"
                             % (e["ev"], e["ps"], e.get("src"), m["bad"]))
        sig = "%s/%s/%s/%s %s" % (e["ev"], e.get("route", "hook"), e.get("ps", "-"), sig_class(e) or e.get("mode", ""), m["bad"][0])
        ctx.violation(sig, "%s (spec: %s)" % (m["bad"][0], [str(x)[:200] for x in m["bad"][1:]]), dict(event=e, spec_says=m["bad"]))


# --------------------------------------------------------------------------------------------- negative control
def corrupt(ev, rng):
    ev = dict(ev)
    k = ev["ev"]
    if k in ("verify", "verify_digest"):
        ev["ok"] = not ev["ok"]
        ev["_corrupted"] = "ok"
    elif k == "sign" and not ev["err"] and ev["sig"]:
        ev["sig"] = _flip_hex(ev["sig"], rng.randrange(len(ev["sig"])))
        ev["_corrupted"] = "sig"
    elif k == "keygen" and ev["full"]:
        pos = len(ev["pk"]) // 2 + rng.randrange(len(ev["pk"]) // 2)   # a hex digit of PK.root, changed in both encodings
        ev["pk"] = _flip_hex(ev["pk"], pos)
        ev["sk"] = _flip_hex(ev["sk"], pos + len(ev["pk"]))
        ev["_corrupted"] = "pk.root"
    elif k in ("base2b", "checksum", "toint", "tobyte") and ev["out"]:
        ev["out"] = _flip_hex(ev["out"], len(ev["out"]) - 1 - rng.randrange(min(4, len(ev["out"]))))
        ev["_corrupted"] = "out"
    elif k == "adrs":
        f = rng.choice(["full", "comp"])
        ev[f] = _flip_hex(ev[f], rng.randrange(len(ev[f])))
        ev["_corrupted"] = f
    elif k == "rootcmp":
        ev["ok"] = not ev["ok"]
        ev["_corrupted"] = "ok"
    elif k == "split":
        ev["digest"] = _flip_hex(ev["digest"], rng.randrange(2 * 8))   # inside md: a FORS index changes
        ev["_corrupted"] = "digest"
    else:
        return None
    return ev


# --------------------------------------------------------------------------------------------- spec -> Tink
def spec_made_signatures(ctx, kats, which):
    """(R) The SPECIFICATION signs (slh_sign_internal with a chosen addrnd, i.e. hedged signatures Tink would never
    produce itself for that randomness); the driver then asks Tink to verify them."""
    items = []
    for nm in which:
        v = [x for x in kats if x["ps"] == nm and x["det"]][0]     # key pair of the known-answer vector
        n = len(v["pk"]) // 4
        items.append(dict(ps=nm, sk=v["sk"], pk=v["pk"], msg=bytes(ctx.rng.randrange(256) for _ in range(ctx.rng.randrange(0, 40))).hex(),
                          ctx=bytes(ctx.rng.randrange(256) for _ in range(ctx.rng.choice([0, 1, 17, 255]))).hex(),
                          addrnd=bytes(ctx.rng.randrange(256) for _ in range(n)).hex()))

    def work(i):
        pin = os.path.join(ctx.scratch, "plan.%d.in.ndjson" % i)
        pout = os.path.join(ctx.scratch, "plan.%d.out.ndjson" % i)
        open(pin, "w").write(json.dumps(items[i]) + "\n")
        r = ctx.tlc("Plan_SLHDSA", env=dict(VERIF_PLAN=pin, VERIF_PLAN_OUT=pout), timeout=2400, heap="4g")
        if not r.ok or not os.path.exists(pout):
            raise vlib.Infra("Plan_SLHDSA failed for %s: %s" % (items[i]["ps"], r.error or r.out[-1500:]))
        return open(pout).read()

    with cf.ThreadPoolExecutor(max_workers=max(1, len(items))) as ex:
        outs = list(ex.map(work, range(len(items))))
    p = os.path.join(ctx.scratch, "plan.ndjson")
    open(p, "w").write("".join(outs))
    return p, len(items)


# --------------------------------------------------------------------------------------------- run
def run(ctx):
    ctx.cov["rule"] = (
        "events = real calls, all 12 parameter sets: slh_keygen_internal on seeded/zero/0xff seeds (hook) and keys generated by the "
        "keyset manager; SignDeterministic / Sign / signInternal over random messages and contexts (each message re-randomizes "
        "idx_tree, idx_leaf and every base-2^b digit); Verify on each signature and on every single-component corruption (R, FORS "
        "secret, FORS auth node, WOTS chain value and XMSS auth node per hypertree layer, length +-1/+-n, empty, message, context "
        "framing, PK.seed, PK.root, key length, swapped components); public API signer/verifier with TINK / NO_PREFIX prefixes; "
        "hook domains: base_2b on all 2^16 two-byte inputs for b = 1..16, md- and WOTS-sized inputs with walking bits, toInt/toByte, "
        "WOTS checksum for every digit sum, ADRS setter sequences with every field at 0 / max / byte probes and every type change, "
        "digest -> (FORS indices, idx_tree, idx_leaf, per-layer indices) as derived by the real verification path for walking-bit and "
        "random digests (h-h' = 64 for 256f); signInternal / verifyInternal with H_msg forced to chosen digests (real F, H, T_l, PRF): "
        "every leaf index at every hypertree layer (f sets: all 2^h' values; s sets: 0 and max, thorough 24 values), all FORS indices "
        "0 / max / boundary; the final root comparison probed with stubbed hashes on PK.root values differing in each byte. Each event "
        "is judged by TLC against FIPS 205 in TLA+; (R) signatures made by the specification with chosen addrnd are fed to Tink's verifier.")
    ctx.assumptions += [
        "SHAKE256 (own Keccak sponge self-checked against the JDK's SHA3), SHA-256/512 and HMAC are the JDK's (independent of Go)",
        "the TLA+ transcription of FIPS 205 is gated by 24 known-answer vectors from two independent implementations (sphincsplus "
        "reference code, Tink C++) embedded in the repository's tests, and by an exhaustive toy-parameter model check",
        "rejection of modifications is checked on enumerated single-component corruptions, not on all byte strings",
        "whole-signature equality with the reference: f sets always (1 quick / 3 thorough per set, plus chosen-digest signatures); s sets "
        "one signature per set piece by piece in the thorough tier, in the quick tier one XMSS layer (and SIG_FORS for n = 16). All other "
        "signatures: R, the k FORS secret values and the WOTS+ signature of every layer are compared exactly and the signature must "
        "verify; FORS authentication paths and XMSS authentication paths below the top layer of THOSE signatures are not compared "
        "(verification cannot see them: the signer signs whatever root its own lower part verifies to)",
        "ADRS 32-bit words are probed up to 2^31 - 1 (TLC integers); no parameter set uses larger values",
    ]
    drv = ctx.go_build("c16")
    trace = os.path.join(ctx.scratch, "c16.ndjson")

    if ctx.replay:   # re-execute exactly the recorded case against the current tree and re-judge it
        ctx.run([drv, "-out", trace, "-replay", ctx.replay], timeout=3000)
        evs = [json.loads(x) for x in open(trace).read().splitlines() if x.strip()]
        rec = json.load(open(ctx.replay))
        want = rec.get("event", {})
        if want.get("ev") in ("toint", "tobyte", "adrs", "split", "derived"):    # regenerated domain: keep the recorded input only
            key = {"toint": ("x", "n"), "tobyte": ("x", "n"), "adrs": ("ops",), "split": ("ps", "digest"), "derived": ("ps",)}[want["ev"]]
            evs = [e for e in evs if e["ev"] == want["ev"] and all(e[k] == want[k] for k in key)][:1]
        if not evs:
            raise vlib.Infra("replay produced no event")
        report(ctx, validate(ctx, evs, "replay", shards=min(16, len(evs))))
        return

    # ---- (gate) the reference against the repository's known answers
    level = 1 if ctx.thorough else 0
    gate = gate_events(level)
    kats = kat_vectors()

    only = os.environ.get("VERIF_C16_ONLY")     # mutation trials only: restrict the parameter sets, skip (M) and (R)
    if only:
        ctx.log("NOTE: VERIF_C16_ONLY=%s -- reduced run for a mutation trial, not evidence" % only)
        r = ctx.run([drv, "-out", trace, "-only", only], timeout=3000)
        events = [json.loads(x) for x in open(trace).read().splitlines() if x.strip()]
        report(ctx, validate(ctx, events, "c16", shards=16, timeout=2700))
        return

    # ---- (M) toy parameters and (R) specification-made signatures run beside the real-code stages
    ex = cf.ThreadPoolExecutor(max_workers=2)
    f_mc = ex.submit(lambda: ctx.model_check("MC_SLHToy", "MC_SLHToy_full" if ctx.thorough else None, stage="M:MC_SLHToy",
                                             workers=8 if ctx.thorough else 4, heap="4g", must_cover=False, timeout=3600))
    which = ["SLH-DSA-SHA2-128f", "SLH-DSA-SHAKE-128f"]
    if ctx.thorough:
        which = [n for n in NAMES if n.endswith("f")] + ["SLH-DSA-SHA2-128s", "SLH-DSA-SHAKE-128s"]
    f_plan = ex.submit(lambda: spec_made_signatures(ctx, kats, which))

    # ---- (T) real code -> specification
    r = ctx.run([drv, "-out", trace], timeout=3000)
    ctx.log(r.stdout.strip())
    events = [json.loads(x) for x in open(trace).read().splitlines() if x.strip()]
    ctx.stage("gate:known-answers", events=len(gate), level=level)
    mism = validate(ctx, gate + events, "c16", shards=64 if ctx.thorough else 32, timeout=7200 if ctx.thorough else 1800)
    ctx.cov["traces_validated_against_impl"] += 1

    # ---- (R) specification -> real code: Tink's verdict on the signatures the specification made
    plan, nplan = f_plan.result()
    ptrace = os.path.join(ctx.scratch, "c16.plan.ndjson")
    ctx.run([drv, "-out", ptrace, "-plan", plan], timeout=600)
    pevents = [json.loads(x) for x in open(ptrace).read().splitlines() if x.strip()]
    if len(pevents) != 2 * nplan:
        raise vlib.Infra("driver verified %d of %d specification-made signatures" % (len(pevents), 2 * nplan))
    ctx.stage("R:spec-made-signatures", signed_by_spec=nplan, verify_events=len(pevents), sets=which)
    mism += validate(ctx, pevents, "c16plan", shards=min(16, len(pevents)), timeout=1800)
    if any(e["mut"] == "spec-made" and not e["ok"] for e in pevents) and not mism:
        raise vlib.Infra("Tink rejected a specification-made signature but the trace spec did not flag it")
    f_mc.result()
    ex.shutdown()

    ctx.cov["events"] = len(events) + len(pevents)
    by = {}
    for e in events + pevents:
        key = e["ev"] + ("/" + e["route"] if "route" in e else "")
        by[key] = by.get(key, 0) + 1
    ctx.cov["events_by_kind"] = by
    ctx.cov["verify_verdicts"] = dict(accepted=sum(1 for e in events + pevents if e["ev"] == "verify" and e["ok"]),
                                      rejected=sum(1 for e in events + pevents if e["ev"] == "verify" and not e["ok"]))
    for e in events:
        if e["ev"] == "verify" and e["mut"] in ("none", "R") or e["ev"] in ("keygen", "split", "adrs"):
            ctx.sample(e)

    # coverage expectations (not oracles): every mutation class must be present, all twelve sets exercised
    muts = set(sig_class(e) for e in events if e["ev"] == "verify")
    for need in ("none", "R", "fors-sk", "fors-auth", "wots-chain", "xmss-auth", "len-1", "len+1", "msg-bit", "pk-seed", "pk-root"):
        if need not in muts:
            raise vlib.Infra("coverage hole: no verify event of class %s" % need)
    if set(e["ps"] for e in events if e["ev"] == "verify") != set(NAMES):
        raise vlib.Infra("coverage hole: not all twelve parameter sets were exercised")
    for nm in NAMES:     # Tink must accept its own signatures for every set (else the reject verdicts would be vacuous)
        if not any(e["ev"] == "verify" and e["ps"] == nm and e["ok"] and e["mut"] == "none" for e in events):
            if not mism:
                raise vlib.Infra("coverage hole: no accepted signature for %s" % nm)

    report(ctx, mism)
    if not mism:
        cheap = [e for e in events if cost(e) < 9000]
        nc = os.path.join(ctx.scratch, "nc.ndjson")
        ctx.rng.shuffle(cheap)
        open(nc, "w").write("\n".join(json.dumps(e) for e in cheap[:400]) + "\n")
        ctx.negative_control(TRACE, nc, corrupt, window=12)


def selfspec(wy):
    return gate_events(0)


SELFSPEC = {TRACE: selfspec}

MANIFEST = dict(
    category="model_checking",
    text=("FIPS 205 is transcribed in TLA+ (ADRS, the SHAKE and SHA2 category-1 / 3,5 function families incl. MGF1, base_2b, WOTS+, "
          "XMSS, FORS, hypertree, slh_keygen/sign/verify_internal, pure M' framing), parametric in the parameter set. TLC (M) checks on a "
          "toy parameter set that sign-then-verify holds for every digest / WOTS message / leaf, and (T) judges every recorded call of "
          "the real code for all twelve sets: keys from seeds and deterministic signatures byte-identical (f sets; s sets piecewise in "
          "the thorough tier), every produced signature verifies, Tink's Verify verdict equals the reference's on valid signatures and "
          "on every single-component corruption, wrong lengths, message / context / key modifications; hook functions (base_2b, toInt, "
          "toByte, checksum, ADRS, digest split incl. h-h'=64) on exhaustive small domains; sign/verify with forced digests reach every "
          "leaf index at every layer and boundary FORS indices on the real code; (R) specification-made signatures are accepted by "
          "Tink. Conformance on enumerated inputs, not a proof over all byte strings."),
    note=("Trusted: JDK SHA-2/HMAC, the Keccak sponge of the primitive binding (self-checked against JDK SHA3), TLC, and the TLA+ "
          "transcription, which reproduces 12 sphincsplus deterministic signatures byte for byte and verifies 12 Tink C++ signatures "
          "(known answers embedded in the repository's tests, read as data). Forgery resistance itself is not claimed."),
    technique="TLA+ reference spec (FIPS 205) + TLC trace validation of recorded real-code calls + toy-parameter model checking + replay of spec-made signatures, negative control",
    design_ref="DESIGN.md section 6, C16",
)
