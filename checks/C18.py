"""C18 - Primitives, handles and the global registries are safe for concurrent use.

(M) Concurrency.tla (a shared immutable object: Return(g) delivers Alone(op, in) whatever the other goroutines do)
    and Registry.tla (map semantics + start / linearization / end) model-checked exhaustively on small constants;
    a model WITH shared scratch state must violate the property (non-vacuity at model level).
(T) harness/cmd/c18, built WITH the Go race detector, runs G in {2, 8, 32} goroutines x K calls on one shared
    primitive / handle per key type; TLC judges every concurrent return against the same call executed alone
    (randomized results through the alone inverse) and searches linearization points for the recorded registry
    histories. The no-data-race clause is decided by the race detector attached to these same runs."""
import glob
import json
import os
import re

def _short(x, n=160):
    if isinstance(x, str) and len(x) > n:
        return x[:n] + "...(%d chars)" % len(x)
    if isinstance(x, dict):
        return {k: _short(v, n) for k, v in x.items()}
    if isinstance(x, (list, tuple)):
        return [_short(v, n) for v in list(x)[:40]]
    return x


REPO = os.environ.get("VERIF_REPO") or "/repo"


# ------------------------------------------------------------------------------------------------ race detector
def gorace(ctx, tag):
    pre = os.path.join(ctx.scratch, "race-" + tag)
    return pre, dict(GORACE="halt_on_error=0 log_path=%s" % pre)


def race_reports(prefix):
    """[(signature, text)] per report; signature = innermost tink frame of each of the two conflicting stacks."""
    out = []
    for f in sorted(glob.glob(prefix + ".*")):
        txt = open(f, errors="replace").read()
        for rep in txt.split("=================="):
            if "WARNING: DATA RACE" not in rep:
                continue
            tops = []
            rep = rep.replace("WARNING: DATA RACE\n", "", 1)
            for stack in re.split(r"\n\n", rep):
                if not re.match(r"\s*(Write|Read|Previous write|Previous read|Atomic|Previous atomic)", stack.lstrip("\n")):
                    continue
                fr = re.findall(r"\n\s+(\S+)\(.*?\)\n\s+(\S+?):(\d+)", stack)
                tink = [(fn, fl, ln) for fn, fl, ln in fr if "tink-go" in fn or fl.startswith(REPO + "/")]
                if tink:
                    fn, fl, ln = tink[0]
                    tops.append("%s (%s:%s)" % (fn.split("/")[-1], os.path.relpath(fl, REPO) if fl.startswith(REPO) else fl, ln))
                elif fr:
                    tops.append("harness:" + fr[0][0].split("/")[-1])
            out.append((" <-> ".join(sorted(set(tops))) or "unattributed", rep.strip()[:6000]))
    return out


def race_clause(ctx, prefix, what, replay):
    """A race report is recorded as an event of the run and rejected by Trace_Concurrency."""
    reps = race_reports(prefix)
    seen = {}
    for sig, txt in reps:
        seen.setdefault(sig, txt)
    for sig, txt in seen.items():
        if all(part.startswith("harness:") for part in sig.split(" <-> ")):
            ctx.infra("data race inside the harness itself (%s):\n%s" % (sig, txt[:1500]))
    if seen:
        p = os.path.join(ctx.scratch, "race-events.ndjson")
        with open(p, "w") as f:
            f.write(json.dumps(dict(ev="reset", target=what, G=0)) + "\n")
            for sig in seen:
                f.write(json.dumps(dict(ev="race", where=sig)) + "\n")
        mism, _ = ctx.validate_events("Trace_Concurrency", p, reset="reset", shards=1, stage="T:race reports of " + what)
        if len(mism) < 1:
            ctx.infra("race events not rejected by Trace_Concurrency")
        for sig, txt in seen.items():
            ctx.violation("data race " + sig, "Go race detector: conflicting unsynchronised accesses (%s)" % sig,
                          dict(report=txt, run=what, **replay))
    return len(reps)


# ------------------------------------------------------------------------------------------------ primitives
def prim_run(ctx, drv, tag, only=None, gs="2,8,32", procs=None, seed=None):
    trace = os.path.join(ctx.scratch, "c18-%s.ndjson" % tag)
    prefix, env = gorace(ctx, tag)
    if procs:
        env["GOMAXPROCS"] = str(procs)
    e = ctx.env(**env)
    if seed is not None:
        e["VERIF_SEED"] = str(seed)
    argv = [drv, "-out", trace, "-gs", gs] + (["-only", only] if only else [])
    r = ctx.run(argv, env=e, ok_codes=(0, 66), timeout=2400)
    ctx.log("%s (GOMAXPROCS=%s): %s" % (tag, procs or "default", r.stdout.strip()))
    return trace, prefix


def prim_judge(ctx, trace, tag):
    mism, n = ctx.validate_events("Trace_Concurrency", trace, reset="reset", stage="T:" + tag, heap="4g")
    lines = None
    for m in mism:
        e, bad = m["event"], m["bad"]
        if bad[0].startswith("coverage:"):
            ctx.infra("C18 trace not judgeable at event %d: %s %s" % (m["index"], bad, _short(e)))
        if lines is None:
            lines = open(trace).read().splitlines()
        k = m["index"]
        while k > 0 and '"ev":"reset"' not in lines[k]:
            k -= 1
        sc = json.loads(lines[k])
        sig = "%s/%s %s" % (sc.get("target"), e.get("op"), bad[0])
        ctx.violation(sig, "%s (G=%s; alone: %s)" % (bad[0], sc.get("G"), _short(bad[1:], 200)),
                      dict(event=_short(e, 600), spec_says=_short(bad, 600), only=sc.get("target"), G=sc.get("G")))
    return mism, n


def corrupt_conc(ev, rng):
    if ev.get("ev") != "conc" or ev.get("rand") or ev.get("err") or not ev.get("out"):
        return None
    ev = dict(ev)
    i = rng.randrange(len(ev["out"]))
    ev["out"] = ev["out"][:i] + ("0" if ev["out"][i] != "0" else "1") + ev["out"][i + 1:]
    ev["_corrupted"] = "out of a concurrent deterministic call"
    return ev


# ------------------------------------------------------------------------------------------------ registries
def registry_accept(ctx, trace, stage):
    """Linearizability of every scenario: TLC searches the linearization points (high-water mark, -workers 1,
    StateDeque). Returns the rejected lines [(index0, event)]; after a rejection resumes at the next scenario."""
    lines = [x for x in open(trace).read().splitlines() if x.strip()]
    resets = [i for i, x in enumerate(lines) if '"ev":"reset"' in x]
    start, rejected, states, gen = 1, [], 0, 0
    while start <= len(lines):
        r = ctx.tlc("Trace_Registry", env=dict(VERIF_TRACE=trace, VERIF_START=start), workers=1, deque=True, heap="4g", timeout=1800)
        states += r.distinct
        gen += r.generated
        if r.invariant:
            ctx.infra("registry log malformed: %s" % (r.last_state or {}).get("bad"))
        if r.ok and not r.postcondition_failed:
            break
        m = re.search(r'<<"HWM", (\d+)>>', r.out)
        if not r.postcondition_failed or not m:
            ctx.infra("Trace_Registry: %s" % (r.error or r.out[-1500:]))
        hw = int(m.group(1))            # 1-based line that no path could consume
        rejected.append((hw - 1, json.loads(lines[hw - 1])))
        nxt = [i for i in resets if i > hw - 1]
        if not nxt or len(rejected) >= 10:
            break
        start = nxt[0] + 1
    ctx.cov["states"] += states
    ctx.cov["transitions"] += gen
    ctx.stage(stage, log_lines=len(lines), scenarios=len(resets), states=states, rejected=len(rejected))
    return rejected, lines, resets


def scenario_of(lines, resets, idx):
    a = max(i for i in resets if i <= idx)
    b = min([i for i in resets if i > idx] + [len(lines)])
    return [json.loads(x) for x in lines[a:b]]


def registry_control(ctx, trace):
    """negative control: one lookup's logged result replaced by a manager / client nobody registered."""
    lines = [x for x in open(trace).read().splitlines() if x.strip()]
    resets = [i for i, x in enumerate(lines) if '"ev":"reset"' in x]
    pend = {}
    cands = []
    for i, x in enumerate(lines):
        e = json.loads(x)
        if e["ev"] == "start":
            pend[e["g"]] = e["op"]
        elif e["ev"] == "end" and pend.get(e["g"]) in ("Get", "KmsGet"):
            cands.append(i)
    k = ctx.rng.choice(cands)
    a = max(i for i in resets if i <= k)
    b = min([i for i in resets if i > k] + [len(lines)])
    sub = lines[a:b]
    e = json.loads(sub[k - a])
    e["res"] = "nobody-registered-this"
    sub[k - a] = json.dumps(e)
    p = os.path.join(ctx.scratch, "nc-registry.ndjson")
    open(p, "w").write("\n".join(sub) + "\n")
    r = ctx.tlc("Trace_Registry", env=dict(VERIF_TRACE=p, VERIF_START=1), workers=1, deque=True)
    m = re.search(r'<<"HWM", (\d+)>>', r.out)
    if not r.postcondition_failed or not m or int(m.group(1)) != k - a + 1:
        ctx.infra("negative control of Trace_Registry NOT rejected at the corrupted line %d: %s hwm=%s"
                         % (k - a + 1, r.summary(), m.group(1) if m else None))
    ctx.stage("NC:Trace_Registry", rejected_at_line=k, field_corrupted="res of a lookup")
    ctx.log("negative control (registry): corrupted lookup result rejected at its line")


def registry_run(ctx, drv, tag, scenarios=None, procs=None, seed=None):
    trace = os.path.join(ctx.scratch, "c18-reg-%s.ndjson" % tag)
    prefix, env = gorace(ctx, "reg-" + tag)
    if procs:
        env["GOMAXPROCS"] = str(procs)
    e = ctx.env(**env)
    if seed is not None:
        e["VERIF_SEED"] = str(seed)
    r = ctx.run([drv, "-regout", trace] + (["-scenarios", str(scenarios)] if scenarios else []), env=e, ok_codes=(0, 66))
    ctx.log("registry %s: %s" % (tag, r.stdout.strip()))
    return trace, prefix


def registry_judge(ctx, trace, tag):
    rejected, lines, resets = registry_accept(ctx, trace, "T:registry histories " + tag)
    for idx, e in rejected:
        sc = scenario_of(lines, resets, idx)
        a = max(i for i in resets if i <= idx)
        st = [x for x in sc[:idx - a] if x.get("ev") == "start" and x.get("g") == e.get("g")]   # the call that ended here
        ctx.violation("core/registry history not linearizable (%s)" % (st[-1]["op"] if st else "?"),
                      "no linearization of the recorded concurrent history explains result %r (log line %d)" % (e.get("res"), idx + 1),
                      dict(event=e, line=idx + 1, scenario=_short(sc, 300), registry=True))
    return rejected


# ------------------------------------------------------------------------------------------------ run
def run(ctx):
    ctx.cov["rule"] = ("for every primitive class and key type of conc.Targets (AEAD x6 types, DAEAD, MAC, PRF, streaming AEAD, hybrid "
                       "HPKE (7 KEMs) / ECIES, signatures incl. ML-DSA / SLH-DSA / composite, JWT MAC / signatures, keyset derivation): "
                       "G in {2, 8, 32} goroutines x K calls behind a start barrier on ONE shared primitive / handle "
                       "(Encrypt/Decrypt/Sign/Verify/ComputeMAC/VerifyMAC/ComputePRF/DeriveKeyset/NewEncryptingWriter/NewDecryptingReader, "
                       "primitive construction from the shared handle, Handle.Primary/Entry/Public/KeysetInfo/String/Len, "
                       "registry.GetKeyManager); per key type additionally ONE KEY PER GOROUTINE (all keys of one type URL) with concurrent "
                       "registry.Primitive / registry.PrimitiveFromKeyData / keyset-factory construction + one operation (the registry's "
                       "singleton key manager is the shared object); shared aead.NewKMSEnvelopeAEAD2 over an in-process KEK (3 DEK "
                       "templates); inputs vary in SHAPE across goroutines (AD nil / empty / bytes, message length classes, JWT type header "
                       "absent / 3 values and different claims - the returned token is decoded by the spec (JWS.tla): header typ and payload "
                       "must be the caller's); every randomized producing call has its own distinguishable input; streams are written in "
                       "chunks with scheduling points and half of them closed twice; a SHARED-BUFFER phase in every scenario: all goroutines "
                       "pass the same message buffers (7 / 16 / 40 bytes) and shared AD buffers to the producing operations at once, "
                       "repeated 4x, plus one large shared message (64 KiB; 1 KiB salt) for the deterministic producers (DAEAD, MAC, PRF, "
                       "deterministic signing, DeriveKeyset) so that a temporarily modified caller buffer is visible for long, and one "
                       "harness goroutine that only READS the shared buffers during the phase (any library write to them is a race with "
                       "it, and a content change it sees is recorded); results judged against Alone, all shared input buffers checked "
                       "intact afterwards; keyset derivation for all 8 "
                       "derivable key types with distinct salts on a shared deriver and on derivers built per call; registry histories: random windows of <= 6 concurrent Register/Get/KmsRegister/"
                       "KmsGet/KmsClear calls on harness-owned type URLs and clients; all runs under the Go race detector")
    ctx.assumptions += ["schedules are sampled by the Go scheduler (several GOMAXPROCS values / seeds), not enumerated",
                        "the no-data-race clause is decided by the Go race detector attached to the conformance runs, not by TLC",
                        "the log mutex of the registry histories orders calls that do not overlap in real time (hides races "
                        "between such calls from the detector); the unlogged hammer phase has no such ordering",
                        "internal registries (protoserialization, primitiveregistry, keygenregistry) are exercised for lookups "
                        "through the public entry points only (aead.New..., keyset parsing, AddNewKeyFromParameters)"]
    # ---------------- (M)
    ctx.model_check("MC_Concurrency", workers=1, heap="2g", stage="M:3 goroutines x deterministic + randomized calls, all interleavings")
    r = ctx.tlc("MC_ConcurrencyShared", workers=1, heap="2g")
    if r.invariant != "ConcurrentEqualsAlone":
        ctx.infra("the model with shared scratch state does not violate ConcurrentEqualsAlone: the property is vacuous (%s)" % r.summary())
    ctx.stage("M:shared-scratch counter-model", violates="ConcurrentEqualsAlone", trace_len=r.trace_len)
    ctx.model_check("MC_Registry", "MC_Registry_km", workers=1, heap="4g", stage="M:registry 2 goroutines x 2 calls, key-manager map, history properties")
    ctx.model_check("MC_Registry", "MC_Registry_kms", workers=1, heap="4g", stage="M:registry 2 goroutines x 2 calls, KMS client list")
    if ctx.thorough:
        ctx.model_check("MC_Registry", "MC_Registry_3x2", workers=4, heap="8g", timeout=2400,
                        stage="M:registry 3 goroutines x 2 calls x all operations")
    # ---------------- builds: the conformance runs ARE the race-detector runs
    drv = ctx.go_build("c18", race=True)
    if ctx.replay:
        obj = json.load(open(ctx.replay))
        if obj.get("registry"):
            for k in range(10):
                tr, pre = registry_run(ctx, drv, "replay%d" % k, seed=ctx.seed + k)
                registry_judge(ctx, tr, "replay")
                race_clause(ctx, pre, "registry", dict(registry=True))
        else:
            for k in range(10):   # schedules are not reproducible: re-run the scenario several times
                tr, pre = prim_run(ctx, drv, "replay%d" % k, only=obj.get("only"), procs=(None, 4, 2)[k % 3])
                prim_judge(ctx, tr, "replay")
                race_clause(ctx, pre, obj.get("only") or "all", dict(only=obj.get("only")))
        return
    # ---------------- (T) primitives and handles
    plans = [("race", None, None)]
    if ctx.thorough:
        plans += [("race-p4", 4, ctx.seed + 100), ("race-p2", 2, ctx.seed + 200)]
    total_races = 0
    last = None
    for tag, procs, seed in plans:
        tr, pre = prim_run(ctx, drv, tag, procs=procs, seed=seed)
        mism, n = prim_judge(ctx, tr, "concurrent returns vs alone (%s)" % tag)
        total_races += race_clause(ctx, pre, "primitives/" + tag, dict(only=None))
        ctx.cov["traces_validated_against_impl"] += sum(1 for x in open(tr) if '"ev":"reset"' in x)
        last = (tr, mism)
    lines = open(last[0]).read().splitlines()
    for k in (len(lines) // 5, len(lines) // 2, len(lines) - 5):
        ctx.sample(json.loads(lines[k]))
    # ---------------- (T) registries
    rplans = [("race", None, None)]
    if ctx.thorough:
        rplans += [("race-p2", 2, ctx.seed + 400), ("race-p4", 4, ctx.seed + 500)]
    rlast = None
    for tag, procs, seed in rplans:
        tr, pre = registry_run(ctx, drv, tag, procs=procs, seed=seed)
        rej = registry_judge(ctx, tr, tag)
        total_races += race_clause(ctx, pre, "registry/" + tag, dict(registry=True))
        ctx.cov["traces_validated_against_impl"] += sum(1 for x in open(tr) if '"ev":"reset"' in x)
        rlast = (tr, rej)
    rl = open(rlast[0]).read().splitlines()
    ctx.sample([json.loads(x) for x in rl[1:8]])
    # ---------------- unlogged hammering, race detector only
    pre, env = gorace(ctx, "hammer")
    r = ctx.run([drv, "-hammer", "20" if ctx.thorough else "3"], env=ctx.env(**env), ok_codes=(0, 66))
    ctx.log(r.stdout.strip())
    total_races += race_clause(ctx, pre, "hammer", dict(registry=True))
    ctx.stage("race detector", reports=total_races, runs=len(plans) + len(rplans) + 1)
    # ---------------- negative controls
    pre, env = gorace(ctx, "selfrace")
    ctx.run([drv, "-selfrace"], env=ctx.env(**env), ok_codes=(0, 66))
    ctl = race_reports(pre)
    if not ctl or not all(sig.startswith("harness:main.selfRace") for sig, _ in ctl):
        ctx.infra("race-detector control: the deliberate harness race was not reported (%s): detector not attached" % [c[0] for c in ctl])
    ctx.stage("NC:race detector", deliberate_harness_race="reported", reports=len(ctl))
    ctx.log("negative control (race detector): deliberate harness race reported")
    if not ctx.violations:
        ctx.negative_control("Trace_Concurrency", last[0], corrupt_conc, reset="reset")
        registry_control(ctx, rlast[0])


MANIFEST = dict(
    category="model_checking",
    text=("Concurrency.tla: goroutines idle/called/returned on a shared object whose behaviour is a constant; Return(g) may deliver "
          "only Alone(op, in) (randomized operations: a value the alone inverse maps back to the input). Registry.tla: the global "
          "registries as maps with atomic load-or-store / lookup / KMS list operations and start / linearization / end steps. TLC "
          "model-checks both exhaustively on small constants (incl. a shared-scratch counter-model that must violate the property) "
          "and then judges runs of the real code: 74 (quick) / 77 (thorough) shared primitives / handles x G in {2, 8, 32} "
          "goroutines, plus 66 key types with one key per goroutine constructing primitives of ITS key through registry.Primitive / "
          "PrimitiveFromKeyData / the keyset factory at the same time, plus shared KMS envelope AEADs (119k events quick; thorough 3 "
          "runs with GOMAXPROCS default/4/2: every concurrent return compared with the same call executed alone; randomized "
          "results inverted alone), and recorded registry histories (150 / 3 x 3000 "
          "scenarios of barrier-separated windows of <= 6 concurrent calls, incl. same-instant registration storms) for which TLC "
          "searches linearization points (high-water mark acceptance, StateDeque, -workers 1)."),
    note=("Schedules are sampled by the Go scheduler, not enumerated (primitives contain no synchronisation points a hook could "
          "gate). The NO-DATA-RACE clause is decided by the Go race detector attached to the same conformance runs (every run "
          "uses the -race build; a report becomes a `race` event that the trace spec rejects), NOT by TLC. Internal registries are "
          "covered for lookups through public entry points; registrations are checked for core/registry key managers and KMS "
          "clients (harness-owned URLs). UnregisterKeyManager needs an internal token and is modelled but not driven."),
    technique="TLA+ state machines + TLC exhaustive model checking + TLC trace validation (deterministic judge; linearization search with StateDeque) + Go race detector",
    design_ref="DESIGN.md section 6, C18",
)
