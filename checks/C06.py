"""C06 - Hybrid encryption round-trips, binds context info, and follows RFC 9180 / ECIES."""
import concurrent.futures as cf
import json
import os
import re

import vlib


def corrupt(ev, rng):
    """Negative control: change one logged field of one event; Trace_Hybrid must reject exactly there."""
    ev = dict(ev)
    if ev["ev"] == "encrypt" and not ev["err"] and ev["ct"]:
        f = "ct" if rng.random() < 0.7 or not ev["pt"] else "pt"
        i = rng.randrange(len(ev[f]))
        ev[f] = ev[f][:i] + ("0" if ev[f][i] != "0" else "1") + ev[f][i + 1:]
        ev["_corrupted"] = f
        return ev
    if ev["ev"] == "decrypt" and ev["class"] == "own" and not ev["err"]:
        if ev["pt"] and rng.random() < 0.5:
            i = rng.randrange(len(ev["pt"]))
            ev["pt"] = ev["pt"][:i] + ("0" if ev["pt"][i] != "0" else "1") + ev["pt"][i + 1:]
            ev["_corrupted"] = "pt"
        else:
            ev["err"], ev["pt"] = True, ""
            ev["_corrupted"] = "err"
        return ev
    if ev["ev"] == "decrypt" and ev["class"] == "mut" and ev["err"] and rng.random() < 0.2:
        ev["err"] = False
        ev["_corrupted"] = "err"
        return ev
    return None


CODES = {"Encrypt panicked": "panic", "Decrypt panicked": "panic", "Encrypt failed with a valid public key": "encrypt-failed",
         "the reference (RFC 9180 / ECIES) cannot decrypt Tink's ciphertext with the recipient key": "not-decryptable-by-reference",
         "the reference decrypts Tink's ciphertext to another plaintext": "reference-gets-other-plaintext",
         "Decrypt rejected a ciphertext the reference decrypts": "rejected-valid",
         "Decrypt accepted an input the reference rejects": "accepted-invalid",
         "Decrypt returned another plaintext than the reference": "other-plaintext",
         "a ciphertext returned by Encrypt changed while the caller kept it across later calls": "returned-ciphertext-changed",
         "a plaintext returned by Decrypt changed while the caller kept it across later calls": "returned-plaintext-changed",
         "the content of a retained ciphertext slice no longer decrypts to its plaintext": "retained-ciphertext-spoiled"}


def signature(e, bad):
    """call site + input class: scheme/route/configuration/variant, operation, kind of input, kind of disagreement"""
    cfgs = (e["kem"], e["kdf"], e["aead"]) if e["scheme"] == "HPKE" else (e["curve"], e["hash"], e["fmt"], e["dem"])
    return "%s/%s/%s/%s %s %s %s" % (e["scheme"], e["route"], "-".join(cfgs), e["variant"], e["ev"], e.get("kind", ""),
                                     CODES.get(bad[0], bad[0]))


def judge(ctx, trace, replaying=False):
    """Validate the trace with Trace_Hybrid, in parts of at most PART events (16 TLC shards each) so that the
    JVMs stay small. Returns (mismatches, n, first_part_file)."""
    lines = [x for x in open(trace).read().splitlines() if x.strip()]
    PART = 48000
    mism, n, first = [], 0, trace
    for k in range(0, len(lines), PART):
        part = trace if len(lines) <= PART else "%s.part%d" % (trace, k // PART)
        if part != trace:
            open(part, "w").write("\n".join(lines[k:k + PART]) + "\n")
            if k == 0:
                first = part
        mm, nn = ctx.validate_events("Trace_Hybrid", part, heap="2g", max_findings=2, timeout=3000, stage="T:Trace_Hybrid[%d]" % (k // PART))
        for m in mm:
            m["index"] += k
        mism += mm
        n += nn
        if part != trace and k > 0:
            os.remove(part)
        if len(lines) > PART:
            ctx.log("validated %d / %d events, %d mismatches" % (n, len(lines), len(mism)))
    infra = [m for m in mism if m["bad"][0].startswith("INFRA")]
    if infra:
        m = infra[0]
        raise vlib.Infra("%s (event %d: %s)" % (m["bad"][0], m["index"], json.dumps(vlib._shorten(m["event"]))[:900]))
    for m in mism:
        e = m["event"]
        ctx.violation("replay" if replaying else signature(e, m["bad"]),
                      "%s (spec expected %s)" % (m["bad"][0], [vlib._shorten(x, 80) for x in m["bad"][1:]]),
                      dict(event=e, spec_says=m["bad"]))
    return mism, n, first


def reference_cases(ctx, drv):
    """(R) the reference sender: the driver proposes (key, ephemeral key, IV, info, plaintext); TLC builds the
    ciphertexts from HPKE.tla / ECIES.tla (Plan_Hybrid) and decrypts each again with the reference."""
    plan = os.path.join(ctx.scratch, "plan.ndjson")
    ctx.run([drv, "-plan", plan])
    lines = [x for x in open(plan).read().splitlines() if x.strip()]
    shards = max(1, min(16, len(lines) // 40))
    outs = []

    def work(i):
        part = lines[i * len(lines) // shards:(i + 1) * len(lines) // shards]
        pin = os.path.join(ctx.scratch, "plan.%d.ndjson" % i)
        pout = os.path.join(ctx.scratch, "refcases.%d.ndjson" % i)
        open(pin, "w").write("\n".join(part) + "\n")
        r = ctx.tlc("Plan_Hybrid", env=dict(VERIF_PLAN=pin, VERIF_OUT=pout), workers=1, heap="2g", timeout=2400)
        if not r.ok:
            raise vlib.Infra("Plan_Hybrid shard %d: %s" % (i, r.error or r.out[-1500:]))
        got = [x for x in open(pout).read().splitlines() if x.strip()]
        if len(got) != len(part):
            raise vlib.Infra("Plan_Hybrid shard %d wrote %d of %d cases" % (i, len(got), len(part)))
        return got

    with cf.ThreadPoolExecutor(max_workers=shards) as ex:
        for got in ex.map(work, range(shards)):
            outs += got
    bad = [x for x in outs if not json.loads(x)["ok"]]
    if bad:
        raise vlib.Infra("the reference could not build / round-trip %d of its own cases, e.g. %s" % (len(bad), bad[0][:600]))
    ref = os.path.join(ctx.scratch, "refcases.ndjson")
    open(ref, "w").write("\n".join(outs) + "\n")
    ctx.stage("R:Plan_Hybrid", cases=len(outs), shards=shards, reference_round_trips=len(outs))
    ctx.cov["states"] += len(outs)
    ctx.cov["transitions"] += len(outs)
    ctx.log("Plan_Hybrid: %d reference-made ciphertexts (each decrypted again by the reference)" % len(outs))
    return ref, len(outs)


def run(ctx):
    ctx.cov["rule"] = (
        "events = real HybridEncrypt.Encrypt / HybridDecrypt.Decrypt calls over (HPKE: 7 KEMs x 3 KDFs x 3 AEADs; ECIES: 3 curves "
        "x 5 hashes x 3 point formats x 5 DEMs x salt classes) x variant x key id (incl. 0, 0xffffffff) x route (keyset factory, "
        "key templates, hybrid/subtle, keysets of two raw keys with the matching key second) x plaintext length class x context "
        "class; every logged input is a copy Tink never had access to; per ciphertext: Tink->reference decryption (and of a second "
        "Encrypt from the same plaintext/context buffers), Tink's own decryption TWICE from the same buffer and once more after a "
        "failing wrong-context attempt on the same buffer (each call its own event), sessions on ONE primitive instance whose "
        "context info and plaintext / ciphertext come from ONE reused buffer each, overwritten in place between calls (same length "
        "with new contents, shorter, longer, empty, back; after a successful Decrypt the context buffer is overwritten with other "
        "contents of the same length and the same ciphertext must then be rejected), sequences in which the slices RETURNED by "
        "Encrypt / Decrypt are retained across 5+ later calls on the same primitive and then compared with their content at return "
        "and decrypted again, and Decrypt of mutations of every region (prefix, encapsulated key incl. off-curve / small-order / "
        "negated points, payload, tag), of the context, with another private key, at cut points (all of them in the thorough tier "
        "for one ciphertext per configuration) and extensions; plus reference-made ciphertexts (TLC, chosen ephemeral keys) "
        "decrypted by Tink. Every event is judged by TLC against HPKE.tla / XWing.tla / ECIES.tla")
    ctx.assumptions += [
        "ML-KEM-768/1024 decapsulation (also inside X-Wing) is an assumed primitive: its shared secret is logged by the driver, "
        "computed by Go's crypto/mlkem directly from the recipient seed and the encapsulated key (not via Tink); the specification "
        "checks that this is exactly the query it makes (framing, SHAKE-256 seed expansion) and judges everything around it",
        "ECDH, X25519, HMAC, SHA-3/SHAKE, AES, AES-GCM, ChaCha20-Poly1305 are the JDK's (independent of Go's standard library)",
        "rejection of mutations is checked on enumerated mutations and cut points, not on all byte strings",
    ]
    drv = ctx.go_build("c06")
    trace = os.path.join(ctx.scratch, "c06.ndjson")
    if ctx.replay:   # re-execute exactly the recorded call against the current tree and re-judge it
        ctx.run([drv, "-out", trace, "-replay", ctx.replay])
        judge(ctx, trace, replaying=True)
        return
    ref, nref = reference_cases(ctx, drv)
    r = ctx.run([drv, "-out", trace, "-refcases", ref], timeout=3000)
    ctx.log(r.stdout.strip())
    mism, n, first = judge(ctx, trace)
    ctx.cov["traces_validated_against_impl"] += 1
    ctx.cov["events"] = n
    lines = open(trace).read().splitlines()
    kinds = {}
    for x in lines:
        e = json.loads(x)
        k = "%s/%s" % (e["ev"], e.get("kind", ""))
        kinds[k] = kinds.get(k, 0) + 1
    ctx.cov["event_kinds"] = kinds
    for need in () if os.environ.get("VERIF_C06_FILTER") else ("encrypt/tink", "encrypt/tink-again-same-buffers", "decrypt/own", "decrypt/again-same-buffer",
                                                                  "decrypt/after-wrong-context-same-buffer", "encrypt/tink-2rawkeys", "decrypt/reference-made",
                                                                  "encrypt/seq", "decrypt/seq-right", "decrypt/seq-context-overwritten",
                                                                  "encrypt/retained-output", "decrypt/retained-ciphertext", "decrypt/retained-plaintext", "decrypt/enc-flip", "decrypt/payload-flip",
                 "decrypt/prefix-start", "decrypt/info-flip", "decrypt/other-key", "decrypt/cut"):
        if not kinds.get(need):
            raise vlib.Infra("coverage hole: no %s event was recorded" % need)
    if os.environ.get("VERIF_C06_FILTER"):
        ctx.log("NOTE: VERIF_C06_FILTER is set (debugging / mutation trial; not evidence)")
    if kinds.get("construct/", 0) > 8:
        raise vlib.Infra("the library refused %d configurations the plan expects to work" % kinds["construct/"])
    for k in (7, len(lines) // 3, len(lines) // 2, len(lines) - 2):
        ctx.sample(json.loads(lines[k]))
    if not mism:
        ctx.negative_control("Trace_Hybrid", first, corrupt, window=120)


# ---------------------------------------------------------------------------------------------- known answers
# The repository's tests embed ciphertexts made by OTHER implementations (Tink C++ / BoringSSL: hpke_test_vectors.cc,
# ecies test vectors, ecies_aead_hkdf_hybrid_decrypt_test.cc). They are read here as data and pushed through the same
# trace specification: the reference must decrypt every one of them to the stated plaintext (and reject each with its
# last byte changed) before it may judge code. For the three ML-KEM based vectors the assumed primitive's answer is
# recorded below (Go crypto/mlkem decapsulation of the vector's encapsulated key under the vector's key).
_HEXCALL = re.compile(r'mustHexDecode\(t,\s*((?:"[0-9a-fA-F]*"\s*\+?\s*)+)\)')
_ML_SS = {
    "X-Wing, HKDF-SHA256, AES-128-GCM, No Prefix": "071b48202949326cc8b2f8b328c28ced8334ecd82ca1025e5a4381a26387ddb3",
    "ML-KEM-768, HKDF-SHA256, AES-128-GCM, No Prefix": "00d17d3887c65607d1dfd1893a58f9d89e16cf220eeef29f6ef51f6cdb3b02cc",
    "ML-KEM-1024, HKDF-SHA384, AES-256-GCM, No Prefix": "32dc3636884c8ee8823a8d0c4e6e8dd64a1c7767ab32fa2b9f39000a030ffc97",
}


def _hexes(s):
    return ["".join(re.findall(r'"([0-9a-fA-F]*)"', m.group(1))).lower() for m in _HEXCALL.finditer(s)]


def _field(chunk, name):
    m = re.search(name + r':\s*(mustHexDecode\(t,\s*(?:"[0-9a-fA-F]*"\s*\+?\s*)+\)|\[\]byte\{\})', chunk)
    if not m:
        return None
    return "" if m.group(1).startswith("[]byte") else _hexes(m.group(1))[0]


def _go_vectors(path, fn):
    src = open(path).read()
    body = src[src.index("func " + fn):]
    body = body[:body.index("\nfunc ", 10)]
    out = []
    for chunk in body.split("hybridEncryptTestVector{")[2:]:
        idm = re.search(r'\),\s*(0x[0-9a-fA-F]+|\d+),\s*\n?\s*mustCreateParameters', chunk)
        dem = re.search(r'DEMParameters:\s*(\w+)', chunk)
        out.append(dict(name=re.search(r'name:\s*"([^"]*)"', chunk).group(1), sk=_hexes(chunk[chunk.index("privateKey:"):])[0],
                        id=int(idm.group(1), 0), opts=dict(re.findall(r'(\w+):\s+(?:hpke|ecies)\.(\w+),', chunk)),
                        dem=dem.group(1) if dem else None, salt=_field(chunk, "Salt"), pt=_field(chunk, "plaintext"),
                        info=_field(chunk, "contextInfo"), ct=_field(chunk, "ciphertext")))
    return out


_KEM = {"DHKEM_P256_HKDF_SHA256": "P256", "DHKEM_P384_HKDF_SHA384": "P384", "DHKEM_P521_HKDF_SHA512": "P521",
        "DHKEM_X25519_HKDF_SHA256": "X25519", "X_WING": "XWING", "ML_KEM768": "MLKEM768", "ML_KEM1024": "MLKEM1024"}
_VARIANT = {"VariantTink": "TINK", "VariantCrunchy": "CRUNCHY", "VariantNoPrefix": "NO_PREFIX"}
_DEM = {"aes128GCMParams": "AES128GCM", "aes256GCMParams": "AES256GCM", "aes128CtrHMACSHA256Params": "AES128CTRHMAC",
        "aes256CtrHMACSHA256Params": "AES256CTRHMAC", "aes256SIVParams": "AES256SIV"}
_FMT = {"UncompressedPointFormat": "UNCOMPRESSED", "CompressedPointFormat": "COMPRESSED",
        "LegacyUncompressedPointFormat": "DO_NOT_USE_CRUNCHY_UNCOMPRESSED"}


def _kat(base, ct, pt):
    last = "%02x" % (int(ct[-2:], 16) ^ 1)
    return [dict(base, **{"class": "kat", "ct": ct, "pt": pt, "err": False}),
            dict(base, **{"class": "mut", "kind": base["kind"] + " last byte changed", "ct": ct[:-2] + last, "pt": "", "err": True})]


def selfspec_events(wy):
    import hashlib
    blank = dict(ev="decrypt", route="kat", kem="", kdf="", aead="", curve="", hash="", fmt="", dem="", salt="", ml_param="",
                 ml_seed="", ml_ct="", ml_ok=False, ml_ss="", panic=False, want="")
    evs = []
    for v in _go_vectors(os.path.join(vlib.REPO, "hybrid/hpke/hybrid_encrypt_decrypt_test.go"), "hybridTestVectors"):
        o = v["opts"]
        e = dict(blank, scheme="HPKE", kem=_KEM[o["KEMID"]], kdf=o["KDFID"][4:], variant=_VARIANT[o["Variant"]], id="%08x" % v["id"],
                 aead={"AES128GCM": "AES128GCM", "AES256GCM": "AES256GCM", "ChaCha20Poly1305": "CHACHA20POLY1305"}[o["AEADID"]],
                 skR=v["sk"], info=v["info"], kind="kat:tink-cc hpke " + v["name"])
        if e["kem"] in ("MLKEM768", "MLKEM1024", "XWING"):
            off = 0 if e["variant"] == "NO_PREFIX" else 10
            n = 2 * (1568 if e["kem"] == "MLKEM1024" else 1088)
            seed = v["sk"] if e["kem"] != "XWING" else hashlib.shake_256(bytes.fromhex(v["sk"])).hexdigest(64)
            e.update(ml_param="1024" if e["kem"] == "MLKEM1024" else "768", ml_seed=seed, ml_ct=v["ct"][off:off + n], ml_ok=True,
                     ml_ss=_ML_SS[v["name"]])
        evs += _kat(e, v["ct"], v["pt"])
    for v in _go_vectors(os.path.join(vlib.REPO, "hybrid/ecies/hybrid_encrypt_test.go"), "hybridTestVectors"):
        o = v["opts"]
        e = dict(blank, scheme="ECIES", curve=o["CurveType"][4:], hash=o["HashType"], fmt=_FMT[o["NISTCurvePointFormat"]], dem=_DEM[v["dem"]],
                 salt=v["salt"] or "", variant=_VARIANT[o["Variant"]], id="%08x" % v["id"], skR=v["sk"], info=v["info"],
                 kind="kat:tink ecies " + v["name"])
        evs += _kat(e, v["ct"], v["pt"])
    # ecies_aead_hkdf_hybrid_decrypt_test.cc vectors (P-256, SHA-256, uncompressed, AES-SIV, no salt); strings are ASCII
    src = open(os.path.join(vlib.REPO, "hybrid/ecies/ecies_aead_hkdf_hybrid_decrypt_test.go")).read()
    for m in re.finditer(r'name:\s*"([^"]*)",\s*key:\s*"([0-9a-f]*)",\s*ciphertext:\s*"([0-9a-f]*)",\s*context:\s*"([^"]*)",\s*plaintext:\s*"([^"]*)"', src):
        e = dict(blank, scheme="ECIES", curve="P256", hash="SHA256", fmt="UNCOMPRESSED", dem="AES256SIV", variant="NO_PREFIX", id="00000000",
                 skR=m.group(2), info=m.group(4).encode().hex(), kind="kat:tink-cc ecies siv " + m.group(1))
        evs += _kat(e, m.group(3), m.group(5).encode().hex())
    if len(evs) < 2 * (9 + 14 + 3):
        raise vlib.Infra("selfspec C06: only %d known-answer events could be read from the repository's test data" % len(evs))
    return evs


SELFSPEC = {"Trace_Hybrid": selfspec_events}

MANIFEST = dict(
    category="model_checking",
    text=("Every recorded Encrypt/Decrypt call of the real hybrid-encryption code (about 20k events quick, 420k thorough: all 63 HPKE "
          "suites incl. ML-KEM-768/1024 and X-Wing, all 225 ECIES curve x hash x point-format x DEM combinations, every prefix "
          "variant, key ids incl. 0 and 0xffffffff, boundary private keys, keyset-factory / key-template / hybrid-subtle routes) is "
          "judged by TLC against an executable TLA+ transcription of RFC 9180 base mode (labeled extract/expand, DHKEM, key "
          "schedule, nonce XOR, single-shot seal/open), the X-Wing combiner and ECIES-AEAD-HKDF (RFC 5869 HKDF, SEC 1 point "
          "formats, AES-GCM / AES-CTR-HMAC / AES-SIV DEMs). Tink's ciphertexts are decrypted by the reference with the recipient "
          "key; reference-made ciphertexts (built by TLC in Plan_Hybrid with chosen ephemeral keys and IVs) are decrypted by Tink; "
          "mutations of prefix, encapsulated key (bit flips, off-curve, small-order, negated, wrong leading byte), payload, tag, "
          "context, the private key, every cut point and extensions must be rejected by both (thorough: every byte position and "
          "cut point of one ciphertext per configuration, every bit for a ninth of them, every plaintext length 0..48). "
          "Conformance, not a proof: the quantifiers over plaintexts, contexts, keys and mutations are covered by classes and "
          "enumerated positions."),
    note=("Trusted: JDK ECDH/XDH/HMAC/SHA-3/AES/GCM/ChaCha20-Poly1305 providers, TLC, the TLA+ transcriptions (gated by RFC 5869 "
          "A.1-A.4 and RFC 9180 A.1.1/A.2.1/A.3.1/A.6.1 with every listed intermediate value in spec/selftest/Self_HPKE.tla, "
          "structural checks in Self_ECIES.tla, and 26 ciphertexts of Tink C++ embedded in the repository's tests - HPKE incl. "
          "X-Wing and ML-KEM, ECIES all DEMs - pushed through the same trace spec by bin/selfspec). ML-KEM decapsulation is an "
          "assumed primitive taken from Go's crypto/mlkem, so for the ML-KEM and X-Wing suites the check covers what Tink wrote "
          "around ML-KEM (framing, seed expansion, combiner, key schedule), not ML-KEM. Not covered: HPKE sequence numbers > 0 "
          "(Tink seals once per context, so the nonce XOR alignment is unobservable through the public API), ECIES over P-224 "
          "(hybrid/subtle only; not in the JDK), ECIES over X25519 and the XChaCha20-Poly1305 DEM (refused by the library at "
          "construction, recorded as coverage), keysets with several keys (C05)."),
    technique="TLA+ reference specs (RFC 9180, X-Wing, ECIES/HKDF) + TLC trace validation both ways (Tink->spec, spec->Tink via a TLC-built plan), negative control",
    design_ref="DESIGN.md section 6, C06",
)
