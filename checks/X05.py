"""X05 (growth) - the algebra of key and parameters objects: what every implementation of key.Key and key.Parameters
(/repo/key/key.go) promises in its godoc, for ALL 42 Go key types / 29 parameter families of KeyParams.tla.

spec/sys/KeyLaws.tla states the laws as judgements over observations of a tuple of ABSTRACT KEYS
[family, kind, parameter record, key material, id]:
  * Equal on keys and on parameters is an equivalence relation (reflexive, symmetric, transitive), false across Go
    types; Equal keys have Equal parameters, the same IDRequirement(), OutputPrefix() and accessor values;
  * keys / parameters built from equal inputs are Equal; keys that differ in ONE respect (each parameter field of
    KeyParams' domains, the key material, the id, private / public) are NOT Equal;
  * IDRequirement() = (id, true) iff Parameters().HasIDRequirement() iff variant # NO_PREFIX (JWT: kid strategy),
    otherwise (0, false); a constructor does not let a non-zero id into a key without id requirement;
  * OutputPrefix() = TINK 0x01||be32(id), CRUNCHY / LEGACY 0x00||be32(id), NO_PREFIX empty (spec/algo/OutputPrefix.tla);
    JWT KID() = base64url(be32(id)) / none / the custom kid;
  * PublicKey() of a private key is stable, has the private key's parameters, id requirement and prefix, IS the public
    key built from the same inputs; private keys are Equal iff their public keys and their secret parts are;
  * every accessor returns the same value on every call; key.Parameters() is Equal to the parameters given.

(M) MC_KeyLaws: every case (key, pair, triple, constructor refusal) of an abstract key space judged on a reference
    implementation model (must be lawful) and on 21 faulty models ("Equal ignores a field", ...: each MUST be
    rejected, by the law named in the specification; quick runs 9 of them, thorough all);
(R) Plan_KeyLaws: TLC enumerates, per family, tuples of abstract keys from KeyParams.Cases (same, one-field-different
    for EVERY field and value, other material, other id, other kind, random mix) and every unordered pair of Go key
    types; harness/cmd/x05 builds the real objects (keyfactory; the public constructors called again with a key's
    own accessor values) and records every relation;
(T) Trace_KeyLaws judges every recorded case with the judgements of KeyLaws.tla."""
import collections
import concurrent.futures as cf
import json
import os
import sys

sys.path.insert(0, os.path.join(os.path.dirname(os.path.dirname(os.path.abspath(__file__))), "lib"))
import vlib  # noqa: E402

FAULTS = ["params_equal_ignores_hash", "key_equal_ignores_variant", "key_equal_ignores_id", "key_equal_ignores_material",
          "crunchy_prefix_01", "legacy_prefix_01", "prefix_little_endian", "pubkey_other_encoding", "pubkey_drops_id",
          "id_zero_wildcard", "idreq_always_required", "hasidreq_ignores_prehash_variant", "equal_across_types",
          "equal_one_directional", "unstable_accessor", "accessor_returns_internal_slice", "accepts_nonzero_id", "parameters_not_kept", "kid_not_base64_of_id",
          "private_equal_public_only", "unused_id_shows_in_accessor"]

# KeyParams!Fields: every (family, field) must be the differing field of at least one executed case
FIELDS = {
    "AesGcm": ["keySize", "ivSize", "tagSize", "variant"],
    "AesCtrHmac": ["aesKeySize", "hmacKeySize", "ivSize", "hash", "tagSize", "variant"],
    "AesGcmSiv": ["keySize", "variant"], "ChaCha20Poly1305": ["variant"], "XChaCha20Poly1305": ["variant"],
    "XAesGcm": ["saltSize", "variant"], "AesSiv": ["keySize", "variant"], "Hmac": ["keySize", "hash", "tagSize", "variant"],
    "AesCmac": ["keySize", "tagSize", "variant"], "HmacPrf": ["keySize", "hash"], "HkdfPrf": ["keySize", "hash", "saltSize"],
    "AesCmacPrf": ["keySize"], "AesGcmHkdfStreaming": ["derivedKeySize", "keySize", "hkdfHash", "segmentSize"],
    "AesCtrHmacStreaming": ["derivedKeySize", "keySize", "hkdfHash", "hmacHash", "tagSize", "segmentSize"],
    "Ecdsa": ["curve", "hash", "encoding", "variant"], "Ed25519": ["variant"],
    "RsaSsaPkcs1": ["modulusBits", "exponent", "hash", "variant"],
    "RsaSsaPss": ["modulusBits", "exponent", "hash+mgf1Hash", "saltSize", "variant"],
    "MlDsa": ["instance", "variant"], "SlhDsa": ["hash", "keySize", "sigType", "variant"],
    "CompositeMlDsa": ["classical", "instance", "variant"], "Hpke": ["kem", "kdf", "aead", "variant"],
    "Ecies": ["curve", "hash", "pointFormat", "dem", "saltSize", "variant"],
    "JwtHmac": ["algorithm", "kidStrategy", "keySize"], "JwtEcdsa": ["algorithm", "kidStrategy"],
    "JwtRsaSsaPkcs1": ["modulusBits", "exponent", "algorithm", "kidStrategy"],
    "JwtRsaSsaPss": ["modulusBits", "exponent", "algorithm", "kidStrategy"], "JwtMlDsa": ["algorithm", "kidStrategy"],
    "PrfBasedDeriver": ["prf", "derived"],
}
N_GO_TYPES = 42

# thorough tier: (families, base records per family) per TLC process; None = every other family (and the Go type pairs).
# Families whose keys are expensive to build (RSA validation, composite keys) get fewer base records.
PLAN_GROUPS = [(["AesCtrHmac"], 800), (["AesCtrHmacStreaming", "Hmac"], 500), (["Ecies"], 500),
               (["Hpke", "HkdfPrf", "AesGcm", "AesGcmHkdfStreaming"], 300),
               (["RsaSsaPss", "RsaSsaPkcs1", "JwtRsaSsaPkcs1", "JwtRsaSsaPss", "CompositeMlDsa"], 60), (None, 300)]
QUICK_GROUPS = [(None, 3)]

# what the library does NOT document and KeyLaws.tla / the driver take as built; reported, never judged
STATIC_OBSERVATIONS = [
    "key material is sampled (class 'random' of keyfactory, two materials per record); RSA material other than keyfactory's "
    "table entry is generated per run (2048 bits); leading-zero / all-zero material classes are C12's",
    "aescmacprf.NewKey takes no parameters object (the parameters are derived from the key length); PRF and streaming AEAD "
    "constructors have no id input; JWT keys have KID() instead of OutputPrefix(); the key-derivation key has neither",
    "memory ownership of the byte slices accessors return is C19's statement and not repeated here: accessor stability is "
    "checked on values (every accessor twice, hex copies taken immediately)",
]


# ------------------------------------------------------------------ (M)
def expect_fault_rejected(ctx, fault):
    r = ctx.tlc("MC_KeyLaws", "MC_KeyLaws_fault_" + fault, workers=1, heap="2g", timeout=900)
    if r.error:
        ctx.infra("M:fault %s: %s" % (fault, r.error))
    if not r.invariant:
        ctx.infra("M:fault %s: the laws of KeyLaws.tla do NOT reject the faulty implementation model (%s)" % (fault, r.summary()))
    if r.invariant != "Lawful":
        ctx.infra("M:fault %s: rejected by another law than the specification names (ExpectedLaw): %s, bad = %s"
                  % (fault, r.invariant, (r.last_state or {}).get("bad")))
    bad = (r.last_state or {}).get("bad") or ["?"]
    return fault, bad[0], r


# quick tier: these fault models (the classic bugs) on every run, plus three of the others chosen by the seed; thorough: all
CORE_FAULTS = ["params_equal_ignores_hash", "key_equal_ignores_variant", "key_equal_ignores_id", "crunchy_prefix_01",
               "pubkey_other_encoding", "id_zero_wildcard"]


def model_check(ctx):
    cfg = "MC_KeyLaws" if ctx.thorough else "MC_KeyLaws_quick"
    faults = FAULTS
    if not ctx.thorough:
        rest = [f for f in FAULTS if f not in CORE_FAULTS]
        faults = CORE_FAULTS + [rest[(ctx.seed * 3 + i) % len(rest)] for i in range(3)]
    with cf.ThreadPoolExecutor(max_workers=6) as ex:
        ref = ex.submit(ctx.model_check, "MC_KeyLaws", cfg, stage="M:reference model lawful (%s)" % cfg, workers=4, heap="4g",
                        timeout=2400, must_cover=False)
        futs = [ex.submit(expect_fault_rejected, ctx, f) for f in faults]
        rejected = {}
        for f in futs:
            fault, law, r = f.result()
            rejected[fault] = law
            ctx.cov["states"] += r.distinct
            ctx.cov["transitions"] += r.generated
        ref.result()
    ctx.stage("M:faulty implementation models rejected", n=len(rejected), of=len(FAULTS), by_law=rejected)
    ctx.log("M: reference model lawful; %d faulty models rejected, each by a law the specification names" % len(rejected))


# ------------------------------------------------------------------ (R)
def plan_cases(ctx):
    groups = PLAN_GROUPS if ctx.thorough else QUICK_GROUPS
    big = [t for g, _ in groups if g for t in g]

    def work(i):
        g, nb = groups[i]
        out = os.path.join(ctx.scratch, "cases.%d.ndjson" % i)
        env = dict(VERIF_CASES=out, VERIF_BASES=nb, VERIF_TYPEPAIRS=1 if g is None else 0)
        env["VERIF_TYPES"] = ",".join(sorted(set(FIELDS) - set(big))) if g is None else ",".join(g)
        r = ctx.tlc("Plan_KeyLaws", env=env, workers=1, timeout=2400, heap="6g", extra=("-seed", str(ctx.seed)))
        if not r.ok or not os.path.exists(out):
            raise vlib.Infra("Plan_KeyLaws failed: %s" % (r.error or r.out[-1500:]))
        return [x for x in open(out).read().splitlines() if x.strip()]

    path = os.path.join(ctx.scratch, "cases.ndjson")
    why = collections.Counter()
    fields = collections.Counter()
    fam = collections.Counter()
    pairs = set()
    n = 0
    with cf.ThreadPoolExecutor(max_workers=len(groups)) as ex, open(path, "w") as f:
        for ls in ex.map(work, range(len(groups))):
            for x in ls:
                f.write(x + "\n")
                n += 1
                c = json.loads(x)
                k0 = c["keys"][0]
                w = c["why"]
                why[w.split(":")[0]] += 1
                if w.startswith("field:"):
                    fields[(k0["kt"], w[6:])] += 1
                if w == "type":
                    pairs.add(frozenset((k["kt"], k["kind"]) for k in c["keys"]))
                else:
                    fam[k0["kt"]] += 1
    missing = [(t, fl) for t, fs in FIELDS.items() for fl in fs if not fields[(t, fl)]]
    if missing:
        raise vlib.Infra("Plan_KeyLaws: no one-field-different case for %s" % missing[:8])
    if len(pairs) != N_GO_TYPES * (N_GO_TYPES - 1) // 2:
        raise vlib.Infra("Plan_KeyLaws: %d pairs of Go key types, expected %d" % (len(pairs), N_GO_TYPES * (N_GO_TYPES - 1) // 2))
    ctx.stage("R:Plan_KeyLaws", cases=n, by_kind_of_case=dict(why), per_family=dict(fam), base_records_per_family={",".join(g) if g else "others": nb + 1 for g, nb in groups},
              family_field_combinations=len(fields), go_type_pairs=len(pairs))
    ctx.log("plan: %d cases (%s); %d (family, field) combinations, %d Go type pairs"
            % (n, ", ".join("%s %d" % kv for kv in sorted(why.items())), len(fields), len(pairs)))
    return path, n


# ------------------------------------------------------------------ (T)
def signature(m):
    """call site (family / families and kinds) + the law + the differing respect"""
    bad = m["bad"]
    return "X05 %s: %s%s" % (bad[1] if len(bad) > 1 else "?", bad[0], (" [%s]" % bad[2]) if len(bad) > 2 else "")


def slim(e):
    e = dict(e)
    if "obs" in e:
        e["obs"] = [{k: v for k, v in o.items() if k != "pub"} for o in e["obs"]]
    return e


def take(ctx, mism):
    exp = []
    for m in mism:
        what = "%s (spec: %s)" % (m["bad"][0], m["bad"][1:])
        if not str(m["bad"][0]).startswith("doc: "):
            exp.append("%s at event %d" % (what[:500], m["index"]))
            continue
        ctx.violation(signature(m), what, dict(event=slim(m["event"]), spec_says=m["bad"]))
    return exp


def settle(ctx, exp):
    if exp and not ctx.violations:
        ctx.infra("coverage expectation failed: the real code differs from UNDOCUMENTED behaviour that KeyLaws.tla / KeyParams.tla "
                  "copy from the code (update the specification, not a verdict about the code): " + " | ".join(exp[:3]))


def observations(trace):
    """as-built, undocumented behaviour the run exercised, with the number of recorded cases that showed it"""
    doc_refusal = {"AesGcm", "AesCtrHmac", "AesGcmSiv", "AesSiv", "Ed25519", "MlDsa", "SlhDsa", "JwtRsaSsaPkcs1", "JwtRsaSsaPss",
                   "PrfBasedDeriver"}
    refuse = collections.Counter()
    fallback = collections.Counter()
    routes = collections.Counter()
    nacc = {}
    for line in open(trace):
        e = json.loads(line)
        if e["ev"] == "idref":
            kt = json.loads(json.dumps(e["keys"][0]))["kt"]
            if e["x"]["takesid"] and e["x"]["refused"] and kt not in doc_refusal:
                refuse[kt] += 1
            continue
        for k, o in zip(e["keys"], e["obs"]):
            routes[o["route"]] += 1
            if k["route"] == "derived" and o["route"] == "factory":
                fallback[k["kt"]] += 1
            if o["built"]:
                nacc[o["gotype"]] = o["nacc"]
    out = [dict(behaviour="the constructors of %s refuse a non-zero id for parameters without id requirement although their godoc "
                          "does not say so (10 other packages document it)" % ", ".join(sorted(refuse)), calls_observed=sum(refuse.values()))]
    out.append(dict(behaviour="one-field-different keys that could not keep the first key's material (other size / curve / nested "
                              "key) were built independently by keyfactory", calls_observed=sum(fallback.values()), per_family=dict(fallback)))
    out.append(dict(behaviour="how the real key objects were built", calls_observed=sum(routes.values()), routes=dict(routes)))
    out.append(dict(behaviour="niladic accessors per Go key type, each called twice on every key object", calls_observed=len(nacc),
                    accessors=nacc))
    return out + [dict(behaviour=s, calls_observed=0) for s in STATIC_OBSERVATIONS]


def corrupt(ev, rng):
    ev = json.loads(json.dumps(ev))
    if ev["ev"] == "idref":
        if not ev["x"]["takesid"] or not ev["x"]["refused"]:
            return None
        ev["x"]["refused"] = False
        ev["x"]["accid"] = ev["x"]["nonzero"]
        ev["_corrupted"] = "x.refused"
        return ev
    if not all(o["built"] for o in ev["obs"]):
        return None
    n = len(ev["obs"])
    i, j = rng.randrange(n), rng.randrange(n)
    c = rng.randrange(7)
    o = ev["obs"][i]
    if c == 0:
        ev["eq"][i][j] = not ev["eq"][i][j]
        ev["_corrupted"] = "eq[%d][%d]" % (i, j)
    elif c == 1:
        ev["peq"][i][j] = not ev["peq"][i][j]
        ev["_corrupted"] = "peq"
    elif c == 2 and o["hasprefix"] and o["prefix"]:
        o["prefix"] = ("00" if o["prefix"][:2] == "01" else "01") + o["prefix"][2:]
        ev["_corrupted"] = "obs.prefix"
    elif c == 3:
        o["req"] = not o["req"]
        ev["_corrupted"] = "obs.req"
    elif c == 4 and o["req"]:
        o["id"] = "0badc0de"
        ev["_corrupted"] = "obs.id"
    elif c == 5 and o["pub"]["has"]:
        o["pub"]["peq"] = False
        ev["_corrupted"] = "obs.pub.peq"
    elif c == 6:
        o[rng.choice(["unstable", "aliased"])] = ["Parameters"]
        ev["_corrupted"] = "obs.unstable / obs.aliased"
    else:
        return None
    return ev


# ------------------------------------------------------------------ the check
def run(ctx):
    ctx.cov["rule"] = (
        "(M) every case of an abstract key space (6 families, every field over a small domain, 2 materials, 2 [3] ids: every key, "
        "every pair within a family and against a representative of every Go type, every triple of a sub-space, every "
        "constructor-refusal case) on the reference model and on 9 [21] faulty models; (R/T) per family 1 + 3 [40] base records "
        "(canonical + TLC -seed sample of KeyParams!Cases): same-inputs triples, EVERY field x EVERY other documented value "
        "(quick: boundary-thinned, thorough: whole domain) keeping the key material, other material, 3 other ids, private vs "
        "public, a random second record, the constructor given a non-zero id; plus all 861 unordered pairs of the 42 Go key "
        "types; every relation (Equal both ways, parameters Equal, IDRequirement, OutputPrefix, KID, PublicKey, every accessor "
        "twice) recorded from real objects and judged by TLC")
    ctx.assumptions += [
        "exhaustive only over the abstract key space of MC_KeyLaws and over the parameter DOMAINS of KeyParams.tla; key "
        "material and ids are sampled (2 materials, 4 ids per record)",
        "the laws are read from the godoc of key.Key / key.Parameters and of each key package (Variant, OutputPrefix, "
        "PublicKey, NewKey); Equal is taken to mean 'built from equal inputs' (same Go type, Equal parameters, same id "
        "requirement, same key material, JWT: same kid)",
        "undocumented behaviour (which constructors refuse a non-zero id without saying so, which key types have which "
        "accessors) is modelled as built and only recorded (coverage['observations'])"]
    skip_m = bool(os.environ.get("VERIF_X05_SKIP_M")) and bool(os.environ.get("VERIF_REPO"))
    if skip_m:
        ctx.log("NOTE: (M) skipped (mutation trial against VERIF_REPO: the model-checking stage does not involve the code; not evidence)")

    drv = ctx.go_build("x05")
    if ctx.replay:
        trace = os.path.join(ctx.scratch, "replay.ndjson")
        ctx.run([drv, "-out", trace, "-replay", ctx.replay])
        mism, _ = ctx.validate_events("Trace_KeyLaws", trace, shards=1)
        settle(ctx, take(ctx, mism))
        return

    with cf.ThreadPoolExecutor(max_workers=2) as ex:
        fm = None if skip_m else ex.submit(model_check, ctx)
        fp = ex.submit(plan_cases, ctx)
        cases, n = fp.result()
        trace = os.path.join(ctx.scratch, "x05.ndjson")
        r = ctx.run([drv, "-cases", cases, "-out", trace], timeout=3000)
        ctx.log("driver: %d cases executed on real key objects in %.1fs" % (n, r.wall))
        mism, nev = ctx.validate_events("Trace_KeyLaws", trace, shards=max(2, min(12, n // 500)), max_findings=8,
                                        stage="T:Trace_KeyLaws", timeout=3000)
        if fm:
            fm.result()
    if nev != n:
        ctx.infra("driver wrote %d events for %d cases" % (nev, n))
    ctx.cov["traces_validated_against_impl"] += nev
    exp = take(ctx, mism)
    lines = open(trace).read().splitlines()
    for k in (len(lines) // 7, len(lines) // 2):
        ctx.sample(slim(json.loads(lines[k])))
    ctx.cov["observations"] = observations(trace)
    settle(ctx, exp)
    # negative control on the accepted part of the trace: without the class of events (kind of case, family, key kind) of
    # every rejected event -- the trace spec reports a signature once, so repetitions of a known finding stay in the trace
    if ctx.violations:
        return

    def cls(e):
        k = e["keys"][0]
        return (e["ev"], e["why"], k["kt"], k["kind"])

    rejected = {cls(m["event"]) for m in mism}
    clean = os.path.join(ctx.scratch, "x05.accepted.ndjson")
    with open(clean, "w") as f:
        f.write("\n".join(x for x in lines if cls(json.loads(x)) not in rejected) + "\n")
    ctx.negative_control("Trace_KeyLaws", clean, corrupt)

MANIFEST = dict(
    category="model_checking",
    text=("KeyLaws.tla states what key.Key / key.Parameters promise for all 42 key types as judgements over observations of tuples "
          "of abstract keys [family, kind, parameter record, material, id]: Equal is an equivalence on keys and on parameters, "
          "false across Go types, implies Equal parameters / same IDRequirement / same OutputPrefix / same accessor values; keys "
          "from equal inputs are Equal and keys differing in one field, the material, the id or the kind are not; IDRequirement = "
          "(id, true) iff HasIDRequirement iff variant # NO_PREFIX, and no constructor lets a non-zero id into a key without id "
          "requirement; OutputPrefix / JWT KID are the documented functions of (variant, id); PublicKey() is stable, corresponds "
          "and IS the public key built from the same inputs; accessors are stable; Parameters() is what was given.  MC_KeyLaws "
          "checks the judgements on a reference model and requires 21 faulty models to be rejected by the named law; "
          "Plan_KeyLaws enumerates tuples from KeyParams.Cases (one-field-different for every field and value) and every pair "
          "of Go key types; the driver builds the real objects and TLC judges every recorded relation."),
    note=("Growth check (not one of the 20 listed properties).  'doc:' judgements contradict godoc (VIOLATION), 'exp:' ones are "
          "as-built expectations (exit 2) and are listed under coverage.observations.  No hooks (public API only)."),
    technique="TLA+ decision procedure + TLC exhaustive model checking with fault models + TLC-generated cases replayed into real code + TLC trace validation",
    design_ref="DESIGN.md section 8 (growth), Appendix A (KeyParams inventory), section 6 C12 (keyfactory)",
)
